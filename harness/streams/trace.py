"""Stream `trace` (C04): every bounded object the engine creates while a comparison is refined, observed PASSIVELY.

A case = a pair of documents (JSON values, or node specs built through the library API), build options, a driving
mode and the quiet flag:

    mode "diff"      TreeNode.diff                       (while edit.valid and not edit.is_complete() and edit.tighten_bounds())
    mode "edited"    TreeNode.diff + EditedTreeNode.edited_cost()
    mode "exhaust"   e = A.edits(B); while e.tighten_bounds(): e.bounds()
    mode "contexts"  list(A.get_all_edits(B))

`harness.lazyinst` records what the ENGINE observes on every object implementing the Bounded protocol; no call is ever
added on a nested object.  The worker evaluates C04 on every object's event list (`lazyinst.check_object`) and ships
the hits and per-class statistics; the root edit's depth-0 events are shipped in full (they are the operation history
the Lean model replays) and the monitor re-evaluates C04 on them independently.  Every case is re-run with the
instrumentation removed and must give the same final cost and script.
"""
import json

from . import script as S
from .. import lazyinst as L

NAME = "trace"
MODES = ["diff", "edited", "exhaust", "contexts"]
import os as _os
_MULT = int(_os.environ.get("VERIF_LIMIT_MULT", "1"))     # the engine re-runs a watchdog hit with generous limits
MAX_STEPS = 60000 * _MULT


# ------------------------------------------------------------------------------------------------ generation

API_SCALARS = [0, 1, 2, 12, "a", "ab", "abc", "abd", "", None, True, "hello", "help"]


def gen_spec(r, d=0, maxd=2):
    """Node spec for trees built through the library API: scalar | {"n": kind, "c": [...]}"""
    k = r.random()
    if d >= maxd or k < 0.4:
        return r.choice(API_SCALARS)
    n = r.randint(0, 4)
    kind = "mset" if k < 0.75 else "list"
    cs = [gen_spec(r, d + 1, maxd) for _ in range(n)]
    if cs and r.random() < 0.06:
        cs.append(json.loads(json.dumps(r.choice(cs))))      # a duplicate element (defect `dup-multiset`: keep few)
    return {"n": kind, "c": cs}


def mutate_spec(r, x, d=0):
    if r.random() < 0.15:
        return gen_spec(r, d)
    if isinstance(x, dict):
        cs = [mutate_spec(r, c, d + 1) if r.random() < 0.4 else c for c in x["c"]]
        if cs and r.random() < 0.3:
            cs.pop(r.randrange(len(cs)))
        if r.random() < 0.3:
            cs.insert(r.randint(0, len(cs)), gen_spec(r, d + 1))
        if cs and r.random() < 0.04:
            cs.append(json.loads(json.dumps(r.choice(cs))))
        r.shuffle(cs) if x["n"] == "mset" and r.random() < 0.5 else None
        return {"n": x["n"], "c": cs}
    if r.random() < 0.5:
        return S.almost(r, x)
    return x


API_FORCED = [
    ({"n": "mset", "c": [1, 1, 2]}, {"n": "mset", "c": [1, 2, 2]}),
    ({"n": "mset", "c": ["ab", "ab", "abc"]}, {"n": "mset", "c": ["abd", "ab"]}),
    ({"n": "mset", "c": [{"n": "list", "c": [1, 2]}, {"n": "list", "c": [1, 2]}]}, {"n": "mset", "c": [{"n": "list", "c": [1, 3]}]}),
    ({"n": "mset", "c": []}, {"n": "mset", "c": [1]}),
    ({"n": "list", "c": [{"n": "mset", "c": [1, 2]}, "a"]}, {"n": "list", "c": ["a", {"n": "mset", "c": [2, 3, 3]}]}),
    ({"n": "mset", "c": ["hello", "help", "hello"]}, {"n": "mset", "c": ["help", "helo", "hellp"]}),
]


# defect `coll-ub` (D24): FixedKeyDictNodeEdit's static upper bound from.total_size + to.total_size + 1 is exceeded by
# its sub-edits when short scalars face nulls (LeafNode.edits(NullNode) costs lev(str(x), "None"), a null has size 0)
COLLUB_OPTS = {"allow_key_edits": False, "auto_match_keys": False, "allow_list_edits": False}
COLLUB_FORCED = [
    ({"k": [""] * 5}, {"k": [None] * 5}),
    ({"k": [1] * 10}, {"k": [None] * 10}),
]


def nw(x):
    """null leaves reachable through lists only"""
    if x is None:
        return 1
    if isinstance(x, list):
        return sum(nw(c) for c in x)
    return 0


def outside_fk_domain(case):
    """JSON cases: fixed-key dictionaries are in use and some value v under key k of the to-document has
    3 * nw(v) > 2 * len(k) + 5 (the Lean domain predicate `Tree.fkOK` fails: see NOTES_C04, defect `coll-ub`)"""
    if case.get("api") or case.get("opts", {}).get("allow_key_edits", True):
        return False

    def bad(x):
        if isinstance(x, dict):
            return any(3 * nw(v) > 2 * len(k) + 5 or bad(v) for k, v in x.items())
        if isinstance(x, list):
            return any(bad(c) for c in x)
        return False
    return bad(case["t"])


SK_WORDS = ["id", "title", "name", "body", "k", "x", "y", "z", "a", "b", "c", "d"]
LONG = "release notes for version 2: " + "lorem ipsum dolor sit amet " * 3
SKEW_FORCED = [
    ({"settings": {"id": 7, "title": "release notes"}}, {"settings": {"name": "release notes", "body": LONG}}, {}),
    ({"k": {"a": 1, "b": "y" * 20}}, {"k": {"c": "y" * 20, "d": "y" * 10 + "z" * 60}}, {}),
    ({"k": {"a": 1, "b": "y" * 20}, "n": 1}, {"k": {"c": "y" * 20, "d": "y" * 10 + "z" * 60}, "n": 1}, {"auto_match_keys": False}),
]


def gen_skewed(r):
    """A mapping under an unchanged key whose own keys were renamed and where one value dwarfs the others: the inner
    comparison starts with an upper bound far above the cost of replacing the whole pair."""
    nf, nt = r.randint(2, 3), r.randint(2, 3)
    fk = r.sample(SK_WORDS, nf)
    rest = [w for w in SK_WORDS if w not in fk]
    tk = r.sample(rest, nt) if r.random() < 0.7 else r.sample(rest, nt - 1) + [r.choice(fk)]
    small = lambda: r.choice([1, 7, 12, "ab", "abc", "y" * r.randint(1, 20), True, None])
    long_ = r.choice(["y", "z", "ab"]) * r.randint(10, 40) + r.choice(["", "q" * r.randint(5, 30)])
    f = {k: small() for k in fk}
    t = {k: small() for k in tk}
    if r.random() < 0.8:
        t[r.choice(tk)] = long_
    else:
        f[r.choice(fk)] = long_
    if r.random() < 0.6:                       # a value that merely moved to a renamed key
        t[r.choice(tk)] = f[r.choice(fk)]
    outer = r.choice(["k", "settings"])
    fd, td = {outer: f}, {outer: t}
    if r.random() < 0.4:
        fd["n"] = td["n"] = 1
    if r.random() < 0.2:
        fd, td = [fd, 1], [td, 1]
    return fd, td


def gen(rng, tier):
    n = 900 if tier == "quick" else 60000
    cases = []
    for i, (f, t, o) in enumerate(SKEW_FORCED):
        for m in MODES:
            cases.append({"f": f, "t": t, "opts": o, "mode": m, "quiet": i % 2 == 0})
    for i in range(40 if tier == "quick" else n // 20):
        f, t = gen_skewed(rng)
        cases.append({"f": f, "t": t, "opts": rng.choice(S.OPT_SETS), "mode": rng.choice(MODES), "quiet": rng.random() < 0.6})
    for i, (f, t) in enumerate(COLLUB_FORCED):
        cases.append({"f": f, "t": t, "opts": COLLUB_OPTS, "mode": MODES[i % len(MODES)], "quiet": True})
    for i, (f, t) in enumerate(S.FORCED):
        for j, o in enumerate(S.OPT_SETS if tier != "quick" else [S.OPT_SETS[(i + k) % len(S.OPT_SETS)] for k in (0, 1)]):
            cases.append({"f": f, "t": t, "opts": o, "mode": MODES[(i + j) % len(MODES)], "quiet": (i + j) % 3 != 0})
    for i, (f, t) in enumerate(API_FORCED):
        for m in (MODES if tier != "quick" else [MODES[i % len(MODES)]]):
            cases.append({"api": True, "f": f, "t": t, "opts": {}, "mode": m, "quiet": True})
    for _ in range(n):
        a = S.gen_doc(rng)
        b = S.mutate(rng, a) if rng.random() < 0.85 else S.gen_doc(rng)
        cases.append({"f": a, "t": b, "opts": rng.choice(S.OPT_SETS), "mode": rng.choice(MODES), "quiet": rng.random() < 0.6})
    for _ in range(n // 5):
        a = gen_spec(rng)
        b = mutate_spec(rng, a) if rng.random() < 0.85 else gen_spec(rng)
        cases.append({"api": True, "f": a, "t": b, "opts": {}, "mode": rng.choice(MODES), "quiet": rng.random() < 0.6})
    return cases


def shrink(case):
    if case.get("api"):
        def subs(x):
            if isinstance(x, dict):
                cs = x["c"]
                for i in range(len(cs)):
                    yield {"n": x["n"], "c": cs[:i] + cs[i + 1:]}
                for i, c in enumerate(cs):
                    for s in subs(c):
                        yield {"n": x["n"], "c": cs[:i] + [s] + cs[i + 1:]}
                for c in cs:
                    yield c
            elif isinstance(x, str) and len(x) > 1:
                yield x[1:]
                yield x[:-1]
        for s in subs(case["f"]):
            yield dict(case, f=s)
        for s in subs(case["t"]):
            yield dict(case, t=s)
    else:
        for c in S.shrink(case):
            yield dict(c, mode=case["mode"], quiet=case.get("quiet", True))
    for m in MODES:
        if m != case["mode"]:
            yield dict(case, mode=m)
    if not case.get("quiet", True):
        yield dict(case, quiet=True)


# ------------------------------------------------------------------------------------------------ implementation side

_MD = []


class _EdgeProxy:
    """Stands in for one matcher edge during `make_distinct` and counts the tighten_bounds() steps it receives."""
    __slots__ = ("_lazy_real", "n")

    def __init__(self, real):
        self._lazy_real = real
        self.n = 0

    def bounds(self):
        return self._lazy_real.bounds()

    def tighten_bounds(self):
        self.n += 1
        return self._lazy_real.tighten_bounds()

    def __lt__(self, other):
        return self._lazy_real < getattr(other, "_lazy_real", other)

    def __repr__(self):
        return repr(self._lazy_real)


def _install_md_recorder():
    """Oracle of `make_distinct` (its visiting order depends on a third-party set order): per matcher, how many
    tighten_bounds() steps every edge received.  Keyed like the scipy recorder by the matcher's node paths."""
    import graphtage.matching as gm
    orig = gm.WeightedBipartiteMatcher._make_edges_distinct
    if getattr(orig, "_md_recorder", False):
        return

    def wrapped(self):
        if self._edges_are_distinct:
            return orig(self)
        real = self.edges
        prox = [[_EdgeProxy(e) for e in row] for row in real]
        self._edges = prox
        try:
            return orig(self)
        finally:
            self._edges = real
            try:
                _MD.append({"f": [S._vpath(n) for n in self.from_nodes], "t": [S._vpath(n) for n in self.to_nodes],
                            "counts": [[p.n for p in row] for row in prox]})
            except Exception as e:
                _MD.append({"error": repr(e)})
    wrapped._md_recorder = True
    gm.WeightedBipartiteMatcher._make_edges_distinct = wrapped


def worker_init():
    S.worker_init()          # scipy recorder (oracle of the matcher)
    _install_md_recorder()
    L.quiet_logging()
    set_quiet(True)


def set_quiet(q):
    import graphtage.printer as gp
    import graphtage.levenshtein as gl
    import graphtage.tree as gt
    gp.DEFAULT_PRINTER.quiet = q
    gl.DEFAULT_PRINTER.quiet = q
    gt.DEFAULT_PRINTER.quiet = q


def build_spec(x):
    import graphtage
    if isinstance(x, dict):
        cs = [build_spec(c) for c in x["c"]]
        if x["n"] == "mset":
            return graphtage.MultiSetNode(cs)
        return graphtage.ListNode(cs)
    if x is None:
        return graphtage.NullNode()
    if isinstance(x, bool):
        return graphtage.BoolNode(x)
    if isinstance(x, int):
        return graphtage.IntegerNode(x)
    if isinstance(x, float):
        return graphtage.FloatNode(x)
    return graphtage.StringNode(x)


def build(case, which):
    import graphtage
    from graphtage import json as gj
    if case.get("api"):
        return build_spec(case[which])
    t = gj.build_tree(case[which], graphtage.BuildOptions(**case.get("opts", {})))
    if case.get("plist"):
        # what the plist loader returns: the tree wrapped in a PLISTNode (whose edit is an EditCollection)
        from graphtage.plist import PLISTNode
        t = PLISTNode(t)
    return t


def drive(case, record_root):
    """Run the case's driving mode on fresh trees; returns (root edit, extra observations)."""
    A = build(case, "f")
    B = build(case, "t")
    mode = case["mode"]
    extra = {}
    if mode in ("diff", "edited"):
        ret = A.diff(B)
        e = ret.edit
        if mode == "edited":
            extra["edited_cost"] = int(ret.edited_cost())
    elif mode == "contexts":
        flat = list(A.get_all_edits(B))
        for x in flat:
            S._full(x)
        extra["flat_sum"] = sum(int(x.bounds().upper_bound) for x in flat)
        e = None
    else:
        e = A.edits(B)
        record_root(e)
        guard = 0
        while e.tighten_bounds():
            e.bounds()
            guard += 1
            if guard > MAX_STEPS:
                raise RuntimeError("tighten_bounds does not converge")
        e.bounds()
    return e, extra


def final_of(case, e, extra):
    """final cost + script of a driven root edit (None for mode contexts, which has no root edit)"""
    if e is None:
        return {"cost": extra.get("flat_sum"), "script": None}
    S._full(e)
    return {"cost": S._ub(e), "script": S.dump(e)}


def root_ops(ev):
    """depth-0 events of the root object -> the operation history [[op, result...], ...]"""
    ops = []
    for x in ev:
        if x[-1] != 0:
            continue
        if x[0] == "b":
            ops.append(["bounds", [x[1], x[2]]])
        elif x[0] == "t>":
            ops.append(["tighten", x[1]])
        elif x[0] == "c":
            ops.append(["complete", x[1]])
        elif x[0] == "v":
            ops.append(["valid", x[1]])
        elif x[0] == "e":
            ops.append(["edits"])
        elif x[0] == "x":
            ops.append(["raise", x[1]])
    return ops


def has_dup_mset(x):
    """api specs only: some multiset node has two equal elements (see NOTES: defect `dup-multiset`)"""
    if isinstance(x, dict):
        if x["n"] == "mset":
            keys = [json.dumps(c, sort_keys=True) for c in x["c"]]
            if len(set(keys)) != len(keys):
                return True
        return any(has_dup_mset(c) for c in x["c"])
    return False


def impl(case):
    try:
        with L.time_limit(12 * _MULT):
            return _impl(case)
    except L.Timeout:
        return {"err": "timeout", "hits": [], "stats": {}, "steps": 0, "root": [], "md": []}


def _impl(case):
    quiet = case.get("quiet", True)
    set_quiet(quiet)
    try:
        # ---- instrumented run
        L.install()
        del S._RECORD[:]
        del _MD[:]
        L.start(MAX_STEPS)
        root_holder = []
        err = None
        try:
            e, extra = drive(case, root_holder.append)
        except L.StepLimit:
            e, extra, err = None, {}, "step-limit"
        except BaseException as ex:      # an internal error of the engine is an observation
            e, extra, err = None, {}, "raise:" + type(ex).__name__ + ":" + str(ex)[:120]
        root_id = L.oid_of(e) if e is not None else (L.oid_of(root_holder[0]) if root_holder else None)
        steps = L._STATE["steps"]
        objs, events, md = L.stop()
        hits = []
        stats = {}
        for o, ev in zip(objs, events):
            cls = type(o).__name__
            L.check_object(cls, ev, hits, stats, label=f"{cls}#{objs.index(o) if False else ''}".rstrip("#"))
        md_bad = []
        for rec in md:
            fin = rec["final"]
            ok = all(x is not None for x in fin)
            if ok:
                for i in range(len(fin)):
                    for j in range(i + 1, len(fin)):
                        a, b = fin[i], fin[j]
                        if not ((L.definitive(a) and L.definitive(b)) or L._lt(a[1], b[0]) or L._lt(b[1], a[0])):
                            ok = False
            if not ok:
                md_bad.append(rec["final"])
        obs = {"hits": sorted(set(map(tuple, hits))), "stats": stats, "steps": steps, "err": err,
               "nobj": len(objs), "md": [{"n": r["n"], "counts": r["counts"]} for r in md if any(r["counts"])],
               "md_calls": len(md), "md_bad": md_bad[:3], "oracle": list(S._RECORD), "mdo": list(_MD)}
        obs["root"] = root_ops(events[root_id]) if root_id is not None else []
        obs["root_class"] = type(objs[root_id]).__name__ if root_id is not None else None
        if err == "step-limit":
            return obs
        if err is None:
            # the dump itself drives nested objects further (edits(), _full on leaves): do it uninstrumented
            L.uninstall()
            obs["final"] = final_of(case, e, extra)
            obs["extra"] = extra
        # ---- plain run, no instrumentation whatsoever
        L.uninstall()
        try:
            e2, extra2 = drive(case, lambda x: None)
            obs["plain"] = final_of(case, e2, extra2)
            obs["plain_extra"] = extra2
        except BaseException as ex:
            obs["plain"] = {"raise": type(ex).__name__ + ":" + str(ex)[:120]}
        # ---- canonical result: fresh trees, tighten to exhaustion, dump
        try:
            A = build(case, "f")
            B = build(case, "t")
            c = A.edits(B)
            S._full(c)
            obs["canon"] = {"cost": S._ub(c), "script": S.dump(c)}
        except BaseException as ex:
            obs["canon"] = {"raise": type(ex).__name__ + ":" + str(ex)[:120]}
        return obs
    finally:
        L.uninstall()
        set_quiet(True)


# ------------------------------------------------------------------------------------------------ model side

MODEL_READY = True
OPMAP = {"bounds": "bounds", "tighten": "tighten", "complete": "complete", "valid": "valid", "edits": "ondiff"}


def to_model(case, obs):
    from . import history as H
    if not MODEL_READY or not isinstance(obs, dict) or obs.get("error") or obs.get("err"):
        return None
    if case["mode"] == "contexts" or not H.in_model_domain(case) or "final" not in obs:
        return None
    if any(op[0] not in OPMAP for op in obs["root"]):
        return None
    o = case.get("opts", {})
    return {"s": "lazy", "f": S.enc(case["f"]), "t": S.enc(case["t"]),
            "ake": o.get("allow_key_edits", True), "amk": o.get("auto_match_keys", True),
            "ale": o.get("allow_list_edits", True), "alesl": o.get("allow_list_edits_when_same_length", True),
            "ops": [OPMAP[op[0]] for op in obs["root"]], "quiets": [bool(case.get("quiet", True))],
            "oracle": [[r for r in obs.get("oracle", []) if "pairs" in r]],
            "md": [[r for r in obs.get("mdo", []) if "counts" in r]]}


def expect(case, obs):
    return [{"results": [op[1] if len(op) > 1 else None for op in obs["root"]], "final": obs["final"]}]


# ------------------------------------------------------------------------------------------------ monitor

def _root_checks(ops, hits, cls):
    """C04 at the root, from the driver's own reads (independent re-evaluation on the shipped history)."""
    ev = []
    for op in ops:
        if op[0] == "bounds":
            ev.append(["b", op[1][0], op[1][1], 0])
        elif op[0] == "tighten":
            ev.append(["t<", 0])
            ev.append(["t>", op[1], 0])
        elif op[0] == "complete":
            ev.append(["c", op[1], 0])
        elif op[0] == "valid":
            ev.append(["v", op[1], 0])
        elif op[0] == "edits":
            ev.append(["e", 0])
        elif op[0] == "raise":
            ev.append(["x", op[1], 0])
    L.check_object("root:" + str(cls), ev, hits, {})


def monitor(case, obs):
    out = []
    dup = "dup-multiset:" if case.get("api") and (has_dup_mset(case["f"]) or has_dup_mset(case["t"])) else ""
    if outside_fk_domain(case):
        dup = "coll-ub:"

    def hit(key, what):
        out.append({"prop": "C04", "key": dup + key, "what": what})
    if not isinstance(obs, dict):
        return [{"prop": "C04", "key": "bad-observation", "what": repr(obs)[:200]}]
    if obs.get("error"):
        hit("internal-error:" + str(obs.get("exc", obs["error"])), f"{obs.get('exc')}: {obs.get('msg', '')}")
        return out
    if obs.get("err"):
        k = obs["err"].split(":")
        hit("no-termination" if k[0] in ("step-limit", "timeout") else "internal-error:" + k[1], obs["err"])
        if k[0] in ("step-limit", "timeout"):
            return out       # the run was cut short by a harness limit: what the other monitors see is an aborted state
    for key, what in obs.get("hits", []):
        hit(key, what)
    rh = []
    _root_checks(obs.get("root", []), rh, obs.get("root_class"))
    for key, what in rh:
        hit(key, what)
    for bad in obs.get("md_bad", []):
        hit("make-distinct-postcondition", f"make_distinct left overlapping non-definitive bounds {bad}")
    fin, plain, canon = obs.get("final"), obs.get("plain"), obs.get("canon")
    if fin is not None and plain is not None and fin != plain:
        hit("observer-effect", f"instrumented run gives {json.dumps(fin)[:150]}, plain run {json.dumps(plain)[:150]}")
    if fin is not None and canon is not None and fin.get("script") is not None:
        if "raise" in canon:
            hit("internal-error:canon", canon["raise"])
        elif fin["cost"] != canon["cost"]:
            hit("final-cost-differs-from-canonical", f"mode {case['mode']}: cost {fin['cost']}, canonical {canon['cost']}")
        if isinstance(fin.get("cost"), dict):
            hit("non-definitive-final", f"final cost {fin['cost']}")
        # root observations must contain the final cost
        if isinstance(fin.get("cost"), int):
            for op in obs.get("root", []):
                if op[0] == "bounds" and not L.contains(op[1], [fin["cost"], fin["cost"]]):
                    hit("unsound:root", f"root bounds {op[1]} do not contain the final cost {fin['cost']}")
                    break
    if fin is not None and fin.get("script") is None and canon is not None and "raise" not in canon:
        if fin["cost"] != canon["cost"]:
            hit("flat-sum-differs-from-canonical", f"sum of get_all_edits {fin['cost']}, canonical cost {canon['cost']}")
    return out


def classify(case, obs):
    if not isinstance(obs, dict) or obs.get("error"):
        return "error"
    st = obs.get("stats", {})
    cl = sorted(k.split(":")[1] for k in st if k.startswith("steps:") and k.split(":")[1] in
                ("EditDistance", "FixedLengthSequenceEdit", "MultiSetEdit", "FixedKeyDictNodeEdit", "WeightedBipartiteMatcher"))
    short = {"EditDistance": "ed", "FixedLengthSequenceEdit": "fx", "MultiSetEdit": "ms", "FixedKeyDictNodeEdit": "fk",
             "WeightedBipartiteMatcher": "wm"}
    steps = obs.get("steps", 0)
    sb = "0" if steps == 0 else "1-9" if steps < 10 else "10-99" if steps < 100 else "100-999" if steps < 1000 else "1000+"
    return f"{'api' if case.get('api') else 'json'}|{case['mode']}|{'q' if case.get('quiet', True) else 'nq'}|{'+'.join(short[c] for c in cl) or 'leaf'}|steps={sb}|md={min(len(obs.get('md', [])), 2)}"


def nontrivial(case, obs):
    return isinstance(obs, dict) and not obs.get("error") and obs.get("steps", 0) > 0

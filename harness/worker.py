"""Implementation worker: runs the REAL graphtage (imported from /repo's working tree) on cases.

Usage:  /venv/bin/python -m harness.worker <stream>      (cwd=/verif)
stdin : one JSON case per line;  stdout: one JSON observation per line (fd 3 duplicated; the
real stdout/stderr are redirected so library chatter cannot corrupt the protocol).
"""
import importlib, json, os, signal, sys, traceback


class Hang(BaseException):
    """raised by the watchdog; a BaseException so that `logging` (which swallows Exception raised while a
    handler runs) cannot eat it inside a library loop that logs on every round"""
    pass


def _alarm(signum, frame):
    raise Hang()


def main():
    stream = sys.argv[1]
    timeout = int(os.environ.get("VERIF_CASE_TIMEOUT", "20"))
    out = os.fdopen(os.dup(1), "w")
    devnull = os.open(os.devnull, os.O_WRONLY)
    os.dup2(devnull, 1)
    if os.environ.get("VERIF_WORKER_STDERR") != "1":
        os.dup2(devnull, 2)
    mod = importlib.import_module("harness.streams." + stream)
    import graphtage  # noqa: F401  -- fail loudly here if the tree does not import
    repo = os.environ.get("VERIF_REPO", "/repo")
    assert os.path.realpath(graphtage.__file__).startswith(os.path.realpath(repo) + os.sep), graphtage.__file__
    if hasattr(mod, "worker_init"):
        mod.worker_init()
    signal.signal(signal.SIGALRM, _alarm)
    hangs = 0
    for line in sys.stdin:
        line = line.strip()
        if not line:
            continue
        case = json.loads(line)
        try:
            # once several cases of this worker have run into the alarm, something loops: the rest gets a short leash, so
            # that a seeded non-termination costs minutes, not hours (every reported hit is re-run with generous limits)
            signal.alarm(timeout if hangs < 4 else max(2, timeout // 6))
            try:
                obs = mod.impl(case)
            finally:
                signal.alarm(0)
        except Hang:
            hangs += 1
            obs = {"error": "hang"}
        except RecursionError as e:
            obs = {"error": "internal", "exc": "RecursionError", "msg": str(e)[:200]}
        except BaseException as e:  # noqa
            obs = {"error": "internal", "exc": type(e).__name__, "msg": str(e)[:300],
                   "tb": traceback.format_exc()[-1500:]}
        out.write(json.dumps(obs, sort_keys=True) + "\n")
        out.flush()


if __name__ == "__main__":
    main()

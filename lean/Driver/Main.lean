import GtModel.Model.Proto
import Driver.Streams
open Lean GtModel

partial def loop (h : IO.FS.Stream) (out : IO.FS.Stream) : IO Unit := do
  let line ← h.getLine
  if line.isEmpty then return ()
  let line := line.trimAscii.toString
  if line.isEmpty then
    loop h out
  else
    let res : Json :=
      match Json.parse line with
      | .error e => jErr s!"parse: {e}"
      | .ok j =>
        match j.getObjVal? "s" >>= (·.getStr?) with
        | .error e => jErr s!"no stream: {e}"
        | .ok s =>
          match Driver.lookup s with
          | none => jErr s!"unknown stream {s}"
          | some hdl =>
            match hdl j with
            | .ok r => r
            | .error e => jErr e
    out.putStrLn res.compress
    loop h out

def main : IO Unit := do
  let stdin ← IO.getStdin
  let stdout ← IO.getStdout
  loop stdin stdout
  stdout.flush

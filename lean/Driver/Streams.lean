import GtModel.Model.Proto
import GtModel.Model.Range
open Lean GtModel

namespace Driver

def echo : Handler := fun j => pure j

def table : List (String × Handler) := [
  ("echo", echo),
  ("range", rangeHandler)
]

def lookup (s : String) : Option Handler := (table.find? (·.1 == s)).map (·.2)

end Driver

import GtModel.Model.Proto
import GtModel.Model.Range
import GtModel.Model.Edits
import GtModel.Model.Cli
import GtModel.Model.Formats
import GtModel.Model.Assign
import GtModel.Model.Bounded
import GtModel.Model.Search
import GtModel.Model.Heap
import GtModel.Model.BuilderDriver
import GtModel.Model.DispatchDriver
import GtModel.Model.Expr
import GtModel.Model.ExprHost
open Lean GtModel

namespace Driver

def echo : Handler := fun j => pure j

def table : List (String × Handler) := [
  ("echo", echo),
  ("range", rangeHandler),
  ("script", scriptHandler),
  ("cli", Cli.cliHandler),
  ("formats", Formats.formatsHandler),
  ("assign", Assign.assignHandler),
  ("bounded", GtModel.Bounded.boundedHandler),
  ("heap", Heap.heapHandler),
  ("build", GtModel.Builder.buildHandler),
  ("dispatch", Dispatch.dispatchHandler),
  ("dispatch_all", Dispatch.dispatchAllHandler),
  ("heapsel", Heap.selHandler),
  ("expr", Expr.exprHandler),
  ("errorpath", Cli.errorPathHandler),
  ("editmatrix", EditMatrix.editMatrixHandler),
  ("strscript", EditMatrix.strScriptHandler)
]

def lookup (s : String) : Option Handler := (table.find? (·.1 == s)).map (·.2)

end Driver

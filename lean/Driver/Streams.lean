import GtModel.Model.Proto
import GtModel.Model.Range
import GtModel.Model.Edits
import GtModel.Model.Cli
import GtModel.Model.Formats
import GtModel.Model.Assign
import GtModel.Model.Bounded
import GtModel.Model.Search
import GtModel.Model.Heap
import GtModel.Model.Lazy
import GtModel.Model.XmlEdits
import GtModel.Model.MSetEdits
import GtModel.Model.RoundTripIO
import GtModel.Model.Render
import GtModel.Proofs.RenderCheck
import GtModel.Model.BuilderDriver
import GtModel.Model.DispatchDriver
import GtModel.Model.Expr
import GtModel.Model.ExprHost
open Lean GtModel

namespace Driver

def echo : Handler := fun j => pure j

/-- stream `render`: the model's rendering plus the executable well-formedness check of the script -/
def renderChecked : Handler := fun j => do
  let r ← Render.renderHandler j
  let o ← optsOfJson j
  let f ← docOfJson (← j.getObjVal? "f")
  let t ← docOfJson (← j.getObjVal? "t")
  let orc ← oracleOfJson (← j.getObjVal? "oracle")
  let ft := build o f
  let tt := build o t
  let ok := Render.scriptOKB ft tt (edits o orc [] [] ft tt) && Render.litOK ft && Render.litOK tt
  pure (r.setObjVal! "wf" (Json.bool ok))

def table : List (String × Handler) := [
  ("echo", echo),
  ("range", rangeHandler),
  ("script", scriptHandler),
  ("cli", Cli.cliHandler),
  ("formats", Formats.formatsHandler),
  ("assign", Assign.assignHandler),
  ("bounded", GtModel.Bounded.boundedHandler),
  ("heap", Heap.heapHandler),
  ("lazy", Lazy.lazyHandler),
  ("scriptxml", Xml.xmlHandler),
  ("pyspace", Xml.spaceHandler),
  ("scriptmset", MSet.msetHandler),
  ("roundtrip", RoundTrip.roundtripHandler),
  ("render", renderChecked),
  ("build", GtModel.Builder.buildHandler),
  ("dispatch", Dispatch.dispatchHandler),
  ("dispatch_all", Dispatch.dispatchAllHandler),
  ("heapsel", Heap.selHandler),
  ("expr", Expr.exprHandler),
  ("errorpath", Cli.errorPathHandler),
  ("editmatrix", EditMatrix.editMatrixHandler),
  ("strscript", EditMatrix.strScriptHandler)
]

def lookup (s : String) : Option Handler := (table.find? (·.1 == s)).map (·.2)

end Driver

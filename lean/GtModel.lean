import GtModel.Model.Proto

-- GENERATED from /repo by harness/gentables.py on every run. Do not edit.
namespace GtModel.Gen

/-- FILETYPES_BY_TYPENAME in registration order: (type name, default MIME type, all MIME types) -/
def fileTypes : List (String × String × List String) := [
  ("json", "application/json", ["application/json", "application/x-javascript", "text/javascript", "text/x-javascript", "text/x-json"]),
  ("json5", "application/json5", ["application/json5", "text/x-json5"]),
  ("pickle", "application/python-pickle", ["application/python-pickle", "application/x-python-pickle"]),
  ("csv", "text/csv", ["text/csv"]),
  ("xml", "application/xml", ["application/xml", "text/xml"]),
  ("html", "text/html", ["text/html", "application/xhtml+xml"]),
  ("yaml", "application/x-yaml", ["application/x-yaml", "application/yaml", "text/yaml", "text/x-yaml", "text/vnd.yaml"]),
  ("plist", "application/x-plist", ["application/x-plist"])
]

/-- FILETYPES_BY_MIME: MIME type ↦ type name -/
def byMime : List (String × String) := [
  ("application/json", "json"),
  ("application/json5", "json5"),
  ("application/python-pickle", "pickle"),
  ("application/x-javascript", "json"),
  ("application/x-plist", "plist"),
  ("application/x-python-pickle", "pickle"),
  ("application/x-yaml", "yaml"),
  ("application/xhtml+xml", "html"),
  ("application/xml", "xml"),
  ("application/yaml", "yaml"),
  ("text/csv", "csv"),
  ("text/html", "html"),
  ("text/javascript", "json"),
  ("text/vnd.yaml", "yaml"),
  ("text/x-javascript", "json"),
  ("text/x-json", "json"),
  ("text/x-json5", "json5"),
  ("text/x-yaml", "yaml"),
  ("text/xml", "xml"),
  ("text/yaml", "yaml")
]

/-- exception classes caught by each type's `build_tree_handling_errors` (fully qualified) -/
def caught : List (String × List String) := [
  ("csv", []),
  ("html", ["xml.etree.ElementTree.ParseError", "builtins.LookupError", "builtins.ValueError"]),
  ("json", ["json.decoder.JSONDecodeError", "builtins.UnicodeDecodeError", "builtins.ValueError", "builtins.RecursionError"]),
  ("json5", ["builtins.ValueError", "builtins.RecursionError"]),
  ("pickle", ["fickling.fickle.PickleDecodeError", "builtins.NotImplementedError", "builtins.ValueError"]),
  ("plist", ["xml.parsers.expat.ExpatError", "builtins.ValueError", "builtins.IndexError", "builtins.AttributeError", "builtins.LookupError", "builtins.MemoryError", "builtins.OverflowError", "builtins.RecursionError"]),
  ("xml", ["xml.etree.ElementTree.ParseError", "builtins.LookupError", "builtins.ValueError"]),
  ("yaml", ["yaml.error.YAMLError", "builtins.ValueError", "builtins.AttributeError", "builtins.LookupError"])
]

/-- what each type's external parser raises on invalid syntax: the hand list of harness/gentables.py united with
    every class a seeded fuzz of the parser entry points raised in THIS run (on files an independent parser rejects) -/
def raisable : List (String × List String) := [
  ("html", ["xml.etree.ElementTree.ParseError", "builtins.LookupError", "builtins.ValueError", "builtins.UnicodeError"]),
  ("json", ["json.decoder.JSONDecodeError", "builtins.UnicodeDecodeError", "builtins.RecursionError", "builtins.ValueError"]),
  ("json5", ["builtins.ValueError", "builtins.UnicodeDecodeError", "builtins.RecursionError"]),
  ("plist", ["xml.parsers.expat.ExpatError", "plistlib.InvalidFileException", "builtins.ValueError", "builtins.IndexError", "builtins.AttributeError", "builtins.LookupError", "builtins.UnicodeError", "binascii.Error", "builtins.MemoryError"]),
  ("xml", ["xml.etree.ElementTree.ParseError", "builtins.LookupError", "builtins.ValueError", "builtins.UnicodeError"]),
  ("yaml", ["yaml.scanner.ScannerError", "yaml.parser.ParserError", "yaml.reader.ReaderError", "yaml.composer.ComposerError", "yaml.constructor.ConstructorError", "builtins.ValueError", "builtins.AttributeError", "builtins.KeyError", "builtins.IndexError"])
]

/-- method resolution order of every raisable class -/
def mro : List (String × List String) := [
  ("binascii.Error", ["binascii.Error", "builtins.ValueError", "builtins.Exception", "builtins.BaseException", "builtins.object"]),
  ("builtins.AttributeError", ["builtins.AttributeError", "builtins.Exception", "builtins.BaseException", "builtins.object"]),
  ("builtins.IndexError", ["builtins.IndexError", "builtins.LookupError", "builtins.Exception", "builtins.BaseException", "builtins.object"]),
  ("builtins.KeyError", ["builtins.KeyError", "builtins.LookupError", "builtins.Exception", "builtins.BaseException", "builtins.object"]),
  ("builtins.LookupError", ["builtins.LookupError", "builtins.Exception", "builtins.BaseException", "builtins.object"]),
  ("builtins.MemoryError", ["builtins.MemoryError", "builtins.Exception", "builtins.BaseException", "builtins.object"]),
  ("builtins.RecursionError", ["builtins.RecursionError", "builtins.RuntimeError", "builtins.Exception", "builtins.BaseException", "builtins.object"]),
  ("builtins.UnicodeDecodeError", ["builtins.UnicodeDecodeError", "builtins.UnicodeError", "builtins.ValueError", "builtins.Exception", "builtins.BaseException", "builtins.object"]),
  ("builtins.UnicodeError", ["builtins.UnicodeError", "builtins.ValueError", "builtins.Exception", "builtins.BaseException", "builtins.object"]),
  ("builtins.ValueError", ["builtins.ValueError", "builtins.Exception", "builtins.BaseException", "builtins.object"]),
  ("json.decoder.JSONDecodeError", ["json.decoder.JSONDecodeError", "builtins.ValueError", "builtins.Exception", "builtins.BaseException", "builtins.object"]),
  ("plistlib.InvalidFileException", ["plistlib.InvalidFileException", "builtins.ValueError", "builtins.Exception", "builtins.BaseException", "builtins.object"]),
  ("xml.etree.ElementTree.ParseError", ["xml.etree.ElementTree.ParseError", "builtins.SyntaxError", "builtins.Exception", "builtins.BaseException", "builtins.object"]),
  ("xml.parsers.expat.ExpatError", ["xml.parsers.expat.ExpatError", "builtins.Exception", "builtins.BaseException", "builtins.object"]),
  ("yaml.composer.ComposerError", ["yaml.composer.ComposerError", "yaml.error.MarkedYAMLError", "yaml.error.YAMLError", "builtins.Exception", "builtins.BaseException", "builtins.object"]),
  ("yaml.constructor.ConstructorError", ["yaml.constructor.ConstructorError", "yaml.error.MarkedYAMLError", "yaml.error.YAMLError", "builtins.Exception", "builtins.BaseException", "builtins.object"]),
  ("yaml.parser.ParserError", ["yaml.parser.ParserError", "yaml.error.MarkedYAMLError", "yaml.error.YAMLError", "builtins.Exception", "builtins.BaseException", "builtins.object"]),
  ("yaml.reader.ReaderError", ["yaml.reader.ReaderError", "yaml.error.YAMLError", "builtins.Exception", "builtins.BaseException", "builtins.object"]),
  ("yaml.scanner.ScannerError", ["yaml.scanner.ScannerError", "yaml.error.MarkedYAMLError", "yaml.error.YAMLError", "builtins.Exception", "builtins.BaseException", "builtins.object"])
]

end GtModel.Gen

/-
  GENERATED on every `./check C15` run by harness/props/c15.py from
  graphtage.matching.INTEGER_DTYPE_INTERVALS (do not edit by hand).
  Row = (lo, hi, numpy dtype name, numpy's true representable range np.iinfo(dtype).min/.max).
  `get_dtype` selects the first row with `lo <= min_value and hi > max_value`.
-/
namespace GtModel.Gen

structure DtypeRow where
  lo : Int
  hi : Int
  name : String
  trueLo : Int
  trueHi : Int
deriving Repr, DecidableEq

/-- `INTEGER_DTYPE_INTERVALS`, in source order. -/
def integerDtypeIntervals : List DtypeRow := [
  ⟨0, 256, "uint8", 0, 255⟩,
  ⟨0, 65536, "uint16", 0, 65535⟩,
  ⟨0, 4294967296, "uint32", 0, 4294967295⟩,
  ⟨0, 18446744073709551616, "uint64", 0, 18446744073709551615⟩,
  ⟨(-128), 128, "int8", (-128), 127⟩,
  ⟨(-32768), 32768, "int16", (-32768), 32767⟩,
  ⟨(-2147483648), 2147483648, "int32", (-2147483648), 2147483647⟩,
  ⟨(-9223372036854775808), 9223372036854775808, "int64", (-9223372036854775808), 9223372036854775807⟩
]

/-- `np.dtype(int)`, the fallback of `get_dtype` (its `lo`/`hi` fields repeat the true range). -/
def fallbackDtype : DtypeRow := ⟨(-9223372036854775808), 9223372036854775808, "int64", (-9223372036854775808), 9223372036854775807⟩

end GtModel.Gen

-- GENERATED from /repo by harness/gentables.py on every run. Do not edit.
import GtModel.Model.Dispatch
namespace GtModel.Gen
open GtModel.Dispatch

/-- graphtage.formatter.FORMATTERS: every non-partial formatter with its print_* methods and sub-formatter tree -/
def formatters : List Fmt := [
  .mk "GraphtageFormatter" [] [],
  .mk "StringFormatter" ["print_StringEdit", "print_StringNode"] [],
  .mk "JSONFormatter" ["print_ContainerNode", "print_KeyValuePairNode", "print_LeafNode", "print_XMLElement"] [
    .mk "JSONStringFormatter" ["print_StringEdit", "print_StringNode"] [],
    .mk "JSONListFormatter" ["print_ListNode", "print_SequenceNode"] [],
    .mk "JSONDictFormatter" ["print_MappingNode", "print_MultiSetNode", "print_SequenceNode"] []
  ],
  .mk "PyDiffFormatter" ["print_PyAlias", "print_Subscript"] [
    .mk "PyObjFormatter" ["print_Call", "print_CallArguments", "print_KeywordArgument", "print_PyObj", "print_PyObjAttribute", "print_PyObjAttributes", "print_PyObjFixedAttributes", "print_SequenceNode"] [
      .mk "PyListFormatter" ["print_ListNode", "print_SequenceNode"] [],
      .mk "PyDictFormatter" ["print_MappingNode", "print_MultiSetNode", "print_SequenceNode"] []
    ],
    .mk "PyImportFormatter" ["print_Assignment", "print_Import", "print_SequenceNode"] [
      .mk "PyListFormatter" ["print_ListNode", "print_SequenceNode"] []
    ],
    .mk "PyModuleFormatter" ["print_Module", "print_SequenceNode"] [
      .mk "PyListFormatter" ["print_ListNode", "print_SequenceNode"] []
    ],
    .mk "PyListFormatter" ["print_ListNode", "print_SequenceNode"] [],
    .mk "PyDictFormatter" ["print_MappingNode", "print_MultiSetNode", "print_SequenceNode"] []
  ],
  .mk "CSVFormatter" ["print_LeafNode"] [
    .mk "CSVRows" ["print_CSVNode", "print_SequenceNode"] [
      .mk "CSVRowFormatter" ["print_CSVRow", "print_SequenceNode"] []
    ],
    .mk "JSONFormatter" ["print_ContainerNode", "print_KeyValuePairNode", "print_LeafNode", "print_XMLElement"] [
      .mk "JSONStringFormatter" ["print_StringEdit", "print_StringNode"] [],
      .mk "JSONListFormatter" ["print_ListNode", "print_SequenceNode"] [],
      .mk "JSONDictFormatter" ["print_MappingNode", "print_MultiSetNode", "print_SequenceNode"] []
    ]
  ],
  .mk "XMLFormatter" ["print_LeafNode", "print_XMLElement"] [
    .mk "XMLStringFormatter" ["print_StringEdit", "print_StringNode"] [],
    .mk "XMLChildFormatter" ["print_ListNode", "print_SequenceNode"] [],
    .mk "XMLElementAttribFormatter" ["print_KeyValuePairNode", "print_MappingNode", "print_MultiSetNode", "print_SequenceNode"] []
  ],
  .mk "YAMLFormatter" ["print_ContainerNode", "print_LeafNode"] [
    .mk "YAMLStringFormatter" ["print_StringEdit", "print_StringNode"] [],
    .mk "YAMLDictFormatter" ["print_MappingNode", "print_MultiSetNode", "print_SequenceNode"] [
      .mk "YAMLKeyValuePairFormatter" ["print_KeyValuePairNode"] []
    ],
    .mk "YAMLListFormatter" ["print_ListNode", "print_SequenceNode"] []
  ],
  .mk "PLISTFormatter" ["print_BoolNode", "print_FloatNode", "print_IntegerNode", "print_LeafNode", "print_PLISTNode", "print_StringNode"] [
    .mk "PLISTSequenceFormatter" ["print_KeyValuePairNode", "print_ListNode", "print_MappingNode", "print_MultiSetNode", "print_SequenceNode"] []
  ]
]

/-- every TreeNode subclass: (name, MRO names, has a concrete print(), is abstract) -/
def nodeClasses : List (String × List String × Bool × Bool) := [
  ("Assignment", ["Assignment", "DataClassNode", "ContainerNode", "TreeNode", "Sized", "Generic", "ABC", "object"], true, false),
  ("BoolNode", ["BoolNode", "LeafNode", "TreeNode", "object"], true, false),
  ("CSVNode", ["CSVNode", "ListNode", "SequenceNode", "ContainerNode", "TreeNode", "Sized", "Generic", "ABC", "object"], true, false),
  ("CSVRow", ["CSVRow", "ListNode", "SequenceNode", "ContainerNode", "TreeNode", "Sized", "Generic", "ABC", "object"], true, false),
  ("Call", ["Call", "DataClassNode", "ContainerNode", "TreeNode", "Sized", "Generic", "ABC", "object"], true, false),
  ("CallArguments", ["CallArguments", "ListNode", "SequenceNode", "ContainerNode", "TreeNode", "Sized", "Generic", "ABC", "object"], true, false),
  ("CallKeywords", ["CallKeywords", "DictNode", "MappingNode", "MultiSetNode", "SequenceNode", "ContainerNode", "TreeNode", "Sized", "Generic", "ABC", "object"], true, false),
  ("ContainerNode", ["ContainerNode", "TreeNode", "Sized", "Generic", "ABC", "object"], false, true),
  ("CyclicReference", ["CyclicReference", "LeafNode", "TreeNode", "object"], true, false),
  ("DataClassNode", ["DataClassNode", "ContainerNode", "TreeNode", "Sized", "Generic", "ABC", "object"], true, false),
  ("DictNode", ["DictNode", "MappingNode", "MultiSetNode", "SequenceNode", "ContainerNode", "TreeNode", "Sized", "Generic", "ABC", "object"], true, false),
  ("FixedKeyDictNode", ["FixedKeyDictNode", "MappingNode", "SequenceNode", "ContainerNode", "TreeNode", "Sized", "Generic", "ABC", "object"], true, false),
  ("FloatNode", ["FloatNode", "LeafNode", "TreeNode", "object"], true, false),
  ("Import", ["Import", "DataClassNode", "ContainerNode", "TreeNode", "Sized", "Generic", "ABC", "object"], true, false),
  ("IntegerNode", ["IntegerNode", "LeafNode", "TreeNode", "object"], true, false),
  ("KeyValuePairNode", ["KeyValuePairNode", "ContainerNode", "TreeNode", "Sized", "Generic", "ABC", "object"], true, false),
  ("KeywordArgument", ["KeywordArgument", "KeyValuePairNode", "ContainerNode", "TreeNode", "Sized", "Generic", "ABC", "object"], true, false),
  ("LeafNode", ["LeafNode", "TreeNode", "object"], true, false),
  ("ListNode", ["ListNode", "SequenceNode", "ContainerNode", "TreeNode", "Sized", "Generic", "ABC", "object"], true, false),
  ("MappingNode", ["MappingNode", "ContainerNode", "TreeNode", "Sized", "Generic", "ABC", "object"], false, true),
  ("Module", ["Module", "ListNode", "SequenceNode", "ContainerNode", "TreeNode", "Sized", "Generic", "ABC", "object"], true, false),
  ("MultiSetNode", ["MultiSetNode", "SequenceNode", "ContainerNode", "TreeNode", "Sized", "Generic", "ABC", "object"], true, false),
  ("NullNode", ["NullNode", "LeafNode", "TreeNode", "object"], true, false),
  ("PLISTNode", ["PLISTNode", "ContainerNode", "TreeNode", "Sized", "Generic", "ABC", "object"], true, false),
  ("PyAlias", ["PyAlias", "DataClassNode", "ContainerNode", "TreeNode", "Sized", "Generic", "ABC", "object"], true, false),
  ("PyObj", ["PyObj", "ContainerNode", "TreeNode", "Sized", "Generic", "ABC", "object"], true, false),
  ("PyObjAttribute", ["PyObjAttribute", "DataClassNode", "ContainerNode", "TreeNode", "Sized", "Generic", "ABC", "object"], true, false),
  ("PyObjAttributes", ["PyObjAttributes", "DictNode", "MappingNode", "MultiSetNode", "SequenceNode", "ContainerNode", "TreeNode", "Sized", "Generic", "ABC", "object"], true, false),
  ("PyObjFixedAttributes", ["PyObjFixedAttributes", "FixedKeyDictNode", "MappingNode", "SequenceNode", "ContainerNode", "TreeNode", "Sized", "Generic", "ABC", "object"], true, false),
  ("SequenceNode", ["SequenceNode", "ContainerNode", "TreeNode", "Sized", "Generic", "ABC", "object"], true, true),
  ("StringNode", ["StringNode", "LeafNode", "TreeNode", "object"], true, false),
  ("Subscript", ["Subscript", "DataClassNode", "ContainerNode", "TreeNode", "Sized", "Generic", "ABC", "object"], true, false),
  ("XMLElement", ["XMLElement", "ContainerNode", "TreeNode", "Sized", "Generic", "ABC", "object"], true, false),
  ("XMLElementChildren", ["XMLElementChildren", "ListNode", "SequenceNode", "ContainerNode", "TreeNode", "Sized", "Generic", "ABC", "object"], true, false)
]

/-- every AbstractEdit subclass: (name, MRO names, has a concrete print(), is abstract) -/
def editClasses : List (String × List String × Bool × Bool) := [
  ("AbstractCompoundEdit", ["AbstractCompoundEdit", "AbstractEdit", "Debuggable", "CompoundEdit", "Edit", "Bounded", "Protocol", "Generic", "ABC", "object"], true, true),
  ("ConstantCostEdit", ["ConstantCostEdit", "AbstractEdit", "Debuggable", "Edit", "Bounded", "Protocol", "Generic", "ABC", "object"], true, false),
  ("DataClassEdit", ["DataClassEdit", "AbstractCompoundEdit", "AbstractEdit", "Debuggable", "CompoundEdit", "Edit", "Bounded", "Protocol", "Generic", "ABC", "object"], true, false),
  ("EditCollection", ["EditCollection", "AbstractCompoundEdit", "AbstractEdit", "Debuggable", "CompoundEdit", "Edit", "Bounded", "Protocol", "Generic", "ABC", "object"], true, false),
  ("EditDistance", ["EditDistance", "SequenceEdit", "AbstractCompoundEdit", "AbstractEdit", "Debuggable", "CompoundEdit", "Edit", "Bounded", "Protocol", "Generic", "ABC", "object"], true, false),
  ("EditSequence", ["EditSequence", "EditCollection", "AbstractCompoundEdit", "AbstractEdit", "Debuggable", "CompoundEdit", "Edit", "Bounded", "Protocol", "Generic", "ABC", "object"], true, false),
  ("FixedKeyDictNodeEdit", ["FixedKeyDictNodeEdit", "SequenceEdit", "EditCollection", "AbstractCompoundEdit", "AbstractEdit", "Debuggable", "CompoundEdit", "Edit", "Bounded", "Protocol", "Generic", "ABC", "object"], true, false),
  ("FixedLengthSequenceEdit", ["FixedLengthSequenceEdit", "SequenceEdit", "AbstractCompoundEdit", "AbstractEdit", "Debuggable", "CompoundEdit", "Edit", "Bounded", "Protocol", "Generic", "ABC", "object"], true, false),
  ("Insert", ["Insert", "ConstantCostEdit", "AbstractEdit", "Debuggable", "Edit", "Bounded", "Protocol", "Generic", "ABC", "object"], true, false),
  ("KeyValuePairEdit", ["KeyValuePairEdit", "AbstractCompoundEdit", "AbstractEdit", "Debuggable", "CompoundEdit", "Edit", "Bounded", "Protocol", "Generic", "ABC", "object"], true, false),
  ("Match", ["Match", "ConstantCostEdit", "AbstractEdit", "Debuggable", "Edit", "Bounded", "Protocol", "Generic", "ABC", "object"], true, false),
  ("MultiSetEdit", ["MultiSetEdit", "SequenceEdit", "AbstractCompoundEdit", "AbstractEdit", "Debuggable", "CompoundEdit", "Edit", "Bounded", "Protocol", "Generic", "ABC", "object"], true, false),
  ("PossibleEdits", ["PossibleEdits", "AbstractCompoundEdit", "AbstractEdit", "Debuggable", "CompoundEdit", "Edit", "Bounded", "Protocol", "Generic", "ABC", "object"], true, false),
  ("PyObjEdit", ["PyObjEdit", "AbstractCompoundEdit", "AbstractEdit", "Debuggable", "CompoundEdit", "Edit", "Bounded", "Protocol", "Generic", "ABC", "object"], true, false),
  ("Remove", ["Remove", "ConstantCostEdit", "AbstractEdit", "Debuggable", "Edit", "Bounded", "Protocol", "Generic", "ABC", "object"], true, false),
  ("Replace", ["Replace", "ConstantCostEdit", "AbstractEdit", "Debuggable", "Edit", "Bounded", "Protocol", "Generic", "ABC", "object"], true, false),
  ("SequenceEdit", ["SequenceEdit", "AbstractCompoundEdit", "AbstractEdit", "Debuggable", "CompoundEdit", "Edit", "Bounded", "Protocol", "Generic", "ABC", "object"], true, true),
  ("StringEdit", ["StringEdit", "AbstractEdit", "Debuggable", "Edit", "Bounded", "Protocol", "Generic", "ABC", "object"], true, false),
  ("XMLElementEdit", ["XMLElementEdit", "AbstractCompoundEdit", "AbstractEdit", "Debuggable", "CompoundEdit", "Edit", "Bounded", "Protocol", "Generic", "ABC", "object"], true, false)
]

end GtModel.Gen

-- GENERATED from /repo by harness/gentables.py on every run. Do not edit.
namespace GtModel.Gen

/-- wall clock / randomness / uninitialised memory / environment / id() / interpreter-global / `global`
    sites in the package: (kind, file, function, expression) -/
def nondetSites : List (String × String × String × String) := [
  ("environment", "__main__.py", "main", "sys.argv"),
  ("environment", "utils.py", "__enter__", "tf.NamedTemporaryFile"),
  ("environment", "utils.py", "__exit__", "os.unlink"),
  ("environment-import", "utils.py", "<module>", "import tempfile as tf"),
  ("global-statement", "printer.py", "_init_colorama", "_COLORAMA_INITIALIZED"),
  ("id", "bounds.py", "__lt__", "id(other)"),
  ("id", "bounds.py", "__lt__", "id(self)"),
  ("id", "builder.py", "__hash__", "id(self.object)"),
  ("id", "fibonacci.py", "__eq__", "id(other)"),
  ("id", "fibonacci.py", "__eq__", "id(self)"),
  ("id", "fibonacci.py", "__init__", "id(DefaultKey)"),
  ("id", "fibonacci.py", "__init__", "id(key)"),
  ("id", "object_set.py", "__eq__", "id(other.obj)"),
  ("id", "object_set.py", "__eq__", "id(self.obj)"),
  ("id", "object_set.py", "__hash__", "id(self.obj)"),
  ("module-state", "expressions.py", "__init__", "OPERATORS_BY_NAME[...] ="),
  ("module-state", "formatter.py", "__init__", "FORMATTERS.append"),
  ("module-state", "graphtage.py", "__init__", "FILETYPES_BY_MIME[...] ="),
  ("module-state", "graphtage.py", "__init__", "FILETYPES_BY_TYPENAME[...] ="),
  ("module-state", "printer.py", "only_ansi", "ONLY_ANSI_FUNCS.add")
]

end GtModel.Gen

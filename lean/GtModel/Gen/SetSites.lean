-- GENERATED from /repo by harness/gentables.py on every run. Do not edit.
namespace GtModel.Gen

/-- every place in the package where a `set`/`frozenset` is iterated: (file, function, how, expression) -/
def setSites : List (String × String × String × String) := [
  ("matching.py", "__iter__", "iter", "self._edges"),
  ("matching.py", "__repr__", "comprehension", "self._edges"),
  ("matching.py", "bounds", "comprehension", "self._edges"),
  ("matching.py", "free_destinations", "for", "destination.edges()"),
  ("matching.py", "free_sources", "for", "source.edges()"),
  ("matching.py", "symmetric_difference", "for", "ret._edges"),
  ("matching.py", "tighten_bounds", "for", "r"),
  ("matching.py", "tighten_bounds", "for", "y.edges()"),
  ("object_set.py", "__iter__", "for", "self.objs"),
  ("object_set.py", "__str__", "map", "self.objs"),
  ("printer.py", "__enter__", "for", "self.marks"),
  ("printer.py", "__exit__", "for", "self.marks - self._state_before"),
  ("printer.py", "marks_str", "join", "self._marks")
]

end GtModel.Gen

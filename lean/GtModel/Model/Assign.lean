/-
  L5 — assignment glue: `graphtage.matching.min_weight_bipartite_matching` and `get_dtype`
  (graphtage/matching.py:449-562) with the external solver `scipy.optimize.linear_sum_assignment`
  as a PARAMETER.

  Representation.
  * `from_nodes = range(n)`, `to_nodes = range(m)`; `get_edges` is the callback `cell : Nat → Nat → Option Cell`.
  * A weight is `Cell = (ty, w)`: `ty` is the Python type of the edge object (`int`/`bool`/`float`), `w` an
    integer.  For `int` tables `w` is the value (`unit = 1`); for `bool`, `False = 0`, `True = 1` (`unit = 1`);
    for `float` tables every weight is the dyadic rational `w / unit` (`unit` a power of two chosen by the
    harness so that every double of the table is an integer multiple of `1/unit`).  The only constant the
    Python code adds is the `+ 1` of the sentinel, which becomes `+ unit`; comparisons and sums are
    scale-invariant, so the model is exact on the doubles as long as Python's float column sums are exact
    (the harness checks this and only then consults the model).
  * This file imports only Lean core and the generated dtype table.
-/
import GtModel.Model.Proto
import GtModel.Gen.DtypeTable

namespace GtModel.Assign
open Lean GtModel.Gen

/-- Python type of an edge object. -/
inductive Ty | int | bool | float
deriving DecidableEq, Repr

structure Cell where
  ty : Ty
  w : Int
deriving DecidableEq, Repr

/-- The arguments of `min_weight_bipartite_matching(range(n), range(m), get_edges)`. -/
structure Input where
  n : Nat
  m : Nat
  unit : Nat
  cell : Nat → Nat → Option Cell

/-- A table given as a list of rows (`None` = no edge); indices outside the lists have no edge. -/
def cellOfRows (rows : List (List (Option Cell))) (i j : Nat) : Option Cell :=
  match rows[i]? with
  | some r => (match r[j]? with | some c => c | none => none)
  | none => none

/-- Exceptions the function can raise on numeric tables. -/
inductive Err | valueError | assertionError | overflowError
deriving DecidableEq, Repr

/-! ### `get_dtype` over the generated table -/

/-- `get_dtype(min_value, max_value)`: first row with `min_range <= min_value and max_range > max_value`;
    `none` = the fallback `np.dtype(int)`. -/
def getDtype (lo hi : Int) : Option DtypeRow :=
  integerDtypeIntervals.find? fun r => decide (r.lo ≤ lo) && decide (r.hi > hi)

/-- The dtype `get_dtype` returns (fallback made explicit). -/
def getDtypeRow (lo hi : Int) : DtypeRow := (getDtype lo hi).getD fallbackDtype

/-! ### Everything before the solver call -/

/-- `itertools.product(enumerate(from_nodes), enumerate(to_nodes))`: row-major index pairs. -/
def indices (n m : Nat) : List (Nat × Nat) :=
  (List.range n).flatMap fun i => (List.range m).map fun j => (i, j)

/-- The non-`None` edges in visiting order. -/
def present (inp : Input) : List Cell := (indices inp.n inp.m).filterMap fun p => inp.cell p.1 p.2

/-- `has_null_edges`. -/
def hasNull (inp : Input) : Bool := (indices inp.n inp.m).any fun p => (inp.cell p.1 p.2).isNone

/-- `max_edge` after the scan (`if max_edge is None or max_edge < edge: max_edge = edge`). -/
def maxEdge (c : Cell) (rest : List Cell) : Int := rest.foldl (fun mx e => if mx < e.w then e.w else mx) c.w

/-- `min_edge` after the scan (`if min_edge is None or min_edge > edge: min_edge = edge`). -/
def minEdge (c : Cell) (rest : List Cell) : Int := rest.foldl (fun mn e => if mn > e.w then e.w else mn) c.w

/-- `sum(weights[row][col] for row in range(n) if weights[row][col] is not None)`. -/
def colSum (inp : Input) (j : Nat) : Int :=
  (((List.range inp.n).filterMap fun i => inp.cell i j).map (·.w)).sum

/-- Python `max(iterable)`; `none` = `ValueError` on the empty iterable. -/
def maxOfList : List Int → Option Int
  | [] => none
  | x :: xs => some (xs.foldl (fun a b => if a < b then b else a) x)

/-- least element; `none` on the empty list. -/
def minOfList : List Int → Option Int
  | [] => none
  | x :: xs => some (xs.foldl (fun a b => if b < a then b else a) x)

/-- `max(column sums) + 1` (scaled: `+ unit`). -/
def nullValue (inp : Input) : Option Int :=
  (maxOfList ((List.range inp.m).map (colSum inp))).map (· + (inp.unit : Int))

/-- `weights[i][j]` after the fill loop, as a number. -/
def filledW (inp : Input) (null : Int) (i j : Nat) : Int :=
  match inp.cell i j with
  | some c => c.w
  | none => null

/-- State of the function at the solver call. -/
structure Prep where
  hasNull : Bool
  /-- `null_edge_value` (only meaningful when `hasNull`) -/
  null : Int
  ty : Ty
  /-- `str(dtype)` of the numpy matrix -/
  dtype : String
  /-- the numpy matrix handed to the solver, entry by entry (scaled by `unit`) -/
  shown : Nat → Nat → Int

/-- `np.array(weights, dtype=<integer dtype d>)` raises `OverflowError` (numpy ≥ 2) when a Python int lies outside
    `np.iinfo(d)`.  `min_edge`/`max_edge` bound all entries (the sentinel became `max_edge`). -/
def fitsDtype (d : DtypeRow) (mn mx : Int) : Bool := decide (d.trueLo ≤ mn) && decide (mx ≤ d.trueHi)

/-- Lines 530-540: the sentinel for missing pairs.  Returns `(null_edge_value, max_edge)` after the block.
    `isinstance(edge_type, bool)` is always False (`edge_type` is a type object), so no ValueError for bool here. -/
def nullStep (inp : Input) (mx : Int) : Except Err (Int × Int) :=
  if hasNull inp then
    match nullValue inp with
    | none => .error .valueError               -- `max()` of an empty sequence (unreachable: m ≥ 1 here)
    | some nv => if nv > mx then .ok (nv, nv) else .error .assertionError
  else .ok (0, mx)

/-- Lines 542-557: dtype choice, fill, `np.array(weights, dtype=dtype)`. -/
def convert (inp : Input) (ty : Ty) (null mn mx : Int) : Except Err Prep :=
  match ty with
  | .bool =>
    -- `np.array(weights, dtype=bool)`: every non-zero entry, the integer sentinel included, becomes True
    .ok ⟨hasNull inp, null, .bool, "bool", fun i j => if filledW inp null i j ≠ 0 then (inp.unit : Int) else 0⟩
  | .float => .ok ⟨hasNull inp, null, .float, "float64", filledW inp null⟩
  | .int =>
    let d := getDtypeRow mn mx
    if fitsDtype d mn mx then .ok ⟨hasNull inp, null, .int, d.name, filledW inp null⟩
    else .error .overflowError

/-- Lines 503-557: scan, type check, sentinel, assert, dtype choice, fill.  `ok none` = early `return {}`. -/
def prepare (inp : Input) : Except Err (Option Prep) :=
  match present inp with
  | [] => .ok none                                   -- `if edge_type is None: return {}`
  | c :: rest =>
    if !(rest.all fun e => decide (e.ty = c.ty)) then .error .valueError   -- edge type mismatch
    else
      match nullStep inp (maxEdge c rest) with
      | .error e => .error e
      | .ok (null, mx') =>
        match convert inp c.ty null (minEdge c rest) mx' with
        | .error e => .error e
        | .ok p => .ok (some p)

/-! ### The solver interface -/

/-- What the solver is shown. -/
structure Dense where
  n : Nat
  m : Nat
  dtype : String
  ent : Nat → Nat → Int

/-- `(row_ind, col_ind)` as returned by `linear_sum_assignment`. -/
structure Ans where
  rows : List Nat
  cols : List Nat
deriving Repr, DecidableEq

/-- Structural part of the solver contract. -/
def Ans.Valid (n m : Nat) (a : Ans) : Prop :=
  a.rows.length = min n m ∧ a.cols.length = min n m ∧ a.rows.Nodup ∧ a.cols.Nodup ∧
  (∀ r ∈ a.rows, r < n) ∧ (∀ c ∈ a.cols, c < m)

instance (n m : Nat) (a : Ans) : Decidable (a.Valid n m) := by unfold Ans.Valid; infer_instance

/-- Total weight of an assignment on a matrix. -/
def total (ent : Nat → Nat → Int) (a : Ans) : Int := ((a.rows.zip a.cols).map fun p => ent p.1 p.2).sum

/-- The solver contract: a full-size one-to-one assignment of minimum total weight on the matrix shown. -/
def Contract (d : Dense) (a : Ans) : Prop :=
  a.Valid d.n d.m ∧ ∀ b : Ans, b.Valid d.n d.m → total d.ent a ≤ total d.ent b

/-! ### After the solver call -/

structure Pair where
  f : Nat
  t : Nat
  ty : Ty
  w : Int
deriving Repr, DecidableEq

/-- The returned dict comprehension (lines 558-562), in `zip(row_ind, col_ind)` order.  A `None` cell was
    overwritten by the sentinel, for which the filter `sentinel < null_edge_value` is False. -/
def finish (inp : Input) (p : Prep) (a : Ans) : List Pair :=
  (a.rows.zip a.cols).filterMap fun ft =>
    match inp.cell ft.1 ft.2 with
    | some c => if !p.hasNull || decide (c.w < p.null) then some ⟨ft.1, ft.2, c.ty, c.w⟩ else none
    | none => none

def Prep.dense (inp : Input) (p : Prep) : Dense := ⟨inp.n, inp.m, p.dtype, p.shown⟩

/-- `min_weight_bipartite_matching` with the solver as a parameter. -/
def minWeightBipartiteMatching (solve : Dense → Ans) (inp : Input) : Except Err (List Pair) :=
  match prepare inp with
  | .error e => .error e
  | .ok none => .ok []
  | .ok (some p) => .ok (finish inp p (solve (p.dense inp)))

/-! ### Executable validation of a recorded solver answer -/

/-- All duplicate-free lists of length `k` over `range m` (most recent choice first). -/
def injections : Nat → Nat → List (List Nat)
  | 0, _ => [[]]
  | k + 1, m => (injections k m).flatMap fun l => ((List.range m).filter fun x => !l.contains x).map (· :: l)

/-- Brute force: the answer's total is ≤ the total of every candidate `(rows, cols)` pair of injections. -/
def isOptimalB (d : Dense) (a : Ans) : Bool :=
  let k := min d.n d.m
  let t := total d.ent a
  (injections k d.n).all fun rs => (injections k d.m).all fun cs => decide (t ≤ total d.ent ⟨rs, cs⟩)

/-- Reference optimum (`bruteMin`): least total over all candidate assignments. -/
def bruteMin (d : Dense) : Option Int :=
  let k := min d.n d.m
  minOfList ((injections k d.n).flatMap fun rs => (injections k d.m).map fun cs => total d.ent ⟨rs, cs⟩)

/-- Full executable contract check. -/
def validateB (d : Dense) (a : Ans) : Bool := decide (a.Valid d.n d.m) && isOptimalB d a

/-- Sum of |entries| of the matrix shown. -/
def absSum (d : Dense) : Nat :=
  ((indices d.n d.m).map fun p => (d.ent p.1 p.2).natAbs).sum

/-! ### Driver handler (stream `assign`) -/

def Ty.toStr : Ty → String
  | .int => "int" | .bool => "bool" | .float => "float"

def Err.toStr : Err → String
  | .valueError => "ValueError" | .assertionError => "AssertionError" | .overflowError => "OverflowError"

def jInt (i : Int) : Json := Json.num (JsonNumber.fromInt i)

def cellOfJson (j : Json) : Except String (Option Cell) :=
  match j with
  | .null => pure none
  | _ => do
    let a ← j.getArr?
    if h : a.size = 2 then
      let t ← a[0].getStr?
      let w ← a[1].getInt?
      match t with
      | "i" => pure (some ⟨.int, w⟩)
      | "b" => pure (some ⟨.bool, w⟩)
      | "f" => pure (some ⟨.float, w⟩)
      | _ => throw s!"cell type {t}"
    else throw "cell: expected [type, value]"

def TWO53 : Nat := 9007199254740992

/-- {"s":"assign","op":"match","n","m","unit","cells":[[null|[ty,w]]],"solver":null|{"rows","cols"}}
    ↦ {"result"|"raised", "dtype", "shown", "contract"};  {"op":"dtype","lo","hi"} ↦ {"dtype": name}. -/
def assignHandler : Handler := fun j => do
  let op ← getStr j "op"
  if op == "dtype" then
    let lo ← getInt j "lo"
    let hi ← getInt j "hi"
    return Json.mkObj [("dtype", Json.str (getDtypeRow lo hi).name), ("fallback", Json.bool (getDtype lo hi).isNone)]
  let n ← getNat j "n"
  let m ← getNat j "m"
  let unit ← getNat j "unit"
  let rowsJ ← getArr j "cells"
  let rows ← rowsJ.mapM fun r => do
    let a ← r.getArr?
    a.mapM cellOfJson
  if rows.size ≠ n then throw "cells: wrong number of rows"
  if rows.any (·.size ≠ m) then throw "cells: wrong row length"
  let cell : Nat → Nat → Option Cell := fun i k => (rows[i]?).bind fun r => (r[k]?).join
  let inp : Input := ⟨n, m, unit, cell⟩
  let solverJ ← j.getObjVal? "solver"
  let ans : Option Ans ← match solverJ with
    | .null => pure none
    | s => do
      let r ← jsonToNatList (← s.getObjVal? "rows")
      let c ← jsonToNatList (← s.getObjVal? "cols")
      pure (some ⟨r, c⟩)
  let na : Json := Json.null
  match prepare inp with
  | .error e =>
    if ans.isSome then throw "solver answer recorded but the model raises before the solver call"
    return Json.mkObj [("raised", Json.str e.toStr), ("dtype", na), ("shown", na), ("contract", Json.str "n/a")]
  | .ok none =>
    if ans.isSome then throw "solver answer recorded but the model returns {} before the solver call"
    return Json.mkObj [("result", Json.arr #[]), ("dtype", na), ("shown", na), ("contract", Json.str "n/a")]
  | .ok (some p) =>
    match ans with
    | none => throw "the model reaches the solver call but no solver answer was recorded"
    | some a =>
      if p.ty ≠ .float ∧ unit ≠ 1 then throw "unit must be 1 for int/bool tables"
      let d := p.dense inp
      let shown : Json := Json.arr ((List.range n).map fun i =>
        Json.arr ((List.range m).map fun k => jInt (d.ent i k)).toArray).toArray
      -- the solver contract: structure always; optimality when the brute force is affordable and float64 is exact
      let contract : String :=
        if !decide (a.Valid n m) then "violated:structure"
        else if n ≤ 6 ∧ m ≤ 6 ∧ absSum d < TWO53 * unit then
          (if isOptimalB d a then "opt" else "violated:not-minimal")
        else "struct"
      -- the function's own result, computed from the recorded answer
      let res := match minWeightBipartiteMatching (fun _ => a) inp with
        | .ok r => r
        | .error _ => []
      let sorted := (res.toArray.qsort fun x y => x.f < y.f || (x.f == y.f && x.t < y.t)).toList
      let resJ : Json := Json.arr (sorted.map fun q =>
        Json.arr #[Json.num (q.f : Nat), Json.num (q.t : Nat), Json.str q.ty.toStr, jInt q.w]).toArray
      return Json.mkObj [("result", resJ), ("dtype", Json.str p.dtype), ("shown", shown), ("contract", Json.str contract)]

end GtModel.Assign

/-
  L-bounded: `graphtage.bounds` — `Bounded` items as arbitrary finite trajectories, `BoundedComparator.__lt__/__le__`,
  `min_bounded`, `make_distinct` (relational in intervaltree's iteration order: choice function as parameter),
  `sort` (heap treated abstractly: replay + validation of the heap's comparison transcript).
  Only Lean core + the L0 Range model are imported.
-/
import GtModel.Model.Range

namespace GtModel.Bounded
open GtModel

/-! ## Items = trajectories -/

/-- A `Bounded` object: `cur` is what `bounds()` returns now, `rest` the ranges the following successful
`tighten_bounds()` calls will move to.  `pos` counts successful tightenings, `calls` all calls. -/
structure Item where
  cur : Range
  rest : List Range
  pos : Nat
  calls : Nat
deriving Repr, DecidableEq

namespace Item

def ofTraj : List Range → Option Item
  | [] => none
  | r :: rs => some ⟨r, rs, 0, 0⟩

/-- the whole remaining trajectory (non-empty) -/
def traj (it : Item) : List Range := it.cur :: it.rest

/-- `tighten_bounds()`: advance one position and answer `True`, or answer `False` at the last position. -/
def tighten (it : Item) : Bool × Item :=
  match it.rest with
  | [] => (false, { it with calls := it.calls + 1 })
  | r :: rs => (true, ⟨r, rs, it.pos + 1, it.calls + 1⟩)

end Item

/-- The collection: item `i` of the Python list is `σ[i]`. -/
abbrev St := List Item

/-- `items[i].tighten_bounds()` -/
def tightenAt (σ : St) (i : Nat) : Bool × St :=
  match σ[i]? with
  | none => (false, σ)
  | some it => ((it.tighten).1, σ.set i (it.tighten).2)

def curAt (σ : St) (i : Nat) : Option Range := (σ[i]?).map (·.cur)

/-- total number of tightenings still possible: the termination measure of every loop below -/
def total (σ : St) : Nat := (σ.map (fun it => it.rest.length)).sum

theorem total_set {σ : St} {i : Nat} {it x : Item} (h : σ[i]? = some it) :
    total (σ.set i x) + it.rest.length = total σ + x.rest.length := by
  induction σ generalizing i with
  | nil => simp at h
  | cons a as ih =>
    cases i with
    | zero => simp at h; subst h; simp [total]; omega
    | succ i =>
      simp at h
      have := ih h
      simp [total] at this ⊢
      omega

theorem Item.tighten_true {it : Item} (h : (it.tighten).1 = true) :
    (it.tighten).2.rest.length + 1 = it.rest.length := by
  unfold Item.tighten at *
  cases hr : it.rest <;> simp_all

theorem Item.tighten_false {it : Item} (h : (it.tighten).1 = false) :
    (it.tighten).2.rest.length = it.rest.length := by
  unfold Item.tighten at *
  cases hr : it.rest <;> simp_all

theorem total_tightenAt_true {σ : St} {i : Nat} (h : (tightenAt σ i).1 = true) :
    total (tightenAt σ i).2 + 1 = total σ := by
  unfold tightenAt at h ⊢
  split at h
  · simp at h
  · rename_i it hi
    have h1 := total_set (x := (it.tighten).2) hi
    have h2 := Item.tighten_true h
    simp only []
    omega

theorem total_tightenAt_false {σ : St} {i : Nat} (h : (tightenAt σ i).1 = false) :
    total (tightenAt σ i).2 = total σ := by
  unfold tightenAt at h ⊢
  split at h
  · rfl
  · rename_i it hi
    have h1 := total_set (x := (it.tighten).2) hi
    have h2 := Item.tighten_false h
    simp only []
    omega

theorem total_tightenAt_le (σ : St) (i : Nat) : total (tightenAt σ i).2 ≤ total σ := by
  cases h : (tightenAt σ i).1
  · rw [total_tightenAt_false h]; exact Nat.le_refl _
  · have := total_tightenAt_true h; omega

/-! ## `BoundedComparator` -/

/-- The `while` loop of `BoundedComparator.__lt__` for `self.bounded = items[i]`, `other.bounded = items[j]`:
```
while not (a.bounds().dominates(b.bounds()) or b.bounds().dominates(a.bounds()))
      and (a.tighten_bounds() or b.tighten_bounds()): pass
```
(short-circuit `or`: `b` is only asked when `a` answered `False`).  Well-founded on `total`. -/
def ltLoop (σ : St) (i j : Nat) : St :=
  match σ[i]?, σ[j]? with
  | some a, some b =>
    if a.cur.dominates b.cur || b.cur.dominates a.cur then σ
    else if h1 : (tightenAt σ i).1 = true then ltLoop (tightenAt σ i).2 i j
    else if h2 : (tightenAt (tightenAt σ i).2 j).1 = true then ltLoop (tightenAt (tightenAt σ i).2 j).2 i j
    else (tightenAt (tightenAt σ i).2 j).2
  | _, _ => σ
termination_by total σ
decreasing_by
  · have := total_tightenAt_true h1; omega
  · have := total_tightenAt_true h2; have := total_tightenAt_le σ i; omega

/-- `BoundedComparator(items[i]) < BoundedComparator(items[j])`; `idlt` is the oracle answer to
`id(self) < id(other)`. -/
def ltCmp (σ : St) (i j : Nat) (idlt : Bool) : Bool × St :=
  let σ' := ltLoop σ i j
  match σ'[i]?, σ'[j]? with
  | some a, some b => (a.cur.dominates b.cur || (a.cur == b.cur && idlt), σ')
  | _, _ => (false, σ')

/-- `while a.tighten_bounds() or b.tighten_bounds(): pass` -/
def fullTighten (σ : St) (i j : Nat) : St :=
  if h1 : (tightenAt σ i).1 = true then fullTighten (tightenAt σ i).2 i j
  else if h2 : (tightenAt (tightenAt σ i).2 j).1 = true then fullTighten (tightenAt (tightenAt σ i).2 j).2 i j
  else (tightenAt (tightenAt σ i).2 j).2
termination_by total σ
decreasing_by
  · have := total_tightenAt_true h1; omega
  · have := total_tightenAt_true h2; have := total_tightenAt_le σ i; omega

/-- `BoundedComparator.__le__` -/
def leCmp (σ : St) (i j : Nat) (idlt : Bool) : Bool × St :=
  let r := ltCmp σ i j idlt
  if r.1 then (true, r.2)
  else
    let σ2 := fullTighten r.2 i j
    (curAt σ2 i == curAt σ2 j, σ2)

/-! ## `min_bounded` -/

/-- the `for` loop of `min_bounded`; `orc k` answers `id(b) < id(best)` for the comparator made for item `k`. -/
def minLoop (orc : Nat → Bool) : St → List Nat → Option Nat → Option Nat × St
  | σ, [], best => (best, σ)
  | σ, k :: ks, none => minLoop orc σ ks (some k)
  | σ, k :: ks, some b =>
    let r := ltCmp σ k b (orc k)
    minLoop orc r.2 ks (if r.1 then some k else some b)

/-- `min_bounded(iter(items))`; `none` is Python's `None` for an empty collection. -/
def minBounded (orc : Nat → Bool) (σ : St) : Option Nat × St :=
  minLoop orc σ (List.range σ.length) none

/-! ## `make_distinct` -/

/-- an `intervaltree.Interval(lo, hi + 1, data=items[idx])` -/
structure Entry where
  idx : Nat
  lo : Int
  hi : Int
deriving DecidableEq, Repr

namespace Entry
/-- `m.end - m.begin` -/
def size (e : Entry) : Int := e.hi + 1 - e.lo
/-- does the interval overlap the query `[lo, hi + 1)` ? -/
def overlaps (e : Entry) (lo hi : Int) : Bool := decide (e.lo < hi + 1) && decide (lo < e.hi + 1)
end Entry

def finOf (r : Range) : Option (Int × Int) :=
  match r.lo, r.hi with
  | .fin a, .fin b => some (a, b)
  | _, _ => none

/-- `tree.add(iv)`: a set. -/
def treeAdd (tree : List Entry) (e : Entry) : List Entry := if tree.contains e then tree else tree ++ [e]

inductive MDRes where
  | ok (σ : St) (rounds : Nat)       -- returned normally after `rounds` iterations that removed something
  | valueError (σ : St)              -- "Could not tighten … to a finite bound"
  | fuel                             -- never returned (theorem `mdLoop_fuel`)
  | badChoice                        -- the oracle's choice was not an admissible iteration-order choice
  | hang                             -- the Python loop would spin forever (non-converging item)
  | unsupported                      -- input outside the modelled domain (a range that is not nested)
deriving Repr

/-- the first loop of `make_distinct`: tighten non-finite items once, insert all intervals -/
def mdInit : St → List Nat → List Entry → Except St (List Entry × St)
  | σ, [], tree => .ok (tree, σ)
  | σ, k :: ks, tree =>
    match σ[k]? with
    | none => .error σ
    | some it =>
      let σ1 := if it.cur.finite then σ else (tightenAt σ k).2
      match (curAt σ1 k).bind finOf with
      | some (lo, hi) => mdInit σ1 ks (treeAdd tree ⟨k, lo, hi⟩)
      | none => .error σ1

/-- the exit test of the inner loop: both definitive, or disjoint -/
def sepB (x y : Range) : Bool := (x.definitive && y.definitive) || Bound.lt x.hi y.lo || Bound.lt y.hi x.lo

/-- The inner `while True` of `make_distinct` on items `b`, `s`; `none` = spins forever. -/
def sepLoop (σ : St) (b s : Nat) : Option St :=
  match σ[b]?, σ[s]? with
  | some x, some y =>
    if sepB x.cur y.cur then some σ
    else if h : (tightenAt σ b).1 = true ∨ (tightenAt (tightenAt σ b).2 s).1 = true then
      sepLoop (tightenAt (tightenAt σ b).2 s).2 b s
    else none
  | _, _ => none
termination_by total σ
decreasing_by
  rcases h with h | h
  · have := total_tightenAt_true h; have := total_tightenAt_le (tightenAt σ b).2 s; omega
  · have := total_tightenAt_true h; have := total_tightenAt_le σ b; omega

/-- resolve an oracle answer (an item index) to a maximal-size member of the candidate set -/
def pick (k : Nat) (cands : List Entry) : Option Entry :=
  match cands.find? (fun e => e.idx == k) with
  | none => none
  | some e => if cands.all (fun m => decide (m.size ≤ e.size)) then some e else none

/-- `if tree.overlaps(new.begin, new.end): tree.add(new)` for item `k` -/
def readd (tree : List Entry) (σ : St) (k : Nat) : Option (List Entry) :=
  match (curAt σ k).bind finOf with
  | none => none
  | some (lo, hi) => some (if tree.any (fun e => e.overlaps lo hi) then treeAdd tree ⟨k, lo, hi⟩ else tree)

/-- a choice function: round number → (false: biggest in the tree | true: biggest among the matching) → candidates →
item index.  Every iteration order of intervaltree's sets is realised by some such function. -/
abbrev Choice := Nat → Bool → List Entry → Nat

/-- the main `while len(tree) > 1` loop -/
def mdLoop (ch : Choice) : Nat → Nat → List Entry → St → MDRes
  | 0, _, _, _ => .fuel
  | f + 1, r, tree, σ =>
    if tree.length ≤ 1 then .ok σ r else
    match pick (ch r false tree) tree with
    | none => .badChoice
    | some big =>
      match σ[big.idx]? with
      | none => .unsupported
      | some bi =>
        if bi.cur.definitive then .ok σ r else
        let tree1 := tree.erase big
        let matching := tree1.filter (fun e => e.overlaps big.lo big.hi)
        if matching.isEmpty then mdLoop ch f (r + 1) tree1 σ else
        match pick (ch r true matching) matching with
        | none => .badChoice
        | some sec =>
          let tree2 := tree1.erase sec
          match sepLoop σ big.idx sec.idx with
          | none => .hang
          | some σ' =>
            match readd tree2 σ' big.idx with
            | none => .unsupported
            | some tree3 =>
              match readd tree3 σ' sec.idx with
              | none => .unsupported
              | some tree4 => mdLoop ch f (r + 1) tree4 σ'

/-- `make_distinct(*items)` -/
def makeDistinct (ch : Choice) (σ : St) : MDRes :=
  match mdInit σ (List.range σ.length) [] with
  | .error σ1 => .valueError σ1
  | .ok (tree, σ1) => mdLoop ch (total σ1 + tree.length + 1) 0 tree σ1

/-- the iteration-order-independent default: first maximal element -/
def firstMax : List Entry → Option Entry
  | [] => none
  | e :: es => match firstMax es with
    | none => some e
    | some m => if m.size > e.size then some m else some e

/-! ## `sort`: the heap is abstract; its comparison transcript is replayed and validated -/

inductive SortEv where
  | cmp (i j : Nat) (idlt res : Bool)   -- the heap evaluated `key(items[i]) < key(items[j])` and got `res`
  | pop (i : Nat)                       -- `heap.pop()` returned `items[i]`
deriving Repr

structure SortSt where
  σ : St
  remaining : List Nat
  know : List (Nat × Nat)      -- (x, y): a comparison established  final x ≤ final y
  out : List Nat

/-- everything reachable from the members of `s` in one `know` step, added to `s` -/
def reachStep (know : List (Nat × Nat)) (s : List Nat) : List Nat :=
  s ++ (know.filter (fun p => s.contains p.1)).map (·.2)

def reachN (know : List (Nat × Nat)) : Nat → List Nat → List Nat
  | 0, s => s
  | n + 1, s => reachN know n (reachStep know s)

/-- is the popped element `m` below every other remaining element through performed comparisons? -/
def justified (know : List (Nat × Nat)) (remaining : List Nat) (m : Nat) : Bool :=
  let r := reachN know remaining.length [m]
  remaining.all (fun y => r.contains y)

inductive SortErr where
  | mismatch      -- a recorded comparison result differs from the model's `ltCmp`
  | notRemaining  -- popped something that is not in the heap
  | unjustified   -- the contract assumed of the heap is violated by this transcript
  | badIndex      -- a comparison mentions an item that does not exist
deriving Repr

def sortReplay : List SortEv → SortSt → Except SortErr SortSt
  | [], s => .ok s
  | .cmp i j idlt res :: evs, s =>
    let r := ltCmp s.σ i j idlt
    if s.σ.length ≤ i || s.σ.length ≤ j then .error .badIndex
    else if r.1 != res then .error .mismatch
    else sortReplay evs { s with σ := r.2, know := (if res then (i, j) else (j, i)) :: s.know }
  | .pop m :: evs, s =>
    if !s.remaining.contains m then .error .notRemaining
    else if !justified s.know s.remaining m then .error .unjustified
    else sortReplay evs { s with remaining := s.remaining.erase m, out := s.out ++ [m] }

def sortInit (σ : St) : SortSt := ⟨σ, List.range σ.length, [], []⟩

/-! ## JSON driver -/
open Lean

def itemsOfJson (j : Json) : Except String St := do
  let a ← j.getArr?
  a.toList.mapM fun t => do
    let rs ← (← t.getArr?).toList.mapM Range.ofJson
    match Item.ofTraj rs with
    | some it => pure it
    | none => throw "empty trajectory"

def stateJson (σ : St) : List (String × Json) :=
  [("pos", natListToJson (σ.map (·.pos))), ("calls", natListToJson (σ.map (·.calls)))]

def optNatJson : Option Nat → Json
  | none => Json.null
  | some n => Json.num (n : Nat)

def parseSortEv (j : Json) : Except String SortEv := do
  let a ← j.getArr?
  match a.toList with
  | [Json.str "c", i, k, idlt, res] => pure (.cmp (← i.getNat?) (← k.getNat?) (← idlt.getBool?) (← res.getBool?))
  | [Json.str "p", i] => pure (.pop (← i.getNat?))
  | _ => throw "bad sort event"

/-- rounds of `make_distinct` recovered from the recorded `remove` / `__getitem__` events -/
def parseRounds : List Json → Except String (List (Nat × Option Nat))
  | [] => pure []
  | e1 :: e2 :: rest => do
    match (← e1.getArr?).toList, (← e2.getArr?).toList with
    | [Json.str "rm", b], [Json.str "q", n] =>
      let b ← b.getNat?
      let n ← n.getNat?
      if n == 0 then
        let tl ← parseRounds rest
        pure ((b, none) :: tl)
      else
        match rest with
        | e3 :: rest' =>
          match (← e3.getArr?).toList with
          | [Json.str "rm", s] =>
            let s ← s.getNat?
            let tl ← parseRounds rest'
            pure ((b, some s) :: tl)
          | _ => throw "bad distinct events (second)"
        | [] => throw "bad distinct events (truncated)"
    | _, _ => throw "bad distinct events"
  | _ => throw "bad distinct events (odd)"

def choiceOf (rounds : List (Nat × Option Nat)) : Choice := fun r sec cands =>
  match rounds[r]? with
  | some (b, s) => if sec then s.getD 1000000000 else b
  | none => match firstMax cands with
    | some e => e.idx
    | none => 0

def boundedCore (op : String) (σ : St) (j : Json) : Except String Json := do
  match op with
  | "lt" | "le" =>
    let idlt ← getBool j "idlt"
    if σ.length != 2 then throw "lt/le need two items"
    let r := if op == "lt" then ltCmp σ 0 1 idlt else leCmp σ 0 1 idlt
    pure <| Json.mkObj (("res", Json.bool r.1) :: stateJson r.2)
  | "min" =>
    let cmps ← getArr j "cmps"
    let bits ← cmps.toList.mapM fun c => do
      let a ← c.getArr?
      match a.toList with
      | [i, _, b, _] => pure ((← i.getNat?), (← b.getBool?))
      | _ => throw "bad cmp"
    let orc : Nat → Bool := fun k => match bits.find? (·.1 == k) with
      | some p => p.2
      | none => false
    let r := minBounded orc σ
    pure <| Json.mkObj (("res", optNatJson r.1) :: ("ncmp", Json.num (σ.length - 1 : Nat)) :: stateJson r.2)
  | "distinct" =>
    let ev ← getArr j "ev"
    let rounds ← parseRounds ev.toList
    match makeDistinct (choiceOf rounds) σ with
    | .ok σ' r =>
      pure <| Json.mkObj (("err", Json.null) :: ("oracle", Json.str (if r == rounds.length then "ok" else s!"rounds {r} vs {rounds.length}")) :: stateJson σ')
    | .valueError σ' =>
      pure <| Json.mkObj (("err", Json.str "ValueError") :: ("oracle", Json.str (if rounds.length == 0 then "ok" else "rounds")) :: stateJson σ')
    | .fuel => throw "make_distinct: fuel"
    | .badChoice => throw "make_distinct: inadmissible oracle choice"
    | .hang => pure <| Json.mkObj [("error", Json.str "hang")]
    | .unsupported => throw "make_distinct: unsupported input"
  | "sort" =>
    let ev ← getArr j "ev"
    let evs ← ev.toList.mapM parseSortEv
    match sortReplay evs (sortInit σ) with
    | .ok s =>
      pure <| Json.mkObj (("out", natListToJson s.out) :: ("justified", Json.bool s.remaining.isEmpty) :: stateJson s.σ)
    | .error e => throw s!"sort replay: {repr e}"
  | _ => throw s!"unknown op {op}"

end GtModel.Bounded

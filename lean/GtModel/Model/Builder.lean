/-
  L6: `graphtage.builder` (Builder.build_tree work-stack machine, BasicBuilder, pydiff.PyObjBuilder),
  `graphtage.json.build_tree`, `to_obj()` of every node type, `TreeNode.copy()` / `copy_from`.
  Exact mirror of the current Python code; only Lean core is imported.

  Python object graphs are STORES: cell id ↦ payload, ids preserve sharing and cycles.
-/
import GtModel.Model.Proto
import GtModel.Gen.BuilderTable

namespace GtModel.Builder
open Lean

/-! ## Python side: scalars, stores -/

inductive Kind where
  | int | bool | float | str | bytes | none
deriving DecidableEq, Repr, Inhabited

/-- A scalar Python object.  `text` is an injective rendering inside the kind; the remaining fields are oracle
answers about CPython (not graphtage): `eqc` = class of `LeafNode.__eq__` on the payload (Python `==`, hash-compatible, with
every NaN in the one class "nan": graphtage 8b61c77), `str` = `str(obj)`,
`num` = exact rational value of an int/bool/float (denominator 0 = non-finite float: (0,0) NaN, (±1,0) ±inf), `dec` = utf-8 decoding of a bytes object. -/
structure Scalar where
  kind : Kind
  text : String
  eqc : String
  str : String
  num : Option (Int × Nat)
  dec : Option String
deriving DecidableEq, Repr, Inhabited

def Scalar.none : Scalar := ⟨.none, "", "none", "None", Option.none, Option.none⟩
/-- a fresh `str` object (class / attribute names yielded by `PyObjBuilder.default_expander`) -/
def Scalar.ofStr (s : String) : Scalar := ⟨.str, s, "s:" ++ s, s, Option.none, Option.none⟩

inductive Payload where
  | scalar (s : Scalar)
  | list (items : List Nat)
  | tuple (items : List Nat)
  | dict (items : List (Nat × Nat))
  | set (items : List Nat)                       -- set / frozenset, in iteration order
  | custom (cls : String) (attrs : List (String × Nat))   -- `dir()` order, standard dunders omitted
deriving Repr, Inhabited

structure Cell where
  mro : List String          -- `type(obj).__mro__` as names
  val : Payload
deriving Repr, Inhabited

abbrev Store := List Cell

/-- what the builders pass around: a stored object, or a fresh `str` made by `default_expander` -/
inductive Ref where
  | obj (id : Nat)
  | istr (s : String)
deriving DecidableEq, Repr, Inhabited

structure Opts where
  ake : Bool      -- allow_key_edits
  amk : Bool      -- auto_match_keys
  ale : Bool      -- allow_list_edits
  alesl : Bool    -- allow_list_edits_when_same_length
  chk : Bool      -- check_for_cycles
  ign : Bool      -- ignore_cycles
deriving DecidableEq, Repr, Inhabited

inductive BKind where
  | basic | pyobj
deriving DecidableEq, Repr, Inhabited

/-- exceptions raised by the per-type builders, `to_obj`, `copy_from`, `json.build_tree` -/
inductive BErr where
  | notImplemented     -- Builder.default_builder
  | typeError
  | valueError
  | assertion
  | unicodeDecode
  | recursion          -- json.build_tree on a cyclic object
  | badRef             -- dangling id (never produced by the harness)
  | unmodelled (what : String)
deriving DecidableEq, Repr, Inhabited

/-- outcome classes of `Builder.build_tree`: the cycle error is raised by the traversal only, never by a
per-type builder (by construction of this type) -/
inductive Err where
  | cycle              -- ValueError("Detected a cycle …")
  | outOfFuel          -- the step / depth budget of the model ran out (not a Python outcome)
  | build (e : BErr)
deriving DecidableEq, Repr, Inhabited

def BErr.name : BErr → String
  | .notImplemented => "NotImplementedError"
  | .typeError => "TypeError"
  | .valueError => "ValueError"
  | .assertion => "AssertionError"
  | .unicodeDecode => "UnicodeDecodeError"
  | .recursion => "RecursionError"
  | .badRef => "badRef"
  | .unmodelled w => "unmodelled:" ++ w

def Err.name : Err → String
  | .cycle => "cycle"
  | .outOfFuel => "outOfFuel"
  | .build e => e.name

def liftB {α} : Except BErr α → Except Err α
  | .ok a => .ok a
  | .error e => .error (.build e)

/-! ## graphtage trees -/

inductive LeafCls where
  | integer | bool | float | string | null
deriving DecidableEq, Repr, Inhabited

inductive Tag where
  | list (ale alesl : Bool)          -- ListNode
  | mset (amk : Bool)                -- MultiSetNode
  | dict (py : Bool) (amk : Bool)    -- DictNode / pydiff.PyObjAttributes
  | fdict (py : Bool)                -- FixedKeyDictNode / pydiff.PyObjFixedAttributes
  | kvp (kw : Bool) (ake : Bool)     -- KeyValuePairNode / ast.KeywordArgument
  | pyobj                            -- pydiff.PyObj  (children = [class_name, attrs])
deriving DecidableEq, Repr, Inhabited

inductive Tree where
  | leaf (c : LeafCls) (s : Scalar) (quoted : Bool)
  | cyc (target : Ref) (wraps : Nat)       -- builder.CyclicReference; `wraps` = IdentityHash layers
  | node (t : Tag) (cs : List Tree)
deriving Repr, Inhabited

/-- `node.children()` -/
def Tree.children : Tree → List Tree
  | .node _ cs => cs
  | _ => []

/-- which Python container holds `_children` (decides `SequenceNode.__eq__`) -/
inductive CKind where
  | tuple | counter | pdict | kvp | pyobj
deriving DecidableEq, Repr

def Tag.ckind : Tag → CKind
  | .list .. => .tuple
  | .mset .. => .counter
  | .dict .. => .counter
  | .fdict .. => .pdict
  | .kvp .. => .kvp
  | .pyobj => .pyobj

/-- `a == b` (and equal hashes, i.e. "same dictionary key") for two DISTINCT node objects.
`CyclicReference` and `PyObj` compare by identity, hence never equal here. -/
def Tree.pyEq : Tree → Tree → Bool
  | .leaf ca sa _, .leaf cb sb _ =>
      if ca = .null then cb = .null
      else (decide (sa.kind = .bool) == decide (sb.kind = .bool)) && sa.eqc == sb.eqc
  | .node ta as, .node tb bs =>
      match ta.ckind, tb.ckind with
      | .tuple, .tuple =>
          as.length == bs.length && (as.attach.zip bs).all (fun p => Tree.pyEq p.1.1 p.2)
      | .kvp, .kvp =>
          as.length == bs.length && (as.attach.zip bs).all (fun p => Tree.pyEq p.1.1 p.2)
      | .counter, .counter =>
          as.length == bs.length &&
            as.attach.all (fun x => Tree.pyEq x.1 x.1 &&      -- `self[e]` finds `e` by identity even if `e != e`
                                    (as.attach.filter (fun y => Tree.pyEq x.1 y.1)).length
                                      == (bs.filter (fun y => Tree.pyEq x.1 y)).length)
      | .pdict, .pdict =>
          as.length == bs.length && as.attach.all (fun x => bs.any (fun y => Tree.pyEq x.1 y))
      | _, _ => false
  | _, _ => false
termination_by a => sizeOf a
decreasing_by
  all_goals simp_wf
  all_goals (try (have := List.sizeOf_lt_of_mem p.1.2; omega))
  all_goals (try (have := List.sizeOf_lt_of_mem x.2; omega))

/-- `collections.Counter(items)` as an insertion-ordered association list -/
def counterAdd {α} (eq : α → α → Bool) (x : α) : List (α × Nat) → List (α × Nat)
  | [] => [(x, 1)]
  | (y, n) :: r => if eq y x then (y, n + 1) :: r else (y, n) :: counterAdd eq x r

def counterOf {α} (eq : α → α → Bool) (xs : List α) : List (α × Nat) :=
  xs.foldl (fun acc x => counterAdd eq x acc) []

/-- `Counter.elements()` -/
def counterElems {α} (c : List (α × Nat)) : List α :=
  c.flatMap (fun p => List.replicate p.2 p.1)

/-- `list(HashableCounter(items).elements())` -/
def mkCounter {α} (eq : α → α → Bool) (xs : List α) : List α := counterElems (counterOf eq xs)

/-- `d[k] = v` on an insertion-ordered dict: an existing equal key keeps its key object and position -/
def dictInsert {κ ν} (eq : κ → κ → Bool) (k : κ) (v : ν) : List (κ × ν) → List (κ × ν)
  | [] => [(k, v)]
  | (k0, v0) :: r => if eq k0 k then (k0, v) :: r else (k0, v0) :: dictInsert eq k v r

def dictOf {κ ν} (eq : κ → κ → Bool) (kvs : List (κ × ν)) : List (κ × ν) :=
  kvs.foldl (fun acc p => dictInsert eq p.1 p.2 acc) []

/-! ## `<` on nodes and CPython's `sorted` (used by `DictNode.from_dict`) -/

/-- `LeafNode._sort_key`: the total order used when two wrapped objects cannot be compared — by kind first
    (null, numbers, bytes, strings, the rest), then by text -/
def Scalar.sortKey (s : Scalar) : Nat × String :=
  match s.kind with
  | .none => (0, "")
  | .bool => (1, s.str)
  | .int => (1, s.str)
  | .float => (1, s.str)
  | .bytes => (2, s.str)
  | .str => (3, s.text)

/-- `a.object < b.object`, falling back to `_sort_key(a.object) < _sort_key(b.object)` on TypeError
    (`LeafNode.__lt__`) -/
def scalarLt (a b : Scalar) : Bool :=
  match a.num, b.num with
  | some (p, q), some (p', q') =>
      -- denominator 0 encodes the non-finite floats: (0, 0) = NaN, (1, 0) = +inf, (-1, 0) = -inf.
      -- Python: every `<` with a NaN operand is False; -inf < x for every other x except -inf; x < +inf likewise
      if (q = 0 ∧ p = 0) ∨ (q' = 0 ∧ p' = 0) then false
      else if q = 0 then decide (p < 0) && !(q' = 0 && decide (p' < 0))
      else if q' = 0 then decide (0 < p')
      else decide (p * (q' : Int) < p' * (q : Int))
  | _, _ =>
    if a.kind = .str ∧ b.kind = .str then decide (a.text < b.text)
    else if a.kind = .bytes ∧ b.kind = .bytes then decide (a.text < b.text)
    else
      let ka := a.sortKey
      let kb := b.sortKey
      decide (ka.1 < kb.1) || (ka.1 == kb.1 && decide (ka.2 < kb.2))

/-- Python `x < y` for two nodes. -/
def nodeLt : Tree → Tree → Except BErr Bool
  | .leaf ca sa _, y =>
      if ca = .null then
        match y with
        | .leaf .null _ _ => pure false
        | _ => pure true
      else
        match y with
        | .leaf _ sb _ => pure (scalarLt sa sb)
        | .cyc .. => throw (.unmodelled "str(IdentityHash)")
        | .node .. => throw (.unmodelled "str(container node)")
  | .cyc .., _ => throw (.unmodelled "str(IdentityHash)")
  | .node (.kvp ..) _, _ => throw (.unmodelled "KeyValuePairNode < node")
  | .node .., _ => throw .typeError

/-- `KeyValuePairNode.__lt__` between two key/value pairs -/
def kvpLt (a b : Tree) : Except BErr Bool :=
  match a, b with
  | .node (.kvp ..) [ka, va], .node (.kvp ..) [kb, vb] => do
      if (← nodeLt ka kb) then pure true
      else if Tree.pyEq ka kb then nodeLt va vb
      else pure false
  | _, _ => throw (.unmodelled "kvpLt on non-kvp")

section PySort
variable {α : Type}

/-- `count_run` (CPython 3.12 listobject.c): the maximal run after the first two elements -/
def takeRun (lt : α → α → Except BErr Bool) (desc : Bool) : α → List α → Except BErr (List α × List α)
  | _, [] => pure ([], [])
  | prev, x :: xs => do
      let b ← lt x prev
      if b == desc then
        let (r, rest) ← takeRun lt desc x xs
        pure (x :: r, rest)
      else pure ([], x :: xs)

/-- the `do … while (l < r)` loop of `binarysort` -/
def bsearch (lt : α → α → Except BErr Bool) (pivot : α) (a : Array α) (l r : Nat) : Except BErr Nat :=
  if _h : l < r then do
    let p := l + (r - l) / 2
    match a[p]? with
    | Option.none => throw (.unmodelled "bsearch index")
    | some ap =>
      if (← lt pivot ap) then bsearch lt pivot a l p
      else bsearch lt pivot a (p + 1) r
  else pure l
termination_by r - l
decreasing_by all_goals omega

def binInsertAll (lt : α → α → Except BErr Bool) : List α → List α → Except BErr (List α)
  | sorted, [] => pure sorted
  | sorted, p :: ps => do
      let pos ← bsearch lt p sorted.toArray 0 sorted.length
      binInsertAll lt (sorted.take pos ++ p :: sorted.drop pos) ps

/-- `sorted(xs)` as CPython 3.12 computes it for fewer than 64 elements (one `count_run` + `binarysort`);
the comparison may raise. -/
def pySorted (lt : α → α → Except BErr Bool) : List α → Except BErr (List α)
  | [] => pure []
  | [a] => pure [a]
  | a :: b :: rest => do
      let d ← lt b a
      let (r, rest') ← takeRun lt d b rest
      let run := a :: b :: r
      let run := if d then run.reverse else run
      binInsertAll lt run rest'

end PySort

/-! ## dispatch by MRO over the generated tables -/

def resolve (table : List (String × String)) : List String → Option String
  | [] => Option.none
  | t :: ts => match table.lookup t with
      | some m => some m
      | Option.none => resolve table ts

def builders : BKind → List (String × String)
  | .basic => Gen.basicBuilders
  | .pyobj => Gen.pyobjBuilders

def expanders : BKind → List (String × String)
  | .basic => Gen.basicExpanders
  | .pyobj => Gen.pyobjExpanders

def strMro : List String := ["str", "object"]

def Store.cell? (s : Store) (r : Ref) : Option Cell :=
  match r with
  | .obj id => s[id]?
  | .istr str => some ⟨strMro, .scalar (Scalar.ofStr str)⟩

/-- `yield from obj` -/
def iterPayload : Payload → Option (List Ref)
  | .list items => some (items.map .obj)
  | .tuple items => some (items.map .obj)
  | .set items => some (items.map .obj)
  | .dict items => some (items.map (fun p => .obj p.1))
  | _ => Option.none

/-- `PyObjBuilder.default_expander` on an object without a builder -/
def pyobjExpand (cls : String) (attrs : List (String × Nat)) : List Ref :=
  .istr cls :: (attrs.filter (fun p => !("__".isPrefixOf p.1))).flatMap (fun p => [.istr p.1, .obj p.2])

/-- `list(self.expand(obj))`.  `none` = a table entry this model has no semantics for. -/
def expand? (b : BKind) (s : Store) (r : Ref) : Option (List Ref) :=
  match s.cell? r with
  | Option.none => some []
  | some cell =>
    match resolve (expanders b) cell.mro with
    | some "expand_list" => iterPayload cell.val
    | some "expand_dict" =>
        match cell.val with
        | .dict items => some (items.map (fun p => .obj p.1) ++ items.map (fun p => .obj p.2))
        | _ => Option.none
    | some _ => Option.none
    | Option.none =>
        match b with
        | .basic => if Gen.basicDefaultExpander then some [] else Option.none
        | .pyobj =>
            if !Gen.pyobjOwnDefaults then Option.none
            else if (resolve (builders b) cell.mro).isSome then some []
            else match cell.val with
              | .custom cls attrs => some (pyobjExpand cls attrs)
              | _ => Option.none

def expand (b : BKind) (s : Store) (r : Ref) : List Ref := (expand? b s r).getD []

/-- every expansion the machine can ask for is modelled (checked by the driver before running) -/
def expandModelled (b : BKind) (s : Store) : Bool :=
  (List.range s.length).all (fun i => (expand? b s (.obj i)).isSome)

/-! ## the per-type builders -/

def kvpNode (kw ake : Bool) (k v : Tree) : Tree := .node (.kvp kw ake) [k, v]

def kvpKey : Tree → Tree
  | .node (.kvp ..) (k :: _) => k
  | t => t

/-- `DictNode.from_dict(items)` / `PyObjAttributes.from_dict`, then `auto_match_keys = options.auto_match_keys` -/
def dictNodeFrom (py : Bool) (amk : Bool) (items : List (Tree × Tree)) : Except BErr Tree := do
  let kvps := items.map (fun p => kvpNode py true p.1 p.2)
  let sorted ← pySorted kvpLt kvps
  pure (.node (.dict py amk) (mkCounter Tree.pyEq sorted))

/-- `FixedKeyDictNode.from_dict(items)`: `{kvp.key: kvp for kvp in …}` -/
def fdictNodeFrom (py : Bool) (items : List (Tree × Tree)) : Tree :=
  let kvps := items.map (fun p => (p.1, kvpNode py false p.1 p.2))
  .node (.fdict py) ((dictOf Tree.pyEq kvps).map (·.2))

def mappingFrom (py : Bool) (o : Opts) (items : List (Tree × Tree)) : Except BErr Tree :=
  if o.ake then dictNodeFrom py o.amk items else pure (fdictNodeFrom py items)

/-- `BasicBuilder.build_dict` -/
def buildDict (o : Opts) (children : List Tree) : Except BErr Tree :=
  let n := children.length / 2
  let keys := children.take n
  let values := children.drop n
  mappingFrom false o (dictOf Tree.pyEq (keys.zip values))

def leafOf (c : LeafCls) (p : Payload) : Except BErr Tree :=
  match p with
  | .scalar s => pure (.leaf c s true)
  | _ => throw (.unmodelled "leaf builder on a container")

/-- apply the builder method `m` (a name from the generated table) -/
def applyBuilder (m : String) (o : Opts) (p : Payload) (children : List Tree) : Except BErr Tree :=
  match m with
  | "build_int" => leafOf .integer p
  | "build_str" => leafOf .string p
  | "build_float" => leafOf .float p
  | "build_bool" => leafOf .bool p
  | "build_none" =>
      match p with
      | .scalar s => if s.kind = .none then pure (.leaf .null Scalar.none true) else throw .assertion
      | _ => throw .assertion
  | "build_list" => pure (.node (.list o.ale o.alesl) children)
  | "build_set" => pure (.node (.mset true) (mkCounter Tree.pyEq children))
  | "build_dict" => buildDict o children
  | other => throw (.unmodelled ("builder " ++ other))

/-- pairs up `children[1::2]` with `children[2::2]` -/
def pairUp : List Tree → List (Tree × Tree)
  | a :: v :: rest => (a, v) :: pairUp rest
  | _ => []

def unquote : Tree → Tree
  | .leaf .string s _ => .leaf .string s false
  | t => t

def isStringNode : Tree → Bool
  | .leaf .string _ _ => true
  | _ => false

/-- `PyObjBuilder.default_builder` -/
def pyobjDefaultBuild (o : Opts) (children : List Tree) : Except BErr Tree :=
  match children with
  | [] => throw (.unmodelled "IndexError")
  | name :: rest =>
    if !isStringNode name then throw .assertion
    else if rest.length % 2 != 0 then throw .assertion
    else
      let members := dictOf Tree.pyEq (pairUp rest)
      if !(members.all (fun p => isStringNode p.1)) then throw .assertion
      else do
        let members := members.map (fun p => (unquote p.1, p.2))
        let attrs ← mappingFrom true o members
        pure (.node .pyobj [unquote name, attrs])

/-- `self.build(node, children)` -/
def buildNode (b : BKind) (o : Opts) (s : Store) (r : Ref) (children : List Tree) : Except BErr Tree :=
  match s.cell? r with
  | Option.none => throw .badRef
  | some cell =>
    match resolve (builders b) cell.mro with
    | some m => applyBuilder m o cell.val children
    | Option.none =>
      match b with
      | .basic => if Gen.basicDefaultBuilder then throw .notImplemented else throw (.unmodelled "default_builder")
      | .pyobj => if Gen.pyobjOwnDefaults then pyobjDefaultBuild o children else throw (.unmodelled "default_builder")

/-! ## `Builder.build_tree`: the explicit work-stack machine -/

structure Frame where
  node : Ref
  processed : List Tree     -- `processed_children`, in order
  pending : List Ref        -- `unprocessed_children`; the next one to be popped is the head
deriving Repr, Inhabited

inductive Step where
  | cont (work : List Frame)     -- top of the stack = head
  | done (t : Tree)
  | fail (e : Err)
deriving Repr, Inhabited

/-- "all of our grandchildren are leaves" -/
def allLeaves (b : BKind) (s : Store) (gcs : List Ref) : Bool :=
  gcs.all (fun g => (expand b s g).isEmpty)

/-- does the cycle scan run for this child? -/
def scans (b : BKind) (o : Opts) (s : Store) (gcs : List Ref) : Bool :=
  !gcs.isEmpty && o.chk && !allLeaves b s gcs

/-- one iteration of `while work:` -/
def step (b : BKind) (o : Opts) (s : Store) : List Frame → Step
  | [] => .done (.leaf .null Scalar.none true)            -- `return NullNode()` (unreachable)
  | f :: rest =>
    match f.pending with
    | child :: more =>
      let gcs := expand b s child
      let f' : Frame := { f with pending := more }
      if scans b o s gcs && (f.node :: rest.map (·.node)).contains child then
        if o.ign then .cont ({ f' with processed := f.processed ++ [.cyc child 1] } :: rest)
        else .fail .cycle
      else .cont (⟨child, [], gcs⟩ :: f' :: rest)
    | [] =>
      match buildNode b o s f.node f.processed with
      | .error e => .fail (.build e)
      | .ok t =>
        match rest with
        | [] => .done t
        | p :: rest' => .cont ({ p with processed := p.processed ++ [t] } :: rest')

def Step.next (b : BKind) (o : Opts) (s : Store) : Step → Step
  | .cont w => step b o s w
  | st => st

/-- run at most `fuel` iterations -/
def runSteps (b : BKind) (o : Opts) (s : Store) : Nat → Step → Step
  | 0, st => st
  | n + 1, st =>
    match st with
    | .cont w => runSteps b o s n (step b o s w)
    | st => st

def initWork (b : BKind) (s : Store) (root : Ref) : List Frame := [⟨root, [], expand b s root⟩]

/-- `Builder(options).build_tree(root)` with a step budget -/
def buildTree (b : BKind) (o : Opts) (s : Store) (fuel : Nat) (root : Ref) : Except Err Tree :=
  match runSteps b o s fuel (.cont (initWork b s root)) with
  | .done t => .ok t
  | .fail e => .error e
  | .cont _ => .error .outOfFuel

/-! ## the same function as a recursion over the ancestor path (reference semantics for the theorems) -/

def dfsChildren (b : BKind) (o : Opts) (s : Store) (recur : Ref → Except Err Tree) (path : List Ref) :
    List Ref → Except Err (List Tree)
  | [] => pure []
  | c :: cs => do
      let t ←
        if scans b o s (expand b s c) && path.contains c then
          (if o.ign then pure (Tree.cyc c 1) else throw Err.cycle)
        else recur c
      let ts ← dfsChildren b o s recur path cs
      pure (t :: ts)

/-- `depth` bounds the recursion depth (length of the ancestor path below this call) -/
def dfs (b : BKind) (o : Opts) (s : Store) : (depth : Nat) → (path : List Ref) → Ref → Except Err Tree
  | 0, _, _ => throw .outOfFuel
  | d + 1, path, x => do
      let ts ← dfsChildren b o s (dfs b o s d (x :: path)) (x :: path) (expand b s x)
      liftB (buildNode b o s x ts)

/-! ## plain values, `json.build_tree` -/

inductive PyVal where
  | scalar (mro : List String) (s : Scalar)
  | list (mro : List String) (xs : List PyVal)
  | tuple (mro : List String) (xs : List PyVal)
  | dict (mro : List String) (kvs : List (PyVal × PyVal))
  | set (mro : List String) (xs : List PyVal)
  | custom (mro : List String) (cls : String) (attrs : List (String × PyVal))
deriving Repr, Inhabited

def PyVal.mro : PyVal → List String
  | .scalar m _ | .list m _ | .tuple m _ | .dict m _ | .set m _ | .custom m _ _ => m

def optMapM {α β} (f : α → Option β) : List α → Option (List β)
  | [] => some []
  | x :: xs => match f x, optMapM f xs with
      | some y, some ys => some (y :: ys)
      | _, _ => Option.none

def pairOpt (f : Nat → Option PyVal) (p : Nat × Nat) : Option (PyVal × PyVal) :=
  match f p.1, f p.2 with
  | some k, some v => some (k, v)
  | _, _ => Option.none

/-- the tree-shaped value below a reference; `none` when `depth` is exhausted (cyclic stores) or an id dangles -/
def unfold (s : Store) : Nat → Ref → Option PyVal
  | 0, _ => Option.none
  | d + 1, r =>
    match s.cell? r with
    | Option.none => Option.none
    | some cell =>
      match cell.val with
      | .scalar sc => some (.scalar cell.mro sc)
      | .list items => (optMapM (fun i => unfold s d (.obj i)) items).map (.list cell.mro)
      | .tuple items => (optMapM (fun i => unfold s d (.obj i)) items).map (.tuple cell.mro)
      | .set items => (optMapM (fun i => unfold s d (.obj i)) items).map (.set cell.mro)
      | .dict items =>
          (optMapM (pairOpt (fun i => unfold s d (.obj i))) items).map (.dict cell.mro)
      | .custom cls attrs =>
          (optMapM (fun p => (unfold s d (.obj p.2)).map (fun v => (p.1, v))) attrs).map (.custom cell.mro cls)

/-- `json.build_tree(k, force_leaf_node=True)` and the scalar prefix of `json.build_tree` -/
def jsonLeaf (mro : List String) (p : Option Scalar) : Option (Except BErr Tree) :=
  match p with
  | Option.none => Option.none
  | some s =>
    if mro.contains "bool" then some (pure (.leaf .bool s true))
    else if mro.contains "int" then some (pure (.leaf .integer s true))
    else if mro.contains "float" then some (pure (.leaf .float s true))
    else if mro.contains "str" then some (pure (.leaf .string s true))
    else if mro.contains "bytes" then
      match s.dec with
      | some d => some (pure (.leaf .string (Scalar.ofStr d) true))
      | Option.none => some (throw .unicodeDecode)
    else Option.none

def PyVal.scalar? : PyVal → Option Scalar
  | .scalar _ s => some s
  | _ => Option.none

mutual
/-- `json.build_tree(python_obj, options)` -/
def jsonBuild (o : Opts) : PyVal → Except BErr Tree
  | .scalar mro s =>
      match jsonLeaf mro (some s) with
      | some r => r
      | Option.none =>
        if s.kind = .none then pure (.leaf .null Scalar.none true) else throw .valueError
  | .list _ xs => do
      let ts ← jsonBuildList o xs
      pure (.node (.list o.ale o.alesl) ts)
  | .tuple _ xs => do
      let ts ← jsonBuildList o xs
      pure (.node (.list o.ale o.alesl) ts)
  | .dict _ kvs => do
      let items ← jsonBuildPairs o kvs
      mappingFrom false o (dictOf Tree.pyEq items)
  | .set _ _ => throw .valueError
  | .custom _ _ _ => throw .valueError
def jsonBuildList (o : Opts) : List PyVal → Except BErr (List Tree)
  | [] => pure []
  | x :: xs => do
      let t ← jsonBuild o x
      let ts ← jsonBuildList o xs
      pure (t :: ts)
def jsonBuildPairs (o : Opts) : List (PyVal × PyVal) → Except BErr (List (Tree × Tree))
  | [] => pure []
  | (k, v) :: rest => do
      let kt ← (match jsonLeaf k.mro k.scalar? with
                | some r => r
                | Option.none => throw .valueError)
      let vt ← jsonBuild o v
      let ts ← jsonBuildPairs o rest
      pure ((kt, vt) :: ts)
end

/-- `json.build_tree` applied to the object graph below `root` -/
def jsonBuildStore (o : Opts) (s : Store) (root : Ref) : Except BErr Tree :=
  match unfold s (s.length + 2) root with
  | Option.none => throw .recursion
  | some v => jsonBuild o v

/-! ## plain Python values and `to_obj()` -/

inductive Obj where
  | scalar (s : Scalar)
  | list (xs : List Obj)
  | dict (kvs : List (Obj × Obj))
  | mset (xs : List Obj)                 -- HashableCounter, as `elements()`
  | ident (r : Ref) (wraps : Nat)        -- object_set.IdentityHash
  | tup (xs : List Obj)                  -- only `KeyValuePairNode.to_obj()` (a tuple of nodes); opaque
deriving Repr, Inhabited

def Obj.hashable : Obj → Bool
  | .list _ => false
  | .dict _ => false
  | _ => true

/-- Python `==` + equal hash on hashable plain values (dictionary-key identity) -/
def Obj.keyEq : Obj → Obj → Bool
  | .scalar a, .scalar b => a.eqc == b.eqc
  | .ident r 1, .ident r' 1 => r == r'
  | .mset as, .mset bs =>
      as.length == bs.length &&
        as.attach.all (fun x => (as.attach.filter (fun y => Obj.keyEq x.1 y.1)).length
                                  == (bs.filter (fun y => Obj.keyEq x.1 y)).length)
  | _, _ => false
termination_by a => sizeOf a
decreasing_by
  all_goals simp_wf
  all_goals (have := List.sizeOf_lt_of_mem x.2; omega)

mutual
/-- `node.to_obj()`; `TypeError` = unhashable key / set member -/
def toObj : Tree → Except BErr Obj
  | .leaf _ s _ => pure (.scalar s)
  | .cyc r w => pure (.ident r w)
  | .node (.list ..) cs => do
      let xs ← toObjList cs
      pure (.list xs)
  | .node (.mset ..) cs => do
      let xs ← toObjList cs
      if xs.all Obj.hashable then pure (.mset (mkCounter Obj.keyEq xs)) else throw .typeError
  | .node (.dict ..) cs => do
      let kvs ← toObjItems cs
      if kvs.all (fun p => p.1.hashable) then pure (.dict (dictOf Obj.keyEq kvs)) else throw .typeError
  | .node (.fdict ..) cs => do
      let kvs ← toObjItems cs
      if kvs.all (fun p => p.1.hashable) then pure (.dict (dictOf Obj.keyEq kvs)) else throw .typeError
  | .node (.kvp ..) _ => pure (.tup [])
  | .node .pyobj cs =>
      match cs with
      | [.leaf _ s _, attrs] => do
          let a ← toObj attrs
          pure (.dict [(.scalar s, a)])
      | _ => throw (.unmodelled "PyObj shape")
def toObjList : List Tree → Except BErr (List Obj)
  | [] => pure []
  | t :: ts => do
      let x ← toObj t
      let xs ← toObjList ts
      pure (x :: xs)
/-- `for k, v in self.items()` over key/value-pair children -/
def toObjItems : List Tree → Except BErr (List (Obj × Obj))
  | [] => pure []
  | t :: ts => do
      let kv ← (match t with
        | .node (.kvp ..) [k, v] => do
            let ko ← toObj k
            let vo ← toObj v
            pure (ko, vo)
        | _ => throw (.unmodelled "mapping child is not a key/value pair"))
      let rest ← toObjItems ts
      pure (kv :: rest)
end

/-! ## the specification side: the value an object graph denotes -/

mutual
/-- tuples read back as lists, sets as multisets, custom objects as `{class: {attr: value}}` -/
def normalise : PyVal → Obj
  | .scalar _ s => .scalar s
  | .list _ xs => .list (normaliseList xs)
  | .tuple _ xs => .list (normaliseList xs)
  | .set _ xs => .mset (normaliseList xs)
  | .dict _ kvs => .dict (normalisePairs kvs)
  | .custom _ cls attrs => .dict [(.scalar (Scalar.ofStr cls), .dict (normaliseAttrs attrs))]
def normaliseList : List PyVal → List Obj
  | [] => []
  | x :: xs => normalise x :: normaliseList xs
def normalisePairs : List (PyVal × PyVal) → List (Obj × Obj)
  | [] => []
  | (k, v) :: rest => (normalise k, normalise v) :: normalisePairs rest
def normaliseAttrs : List (String × PyVal) → List (Obj × Obj)
  | [] => []
  | (a, v) :: rest =>
      if "__".isPrefixOf a then normaliseAttrs rest
      else (.scalar (Scalar.ofStr a), normalise v) :: normaliseAttrs rest
end

/-! ## `TreeNode.copy()` -/

/-- `node.copy_from(children)` -/
def copyFrom : Tree → List Tree → Except BErr Tree
  | .leaf c s _, _ => pure (.leaf c (if c = .null then Scalar.none else s) true)   -- `self.__class__(self.object)`: `quoted` is dropped
  | .cyc r w, _ => pure (.cyc r (w + 1))                 -- re-wraps the IdentityHash
  | .node (.list ..) _, cs => pure (.node (.list true true) cs)      -- both list flags are dropped
  | .node (.mset amk) _, cs => pure (.node (.mset amk) (mkCounter Tree.pyEq cs))
  | .node (.dict py amk) _, cs => pure (.node (.dict py amk) (mkCounter Tree.pyEq cs))
  | .node (.fdict py) _, cs => pure (.node (.fdict py) ((dictOf Tree.pyEq (cs.map (fun c => (kvpKey c, c)))).map (·.2)))
  | .node (.kvp kw ake) _, cs =>
      match cs with
      | [k, v] => pure (.node (.kvp kw ake) [k, v])
      | _ => throw .valueError
  | .node .pyobj _, cs =>
      match cs with
      | [n, a] => pure (.node .pyobj [n, a])
      | _ => throw .typeError

structure CFrame where
  node : Tree
  processed : List Tree
  remaining : List Tree      -- next to be popped = head
deriving Repr, Inhabited

inductive CStep where
  | cont (work : List CFrame)
  | done (t : Tree)
  | fail (e : BErr)
deriving Repr, Inhabited

/-- one iteration of the `while work:` loop of `TreeNode.copy` -/
def copyStep : List CFrame → CStep
  | [] => .fail (.notImplemented)        -- `raise NotImplementedError("This should not be reachable")`
  | f :: work =>
    match f.remaining with
    | [] =>
      match copyFrom f.node f.processed with
      | .error e => .fail e
      | .ok t =>
        match work with
        | [] => .done t
        | p :: work' => .cont ({ p with processed := p.processed ++ [t] } :: work')
    | child :: more =>
      .cont (⟨child, [], child.children⟩ :: { f with remaining := more } :: work)

def copyRun : Nat → CStep → CStep
  | 0, st => st
  | n + 1, st =>
    match st with
    | .cont w => copyRun n (copyStep w)
    | st => st

def copyInit (t : Tree) : List CFrame := [⟨t, [], t.children⟩]

def copyTree (fuel : Nat) (t : Tree) : Except Err Tree :=
  match copyRun fuel (.cont (copyInit t)) with
  | .done t => .ok t
  | .fail e => .error (.build e)
  | .cont _ => .error .outOfFuel

mutual
/-- the recursive reading of `copy()` -/
def copyRec : Tree → Except BErr Tree
  | .leaf c s q => copyFrom (.leaf c s q) []
  | .cyc r w => copyFrom (.cyc r w) []
  | .node t cs => do
      let cs' ← copyRecList cs
      copyFrom (.node t cs) cs'
def copyRecList : List Tree → Except BErr (List Tree)
  | [] => pure []
  | t :: ts => do
      let t' ← copyRec t
      let ts' ← copyRecList ts
      pure (t' :: ts')
end

mutual
def Tree.size : Tree → Nat
  | .node _ cs => 1 + Tree.sizeList cs
  | _ => 1
def Tree.sizeList : List Tree → Nat
  | [] => 0
  | t :: ts => t.size + Tree.sizeList ts
end

end GtModel.Builder

/-
  Stream `build`: JSON reader / dumper around `GtModel.Builder` (see harness/streams/build.py).
-/
import GtModel.Model.Builder

namespace GtModel.Builder
open Lean

def kindOfString : String → Except String Kind
  | "int" => pure .int | "bool" => pure .bool | "float" => pure .float
  | "str" => pure .str | "bytes" => pure .bytes | "none" => pure .none
  | k => throw s!"kind {k}"

def Kind.name : Kind → String
  | .int => "int" | .bool => "bool" | .float => "float" | .str => "str" | .bytes => "bytes" | .none => "none"

def optStr (j : Json) (k : String) : Option String :=
  match j.getObjVal? k with
  | .ok (Json.str s) => some s
  | _ => Option.none

def parseCell (j : Json) : Except String Cell := do
  let t ← getStr j "t"
  let mroJ ← getArr j "mro"
  let mro ← mroJ.toList.mapM (·.getStr?)
  let v ← j.getObjVal? "v"
  match t with
  | "list" => pure ⟨mro, .list (← jsonToNatList v)⟩
  | "tuple" => pure ⟨mro, .tuple (← jsonToNatList v)⟩
  | "set" => pure ⟨mro, .set (← jsonToNatList v)⟩
  | "frozenset" => pure ⟨mro, .set (← jsonToNatList v)⟩
  | "dict" => do
      let a ← v.getArr?
      let items ← a.toList.mapM (fun p => do
        let l ← jsonToNatList p
        match l with
        | [k, w] => pure (k, w)
        | _ => throw "dict item")
      pure ⟨mro, .dict items⟩
  | "custom" => do
      let cls ← getStr j "cls"
      let a ← v.getArr?
      let attrs ← a.toList.mapM (fun p => do
        let l ← p.getArr?
        match l.toList with
        | [n, w] => do pure ((← n.getStr?), (← w.getNat?))
        | _ => throw "attr item")
      pure ⟨mro, .custom cls attrs⟩
  | k => do
      let kind ← kindOfString k
      let text ← v.getStr?
      let eqc ← getStr j "eqc"
      let str ← getStr j "str"
      let num ← (match j.getObjVal? "num" with
        | .ok (Json.arr #[p, q]) => do pure (some ((← p.getInt?), (← q.getNat?)))
        | _ => pure Option.none)
      pure ⟨mro, .scalar ⟨kind, text, eqc, str, num, optStr j "dec"⟩⟩

def parseOpts (j : Json) : Except String Opts := do
  pure ⟨← getBool j "ake", ← getBool j "amk", ← getBool j "ale", ← getBool j "alesl", ← getBool j "chk", ← getBool j "ign"⟩

def jl (xs : List Json) : Json := Json.arr xs.toArray
def jn (n : Nat) : Json := Json.num (n : Nat)

def refId : Ref → Json
  | .obj i => jn i
  | .istr _ => Json.num (-1 : Int)

def leafClsName : LeafCls → String
  | .integer => "IntegerNode" | .bool => "BoolNode" | .float => "FloatNode"
  | .string => "StringNode" | .null => "NullNode"

mutual
def dumpTree : Tree → Json
  | .leaf c s q => jl ["leaf", leafClsName c, s.kind.name, s.text, Json.bool q]
  | .cyc r w => jl ["cyc", "CyclicReference", refId r, jn w]
  | .node (.list a b) cs => jl ["list", "ListNode", Json.bool a, Json.bool b, jl (dumpTrees cs)]
  | .node (.mset a) cs => jl ["mset", "MultiSetNode", Json.bool a, jl (dumpTrees cs)]
  | .node (.dict py a) cs => jl ["dict", if py then "PyObjAttributes" else "DictNode", Json.bool a, jl (dumpTrees cs)]
  | .node (.fdict py) cs => jl ["fdict", if py then "PyObjFixedAttributes" else "FixedKeyDictNode", jl (dumpTrees cs)]
  | .node (.kvp kw a) cs =>
      jl ([Json.str "kvp", Json.str (if kw then "KeywordArgument" else "KeyValuePairNode"), Json.bool a] ++ dumpTrees cs)
  | .node .pyobj cs => jl ([Json.str "pyobj", Json.str "PyObj"] ++ dumpTrees cs)
def dumpTrees : List Tree → List Json
  | [] => []
  | t :: ts => dumpTree t :: dumpTrees ts
end

mutual
def dumpObj : Obj → Json
  | .scalar s => jl ["s", s.kind.name, s.text]
  | .list xs => jl ["l", jl (dumpObjs xs)]
  | .mset xs => jl ["m", jl (dumpObjs xs)]
  | .tup xs => jl ["t", jl (dumpObjs xs)]
  | .ident r w => jl ["id", refId r, jn w]
  | .dict kvs => jl ["d", jl (dumpPairs kvs)]
def dumpObjs : List Obj → List Json
  | [] => []
  | x :: xs => dumpObj x :: dumpObjs xs
def dumpPairs : List (Obj × Obj) → List Json
  | [] => []
  | (k, v) :: r => jl [dumpObj k, dumpObj v] :: dumpPairs r
end

def errJ (e : Err) : Json := Json.mkObj [("err", Json.str e.name)]
def berrJ (e : BErr) : Json := Json.mkObj [("err", Json.str e.name)]

def toObjJ (t : Tree) : Json :=
  match toObj t with
  | .ok x => dumpObj x
  | .error e => berrJ e

def stepFuel : Nat := 2000000

/-- one run: build through the chosen entry point, then `to_obj()`, `copy()`, `copy() == tree`, `copy().to_obj()`.
The recursive reference semantics (`dfs`, `copyRec`) are cross-checked against the machines on every run. -/
def runOne (s : Store) (root : Nat) (entry : String) (o : Opts) : Except String Json := do
  let built : Except Err Tree ← (match entry with
    | "json" => pure (liftB (jsonBuildStore o s (.obj root)))
    | e => do
        let b : BKind ← (match e with
          | "basic" => pure BKind.basic
          | "pydiff" => pure BKind.pyobj
          | _ => throw s!"entry {e}")
        if !expandModelled b s then throw "an expander of the generated table is not modelled"
        let m := buildTree b o s stepFuel (.obj root)
        -- reference semantics must agree (depth: a simple path has at most |store|+1 cells plus one inline str)
        let depth := if o.chk then s.length + 3 else 4 * s.length + 8
        let r := dfs b o s depth [] (.obj root)
        (match m, r with
          | .ok t, .ok t' => if dumpTree t == dumpTree t' then pure () else throw "machine/dfs trees differ"
          | .error e, .error e' =>
              if e == e' || e' == .outOfFuel then pure () else throw s!"machine/dfs errors differ {e.name} {e'.name}"
          | .ok _, .error .outOfFuel => pure ()
          | _, _ => throw "machine/dfs disagree")
        pure m)
  match built with
  | .error (.build (.unmodelled w)) => throw s!"unmodelled {w}"
  | .error .outOfFuel => throw "out of fuel"
  | .error (.build .badRef) => throw "bad reference"
  | .error e => pure (errJ e)
  | .ok t =>
    let cp := copyTree (4 * t.size + 8) t
    let cpJ : List (String × Json) ← (match cp, copyRec t with
      | .error .outOfFuel, _ => throw "copy out of fuel"
      | .error e, .error e' => if e == .build e' then pure [("copy", errJ e)] else throw "copy machine/rec errors differ"
      | .ok c, .ok c' =>
          if dumpTree c == dumpTree c' then
            pure [("copy", dumpTree c), ("copy_eq", Json.bool (Tree.pyEq c t)), ("copy_toobj", toObjJ c)]
          else throw "copy machine/rec differ"
      | _, _ => throw "copy machine/rec disagree")
    pure (Json.mkObj ([("err", Json.str "ok"), ("tree", dumpTree t), ("toobj", toObjJ t)] ++ cpJ))

def buildHandler : Handler := fun j => do
  let cellsJ ← getArr j "store"
  let s ← cellsJ.toList.mapM parseCell
  let root ← getNat j "root"
  let runs ← getArr j "runs"
  let outs ← runs.toList.mapM (fun r => do
    let entry ← getStr r "entry"
    let o ← parseOpts (← r.getObjVal? "opts")
    runOne s root entry o)
  pure (jl outs)

end GtModel.Builder

/-
  L9: decision logic of `graphtage.__main__.main` as total functions over a parsed-arguments record.
  Mirrors: the MIME selection for both files, `graphtage.get_filetype`, the option normalisation into
  `BuildOptions` and printer options, the load-error path and the exit status.
  The file-type tables come from `GtModel.Gen.CliTables`, regenerated from /repo on every run.
  Lean core only.
-/
import GtModel.Model.Proto
import GtModel.Model.Tree
import GtModel.Gen.CliTables

namespace GtModel.Cli
open Lean

/-- the argparse namespace fields that matter for which parser reads which file and how trees are built -/
structure Args where
  fromMime : Option String := none      -- --from-mime M
  fromType : Option String := none      -- --from-T   (T a type name)
  toMime : Option String := none
  toType : Option String := none
  dictStrategy : Option String := none  -- --dict-strategy auto|match|none
  noKeyEdits : Bool := false            -- -k
  noListEdits : Bool := false           -- -l
  noListEditsSameLen : Bool := false    -- -ll
  condensed : Bool := false             -- -j
  joinLists : Bool := false             -- -jl
  joinDictItems : Bool := false         -- -jd
deriving Repr, Inhabited

def defaultMime (ty : String) : Option String :=
  (Gen.fileTypes.find? (·.1 == ty)).map (·.2.1)

/-- `args.X_mime` if given, else the `const` of the first `--X-T` flag found in FILETYPES_BY_TYPENAME order
    (argparse's mutually exclusive group allows at most one of them) -/
def selectMime (mime ty : Option String) : Option String :=
  match mime with
  | some m => some m
  | none => Gen.fileTypes.findSome? fun (n, d, _) => if ty == some n then some d else none

inductive FtErr where
  | unknownType     -- "Could not determine the filetype"
  | unsupported     -- "Unsupported MIME type"
deriving Repr, DecidableEq

deriving instance DecidableEq for Except

/-- `graphtage.get_filetype(path, mime_type)`; `guess` = `mimetypes.guess_type(path)[0]` -/
def getFiletype (guess mime : Option String) : Except FtErr String :=
  let m := match mime with
    | some m => some m
    | none => guess
  match m with
  | none => .error .unknownType
  | some m =>
    match Gen.byMime.find? (·.1 == m) with
    | some (_, ty) => .ok ty
    | none => .error .unsupported

def parserFor (a : Args) (guessFrom guessTo : Option String) : Except FtErr (String × String) := do
  let f ← getFiletype guessFrom (selectMime a.fromMime a.fromType)
  let t ← getFiletype guessTo (selectMime a.toMime a.toType)
  pure (f, t)

/-- the `BuildOptions` main() constructs -/
def buildOpts (a : Args) : Opts :=
  let (ake, amk) :=
    match a.dictStrategy with
    | some "none" => (false, false)
    | some "auto" => (true, true)
    | some "match" => (true, false)
    | _ => (!a.noKeyEdits, !a.noKeyEdits)
  { ake := ake, amk := amk, ale := !a.noListEdits, alesl := !a.noListEditsSameLen }

/-- (join_lists, join_dict_items) printer options -/
def printerOpts (a : Args) : Bool × Bool := (a.condensed || a.joinLists, a.condensed || a.joinDictItems)

/-! ### load-error path and exit status -/

inductive Load where
  | tree          -- the loader returned a tree
  | message       -- the loader returned an error string (it caught the parser's exception)
  | escaped       -- an exception escaped `build_tree_handling_errors`
deriving Repr, DecidableEq

structure Outcome where
  exit : Int            -- return value of main()
  stdoutEmpty : Bool
  stderrNamesFile : Bool
  uncaught : Bool
deriving Repr, DecidableEq

/-- what main() does after both loads, given whether the documents differ (`cost > 0`) -/
def outcome (lf lt : Load) (differ : Bool) : Outcome :=
  match lf, lt with
  | .escaped, _ => ⟨0, true, false, true⟩
  | .message, _ => ⟨1, true, true, false⟩
  | .tree, .escaped => ⟨0, true, false, true⟩
  | .tree, .message => ⟨1, true, true, false⟩
  | .tree, .tree => ⟨if differ then 1 else 0, false, false, false⟩

/-- does the type's handler catch an exception of class `exc` (by MRO lookup)? -/
def catches (ty exc : String) : Bool :=
  match Gen.caught.find? (·.1 == ty), Gen.mro.find? (·.1 == exc) with
  | some (_, cs), some (_, mro) => cs.any fun c => mro.contains c
  | _, _ => false

/-- every class the type's parser is assumed to raise on invalid syntax is caught by the type's handler -/
def handlersCover (ty : String) : Bool :=
  match Gen.raisable.find? (·.1 == ty) with
  | some (_, excs) => excs.all (catches ty)
  | none => false

def loadOfInvalid (ty : String) : Load := if handlersCover ty then .message else .escaped

/-! ### driver -/

def optStr (j : Json) (k : String) : Option String :=
  match j.getObjVal? k with
  | .ok (Json.str s) => some s
  | _ => none

def optBool (j : Json) (k : String) : Bool :=
  match j.getObjVal? k with
  | .ok (Json.bool b) => b
  | _ => false

def argsOfJson (j : Json) : Args :=
  { fromMime := optStr j "from_mime", fromType := optStr j "from_type", toMime := optStr j "to_mime",
    toType := optStr j "to_type", dictStrategy := optStr j "dict_strategy", noKeyEdits := optBool j "k",
    noListEdits := optBool j "l", noListEditsSameLen := optBool j "ll", condensed := optBool j "j",
    joinLists := optBool j "jl", joinDictItems := optBool j "jd" }

def ftJson : Except FtErr String → Json
  | .ok s => Json.str s
  | .error .unknownType => Json.str "ERR:unknown-type"
  | .error .unsupported => Json.str "ERR:unsupported-mime"

/-- stream `cli`: {"runs": [{"args": {...}, "guess_from": mime|null, "guess_to": mime|null, "to_loaded": bool}]}
    ↦ per run the observable view of main(): the parser invoked per file (or which lookup failed), options.
    main() looks both types up before loading anything, and loads the second file only if the first loaded. -/
def cliRun (j : Json) : Except String Json := do
  let a := argsOfJson (← j.getObjVal? "args")
  let gf := optStr j "guess_from"
  let gt := optStr j "guess_to"
  let toLoaded := optBool j "to_loaded"
  let f := getFiletype gf (selectMime a.fromMime a.fromType)
  let t := getFiletype gt (selectMime a.toMime a.toType)
  let o := buildOpts a
  let po := printerOpts a
  let (fj, tj) : Json × Json :=
    match f, t with
    | .error _, _ => (ftJson f, Json.null)
    | .ok _, .error _ => (Json.null, ftJson t)
    | .ok _, .ok _ => (ftJson f, if toLoaded then ftJson t else Json.null)
  pure <| Json.mkObj [("from", fj), ("to", tj),
    ("opts", Json.arr #[Json.bool o.ake, Json.bool o.amk, Json.bool o.ale, Json.bool o.alesl]),
    ("printer", Json.arr #[Json.bool po.1, Json.bool po.2])]

def cliHandler : Handler := fun j => do
  let rs ← getArr j "runs"
  let outs ← rs.toList.mapM cliRun
  pure <| Json.mkObj [("runs", Json.arr outs.toArray)]

/-- stream `errorpath`: {"kind": type} ↦ predicted outcome of an invalid file of that type in either position -/
def errorPathHandler : Handler := fun j => do
  let ty ← getStr j "kind"
  let l := loadOfInvalid ty
  let o1 := outcome l .tree true
  let o2 := outcome .tree l true
  let enc (o : Outcome) : Json := Json.arr #[Json.bool (!o.uncaught && o.exit != 0), Json.bool o.stdoutEmpty, Json.bool o.stderrNamesFile]
  pure <| Json.mkObj [("runs", Json.arr #[enc o1, enc o2])]

end GtModel.Cli

/-
  C13 layer: `graphtage.formatter.get_formatter` / `_get_formatter` — which `print_*` method handles which class.
  The resolution only inspects (i) the MRO names of the node/edit class, (ii) the `print_*` attribute names of each
  formatter instance, (iii) the sub-formatter tree with its parent pointers and (iv) the global FORMATTERS list.
  A formatter instance is addressed as (index into FORMATTERS, path of sub-formatter indices).
  Lean core only.
-/
import GtModel.Model.Proto

namespace GtModel.Dispatch
open Lean

inductive Fmt where
  | mk (cls : String) (prints : List String) (subs : List Fmt)
deriving Repr, Inhabited

namespace Fmt
def cls : Fmt → String | mk c _ _ => c
def prints : Fmt → List String | mk _ p _ => p
def subs : Fmt → List Fmt | mk _ _ s => s
def has (f : Fmt) (c : String) : Bool := f.prints.contains ("print_" ++ c)
end Fmt

def nodeAt : Fmt → List Nat → Option Fmt
  | f, [] => some f
  | f, i :: rest => match f.subs[i]? with
    | some s => nodeAt s rest
    | none => none

/-- a resolved handler: (class of the formatter instance holding it, method name) -/
abbrev Handler' := String × String

/-- the scan of `_get_formatter` over the MRO: `print_<c>` on the base, then on each sub-formatter, for each `c`
    in MRO order.  (`sub_formatter not in tested` compares an instance with a set of classes: always true.) -/
def scan (base : Fmt) : List String → Option Handler'
  | [] => none
  | c :: rest =>
      if base.has c then some (base.cls, "print_" ++ c)
      else match base.subs.find? (·.has c) with
        | some s => some (s.cls, "print_" ++ c)
        | none => scan base rest

/-- paths (relative to `path`) of the grandchildren collected during a failed scan: once per MRO entry -/
def grandchildPaths (base : Fmt) (path : List Nat) (mro : List String) : List (List Nat) :=
  let once : List (List Nat) := (List.range base.subs.length).flatMap fun i =>
    (List.range ((base.subs.getD i (.mk "" [] [])).subs.length)).map fun j => path ++ [i, j]
  (mro.map fun _ => once).flatten

mutual
/-- `_get_formatter(node_type, base, tested)` with the formatter addressed by `path` under `root` -/
def getF (root : Fmt) (mro : List String) : Nat → List Nat → List String → Option Handler' × List String
  | 0, _, tested => (none, tested)
  | fuel + 1, path, tested =>
    match nodeAt root path with
    | none => (none, tested)
    | some base =>
      let r : Option Handler' × List String :=
        if tested.contains base.cls then (none, tested)
        else match scan base mro with
          | some h => (some h, tested)
          | none =>
            let tested1 := tested ++ [base.cls] ++ base.subs.map Fmt.cls
            loopG root mro fuel (grandchildPaths base path mro) tested1
      match r with
      | (some h, t) => (some h, t)
      | (none, t) => if path.isEmpty then (none, t) else getF root mro fuel path.dropLast t
def loopG (root : Fmt) (mro : List String) : Nat → List (List Nat) → List String → Option Handler' × List String
  | 0, _, tested => (none, tested)
  | _, [], tested => (none, tested)
  | fuel + 1, g :: gs, tested =>
    match getF root mro fuel g tested with
    | (some h, t) => (some h, t)
    | (none, t) => loopG root mro fuel gs t
end

def FUEL : Nat := 400

/-- `get_formatter(node_type, base_formatter)`: the base first, then every root in FORMATTERS not tested yet -/
def getFormatter (roots : List Fmt) (base : Option (Nat × List Nat)) (mro : List String) : Option Handler' :=
  let (r0, t0) : Option Handler' × List String :=
    match base with
    | none => (none, [])
    | some (ri, path) => match roots[ri]? with
      | some root => getF root mro FUEL path []
      | none => (none, [])
  match r0 with
  | some h => some h
  | none =>
    let rec go : List Fmt → List String → Option Handler'
      | [], _ => none
      | f :: fs, tested =>
        if tested.contains f.cls then go fs tested
        else match getF f mro FUEL [] tested with
          | (some h, _) => some h
          | (none, t) => go fs t
    go roots t0

/-- every formatter instance reachable in a tree, as paths -/
def allPaths : Fmt → List (List Nat)
  | .mk _ _ subs => [] :: (subsPaths subs 0)
where
  subsPaths : List Fmt → Nat → List (List Nat)
    | [], _ => []
    | s :: rest, i => ((allPaths s).map (i :: ·)) ++ subsPaths rest (i + 1)

end GtModel.Dispatch

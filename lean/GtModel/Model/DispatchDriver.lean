import GtModel.Model.Dispatch
import GtModel.Gen.FormatterTables

namespace GtModel.Dispatch
open Lean

def mroOf (cls : String) : Option (List String) :=
  match (Gen.nodeClasses ++ Gen.editClasses).find? (·.1 == cls) with
  | some (_, mro, _, _) => some mro
  | none => none

/-- stream `dispatch`: {"root": i, "path": [..], "cls": name, "edited": bool} ↦ resolved handler or null.
    `edited`: resolve for the dynamically created `Edited<cls>` class (MRO = Edited<cls>, EditedTreeNode, cls, …). -/
def dispatchHandler : Handler := fun j => do
  let ri ← getNat j "root"
  let path ← jsonToNatList (← j.getObjVal? "path")
  let cls ← getStr j "cls"
  let edited := match j.getObjVal? "edited" with | .ok (Json.bool b) => b | _ => false
  match mroOf cls with
  | none => throw s!"unknown class {cls}"
  | some mro =>
    let mro' := if edited then ("Edited" ++ cls) :: "EditedTreeNode" :: mro else mro
    match getFormatter Gen.formatters (some (ri, path)) mro' with
    | some (c, m) => pure (Json.arr #[Json.str c, Json.str m])
    | none => pure Json.null

/-- stream `dispatch_all`: {"root": i, "queries": [[path, cls, edited], ...]} ↦ list of handlers -/
def dispatchAllHandler : Handler := fun j => do
  let ri ← getNat j "root"
  let qs ← getArr j "queries"
  let outs ← qs.toList.mapM fun q => do
    let a ← q.getArr?
    if h : a.size = 3 then
      let path ← jsonToNatList a[0]
      let cls ← a[1].getStr?
      let edited ← a[2].getBool?
      match mroOf cls with
      | none => throw s!"unknown class {cls}"
      | some mro =>
        let mro' := if edited then ("Edited" ++ cls) :: "EditedTreeNode" :: mro else mro
        match getFormatter Gen.formatters (some (ri, path)) mro' with
        | some (c, m) => pure (Json.arr #[Json.str c, Json.str m])
        | none => pure Json.null
    else throw "query"
  pure (Json.arr outs.toArray)

end GtModel.Dispatch

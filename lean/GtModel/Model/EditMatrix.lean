/-
  L2-core: the greedy Levenshtein-style matrix of `graphtage.levenshtein.EditDistance`.

  Python (levenshtein.py) keeps two numpy tables `costs` (C) and `path_costs` (P) of shape
  (len(to_seq)+1) × (len(from_seq)+1); rows ↔ `to_seq`, columns ↔ `from_seq`.  `_add_node` fills row 0 / column 0,
  `_best_match(row, col)` fills an inner cell from its three neighbours with the *greedy* rule below
  (NOT the textbook `min`), and `edits()` back-traces from the lower-right corner re-running `_best_match`.
  As every cell is fully tightened before `_best_match` reads it, the decisions depend on final costs only.

  The model computes the table row by row.  Instead of back-tracing, every cell carries the (reversed) list of
  moves that leads to it: the back-trace of Python follows exactly the predecessor that `_best_match` chose when
  it filled the cell (same inputs ⇒ same decision), so the script of a cell is `chosen move :: script of the chosen
  predecessor`.  Lists are shared, so this costs O(1) per cell.

  Missing entries: the shape is given by `rem` (n = rem.length columns) and `ins` (m = ins.length rows);
  `cells` is read with default 0 (`cellAt`): a missing row is `[]`, a missing entry is `0`.  The driver rejects
  ill-shaped input, all theorems hold for arbitrary `cells` with this reading.

  Only Lean core is imported.
-/
import GtModel.Model.Proto

namespace GtModel.EditMatrix
open Lean

/-- One step of an edit script.  `diag`: edit `from[c] → to[r]` (whatever `from[c].edits(to[r])` is);
    `up`: insert `to[r]`; `left`: remove `from[c]`. -/
inductive Move where
  | diag | up | left
deriving DecidableEq, Repr, Inhabited

/-- A matrix cell: `cost = C[r][c]`, `path = P[r][c]`, `script` = moves from (0,0) to (r,c), last move first. -/
structure Cell where
  cost : Nat
  path : Nat
  script : List Move
deriving Repr, Inhabited

/-- Python tuple comparison `(c1, p1) <= (c2, p2)`. -/
def lexLe (a b : Cell) : Bool := a.cost < b.cost || (a.cost == b.cost && a.path ≤ b.path)

def origin : Cell := ⟨0, 0, []⟩

def goLeft (p : Cell) (rm : Nat) : Cell := ⟨p.cost + rm, p.path + 1, .left :: p.script⟩
def goUp (p : Cell) (i : Nat) : Cell := ⟨p.cost + i, p.path + 1, .up :: p.script⟩
def goDiag (p : Cell) (x : Nat) : Cell := ⟨p.cost + x, p.path + 1, .diag :: p.script⟩

/-- `_best_match(row, col)` for an inner cell: `i = ins[row-1]`, `rm = rem[col-1]`, `x = cell(row,col)`,
    `d`/`l`/`u` the diagonal / left / upper neighbour. -/
def step (i rm x : Nat) (d l u : Cell) : Cell :=
  if lexLe d l && lexLe d u && decide (x < i) && decide (x < rm) then goDiag d x
  else if lexLe u d then goUp u i
  else goLeft l rm

/-- Row 0 to the right of `p`. -/
def row0Go (p : Cell) : List Nat → List Cell
  | [] => []
  | rm :: rems => goLeft p rm :: row0Go (goLeft p rm) rems

def row0 (rem : List Nat) : List Cell := origin :: row0Go origin rem

/-- The inner cells of a row: `l` is the cell just computed (left neighbour), the first list is the previous row
    from the diagonal neighbour on, then the remaining `rem` entries and the remaining entries of the cell row. -/
def rowGo (i : Nat) (l : Cell) : List Cell → List Nat → List Nat → List Cell
  | d :: u :: rest, rm :: rems, xs =>
      let cur := step i rm (xs.headD 0) d l u
      cur :: rowGo i cur (u :: rest) rems xs.tail
  | _, _, _ => []

/-- Row r+1 from row r (`prev`), `i = ins[r]`, `xs = cells[r]`. -/
def nextRow (rem : List Nat) (prev : List Cell) (i : Nat) (xs : List Nat) : List Cell :=
  match prev with
  | [] => []
  | p0 :: _ => goUp p0 i :: rowGo i (goUp p0 i) prev rem xs

/-- Last row of the table, starting from row `prev`. -/
def finalRow (rem : List Nat) (prev : List Cell) : List Nat → List (List Nat) → List Cell
  | [], _ => prev
  | i :: ins, cells => finalRow rem (nextRow rem prev i (cells.headD [])) ins cells.tail

/-- All rows below `prev` (for the driver: the full `costs` / `path_costs` tables). -/
def rowsGo (rem : List Nat) (prev : List Cell) : List Nat → List (List Nat) → List (List Cell)
  | [], _ => []
  | i :: ins, cells =>
      let nr := nextRow rem prev i (cells.headD [])
      nr :: rowsGo rem nr ins cells.tail

def rows (rem ins : List Nat) (cells : List (List Nat)) : List (List Cell) :=
  row0 rem :: rowsGo rem (row0 rem) ins cells

/-- Lower-right cell. -/
def corner (rem ins : List Nat) (cells : List (List Nat)) : Cell :=
  (finalRow rem (row0 rem) ins cells).getLast?.getD origin

/-- `(C[m][n], forward move list from (0,0) to (m,n))`. -/
def solve (rem ins : List Nat) (cells : List (List Nat)) : Nat × List Move :=
  let c := corner rem ins cells
  (c.cost, c.script.reverse)

/-- `cells[r][c]`, default 0. -/
def cellAt (cells : List (List Nat)) (r c : Nat) : Nat := (cells.getD r []).getD c 0

/-- Cost of a single move made at position (r,c) (i.e. r to-elements and c from-elements consumed so far). -/
def moveCost (rem ins : List Nat) (cells : List (List Nat)) (r c : Nat) : Move → Nat
  | .diag => cellAt cells r c
  | .up => ins.getD r 0
  | .left => rem.getD c 0

/-- Position after a move. -/
def Move.next (r c : Nat) : Move → Nat × Nat
  | .diag => (r + 1, c + 1)
  | .up => (r + 1, c)
  | .left => (r, c + 1)

/-- Costs of the moves of a script replayed from (r,c). -/
def moveCostsFrom (rem ins : List Nat) (cells : List (List Nat)) : Nat → Nat → List Move → List Nat
  | _, _, [] => []
  | r, c, mv :: rest =>
      moveCost rem ins cells r c mv :: moveCostsFrom rem ins cells (Move.next r c mv).1 (Move.next r c mv).2 rest

def moveCosts (rem ins : List Nat) (cells : List (List Nat)) (moves : List Move) : List Nat :=
  moveCostsFrom rem ins cells 0 0 moves

/-- Positions `(r, c)` at which the moves of a script are made, replayed from (r,c). -/
def positionsFrom : Nat → Nat → List Move → List (Nat × Nat)
  | _, _, [] => []
  | r, c, mv :: rest => (r, c) :: positionsFrom (Move.next r c mv).1 (Move.next r c mv).2 rest

/-- The script with the position of every move: `(move, r, c)`. -/
def located (moves : List Move) : List (Move × Nat × Nat) := moves.zip (positionsFrom 0 0 moves)

/-! ### Shared prefix / suffix trimming (`EditDistance.__init__`) -/

/-- Length of the shared prefix: `zip` stops at the shorter list, the loop breaks at the first difference. -/
def sharedPrefixLen {α : Type} [BEq α] : List α → List α → Nat
  | x :: a, y :: b => if x == y then sharedPrefixLen a b + 1 else 0
  | _, _ => 0

/-- `(p, s)`: lengths of the shared prefix and of the shared suffix of what remains after the prefix. -/
def trimLens {α : Type} [BEq α] (a b : List α) : Nat × Nat :=
  let p := sharedPrefixLen a b
  (p, sharedPrefixLen (a.drop p).reverse (b.drop p).reverse)

/-- `self.from_seq` / `self.to_seq` of `EditDistance`: the part between prefix and suffix. -/
def middle {α : Type} (a : List α) (ps : Nat × Nat) : List α := (a.drop ps.1).take (a.length - ps.1 - ps.2)

/-- `EditDistance(from, to)` on full sequences: `fromKeys`/`toKeys` decide node equality (`==`) for the trimming,
    `rem`/`ins`/`cells` are indexed by the UNTRIMMED positions. -/
structure Trimmed where
  trim : Nat × Nat                       -- (len(shared_prefix), len(reversed_shared_suffix))
  rem : List Nat                         -- of `self.from_seq`
  ins : List Nat                         -- of `self.to_seq`
  cells : List (List Nat)                -- the sub-matrix
  total : Nat                            -- `C[m][n]` of the sub-matrix (the matched ends cost 0)
  moves : List Move                      -- script of the sub-matrix
  script : List (Move × Nat × Nat)       -- what `edits()` yields: prefix matches, sub-matrix script, suffix matches,
                                         -- located on the untrimmed index space

def solveTrimmed {α : Type} [BEq α] (fromKeys toKeys : List α) (rem ins : List Nat) (cells : List (List Nat)) :
    Trimmed :=
  let ps := trimLens fromKeys toKeys
  let rem' := middle rem ps
  let ins' := middle ins ps
  let sub := (middle cells ps).map (middle · ps)
  let (total, moves) := solve rem' ins' sub
  let pre := (List.range ps.1).map fun k => (Move.diag, k, k)
  let mid := (located moves).map fun (m, r, c) => (m, r + ps.1, c + ps.1)
  let suf := (List.range ps.2).map fun k => (Move.diag, toKeys.length - ps.2 + k, fromKeys.length - ps.2 + k)
  { trim := ps, rem := rem', ins := ins', cells := sub, total := total, moves := moves, script := pre ++ mid ++ suf }

/-! ### String specialisation (`StringNode.edits`, `string_edit_distance`) -/

/-- What happens to one character (as `StringFormatter.print_StringEdit` classifies the sub-edits). -/
inductive CharOp (α : Type) where
  | kept (c : α)          -- Match of equal characters
  | removed (c : α)       -- Remove
  | inserted (c : α)      -- Insert
  | subst (x y : α)       -- Match of different characters: shown as x removed, y inserted
deriving DecidableEq, Repr

/-- Replay a move list over the two (middle) sequences, emitting one `CharOp` per move.  A move that runs past
    the end of a sequence emits nothing (never happens for scripts of `solve`, see `solve_counts`). -/
def replay {α : Type} [DecidableEq α] : List α → List α → List Move → List (CharOp α)
  | x :: a, y :: b, .diag :: ms => (if x = y then CharOp.kept x else CharOp.subst x y) :: replay a b ms
  | a, y :: b, .up :: ms => CharOp.inserted y :: replay a b ms
  | x :: a, b, .left :: ms => CharOp.removed x :: replay a b ms
  | _, _, _ => []

/-- Unit-cost matrix of two character sequences: rows ↔ `b` (to), columns ↔ `a` (from). -/
def charCells {α : Type} [DecidableEq α] (a b : List α) : List (List Nat) :=
  b.map fun y => a.map fun x => if x = y then 0 else 1

def ones {α : Type} (a : List α) : List Nat := a.map fun _ => 1

/-- `string_edit_distance(a, b).edits()` per character: shared prefix, matrix script of the middle, shared suffix. -/
def editDistanceScript {α : Type} [DecidableEq α] (a b : List α) : List (CharOp α) :=
  let ps := trimLens a b
  let ma := middle a ps
  let mb := middle b ps
  (a.take ps.1).map CharOp.kept
    ++ replay ma mb (solve (ones ma) (ones mb) (charCells ma mb)).2
    ++ (a.drop (a.length - ps.2)).map CharOp.kept

/-- `StringNode(a).edits(StringNode(b))` per character. -/
def strScript {α : Type} [DecidableEq α] (a b : List α) : List (CharOp α) :=
  if a = b then a.map CharOp.kept
  else match a, b with
    | [x], [y] => [CharOp.subst x y]
    | _, _ => editDistanceScript a b

/-- Final cost of the string edit (`bounds()` once definitive). -/
def strCost {α : Type} [DecidableEq α] (a b : List α) : Nat :=
  if a = b then 0
  else match a, b with
    | [_], [_] => 1
    | _, _ =>
      let ps := trimLens a b
      (solve (ones (middle a ps)) (ones (middle b ps)) (charCells (middle a ps) (middle b ps))).1

def CharOp.fromPart {α : Type} : CharOp α → List α
  | .kept c => [c] | .removed c => [c] | .inserted _ => [] | .subst x _ => [x]
def CharOp.toPart {α : Type} : CharOp α → List α
  | .kept c => [c] | .removed _ => [] | .inserted c => [c] | .subst _ y => [y]
def CharOp.keptPart {α : Type} : CharOp α → List α
  | .kept c => [c] | _ => []
def CharOp.nRemoved {α : Type} : CharOp α → Nat
  | .removed _ => 1 | .subst _ _ => 1 | _ => 0
def CharOp.nInserted {α : Type} : CharOp α → Nat
  | .inserted _ => 1 | .subst _ _ => 1 | _ => 0

/-- Characters of the source string in the script (everything that is not inserted). -/
def fromProj {α : Type} (s : List (CharOp α)) : List α := s.flatMap CharOp.fromPart
/-- Characters of the target string in the script (everything that is not removed). -/
def toProj {α : Type} (s : List (CharOp α)) : List α := s.flatMap CharOp.toPart
/-- Characters shown as unchanged. -/
def kept {α : Type} (s : List (CharOp α)) : List α := s.flatMap CharOp.keptPart
def removed {α : Type} (s : List (CharOp α)) : Nat := (s.map CharOp.nRemoved).sum
def inserted {α : Type} (s : List (CharOp α)) : Nat := (s.map CharOp.nInserted).sum

/-! ### Driver handlers -/

def Move.toJson : Move → Json
  | .diag => "diag" | .up => "up" | .left => "left"

def locatedToJson (ms : List (Move × Nat × Nat)) : Json :=
  Json.arr (ms.map fun (m, r, c) => Json.arr #[m.toJson, Json.num (r : Nat), Json.num (c : Nat)]).toArray

def jsonToNatMatrix (j : Json) : Except String (List (List Nat)) := do
  let a ← j.getArr?
  a.toList.mapM jsonToNatList

/-- `AbstractEdit.bounds()` of a fresh `EditDistance`: `[constant_cost, cost_upper_bound]` computed from the
    UNTRIMMED sequences: the `|len difference|` cheapest elements of the longer one must be removed/inserted. -/
def initialBounds (fromSizes toSizes : List Nat) (penalty : Nat) : Nat × Nat :=
  let larger := if fromSizes.length < toSizes.length then toSizes else fromSizes
  let k := larger.length - (if fromSizes.length < toSizes.length then fromSizes.length else toSizes.length)
  let sorted := larger.toArray.qsort (· < ·) |>.toList
  (((sorted.take k).map (· + penalty)).sum,
   ((fromSizes.map (· + penalty)).sum + (toSizes.map (· + penalty)).sum))

/-- stream `editmatrix`: {"from_keys","to_keys" (equal key ⇔ nodes compare equal), "from_sizes","to_sizes",
    "penalty", "cells" (full len(to) × len(from) table of Match costs)}. -/
def editMatrixHandler : Handler := fun j => do
  let fk ← (← j.getObjVal? "from_keys") |> jsonToNatList
  let tk ← (← j.getObjVal? "to_keys") |> jsonToNatList
  let fs ← (← j.getObjVal? "from_sizes") |> jsonToNatList
  let ts ← (← j.getObjVal? "to_sizes") |> jsonToNatList
  let pen ← getNat j "penalty"
  let cells ← (← j.getObjVal? "cells") |> jsonToNatMatrix
  if fs.length != fk.length || ts.length != tk.length || cells.length != tk.length
      || cells.any (·.length != fk.length) then
    throw "shape"
  let rem := fs.map (· + pen)
  let ins := ts.map (· + pen)
  let t := solveTrimmed fk tk rem ins cells
  let ps := t.trim
  let sub := t.cells
  let tbl := rows t.rem t.ins sub
  let total := t.total
  let rem := t.rem
  let ins := t.ins
  let moves := t.moves
  let empty := rem.isEmpty && ins.isEmpty
  let ib := initialBounds fs ts pen
  let bounds : Nat × Nat := if empty then ib else (total, total)
  pure <| Json.mkObj [
    ("prefix", Json.num (ps.1 : Nat)), ("suffix", Json.num (ps.2 : Nat)),
    ("script", locatedToJson t.script),
    ("move_costs", natListToJson (List.replicate ps.1 0 ++ moveCosts rem ins sub moves ++ List.replicate ps.2 0)),
    ("bounds", natListToJson [bounds.1, bounds.2]),
    ("initial_bounds", natListToJson [ib.1, ib.2]),
    ("costs", Json.arr (tbl.map fun row => natListToJson (row.map (·.cost))).toArray),
    ("path_costs", Json.arr (tbl.map fun row => natListToJson (row.map (·.path))).toArray)]

def CharOp.toJson : CharOp Nat → Json
  | .kept c => Json.arr #["k", Json.num (c : Nat)]
  | .removed c => Json.arr #["r", Json.num (c : Nat)]
  | .inserted c => Json.arr #["i", Json.num (c : Nat)]
  | .subst x y => Json.arr #["s", Json.num (x : Nat), Json.num (y : Nat)]

/-- stream `strscript`: {"a": [code points], "b": [code points]}. -/
def strScriptHandler : Handler := fun j => do
  let a ← (← j.getObjVal? "a") |> jsonToNatList
  let b ← (← j.getObjVal? "b") |> jsonToNatList
  let kind : String :=
    if a = b then "match0" else if a.length == 1 && b.length == 1 then "match1" else "stringedit"
  pure <| Json.mkObj [
    ("kind", kind),
    ("script", Json.arr ((strScript a b).map CharOp.toJson).toArray),
    ("cost", Json.num (strCost a b : Nat))]

end GtModel.EditMatrix

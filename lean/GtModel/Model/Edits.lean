/-
  L2: static edit semantics — the FINAL edit script and costs that graphtage's engine reaches once every
  bound is fully tightened, for trees built by `json.build_tree`.  Mirrors, class by class:
    LeafNode.edits / StringNode.edits / NullNode.edits           (graphtage.py)
    KeyValuePairEdit                                              (graphtage.py)
    ListNode.edits → Match | FixedLengthSequenceEdit | EditDistance (graphtage.py, sequences.py, levenshtein.py)
    DictNode.edits → Match | MultiSetEdit                          (graphtage.py, multiset.py)
    FixedKeyDictNode.edits → Match | FixedKeyDictNodeEdit          (graphtage.py)
  The assignment solver used by MultiSetEdit's matcher (scipy) is an ORACLE: its recorded answers are an
  argument; they are sanitised to a partial injection, so every theorem holds for every oracle.
  Lean core only.
-/
import GtModel.Model.Tree
import GtModel.Model.EditMatrix

namespace GtModel
open Lean
open GtModel.EditMatrix (Move solve located trimLens middle)

/-! ### `levenshtein_distance(s, t)` (textbook table; the result is its last cell) -/

def levRow (prev : List Nat) (x : Nat) (t : Str) (rowIdx : Nat) : List Nat :=
  -- prev = dist[row-1][0..], builds dist[row][0..] where dist[row][0] = rowIdx
  let rec go (left : Nat) (diag : Nat) : List Nat → Str → List Nat
    | up :: ups, y :: ys =>
        let c := if x == y then 0 else 1
        let v := Nat.min (Nat.min (up + 1) (left + 1)) (diag + c)
        v :: go v up ups ys
    | _, _ => []
  match prev with
  | [] => []
  | d0 :: rest => rowIdx :: go rowIdx d0 rest t

def levRows (t : Str) : List Nat → Nat → Str → List Nat
  | prev, _, [] => prev
  | prev, i, x :: xs => levRows t (levRow prev x t (i + 1)) (i + 1) xs

def lev (s t : Str) : Nat :=
  (levRows t (List.range (t.length + 1)) 0 s).getLast?.getD 0

/-! ### scripts -/

inductive Kind where
  | match_ | replace | remove | insert | kvp | fixed | ed | ms | fk | str
deriving DecidableEq, Repr, Inhabited

/-- Index of an edit's from-node / to-node among its parent's children. `same`: the to-node IS the from-node
    (`MultiSetEdit` emits `Match(n, n, 0)` for an element that also occurs in the other multiset). -/
inductive Ix where
  | none | at (n : Nat) | same
deriving DecidableEq, Repr, Inhabited

inductive Script where
  | mk (kind : Kind) (fi ti : Ix) (cost : Nat) (subs : List Script)
deriving Repr, Inhabited

namespace Script
def kind : Script → Kind | mk k _ _ _ _ => k
def fi : Script → Ix | mk _ f _ _ _ => f
def ti : Script → Ix | mk _ _ t _ _ => t
def cost : Script → Nat | mk _ _ _ c _ => c
def subs : Script → List Script | mk _ _ _ _ s => s
def relabel (s : Script) (f t : Ix) : Script := mk s.kind f t s.cost s.subs
end Script

def sumCosts (l : List Script) : Nat := (l.map Script.cost).sum

def mkMatch (c : Nat) : Script := .mk .match_ .none .none c []
def mkReplace (a b : Nat) : Script := .mk .replace .none .none (Nat.max a b + 1) []
/-- `Remove(node, penalty)` labelled with the node's index -/
def mkRemove (i size pen : Nat) : Script := .mk .remove (.at i) .none (size + pen) []
/-- `Insert(node, penalty)`: the inserted node is the edit's `from_node`, so its index sits in `fi` -/
def mkInsert (i size pen : Nat) : Script := .mk .insert (.at i) .none (size + pen) []
def mkCompound (k : Kind) (subs : List Script) : Script := .mk k .none .none (sumCosts subs) subs

/-! ### strings (`StringNode.edits`, `StringEdit`) -/

/-- sub-edits of `string_edit_distance(a, b)`: char nodes have size 1, penalty 0 -/
def strSubs (a b : Str) : List Script × Nat :=
  let ps := trimLens a b
  let ma := middle a ps
  let mb := middle b ps
  let r := solve (EditMatrix.ones ma) (EditMatrix.ones mb) (EditMatrix.charCells ma mb)
  let pre := (List.range ps.1).map fun k => (mkMatch 0).relabel (.at k) (.at k)
  let mid := (located r.2).map fun (m, rr, c) =>
    match m with
    | .diag => (mkMatch (if ma.getD c 0 == mb.getD rr 0 then 0 else 1)).relabel (.at (c + ps.1)) (.at (rr + ps.1))
    | .up => mkInsert (rr + ps.1) 1 0
    | .left => mkRemove (c + ps.1) 1 0
  let suf := (List.range ps.2).map fun k => (mkMatch 0).relabel (.at (a.length - ps.2 + k)) (.at (b.length - ps.2 + k))
  (pre ++ mid ++ suf, r.1)

def strEdits (a b : Str) : Script :=
  if a == b then mkMatch 0
  else if a.length == 1 && b.length == 1 then mkMatch 1
  else
    let r := strSubs a b
    .mk .str .none .none r.2 r.1

/-! ### leaves -/

/-- `LeafNode.edits(leaf)`: edit distance of the `str()` forms, but at least 1 for unequal leaves -/
def leafLeaf (a b : Scalar) : Script :=
  let c := lev a.pyStr b.pyStr
  mkMatch (if c == 0 && !(a.eq b) then 1 else c)

def scalarSize (s : Scalar) : Nat := (Tree.leaf s).size

def leafEdits (a : Scalar) (t : Tree) : Script :=
  match a, t with
  | .null, .leaf .null => mkMatch 0
  | .null, t => mkReplace 0 t.size
  | .str s, .leaf (.str s') => strEdits s s'
  | a, .leaf b => leafLeaf a b
  | a, t => mkReplace (scalarSize a) t.size

/-! ### the oracle (assignment solver answers) -/

structure OracleEntry where
  f : List (List Nat)      -- paths of the matcher's from-nodes
  t : List (List Nat)      -- paths of the matcher's to-nodes
  pairs : List (Nat × Nat)
deriving Repr, Inhabited

abbrev Oracle := List OracleEntry

/-- keep a pair only if both indices are in range and fresh: the result is always a partial injection -/
def sanitize (nf nt : Nat) : List (Nat × Nat) → List (Nat × Nat) → List (Nat × Nat)
  | acc, [] => acc.reverse
  | acc, (i, j) :: rest =>
      if i < nf && j < nt && !(acc.any (·.1 == i)) && !(acc.any (·.2 == j)) then sanitize nf nt ((i, j) :: acc) rest
      else sanitize nf nt acc rest

def identityPairs (n : Nat) : List (Nat × Nat) := (List.range n).map fun i => (i, i)

/-- the recorded answer for the matcher over the given node paths; if the solver never ran for it (its
    bounds collapsed before a matching was needed) any injection of full size costs the same: take identity -/
def Oracle.lookup (orc : Oracle) (fps tps : List (List Nat)) : List (Nat × Nat) :=
  match orc.find? (fun e => e.f == fps && e.t == tps) with
  | some e => sanitize fps.length tps.length [] e.pairs
  | none => identityPairs (Nat.min fps.length tps.length)

/-- insertion sort of pairs by first component (the matching dict is ordered by from-index) -/
def insertPair (p : Nat × Nat) : List (Nat × Nat) → List (Nat × Nat)
  | [] => [p]
  | q :: rest => if p.1 ≤ q.1 then p :: q :: rest else q :: insertPair p rest

def sortPairs : List (Nat × Nat) → List (Nat × Nat)
  | [] => []
  | p :: rest => insertPair p (sortPairs rest)

/-! ### the recursive dispatch -/

instance : BEq Tree := ⟨Tree.eq⟩

def allLeaves (cs : List Tree) : Bool := cs.all Tree.isLeaf
def allPositive (cs : List Tree) : Bool := cs.all (fun c => c.size > 0)

/-- index of the first pair with key `k` -/
def findKey (k : Str) : List (Str × Tree) → Nat → Option Nat
  | [], _ => none
  | (k', _) :: rest, i => if k == k' then some i else findKey k rest (i + 1)

/-- `KeyValuePairEdit(f, t)` given the script of the value pair (used only when the values differ) -/
def kvpScript (fk tk : Str) (valuesEqual : Bool) (valEdit : Script) : Script :=
  let ke := (if fk == tk then mkMatch 0 else strEdits fk tk).relabel (.at 0) (.at 0)
  let ve := (if valuesEqual then mkMatch 0 else valEdit).relabel (.at 1) (.at 1)
  mkCompound .kvp [ke, ve]

/-- replay of an `EditDistance` over the children: `tbl[c][r]` = script of `from[c].edits(to[r])` -/
def edScript (fcs tcs : List Tree) (pen : Nat) (tbl : List (List Script)) : Script :=
  let ps := trimLens fcs tcs
  let mf := middle fcs ps
  let mt := middle tcs ps
  let rem := mf.map (fun c => c.size + pen)
  let ins := mt.map (fun c => c.size + pen)
  let cellS (r c : Nat) : Script := (tbl.getD (c + ps.1) []).getD (r + ps.1) (mkMatch 0)
  let cells := (List.range mt.length).map fun r => (List.range mf.length).map fun c => (cellS r c).cost
  let res := solve rem ins cells
  let pre := (List.range ps.1).map fun k => (mkMatch 0).relabel (.at k) (.at k)
  let mid := (located res.2).map fun (m, r, c) =>
    match m with
    | .diag => (cellS r c).relabel (.at (c + ps.1)) (.at (r + ps.1))
    | .up => mkInsert (r + ps.1) ((mt.getD r (.leaf .null)).size) pen
    | .left => mkRemove (c + ps.1) ((mf.getD c (.leaf .null)).size) pen
  let suf := (List.range ps.2).map fun k => (mkMatch 0).relabel (.at (fcs.length - ps.2 + k)) (.at (tcs.length - ps.2 + k))
  .mk .ed .none .none res.1 (pre ++ mid ++ suf)

/-- `FixedLengthSequenceEdit`: positional pairs, then the surplus tail -/
def fixedScript (fcs tcs : List Tree) (tbl : List (List Script)) : Script :=
  let n := Nat.min fcs.length tcs.length
  let pairs := (List.range n).map fun i => ((tbl.getD i []).getD i (mkMatch 0)).relabel (.at i) (.at i)
  let rems := (List.range (fcs.length - n)).map fun k => mkRemove (n + k) ((fcs.getD (n + k) (.leaf .null)).size) 1
  let inss := (List.range (tcs.length - n)).map fun k => mkInsert (n + k) ((tcs.getD (n + k) (.leaf .null)).size) 1
  mkCompound .fixed (pairs ++ rems ++ inss)

/-- `MultiSetEdit` on two `DictNode`s. `vtbl[i][j]` = script of `from.value[i].edits(to.value[j])`. -/
def msScript (amk : Bool) (orc : Oracle) (fp tp : List Nat) (fkv tkv : List (Str × Tree))
    (vtbl : List (List Script)) : Script :=
  let nf := fkv.length
  let nt := tkv.length
  let kvE (i j : Nat) : Script :=
    let f := fkv.getD i ([], .leaf .null)
    let t := tkv.getD j ([], .leaf .null)
    (kvpScript f.1 t.1 (f.2.eq t.2) ((vtbl.getD i []).getD j (mkMatch 0))).relabel (.at i) (.at j)
  -- auto key matching: every from-pair whose key also occurs in `to`
  let auto : List (Nat × Nat) :=
    if amk then (List.range nf).filterMap fun i => (findKey (fkv.getD i ([], .leaf .null)).1 tkv 0).map fun j => (i, j)
    else []
  let fLeft := (List.range nf).filter fun i => !(auto.any (·.1 == i))
  let tLeft := (List.range nt).filter fun j => !(auto.any (·.2 == j))
  let hasEqIn (x : Str × Tree) (idxs : List Nat) (l : List (Str × Tree)) : Bool :=
    idxs.any fun j => kvEq x (l.getD j ([], .leaf .null))
  let toMatch := fLeft.filter fun i => hasEqIn (fkv.getD i ([], .leaf .null)) tLeft tkv
  let toRemove := fLeft.filter fun i => !(hasEqIn (fkv.getD i ([], .leaf .null)) tLeft tkv)
  let toInsert := tLeft.filter fun j => !(hasEqIn (tkv.getD j ([], .leaf .null)) fLeft fkv)
  let pairs := sortPairs (orc.lookup (toRemove.map fun i => fp ++ [i]) (toInsert.map fun j => tp ++ [j]))
  let matched := pairs.map fun (a, b) => kvE (toRemove.getD a 0) (toInsert.getD b 0)
  let remLeft := (List.range toRemove.length).filter fun a => !(pairs.any (·.1 == a))
  let insLeft := (List.range toInsert.length).filter fun b => !(pairs.any (·.2 == b))
  let subs :=
    (toMatch.map fun i => (mkMatch 0).relabel (.at i) .same)
    ++ (auto.map fun (i, j) => kvE i j)
    ++ matched
    ++ (remLeft.map fun a => let i := toRemove.getD a 0; mkRemove i (kvSize (fkv.getD i ([], .leaf .null))) 1)
    ++ (insLeft.map fun b => let j := toInsert.getD b 0; mkInsert j (kvSize (tkv.getD j ([], .leaf .null))) 1)
  mkCompound .ms subs

/-- `FixedKeyDictNodeEdit`: pairs by key in from-order, then removals, then insertions in to-order -/
def fkScript (fkv tkv : List (Str × Tree)) (vtbl : List (List Script)) : Script :=
  let nf := fkv.length
  let shared : List Script := (List.range nf).filterMap fun i =>
    let f := fkv.getD i ([], .leaf .null)
    (findKey f.1 tkv 0).map fun j =>
      let t := tkv.getD j ([], .leaf .null)
      if kvEq f t then (mkMatch 0).relabel (.at i) (.at j)
      else (kvpScript f.1 t.1 (f.2.eq t.2) ((vtbl.getD i []).getD j (mkMatch 0))).relabel (.at i) (.at j)
  let rems : List Script := (List.range nf).filterMap fun i =>
    let f := fkv.getD i ([], .leaf .null)
    match findKey f.1 tkv 0 with
    | some _ => none
    | none => some (mkRemove i (kvSize f) 1)
  let inss : List Script := (List.range tkv.length).filterMap fun j =>
    let t := tkv.getD j ([], .leaf .null)
    match findKey t.1 fkv 0 with
    | some _ => none
    | none => some (mkInsert j (kvSize t) 1)
  mkCompound .fk (shared ++ rems ++ inss)

theorem sizeOf_snd_lt (p : Str × Tree) : sizeOf p.2 < sizeOf p := by
  cases p; simp; omega

/-- `from.edits(to)`, fully refined. `fp`/`tp` are the index paths of the two nodes (oracle keys). -/
def edits (o : Opts) (orc : Oracle) : List Nat → List Nat → Tree → Tree → Script
  | _, _, .leaf a, t => leafEdits a t
  | fp, tp, .list fcs, .list tcs =>
      if eqL fcs tcs then mkMatch 0
      else
        let tbl : List (List Script) := fcs.attach.zipIdx.map fun (⟨fc, _⟩, c) =>
          tcs.zipIdx.map fun (tc, r) => edits o orc (fp ++ [c]) (tp ++ [r]) fc tc
        if !o.ale || (fcs.length == tcs.length && (!o.alesl || fcs.length == 1)) then fixedScript fcs tcs tbl
        else
          let pen := if allLeaves fcs && allLeaves tcs && allPositive fcs && allPositive tcs then 0 else 1
          edScript fcs tcs pen tbl
  | _, _, .list fcs, t => mkReplace (sizeL fcs) t.size
  | fp, tp, .dict fkv, .dict tkv =>
      if (fkv.length == tkv.length && subKV fkv tkv) then mkMatch 0
      else
        let vtbl : List (List Script) := fkv.attach.zipIdx.map fun (⟨kv, _⟩, i) =>
          tkv.zipIdx.map fun (tkvj, j) => edits o orc (fp ++ [i, 1]) (tp ++ [j, 1]) kv.2 tkvj.2
        msScript o.amk orc fp tp fkv tkv vtbl
  | _, _, .dict fkv, t => mkReplace (sizeKV fkv) t.size
  | fp, tp, .fdict fkv, .fdict tkv =>
      if (fkv.length == tkv.length && subKV fkv tkv) then mkMatch 0
      else
        let vtbl : List (List Script) := fkv.attach.zipIdx.map fun (⟨kv, _⟩, i) =>
          tkv.zipIdx.map fun (tkvj, j) => edits o orc (fp ++ [i, 1]) (tp ++ [j, 1]) kv.2 tkvj.2
        fkScript fkv tkv vtbl
  | _, _, .fdict fkv, t => mkReplace (sizeKV fkv) t.size
termination_by _ _ f _ => sizeOf f
decreasing_by
  all_goals simp_wf
  · have := List.sizeOf_lt_of_mem ‹fc ∈ fcs›; omega
  · have h1 := List.sizeOf_lt_of_mem ‹kv ∈ fkv›
    have h2 := sizeOf_snd_lt kv
    omega
  · have h1 := List.sizeOf_lt_of_mem ‹kv ∈ fkv›
    have h2 := sizeOf_snd_lt kv
    omega

/-- the whole comparison: build both documents, diff the roots -/
def diffDocs (o : Opts) (orc : Oracle) (f t : Doc) : Script :=
  edits o orc [] [] (build o f) (build o t)

/-! ### JSON for the driver -/

def Kind.toString : Kind → String
  | .match_ => "match" | .replace => "replace" | .remove => "remove" | .insert => "insert" | .kvp => "kvp"
  | .fixed => "fixed" | .ed => "ed" | .ms => "ms" | .fk => "fk" | .str => "str"

def Ix.toJson : Ix → Json
  | .none => Json.null
  | .at n => Json.num (n : Nat)
  | .same => Json.str "="

partial def Script.toJson : Script → Json
  | .mk k f t c subs => Json.arr #[Json.str k.toString, f.toJson, t.toJson, Json.num (c : Nat), Json.arr (subs.map Script.toJson).toArray]

def pathsOfJson (j : Json) : Except String (List (List Nat)) := do
  let a ← j.getArr?
  a.toList.mapM jsonToNatList

def oracleOfJson (j : Json) : Except String Oracle := do
  let a ← j.getArr?
  a.toList.mapM fun e => do
    let f ← pathsOfJson (← e.getObjVal? "f")
    let t ← pathsOfJson (← e.getObjVal? "t")
    let ps ← (← e.getObjVal? "pairs").getArr?
    let pairs ← ps.toList.mapM fun p => do
      let l ← jsonToNatList p
      match l with
      | [a, b] => pure (a, b)
      | _ => throw "pair"
    pure { f := f, t := t, pairs := pairs }

/-- stream `script` -/
def scriptHandler : Handler := fun j => do
  let o ← optsOfJson j
  let f ← docOfJson (← j.getObjVal? "f")
  let t ← docOfJson (← j.getObjVal? "t")
  let orc ← oracleOfJson (← j.getObjVal? "oracle")
  let ft := build o f
  let tt := build o t
  let s := edits o orc [] [] ft tt
  pure <| Json.mkObj [("script", s.toJson), ("eq", Json.bool (ft.eq tt)),
    ("sizes", natListToJson [ft.size, tt.size])]

end GtModel

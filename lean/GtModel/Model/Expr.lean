/-
  L7: `graphtage.expressions.Expression.eval` — exact mirror of the RPN evaluator, over an ABSTRACT host.

  What is modelled (graphtage/expressions.py):
    * `Expression.eval`      — the value stack, `FixedSizeCollection`, `OperatorToken` (arity / expand
                               taken from the operator's table row), all other tokens pushed raw,
                               the final `len(values) != 1` / identifier resolution;
    * `Expression.get_value` — literals, identifiers (locals, then globals, else `KeyError`),
                               any other `Token` → `ValueError`, non-tokens returned unchanged;
    * `get_member`           — `isinstance(member, IdentifierToken)`, the underscore test, the refusal of
                               `_REFLECTIVE_TYPES` objects, the interception of `_SAFE_STR_METHODS` names on
                               `str` / str instances, `getattr`; including the error paths (`f"{member}"`,
                               `member.offset`);
    * every `Operator.execute` lambda (shapes come from `GtModel.Gen.ExprTables`).
  What is NOT modelled: the tokenizer and `infix_to_rpn`.  The theorems quantify over ALL token lists.

  Python's object world is a parameter (`Host`): attribute lookup, calls, indexing, arithmetic, truth
  value and string conversion are host operations that may have effects (`σ`) and raise.  The evaluator
  records, in its own log, every attribute read *it* issues and every identifier *it* resolves.

  Only Lean core is imported.
-/
import GtModel.Gen.ExprTables

namespace GtModel.Expr

/-- Python exception class name. -/
abbrev Exc := String

inductive Container where
  | tuple | list
deriving DecidableEq, Repr, Inhabited

/-- RPN tokens as `Expression.eval` distinguishes them. -/
inductive Tok where
  | ident (name : String) (offset : Nat)      -- IdentifierToken
  | int (raw : String) (v : Int)              -- IntegerToken
  | float (raw : String)                      -- FloatToken (value kept as its text)
  | str (s : String)                          -- StringToken
  | fsc (size : Int) (ct : Container)         -- FixedSizeCollection
  | op (spec : OpSpec)                        -- OperatorToken (incl. OpenBracket = GETITEM, FunctionCall)
  | other (raw : String)                      -- any other Token instance (Comma, parentheses, …)
deriving Repr, Inhabited

/-- An entry of the value stack: an un-evaluated token or a computed Python object. -/
inductive SVal (Obj : Type) where
  | tok (t : Tok)
  | obj (o : Obj)
deriving Inhabited

abbrev HRes (σ α : Type) := σ → Except Exc α × σ

/-- The abstract host: everything the evaluator asks of the Python runtime. -/
structure Host (σ Obj : Type) where
  ofInt : Int → Obj
  ofFloat : String → Obj
  ofStr : String → Obj
  ofBool : Bool → Obj
  mkColl : Container → List Obj → Obj            -- `tuple(args)` / `list(args)` / `(a, b)`
  getattr : Obj → String → HRes σ Obj            -- builtin `getattr(obj, name)` / `obj.name`
  call : Obj → Obj → HRes σ Obj                  -- `a(*b)`
  getitem : Obj → Obj → HRes σ Obj               -- `a[b]`
  neg : Obj → HRes σ Obj                         -- `-a`
  inv : Obj → HRes σ Obj                         -- `~a`
  binop : String → Obj → Obj → HRes σ Obj        -- `a <sym> b`
  truth : Obj → HRes σ Bool                      -- `bool(a)` / `not a` / `a and b`
  fmt : Obj → HRes σ Unit                        -- `f"{obj}"` inside an error message
  isReflective : Obj → Bool                      -- `isinstance(obj, _REFLECTIVE_TYPES)`
  isStrType : Obj → Bool                         -- `obj is str`
  isStrInst : Obj → Bool                         -- `isinstance(obj, str)`
  safeFn : String → Obj                          -- `_SAFE_STR_METHODS[name]`
  mkPartial : String → Obj → Obj                 -- `functools.partial(_SAFE_STR_METHODS[name], obj)`

/-- One attribute read issued by the evaluator's own code. -/
structure Read (Obj : Type) where
  obj : Obj
  name : String
  viaGetattr : Bool     -- `getattr(obj, member.name)` (true) or the `member.offset` probe (false)

/-- Evaluator state: host state plus the evaluator's log. -/
structure ES (σ Obj : Type) where
  hs : σ
  reads : List (Read Obj)
  resolved : List String

abbrev M (σ Obj α : Type) := ES σ Obj → Except Exc α × ES σ Obj

namespace M
variable {σ Obj α β : Type}

@[inline] def pure (a : α) : M σ Obj α := fun s => (.ok a, s)
@[inline] def throw (e : Exc) : M σ Obj α := fun s => (.error e, s)
@[inline] def bind (m : M σ Obj α) (f : α → M σ Obj β) : M σ Obj β := fun s =>
  match m s with
  | (.ok a, s') => f a s'
  | (.error e, s') => (.error e, s')
/-- Run a host operation (touches only the host state). -/
@[inline] def lift (h : HRes σ α) : M σ Obj α := fun s =>
  match h s.hs with
  | (r, hs') => (r, { s with hs := hs' })
@[inline] def logRead (o : Obj) (n : String) (g : Bool) : M σ Obj Unit := fun s =>
  (.ok (), { s with reads := s.reads ++ [⟨o, n, g⟩] })
@[inline] def logResolved (n : String) : M σ Obj Unit := fun s =>
  (.ok (), { s with resolved := s.resolved ++ [n] })

instance : Monad (M σ Obj) where
  pure := M.pure
  bind := M.bind

end M

/-- `values[-n:]` for a Python int `n` (note `values[-0:]` is the whole list). -/
def pyLast {α : Type} (n : Int) (l : List α) : List α :=
  if n = 0 then l
  else if n > 0 then l.drop (l.length - n.toNat)
  else l.drop (-n).toNat

/-- `values[:-n]` for a Python int `n` (note `values[:-0]` is empty). -/
def pyButLast {α : Type} (n : Int) (l : List α) : List α :=
  if n = 0 then []
  else if n > 0 then l.take (l.length - n.toNat)
  else l.take (-n).toNat

abbrev Env (Obj : Type) := List (String × Obj)

def Env.find {Obj : Type} (e : Env Obj) (n : String) : Option Obj :=
  match e with
  | [] => none
  | (k, v) :: rest => if k = n then some v else Env.find rest n

section Eval
variable {σ Obj : Type} (h : Host σ Obj) (locals globals : Env Obj)

/-- `Expression.get_value`. -/
def getValue (v : SVal Obj) : M σ Obj Obj :=
  match v with
  | .obj o => M.pure o
  | .tok (.int _ i) => M.pure (h.ofInt i)
  | .tok (.float raw) => M.pure (h.ofFloat raw)
  | .tok (.str s) => M.pure (h.ofStr s)
  | .tok (.ident n _) =>
    match locals.find n with
    | some o => M.bind (M.logResolved n) fun _ => M.pure o
    | none =>
      match globals.find n with
      | some o => M.bind (M.logResolved n) fun _ => M.pure o
      | none => M.throw "KeyError"
  | .tok _ => M.throw "ValueError"

/-- `[get_value(x) for x in vs]`, left to right. -/
def getValues : List (SVal Obj) → M σ Obj (List Obj)
  | [] => M.pure []
  | v :: vs => M.bind (getValue h locals globals v) fun o =>
      M.bind (getValues vs) fun os => M.pure (o :: os)

/-- `get_member(obj, member)`. -/
def getMember (a : Obj) (m : SVal Obj) : M σ Obj Obj :=
  match m with
  | .tok (.ident name _) =>
    if name.startsWith "_" then
      -- f"Cannot read protected and private member variables: {obj}.{member.name}"
      M.bind (M.lift (h.fmt a)) fun _ => M.throw "ParseError"
    else if h.isReflective a then
      -- f"Cannot read members of {type(obj).__name__} objects: {member.name}": no call into the object
      M.throw "ParseError"
    else if safeStrMethods.contains name && h.isStrType a then
      M.pure (h.safeFn name)                     -- no getattr is issued: the safe function is handed out
    else if safeStrMethods.contains name && h.isStrInst a then
      M.pure (h.mkPartial name a)
    else
      M.bind (M.logRead a name true) fun _ => M.lift (h.getattr a name)
  | .tok _ =>
    -- a Token that is not an IdentifierToken: str(token) and token.offset both succeed
    M.throw "ParseError"
  | .obj o =>
    -- not a Token at all: f"... {member}" formats it, then `member.offset` is an attribute read on it
    M.bind (M.lift (h.fmt o)) fun _ =>
    M.bind (M.logRead o "offset" false) fun _ =>
    M.bind (M.lift (h.getattr o "offset")) fun _ => M.throw "ParseError"

/-- The argument list of an operator: `get_value(v) if expand else v` over `zip(op.expand, values[-arity:])`. -/
def expandArgs : List Bool → List (SVal Obj) → M σ Obj (List (SVal Obj))
  | e :: es, v :: vs =>
    if e then
      M.bind (getValue h locals globals v) fun o =>
      M.bind (expandArgs es vs) fun r => M.pure (SVal.obj o :: r)
    else
      M.bind (expandArgs es vs) fun r => M.pure (v :: r)
  | _, _ => M.pure []

/-- Exception used when an operand of a non-member operator is a raw token.  Unreachable for the
    generated table (`GtModel.C19.only_member_keeps_raw_operand`). -/
def rawOperand : Exc := "ModelScope:raw-token-operand"

/-- `op.execute(*args)`. -/
def execute (spec : OpSpec) (args : List (SVal Obj)) : M σ Obj Obj :=
  if args.length ≠ spec.nparams then M.throw "TypeError"   -- lambda called with the wrong number of arguments
  else
    match spec.exec, args with
    | .member, [.obj a, m] => getMember h a m
    | .getitem, [.obj a, .obj b] => M.lift (h.getitem a b)
    | .call, [.obj a, .obj b] => M.lift (h.call a b)
    | .pos, [.obj a] => M.pure a
    | .neg, [.obj a] => M.lift (h.neg a)
    | .inv, [.obj a] => M.lift (h.inv a)
    | .lnot, [.obj a] => M.bind (M.lift (h.truth a)) fun t => M.pure (h.ofBool (!t))
    | .bin sym, [.obj a, .obj b] => M.lift (h.binop sym a b)
    | .land, [.obj a, .obj b] => M.bind (M.lift (h.truth a)) fun t => M.pure (if t then b else a)
    | .lor, [.obj a, .obj b] => M.bind (M.lift (h.truth a)) fun t => M.pure (if t then a else b)
    | .pair, [.obj a, .obj b] => M.pure (h.mkColl .tuple [a, b])
    | .ternary, [.obj a, .obj b] =>
      M.bind (M.lift (h.truth a)) fun t => M.lift (h.getitem b (h.ofBool t))
    | _, _ => M.throw rawOperand

/-- One iteration of the `for t in self.tokens` loop. -/
def step (values : List (SVal Obj)) (t : Tok) : M σ Obj (List (SVal Obj)) :=
  match t with
  | .fsc size ct =>
    M.bind (getValues h locals globals (pyLast size values)) fun args =>
    M.pure (pyButLast size values ++ [SVal.obj (h.mkColl ct args)])
  | .op spec =>
    M.bind (expandArgs h locals globals spec.expand (pyLast spec.arity values)) fun args =>
    M.bind (execute h spec args) fun r =>
    M.pure (pyButLast spec.arity values ++ [SVal.obj r])
  | t => M.pure (values ++ [SVal.tok t])

def run : List (SVal Obj) → List Tok → M σ Obj (List (SVal Obj))
  | values, [] => M.pure values
  | values, t :: ts => M.bind (step h locals globals values t) fun vs => run vs ts

/-- The tail of `Expression.eval`. -/
def finish (values : List (SVal Obj)) : M σ Obj (SVal Obj) :=
  match values with
  | [v] =>
    match v with
    | .tok (.ident n o) => M.bind (getValue h locals globals (.tok (.ident n o))) fun r => M.pure (SVal.obj r)
    | v => M.pure v
  | _ => M.throw "RuntimeError"

/-- `Expression(tokens).eval(locals, globals)` started in host state `s0`. -/
def eval (tokens : List Tok) (s0 : σ) : Except Exc (SVal Obj) × ES σ Obj :=
  (M.bind (run h locals globals [] tokens) (finish h locals globals)) ⟨s0, [], []⟩

end Eval

/-- Attribute reads issued by the evaluator during a run, as `(object, name)`. -/
def attrReads {σ Obj : Type} (r : Except Exc (SVal Obj) × ES σ Obj) : List (Obj × String) :=
  r.2.reads.map fun x => (x.obj, x.name)

/-- Identifiers the evaluator resolved during a run. -/
def namesResolved {σ Obj : Type} (r : Except Exc (SVal Obj) × ES σ Obj) : List String := r.2.resolved

end GtModel.Expr

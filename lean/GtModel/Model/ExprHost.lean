/-
  L7 (continued): a CONCRETE finite host for the correspondence stream `expr`, and the stream handler.

  Values: ints, bools, strings, None, lists, tuples, dicts, sentinel objects (attribute tables with public
  and underscore-prefixed names), callable attributes of sentinels, `str.format` / `str.format_map`
  (bound and unbound), whitelisted builtins as opaque callables, float literals as opaque values.
  Everything else the real interpreter can do is outside this host: the harness does not ship such cases
  (`to_model` returns None), and the host answers `ModelScope:*` if one slips through, which shows up as a
  disagreement.

  REFLECTIVE OBJECTS.  A generator object (`CV.gen`) can be a value of an expression.  `get_member` refuses every
  member of it, but `_SafeFormatter.get_field` only refuses underscore ATTRIBUTE names, and `gi_frame`, `gi_code`,
  `f_globals`, `f_locals`, `f_builtins`, `f_code`, `co_filename` … are public names: on the current code
  `'{0.gi_frame.f_globals[__builtins__][getattr]}'.format(g)` succeeds and returns text.  The host mirrors that:
  field traversal walks from a generator to its frame (`CV.refl .frame`), code object (`.refl .code`) and the three
  namespaces of the frame (`.refl (.ns _)`, plain dicts whose KEYS may be underscore names — index steps are not
  vetted); what a namespace or a code object holds is `CV.opq` (an object this host does not describe), and text
  rendered from any of them is not predicted: the result of such a format call is `CV.ostr` ("some str").  The
  attribute tables are those of CPython 3.12 (`genAttr`, `frameAttr`, `codeAttr`); which keys the namespaces have is
  part of the host description (`NsDesc`, shipped by the harness from the real generator).

  `get_member` hands out `_safe_format` / `_safe_format_map` (a `string.Formatter` whose `get_field` refuses
  underscore attributes) instead of `str.format` / `str.format_map`.  Field traversal (`{0.attr[key]!r}`) is
  modelled: the attribute reads it performs are HOST-internal (they do not go through the evaluator's
  `get_member`) and are recorded in the host state; `GtModel.C19.concrete_host_no_underscore` shows that none of
  them has an underscore name.  `concreteHostWith false` is a formatter without that refusal (the PRE-FIX behaviour), kept for the witness
  that the old rule was unsafe.

  Only Lean core is imported.
-/
import GtModel.Model.Proto
import GtModel.Model.Expr

namespace GtModel.Expr
open Lean

/-- the three namespaces of a frame -/
inductive NsKind where
  | globals | locals | builtins
deriving Repr, Inhabited, DecidableEq

/-- reflective objects reachable from a generator by PUBLIC attribute names -/
inductive RKind where
  | frame | code | ns (w : NsKind)
deriving Repr, Inhabited, DecidableEq

inductive CV where
  | int (i : Int) | bool (b : Bool) | str (s : String) | none
  | list (xs : List CV) | tuple (xs : List CV) | dict (kvs : List (CV × CV))
  | sent (id : Nat)                          -- sentinel object
  | smeth (id : Nat) (name : String)         -- callable attribute of a sentinel
  | strmeth (self : String) (name : String)  -- `functools.partial(_safe_format[_map], '…')`
  | strfn (name : String)                    -- `_safe_format` / `_safe_format_map`
  | builtin (name : String)                  -- whitelisted builtin (opaque)
  | float (raw : String)                     -- float literal (opaque)
  | gen                                      -- a fresh generator object (one of `_REFLECTIVE_TYPES`)
  | refl (k : RKind)                         -- its frame / code object / a namespace dict of the frame
  | opq                                      -- a Python object this host does not describe (a value of a namespace, …)
  | ostr                                     -- a `str` whose text this host does not predict (rendered from the above)
deriving Repr, Inhabited

inductive MKind where
  | const (v : CV)   -- def m(self): return v            (v may be a private value read by the object itself)
  | ident            -- def m(self, a): return a
  | pair             -- def m(self, a, b): return (a, b)
  | gen              -- def m(self, a): yield …   (returns a generator object)
deriving Repr, Inhabited

structure SentDesc where
  id : Nat
  attrs : List (String × CV)
  meths : List (String × MKind)
deriving Repr, Inhabited

/-- the key sets of the namespaces of the generator's frame, and whether `f_globals['__builtins__']` is the very
    dict `f_builtins` (true for the globals of an imported module) -/
structure NsDesc where
  globals : List String := []
  locals : List String := []
  builtins : List String := []
  gbIsBuiltins : Bool := false
deriving Repr, Inhabited

structure HostDesc where
  sents : List SentDesc
  ns : NsDesc := {}
deriving Repr, Inhabited

/-- Host state of the concrete host: attribute reads performed INSIDE host operations (format traversal). -/
abbrev CState := List (Nat × String)

def scope (why : String) : Exc := "ModelScope:" ++ why

/-! ### Python equality, hashing, truth -/

def CV.num? : CV → Option Int
  | .int i => some i
  | .bool b => some (if b then 1 else 0)
  | _ => Option.none

mutual
  def pyEq : CV → CV → Bool
    | .int a, .int b => a == b
    | .int a, .bool b => a == (if b then 1 else 0)
    | .bool a, .int b => (if a then (1 : Int) else 0) == b
    | .bool a, .bool b => a == b
    | .str a, .str b => a == b
    | .none, .none => true
    | .list a, .list b => pyEqList a b
    | .tuple a, .tuple b => pyEqList a b
    | .dict a, .dict b => a.length == b.length && pyEqDict a b
    | .sent a, .sent b => a == b
    | .smeth a n, .smeth b m => a == b && n == m
    | .strfn a, .strfn b => a == b
    | .builtin a, .builtin b => a == b
    | _, _ => false
  def pyEqList : List CV → List CV → Bool
    | [], [] => true
    | a :: as, b :: bs => pyEq a b && pyEqList as bs
    | _, _ => false
  /-- every `(k, v)` of the first dict has an equal value under an equal key in the second -/
  def pyEqDict : List (CV × CV) → List (CV × CV) → Bool
    | [], _ => true
    | (k, v) :: rest, b => pyLookupEq k v b && pyEqDict rest b
  def pyLookupEq : CV → CV → List (CV × CV) → Bool
    | _, _, [] => false
    | k, v, (k', v') :: rest => if pyEq k k' then pyEq v v' else pyLookupEq k v rest
end

mutual
  def hashable : CV → Bool
    | .list _ => false
    | .dict _ => false
    | .tuple xs => hashableList xs
    | _ => true
  def hashableList : List CV → Bool
    | [] => true
    | x :: xs => hashable x && hashableList xs
end

def dictFind (kvs : List (CV × CV)) (k : CV) : Option CV :=
  (kvs.find? (fun kv => pyEq kv.1 k)).map (·.2)

def cvTruth : CV → Except Exc Bool
  | .int i => .ok (i != 0)
  | .bool b => .ok b
  | .str s => .ok (s != "")
  | .none => .ok false
  | .list xs => .ok (!xs.isEmpty)
  | .tuple xs => .ok (!xs.isEmpty)
  | .dict kvs => .ok (!kvs.isEmpty)
  | .float _ => .error (scope "float")
  | _ => .ok true

/-! ### str() / repr() -/

def reprStr (s : String) : String :=
  let cs := s.toList
  let q : Char := if cs.contains '\'' && !cs.contains '"' then '"' else '\''
  let body := cs.foldr (fun c acc => if c == '\\' || c == q then '\\' :: c :: acc else c :: acc) []
  String.ofList (q :: body ++ [q])

def joinSep (sep : String) : List String → String
  | [] => ""
  | [x] => x
  | x :: xs => x ++ sep ++ joinSep sep xs

/-- Text the host does not predict (`repr` of a generator / frame / code object / namespace / undescribed object)
    is rendered as this marker; a format result that contains it is `CV.ostr`.  U+FFFF is not printable, and the
    harness only ships printable strings, so no string of a shipped case contains it. -/
def opaqueMark : Char := '\uFFFF'
def opaqueText : String := String.singleton opaqueMark

mutual
  def cvRepr : CV → Except Exc String
    | .int i => .ok (toString i)
    | .bool b => .ok (if b then "True" else "False")
    | .str s => .ok (reprStr s)
    | .none => .ok "None"
    | .list xs => do let rs ← cvReprList xs; .ok ("[" ++ joinSep ", " rs ++ "]")
    | .tuple xs => do
        let rs ← cvReprList xs
        match rs with
        | [r] => .ok ("(" ++ r ++ ",)")
        | _ => .ok ("(" ++ joinSep ", " rs ++ ")")
    | .dict kvs => do let rs ← cvReprKVs kvs; .ok ("{" ++ joinSep ", " rs ++ "}")
    | .sent id => .ok ("<S" ++ toString id ++ ">")
    | .smeth id n => .ok ("<S" ++ toString id ++ "." ++ n ++ ">")
    | .gen => .ok opaqueText
    | .refl _ => .ok opaqueText
    | .opq => .ok opaqueText
    | .ostr => .ok opaqueText
    | _ => .error (scope "repr of builtin/float")
  def cvReprList : List CV → Except Exc (List String)
    | [] => .ok []
    | x :: xs => do let r ← cvRepr x; let rs ← cvReprList xs; .ok (r :: rs)
  def cvReprKVs : List (CV × CV) → Except Exc (List String)
    | [] => .ok []
    | (k, v) :: rest => do
        let a ← cvRepr k; let b ← cvRepr v; let rs ← cvReprKVs rest
        .ok ((a ++ ": " ++ b) :: rs)
end

def cvStr : CV → Except Exc String
  | .str s => .ok s
  | v => cvRepr v

/-! ### indexing, attributes -/

def seqIndex {α : Type} (xs : List α) (i : Int) : Except Exc α :=
  let n : Int := xs.length
  let j := if i < 0 then i + n else i
  if j < 0 || j ≥ n then .error "IndexError"
  else match xs[j.toNat]? with
    | some x => .ok x
    | Option.none => .error "IndexError"

def cvGetitem (a b : CV) : Except Exc CV :=
  match a with
  | .list xs => match b.num? with
    | some i => seqIndex xs i
    | Option.none => .error "TypeError"
  | .tuple xs => match b.num? with
    | some i => seqIndex xs i
    | Option.none => .error "TypeError"
  | .str s => match b.num? with
    | some i => (seqIndex s.toList i).map fun c => CV.str (String.singleton c)
    | Option.none => .error "TypeError"
  | .dict kvs =>
    if !hashable b then .error "TypeError"
    else match dictFind kvs b with
      | some v => .ok v
      | Option.none => .error "KeyError"
  | .float _ => .error (scope "float")
  | _ => .error "TypeError"

def findSent (d : HostDesc) (id : Nat) : Option SentDesc := d.sents.find? (·.id == id)

/-- `getattr(a, name)` on concrete values (no logging here). -/
def cvGetattr (d : HostDesc) (a : CV) (name : String) : Except Exc CV :=
  match a with
  | .sent id =>
    match findSent d id with
    | some sd => match sd.attrs.find? (·.1 == name) with
      | some (_, v) => .ok v
      | Option.none => .error "AttributeError"
    | Option.none => .error (scope "unknown sentinel")
  | .int i =>
    if name == "real" || name == "numerator" then .ok (.int i)
    else if name == "imag" then .ok (.int 0)
    else if name == "denominator" then .ok (.int 1)
    else .error "AttributeError"
  | .bool b =>
    if name == "real" || name == "numerator" then .ok (.int (if b then 1 else 0))
    else if name == "imag" then .ok (.int 0)
    else if name == "denominator" then .ok (.int 1)
    else .error "AttributeError"
  | .float _ => .error (scope "float")
  | _ => .error "AttributeError"

/-! ### arithmetic -/

def two64 : Int := 18446744073709551616
def two63 : Int := 9223372036854775808

/-- bitwise op on ints of magnitude < 2^63 through 64-bit two's complement -/
def bitop (f : Nat → Nat → Nat) (a b : Int) : Int :=
  let ua := (a % two64).toNat
  let ub := (b % two64).toNat
  let r : Int := (f ua ub : Nat)
  if r ≥ two63 then r - two64 else r

def isSubstr (needle hay : List Char) : Bool :=
  match hay with
  | [] => needle.isEmpty
  | _ :: rest => needle.isPrefixOf hay || isSubstr needle rest

def repeatList {α : Type} (xs : List α) (n : Int) : List α :=
  (List.replicate n.toNat xs).flatten

def cmpSym (sym : String) : Bool := sym == "<" || sym == ">" || sym == "<=" || sym == ">="

def cvBinop (sym : String) (a b : CV) : Except Exc CV :=
  match a, b with
  | .float _, _ => .error (scope "float")
  | _, .float _ => .error (scope "float")
  | _, _ =>
  if sym == "==" then .ok (.bool (pyEq a b))
  else if sym == "!=" then .ok (.bool (!pyEq a b))
  else if sym == "in" then
    match b with
    | .list xs => .ok (.bool (xs.any (pyEq a ·)))
    | .tuple xs => .ok (.bool (xs.any (pyEq a ·)))
    | .dict kvs => if !hashable a then .error "TypeError" else .ok (.bool ((dictFind kvs a).isSome))
    | .str s => match a with
      | .str n => .ok (.bool (isSubstr n.toList s.toList))
      | _ => .error "TypeError"
    | _ => .error "TypeError"
  else
  match a.num?, b.num? with
  | some x, some y =>
    let bothBool := match a, b with | .bool _, .bool _ => true | _, _ => false
    if sym == "+" then .ok (.int (x + y))
    else if sym == "-" then .ok (.int (x - y))
    else if sym == "*" then .ok (.int (x * y))
    else if sym == "//" then (if y == 0 then .error "ZeroDivisionError" else .ok (.int (Int.fdiv x y)))
    else if sym == "%" then (if y == 0 then .error "ZeroDivisionError" else .ok (.int (Int.fmod x y)))
    else if sym == "/" then (if y == 0 then .error "ZeroDivisionError" else .error (scope "true division"))
    else if sym == "<<" then (if y < 0 then .error "ValueError" else .ok (.int (x <<< y.toNat)))
    else if sym == ">>" then (if y < 0 then .error "ValueError" else .ok (.int (x >>> y.toNat)))
    else if sym == "&" then
      (if bothBool then .ok (.bool (x != 0 && y != 0)) else .ok (.int (bitop Nat.land x y)))
    else if sym == "|" then
      (if bothBool then .ok (.bool (x != 0 || y != 0)) else .ok (.int (bitop Nat.lor x y)))
    else if sym == "^" then
      (if bothBool then .ok (.bool ((x != 0) != (y != 0))) else .ok (.int (bitop Nat.xor x y)))
    else if sym == "<" then .ok (.bool (x < y))
    else if sym == ">" then .ok (.bool (x > y))
    else if sym == "<=" then .ok (.bool (x ≤ y))
    else if sym == ">=" then .ok (.bool (x ≥ y))
    else .error (scope ("operator " ++ sym))
  | _, _ =>
    match a, b with
    | .str s, .str t =>
      if sym == "+" then .ok (.str (s ++ t))
      else if sym == "<" then .ok (.bool (s < t))
      else if sym == ">" then .ok (.bool (t < s))
      else if sym == "<=" then .ok (.bool (!(t < s)))
      else if sym == ">=" then .ok (.bool (!(s < t)))
      else if sym == "%" then .error (scope "str % formatting")
      else .error "TypeError"
    | .str s, other =>
      if sym == "%" then .error (scope "str % formatting")
      else match other.num? with
        | some n => if sym == "*" then .ok (.str (String.ofList (repeatList s.toList n))) else .error "TypeError"
        | Option.none => .error "TypeError"
    | other, .str s =>
      match other.num? with
      | some n => if sym == "*" then .ok (.str (String.ofList (repeatList s.toList n))) else .error "TypeError"
      | Option.none => .error "TypeError"
    | .list xs, .list ys =>
      if sym == "+" then .ok (.list (xs ++ ys))
      else if cmpSym sym then .error (scope "list ordering")
      else .error "TypeError"
    | .tuple xs, .tuple ys =>
      if sym == "+" then .ok (.tuple (xs ++ ys))
      else if cmpSym sym then .error (scope "tuple ordering")
      else .error "TypeError"
    | .list xs, other =>
      match other.num? with
      | some n => if sym == "*" then .ok (.list (repeatList xs n)) else .error "TypeError"
      | Option.none => .error "TypeError"
    | other, .list xs =>
      match other.num? with
      | some n => if sym == "*" then .ok (.list (repeatList xs n)) else .error "TypeError"
      | Option.none => .error "TypeError"
    | .tuple xs, other =>
      match other.num? with
      | some n => if sym == "*" then .ok (.tuple (repeatList xs n)) else .error "TypeError"
      | Option.none => .error "TypeError"
    | other, .tuple xs =>
      match other.num? with
      | some n => if sym == "*" then .ok (.tuple (repeatList xs n)) else .error "TypeError"
      | Option.none => .error "TypeError"
    | .dict _, .dict _ => if sym == "|" then .error (scope "dict merge") else .error "TypeError"
    | _, _ => .error "TypeError"

def cvNeg : CV → Except Exc CV
  | .float _ => .error (scope "float")
  | v => match v.num? with
    | some x => .ok (.int (-x))
    | Option.none => .error "TypeError"

def cvInv : CV → Except Exc CV
  | .float _ => .error (scope "float")
  | v => match v.num? with
    | some x => .ok (.int (-x - 1))
    | Option.none => .error "TypeError"

/-! ### `str.format` / `str.format_map` -/

inductive FStep where
  | attr (name : String)
  | idx (key : String)
deriving Repr

/-- `name path conv` of a replacement field: `0.attr[key]!r` -/
structure FRef where
  name : String
  path : List FStep
  conv : Option Char
deriving Repr

/-- a piece of a format spec: literal text or a nested replacement field (which has no spec of its own) -/
inductive SPiece where
  | lit (s : String)
  | ref (r : FRef)
deriving Repr

structure FField where
  ref : FRef
  spec : List SPiece      -- `[]` when the field has no `:spec`
deriving Repr

inductive FPiece where
  | lit (s : String)
  | field (f : FField)
deriving Repr

def isWordChar (c : Char) : Bool := c.isAlphanum || c == '_'

/-- Parse the path part of a field: `(.attr | [key])*` -/
def parsePath : Nat → List Char → Option (List FStep)
  | 0, _ => Option.none
  | _, [] => some []
  | fuel + 1, '.' :: rest =>
    let name := rest.takeWhile isWordChar
    let rest' := rest.dropWhile isWordChar
    if name.isEmpty then Option.none
    else (parsePath fuel rest').map (FStep.attr (String.ofList name) :: ·)
  | fuel + 1, '[' :: rest =>
    let key := rest.takeWhile (· != ']')
    match rest.dropWhile (· != ']') with
    | ']' :: rest' =>
      if key.isEmpty then Option.none
      else (parsePath fuel rest').map (FStep.idx (String.ofList key) :: ·)
    | _ => Option.none
  | _, _ => Option.none

/-- Parse `name path (!r|!s)?` (no braces, no ':' inside). -/
def parseRef (body : List Char) : Option FRef :=
  let (main, conv?) : List Char × Option (Option Char) :=
    match body.reverse with
    | c :: '!' :: r => if c == 'r' || c == 's' then (r.reverse, some (some c)) else (body, Option.none)
    | _ => (body, some Option.none)
  match conv? with
  | Option.none => Option.none
  | some conv =>
    if main.contains '!' || main.contains ':' || main.contains '{' || main.contains '}' then Option.none
    else
      let name := main.takeWhile isWordChar
      let rest := main.dropWhile isWordChar
      (parsePath (rest.length + 1) rest).map fun p => { name := String.ofList name, path := p, conv := conv }

/-- Parse a format spec: literal characters and nested `{ref}` fields without a spec of their own. -/
def parseSpec : Nat → List Char → List Char → Option (List SPiece)
  | 0, _, _ => Option.none
  | _, acc, [] => some (if acc.isEmpty then [] else [SPiece.lit (String.ofList acc.reverse)])
  | fuel + 1, acc, '{' :: rest =>
    let body := rest.takeWhile (fun c => c != '}' && c != '{')
    match rest.dropWhile (fun c => c != '}' && c != '{') with
    | '}' :: rest' =>
      match parseRef body, parseSpec fuel [] rest' with
      | some r, some ps =>
        some ((if acc.isEmpty then [] else [SPiece.lit (String.ofList acc.reverse)]) ++ SPiece.ref r :: ps)
      | _, _ => Option.none
    | _ => Option.none
  | _, _, '}' :: _ => Option.none
  | fuel + 1, acc, c :: rest => parseSpec fuel (c :: acc) rest

/-- The text of a field up to its matching '}' (nested braces counted), and what follows it. -/
def splitField : Nat → Nat → List Char → List Char → Option (List Char × List Char)
  | 0, _, _, _ => Option.none
  | _, _, _, [] => Option.none
  | fuel + 1, depth, acc, '{' :: rest => splitField fuel (depth + 1) ('{' :: acc) rest
  | fuel + 1, depth, acc, '}' :: rest =>
    if depth == 0 then some (acc.reverse, rest) else splitField fuel (depth - 1) ('}' :: acc) rest
  | fuel + 1, depth, acc, c :: rest => splitField fuel depth (c :: acc) rest

/-- Parse the inside of a top-level `{…}`: `ref (':' spec)?` -/
def parseField (body : List Char) : Option FField :=
  let refPart := body.takeWhile (· != ':')
  match body.dropWhile (· != ':') with
  | [] => (parseRef refPart).map fun r => { ref := r, spec := [] }
  | _ :: specPart =>
    match parseRef refPart, parseSpec (specPart.length + 1) [] specPart with
    | some r, some sp => some { ref := r, spec := sp }
    | _, _ => Option.none

/-- Split a format string into literal text and fields.  `none` = outside the modelled class. -/
def parseFmt : Nat → List Char → List Char → Option (List FPiece)
  | 0, _, _ => Option.none
  | _, acc, [] => some (if acc.isEmpty then [] else [FPiece.lit (String.ofList acc.reverse)])
  | fuel + 1, acc, '{' :: '{' :: rest => parseFmt fuel ('{' :: acc) rest
  | fuel + 1, acc, '}' :: '}' :: rest => parseFmt fuel ('}' :: acc) rest
  | fuel + 1, acc, '{' :: rest =>
    match splitField (rest.length + 1) 0 [] rest with
    | some (body, rest') =>
      match parseField body, parseFmt fuel [] rest' with
      | some f, some ps =>
        some ((if acc.isEmpty then [] else [FPiece.lit (String.ofList acc.reverse)]) ++ FPiece.field f :: ps)
      | _, _ => Option.none
    | Option.none => Option.none
  | _, _, '}' :: _ => Option.none
  | fuel + 1, acc, c :: rest => parseFmt fuel (c :: acc) rest

def allDigits (s : String) : Bool := !s.isEmpty && s.toList.all Char.isDigit

/-- value of a string of ASCII digits (used only under `allDigits`) -/
def digitsToNat (s : String) : Nat := s.toList.foldl (fun a c => a * 10 + (c.toNat - '0'.toNat)) 0

/-! #### reflective objects: public attribute tables of CPython 3.12 -/

/-- `getattr(<fresh generator>, n)` -/
def genAttr (n : String) : Except Exc CV :=
  if n == "gi_frame" then .ok (.refl .frame)
  else if n == "gi_code" then .ok (.refl .code)
  else if n == "gi_running" || n == "gi_suspended" then .ok (.bool false)
  else if n == "gi_yieldfrom" then .ok .none
  else if n == "close" || n == "send" || n == "throw" then .ok .opq
  else .error "AttributeError"

/-- `getattr(<frame of a fresh generator>, n)` -/
def frameAttr (n : String) : Except Exc CV :=
  if n == "f_globals" then .ok (.refl (.ns .globals))
  else if n == "f_locals" then .ok (.refl (.ns .locals))
  else if n == "f_builtins" then .ok (.refl (.ns .builtins))
  else if n == "f_code" then .ok (.refl .code)
  else if n == "f_back" || n == "f_trace" then .ok .none
  else if n == "f_trace_lines" then .ok (.bool true)
  else if n == "f_trace_opcodes" then .ok (.bool false)
  else if n == "f_lasti" || n == "f_lineno" || n == "clear" then .ok .opq
  else .error "AttributeError"

def codeAttrNames : List String :=
  ["co_argcount", "co_cellvars", "co_code", "co_consts", "co_exceptiontable", "co_filename", "co_firstlineno",
   "co_flags", "co_freevars", "co_kwonlyargcount", "co_lines", "co_linetable", "co_lnotab", "co_name", "co_names",
   "co_nlocals", "co_positions", "co_posonlyargcount", "co_qualname", "co_stacksize", "co_varnames", "replace"]

/-- `getattr(<code object>, n)` -/
def codeAttr (n : String) : Except Exc CV :=
  if codeAttrNames.contains n then .ok .opq else .error "AttributeError"

def NsDesc.keys (nd : NsDesc) : NsKind → List String
  | .globals => nd.globals
  | .locals => nd.locals
  | .builtins => nd.builtins

/-- `ns[key]` for a namespace dict of the frame (all keys are strings) -/
def nsIndex (d : HostDesc) (w : NsKind) (key : CV) : Except Exc CV :=
  match key with
  | .str k =>
    if (d.ns.keys w).contains k then
      (if w == .globals && k == "__builtins__" && d.ns.gbIsBuiltins then .ok (.refl (.ns .builtins)) else .ok .opq)
    else .error "KeyError"
  | _ => .error "KeyError"

/-- host-internal getattr during field traversal: recorded in the host state when the object is a sentinel
    (under its id) or a reflective object (under id 0; sentinel ids start at 1) -/
def hostGetattr (d : HostDesc) (o : CV) (name : String) (st : CState) : Except Exc CV × CState :=
  match o with
  | .sent id => (cvGetattr d o name, st ++ [(id, name)])
  | .gen => (genAttr name, st ++ [(0, name)])
  | .refl .frame => (frameAttr name, st ++ [(0, name)])
  | .refl .code => (codeAttr name, st ++ [(0, name)])
  | .float _ => (.error (scope "float"), st)
  | .opq => (.error (scope "attribute of an undescribed object"), st)
  | .ostr => (.error (scope "attribute of an unpredicted str"), st)
  -- attributes that exist on other values (`{0.real}`, `{0.__class__}`, `{0.gi_frame.f_globals.keys}`) are outside the
  -- host; the harness does not ship such cases, every other name is an AttributeError
  | _ => (.error "AttributeError", st)

/-- objects of `_REFLECTIVE_TYPES` (generator, frame, code; modules are undescribed here) -/
def cvReflective : CV → Bool
  | .gen => true
  | .refl .frame => true
  | .refl .code => true
  | _ => false

/-- the traversal of `_SafeFormatter.get_field` (`safe`: an attribute step on a generator / frame / code object is
    refused, exactly as `get_member` refuses it; since /repo dfac3bc) resp. of `string.Formatter.get_field` -/
def walkPath (safe : Bool) (d : HostDesc) : List FStep → CV → CState → Except Exc CV × CState
  | [], o, st => (.ok o, st)
  | .attr n :: rest, o, st =>
    if safe && cvReflective o then (.error "ParseError", st)
    else
    match hostGetattr d o n st with
    | (.ok v, st') => walkPath safe d rest v st'
    | (.error e, st') => (.error e, st')
  | .idx k :: rest, o, st =>
    let key : CV := if allDigits k then .int (digitsToNat k) else .str k
    -- index steps are NOT vetted by `_SafeFormatter.get_field`: `[__builtins__]`, `[_private_global]` pass
    let r : Except Exc CV := match o with
      | .refl (.ns w) => nsIndex d w key
      | .opq => .error (scope "index of an undescribed object")
      | _ => cvGetitem o key
    match r with
    | .ok v => walkPath safe d rest v st
    | .error e => (.error e, st)

def stepIsPrivate : FStep → Bool
  | .attr n => n.startsWith "_"
  | .idx _ => false

/-- One replacement field of `string.Formatter._vformat` up to and including `convert_field`:
    the `auto_arg_index` bookkeeping (`some k` = the integer `k`, `none` = `False`), `_SafeFormatter.get_field`
    (refusal of underscore attributes when `safe`, then `get_value` and the traversal), the conversion.
    `mapping = none` is `_safe_format` (kwargs = {}), `some m` is `_safe_format_map` (args = ()). -/
def resolveRef (safe : Bool) (d : HostDesc) (args : List CV) (mapping : Option CV) (r : FRef)
    (auto : Option Nat) (st : CState) : Except Exc (CV × Option Nat) × CState :=
  -- `if field_name == '' … elif field_name.isdigit() …` (the WHOLE field name, path included)
  let numbered : Except Exc (CV × Option Nat) :=
    if r.name.isEmpty && r.path.isEmpty then
      match auto with
      | Option.none => .error "ValueError"
      | some k => .ok (.int k, some (k + 1))
    else if allDigits r.name && r.path.isEmpty then
      match auto with
      | some (_ + 1) => .error "ValueError"
      | _ => .ok (.int (digitsToNat r.name), Option.none)
    else if allDigits r.name then .ok (.int (digitsToNat r.name), auto)
    else .ok (.str r.name, auto)
  match numbered with
  | .error e => (.error e, st)
  | .ok (key, auto') =>
    -- `_SafeFormatter.get_field`: refuse underscore attributes before anything is looked up (`safe`)
    if safe && r.path.any stepIsPrivate then (.error "ParseError", st)
    else
      -- `string.Formatter.get_value`: args[key] for ints, kwargs[key] otherwise
      let first : Except Exc CV :=
        match key with
        | .int i =>
          match args[i.toNat]? with
          | some v => .ok v
          | Option.none => .error "IndexError"
        | k =>
          match mapping with
          | Option.none => .error "KeyError"
          | some m => cvGetitem m k
      match first with
      | .error e => (.error e, st)
      | .ok v =>
        match walkPath safe d r.path v st with
        | (.error e, st') => (.error e, st')
        | (.ok o, st') =>
          -- convert_field
          match r.conv with
          | Option.none => (.ok (o, auto'), st')
          | some c =>
            match (if c == 'r' then cvRepr o else cvStr o) with
            | .ok t => (.ok (.str t, auto'), st')
            | .error e => (.error e, st')

/-- `_vformat(format_spec, …, recursion_depth - 1, auto_arg_index)`: the text of the spec and the new counter.
    A nested field has an empty spec of its own, so it is rendered with `format(obj, '')`. -/
def renderSpec (safe : Bool) (d : HostDesc) (args : List CV) (mapping : Option CV) :
    List SPiece → Option Nat → CState → Except Exc (String × Option Nat) × CState
  | [], auto, st => (.ok ("", auto), st)
  | .lit s :: rest, auto, st =>
    match renderSpec safe d args mapping rest auto st with
    | (.ok (r, a), st') => (.ok (s ++ r, a), st')
    | (.error e, st') => (.error e, st')
  | .ref r :: rest, auto, st =>
    match resolveRef safe d args mapping r auto st with
    | (.error e, st') => (.error e, st')
    | (.ok (o, auto'), st') =>
      match cvStr o with
      | .error e => (.error e, st')
      | .ok t =>
        match renderSpec safe d args mapping rest auto' st' with
        | (.ok (r', a), st'') => (.ok (t ++ r', a), st'')
        | (.error e, st'') => (.error e, st'')

def padTo (align : Char) (width : Nat) (t : String) : String :=
  let n := t.length
  if width ≤ n then t
  else
    let pad := width - n
    let sp (k : Nat) : String := String.ofList (List.replicate k ' ')
    if align == '<' then t ++ sp pad
    else if align == '>' then sp pad ++ t
    else sp (pad / 2) ++ t ++ sp (pad - pad / 2)

/-- `format(obj, spec)` for the specs of the modelled class: empty, or `[<>^]?[1-9][0-9]?`. -/
def applySpec (o : CV) (spec : String) : Except Exc String :=
  if spec.isEmpty then cvStr o
  else
    let cs := spec.toList
    let (align?, ds) : Option Char × List Char :=
      match cs with
      | c :: rest => if c == '<' || c == '>' || c == '^' then (some c, rest) else (Option.none, cs)
      | [] => (Option.none, [])
    let okWidth := match ds with
      | [a] => a.isDigit && a != '0'
      | [a, b] => a.isDigit && a != '0' && b.isDigit
      | _ => false
    if !okWidth then .error (scope "format spec")
    else
      let w := digitsToNat (String.ofList ds)
      match o with
      | .str t => .ok (padTo (align?.getD '<') w t)
      | .int i => .ok (padTo (align?.getD '>') w (toString i))
      | .none => .error "TypeError"
      | .list _ => .error "TypeError"
      | .tuple _ => .error "TypeError"
      | .dict _ => .error "TypeError"
      | .sent _ => .error "TypeError"
      | .smeth _ _ => .error "TypeError"
      | .gen => .error "TypeError"         -- object.__format__ with a non-empty spec
      | .refl _ => .error "TypeError"      -- frame / code: object.__format__; namespaces: dict.__format__
      | _ => .error (scope "format spec on bool/opaque")

/-- `string.Formatter._vformat` over the top-level pieces. -/
def renderPieces (safe : Bool) (d : HostDesc) (args : List CV) (mapping : Option CV) :
    List FPiece → Option Nat → CState → Except Exc String × CState
  | [], _, st => (.ok "", st)
  | .lit s :: rest, auto, st =>
    match renderPieces safe d args mapping rest auto st with
    | (.ok r, st') => (.ok (s ++ r), st')
    | (.error e, st') => (.error e, st')
  | .field f :: rest, auto, st =>
    match resolveRef safe d args mapping f.ref auto st with
    | (.error e, st') => (.error e, st')
    | (.ok (o, auto1), st1) =>
      match renderSpec safe d args mapping f.spec auto1 st1 with
      | (.error e, st2) => (.error e, st2)
      | (.ok (spec, auto2), st2) =>
        match applySpec o spec with
        | .error e => (.error e, st2)
        | .ok t =>
          match renderPieces safe d args mapping rest auto2 st2 with
          | (.ok r, st3) => (.ok (t ++ r), st3)
          | (.error e, st3) => (.error e, st3)

def doFormat (safe : Bool) (d : HostDesc) (fmt : String) (args : List CV) (mapping : Option CV) (st : CState) :
    Except Exc CV × CState :=
  match parseFmt (fmt.length + 1) [] fmt.toList with
  | Option.none => (.error (scope "format string"), st)
  | some ps =>
    match renderPieces safe d args mapping ps (some 0) st with
    | (.ok s, st') => (.ok (if s.toList.contains opaqueMark then .ostr else .str s), st')
    | (.error e, st') => (.error e, st')

/-! ### calls -/

def starArgs : CV → Except Exc (List CV)
  | .list xs => .ok xs
  | .tuple xs => .ok xs
  | .str s => .ok (s.toList.map fun c => CV.str (String.singleton c))
  | .dict kvs => .ok (kvs.map (·.1))
  | .float _ => .error (scope "float")
  | _ => .error "TypeError"

def isCallable : CV → Bool
  | .smeth _ _ => true
  | .strmeth _ _ => true
  | .strfn _ => true
  | .builtin _ => true
  | _ => false

def cvCall (safe : Bool) (d : HostDesc) (a b : CV) (st : CState) : Except Exc CV × CState :=
  if !isCallable a then
    (match a, b with
     | .float _, _ => .error (scope "float")
     | _, .float _ => .error (scope "float")
     | _, _ => .error "TypeError", st)
  else
  match starArgs b with
  | .error e => (.error e, st)
  | .ok args =>
    match a with
    | .smeth id name =>
      match (findSent d id).bind (fun sd => sd.meths.find? (·.1 == name)) with
      | Option.none => (.error (scope "unknown method"), st)
      | some (_, .const v) => (if args.isEmpty then .ok v else .error "TypeError", st)
      | some (_, .ident) => (match args with | [x] => .ok x | _ => .error "TypeError", st)
      | some (_, .pair) => (match args with | [x, y] => .ok (.tuple [x, y]) | _ => .error "TypeError", st)
      | some (_, .gen) => (match args with | [_] => .ok .gen | _ => .error "TypeError", st)
    -- functools.partial(_safe_format, s)(*args)  /  functools.partial(_safe_format_map, s)(*args)
    | .strmeth s "format" => doFormat safe d s args Option.none st
    | .strmeth s _ =>
      (match args with
       | [m] => doFormat safe d s [] (some m) st
       | _ => (.error "TypeError", st))
    -- _safe_format(format_string, *args)  /  _safe_format_map(format_string, mapping)
    | .strfn "format" =>
      (match args with
       | .str s :: rest => doFormat safe d s rest Option.none st
       | _ => (.error "TypeError", st))
    | .strfn _ =>
      (match args with
       | [.str s, m] => doFormat safe d s [] (some m) st
       | _ => (.error "TypeError", st))
    | _ => (.error (scope "call of a builtin"), st)

/-! ### the host record -/

def pureOp {α : Type} (r : Except Exc α) : HRes CState α := fun st => (r, st)

/-- the evaluator-issued `getattr(a, n)` (from `get_member`): like format traversal, a read on a sentinel is recorded
    in the host state -/
def evalGetattr (d : HostDesc) (a : CV) (n : String) : HRes CState CV := fun st =>
  (cvGetattr d a n, match a with | .sent id => st ++ [(id, n)] | _ => st)

/-- `safe = true` is the current code; `safe = false` is a formatter WITHOUT the underscore refusal of
    `_SafeFormatter.get_field` (the pre-fix behaviour of `str.format`), kept for the witness in Props/C19. -/
def concreteHostWith (safe : Bool) (d : HostDesc) : Host CState CV where
  ofInt := CV.int
  ofFloat := CV.float
  ofStr := CV.str
  ofBool := CV.bool
  mkColl := fun c xs => match c with | .tuple => CV.tuple xs | .list => CV.list xs
  getattr := evalGetattr d
  call := cvCall safe d
  getitem := fun a b => pureOp (cvGetitem a b)
  neg := fun a => pureOp (cvNeg a)
  inv := fun a => pureOp (cvInv a)
  binop := fun s a b => pureOp (cvBinop s a b)
  truth := fun a => pureOp (cvTruth a)
  fmt := fun _ => pureOp (.ok ())   -- str() of a value of this host never raises
  isReflective := fun a => match a with | .gen => true | .refl .frame => true | .refl .code => true | _ => false
  isStrType := fun a => match a with | .builtin "str" => true | _ => false
  isStrInst := fun a => match a with | .str _ => true | _ => false
  safeFn := CV.strfn
  mkPartial := fun n a => match a with | .str s => CV.strmeth s n | _ => CV.strfn n

abbrev concreteHost (d : HostDesc) : Host CState CV := concreteHostWith true d

/-! ### JSON -/

partial def cvOfJson (j : Json) : Except String CV := do
  let a ← j.getArr?
  let tag ← (a[0]?.getD Json.null).getStr?
  let arg (i : Nat) : Json := a[i]?.getD Json.null
  match tag with
  | "i" => return .int (← (arg 1).getInt?)
  | "b" => return .bool (← (arg 1).getBool?)
  | "s" => return .str (← (arg 1).getStr?)
  | "n" => return .none
  | "l" => return .list (← (← (arg 1).getArr?).toList.mapM cvOfJson)
  | "t" => return .tuple (← (← (arg 1).getArr?).toList.mapM cvOfJson)
  | "d" =>
    let kvs ← (← (arg 1).getArr?).toList.mapM fun kv => do
      let p ← kv.getArr?
      let k ← cvOfJson (p[0]?.getD Json.null)
      let v ← cvOfJson (p[1]?.getD Json.null)
      pure (k, v)
    return .dict kvs
  | "S" => return .sent (← (arg 1).getNat?)
  | "M" => return .smeth (← (arg 1).getNat?) (← (arg 2).getStr?)
  | "sm" => return .strmeth (← (arg 1).getStr?) (← (arg 2).getStr?)
  | "sf" => return .strfn (← (arg 1).getStr?)
  | "bi" => return .builtin (← (arg 1).getStr?)
  | "f" => return .float (← (arg 1).getStr?)
  | "gen" => return .gen
  | "o?" => return .opq
  | "s?" => return .ostr
  | t => throw s!"bad value tag {t}"

partial def cvToJson : CV → Json
  | .int i => Json.arr #[Json.str "i", Json.num (JsonNumber.fromInt i)]
  | .bool b => Json.arr #[Json.str "b", Json.bool b]
  | .str s => Json.arr #[Json.str "s", Json.str s]
  | .none => Json.arr #[Json.str "n"]
  | .list xs => Json.arr #[Json.str "l", Json.arr (xs.map cvToJson).toArray]
  | .tuple xs => Json.arr #[Json.str "t", Json.arr (xs.map cvToJson).toArray]
  | .dict kvs => Json.arr #[Json.str "d", Json.arr (kvs.map fun (k, v) => Json.arr #[cvToJson k, cvToJson v]).toArray]
  | .sent id => Json.arr #[Json.str "S", Json.num (id : Nat)]
  | .smeth id n => Json.arr #[Json.str "M", Json.num (id : Nat), Json.str n]
  | .strmeth s n => Json.arr #[Json.str "sm", Json.str s, Json.str n]
  | .strfn n => Json.arr #[Json.str "sf", Json.str n]
  | .builtin n => Json.arr #[Json.str "bi", Json.str n]
  | .float r => Json.arr #[Json.str "f", Json.str r]
  | .gen => Json.arr #[Json.str "gen"]
  | .refl .frame => Json.arr #[Json.str "refl", Json.str "frame"]
  | .refl .code => Json.arr #[Json.str "refl", Json.str "code"]
  | .refl (.ns _) => Json.arr #[Json.str "refl", Json.str "ns"]
  | .opq => Json.arr #[Json.str "o?"]
  | .ostr => Json.arr #[Json.str "s?"]

def lookupOp (name : String) : Option OpSpec := opTable.find? (·.name == name)

def tokOfJson (j : Json) : Except String Tok := do
  let a ← j.getArr?
  let tag ← (a[0]?.getD Json.null).getStr?
  let arg (i : Nat) : Json := a[i]?.getD Json.null
  match tag with
  | "id" => return .ident (← (arg 1).getStr?) (← (arg 2).getNat?)
  | "int" => return .int (← (arg 1).getStr?) (← (arg 2).getInt?)
  | "float" => return .float (← (arg 1).getStr?)
  | "str" => return .str (← (arg 1).getStr?)
  | "fsc" =>
    let ct ← (arg 2).getStr?
    let c ← match ct with
      | "tuple" => pure Container.tuple
      | "list" => pure Container.list
      | _ => throw s!"bad container {ct}"
    return .fsc (← (arg 1).getInt?) c
  | "op" =>
    let n ← (arg 1).getStr?
    match lookupOp n with
    | some s => return .op s
    | Option.none => throw s!"unknown operator {n}"
  | "other" => return .other (← (arg 1).getStr?)
  | t => throw s!"bad token tag {t}"

def tokToJson : Tok → Json
  | .ident n _ => Json.arr #[Json.str "tok", Json.str "id", Json.str n]
  | .int raw _ => Json.arr #[Json.str "tok", Json.str "int", Json.str raw]
  | .float raw => Json.arr #[Json.str "tok", Json.str "float", Json.str raw]
  | .str s => Json.arr #[Json.str "tok", Json.str "str", Json.str s]
  | .fsc _ _ => Json.arr #[Json.str "tok", Json.str "fsc", Json.str ""]
  | .op s => Json.arr #[Json.str "tok", Json.str "op", Json.str s.name]
  | .other raw => Json.arr #[Json.str "tok", Json.str "other", Json.str raw]

def mkindOfJson (j : Json) : Except String MKind := do
  let a ← j.getArr?
  let tag ← (a[0]?.getD Json.null).getStr?
  match tag with
  | "const" => return .const (← cvOfJson (a[1]?.getD Json.null))
  | "ident" => return .ident
  | "pair" => return .pair
  | "gen" => return .gen
  | t => throw s!"bad method kind {t}"

def pairsOfJson {α : Type} (f : Json → Except String α) (j : Json) : Except String (List (String × α)) := do
  let a ← j.getArr?
  a.toList.mapM fun kv => do
    let p ← kv.getArr?
    let k ← (p[0]?.getD Json.null).getStr?
    let v ← f (p[1]?.getD Json.null)
    pure (k, v)

def sentOfJson (j : Json) : Except String SentDesc := do
  let id ← getNat j "id"
  let attrs ← pairsOfJson cvOfJson (← j.getObjVal? "attrs")
  let meths ← pairsOfJson mkindOfJson (← j.getObjVal? "meths")
  return { id := id, attrs := attrs, meths := meths }

def strListOfJson (j : Json) : Except String (List String) := do
  (← j.getArr?).toList.mapM fun x => x.getStr?

/-- optional `"refl": {"g": [keys of f_globals], "l": […f_locals], "b": […f_builtins], "gb": bool}` -/
def nsOfJson (j : Json) : Except String NsDesc :=
  match j.getObjVal? "refl" with
  | .error _ => pure {}
  | .ok r => do
    let g ← strListOfJson (← r.getObjVal? "g")
    let l ← strListOfJson (← r.getObjVal? "l")
    let b ← strListOfJson (← r.getObjVal? "b")
    let gb ← (← r.getObjVal? "gb").getBool?
    pure { globals := g, locals := l, builtins := b, gbIsBuiltins := gb }

/-- Stream `expr`. Input: {"tokens": […], "locals": [[name, value]…], "sentinels": […], "refl"?: {…}}.  Globals are
    the generated `defaultGlobals` names bound to opaque builtins. -/
def exprHandler : Handler := fun j => do
  let toks ← (← getArr j "tokens").toList.mapM tokOfJson
  let locals ← pairsOfJson cvOfJson (← j.getObjVal? "locals")
  let sents ← (← getArr j "sentinels").toList.mapM sentOfJson
  let d : HostDesc := { sents := sents, ns := (← nsOfJson j) }
  let globals : Env CV := defaultGlobals.map fun n => (n, CV.builtin n)
  let r := eval (concreteHost d) locals globals toks []
  let res : Json := match r.1 with
    | .ok (.obj o) => Json.arr #[Json.str "ok", cvToJson o]
    | .ok (.tok t) => Json.arr #[Json.str "ok", tokToJson t]
    | .error e => Json.arr #[Json.str "exc", Json.str e]
  let reads := r.2.reads.map fun x => Json.arr #[cvToJson x.obj, Json.str x.name, Json.bool x.viaGetattr]
  let host := (r.2.hs.filter fun p => p.2.startsWith "_").map fun p => Json.arr #[Json.num (p.1 : Nat), Json.str p.2]
  return Json.mkObj [
    ("res", res),
    ("reads", Json.arr reads.toArray),
    ("host", Json.arr host.toArray),
    ("names", Json.arr (r.2.resolved.map Json.str).toArray)
  ]

end GtModel.Expr

/-
  C09 layer: the four loaders JSON / JSON5 / YAML / PLIST.  All of them end in `json.build_tree(obj)`;
  YAML and PLIST clear the `quoted` flag of string leaves (rendering only, no effect on equality or cost) and
  PLIST wraps the root in a `PLISTNode`.  The external parsers are parameters: the ASSUMPTION (validated on every
  run by the `formats` stream) is that they return equal Python objects for the same datum.
  Lean core only.
-/
import GtModel.Model.Edits

namespace GtModel.Formats
open Lean

inductive Fmt where
  | json | json5 | yaml | plist
deriving DecidableEq, Repr, Inhabited

/-- a loaded document: a plain tree, or a tree under a `PLISTNode` wrapper -/
inductive Loaded where
  | plain (t : Tree)
  | plist (root : Tree)
deriving Repr, Inhabited

def load (o : Opts) (f : Fmt) (d : Doc) : Loaded :=
  match f with
  | .plist => .plist (build o d)
  | _ => .plain (build o d)

def Loaded.size : Loaded → Nat
  | .plain t => t.size
  | .plist r => r.size          -- PLISTNode.calculate_total_size = root.calculate_total_size()

def Loaded.payload : Loaded → Tree
  | .plain t => t
  | .plist r => r

/-- cost of `from.edits(to)` fully refined:
    * plain vs plain: the L2 script;
    * PLISTNode vs PLISTNode: EditCollection [Match(self,node,0), root.edits(root')] — the cost of the roots' edit;
    * PLISTNode vs plain: `self.root.edits(node)`;
    * plain vs PLISTNode: no node class knows PLISTNode, every `edits` falls through to `Replace(self, node)`. -/
def cost (o : Opts) (orc : Oracle) : Loaded → Loaded → Nat
  | .plain a, .plain b => (edits o orc [] [] a b).cost
  | .plist a, .plist b => (edits o orc [0] [0] a b).cost
  | .plist a, .plain b => (edits o orc [0] [] a b).cost
  | .plain a, .plist b => Nat.max a.size b.size + 1

def allFmts : List (String × Fmt) := [("json", .json), ("json5", .json5), ("yaml", .yaml), ("plist", .plist)]

/-- stream `formats`: the datum loaded in every ordered pair of formats: is the cost zero? -/
def formatsHandler : Handler := fun j => do
  let o ← optsOfJson j
  let d ← docOfJson (← j.getObjVal? "d")
  let entries : List (String × Json) := allFmts.flatMap fun (na, a) => allFmts.map fun (nb, b) =>
    (na ++ "->" ++ nb, Json.bool (cost o [] (load o a d) (load o b d) == 0))
  pure <| Json.mkObj [("zero", Json.mkObj entries)]

end GtModel.Formats

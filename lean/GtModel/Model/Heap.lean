/-
  L4: `graphtage.fibonacci.FibonacciHeap` / `HeapNode` / `MaxFibonacciHeap` / `ReversedComparator`
  and `graphtage.utils.smallest` / `largest` — structure-exact functional mirror.

  Representation.  A Python circular doubly-linked ring with a designated entry pointer (`heap._root` for the
  root ring, `node.child` for a child ring) is the `List` read rightwards (`.right`) from that pointer.
    * `_append_root(node)` / `add_child(node)` splice the new node immediately right of the entry node,
      i.e. at list index 1 (`insert1`); into an empty ring it becomes the entry.
    * `_remove_root(node)` / `remove_child(node)` unlink the node; when it is the entry node the entry pointer
      moves to its right neighbour, so in list form it is always "erase that element".
    * `.parent`, `.left`, `.degree` are derived data (position in the forest, inverse of `.right`, `kids.length`);
      the correspondence stream compares them with the real fields after every operation.
  The comparison on keys is a parameter (`Cmp K`): `lt` mirrors `key.__lt__`, `eq` mirrors `key.__eq__`.
  Only Lean core is imported.
-/
import GtModel.Model.Proto

namespace GtModel.Heap
open Lean

/-- The two key comparisons the heap code uses (`<` in `HeapNode.__lt__`/`decrease_key`, `==` in `__le__`). -/
structure Cmp (K : Type) where
  lt : K → K → Bool
  eq : K → K → Bool

/-- plain `int` keys (`FibonacciHeap`) -/
def intMin : Cmp Int := ⟨fun a b => decide (a < b), fun a b => a == b⟩
/-- `ReversedComparator(int)` keys (`MaxFibonacciHeap`): `__lt__` is `>`, `__eq__` is `==` -/
def intMax : Cmp Int := ⟨fun a b => decide (b < a), fun a b => a == b⟩

structure HNode (K : Type) where
  id : Nat
  key : K
  mark : Bool
  deleted : Bool
  kids : List (HNode K)

structure Heap (K : Type) where
  roots : List (HNode K)
  min : Option Nat
  n : Nat

inductive Err where
  | attributeError   -- pop / peek on an empty heap: `None.item`
  | valueError       -- decrease_key with a larger key
  | typeError        -- iter(heap) on an empty heap; smallest(5)
  | indexError       -- `a[d]` out of range in `_consolidate`
  | corrupt          -- the heap is not in a state the list model can represent (min not a root, `_n` = 0 ...)
  | notInHeap        -- decrease_key / remove of a node that is not in the heap (outside the documented precondition)
  | fuel             -- the `while _min.deleted` loop ran longer than the number of nodes (impossible)
deriving DecidableEq, Repr

abbrev Res (α : Type) := Except Err α

variable {K : Type}

def empty : Heap K := ⟨[], none, 0⟩

/-- `HeapNode.__lt__`: `(self.deleted and not other.deleted) or self.key < other.key` -/
def nodeLt (cmp : Cmp K) (a b : HNode K) : Bool := (a.deleted && !b.deleted) || cmp.lt a.key b.key
/-- `HeapNode.__le__`: `self < other or self.key == other.key` -/
def nodeLe (cmp : Cmp K) (a b : HNode K) : Bool := nodeLt cmp a b || cmp.eq a.key b.key

/-- splice `c` right of the entry node of a ring (`_append_root`, `add_child`) -/
def insert1 {α : Type} (c : α) : List α → List α
  | [] => [c]
  | r :: rs => r :: c :: rs

/-- `for c in cs: _append_root(c)` -/
def appendAll {α : Type} (rs : List α) (cs : List α) : List α := cs.foldl (fun rs c => insert1 c rs) rs

mutual
/-- `HeapNode.__iter__` restricted to one node: the node, then its child ring recursively -/
def flat : HNode K → List (HNode K)
  | ⟨i, k, m, d, ks⟩ => ⟨i, k, m, d, ks⟩ :: flats ks
/-- `iter(ring_entry)`: pre-order over a ring -/
def flats : List (HNode K) → List (HNode K)
  | [] => []
  | x :: xs => flat x ++ flats xs
end

def findNode (t : Nat) (rs : List (HNode K)) : Option (HNode K) := (flats rs).find? (fun x => x.id == t)

def Heap.count (h : Heap K) : Nat := (flats h.roots).length

/-- split a ring at the node with identity `t` -/
def splitId (t : Nat) : List (HNode K) → Option (List (HNode K) × HNode K × List (HNode K))
  | [] => none
  | r :: rs =>
    if r.id == t then some ([], r, rs)
    else match splitId t rs with
      | some (a, z, b) => some (r :: a, z, b)
      | none => none

/-- `_link(y, x)`: `y` (already unlinked from the root ring) becomes a child of `x`, unmarked -/
def link (x y : HNode K) : HNode K := { x with kids := insert1 { y with mark := false } x.kids }

/-- The `while a[d] is not None` loop of `_consolidate`, run on the suffix `a[d:]` of the degree array:
    `[]` = index out of range. -/
def consGo (cmp : Cmp K) : List (Option (HNode K)) → HNode K → Res (List (Option (HNode K)))
  | [], _ => .error .indexError
  | none :: rest, x => .ok (some x :: rest)
  | some y :: rest, x =>
    let p := if nodeLt cmp y x then y else x
    let c := if nodeLt cmp y x then x else y
    match consGo cmp rest (link p c) with
    | .ok r => .ok (none :: r)
    | .error e => .error e

/-- one iteration of `for x in list(self._roots)` -/
def consInsert (cmp : Cmp K) (a : List (Option (HNode K))) (x : HNode K) : Res (List (Option (HNode K))) :=
  let d := x.kids.length
  match consGo cmp (a.drop d) x with
  | .ok r => .ok (a.take d ++ r)
  | .error e => .error e

def consAll (cmp : Cmp K) : List (HNode K) → List (Option (HNode K)) → Res (List (Option (HNode K)))
  | [], a => .ok a
  | x :: xs, a =>
    match consInsert cmp a x with
    | .ok a' => consAll cmp xs a'
    | .error e => .error e

/-- the final `for i in range(len(a))` loop choosing `_min` (note `<=`: the last minimal entry wins) -/
def pickMin (cmp : Cmp K) (surv : List (HNode K)) (m0 : HNode K) : HNode K :=
  surv.foldl (fun m t => if nodeLe cmp t m then t else m) m0

/-- `_consolidate()` with `_n = n`, root ring `rs`, `_min = m0`.  Returns the new root ring and the new `_min`.
    The new ring is the old ring with linked-away roots erased and survivors updated in place. -/
def consolidate (cmp : Cmp K) (n : Nat) (rs : List (HNode K)) (m0 : HNode K) : Res (List (HNode K) × Nat) :=
  match consAll cmp rs (List.replicate n none) with
  | .error e => .error e
  | .ok a =>
    let surv := a.filterMap id
    let roots := rs.filterMap (fun r => surv.find? (fun s => s.id == r.id))
    .ok (roots, (pickMin cmp surv m0).id)

/-- `_extract_min()` -/
def extractMin (cmp : Cmp K) (h : Heap K) : Res (Heap K × Option (HNode K)) :=
  match h.min with
  | none => .ok (h, none)
  | some zid =>
    match splitId zid h.roots with
    | none => .error .corrupt          -- `_min` is not in the root ring
    | some (_, z, _) =>
      let roots1 := appendAll h.roots z.kids
      match splitId zid roots1 with
      | none => .error .corrupt
      | some (pre, _, post) =>
        if h.n = 0 then .error .corrupt else
        match (post ++ pre).head? with     -- `z.right`
        | none => .ok (⟨[], none, h.n - 1⟩, some z)
        | some right =>
          match consolidate cmp h.n (pre ++ post) right with
          | .error e => .error e
          | .ok (roots3, m) => .ok (⟨roots3, some m, h.n - 1⟩, some z)

/-- `while self._min is not None and self._min.deleted: self._extract_min()` -/
def dropDeleted (cmp : Cmp K) : Nat → Heap K → Res (Heap K)
  | fuel, h =>
    match h.min with
    | none => .ok h
    | some mid =>
      match findNode mid h.roots with
      | none => .error .corrupt
      | some m =>
        if m.deleted then
          match fuel with
          | 0 => .error .fuel
          | f + 1 =>
            match extractMin cmp h with
            | .error e => .error e
            | .ok (h', _) => dropDeleted cmp f h'
        else .ok h

/-- `pop()`: returns the new heap and the popped item (= node id) -/
def pop (cmp : Cmp K) (h : Heap K) : Res (Heap K × Nat) :=
  match dropDeleted cmp (h.count + 1) h with
  | .error e => .error e
  | .ok h1 =>
    match extractMin cmp h1 with
    | .error e => .error e
    | .ok (_, none) => .error .attributeError
    | .ok (h2, some z) => .ok (h2, z.id)

/-- `peek()` -/
def peek (cmp : Cmp K) (h : Heap K) : Res (Heap K × Nat) :=
  match dropDeleted cmp (h.count + 1) h with
  | .error e => .error e
  | .ok h1 =>
    match h1.min with
    | none => .error .attributeError
    | some mid => .ok (h1, mid)

/-- `push(item)` where the new node gets identity `id` and key `k` -/
def push (cmp : Cmp K) (h : Heap K) (id : Nat) (k : K) : Res (Heap K) :=
  let node : HNode K := ⟨id, k, false, false, []⟩
  let roots := insert1 node h.roots
  match h.min with
  | none => .ok ⟨roots, some id, h.n + 1⟩
  | some mid =>
    match findNode mid h.roots with
    | none => .error .corrupt
    | some m => .ok ⟨roots, some (if nodeLt cmp node m then id else mid), h.n + 1⟩

mutual
/-- Search below node `p` for the node `t`, apply `upd` to it (`x.key = k` / `node.deleted = True`) and run
    `if x < y: _cut(x, y); _cascading_cut(y)` bottom-up.
    Result: the rebuilt node, the nodes cut out (in the order in which `_append_root` is called on them) and
    whether `_cascading_cut(p)` is still to be executed by the caller. -/
def cutNode (cmp : Cmp K) (t : Nat) (upd : HNode K → HNode K) : HNode K → Option (HNode K × List (HNode K) × Bool)
  | ⟨i, k, m, d, ks⟩ =>
    match cutKids cmp t upd k d ks with
    | some (ks', cuts, casc) => some (⟨i, k, m, d, ks'⟩, cuts, casc)
    | none => none
/-- the same over the child ring of a node with key `pk` and deleted flag `pd` -/
def cutKids (cmp : Cmp K) (t : Nat) (upd : HNode K → HNode K) (pk : K) (pd : Bool) :
    List (HNode K) → Option (List (HNode K) × List (HNode K) × Bool)
  | [] => none
  | c :: cs =>
    if c.id == t then
      let c' := upd c
      if nodeLt cmp c' ⟨0, pk, false, pd, []⟩ then some (cs, [{ c' with mark := false }], true)   -- _cut(x, y)
      else some (c' :: cs, [], false)
    else
      match cutNode cmp t upd c with
      | some (c', cuts, casc) =>
        if casc then
          -- `_cascading_cut(c')`, whose parent is the owner of this ring
          if c'.mark then some (cs, cuts ++ [{ c' with mark := false }], true)
          else some ({ c' with mark := true } :: cs, cuts, false)
        else some (c' :: cs, cuts, false)
      | none =>
        match cutKids cmp t upd pk pd cs with
        | some (cs', cuts, casc) => some (c :: cs', cuts, casc)
        | none => none
end

/-- the same at the root ring: a root has no parent, so it is updated in place and `_cascading_cut` of a root is a no-op -/
def cutRoots (cmp : Cmp K) (t : Nat) (upd : HNode K → HNode K) : List (HNode K) → Option (List (HNode K) × List (HNode K))
  | [] => none
  | r :: rs =>
    if r.id == t then some (upd r :: rs, [])
    else match cutNode cmp t upd r with
      | some (r', cuts, _) => some (r' :: rs, cuts)
      | none =>
        match cutRoots cmp t upd rs with
        | some (rs', cuts) => some (r :: rs', cuts)
        | none => none

/-- `decrease_key(x, k)` where `x` is the node with identity `t` -/
def decreaseKey (cmp : Cmp K) (h : Heap K) (t : Nat) (k : K) : Res (Heap K) :=
  match findNode t h.roots with
  | none => .error .notInHeap
  | some x =>
    if cmp.lt x.key k then .error .valueError else
    match cutRoots cmp t (fun x => { x with key := k }) h.roots with
    | none => .error .notInHeap
    | some (rs, cuts) =>
      let roots := appendAll rs cuts
      match h.min with
      | none => .error .corrupt
      | some mid =>
        match findNode mid roots with
        | none => .error .corrupt
        | some m => .ok ⟨roots, some (if nodeLt cmp { x with key := k } m then t else mid), h.n⟩

/-- `remove(node)` where `node` has identity `t` -/
def remove (cmp : Cmp K) (h : Heap K) (t : Nat) : Res (Heap K) :=
  match cutRoots cmp t (fun x => { x with deleted := true }) h.roots with
  | none => .error .notInHeap
  | some (rs, cuts) =>
    match extractMin cmp ⟨appendAll rs cuts, some t, h.n⟩ with
    | .error e => .error e
    | .ok (h', _) => .ok h'

/-! ### operation sequences -/

inductive Op (K : Type) where
  | push (k : K)
  | pop
  | peek
  | dec (i : Nat) (k : K)
  | rem (i : Nat)
  | len
  | bool
  | clear
  | nodes
  | iter
  | minNode

inductive Ret where
  | unit
  | item (i : Nat)
  | optItem (i : Option Nat)
  | size (n : Nat)
  | bool (b : Bool)
  | items (l : List Nat)
  | err (e : Err)
deriving DecidableEq, Repr

/-- heap plus the number of pushes so far (the i-th pushed node has identity i) -/
structure St (K : Type) where
  h : Heap K
  next : Nat

def St.init : St K := ⟨empty, 0⟩

/-- One public operation.  `none` = the model cannot continue (an error in the middle of a mutation). -/
def step (cmp : Cmp K) (s : St K) : Op K → Option (St K) × Ret
  | .push k =>
    match push cmp s.h s.next k with
    | .ok h => (some ⟨h, s.next + 1⟩, .item s.next)
    | .error e => (none, .err e)
  | .pop =>
    match pop cmp s.h with
    | .ok (h, i) => (some ⟨h, s.next⟩, .item i)
    | .error .attributeError => (some s, .err .attributeError)
    | .error e => (none, .err e)
  | .peek =>
    match peek cmp s.h with
    | .ok (h, i) => (some ⟨h, s.next⟩, .item i)
    | .error .attributeError => (some s, .err .attributeError)
    | .error e => (none, .err e)
  | .dec i k =>
    match decreaseKey cmp s.h i k with
    | .ok h => (some ⟨h, s.next⟩, .unit)
    | .error .valueError => (some s, .err .valueError)
    | .error e => (none, .err e)
  | .rem i =>
    match remove cmp s.h i with
    | .ok h => (some ⟨h, s.next⟩, .unit)
    | .error e => (none, .err e)
  | .len => (some s, .size s.h.n)
  | .bool => (some s, .bool (decide (s.h.n > 0)))
  | .clear => (some ⟨empty, s.next⟩, .unit)
  | .nodes => (some s, .items ((flats s.h.roots).map (·.id)))
  | .iter => (some s, if s.h.roots.isEmpty then .err .typeError else .items ((flats s.h.roots).map (·.id)))
  | .minNode => (some s, .optItem s.h.min)

/-! ### `utils.smallest` / `utils.largest` -/

def pushAll (cmp : Cmp K) : Heap K → Nat → List K → Res (Heap K)
  | h, _, [] => .ok h
  | h, i, k :: ks =>
    match push cmp h i k with
    | .ok h' => pushAll cmp h' (i + 1) ks
    | .error e => .error e

/-- `for _ in range(n): if not heap: break; yield heap.pop()` -/
def popN (cmp : Cmp K) : Nat → Heap K → Res (List Nat)
  | 0, _ => .ok []
  | n + 1, h =>
    if h.n = 0 then .ok [] else
    match pop cmp h with
    | .error e => .error e
    | .ok (h', i) =>
      match popN cmp n h' with
      | .ok l => .ok (i :: l)
      | .error e => .error e

/-- `smallest(seq, n=n, key=key)` / `largest(...)` on a sequence given by its keys; the result lists the
    *positions* of the yielded items.  `sized` says whether `seq` has a `len` (list/tuple vs generator). -/
def selectN (cmp : Cmp K) (keys : List K) (n : Int) (sized : Bool) : Res (List Nat) :=
  if sized && decide ((keys.length : Int) ≤ n) then .ok (List.range keys.length)
  else
    match pushAll cmp empty 0 keys with
    | .error e => .error e
    | .ok h => popN cmp n.toNat h

/-! ### JSON -/

def Err.toString : Err → String
  | .attributeError => "AttributeError"
  | .valueError => "ValueError"
  | .typeError => "TypeError"
  | .indexError => "IndexError"
  | .corrupt => "model:corrupt"
  | .notInHeap => "model:notInHeap"
  | .fuel => "model:fuel"

def jInt (i : Int) : Json := Json.num (JsonNumber.fromInt i)
def jNat (n : Nat) : Json := Json.num (JsonNumber.fromNat n)
def jOptNat : Option Nat → Json
  | none => Json.null
  | some n => jNat n

mutual
/-- `id:key[m][d]/degree^parent[kids]` — the same text the harness prints for the real node -/
def dumpNode (parent : Option Nat) : HNode Int → String
  | ⟨i, k, m, d, ks⟩ =>
    toString i ++ ":" ++ toString k ++ (if m then "m" else "") ++ (if d then "d" else "") ++ "/" ++ toString ks.length
      ++ "^" ++ (match parent with | none => "-" | some p => toString p) ++ "[" ++ dumpNodes (some i) ks ++ "]"
def dumpNodes (parent : Option Nat) : List (HNode Int) → String
  | [] => ""
  | [x] => dumpNode parent x
  | x :: y :: xs => dumpNode parent x ++ "," ++ dumpNodes parent (y :: xs)
end

def optNatStr : Option Nat → String
  | none => "None"
  | some n => toString n

def dumpHeap (h : Heap Int) : String :=
  dumpNodes none h.roots ++ "|" ++ optNatStr h.min ++ "|" ++ toString h.n

def Ret.toStr : Ret → String
  | .unit => "None"
  | .item i => toString i
  | .optItem i => optNatStr i
  | .size n => toString n
  | .bool b => if b then "True" else "False"
  | .items l => "[" ++ ",".intercalate (l.map toString) ++ "]"
  | .err e => e.toString

def opOfJson (j : Json) : Except String (Op Int) := do
  let a ← j.getArr?
  let name ← (a[0]?.getD Json.null).getStr?
  let arg (i : Nat) : Except String Json := match a[i]? with | some v => pure v | none => throw "missing op argument"
  match name with
  | "push" => do let k ← (← arg 1).getInt?; pure (.push k)
  | "pop" => pure .pop
  | "peek" => pure .peek
  | "dec" => do let i ← (← arg 1).getNat?; let k ← (← arg 2).getInt?; pure (.dec i k)
  | "rem" => do let i ← (← arg 1).getNat?; pure (.rem i)
  | "len" => pure .len
  | "bool" => pure .bool
  | "clear" => pure .clear
  | "nodes" => pure .nodes
  | "iter" => pure .iter
  | "min_node" => pure .minNode
  | _ => throw s!"unknown op {name}"

/-- per operation: `ret#len#dump`; after an error in the middle of a mutation the model stops -/
def runOps (cmp : Cmp Int) : Option (St Int) → List (Op Int) → List Json × Option (St Int)
  | s, [] => ([], s)
  | none, _ :: ops => let (l, s') := runOps cmp none ops; (Json.str "model:stopped" :: l, s')
  | some s, op :: ops =>
    let (s', r) := step cmp s op
    let d := match s' with | some s' => toString s'.h.n ++ "#" ++ dumpHeap s'.h | none => "model:stopped"
    let (l, s'') := runOps cmp s' ops
    (Json.str (r.toStr ++ "#" ++ d) :: l, s'')

/-- stream `heap`: {"max": bool, "ops": [...], "conts": [[...], ...]}: run `ops`, then every continuation
    from the state reached. -/
def heapHandler : Handler := fun j => do
  let isMax ← getBool j "max"
  let ops ← (← getArr j "ops").toList.mapM opOfJson
  let conts ← (← getArr j "conts").toList.mapM (fun c => do (← c.getArr?).toList.mapM opOfJson)
  let cmp := if isMax then intMax else intMin
  let (p, s) := runOps cmp (some St.init) ops
  let cs := conts.map (fun c => Json.arr (runOps cmp s c).1.toArray)
  pure (Json.mkObj [("p", Json.arr p.toArray), ("c", Json.arr cs.toArray)])

/-- stream `heapsel`: {"fn": "smallest"|"largest", "items": [...], "keys": [...], "n": int, "form": "list"|"gen"|"varargs"} -/
def selHandler : Handler := fun j => do
  let fn ← getStr j "fn"
  let keys ← jsonToIntList (← j.getObjVal? "keys")
  let items ← jsonToIntList (← j.getObjVal? "items")
  let n ← getInt j "n"
  let form ← getStr j "form"
  let cmp := if fn == "largest" then intMax else intMin
  -- `smallest(x)` with a single positional argument always unpacks it (`isinstance(sequence, Iterable)` tests the
  -- tuple itself), so a lone non-iterable raises TypeError; `largest(x)` tests `sequence[0]` and keeps the 1-tuple.
  if form == "varargs" && keys.length == 1 && fn == "smallest" then
    pure (Json.str Err.typeError.toString)
  else
    match selectN cmp keys n (form != "gen") with
    | .ok l => pure (intListToJson (l.filterMap (fun i => items[i]?)))
    | .error e => pure (Json.str e.toString)

end GtModel.Heap

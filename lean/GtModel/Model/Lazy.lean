/-
  L3: OPERATIONAL semantics of graphtage's diff engine — lazy, state-carrying refinement.

  Every edit object is a *machine* `M`; the protocol methods are state transformers in `R = Except Err`:

      bounds   : M → R (M × Iv)          `bounds()`  (NOT side-effect free: `EditDistance.bounds()` builds the script,
                                                       fully tightens the last cell and frees the matrix)
      tighten  : M → R (M × Bool)        `tighten_bounds()`
      complete : M → R (M × Bool)        `is_complete()`
      onDiff   : M → R M                 `on_diff()`  = `edits()` recursively (what `TreeNode.diff` does at the end)
      dump     : M → R (M × DScript)     the harness' script dump (forces `edits()` and fully tightens leaves)

  Classes (one constructor each):
      const   Match / Replace / Remove / Insert                               edits.py
      kvp     KeyValuePairEdit (short-circuit `or`)                           graphtage.py
      str     StringEdit, wrapping an `ed` over single characters             graphtage.py
      fixed   FixedLengthSequenceEdit + repeat_until_tightened                sequences.py, bounds.py
      ed      EditDistance: fringe row/col, `_last_fringe`, `costs`/`path_costs`, matrix freed by `_cleanup`,
              the `__edits` cache, the `quiet` flag                            levenshtein.py
      coll    EditCollection with explode_edits=False (FixedKeyDictNodeEdit): `_edit_iter`, `_sub_edits`, `_cost`
              memo                                                             edits.py
      ms      MultiSetEdit + WeightedBipartiteMatcher (see LazyMatch section)  multiset.py, matching.py

  Recursion is OPEN: the body of every method takes the methods for the children as a record `Ops`; `mkOps q n` ties
  the knot by recursion on the depth `n` (recursion depth; every `while` loop of the Python code is a loop with at
  most `n` iterations).  Running out of fuel is the error `Err.fuel`; the theorems show it never happens for `n`
  large enough, and that results do not depend on `n`.

  Error enum: what Python would raise, by cause.  `invalidated` is not an exception: it marks the point where an
  `EditCollection` would set `valid = False` (the model stops there; the theorems show it is unreachable on the
  domain `Tree.fkOK`; outside that domain it IS reached: finding D24, see NOTES_C04).

  Lean core only.
-/
import GtModel.Model.Edits

namespace GtModel.Lazy
open Lean
open GtModel
open GtModel.EditMatrix (Move Cell step)

inductive Err where
  | fuel          -- a loop / the recursion ran out of fuel (non-termination of the Python code)
  | freed         -- `self.edit_matrix[...]` after `_cleanup` set it to None (TypeError)
  | assertion     -- an `assert` of the Python code failed
  | range         -- `Range(lo, hi)` with hi < lo (ValueError)
  | invalidated   -- an EditCollection declared itself invalid
  | emptyMin      -- `min()` / `sum()` of an empty sequence (ValueError / AttributeError)
  | index         -- list / array index out of range
  | oracle        -- an oracle answer violates its contract
  | shape         -- the machine is not of the class the caller expects
deriving DecidableEq, Repr, Inhabited

abbrev R := Except Err

/-- a finite cost interval `Range(lo, hi)` -/
structure Iv where
  lo : Nat
  hi : Nat
deriving DecidableEq, Repr, Inhabited

namespace Iv
def definitive (a : Iv) : Bool := a.lo == a.hi
def add (a b : Iv) : Iv := ⟨a.lo + b.lo, a.hi + b.hi⟩
def point (n : Nat) : Iv := ⟨n, n⟩
/-- the constructor `Range(lo, hi)` -/
def mk? (lo hi : Nat) : R Iv := if hi < lo then throw .range else pure ⟨lo, hi⟩
/-- `sub in self` -/
def contains (self sub : Iv) : Bool := decide (self.lo ≤ sub.lo) && decide (sub.hi ≤ self.hi)
def toJson (a : Iv) : Json := Json.arr #[Json.num (a.lo : Nat), Json.num (a.hi : Nat)]
end Iv

structure Lbl where
  kind : Kind
  fi : Ix := .none
  ti : Ix := .none
deriving Repr, Inhabited

/-- `EditDistance` minus its cells -/
structure EdSt where
  pre : Nat                 -- len(shared_prefix)
  suf : Nat                 -- len(reversed_shared_suffix)
  flen : Nat                -- len of the untrimmed from sequence
  tlen : Nat
  lb0 : Nat                 -- constant_cost
  ub0 : Nat                 -- cost_upper_bound
  rem : List Nat            -- bounds of Remove(from_seq[c]) (size + penalty)
  ins : List Nat            -- bounds of Insert(to_seq[r])
  fr : Int := -1            -- _fringe_row
  fc : Nat := 0             -- _fringe_col
  lastFringe : List (Nat × Nat) := []
  costs : List (List Nat)   -- (nt+1) × (nf+1)
  paths : List (List Nat)
  freed : Bool := false     -- edit_matrix is None
  cache : Option (List (Move × Nat × Nat)) := none   -- __edits (back-trace, corner first): move entering cell (r, c)
deriving Repr, Inhabited

def EdSt.nf (s : EdSt) : Nat := s.rem.length
def EdSt.nt (s : EdSt) : Nat := s.ins.length

/-- `EditCollection` minus its sub-edits -/
structure CollSt where
  ub0 : Nat                       -- _cost_upper_bound (= super().bounds().upper_bound)
  cost : Option Iv := none        -- _cost memo
  iterDone : Bool := false        -- _edit_iter is None
  inits : List Nat                -- initial_bounds.upper_bound of the expanded sub-edits (parallel to subs)
  pinits : List Nat               -- ... of the pending ones
deriving Repr, Inhabited

/-- `WeightedBipartiteMatcher` minus its edges.  The two oracle answers are stored at construction. -/
structure WmSt where
  nf : Nat                        -- len(from_nodes)
  nt : Nat
  distinct : Bool := false        -- _edges_are_distinct
  mtch : Option (List (Nat × Nat)) := none    -- _match: (from index, to index), in dict order
  memo : Option Iv := none        -- _bounds
  assign : List (Nat × Nat)       -- ORACLE: the assignment solver's answer (a partial injection, sorted by from index)
  mdCounts : List (List Nat)      -- ORACLE: tighten_bounds() steps every edge receives inside make_distinct
deriving Repr, Inhabited

/-- `MultiSetEdit` minus its machines -/
structure MsSt where
  remCosts : List Nat             -- bounds of Remove(r) for r in to_remove.elements()  (= matcher from-nodes)
  insCosts : List Nat
  remIdx : List Nat               -- child index (label) of every to_remove element
  insIdx : List Nat
  nMatch : List Script            -- `self._edits` (Match(n, n, 0) of common elements)
deriving Repr, Inhabited

inductive M where
  | const (l : Lbl) (c : Nat)
  | kvp (l : Lbl) (k v : M)
  | str (l : Lbl) (e : M)
  | fixed (l : Lbl) (subs : List M) (tail : List Script)
  | ed (l : Lbl) (s : EdSt) (cells : List (List M))        -- cells[r][c] = edit_matrix[r+1][c+1]
  | coll (l : Lbl) (s : CollSt) (pending subs : List M)
  | ms (l : Lbl) (s : MsSt) (kvps : List M) (w : WmSt) (edges : List (List M))
deriving Repr, Inhabited

def M.lbl : M → Lbl
  | .const l _ => l | .kvp l _ _ => l | .str l _ => l | .fixed l _ _ => l | .ed l _ _ => l | .coll l _ _ _ => l
  | .ms l _ _ _ _ => l

def M.relabel (m : M) (fi ti : Ix) : M :=
  match m with
  | .const l c => .const { l with fi := fi, ti := ti } c
  | .kvp l k v => .kvp { l with fi := fi, ti := ti } k v
  | .str l e => .str { l with fi := fi, ti := ti } e
  | .fixed l s t => .fixed { l with fi := fi, ti := ti } s t
  | .ed l s c => .ed { l with fi := fi, ti := ti } s c
  | .coll l s p q => .coll { l with fi := fi, ti := ti } s p q
  | .ms l s k w e => .ms { l with fi := fi, ti := ti } s k w e

/-- the script dump: like L2's `Script`, but a cost may still be an interval -/
inductive DScript where
  | mk (kind : Kind) (fi ti : Ix) (cost : Iv) (subs : List DScript)
deriving Repr, Inhabited

def DScript.ofScript : Script → DScript
  | .mk k f t c _ => .mk k f t (Iv.point c) []

/-- one recorded `make_distinct` call of a matcher: the matcher's node paths and the step counts per edge -/
structure MdEntry where
  f : List (List Nat)
  t : List (List Nat)
  counts : List (List Nat)
deriving Repr, Inhabited

/-- oracle answers: the assignment solver's answers (as in L2) and, per matcher, the number of `tighten_bounds()`
    steps each edge received inside `make_distinct` -/
structure Orc where
  assign : Oracle := []
  md : List MdEntry := []
deriving Repr, Inhabited

def Orc.mdLookup (orc : Orc) (fps tps : List (List Nat)) : List (List Nat) :=
  match orc.md.find? (fun e => e.f == fps && e.t == tps) with
  | some e => e.counts
  | none => []

/-- the methods of the children -/
structure Ops where
  bounds : M → R (M × Iv)
  tighten : M → R (M × Bool)
  complete : M → R (M × Bool)
  onDiff : M → R M
  dump : M → R (M × DScript)

/-! ### small helpers -/

def tget (t : List (List Nat)) (r c : Nat) : R Nat :=
  match t[r]? with
  | none => throw .index
  | some row => match row[c]? with
    | none => throw .index
    | some v => pure v

def tset (t : List (List Nat)) (r c v : Nat) : R (List (List Nat)) :=
  match t[r]? with
  | none => throw .index
  | some row => if c < row.length then pure (t.set r (row.set c v)) else throw .index

def mget (t : List (List M)) (r c : Nat) : R M :=
  match t[r]? with
  | none => throw .index
  | some row => match row[c]? with
    | none => throw .index
    | some v => pure v

def mset (t : List (List M)) (r c : Nat) (v : M) : R (List (List M)) :=
  match t[r]? with
  | none => throw .index
  | some row => if c < row.length then pure (t.set r (row.set c v)) else throw .index

def lget {α : Type} (l : List α) (i : Nat) : R α :=
  match l[i]? with
  | none => throw .index
  | some v => pure v

def minList : List Nat → R Nat
  | [] => throw .emptyMin
  | x :: xs => pure (xs.foldl Nat.min x)

def insertNat (x : Nat) : List Nat → List Nat
  | [] => [x]
  | y :: ys => if x ≤ y then x :: y :: ys else y :: insertNat x ys

def sortNat : List Nat → List Nat
  | [] => []
  | x :: xs => insertNat x (sortNat xs)

/-! ### const, kvp, str -/

def kvpBounds (rec : Ops) (l : Lbl) (k v : M) : R (M × Iv) := do
  let (k', bk) ← rec.bounds k
  let (v', bv) ← rec.bounds v
  pure (.kvp l k' v', bk.add bv)

def kvpTighten (rec : Ops) (l : Lbl) (k v : M) : R (M × Bool) := do
  let (k', r) ← rec.tighten k
  if r then pure (.kvp l k' v, true)
  else
    let (v', r2) ← rec.tighten v
    pure (.kvp l k' v', r2)

/-! ### FixedLengthSequenceEdit -/

def tailCost (tail : List Script) : Nat := (tail.map Script.cost).sum

/-- `bounds()`: sums the sub-edits' bounds (each child's `bounds()` is called) and the surplus tail -/
def fixedBoundsGo (rec : Ops) : List M → R (List M × Nat × Nat)
  | [] => pure ([], 0, 0)
  | m :: ms => do
      let (m', b) ← rec.bounds m
      let (ms', lo, hi) ← fixedBoundsGo rec ms
      pure (m' :: ms', b.lo + lo, b.hi + hi)

def fixedBounds (rec : Ops) (l : Lbl) (subs : List M) (tail : List Script) : R (M × Iv) := do
  let (subs', lo, hi) ← fixedBoundsGo rec subs
  let iv ← Iv.mk? (lo + tailCost tail) (hi + tailCost tail)
  pure (.fixed l subs' tail, iv)

/-- the undecorated `tighten_bounds`: the first sub-edit that can be tightened -/
def fixedRaw (rec : Ops) : List M → R (List M × Bool)
  | [] => pure ([], false)
  | m :: ms => do
      let (m1, _) ← rec.bounds m
      let (m2, r) ← rec.tighten m1
      if r then
        let (m3, _) ← rec.bounds m2
        pure (m3 :: ms, true)
      else
        let (ms', r') ← fixedRaw rec ms
        pure (m2 :: ms', r')

/-- the loop of `repeat_until_tightened` -/
def fixedLoop (rec : Ops) (l : Lbl) (tail : List Script) (start : Iv) : Nat → List M → R (M × Bool)
  | 0, _ => throw .fuel
  | n + 1, subs => do
      let (subs1, _) ← fixedRaw rec subs
      let (m2, nb) ← fixedBounds rec l subs1 tail
      if nb.lo < start.lo || nb.hi > start.hi then
        match m2 with
        | .fixed _ subs2 _ => fixedLoop rec l tail start n subs2
        | _ => throw .shape
      else if nb.definitive || nb.lo > start.lo || nb.hi < start.hi then pure (m2, true)
      else
        match m2 with
        | .fixed _ subs2 _ => fixedLoop rec l tail start n subs2
        | _ => throw .shape

def fixedTighten (rec : Ops) (n : Nat) (l : Lbl) (subs : List M) (tail : List Script) : R (M × Bool) := do
  let (m1, start) ← fixedBounds rec l subs tail
  if start.definitive then pure (m1, false)
  else
    match m1 with
    | .fixed _ subs1 _ => fixedLoop rec l tail start n subs1
    | _ => throw .shape

/-- `all(edit.is_complete() for edit in self._sub_edits)` (short-circuit) -/
def fixedComplete (rec : Ops) : List M → R (List M × Bool)
  | [] => pure ([], true)
  | m :: ms => do
      let (m', c) ← rec.complete m
      if c then
        let (ms', c') ← fixedComplete rec ms
        pure (m' :: ms', c')
      else pure (m' :: ms, false)

/-! ### EditCollection (explode_edits = False) -/

/-- `_expand_edits()`: true iff an edit was produced -/
def collExpand (s : CollSt) (pending subs : List M) : CollSt × List M × List M × Bool :=
  if s.iterDone then (s, pending, subs, false)
  else match pending, s.pinits with
    | [], _ => ({ s with iterDone := true }, [], subs, false)
    | x :: rest, i :: is => ({ s with cost := none, inits := s.inits ++ [i], pinits := is }, rest, subs ++ [x], true)
    | x :: rest, [] => ({ s with cost := none, inits := s.inits ++ [0], pinits := [] }, rest, subs ++ [x], true)

/-- the incremental bounds while `_edit_iter` is not exhausted; every sub-edit's `bounds()` is read twice -/
def collPartialGo (rec : Ops) : List M → List Nat → R (List M × Nat × Nat)
  | [], _ => pure ([], 0, 0)
  | m :: ms, is => do
      let (m1, b1) ← rec.bounds m
      let (m2, b2) ← rec.bounds m1
      let (ms', lo, dec) ← collPartialGo rec ms is.tail
      pure (m2 :: ms', b1.lo + lo, (is.headD 0 - b2.hi) + dec)

def collBounds (rec : Ops) (l : Lbl) (s : CollSt) (pending subs : List M) : R (M × Iv) := do
  match s.cost with
  | some c => pure (.coll l s pending subs, c)
  | none =>
    if s.iterDone then
      if subs.isEmpty then throw .emptyMin
      let (subs', lo, hi) ← fixedBoundsGo rec subs
      if lo > s.ub0 then throw .invalidated
      let hi' := Nat.min s.ub0 hi
      if hi' < lo then throw .range
      let tot : Iv := ⟨lo, hi'⟩
      let s' := if tot.definitive then { s with cost := some tot } else s
      pure (.coll l s' pending subs', tot)
    else
      let (subs', lo, dec) ← collPartialGo rec subs s.inits
      if dec > s.ub0 then throw .range
      let hi := s.ub0 - dec
      if lo > s.ub0 then throw .invalidated
      let hi' := Nat.min s.ub0 hi
      if hi' < lo then throw .range
      pure (.coll l s pending subs', ⟨lo, hi'⟩)

def asColl : M → R (Lbl × CollSt × List M × List M)
  | .coll l s p q => pure (l, s, p, q)
  | _ => throw .shape

/-- `_is_tightened(starting_bounds)`: `bounds()` is read once or twice (short-circuit `or`) -/
def collIsTightened (rec : Ops) (m : M) (start : Iv) : R (M × Bool) := do
  let (l, s, p, q) ← asColl m
  let (m1, b1) ← collBounds rec l s p q
  if b1.lo > start.lo then pure (m1, true)
  else
    let (l, s, p, q) ← asColl m1
    let (m2, b2) ← collBounds rec l s p q
    pure (m2, decide (b2.hi < start.hi))

/-- the `for child in self._sub_edits` loop of `tighten_bounds`, at child index `i`, `k` children to go.
    Result: `(machine, returned True?, tightened)`. -/
def collChildren (rec : Ops) (l : Lbl) (start : Iv) :
    Nat → Nat → CollSt → List M → List M → Bool → R (M × Bool × Bool)
  | 0, _, s, pending, subs, tightened => pure (.coll l s pending subs, false, tightened)
  | k + 1, i, s, pending, subs, tightened =>
      match subs[i]? with
      | none => pure (.coll l s pending subs, false, tightened)
      | some c => do
        let (c1, r) ← rec.tighten c
        let subs1 := subs.set i c1
        if r then
          let s1 := { s with cost := none }
          -- `if not child.valid`: a child is never invalid (an invalid EditCollection child is `Err.invalidated`)
          let (m2, nb) ← collBounds rec l s1 pending subs1
          if nb.lo > start.lo || nb.hi < start.hi then pure (m2, true, true)
          else
            let (_, s2, p2, q2) ← asColl m2
            collChildren rec l start k (i + 1) s2 p2 q2 true
        else
          let (c2, b) ← rec.bounds c1        -- `assert not child.valid or child.bounds().definitive()`
          if !b.definitive then throw .assertion
          collChildren rec l start k (i + 1) s pending (subs1.set i c2) tightened

def collLoop (rec : Ops) (start : Iv) : Nat → M → R (M × Bool)
  | 0, _ => throw .fuel
  | n + 1, m => do
      let (l, s, p, q) ← asColl m
      let (s1, p1, q1, produced) := collExpand s p q
      let m1 := M.coll l s1 p1 q1
      -- `if self._expand_edits() and self._is_tightened(starting_bounds): return True`
      let (m2, ret) ← if produced then collIsTightened rec m1 start else pure (m1, false)
      if ret then pure (m2, true)
      else
        let (l, s2, p2, q2) ← asColl m2
        let (m3, returned, tightened) ← collChildren rec l start q2.length 0 s2 p2 q2 false
        if returned then pure (m3, true)
        else
          let (_, s3, _, _) ← asColl m3
          if !tightened && s3.iterDone then collIsTightened rec m3 start
          else collLoop rec start n m3

def collTighten (rec : Ops) (n : Nat) (l : Lbl) (s : CollSt) (pending subs : List M) : R (M × Bool) := do
  let (m1, start) ← collBounds rec l s pending subs
  collLoop rec start n m1

/-- `edits()` consumed completely: every pending edit is expanded (`_cost` is reset by every expansion) -/
def collExpandAll (s : CollSt) (pending subs : List M) : CollSt × List M :=
  if s.iterDone then (s, subs)
  else
    ({ s with cost := if pending.isEmpty then s.cost else none, iterDone := true,
              inits := s.inits ++ s.pinits, pinits := [] }, subs ++ pending)

/-! ### EditDistance -/

/-- `_fringe_diagonal()` -/
def diag (fr : Int) (fc nf : Nat) : List (Nat × Nat) :=
  if fr < 0 || fc > nf then []
  else (List.range (Nat.min fr.toNat (nf - fc) + 1)).map fun i => (fr.toNat - i, fc + i)

/-- `is_complete()`: the matrix was freed, or its lower right cell exists (a 1×1 matrix never has one) -/
def edComplete (s : EdSt) : Bool :=
  s.freed || (decide (0 ≤ s.fr) && decide (s.nt + s.nf ≤ s.fr.toNat + s.fc) && decide (0 < s.nt + s.nf))

/-- `_add_node(row, col)`: border cells get their cumulative cost -/
def addNode (s : EdSt) (row col : Nat) : R EdSt :=
  if row == 0 && col == 0 then pure s
  else if row == 0 then do
    let c ← tget s.costs 0 (col - 1)
    let p ← tget s.paths 0 (col - 1)
    let rm ← lget s.rem (col - 1)
    pure { s with costs := ← tset s.costs 0 col (c + rm), paths := ← tset s.paths 0 col (p + 1) }
  else if col == 0 then do
    let c ← tget s.costs (row - 1) 0
    let p ← tget s.paths (row - 1) 0
    let i ← lget s.ins (row - 1)
    pure { s with costs := ← tset s.costs row 0 (c + i), paths := ← tset s.paths row 0 (p + 1) }
  else pure s

def addNodes (s : EdSt) : List (Nat × Nat) → R EdSt
  | [] => pure s
  | (r, c) :: rest => do addNodes (← addNode s r c) rest

/-- `_next_fringe()` -/
def nextFringe (s : EdSt) : R (EdSt × Bool) :=
  if edComplete s then pure (s, false)
  else do
    let last := diag s.fr s.fc s.nf
    let fr1 := s.fr + 1
    let (fr2, fc2) : Int × Nat := if fr1 ≥ (s.nt : Int) + 1 then ((s.nt : Int), s.fc + 1) else (fr1, s.fc)
    let s1 := { s with lastFringe := last, fr := fr2, fc := fc2 }
    let s2 ← addNodes s1 (diag fr2 fc2 s.nf)
    pure (s2, if fc2 ≥ s.nf then decide (fr2 < (s.nt : Int)) else true)

/-- `_best_match(row, col)`: returns the move that enters (row, col); fills `costs` / `path_costs` of an inner cell.
    The cell's `bounds()` is read only if the diagonal neighbour is the cheapest (make_distinct, then the `<` tests);
    it must be definitive there (the fringe loop / the back-trace have fully tightened it). -/
def bestMatch (rec : Ops) (s : EdSt) (cells : List (List M)) (row col : Nat) : R (EdSt × List (List M) × Move) :=
  if row == 0 then
    if col == 0 then throw .assertion else pure (s, cells, .left)
  else if col == 0 then pure (s, cells, .up)
  else do
    let d : Cell := ⟨← tget s.costs (row - 1) (col - 1), ← tget s.paths (row - 1) (col - 1), []⟩
    let l : Cell := ⟨← tget s.costs row (col - 1), ← tget s.paths row (col - 1), []⟩
    let u : Cell := ⟨← tget s.costs (row - 1) col, ← tget s.paths (row - 1) col, []⟩
    let i ← lget s.ins (row - 1)
    let rm ← lget s.rem (col - 1)
    let diagIsBest := EditMatrix.lexLe d l && EditMatrix.lexLe d u
    let (cells1, x) ← if diagIsBest then do
        let c ← mget cells (row - 1) (col - 1)
        let (c', b) ← rec.bounds c
        if !b.definitive then throw .assertion
        pure (← mset cells (row - 1) (col - 1) c', b.hi)
      else pure (cells, 0)
    let res := step i rm x d l u
    let mv : Move := res.script.headD .left
    let s1 := { s with costs := ← tset s.costs row col res.cost, paths := ← tset s.paths row col res.path }
    pure (s1, cells1, mv)

/-- `while cell.tighten_bounds(): [cell.bounds()]` -/
def tightenAll (rec : Ops) (readAfter : Bool) : Nat → M → R M
  | 0, _ => throw .fuel
  | n + 1, c => do
      let (c1, r) ← rec.tighten c
      if r then
        let c2 ← if readAfter then (do let (c2, _) ← rec.bounds c1; pure c2) else pure c1
        tightenAll rec readAfter n c2
      else pure c1

/-- the bounds reads of a non-quiet run before a fringe is tightened: twice per cell; returns the sum of widths -/
def fringeRanges (rec : Ops) (cells : List (List M)) : List (Nat × Nat) → R (List (List M) × Nat)
  | [] => pure (cells, 0)
  | (row, col) :: rest =>
      if row == 0 || col == 0 then fringeRanges rec cells rest
      else do
        let c ← mget cells (row - 1) (col - 1)
        let (c1, b1) ← rec.bounds c
        let (c2, b2) ← rec.bounds c1
        let cells1 ← mset cells (row - 1) (col - 1) c2
        let (cells2, tot) ← fringeRanges rec cells1 rest
        pure (cells2, (b1.hi - b2.lo) + tot)

/-- tighten every cell of the fringe until it is definitive, then `_best_match` it -/
def processFringe (rec : Ops) (n : Nat) (readAfter : Bool) :
    EdSt → List (List M) → List (Nat × Nat) → R (EdSt × List (List M))
  | s, cells, [] => pure (s, cells)
  | s, cells, (row, col) :: rest =>
      if row == 0 || col == 0 then do
        -- Remove / Insert: constant; `_best_match` only returns the neighbour
        let (s1, cells1, _) ← bestMatch rec s cells row col
        processFringe rec n readAfter s1 cells1 rest
      else do
        let c ← mget cells (row - 1) (col - 1)
        let c1 ← tightenAll rec readAfter n c
        let (c2, b) ← rec.bounds c1          -- `assert self.edit_matrix[row][col].bounds().definitive()`
        if !b.definitive then throw .assertion
        let cells1 ← mset cells (row - 1) (col - 1) c2
        let (s1, cells2, _) ← bestMatch rec s cells1 row col
        processFringe rec n readAfter s1 cells2 rest

/-- the corner `edit_matrix[-1][-1]`: `none` if it is a (constant) Remove / Insert -/
def cornerIdx (s : EdSt) : Option (Nat × Nat) := if s.nt == 0 || s.nf == 0 then none else some (s.nt - 1, s.nf - 1)

/-- the back-trace of `edits()` from (row, col) to (0, 0); `k` bounds the number of moves -/
def backTrace (rec : Ops) : Nat → EdSt → List (List M) → Nat → Nat → List (Move × Nat × Nat) →
    R (EdSt × List (List M) × List (Move × Nat × Nat))
  | 0, _, _, _, _, _ => throw .fuel
  | k + 1, s, cells, row, col, acc =>
      if row == 0 && col == 0 then pure (s, cells, acc.reverse)
      else do
        let (s1, cells1, mv) ← bestMatch rec s cells row col
        let (r', c') := match mv with
          | .diag => (row - 1, col - 1) | .up => (row - 1, col) | .left => (row, col - 1)
        backTrace rec k s1 cells1 r' c' ((mv, row, col) :: acc)

/-- the body of `edits()` once the matrix is complete and `__edits` is still None: fully tighten the last cell,
    back-trace, cache, and `_cleanup()` (which always frees: the bounds are the corner cost now) -/
def edFinalize (rec : Ops) (n : Nat) (s : EdSt) (cells : List (List M)) : R (EdSt × List (List M)) := do
  if s.freed then throw .freed
  let cells1 ← match cornerIdx s with
    | none => pure cells
    | some (r, c) => do
        let m ← mget cells r c
        let m' ← tightenAll rec false n m
        mset cells r c m'
  let (s1, cells2, tr) ← backTrace rec (s.nt + s.nf + 1) s cells1 s.nt s.nf []
  pure ({ s1 with cache := some tr, freed := true }, cells2)

/-- `bounds()` -/
def edBounds (rec : Ops) (n : Nat) (s : EdSt) (cells : List (List M)) : R (EdSt × List (List M) × Iv) := do
  if edComplete s then
    let (s1, cells1) ← if s.cache.isNone then edFinalize rec n s cells else pure (s, cells)
    let c ← tget s1.costs s1.nt s1.nf
    pure (s1, cells1, Iv.point c)
  else if s.fr ≤ 0 then
    pure (s, cells, ← Iv.mk? s.lb0 s.ub0)
  else do
    let cur ← (diag s.fr s.fc s.nf).mapM fun (r, c) => tget s.costs r c
    let last ← s.lastFringe.mapM fun (r, c) => tget s.costs r c
    let m := Nat.min (← minList cur) (← minList last)
    pure (s, cells, ← Iv.mk? (Nat.max s.lb0 m) s.ub0)

/-- `tighten_bounds()` once the matrix is complete (and not freed) -/
def edTightenComplete (rec : Ops) (n : Nat) (s : EdSt) (cells : List (List M)) : R (EdSt × List (List M) × Bool) := do
  match cornerIdx s with
  | none =>
      -- the corner is a Remove / Insert: definitive
      let (s1, cells1, _) ← edBounds rec n s cells      -- `_cleanup()`
      pure (s1, cells1, false)
  | some (r, c) =>
      let m ← mget cells r c
      let (m1, b) ← rec.bounds m
      if !b.definitive then
        let (m2, res) ← rec.tighten m1
        pure (s, ← mset cells r c m2, res)
      else
        let cells1 ← mset cells r c m1
        let (s1, cells2, _) ← edBounds rec n s cells1    -- `_cleanup()`
        pure (s1, cells2, false)

/-- the `while True` loop of `tighten_bounds()` while the matrix is being built -/
def edBuildLoop (rec : Ops) (quiet : Bool) (n : Nat) (initial : Iv) :
    Nat → EdSt → List (List M) → R (EdSt × List (List M) × Bool)
  | 0, _, _ => throw .fuel
  | k + 1, s, cells => do
      let firstFringe := decide (s.fr < 0)
      let (s1, ok) ← nextFringe s
      if !ok then
        if !edComplete s1 then throw .assertion
        match cornerIdx s1 with
        | none =>
            let (s2, cells2, _) ← edBounds rec n s1 cells
            pure (s2, cells2, false)
        | some (r, c) =>
            let m ← mget cells r c
            let (m1, b) ← rec.bounds m
            let cells1 ← mset cells r c m1
            if !b.definitive then
              let (s2, cells2, ret) ← edTightenComplete rec n s1 cells1     -- `ret = self.tighten_bounds()`
              if !ret then
                let (s3, cells3, _) ← edBounds rec n s2 cells2               -- `_cleanup()`
                pure (s3, cells3, false)
              else pure (s2, cells2, true)
            else
              let (s2, cells2, _) ← edBounds rec n s1 cells1                 -- `_cleanup()`
              pure (s2, cells2, false)
      else do
        let (s2, cells2) ← if firstFringe then pure (s1, cells) else do
          let fringe := diag s1.fr s1.fc s1.nf
          let (cells1, total) ← if quiet then pure (cells, 0) else fringeRanges rec cells fringe
          processFringe rec n (decide (total > 0)) s1 cells1 fringe
        let (_, _, b1) ← edBounds rec n s2 cells2
        if b1.hi < initial.hi then pure (s2, cells2, true)
        else
          let (_, _, b2) ← edBounds rec n s2 cells2
          if b2.lo > initial.lo then pure (s2, cells2, true)
          else edBuildLoop rec quiet n initial k s2 cells2

/-- `tighten_bounds()` -/
def edTighten (rec : Ops) (quiet : Bool) (n : Nat) (s : EdSt) (cells : List (List M)) :
    R (EdSt × List (List M) × Bool) := do
  if s.nf == 0 && s.nt == 0 then pure (s, cells, false)
  else if s.freed then pure (s, cells, false)
  else if edComplete s then edTightenComplete rec n s cells
  else
    let (s0, cells0, initial) ← edBounds rec n s cells
    edBuildLoop rec quiet n initial n s0 cells0

/-- `while not self.is_complete() and self.tighten_bounds(): pass` -/
def edRunToComplete (rec : Ops) (quiet : Bool) (n : Nat) : Nat → EdSt → List (List M) → R (EdSt × List (List M))
  | 0, _, _ => throw .fuel
  | k + 1, s, cells =>
      if edComplete s then pure (s, cells)
      else do
        let (s1, cells1, r) ← edTighten rec quiet n s cells
        if r then edRunToComplete rec quiet n k s1 cells1 else pure (s1, cells1)

/-- `edits()`: makes sure `__edits` exists (and the matrix is freed) -/
def edEnsure (rec : Ops) (quiet : Bool) (n : Nat) (s : EdSt) (cells : List (List M)) : R (EdSt × List (List M)) := do
  if s.cache.isSome then pure (s, cells)
  else if s.nf == 0 && s.nt == 0 then
    -- no middle part: `__edits` = the suffix matches; `_cleanup()` frees only if the bounds happen to be definitive
    let b ← Iv.mk? s.lb0 s.ub0
    pure ({ s with cache := some [], freed := s.freed || b.definitive }, cells)
  else
    let (s1, cells1) ← edRunToComplete rec quiet n n s cells
    if !edComplete s1 then throw .assertion
    if s1.cache.isSome then pure (s1, cells1) else edFinalize rec n s1 cells1

/-! ### WeightedBipartiteMatcher and MultiSetEdit -/

/-- one pass over the edge matrix reading every edge's `bounds()`: per row `f` of the intervals -/
def wmRowPass (rec : Ops) : List M → R (List M × List Iv)
  | [] => pure ([], [])
  | e :: es => do
      let (e', b) ← rec.bounds e
      let (es', bs) ← wmRowPass rec es
      pure (e' :: es', b :: bs)

def wmPass (rec : Ops) : List (List M) → R (List (List M) × List (List Iv))
  | [] => pure ([], [])
  | row :: rows => do
      let (row', bs) ← wmRowPass rec row
      let (rows', bss) ← wmPass rec rows
      pure (row' :: rows', bs :: bss)

def maxList : List Nat → R Nat
  | [] => throw .emptyMin
  | x :: xs => pure (xs.foldl Nat.max x)

/-- `bounds()` of the matcher -/
def wmBounds (rec : Ops) (w : WmSt) (edges : List (List M)) : R (WmSt × List (List M) × Iv) := do
  match w.memo with
  | some b => pure (w, edges, b)
  | none =>
    if w.nf == 0 || w.nt == 0 then
      pure ({ w with memo := some (Iv.point 0) }, edges, Iv.point 0)
    else
      match w.mtch with
      | none =>
          let k := Nat.min w.nf w.nt
          let (e1, b1) ← wmPass rec edges
          let mins ← b1.mapM fun row => minList (row.map (·.lo))
          let (e2, b2) ← wmPass rec e1
          let maxs ← b2.mapM fun row => maxList (row.map (·.hi))
          let lb := ((sortNat mins).take k).sum
          let ub := ((sortNat maxs).reverse.take k).sum
          let b ← Iv.mk? lb ub
          pure ({ w with memo := if b.definitive then some b else none }, e2, b)
      | some pairs =>
          let rec go (edges : List (List M)) (lb ub : Nat) : List (Nat × Nat) → R (List (List M) × Nat × Nat)
            | [] => pure (edges, lb, ub)
            | (i, j) :: rest => do
                let e ← mget edges i j
                let (e1, b1) ← rec.bounds e
                let (e2, b2) ← rec.bounds e1
                go (← mset edges i j e2) (lb + b1.lo) (ub + b2.hi) rest
          let (e1, lb, ub) ← go edges 0 0 pairs
          let b ← Iv.mk? lb ub
          pure ({ w with memo := if b.definitive then some b else none }, e1, b)

/-- what `make_distinct` does to ONE argument that receives `k` tighten steps: `bounds()` is read before and after
    every step -/
def mdArg (rec : Ops) : Nat → M → R (M × Iv)
  | 0, e => rec.bounds e
  | k + 1, e => do
      let (e1, _) ← rec.bounds e
      let (e2, _) ← rec.tighten e1
      mdArg rec k e2

def mdRow (rec : Ops) : List M → List Nat → R (List M × List Iv)
  | [], _ => pure ([], [])
  | e :: es, cs => do
      let (e', b) ← mdArg rec (cs.headD 0) e
      let (es', bs) ← mdRow rec es cs.tail
      pure (e' :: es', b :: bs)

def mdAll (rec : Ops) : List (List M) → List (List Nat) → R (List (List M) × List Iv)
  | [], _ => pure ([], [])
  | row :: rows, cs => do
      let (row', bs) ← mdRow rec row (cs.headD [])
      let (rows', bss) ← mdAll rec rows cs.tail
      pure (row' :: rows', bs ++ bss)

/-- post-condition of `make_distinct`: any two arguments are both definitive or do not overlap -/
def distinctOk : List Iv → Bool
  | [] => true
  | a :: rest => rest.all (fun b => (a.definitive && b.definitive) || a.hi < b.lo || b.hi < a.lo) && distinctOk rest

/-- `_make_edges_distinct()`: replays the oracle's step counts.  The post-condition of `make_distinct` (`distinctOk`)
    is irrelevant for the protocol; on the real run it is checked by the monitor (`make-distinct-postcondition`). -/
def wmMakeDistinct (rec : Ops) (w : WmSt) (edges : List (List M)) : R (WmSt × List (List M) × Bool) := do
  if w.distinct then pure (w, edges, false)
  else
    let (edges', _) ← mdAll rec edges w.mdCounts
    pure ({ w with distinct := true }, edges', true)

/-- the `matching` property: forces the matching (oracle answer; must pair min(nf, nt) nodes) -/
def wmMatching (rec : Ops) (w : WmSt) (edges : List (List M)) : R (WmSt × List (List M)) := do
  match w.mtch with
  | some _ => pure (w, edges)
  | none =>
    if w.nf == 0 || w.nt == 0 then pure ({ w with mtch := some [] }, edges)
    else
      let (w1, e1, _) ← wmMakeDistinct rec w edges
      let (e2, _) ← wmPass rec e1           -- get_edges: every edge's bounds().upper_bound
      if w1.assign.length != Nat.min w1.nf w1.nt then throw .oracle
      if w1.assign.any (fun p => p.1 ≥ w1.nf || p.2 ≥ w1.nt) then throw .oracle
      pure ({ w1 with mtch := some w1.assign }, e2)

/-- the undecorated `tighten_bounds` of the matcher -/
def wmRaw (rec : Ops) (w : WmSt) (edges : List (List M)) : R (WmSt × List (List M) × Bool) := do
  match w.mtch with
  | none =>
      let (w1, e1, r) ← wmMakeDistinct rec w edges
      if r then pure (w1, e1, true)
      else
        let (w2, e2) ← wmMatching rec w1 e1
        pure (w2, e2, true)
  | some pairs =>
      let rec go (edges : List (List M)) : List (Nat × Nat) → R (List (List M) × Bool)
        | [] => pure (edges, false)
        | (i, j) :: rest => do
            let e ← mget edges i j
            let (e1, r) ← rec.tighten e
            let edges1 ← mset edges i j e1
            if r then pure (edges1, true) else go edges1 rest
      let (e1, r) ← go edges pairs
      pure (w, e1, r)

def wmLoop (rec : Ops) (start : Iv) : Nat → WmSt → List (List M) → R (WmSt × List (List M) × Bool)
  | 0, _, _ => throw .fuel
  | n + 1, w, edges => do
      let (w1, e1, _) ← wmRaw rec w edges
      let (w2, e2, nb) ← wmBounds rec w1 e1
      if nb.lo < start.lo || nb.hi > start.hi then wmLoop rec start n w2 e2
      else if nb.definitive || nb.lo > start.lo || nb.hi < start.hi then pure (w2, e2, true)
      else wmLoop rec start n w2 e2

/-- `tighten_bounds()` of the matcher (with `repeat_until_tightened`) -/
def wmTighten (rec : Ops) (n : Nat) (w : WmSt) (edges : List (List M)) : R (WmSt × List (List M) × Bool) := do
  let (w1, e1, start) ← wmBounds rec w edges
  if start.definitive then pure (w1, e1, false)
  else wmLoop rec start n w1 e1

def sumBounds (rec : Ops) : List M → Iv → R (List M × Iv)
  | [], acc => pure ([], acc)
  | m :: ms, acc => do
      let (m', b) ← rec.bounds m
      let (ms', acc') ← sumBounds rec ms (acc.add b)
      pure (m' :: ms', acc')

/-- indices of the from-nodes / to-nodes that the matching leaves over -/
def unmatched (n : Nat) (used : List Nat) : List Nat := (List.range n).filter fun a => !(used.contains a)

/-- `MultiSetEdit.bounds()` -/
def msBounds (rec : Ops) (l : Lbl) (s : MsSt) (kvps : List M) (w : WmSt) (edges : List (List M)) : R (M × Iv) := do
  let (w1, e1, b) ← wmBounds rec w edges
  let (kvps1, b1) ← sumBounds rec kvps b
  match w1.mtch with
  | some pairs =>
      let rl := unmatched w1.nf (pairs.map (·.1))
      let il := unmatched w1.nt (pairs.map (·.2))
      let extra := (rl.map fun a => s.remCosts.getD a 0).sum + (il.map fun a => s.insCosts.getD a 0).sum
      pure (.ms l s kvps1 w1 e1, b1.add (Iv.point extra))
  | none =>
      if w1.nf > w1.nt then
        let costs := sortNat s.remCosts
        let k := w1.nf - w1.nt
        let r ← Iv.mk? (costs.take k).sum ((costs.drop (costs.length - k)).sum)
        pure (.ms l s kvps1 w1 e1, b1.add r)
      else if w1.nf < w1.nt then
        let costs := sortNat s.insCosts
        let k := w1.nt - w1.nf
        let r ← Iv.mk? (costs.take k).sum ((costs.drop (costs.length - k)).sum)
        pure (.ms l s kvps1 w1 e1, b1.add r)
      else pure (.ms l s kvps1 w1 e1, b1)

def asMs : M → R (Lbl × MsSt × List M × WmSt × List (List M))
  | .ms l s k w e => pure (l, s, k, w, e)
  | _ => throw .shape

/-- the first auto-matched key/value edit that can be tightened -/
def firstTighten (rec : Ops) : List M → R (List M × Bool)
  | [] => pure ([], false)
  | m :: ms => do
      let (m', r) ← rec.tighten m
      if r then pure (m' :: ms, true)
      else
        let (ms', r') ← firstTighten rec ms
        pure (m' :: ms', r')

/-- `MultiSetEdit.tighten_bounds()` -/
def msTighten (rec : Ops) (n : Nat) (l : Lbl) (s : MsSt) (kvps : List M) (w : WmSt) (edges : List (List M)) :
    R (M × Bool) := do
  let (kvps1, r) ← firstTighten rec kvps
  if r then pure (.ms l s kvps1 w edges, true)
  else
    let (w1, e1, r1) ← wmTighten rec n w edges
    if r1 then pure (.ms l s kvps1 w1 e1, true)
    else if w1.mtch.isSome then pure (.ms l s kvps1 w1 e1, false)
    else
      -- the matcher's bounds are definitive but it has not chosen a matching yet: force it
      let (m2, before) ← msBounds rec l s kvps1 w1 e1
      let (l, s, k2, w2, e2) ← asMs m2
      let (w3, e3) ← wmMatching rec w2 e2
      let (m4, after) ← msBounds rec l s k2 w3 e3
      pure (m4, !(after == before))

/-- the matched edges (in dict order) and the left-over removals / insertions of a completed matching -/
def msForce (rec : Ops) (w : WmSt) (edges : List (List M)) : R (WmSt × List (List M) × List (Nat × Nat)) := do
  let (w1, e1) ← wmMatching rec w edges
  pure (w1, e1, w1.mtch.getD [])

/-- apply `f` to the matched edges, in dict order -/
def onPairs (f : M → R M) (edges : List (List M)) : List (Nat × Nat) → R (List (List M))
  | [] => pure edges
  | (i, j) :: rest => do
      let e ← mget edges i j
      onPairs f (← mset edges i j (← f e)) rest

/-! ### dispatch: the method bodies, parametric in the children's methods -/

def boundsB (rec : Ops) (n : Nat) : M → R (M × Iv)
  | .const l c => pure (.const l c, Iv.point c)
  | .kvp l k v => kvpBounds rec l k v
  | .str l e => do let (e', b) ← rec.bounds e; pure (.str l e', b)
  | .fixed l subs tail => fixedBounds rec l subs tail
  | .ed l s cells => do let (s', cells', b) ← edBounds rec n s cells; pure (.ed l s' cells', b)
  | .coll l s p q => collBounds rec l s p q
  | .ms l s k w e => msBounds rec l s k w e

def tightenB (rec : Ops) (quiet : Bool) (n : Nat) : M → R (M × Bool)
  | .const l c => pure (.const l c, false)
  | .kvp l k v => kvpTighten rec l k v
  | .str l e => do let (e', r) ← rec.tighten e; pure (.str l e', r)
  | .fixed l subs tail => fixedTighten rec n l subs tail
  | .ed l s cells => do let (s', cells', r) ← edTighten rec quiet n s cells; pure (.ed l s' cells', r)
  | .coll l s p q => collTighten rec n l s p q
  | .ms l s k w e => msTighten rec n l s k w e

/-- `AbstractEdit.is_complete`: `not self.valid or self.bounds().definitive()` -/
def completeViaBounds (self : Ops) (m : M) : R (M × Bool) := do
  let (m', b) ← self.bounds m
  pure (m', b.definitive)

def completeB (rec : Ops) (_n : Nat) : M → R (M × Bool)
  | .const l c => pure (.const l c, true)
  | .kvp l k v => do let (m, b) ← kvpBounds rec l k v; pure (m, b.definitive)
  | .str l e => do let (e', b) ← rec.bounds e; pure (.str l e', b.definitive)
  | .fixed l subs tail => do let (subs', c) ← fixedComplete rec subs; pure (.fixed l subs' tail, c)
  | .ed l s cells => pure (.ed l s cells, edComplete s)
  | .coll l s p q => do let (m, b) ← collBounds rec l s p q; pure (m, b.definitive)
  | .ms l s k w e => pure (.ms l s k w e, w.mtch.isSome)

def mapMStates (f : M → R M) : List M → R (List M)
  | [] => pure []
  | m :: ms => do pure ((← f m) :: (← mapMStates f ms))

/-- apply `f` to the cells on the cached path (in script order) -/
def onPath (f : M → R M) (cells : List (List M)) : List (Move × Nat × Nat) → R (List (List M))
  | [] => pure cells
  | (.diag, r, c) :: rest => do
      let m ← mget cells (r - 1) (c - 1)
      let cells1 ← mset cells (r - 1) (c - 1) (← f m)
      onPath f cells1 rest
  | _ :: rest => onPath f cells rest

/-- `CompoundEdit.on_diff`: `for edit in self.edits(): edit.on_diff(...)`; `Edit.on_diff` (leaf edits, StringEdit)
    does not look at sub-edits -/
def onDiffB (rec : Ops) (quiet : Bool) (n : Nat) : M → R M
  | .const l c => pure (.const l c)
  | .kvp l k v => do pure (.kvp l (← rec.onDiff k) (← rec.onDiff v))
  | .str l e => pure (.str l e)
  | .fixed l subs tail => do pure (.fixed l (← mapMStates rec.onDiff subs) tail)
  | .ed l s cells => do
      let (s1, cells1) ← edEnsure rec quiet n s cells
      let cells2 ← onPath rec.onDiff cells1 ((s1.cache.getD []).reverse)
      pure (.ed l s1 cells2)
  | .coll l s p q => do
      let (s1, q1) := collExpandAll s p q
      pure (.coll l s1 [] (← mapMStates rec.onDiff q1))
  | .ms l s k w e => do
      let k1 ← mapMStates rec.onDiff k
      let (w1, e1, pairs) ← msForce rec w e
      pure (.ms l s k1 w1 (← onPairs rec.onDiff e1 pairs))

def dumpList (rec : Ops) : List M → R (List M × List DScript)
  | [] => pure ([], [])
  | m :: ms => do
      let (m', d) ← rec.dump m
      let (ms', ds) ← dumpList rec ms
      pure (m' :: ms', d :: ds)

/-- dump the sub-edits of an `EditDistance` in script order (the cache is corner-first) -/
def dumpPath (rec : Ops) (s : EdSt) (cells : List (List M)) :
    List (Move × Nat × Nat) → R (List (List M) × List DScript)
  | [] => pure (cells, [])
  | (mv, r, c) :: rest => do
      match mv with
      | .diag =>
          let m ← mget cells (r - 1) (c - 1)
          let (m', d) ← rec.dump m
          let cells1 ← mset cells (r - 1) (c - 1) m'
          let (cells2, ds) ← dumpPath rec s cells1 rest
          pure (cells2, d :: ds)
      | .up =>
          let i ← lget s.ins (r - 1)
          let (cells2, ds) ← dumpPath rec s cells rest
          pure (cells2, .mk .insert (.at (r - 1 + s.pre)) .none (Iv.point i) [] :: ds)
      | .left =>
          let rm ← lget s.rem (c - 1)
          let (cells2, ds) ← dumpPath rec s cells rest
          pure (cells2, .mk .remove (.at (c - 1 + s.pre)) .none (Iv.point rm) [] :: ds)

def dumpPairs (rec : Ops) (edges : List (List M)) : List (Nat × Nat) → R (List (List M) × List DScript)
  | [] => pure (edges, [])
  | (i, j) :: rest => do
      let e ← mget edges i j
      let (e', d) ← rec.dump e
      let (edges2, ds) ← dumpPairs rec (← mset edges i j e') rest
      pure (edges2, d :: ds)

def matchesFrom (fi ti k : Nat) : List DScript :=
  (List.range k).map fun j => .mk .match_ (.at (fi + j)) (.at (ti + j)) (Iv.point 0) []

/-- the harness' `dump(e)`: sub-edits first (forcing `edits()`), then `e.bounds()` -/
def dumpB (selfBounds : M → R (M × Iv)) (rec : Ops) (quiet : Bool) (n : Nat) : M → R (M × DScript)
  | .const l c => pure (.const l c, .mk l.kind l.fi l.ti (Iv.point c) [])
  | .kvp l k v => do
      let (k', dk) ← rec.dump k
      let (v', dv) ← rec.dump v
      let (m, b) ← selfBounds (.kvp l k' v')
      pure (m, .mk l.kind l.fi l.ti b [dk, dv])
  | .str l e => do
      let (e', d) ← rec.dump e
      let subs := match d with | .mk _ _ _ _ subs => subs
      let (m, b) ← selfBounds (.str l e')
      pure (m, .mk l.kind l.fi l.ti b subs)
  | .fixed l subs tail => do
      let (subs', ds) ← dumpList rec subs
      let (m, b) ← selfBounds (.fixed l subs' tail)
      pure (m, .mk l.kind l.fi l.ti b (ds ++ tail.map DScript.ofScript))
  | .ed l s cells => do
      let (s1, cells1) ← edEnsure rec quiet n s cells
      let (cells2, ds) ← dumpPath rec s1 cells1 ((s1.cache.getD []).reverse)
      let (m, b) ← selfBounds (.ed l s1 cells2)
      let pre := matchesFrom 0 0 s1.pre
      let suf := matchesFrom (s1.flen - s1.suf) (s1.tlen - s1.suf) s1.suf
      pure (m, .mk l.kind l.fi l.ti b (pre ++ ds ++ suf))
  | .coll l s p q => do
      let (s1, q1) := collExpandAll s p q
      let (q2, ds) ← dumpList rec q1
      let (m, b) ← selfBounds (.coll l s1 [] q2)
      pure (m, .mk l.kind l.fi l.ti b ds)
  | .ms l s k w e => do
      let (k1, dk) ← dumpList rec k
      let (w1, e1, pairs) ← msForce rec w e
      let (e2, dm) ← dumpPairs rec e1 pairs
      let rl := unmatched w1.nf (pairs.map (·.1))
      let il := unmatched w1.nt (pairs.map (·.2))
      let dr : List DScript := rl.map fun a => .mk .remove (.at (s.remIdx.getD a 0)) .none (Iv.point (s.remCosts.getD a 0)) []
      let di : List DScript := il.map fun a => .mk .insert (.at (s.insIdx.getD a 0)) .none (Iv.point (s.insCosts.getD a 0)) []
      let (m, b) ← selfBounds (.ms l s k1 w1 e2)
      pure (m, .mk l.kind l.fi l.ti b (s.nMatch.map DScript.ofScript ++ dk ++ dm ++ dr ++ di))

def failOps : Ops :=
  { bounds := fun _ => throw .fuel, tighten := fun _ => throw .fuel, complete := fun _ => throw .fuel,
    onDiff := fun _ => throw .fuel, dump := fun _ => throw .fuel }

/-- the methods at recursion depth `n`; every `while` loop of the Python code gets at most `F` iterations.  Every
    field is a lambda, so the methods of the level below are only built when a child is actually called. -/
def mkOps (quiet : Bool) (F : Nat) : Nat → Ops
  | 0 => failOps
  | n + 1 =>
      { bounds := fun m => boundsB (mkOps quiet F n) F m,
        tighten := fun m => tightenB (mkOps quiet F n) quiet F m,
        complete := fun m => completeB (mkOps quiet F n) F m,
        onDiff := fun m => onDiffB (mkOps quiet F n) quiet F m,
        dump := fun m => dumpB (fun x => boundsB (mkOps quiet F n) F x) (mkOps quiet F n) quiet F m }

/-! ### the public operations on the root edit -/

inductive Op where
  | bounds | tighten | complete | valid | edits | nonzero | onDiff
deriving DecidableEq, Repr, Inhabited

inductive Res where
  | iv (b : Iv)
  | bool (b : Bool)
  | names (l : Option (List String))
  | unit
deriving Repr, Inhabited

def className : M → String
  | .const l _ => match l.kind with
      | .match_ => "Match" | .replace => "Replace" | .remove => "Remove" | .insert => "Insert" | _ => "?"
  | .kvp .. => "KeyValuePairEdit"
  | .str .. => "StringEdit"
  | .fixed .. => "FixedLengthSequenceEdit"
  | .ed .. => "EditDistance"
  | .coll .. => "FixedKeyDictNodeEdit"
  | .ms .. => "MultiSetEdit"

def scriptClass (s : Script) : String :=
  match s.kind with
  | .match_ => "Match" | .replace => "Replace" | .remove => "Remove" | .insert => "Insert" | _ => "?"

def pathNames (cells : List (List M)) : List (Move × Nat × Nat) → R (List String)
  | [] => pure []
  | (.diag, r, c) :: rest => do pure (className (← mget cells (r - 1) (c - 1)) :: (← pathNames cells rest))
  | (.up, _, _) :: rest => do pure ("Insert" :: (← pathNames cells rest))
  | (.left, _, _) :: rest => do pure ("Remove" :: (← pathNames cells rest))

/-- class name of the edge (i, j) of a matcher -/
def edgeName (edges : List (List M)) (p : Nat × Nat) : R String := do
  pure (className (← mget edges p.1 p.2))

/-- `list(e.edits())` on the root: class names of the sub-edits (`none`: the edit is not compound) -/
def editsOp (ops : Ops) (quiet : Bool) (n : Nat) : M → R (M × Option (List String))
  | .const l c => pure (.const l c, none)
  | .str l e => pure (.str l e, none)
  | .kvp l k v => pure (.kvp l k v, some [className k, className v])
  | .fixed l subs tail => pure (.fixed l subs tail, some (subs.map className ++ tail.map scriptClass))
  | .ed l s cells => do
      let (s1, cells1) ← edEnsure ops quiet n s cells
      let mid ← pathNames cells1 ((s1.cache.getD []).reverse)
      pure (.ed l s1 cells1, some (List.replicate s1.pre "Match" ++ mid ++ List.replicate s1.suf "Match"))
  | .coll l s p q =>
      let (s1, q1) := collExpandAll s p q
      pure (.coll l s1 [] q1, some (q1.map className))
  | .ms l s k w e => do
      let (w1, e1, pairs) ← msForce ops w e
      let rl := unmatched w1.nf (pairs.map (·.1))
      let il := unmatched w1.nt (pairs.map (·.2))
      let names ← pairs.mapM (edgeName e1)
      pure (.ms l s k w1 e1, some (s.nMatch.map scriptClass ++ k.map className ++ names
        ++ rl.map (fun _ => "Remove") ++ il.map (fun _ => "Insert")))

/-- `Edit.has_non_zero_cost` -/
def nonzeroLoop (ops : Ops) : Nat → M → R (M × Bool)
  | 0, _ => throw .fuel
  | k + 1, m => do
      let (m1, b1) ← ops.bounds m
      if b1.definitive then
        let (m2, b) ← ops.bounds m1
        pure (m2, decide (b.lo > 0))
      else
        let (m2, b2) ← ops.bounds m1
        if b2.lo > 0 then
          let (m3, b) ← ops.bounds m2
          pure (m3, decide (b.lo > 0))
        else
          let (m3, r) ← ops.tighten m2
          if r then nonzeroLoop ops k m3
          else
            let (m4, b) ← ops.bounds m3
            pure (m4, decide (b.lo > 0))

/-- one public operation.  `ops` = the methods of the root, `rec` = of its children (needed by `edits`) -/
def applyOp (quiet : Bool) (F n : Nat) (op : Op) (m : M) : R (M × Res) :=
  let ops := mkOps quiet F (n + 1)
  match op with
  | .bounds => do let (m', b) ← ops.bounds m; pure (m', .iv b)
  | .tighten => do let (m', r) ← ops.tighten m; pure (m', .bool r)
  | .complete => do let (m', r) ← ops.complete m; pure (m', .bool r)
  | .valid => pure (m, .bool true)
  | .edits => do let (m', r) ← editsOp (mkOps quiet F n) quiet F m; pure (m', .names r)
  | .nonzero => do let (m', r) ← nonzeroLoop ops F m; pure (m', .bool r)
  | .onDiff => do let m' ← ops.onDiff m; pure (m', .unit)

def run (quiet : Bool) (F n : Nat) : M → List Op → R (M × List Res)
  | m, [] => pure (m, [])
  | m, op :: rest => do
      let (m1, r) ← applyOp quiet F n op m
      let (m2, rs) ← run quiet F n m1 rest
      pure (m2, r :: rs)

/-- `while e.tighten_bounds(): pass` -/
def full (ops : Ops) : Nat → M → R M
  | 0, _ => throw .fuel
  | k + 1, m => do
      let (m1, r) ← ops.tighten m
      if r then full ops k m1 else pure m1

/-- tighten to exhaustion, then dump: (final cost interval, script) -/
def finish (quiet : Bool) (F n : Nat) (m : M) : R (M × DScript) := do
  let ops := mkOps quiet F (n + 1)
  let m1 ← full ops F m
  ops.dump m1

/-! ### construction: `from.edits(to)` as a fresh machine (mirrors L2's `edits` dispatch) -/

mutual
/-- `initial_bounds` of a fresh machine -/
def initIv : M → Iv
  | .const _ c => Iv.point c
  | .kvp _ k v => (initIv k).add (initIv v)
  | .str _ e => initIv e
  | .fixed _ subs tail => let r := initIvL subs; ⟨r.lo + tailCost tail, r.hi + tailCost tail⟩
  | .ed _ s _ => ⟨s.lb0, s.ub0⟩
  | .coll _ s _ _ => ⟨0, s.ub0⟩
  | .ms .. => ⟨0, 0⟩
def initIvL : List M → Iv
  | [] => ⟨0, 0⟩
  | m :: ms => (initIv m).add (initIvL ms)
end

def mkConst (k : Kind) (c : Nat) : M := .const { kind := k } c

def ofLeafScript (s : Script) : M := .const { kind := s.kind, fi := s.fi, ti := s.ti } s.cost

def zeroTable (rows cols : Nat) : List (List Nat) := List.replicate rows (List.replicate cols 0)

/-- the `EditDistance.__init__` arithmetic: `fs` / `ts` = total sizes of the UNTRIMMED sequences, `ps` = shared
    prefix / suffix lengths -/
def edInit (ps : Nat × Nat) (fs ts : List Nat) (pen : Nat) : EdSt :=
  let larger := if fs.length < ts.length then ts else fs
  let k := larger.length - (if fs.length < ts.length then fs.length else ts.length)
  let lb0 := (((sortNat larger).take k).map (· + pen)).sum
  let ub0 := (fs.map (· + pen)).sum + (ts.map (· + pen)).sum
  let rem := (EditMatrix.middle fs ps).map (· + pen)
  let ins := (EditMatrix.middle ts ps).map (· + pen)
  { pre := ps.1, suf := ps.2, flen := fs.length, tlen := ts.length, lb0 := lb0, ub0 := ub0, rem := rem, ins := ins,
    costs := zeroTable (ins.length + 1) (rem.length + 1), paths := zeroTable (ins.length + 1) (rem.length + 1) }

/-- `StringNode(a).edits(StringNode(b))` -/
def mkStr (a b : Str) : M :=
  if a == b then mkConst .match_ 0
  else if a.length == 1 && b.length == 1 then mkConst .match_ 1
  else
    let ps := EditMatrix.trimLens a b
    let ma := EditMatrix.middle a ps
    let mb := EditMatrix.middle b ps
    let cells := mb.zipIdx.map fun (y, r) => ma.zipIdx.map fun (x, c) =>
      M.const { kind := .match_, fi := .at (c + ps.1), ti := .at (r + ps.1) } (if x == y then 0 else 1)
    .str { kind := .str } (.ed { kind := .ed } (edInit ps (a.map fun _ => 1) (b.map fun _ => 1) 0) cells)

/-- `LeafNode.edits` / `StringNode.edits` / `NullNode.edits` -/
def mkLeaf (a : Scalar) (t : Tree) : M :=
  match a, t with
  | .str s, .leaf (.str s') => mkStr s s'
  | a, t => ofLeafScript (leafEdits a t)

/-- `KeyValuePairEdit(f, t)`; `valEdit` is used when the values differ -/
def mkKvp (fk tk : Str) (valuesEqual : Bool) (valEdit : M) : M :=
  let ke := (if fk == tk then mkConst .match_ 0 else mkStr fk tk).relabel (.at 0) (.at 0)
  let ve := (if valuesEqual then mkConst .match_ 0 else valEdit).relabel (.at 1) (.at 1)
  .kvp { kind := .kvp } ke ve

def mkRemove (i size pen : Nat) : M := .const { kind := .remove, fi := .at i } (size + pen)
def mkInsert (i size pen : Nat) : M := .const { kind := .insert, fi := .at i } (size + pen)

/-- `FixedKeyDictNode._child_edits`: shared keys in from-order, then removals, then insertions in to-order.
    `vtbl[i][j]` = machine of `from.value[i].edits(to.value[j])`. -/
def fkPending (fkv tkv : List (Str × Tree)) (vtbl : List (List M)) : List M :=
  let nf := fkv.length
  let shared : List M := (List.range nf).filterMap fun i =>
    let f := fkv.getD i ([], .leaf .null)
    (findKey f.1 tkv 0).map fun j =>
      let t := tkv.getD j ([], .leaf .null)
      if kvEq f t then (mkConst .match_ 0).relabel (.at i) (.at j)
      else (mkKvp f.1 t.1 (f.2.eq t.2) ((vtbl.getD i []).getD j (mkConst .match_ 0))).relabel (.at i) (.at j)
  let rems : List M := (List.range nf).filterMap fun i =>
    let f := fkv.getD i ([], .leaf .null)
    match findKey f.1 tkv 0 with
    | some _ => none
    | none => some (mkRemove i (kvSize f) 1)
  let inss : List M := (List.range tkv.length).filterMap fun j =>
    let t := tkv.getD j ([], .leaf .null)
    match findKey t.1 fkv 0 with
    | some _ => none
    | none => some (mkInsert j (kvSize t) 1)
  shared ++ rems ++ inss

/-- `MultiSetEdit` on two `DictNode`s (cf. L2 `msScript`). `vtbl[i][j]` = machine of `from.value[i].edits(to.value[j])`. -/
def mkMs (amk : Bool) (orc : Orc) (fp tp : List Nat) (fkv tkv : List (Str × Tree)) (vtbl : List (List M)) : M :=
  let nf := fkv.length
  let nt := tkv.length
  let kvE (i j : Nat) : M :=
    let f := fkv.getD i ([], .leaf .null)
    let t := tkv.getD j ([], .leaf .null)
    (mkKvp f.1 t.1 (f.2.eq t.2) ((vtbl.getD i []).getD j (mkConst .match_ 0))).relabel (.at i) (.at j)
  let auto : List (Nat × Nat) :=
    if amk then (List.range nf).filterMap fun i => (findKey (fkv.getD i ([], .leaf .null)).1 tkv 0).map fun j => (i, j)
    else []
  let fLeft := (List.range nf).filter fun i => !(auto.any (·.1 == i))
  let tLeft := (List.range nt).filter fun j => !(auto.any (·.2 == j))
  let hasEqIn (x : Str × Tree) (idxs : List Nat) (l : List (Str × Tree)) : Bool :=
    idxs.any fun j => kvEq x (l.getD j ([], .leaf .null))
  let toMatch := fLeft.filter fun i => hasEqIn (fkv.getD i ([], .leaf .null)) tLeft tkv
  let toRemove := fLeft.filter fun i => !(hasEqIn (fkv.getD i ([], .leaf .null)) tLeft tkv)
  let toInsert := tLeft.filter fun j => !(hasEqIn (tkv.getD j ([], .leaf .null)) fLeft fkv)
  let fps := toRemove.map fun i => fp ++ [i]
  let tps := toInsert.map fun j => tp ++ [j]
  let pairs := sortPairs (orc.assign.lookup fps tps)
  let s : MsSt :=
    { remCosts := toRemove.map fun i => kvSize (fkv.getD i ([], .leaf .null)) + 1,
      insCosts := toInsert.map fun j => kvSize (tkv.getD j ([], .leaf .null)) + 1,
      remIdx := toRemove, insIdx := toInsert,
      nMatch := toMatch.map fun i => (mkMatch 0).relabel (.at i) .same }
  let w : WmSt := { nf := toRemove.length, nt := toInsert.length, assign := pairs, mdCounts := orc.mdLookup fps tps }
  .ms { kind := .ms } s (auto.map fun (i, j) => kvE i j) w
    (toRemove.map fun i => toInsert.map fun j => kvE i j)

/-- `from.edits(to)` as a fresh machine.  `fp` / `tp`: index paths of the two nodes (oracle keys). -/
def mkEdit (o : Opts) (orc : Orc) : List Nat → List Nat → Tree → Tree → M
  | _, _, .leaf a, t => mkLeaf a t
  | fp, tp, .list fcs, .list tcs =>
      if eqL fcs tcs then mkConst .match_ 0
      else if !o.ale || (fcs.length == tcs.length && (!o.alesl || fcs.length == 1)) then
        let n := Nat.min fcs.length tcs.length
        let pairs : List M := fcs.attach.zipIdx.filterMap fun (⟨fc, _⟩, i) =>
          match tcs[i]? with
          | some tc => some ((mkEdit o orc (fp ++ [i]) (tp ++ [i]) fc tc).relabel (.at i) (.at i))
          | none => none
        let rems := (List.range (fcs.length - n)).map fun k => GtModel.mkRemove (n + k) ((fcs.getD (n + k) (.leaf .null)).size) 1
        let inss := (List.range (tcs.length - n)).map fun k => GtModel.mkInsert (n + k) ((tcs.getD (n + k) (.leaf .null)).size) 1
        .fixed { kind := .fixed } pairs (rems ++ inss)
      else
        let pen := if allLeaves fcs && allLeaves tcs && allPositive fcs && allPositive tcs then 0 else 1
        let ps := EditMatrix.trimLens fcs tcs
        let mt := EditMatrix.middle tcs ps
        -- cells[r][c] = from_seq[c].edits(to_seq[r]) on the middle parts
        let cols : List (List M) := fcs.attach.zipIdx.filterMap fun (⟨fc, _⟩, ci) =>
          if ps.1 ≤ ci && ci < fcs.length - ps.2 then
            some (mt.zipIdx.map fun (tc, r) =>
              (mkEdit o orc (fp ++ [ci]) (tp ++ [r + ps.1]) fc tc).relabel (.at ci) (.at (r + ps.1)))
          else none
        let cells : List (List M) := (List.range mt.length).map fun r => cols.filterMap fun col => col[r]?
        .ed { kind := .ed } (edInit ps (fcs.map Tree.size) (tcs.map Tree.size) pen) cells
  | _, _, .list fcs, t => ofLeafScript (mkReplace (sizeL fcs) t.size)
  | fp, tp, .dict fkv, .dict tkv =>
      if (fkv.length == tkv.length && subKV fkv tkv) then mkConst .match_ 0
      else
        let vtbl : List (List M) := fkv.attach.zipIdx.map fun (⟨kv, _⟩, i) =>
          tkv.zipIdx.map fun (tkvj, j) => mkEdit o orc (fp ++ [i, 1]) (tp ++ [j, 1]) kv.2 tkvj.2
        mkMs o.amk orc fp tp fkv tkv vtbl
  | _, _, .dict fkv, t => ofLeafScript (mkReplace (sizeKV fkv) t.size)
  | fp, tp, .fdict fkv, .fdict tkv =>
      if (fkv.length == tkv.length && subKV fkv tkv) then mkConst .match_ 0
      else
        let vtbl : List (List M) := fkv.attach.zipIdx.map fun (⟨kv, _⟩, i) =>
          tkv.zipIdx.map fun (tkvj, j) => mkEdit o orc (fp ++ [i, 1]) (tp ++ [j, 1]) kv.2 tkvj.2
        let pending := fkPending fkv tkv vtbl
        .coll { kind := .fk } { ub0 := sizeKV fkv + 1 + sizeKV tkv, inits := [], pinits := pending.map fun m => (initIv m).hi }
          pending []
  | _, _, .fdict fkv, t => ofLeafScript (mkReplace (sizeKV fkv) t.size)
termination_by _ _ f _ => sizeOf f
decreasing_by
  all_goals simp_wf
  · have := List.sizeOf_lt_of_mem ‹fc ∈ fcs›; omega
  · have := List.sizeOf_lt_of_mem ‹fc ∈ fcs›; omega
  · have h1 := List.sizeOf_lt_of_mem ‹kv ∈ fkv›
    have h2 := sizeOf_snd_lt kv
    omega
  · have h1 := List.sizeOf_lt_of_mem ‹kv ∈ fkv›
    have h2 := sizeOf_snd_lt kv
    omega

/-! ### JSON for the driver -/

def ivCostJson (b : Iv) : Json :=
  if b.lo == b.hi then Json.num (b.hi : Nat)
  else Json.mkObj [("lo", Json.num (b.lo : Nat)), ("hi", Json.num (b.hi : Nat))]

partial def DScript.toJson : DScript → Json
  | .mk k f t c subs =>
      Json.arr #[Json.str k.toString, f.toJson, t.toJson, ivCostJson c, Json.arr (subs.map DScript.toJson).toArray]

def Err.toString : Err → String
  | .fuel => "fuel" | .freed => "freed" | .assertion => "assertion" | .range => "range"
  | .invalidated => "invalidated" | .emptyMin => "emptyMin" | .index => "index" | .oracle => "oracle"
  | .shape => "shape"

def Res.toJson : Res → Json
  | .iv b => b.toJson
  | .bool b => Json.bool b
  | .names none => Json.null
  | .names (some l) => Json.arr (l.map Json.str).toArray
  | .unit => Json.null

def opOfString : String → Except String Op
  | "bounds" => pure .bounds | "tighten" => pure .tighten | "complete" => pure .complete | "valid" => pure .valid
  | "edits" => pure .edits | "nonzero" => pure .nonzero | "ondiff" => pure .onDiff
  | s => throw s!"unknown op {s}"

/-- run the operations one by one so that the results before an error are still reported -/
def runCollect (quiet : Bool) (n : Nat) : M → List Op → List Json → (Option M) × List Json
  | m, [], acc => (some m, acc.reverse)
  | m, op :: rest, acc =>
      match applyOp quiet n n op m with
      | .ok (m1, r) => runCollect quiet n m1 rest (r.toJson :: acc)
      | .error e => (none, (Json.mkObj [("raise", Json.str e.toString)] :: acc).reverse)

def runOne (quiet : Bool) (n : Nat) (m : M) (ops : List Op) : Json :=
  let (m1, results) := runCollect quiet n m ops []
  let final : Json := match m1 with
    | none => Json.null
    | some m1 =>
      match finish quiet n n m1 with
      | .ok (_, d) => (match d with | .mk _ _ _ c _ => Json.mkObj [("cost", ivCostJson c), ("script", d.toJson)])
      | .error e => Json.mkObj [("raise", Json.str e.toString)]
  Json.mkObj [("results", Json.arr results.toArray), ("final", final)]

def mdOfJson (j : Json) : Except String (List MdEntry) := do
  let a ← j.getArr?
  a.toList.mapM fun e => do
    let f ← pathsOfJson (← e.getObjVal? "f")
    let t ← pathsOfJson (← e.getObjVal? "t")
    let cs ← (← e.getObjVal? "counts").getArr?
    let counts ← cs.toList.mapM jsonToNatList
    pure { f := f, t := t, counts := counts }

/-- stream handler `lazy`: {"f","t","ake","amk","ale","alesl","ops":[...],"quiets":[bool...],
    "oracle":[per run: scipy answers],"md":[per run: make_distinct step counts],"fuel":n} -/
def lazyHandler : Handler := fun j => do
  let o ← optsOfJson j
  let f ← docOfJson (← j.getObjVal? "f")
  let t ← docOfJson (← j.getObjVal? "t")
  let opsJ ← getArr j "ops"
  let ops ← opsJ.toList.mapM fun x => do opOfString (← x.getStr?)
  let qs ← getArr j "quiets"
  let quiets ← qs.toList.mapM (·.getBool?)
  let orcs := (getArr j "oracle").toOption.getD #[]
  let mds := (getArr j "md").toOption.getD #[]
  let n := (getNat j "fuel").toOption.getD 100000
  let ft := build o f
  let tt := build o t
  let outs ← quiets.zipIdx.mapM fun (q, i) => do
    let assign ← match orcs[i]? with | some a => oracleOfJson a | none => pure []
    let md ← match mds[i]? with | some a => mdOfJson a | none => pure []
    pure (runOne q n (mkEdit o { assign := assign, md := md } [] [] ft tt) ops)
  pure (Json.arr outs.toArray)

end GtModel.Lazy

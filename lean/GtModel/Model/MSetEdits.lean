/-
  L2m: `MultiSetNode.edits` / `MultiSetEdit` on multisets of ARBITRARY nodes WITH duplicates (library API only:
  `MultiSetNode([...])`; the loaders build multisets only as `DictNode`s of pairs with distinct keys, which L2 covers).
  Elements are L2 trees; element-to-element edits are L2's `edits`.

  Python keeps a multiset as a `HashableCounter` (a dict node → count, keyed by hash / `==`): equal elements share
  ONE key object (the first one), `elements()` = `children()` repeats that object `count` times.  The model
  represents a key by the CLASS of the element: the index of the first element of `from ++ to` that is `==` to it
  (this presumes what Python's dict presumes: `==` on nodes is an equivalence compatible with `hash`; validated by
  stream `scriptmset`).  Counters are then "keys in first-occurrence order + a count function".

  Mirrored, step by step (multiset.py, matching.py):
    to_insert = to_set - from_set; to_remove = from_set - to_set; to_match = from_set & to_set   (`Counter` ops)
    _edits = [Match(n, n, 0) for n in to_match.elements()]
    matcher over (to_remove.elements(), to_insert.elements()); the assignment solver is the ORACLE
    `WeightedBipartiteMatcher.matching` is a dict keyed BY NODE: `{from_nodes[i]: (to_nodes[j], edges[i][j])}` — equal
       from-nodes collide (defect D21): the later pair overwrites the value, the key keeps its first position
    `WeightedBipartiteMatcher.bounds()` caches the first definitive range: before a matching exists it is
       [Σ n smallest row minima, Σ n largest row maxima] (n = min(#from, #to)), afterwards the sum over the dict
    _unmatched_edits: to_remove - Counter(keys of the dict), to_insert - Counter(matched to-nodes)
    bounds() = matcher.bounds() + Σ unmatched edits          (the auto_match_keys loop only touches KeyValuePairNodes:
                                                              none here)
  Lean core only.
-/
import GtModel.Model.Edits

namespace GtModel.MSet
open Lean GtModel

/-! ### classes and counters -/

/-- class of `x` given the elements seen so far: index of the first earlier element `y` with `y == x`
    (a dict lookup compares the EXISTING key with the new one), else its own index -/
def classOf (seen : List Tree) (x : Tree) : Nat := (seen.findIdx? (fun y => y.eq x)).getD seen.length

/-- class of every element of `l`; `pre` = elements (of the other multiset) that come first in the joint numbering -/
def classesFrom (pre : List Tree) : List Tree → List Nat
  | [] => []
  | x :: xs =>
      let c := classOf pre x
      -- the class of an element is the class of its first equal predecessor
      c :: classesFrom (pre ++ [x]) xs

/-- keys of a `Counter` built from a list: first occurrences, in order -/
def firstOcc : List Nat → List Nat
  | [] => []
  | x :: xs => x :: (firstOcc xs).filter (· != x)

/-- `Counter.elements()`: every key repeated `count` times, keys in insertion order -/
def elementsOf (keys : List Nat) (cnt : Nat → Nat) : List Nat := keys.flatMap fun k => List.replicate (cnt k) k

/-- insertion sort (ascending) -/
def insertSorted (x : Nat) : List Nat → List Nat
  | [] => [x]
  | y :: ys => if x ≤ y then x :: y :: ys else y :: insertSorted x ys
def sortNat : List Nat → List Nat
  | [] => []
  | x :: xs => insertSorted x (sortNat xs)

/-- `sum(smallest(l, n))` / `sum(largest(l, n))` -/
def sumSmallest (n : Nat) (l : List Nat) : Nat := ((sortNat l).take n).sum
def sumLargest (n : Nat) (l : List Nat) : Nat := ((sortNat l).reverse.take n).sum

/-- the dict `{from_nodes[a]: (to_nodes[b], edge)}` built from the solver's pairs in order of `a`:
    entries `(key class, b)`.  Dict semantics: a key keeps the position of its FIRST insertion and the value of its
    LAST one — equal from-nodes collide (D21). -/
def collide (remE : List Nat) (pairs : List (Nat × Nat)) : List (Nat × Nat) :=
  let key := fun (p : Nat × Nat) => remE.getD p.1 0
  (firstOcc (pairs.map key)).map fun k => (k, ((pairs.filter fun p => key p == k).getLast?.getD (0, 0)).2)

/-! ### the edit -/

structure Parts where
  fcls : List Nat            -- class of every from-element
  tcls : List Nat
  chF : List Nat             -- `from_node.children()` as classes (= elements() of the from counter)
  chT : List Nat
  matE : List Nat            -- to_match.elements()
  remE : List Nat            -- to_remove.elements() = the matcher's from_nodes
  insE : List Nat            -- to_insert.elements() = the matcher's to_nodes
deriving Repr

def parts (fs ts : List Tree) : Parts :=
  let fcls := classesFrom [] fs
  -- to-elements are numbered after the from-elements: an element equal to a from-element gets that element's class
  let tcls := classesFrom fs ts
  let keysF := firstOcc fcls
  let keysT := firstOcc tcls
  let cF := fun k => fcls.count k
  let cT := fun k => tcls.count k
  { fcls := fcls, tcls := tcls,
    chF := elementsOf keysF cF, chT := elementsOf keysT cT,
    matE := elementsOf keysF (fun k => Nat.min (cF k) (cT k)),
    remE := elementsOf keysF (fun k => cF k - cT k),
    insE := elementsOf keysT (fun k => cT k - cF k) }

/-- `MultiSetEdit(from, to)`; `etbl a b` = script of `rep(remE[a]).edits(rep(insE[b]))` -/
def msGenScript (orc : Oracle) (fp tp : List Nat) (fs ts : List Tree) (p : Parts)
    (etbl : Nat → Nat → Script) : Script :=
  let offF := fun k => p.chF.idxOf k
  let offT := fun k => p.chT.idxOf k
  let sizeF := fun k => (fs.getD (p.fcls.idxOf k) (.leaf .null)).size
  let sizeT := fun k => (ts.getD (p.tcls.idxOf k) (.leaf .null)).size
  let nf := p.remE.length
  let nt := p.insE.length
  let pairs := sortPairs (orc.lookup (p.remE.map fun k => fp ++ [offF k]) (p.insE.map fun k => tp ++ [offT k]))
  let entries := collide p.remE pairs
  let matched := entries.map fun (k, b) =>
    (etbl (p.remE.idxOf k) b).relabel (.at (offF k)) (.at (offT (p.insE.getD b 0)))
  let remLeft := elementsOf (firstOcc p.remE) fun k => p.remE.count k - (if entries.any (·.1 == k) then 1 else 0)
  let insMatched := entries.map fun e => p.insE.getD e.2 0
  let insLeft := elementsOf (firstOcc p.insE) fun k => p.insE.count k - insMatched.count k
  let subs :=
    (p.matE.map fun k => (mkMatch 0).relabel (.at (offF k)) .same)
    ++ matched
    ++ (remLeft.map fun k => mkRemove (offF k) (sizeF k) 1)
    ++ (insLeft.map fun k => mkInsert (offT k) (sizeT k) 1)
  -- `WeightedBipartiteMatcher.bounds()`
  let rows := (List.range nf).map fun a => (List.range nt).map fun b => (etbl a b).cost
  let n := Nat.min nf nt
  let lo := sumSmallest n (rows.map fun r => r.foldl Nat.min (r.headD 0))
  let hi := sumLargest n (rows.map fun r => r.foldl Nat.max 0)
  let matcher :=
    if nf == 0 || nt == 0 then 0
    else if lo == hi then lo                       -- definitive before any matching exists: cached for good
    else sumCosts matched
  let cost := matcher + sumCosts (remLeft.map fun k => mkRemove (offF k) (sizeF k) 1)
    + sumCosts (insLeft.map fun k => mkInsert (offT k) (sizeT k) 1)
  .mk .ms .none .none cost subs

/-- `MultiSetNode(fs).edits(MultiSetNode(ts))`, fully refined -/
def msGeneral (o : Opts) (orc : Oracle) (fp tp : List Nat) (fs ts : List Tree) : Script :=
  let p := parts fs ts
  -- `len == 0 both` or `self._children == node._children` (Counter equality: the same count for every key)
  if (firstOcc (p.fcls ++ p.tcls)).all (fun k => p.fcls.count k == p.tcls.count k) then mkMatch 0
  else
    let offF := fun k => p.chF.idxOf k
    let offT := fun k => p.chT.idxOf k
    let etbl := fun a b =>
      let ka := p.remE.getD a 0
      let kb := p.insE.getD b 0
      edits o orc (fp ++ [offF ka]) (tp ++ [offT kb])
        (fs.getD (p.fcls.idxOf ka) (.leaf .null)) (ts.getD (p.tcls.idxOf kb) (.leaf .null))
    msGenScript orc fp tp fs ts p etbl

/-- `MultiSetNode.calculate_total_size`: Σ (size + 1) · count -/
def msSize (l : List Tree) : Nat := (l.map fun c => c.size + 1).sum

/-! ### JSON for the driver -/

/-- stream `scriptmset` -/
def msetHandler : Handler := fun j => do
  let o ← optsOfJson j
  let f ← docOfJson (← j.getObjVal? "f")
  let t ← docOfJson (← j.getObjVal? "t")
  let orc ← oracleOfJson (← j.getObjVal? "oracle")
  match f, t with
  | .list fd, .list td =>
    let fs := fd.map (build o)
    let ts := td.map (build o)
    let s := msGeneral o orc [] [] fs ts
    let p := parts fs ts
    pure <| Json.mkObj [("script", s.toJson), ("sizes", natListToJson [msSize fs, msSize ts]),
      ("classes", Json.arr #[natListToJson (p.chF.map (p.chF.idxOf ·)), natListToJson (p.chT.map (p.chT.idxOf ·))])]
  | _, _ => throw "scriptmset: both documents must be lists"

end GtModel.MSet

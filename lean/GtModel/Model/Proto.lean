/-
  Line protocol shared by all model streams.
  One JSON object per input line: {"s": <stream name>, ...payload}.  One JSON value per output line.
  This file imports only Lean core (`Lean.Data.Json`), so the driver links as a `lean_exe`.
-/
import Lean.Data.Json

namespace GtModel
open Lean

abbrev Handler := Json → Except String Json

def jErr (msg : String) : Json := Json.mkObj [("model_error", Json.str msg)]

def getNat (j : Json) (k : String) : Except String Nat := do
  let v ← j.getObjVal? k
  v.getNat?

def getInt (j : Json) (k : String) : Except String Int := do
  let v ← j.getObjVal? k
  v.getInt?

def getStr (j : Json) (k : String) : Except String String := do
  let v ← j.getObjVal? k
  v.getStr?

def getBool (j : Json) (k : String) : Except String Bool := do
  let v ← j.getObjVal? k
  v.getBool?

def getArr (j : Json) (k : String) : Except String (Array Json) := do
  let v ← j.getObjVal? k
  v.getArr?

def jsonToIntList (j : Json) : Except String (List Int) := do
  let a ← j.getArr?
  a.toList.mapM (·.getInt?)

def jsonToNatList (j : Json) : Except String (List Nat) := do
  let a ← j.getArr?
  a.toList.mapM (·.getNat?)

def natListToJson (l : List Nat) : Json := Json.arr (l.map (fun n => Json.num (n : Nat))).toArray
def intListToJson (l : List Int) : Json := Json.arr (l.map (fun n => Json.num (JsonNumber.fromInt n))).toArray

end GtModel

/-
  L0: `graphtage.bounds.Infinity` / `Range` — exact mirror.
  A bound is an integer or ±∞.  Only Lean core is imported.
-/
import GtModel.Model.Proto

namespace GtModel
open Lean

inductive Bound where
  | negInf : Bound
  | fin : Int → Bound
  | posInf : Bound
deriving DecidableEq, Repr, Inhabited

namespace Bound

/-- `a < b` as Python evaluates it for `int`/`Infinity` operands. -/
def lt : Bound → Bound → Bool
  | negInf, negInf => false
  | negInf, _ => true
  | fin _, negInf => false
  | fin a, fin b => decide (a < b)
  | fin _, posInf => true
  | posInf, _ => false

def le (a b : Bound) : Bool := lt a b || a == b

/-- `a + b`; `none` models the `ValueError("-∞ + ∞ is undefined")`. -/
def add : Bound → Bound → Option Bound
  | fin a, fin b => some (fin (a + b))
  | negInf, posInf => none
  | posInf, negInf => none
  | negInf, _ => some negInf
  | _, negInf => some negInf
  | posInf, _ => some posInf
  | _, posInf => some posInf

def isFin : Bound → Bool
  | fin _ => true
  | _ => false

def toJson : Bound → Json
  | negInf => Json.str "-inf"
  | posInf => Json.str "inf"
  | fin a => Json.num (JsonNumber.fromInt a)

def ofJson (j : Json) : Except String Bound :=
  match j with
  | Json.str "-inf" => pure negInf
  | Json.str "inf" => pure posInf
  | _ => do let i ← j.getInt?; pure (fin i)

end Bound

structure Range where
  lo : Bound
  hi : Bound
deriving DecidableEq, Repr, Inhabited

namespace Range

/-- `Range(lo, hi)`; `none` models the constructor's `ValueError` when `hi < lo`. -/
def mk? (lo hi : Bound) : Option Range := if Bound.lt hi lo then none else some ⟨lo, hi⟩

def point (n : Int) : Range := ⟨.fin n, .fin n⟩

/-- `Range.__lt__`: upper bound first, then lower bound. -/
def lt (a b : Range) : Bool := Bound.lt a.hi b.hi || (a.hi == b.hi && Bound.lt a.lo b.lo)

def le (a b : Range) : Bool := lt a b || a == b

/-- `a.dominates(b)`  ≡  `a.upper_bound <= b.lower_bound`. -/
def dominates (a b : Range) : Bool := Bound.le a.hi b.lo

/-- `sub in self` (`Range.__contains__`). -/
def contains (self sub : Range) : Bool := Bound.le self.lo sub.lo && Bound.le sub.hi self.hi

def definitive (a : Range) : Bool := a.lo == a.hi && a.lo.isFin

def finite (a : Range) : Bool := a.lo.isFin && a.hi.isFin

def add (a b : Range) : Option Range := do
  let l ← Bound.add a.lo b.lo
  let h ← Bound.add a.hi b.hi
  mk? l h

def toJson (r : Range) : Json := Json.arr #[r.lo.toJson, r.hi.toJson]

def ofJson (j : Json) : Except String Range := do
  let a ← j.getArr?
  if h : a.size = 2 then
    let l ← Bound.ofJson a[0]
    let u ← Bound.ofJson a[1]
    pure ⟨l, u⟩
  else throw "range: expected [lo, hi]"

end Range

/-- stream `range`: {"s":"range","a":[lo,hi],"b":[lo,hi]} ↦ all binary observations. -/
def rangeHandler : Handler := fun j => do
  let a ← Range.ofJson (← j.getObjVal? "a")
  let b ← Range.ofJson (← j.getObjVal? "b")
  let addJ : Json := match Range.add a b with
    | some r => r.toJson
    | none => Json.str "ValueError"
  pure <| Json.mkObj [
    ("lt", Json.bool (Range.lt a b)), ("le", Json.bool (Range.le a b)),
    ("dominates", Json.bool (Range.dominates a b)), ("contains", Json.bool (Range.contains a b)),
    ("eq", Json.bool (a == b)),
    ("definitive", Json.bool a.definitive), ("finite", Json.bool a.finite),
    ("add", addJ)]

end GtModel

/-
  L8: the JSON renderer — what `JSONFormatter.DEFAULT_INSTANCE.print(printer, from_tree.diff(to_tree))` writes,
  as a list of (code point, mark).  Lean core only.

  Mirrors (restricted to trees built by `json.build_tree`):
    tree.py        GraphtageFormatter.print   (edit first — gated by `has_non_zero_cost()` when a NODE is printed
                                               with edits —, then the node's formatter)
    edits.py       Match.print / Replace.print / Remove.print / Insert.print
    sequences.py   SequenceEdit.print, SequenceFormatter.print_SequenceNode (the to_remove/to_insert delimiter counters)
    graphtage.py   KeyValuePairEdit.print (NotImplementedError → the node's formatter), StringFormatter.print_StringEdit
    json.py        JSONFormatter.print_LeafNode / print_KeyValuePairNode, JSONListFormatter, JSONDictFormatter,
                   JSONStringFormatter.escape (= json.dumps per character, ensure_ascii)
    printer.py     strike() / under_plus() / red / green background / the cyan " -> "  ↦  the `Mark` of a character

  The output is canonical: blanks and newlines outside string literals are not produced (join_lists /
  join_dict_items and the indentation only change those; the `render` stream checks this on the real output).

  Which edit belongs to which node after `on_diff` is implicit in the traversal: the script IS the tree of final
  edits, each sub-edit is rendered against the child its indices name.
-/
import GtModel.Model.Edits

namespace GtModel.Render
open GtModel

inductive Mark where
  | plain | removed | inserted | arrow
  | bad       -- never written by graphtage: marks a place where the real code would have raised (index out of range, …)
deriving DecidableEq, Repr, Inhabited

abbrev Out := List (Nat × Mark)

def mk (m : Mark) (s : Str) : Out := s.map fun c => (c, m)

def bad : Out := [(63, .bad)]

/-! ### `json.dumps` of leaves -/

def hexDigit (n : Nat) : Nat := if n < 10 then 48 + n else 87 + n

/-- `\uXXXX` (lower-case hex, as `json.dumps` writes it) -/
def hex4 (n : Nat) : Str :=
  [92, 117, hexDigit (n / 4096 % 16), hexDigit (n / 256 % 16), hexDigit (n / 16 % 16), hexDigit (n % 16)]

/-- `json.dumps(c)[1:-1]` for a one-character string (ensure_ascii=True) -/
def escChar (c : Nat) : Str :=
  if c == 34 then [92, 34]
  else if c == 92 then [92, 92]
  else if c == 10 then [92, 110]
  else if c == 13 then [92, 114]
  else if c == 9 then [92, 116]
  else if c == 8 then [92, 98]
  else if c == 12 then [92, 102]
  else if 32 ≤ c && c ≤ 126 then [c]
  else if c < 65536 then hex4 c
  else hex4 (55296 + (c - 65536) / 1024 % 1024) ++ hex4 (56320 + (c - 65536) % 1024)

def escStr (s : Str) : Str := s.flatMap escChar

def quote (s : Str) : Str := 34 :: (escStr s ++ [34])

/-- `json.dumps(node.object)`; strings go through `print_StringNode` which writes the same text -/
def scalarText : Scalar → Str
  | .null => strOfString "null"
  | .bool true => strOfString "true"
  | .bool false => strOfString "false"
  | .int i => intStr i
  | .float r => r
  | .str s => quote s

/-! ### a node printed without edits -/

mutual
/-- the JSON text of a tree as the formatter writes it when no edit is involved (blanks outside strings dropped) -/
def jsonText : Tree → Str
  | .leaf s => scalarText s
  | .list cs => 91 :: (jsonList true cs ++ [93])
  | .dict kvs => 123 :: (jsonKVs true kvs ++ [125])
  | .fdict kvs => 123 :: (jsonKVs true kvs ++ [125])
def jsonList (first : Bool) : List Tree → Str
  | [] => []
  | c :: cs => (if first then [] else [44]) ++ (jsonText c ++ jsonList false cs)
def jsonKVs (first : Bool) : List (Str × Tree) → Str
  | [] => []
  | (k, v) :: rest => (if first then [] else [44]) ++ (quote k ++ (58 :: jsonText v) ++ jsonKVs false rest)
end

/-- the canonical JSON text of a tree: the rendering of an unedited node -/
def printJson (t : Tree) : Str := jsonText t

/-! ### things an edit can be about: a tree node or a key/value pair node -/

inductive Item where
  | tree (t : Tree)
  | kv (k : Str) (v : Tree)
deriving Inhabited

def Item.text : Item → Str
  | .tree t => jsonText t
  | .kv k v => quote k ++ (58 :: jsonText v)

/-- a node printed without edits: every character carries the mark of the surrounding context (strike /
    under-plus / background colour are properties of the printer context, `Match(child, child, 0)` for every
    child of a sequence never changes them) -/
def Item.plain (m : Mark) (x : Item) : Out := mk m x.text

def Item.children : Item → List Item
  | .tree (.leaf _) => []
  | .tree (.list cs) => cs.map .tree
  | .tree (.dict kvs) => kvs.map fun kv => .kv kv.1 kv.2
  | .tree (.fdict kvs) => kvs.map fun kv => .kv kv.1 kv.2
  | .kv k v => [.tree (.leaf (.str k)), .tree v]

/-- start / end symbol of the sequence formatter that prints the node (`none`: not a sequence node) -/
def Item.brackets : Item → Option (Nat × Nat)
  | .tree (.list _) => some (91, 93)
  | .tree (.dict _) => some (123, 125)
  | .tree (.fdict _) => some (123, 125)
  | _ => none

def arrowOut : Out := mk .arrow [45, 62]

/-! ### `StringFormatter.print_StringEdit` -/

structure StrSt where
  remSeq : Str := []
  addSeq : Str := []
  out : Out := []

def flushSt (st : StrSt) : Out := st.out ++ mk .removed (escStr st.remSeq) ++ mk .inserted (escStr st.addSeq)

/-- one sub-edit of the string's edit distance, as the Python loop classifies it:
    `keep c` = `matched`, `sub r d` = a Match of two different characters (`to_remove` and `to_add` both set),
    `rem r` = only `to_remove`, `ins d` = only `to_add` -/
inductive CharEd where
  | keep (c : Nat) | sub (r d : Nat) | rem (r : Nat) | ins (d : Nat)

def classifyChar (a b : Str) : Script → Option CharEd
  | .mk .match_ (.at i) (.at j) _ _ =>
      match a[i]?, b[j]? with
      | some x, some y => if x == y then some (.keep x) else some (.sub x y)
      | _, _ => none
  | .mk .remove (.at i) _ _ _ => (a[i]?).map .rem
  | .mk .insert (.at j) _ _ _ => (b[j]?).map .ins
  | _ => none

/-- a substitution joins both buffers; anything else flushes them (removed run first, then the added run) and
    starts new ones -/
def strStepC (st : StrSt) : CharEd → StrSt
  | .sub r d => { st with remSeq := st.remSeq ++ [r], addSeq := st.addSeq ++ [d] }
  | .rem r => { remSeq := [r], addSeq := [], out := flushSt st }
  | .ins d => { remSeq := [], addSeq := [d], out := flushSt st }
  | .keep c => { remSeq := [], addSeq := [], out := flushSt st ++ mk .plain (escChar c) }

def strStep (a b : Str) (st : Option StrSt) (s : Script) : Option StrSt :=
  match st, classifyChar a b s with
  | some st, some e => some (strStepC st e)
  | _, _ => none

/-- the text between the quotes -/
def strBody (a b : Str) (subs : List Script) : Out :=
  match subs.foldl (strStep a b) (some {}) with
  | some st => flushSt st
  | none => bad

def strOut (a b : Str) (subs : List Script) : Out := (34, Mark.plain) :: (strBody a b subs ++ [(34, .plain)])

/-! ### `print_SequenceNode`: the delimiter before the item at hand -/

/-- counters after looking at the edit's class and cancelling removals against insertions -/
def bump (k : Kind) (tr ti : Nat) : Nat × Nat :=
  let tr1 := if k == .remove then tr + 1 else tr
  let ti1 := if k == .insert then ti + 1 else ti
  let m := Nat.min tr1 ti1
  (tr1 - m, ti1 - m)

/-- mark of the delimiter written before a non-first item, and the counters after it -/
def delim (tr ti : Nat) : Mark × Nat × Nat :=
  if tr > 0 then (.removed, tr - 1, ti)
  else if ti > 0 then (.inserted, tr, ti - 1)
  else (.plain, tr, ti)

def isSeqKind : Kind → Bool
  | .ed | .fixed | .ms | .fk => true
  | _ => false

/-! ### the traversal -/

/-- the nodes a sub-edit of a sequence edit is about: (from_node, to_node) among the children of the two
    containers.  `Remove`: its from_node (printed struck); `Insert`: ITS from_node is the inserted child of the to
    container; `Match(n, n, 0)` of MultiSetEdit (`ti = same`): the to_node is the from child itself. -/
def resolve (fcs tcs : List Item) (s : Script) : Option (Item × Item) :=
  match s.kind, s.fi, s.ti with
  | .remove, .at i, _ => (fcs[i]?).map fun x => (x, x)
  | .insert, .at j, _ => (tcs[j]?).map fun y => (y, y)
  | _, .at i, .at j =>
      match fcs[i]?, tcs[j]? with
      | some x, some y => some (x, y)
      | _, _ => none
  | _, .at i, .same => (fcs[i]?).map fun x => (x, x)
  | _, _, _ => none

/-- `print_SequenceNode`: start symbol, items, end symbol -/
def seqWrap (f : Item) (body : Out) : Out :=
  match f.brackets with
  | some (o, c) => (o, .plain) :: (body ++ [(c, .plain)])
  | none => bad

mutual
/-- `asEdit = true`: `formatter.print(printer, edit)` for the edit `s` whose from-node is `f` and whose to-node is
    `t` (`Insert`: `f` is the inserted node; `Remove`: `t` is unused).
    `asEdit = false`: the node's own formatter on the edited node `f` whose edit `s` did not pass the
    `has_non_zero_cost()` gate of `GraphtageFormatter.print`: `print_SequenceNode` / `print_KeyValuePairNode` still
    look at the sub-edits, everything else prints the node as it is. -/
def renderEdit (asEdit : Bool) (f t : Item) : Script → Out
  | .mk .match_ _ _ c _ =>
      if asEdit then
        if c > 0 then f.plain .removed ++ arrowOut ++ t.plain .inserted else t.plain .plain
      else f.plain .plain
  | .mk .replace _ _ c _ =>
      if asEdit then
        if c > 0 then f.plain .removed ++ arrowOut ++ t.plain .inserted else t.plain .plain
      else f.plain .plain
  | .mk .remove _ _ _ _ => if asEdit then f.plain .removed else f.plain .plain
  | .mk .insert _ _ _ _ => if asEdit then f.plain .inserted else f.plain .plain
  | .mk .str _ _ _ subs =>
      if asEdit then
        match f, t with
        | .tree (.leaf (.str a)), .tree (.leaf (.str b)) => strOut a b subs
        | _, _ => bad
      else f.plain .plain
  | .mk .kvp _ _ _ subs =>
      -- KeyValuePairEdit.print raises NotImplementedError: print_KeyValuePairNode on the from pair, whose key and
      -- value are printed WITH their own edits (each behind its own has_non_zero_cost() gate)
      match f, t, subs with
      | .kv fk fv, .kv tk tv, [ke, ve] =>
          renderEdit (ke.cost > 0) (.tree (.leaf (.str fk))) (.tree (.leaf (.str tk))) ke
          ++ ((58, .plain) :: renderEdit (ve.cost > 0) (.tree fv) (.tree tv) ve)
      | _, _, _ => bad
  | .mk .ed _ _ _ subs => seqWrap f (renderSubs f.children t.children 0 0 true subs)
  | .mk .fixed _ _ _ subs => seqWrap f (renderSubs f.children t.children 0 0 true subs)
  | .mk .ms _ _ _ subs => seqWrap f (renderSubs f.children t.children 0 0 true subs)
  | .mk .fk _ _ _ subs => seqWrap f (renderSubs f.children t.children 0 0 true subs)
/-- the loop of `print_SequenceNode(from_node)` over `node.edit.edits()` -/
def renderSubs (fcs tcs : List Item) (tr ti : Nat) (first : Bool) : List Script → Out
  | [] => []
  | s :: rest =>
      let b := bump s.kind tr ti
      let d := if first then (Mark.plain, b.1, b.2) else delim b.1 b.2
      (if first then [] else [(44, d.1)]) ++
      (match resolve fcs tcs s with
        | some (x, y) => renderEdit true x y s
        | none => bad)
      ++ renderSubs fcs tcs d.2.1 d.2.2 false rest
end

/-- `JSONFormatter.DEFAULT_INSTANCE.print(printer, from_tree.diff(to_tree))`, `s` the root edit -/
def render (f t : Tree) (s : Script) : Out :=
  renderEdit (s.cost > 0) (.tree f) (.tree t) s

/-! ### driver -/

open Lean

def Mark.toNat : Mark → Nat
  | .plain => 0 | .removed => 1 | .inserted => 2 | .arrow => 3 | .bad => 4

/-- stream `render` -/
def renderHandler : Handler := fun j => do
  let o ← optsOfJson j
  let f ← docOfJson (← j.getObjVal? "f")
  let t ← docOfJson (← j.getObjVal? "t")
  let orc ← oracleOfJson (← j.getObjVal? "oracle")
  let ft := build o f
  let tt := build o t
  let s := edits o orc [] [] ft tt
  let r := render ft tt s
  pure <| Json.mkObj [("c", natListToJson (r.map (·.1))), ("m", natListToJson (r.map (·.2.toNat))),
    ("script", s.toJson)]

end GtModel.Render

/-
  C12 (L8 canonical printing): what the JSON and CSV formatters write for an UNEDITED tree, and readers written as
  specifications of the loaders applied to that text.  Lean core only.

  JSON   `printJson : JVal → List Nat`     mirrors `JSONFormatter` on an unedited tree through `Printer` (no colour):
           `SequenceFormatter.print_SequenceNode` ('[' / '{', items separated by ',' each on its own line, indentation
           of four spaces per level written lazily by `Printer.write` after a `newline()`, closing bracket on its own
           line, `[]` / `{}` for empty containers), `print_KeyValuePairNode` (key, ": ", value),
           `JSONStringFormatter` (`"` + `json.dumps(c)[1:-1]` for every character + `"`, i.e. ensure_ascii escaping:
           \" \\ \n \r \t \b \f, \u00XX for the other characters outside 0x20..0x7e, \uXXXX for the BMP, an escaped
           surrogate pair for astral characters), `print_LeafNode` (`json.dumps(obj)`: null/true/false, decimal
           integers of any size, floats as the literal text CPython's `float.__repr__` produced).
         `readJson : List Nat → Option JVal`  RFC 8259 parser (whitespace, nested arrays/objects, strings with all
           escapes incl. \uXXXX and surrogate pairs exactly like `json.decoder.py_scanstring`, numbers) extended by
           the three literals `NaN`, `Infinity`, `-Infinity` that Python's `json` and JSON5 accept.
  CSV    `printCsv : List (List (List Nat)) → List Nat`  mirrors `CSVFormatter` (cells through
           `csv.writer(...).writerow([cell])` minus its line terminator, i.e. QUOTE_MINIMAL, ',' between cells, a
           newline after every row);  `readCsv` is the state machine of CPython's `_csv.c` reader (default `excel`
           dialect, non-strict) fed with the lines of a file opened in universal-newlines mode.

  Strings are lists of code points.  A Python `str` may hold lone surrogates (0xD800..0xDFFF); `json.loads` never
  produces a high surrogate directly followed by a low one (it combines them), which is the `validStr` invariant.
-/

namespace GtModel.RoundTrip

abbrev Str := List Nat

/-! ## JSON values -/

/-- a number literal with a fraction and/or exponent (`float.__repr__` output), or one of the three special
    literals.  `ip` integer-part digits, `frac` digits after '.', (`[]` = no fraction), `exp` = exponent as
    (sign character or none, digits). -/
inductive FloatLit where
  | num (neg : Bool) (ip : Str) (frac : Str) (exp : Option (Option Nat × Str))
  | nan
  | inf (neg : Bool)
deriving DecidableEq, Repr, Inhabited

mutual
inductive JVal where
  | null
  | bool (b : Bool)
  | int (i : Int)
  | float (f : FloatLit)
  | str (s : Str)
  | arr (xs : JList)
  | obj (kvs : JObj)
inductive JList where
  | nil
  | cons (v : JVal) (t : JList)
inductive JObj where
  | nil
  | cons (k : Str) (v : JVal) (t : JObj)
end

instance : Inhabited JVal := ⟨.null⟩
instance : Inhabited JList := ⟨.nil⟩
instance : Inhabited JObj := ⟨.nil⟩

/-! ## printing -/

/-- decimal digits of a natural number, most significant first (`str(n)`) -/
def natDigits (n : Nat) : Str :=
  if n < 10 then [48 + n] else natDigits (n / 10) ++ [48 + n % 10]
termination_by n
decreasing_by omega

/-- `json.dumps(i)` = `int.__repr__` -/
def intStr (i : Int) : Str :=
  if i < 0 then 45 :: natDigits i.natAbs else natDigits i.natAbs

def hexDigit (n : Nat) : Nat := if n < 10 then 48 + n else 87 + n

/-- `'{0:04x}'.format(u)` for `u < 65536` -/
def hex4 (u : Nat) : Str := [hexDigit (u / 4096), hexDigit (u / 256 % 16), hexDigit (u / 16 % 16), hexDigit (u % 16)]

/-- `JSONStringFormatter.escape(c)` for one character: `json.dumps(c)[1:-1]` (ensure_ascii=True) -/
def escapeChar (c : Nat) : Str :=
  if c = 34 then [92, 34]
  else if c = 92 then [92, 92]
  else if c = 10 then [92, 110]
  else if c = 13 then [92, 114]
  else if c = 9 then [92, 116]
  else if c = 8 then [92, 98]
  else if c = 12 then [92, 102]
  else if 32 ≤ c ∧ c < 127 then [c]
  else if c < 65536 then 92 :: 117 :: hex4 c
  else 92 :: 117 :: hex4 (55296 + (c - 65536) / 1024) ++ 92 :: 117 :: hex4 (56320 + (c - 65536) % 1024)

def printStrBody : Str → Str
  | [] => []
  | c :: s => escapeChar c ++ printStrBody s

/-- `JSONStringFormatter.print_StringNode` -/
def printStr (s : Str) : Str := 34 :: (printStrBody s ++ [34])

def printExp : Option (Option Nat × Str) → Str
  | none => []
  | some (none, ds) => 101 :: ds
  | some (some sg, ds) => 101 :: sg :: ds

def FloatLit.text : FloatLit → Str
  | .num neg ip frac exp =>
      (if neg then [45] else []) ++ ip ++ (if frac = [] then [] else 46 :: frac) ++ printExp exp
  | .nan => [78, 97, 78]
  | .inf false => [73, 110, 102, 105, 110, 105, 116, 121]
  | .inf true => [45, 73, 110, 102, 105, 110, 105, 116, 121]

/-- what `Printer` writes for a `newline()` followed by the next `write` at indentation level `d` -/
def nl (d : Nat) : Str := 10 :: List.replicate (4 * d) 32

mutual
/-- the text of a value printed at indentation level `d` (`SequenceFormatter.print_SequenceNode`: start symbol;
    for item i: ',' if i > 0, newline, item; a newline before the end symbol if there was an item) -/
def printVal (d : Nat) : JVal → Str
  | .null => [110, 117, 108, 108]
  | .bool true => [116, 114, 117, 101]
  | .bool false => [102, 97, 108, 115, 101]
  | .int i => intStr i
  | .float f => f.text
  | .str s => printStr s
  | .arr .nil => [91, 93]
  | .arr (.cons v t) => 91 :: (nl (d + 1) ++ (printVal (d + 1) v ++ (printItems (d + 1) t ++ (nl d ++ [93]))))
  | .obj .nil => [123, 125]
  | .obj (.cons k v t) =>
      123 :: (nl (d + 1) ++ (printStr k ++ 58 :: 32 :: (printVal (d + 1) v ++ (printMembers (d + 1) t ++ (nl d ++ [125])))))
/-- the items after the first one -/
def printItems (d : Nat) : JList → Str
  | .nil => []
  | .cons v t => 44 :: (nl d ++ (printVal d v ++ printItems d t))
/-- the key/value pairs after the first one (`print_KeyValuePairNode`: key, ": ", value) -/
def printMembers (d : Nat) : JObj → Str
  | .nil => []
  | .cons k v t => 44 :: (nl d ++ (printStr k ++ 58 :: 32 :: (printVal d v ++ printMembers d t)))
end

def printJson (v : JVal) : Str := printVal 0 v

/-! ## reading (the specification) -/

def isWs (c : Nat) : Bool := c = 32 || c = 9 || c = 10 || c = 13

def skipWs : Str → Str
  | [] => []
  | c :: t => if isWs c then skipWs t else c :: t

def isDigit (c : Nat) : Bool := 48 ≤ c && c ≤ 57

/-- the longest prefix of digits, and the rest -/
def takeDigits : Str → Str × Str
  | [] => ([], [])
  | c :: t => if isDigit c then ((takeDigits t).1.cons c, (takeDigits t).2) else ([], c :: t)

def digitsToNat (ds : Str) : Nat := ds.foldl (fun a c => a * 10 + (c - 48)) 0

def hexVal (c : Nat) : Option Nat :=
  if 48 ≤ c ∧ c ≤ 57 then some (c - 48)
  else if 97 ≤ c ∧ c ≤ 102 then some (c - 87)
  else if 65 ≤ c ∧ c ≤ 70 then some (c - 55)
  else none

def readHex4 : Str → Option (Nat × Str)
  | a :: b :: c :: d :: rest =>
    match hexVal a, hexVal b, hexVal c, hexVal d with
    | some x, some y, some z, some w => some (((x * 16 + y) * 16 + z) * 16 + w, rest)
    | _, _, _, _ => none
  | _ => none

def isHigh (u : Nat) : Bool := 55296 ≤ u && u ≤ 56319
def isLow (u : Nat) : Bool := 56320 ≤ u && u ≤ 57343

/-- `\uXXXX` with XXXX a low surrogate, at the head of the input -/
def peekLow : Str → Option (Nat × Str)
  | 92 :: 117 :: r =>
    match readHex4 r with
    | some (l, r') => if isLow l then some (l, r') else none
    | none => none
  | _ => none

def simpleEscape (e : Nat) : Option Nat :=
  if e = 34 then some 34 else if e = 92 then some 92 else if e = 47 then some 47
  else if e = 98 then some 8 else if e = 102 then some 12 else if e = 110 then some 10
  else if e = 114 then some 13 else if e = 116 then some 9 else none

/-- the characters of a string literal after its opening quote, up to and including the closing quote
    (`json.decoder.py_scanstring`, strict).  The first argument bounds the number of characters decoded.
    `comb` = an escaped high surrogate directly followed by an escaped low surrogate is one character (Python's
    `json`); the `json5` library does not combine them (`comb = false`). -/
def readStrBody (comb : Bool) : Nat → Str → Option (Str × Str)
  | 0, _ => none
  | _ + 1, [] => none
  | f + 1, c :: rest =>
    if c = 34 then some ([], rest)
    else if c = 92 then
      match rest with
      | [] => none
      | e :: rest' =>
        if e = 117 then
          match readHex4 rest' with
          | none => none
          | some (u, r2) =>
            if comb && isHigh u then
              match peekLow r2 with
              | some (l, r4) =>
                (readStrBody comb f r4).map (fun p => ((65536 + (u - 55296) * 1024 + (l - 56320)) :: p.1, p.2))
              | none => (readStrBody comb f r2).map (fun p => (u :: p.1, p.2))
            else (readStrBody comb f r2).map (fun p => (u :: p.1, p.2))
        else
          match simpleEscape e with
          | some x => (readStrBody comb f rest').map (fun p => (x :: p.1, p.2))
          | none => none
    else if c < 32 then none
    else (readStrBody comb f rest).map (fun p => (c :: p.1, p.2))

/-- a string literal after its opening quote -/
def readStr (comb : Bool) (inp : Str) : Option (Str × Str) := readStrBody comb inp.length inp

/-- the exponent part, if any: `[eE][+-]?[0-9]+` -/
def lexExp : Str → Option (Option (Option Nat × Str) × Str)
  | [] => some (none, [])
  | c :: t =>
    if c = 101 ∨ c = 69 then
      match t with
      | [] => none
      | s :: t' =>
        if s = 43 ∨ s = 45 then
          (if (takeDigits t').1 = [] then none else some (some (some s, (takeDigits t').1), (takeDigits t').2))
        else
          (if (takeDigits t).1 = [] then none else some (some (none, (takeDigits t).1), (takeDigits t).2))
    else some (none, c :: t)

/-- the fraction part, if any: `\.[0-9]+` (returns `[]` when absent) -/
def lexFrac : Str → Option (Str × Str)
  | 46 :: t => if (takeDigits t).1 = [] then none else some ((takeDigits t).1, (takeDigits t).2)
  | r => some ([], r)

/-- integer part `0 | [1-9][0-9]*` -/
def lexIntPart : Str → Option (Str × Str)
  | [] => none
  | c :: t =>
    if c = 48 then some ([48], t)
    else if isDigit c then some (c :: (takeDigits t).1, (takeDigits t).2)
    else none

/-- a number after its optional sign -/
def lexNumber (neg : Bool) (inp : Str) : Option (JVal × Str) :=
  match lexIntPart inp with
  | none => none
  | some (ip, r1) =>
    match lexFrac r1 with
    | none => none
    | some (frac, r2) =>
      match lexExp r2 with
      | none => none
      | some (exp, r3) =>
        if frac = [] ∧ exp = none then
          some (.int (if neg then -(digitsToNat ip : Int) else (digitsToNat ip : Int)), r3)
        else some (.float (.num neg ip frac exp), r3)

def dropPrefix : Str → Str → Option Str
  | [], r => some r
  | _ :: _, [] => none
  | p :: ps, c :: r => if p = c then dropPrefix ps r else none

/-- literals and numbers; the input starts with a non-blank character -/
def lexAtom : Str → Option (JVal × Str)
  | [] => none
  | c :: t =>
    if c = 110 then (dropPrefix [117, 108, 108] t).map (fun r => (.null, r))
    else if c = 116 then (dropPrefix [114, 117, 101] t).map (fun r => (.bool true, r))
    else if c = 102 then (dropPrefix [97, 108, 115, 101] t).map (fun r => (.bool false, r))
    else if c = 78 then (dropPrefix [97, 78] t).map (fun r => (.float .nan, r))
    else if c = 73 then (dropPrefix [110, 102, 105, 110, 105, 116, 121] t).map (fun r => (.float (.inf false), r))
    else if c = 45 then
      match t with
      | 73 :: t' => (dropPrefix [110, 102, 105, 110, 105, 116, 121] t').map (fun r => (.float (.inf true), r))
      | _ => lexNumber true t
    else lexNumber false (c :: t)

mutual
/-- one value, with leading whitespace; the first argument bounds the nesting of calls -/
def parseVal (comb : Bool) : Nat → Str → Option (JVal × Str)
  | 0, _ => none
  | f + 1, inp =>
    match skipWs inp with
    | [] => none
    | c :: rest =>
      if c = 91 then
        match skipWs rest with
        | [] => none
        | c' :: r => if c' = 93 then some (.arr .nil, r) else (parseElems comb f (c' :: r)).map (fun p => (.arr p.1, p.2))
      else if c = 123 then
        match skipWs rest with
        | [] => none
        | c' :: r => if c' = 125 then some (.obj .nil, r) else (parseMembers comb f (c' :: r)).map (fun p => (.obj p.1, p.2))
      else if c = 34 then (readStr comb rest).map (fun p => (.str p.1, p.2))
      else lexAtom (c :: rest)
/-- `value (',' value)* ']'` -/
def parseElems (comb : Bool) : Nat → Str → Option (JList × Str)
  | 0, _ => none
  | f + 1, inp =>
    match parseVal comb f inp with
    | none => none
    | some (v, r) =>
      match skipWs r with
      | [] => none
      | c :: r' =>
        if c = 44 then (parseElems comb f r').map (fun p => (.cons v p.1, p.2))
        else if c = 93 then some (.cons v .nil, r')
        else none
/-- `string ':' value (',' string ':' value)* '}'` -/
def parseMembers (comb : Bool) : Nat → Str → Option (JObj × Str)
  | 0, _ => none
  | f + 1, inp =>
    match skipWs inp with
    | [] => none
    | q :: r0 =>
      if q = 34 then
        match readStr comb r0 with
        | none => none
        | some (k, r1) =>
          match skipWs r1 with
          | [] => none
          | col :: r2 =>
            if col = 58 then
              match parseVal comb f r2 with
              | none => none
              | some (v, r3) =>
                match skipWs r3 with
                | [] => none
                | c :: r4 =>
                  if c = 44 then (parseMembers comb f r4).map (fun p => (.cons k v p.1, p.2))
                  else if c = 125 then some (.cons k v .nil, r4)
                  else none
            else none
      else none
end

/-- a whole document: one value, optionally surrounded by whitespace, nothing else -/
def readDoc (comb : Bool) (inp : Str) : Option JVal :=
  match parseVal comb (inp.length + 1) inp with
  | none => none
  | some (v, r) => if skipWs r = [] then some v else none

/-- Python's `json.load` -/
def readJson (inp : Str) : Option JVal := readDoc true inp

/-- the `json5` library on the JSON subset: escaped surrogate pairs stay two characters -/
def readJson5 (inp : Str) : Option JVal := readDoc false inp

/-! ## well-formedness (the invariant of loaded documents) -/

/-- code points in range, and no high surrogate directly followed by a low surrogate -/
def validStr : Str → Bool
  | [] => true
  | [c] => decide (c < 1114112)
  | a :: b :: t => decide (a < 1114112) && !(isHigh a && isLow b) && validStr (b :: t)

def allDigits (ds : Str) : Bool := ds.all isDigit

/-- `0 | [1-9][0-9]*` -/
def validIntPart : Str → Bool
  | [] => false
  | [c] => isDigit c
  | c :: t => isDigit c && c != 48 && allDigits t

def validExp : Option (Option Nat × Str) → Bool
  | none => true
  | some (sg, ds) => (sg == none || sg == some 43 || sg == some 45) && ds != [] && allDigits ds

/-- the shape of `float.__repr__`: a JSON number literal that has a fraction or an exponent -/
def FloatLit.valid : FloatLit → Bool
  | .num _ ip frac exp => validIntPart ip && allDigits frac && validExp exp && (frac != [] || exp != none)
  | .nan => true
  | .inf _ => true

/-- every code point is in the Basic Multilingual Plane (lone surrogates included) -/
def bmpStr (s : Str) : Bool := s.all (fun c => decide (c < 65536))

mutual
/-- float literals are well formed and every string (keys included) satisfies `P` -/
def JVal.validWith (P : Str → Bool) : JVal → Bool
  | .null => true
  | .bool _ => true
  | .int _ => true
  | .float f => f.valid
  | .str s => P s
  | .arr xs => xs.validWith P
  | .obj kvs => kvs.validWith P
def JList.validWith (P : Str → Bool) : JList → Bool
  | .nil => true
  | .cons v t => v.validWith P && t.validWith P
def JObj.validWith (P : Str → Bool) : JObj → Bool
  | .nil => true
  | .cons k v t => P k && v.validWith P && t.validWith P
end

/-- the invariant of documents loaded by Python's `json` -/
def JVal.valid (v : JVal) : Bool := v.validWith validStr
/-- the sub-domain on which the JSON5 round trip holds -/
def JVal.valid5 (v : JVal) : Bool := v.validWith bmpStr

/-! ## CSV -/

def needsQuote (cell : Str) : Bool := cell = [] || cell.any (fun c => c = 44 || c = 34 || c = 13 || c = 10)

def doubleQuotes : Str → Str
  | [] => []
  | c :: t => if c = 34 then 34 :: 34 :: doubleQuotes t else c :: doubleQuotes t

/-- `csv.writer(s).writerow([cell])` without its line terminator (`CSVFormatter.print_LeafNode`) -/
def printCell (cell : Str) : Str :=
  if needsQuote cell then 34 :: (doubleQuotes cell ++ [34]) else cell

/-- `CSVRowFormatter`: cells separated by ',' -/
def printRow : List Str → Str
  | [] => []
  | [c] => printCell c
  | c :: c' :: t => printCell c ++ 44 :: printRow (c' :: t)

/-- `CSVRows`: every row is followed by a newline -/
def printCsv : List (List Str) → Str
  | [] => []
  | r :: rs => printRow r ++ 10 :: printCsv rs

/-- parser states of `_csv.c` -/
inductive CsvState where
  | startRecord | startField | inField | inQuoted | quoteInQuoted | eatCrnl
deriving DecidableEq, Repr, Inhabited

/-- reader state: `fld`/`flds`/`rows` are accumulated in reverse; `err` = the reader raised `csv.Error` -/
structure Csv where
  st : CsvState := .startRecord
  fld : Str := []
  flds : List Str := []
  rows : List (List Str) := []
  err : Bool := false
deriving Repr, Inhabited

def Csv.saveField (s : Csv) : Csv := { s with fld := [], flds := s.fld.reverse :: s.flds }

def Csv.addChar (s : Csv) (c : Nat) : Csv := { s with fld := c :: s.fld }

/-- `parse_process_char` for an ordinary character (default dialect: ',' '"' doublequote, no escapechar, not
    strict) -/
def Csv.step (s : Csv) (c : Nat) : Csv :=
  let isNl := c = 10 || c = 13
  match s.st with
  | .startRecord =>
    if isNl then { s with st := .eatCrnl }
    else if c = 34 then { s with st := .inQuoted }
    else if c = 44 then { s.saveField with st := .startField }
    else { s.addChar c with st := .inField }
  | .startField =>
    if isNl then { s.saveField with st := .eatCrnl }
    else if c = 34 then { s with st := .inQuoted }
    else if c = 44 then s.saveField
    else { s.addChar c with st := .inField }
  | .inField =>
    if isNl then { s.saveField with st := .eatCrnl }
    else if c = 44 then { s.saveField with st := .startField }
    else s.addChar c
  | .inQuoted =>
    if c = 34 then { s with st := .quoteInQuoted } else s.addChar c
  | .quoteInQuoted =>
    if c = 34 then { s.addChar c with st := .inQuoted }
    else if c = 44 then { s.saveField with st := .startField }
    else if isNl then { s.saveField with st := .eatCrnl }
    else { s.addChar c with st := .inField }
  | .eatCrnl =>
    if isNl then s else { s with err := true }

/-- `parse_process_char(EOL)` at the end of every line, followed by the `while (state != START_RECORD)` test of
    `Reader_iternext`: a record is complete when the state is START_RECORD again -/
def Csv.eol (s : Csv) : Csv :=
  let s' : Csv :=
    match s.st with
    | .startRecord => s
    | .startField => { s.saveField with st := .startRecord }
    | .inField => { s.saveField with st := .startRecord }
    | .inQuoted => s
    | .quoteInQuoted => { s.saveField with st := .startRecord }
    | .eatCrnl => { s with st := .startRecord }
  if s'.st = .startRecord then { s' with flds := [], rows := s'.flds.reverse :: s'.rows } else s'

/-- one character of the (newline-translated) text; a '\n' ends a line -/
def Csv.feed (s : Csv) (c : Nat) : Csv :=
  if c = 10 then (s.step c).eol else s.step c

/-- end of input: a last line without '\n' gets its EOL; an unterminated quoted field is returned as it is -/
def Csv.finish (s : Csv) (lastWasNl : Bool) : Csv :=
  let s1 := if lastWasNl then s else s.eol
  if s1.fld ≠ [] ∨ s1.st = .inQuoted then
    let s2 := s1.saveField
    { s2 with flds := [], rows := s2.flds.reverse :: s2.rows }
  else s1

/-- universal-newlines translation of `open(path)`: "\r\n" and "\r" become "\n" (the flag says that the previous
    character was a '\r', whose '\n' has already been written) -/
def translateAux : Bool → Str → Str
  | _, [] => []
  | afterCr, c :: t =>
    if c = 13 then 10 :: translateAux true t
    else if c = 10 ∧ afterCr = true then translateAux false t
    else c :: translateAux false t

def translateNewlines (t : Str) : Str := translateAux false t

/-- does the text end with a line break (or is it empty)? -/
def lastIsNl (t : Str) : Bool :=
  match t.getLast? with
  | none => true
  | some c => c = 10

/-- `list(csv.reader(open(path)))` on a file with this text; `none` = `csv.Error` -/
def readCsv (text : Str) : Option (List (List Str)) :=
  let t := translateNewlines text
  let s := (t.foldl Csv.feed {}).finish (lastIsNl t)
  if s.err then none else some s.rows.reverse

end GtModel.RoundTrip

/-
  Driver handler of stream `roundtrip` (C12): decodes the harness' tagged document, prints it with the model
  printer and reads the REAL printed text with the model reader.
  in : {"s":"roundtrip","fmt":"json"|"json5"|"csv","doc":<tagged>,"printed":[code points],"comb":bool}
       `comb` = the real loader turns an escaped surrogate pair into one character (probed by the harness: Python's
       `json` always; the JSON5 loader only after its repair)
  out: {"print":[code points], "read":<tagged, mapping keys sorted as the loader does>|null, "valid":bool}
-/
import GtModel.Model.Proto
import GtModel.Model.Tree
import GtModel.Model.RoundTrip

namespace GtModel.RoundTrip
open Lean GtModel

/-- a float arrives as the text `json.dumps` prints; it must lex as a float literal of the model's grammar
    (this validates the assumption about `float.__repr__` on every case) -/
def floatOfText (t : Str) : Except String FloatLit :=
  match lexAtom t with
  | some (.float f, []) => if f.text = t then pure f else throw "float literal does not re-print"
  | _ => throw s!"not a float literal: {t}"

mutual
partial def ofDoc : Doc → Except String JVal
  | .scalar .null => pure .null
  | .scalar (.bool b) => pure (.bool b)
  | .scalar (.int i) => pure (.int i)
  | .scalar (.float t) => do pure (.float (← floatOfText t))
  | .scalar (.str s) => pure (.str s)
  | .list cs => do pure (.arr (← ofDocs cs))
  | .obj kvs => do pure (.obj (← ofKvs kvs))
partial def ofDocs : List Doc → Except String JList
  | [] => pure .nil
  | c :: cs => do pure (.cons (← ofDoc c) (← ofDocs cs))
partial def ofKvs : List (Str × Doc) → Except String JObj
  | [] => pure .nil
  | (k, v) :: rest => do pure (.cons k (← ofDoc v) (← ofKvs rest))
end

mutual
partial def toJson : JVal → Json
  | .null => Json.mkObj [("k", "null")]
  | .bool b => Json.mkObj [("k", "bool"), ("v", Json.bool b)]
  | .int i => Json.mkObj [("k", "int"), ("v", Json.num (JsonNumber.fromInt i))]
  | .float f => Json.mkObj [("k", "float"), ("s", natListToJson f.text)]
  | .str s => Json.mkObj [("k", "str"), ("s", natListToJson s)]
  | .arr xs => Json.mkObj [("k", "list"), ("c", Json.arr (listToJson xs).toArray)]
  | .obj kvs => Json.mkObj [("k", "dict"), ("c", Json.arr (objToJson kvs).toArray)]
partial def listToJson : JList → List Json
  | .nil => []
  | .cons v t => toJson v :: listToJson t
partial def objToJson : JObj → List Json
  | .nil => []
  | .cons k v t => Json.arr #[natListToJson k, toJson v] :: objToJson t
end

/-! `DictNode.from_dict` sorts the key/value pairs of every mapping at load time -/
mutual
partial def sortKeys : JVal → JVal
  | .arr xs => .arr (sortKeysL xs)
  | .obj kvs => .obj (objOfList (sortKV (sortKeysO kvs)))
  | v => v
partial def sortKeysL : JList → JList
  | .nil => .nil
  | .cons v t => .cons (sortKeys v) (sortKeysL t)
partial def sortKeysO : JObj → List (Str × JVal)
  | .nil => []
  | .cons k v t => (k, sortKeys v) :: sortKeysO t
partial def objOfList : List (Str × JVal) → JObj
  | [] => .nil
  | (k, v) :: t => .cons k v (objOfList t)
end

def rowsOfJson (j : Json) : Except String (List (List Str)) := do
  let rows ← getArr j "rows"
  rows.toList.mapM (fun r => do
    let cells ← r.getArr?
    cells.toList.mapM jsonToNatList)

def rowsToJson (rows : List (List Str)) : Json :=
  Json.mkObj [("k", "csv"), ("rows", Json.arr (rows.map (fun r => Json.arr (r.map natListToJson).toArray)).toArray)]

def roundtripHandler : Handler := fun j => do
  let fmt ← getStr j "fmt"
  let printed ← jsonToNatList (← j.getObjVal? "printed")
  let docJ ← j.getObjVal? "doc"
  if fmt == "csv" then
    let rows ← rowsOfJson docJ
    let rd := match readCsv printed with
      | some r => rowsToJson r
      | none => Json.null
    pure (Json.mkObj [("print", natListToJson (printCsv rows)), ("read", rd),
                      ("valid", Json.bool (rows.all (fun r => r.all (fun c => !c.contains 13))))])
  else
    let v ← ofDoc (← docOfJson docJ)
    let comb ← getBool j "comb"
    let rd := match readDoc comb printed with
      | some r => toJson (sortKeys r)
      | none => Json.null
    pure (Json.mkObj [("print", natListToJson (printJson v)), ("read", rd),
                      ("valid", Json.bool (if comb then v.valid else v.valid5))])

end GtModel.RoundTrip

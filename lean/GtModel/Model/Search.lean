/-
  `graphtage.search.IterativeTighteningSearch` over trajectory items.
  The two Fibonacci heaps are abstract: a list of nodes (node id, item, STALE key = `get_range(item)` at push time)
  plus the node that is `_min`.  `push` updates `_min` exactly as the code does (`node < self._min`); after a `pop`
  the new `_min` depends on the heap's internal structure and is an oracle answer `sel k` (k-th pop of the run),
  validated to be a node of minimal key (otherwise the first minimal node is used and `bad` is set).
  Only Lean core + Range + Bounded are imported.
-/
import GtModel.Model.Bounded

namespace GtModel.Bounded
open GtModel

def Bound.min' (a b : Bound) : Bound := if Bound.lt b a then b else a   -- Python `min(a, b)`

structure HEntry where
  nid : Nat
  item : Nat
  key : Range
deriving Repr, DecidableEq

structure Heap where
  es : List HEntry
  min : Option HEntry             -- the node `_min` points to
deriving Repr

namespace Heap
def empty : Heap := ⟨[], none⟩
def isEmpty (h : Heap) : Bool := h.es.isEmpty
def minEntry (h : Heap) : Option HEntry := h.min
/-- `heap.peek()` (no deleted node is ever inside a heap here) -/
def peek (h : Heap) : Option Nat := h.minEntry.map (·.item)
/-- `heap.push(item)` with `key = item.bounds()` now -/
def push (h : Heap) (nid item : Nat) (key : Range) : Heap :=
  match h.min with
  | none => ⟨h.es ++ [⟨nid, item, key⟩], some ⟨nid, item, key⟩⟩
  | some m => ⟨h.es ++ [⟨nid, item, key⟩], if Range.lt key m.key then some ⟨nid, item, key⟩ else some m⟩
/-- is `e` a node of minimal key in `es` ? -/
def isMinIn (es : List HEntry) (e : HEntry) : Bool := es.contains e && es.all (fun x => !Range.lt x.key e.key)
def firstMin : List HEntry → Option HEntry
  | [] => none
  | e :: es => match firstMin es with
    | none => some e
    | some m => if Range.lt m.key e.key then some m else some e
end Heap

structure SS where
  σ : St
  unproc : Option (List Nat)      -- `_unprocessed`: what the iterator will still yield; `none` = `None`
  u : Heap                        -- `_untightened`
  t : Heap                        -- `_tightened`
  next : Nat                      -- fresh node ids
  ib : Range                      -- `initial_bounds`
  pops : Nat                      -- number of heap pops so far (index into the oracle)
  popLog : List Bool              -- which heap each pop was on (true = `_tightened`), newest first
  bad : Bool                      -- an oracle answer was inadmissible
  unsupported : Bool              -- left the modelled domain (an untightened item refused to tighten)
deriving Repr

abbrev Sel := Nat → Option Nat    -- k-th pop ↦ item of the heap's new `_min` (`none`: heap became empty)

def SS.init (σ : St) (ib : Range) : SS :=
  ⟨σ, some (List.range σ.length), Heap.empty, Heap.empty, 0, ib, 0, [], false, false⟩

/-- the heap's `_min` after a pop, from the oracle answer `ans` (item of the new `_min`, `none` = heap empty);
the flag says whether the answer was admissible (a node of minimal key) -/
def newMinOf (es' : List HEntry) (ans : Option Nat) : Option HEntry × Bool :=
  match es' with
  | [] => (none, ans.isNone)
  | _ :: _ =>
    match ans.bind (fun it => es'.find? (fun e => e.item == it)) with
    | some e => if Heap.isMinIn es' e then (some e, true) else (Heap.firstMin es', false)
    | none => (Heap.firstMin es', false)

/-- remove `node` from a heap (`decrease_key(node, -∞); pop()`, or `pop()` when `node` is `_min`) -/
def popNode (sel : Sel) (s : SS) (isT : Bool) (node : HEntry) : SS :=
  let h := if isT then s.t else s.u
  let es' := h.es.erase node
  let r := newMinOf es' (sel s.pops)
  let h' : Heap := ⟨es', r.1⟩
  let s := { s with pops := s.pops + 1, popLog := isT :: s.popLog, bad := s.bad || !r.2 }
  if isT then { s with t := h' } else { s with u := h' }

def pushU (s : SS) (item : Nat) : SS :=
  match curAt s.σ item with
  | none => { s with unsupported := true }
  | some r => { s with u := s.u.push s.next item r, next := s.next + 1 }

def pushT (s : SS) (item : Nat) : SS :=
  match curAt s.σ item with
  | none => { s with unsupported := true }
  | some r => { s with t := s.t.push s.next item r, next := s.next + 1 }

/-- `if item.bounds().definitive(): _tightened.push(item) else: _untightened.push(item)` -/
def pushByDef (s : SS) (item : Nat) : SS :=
  match curAt s.σ item with
  | none => { s with unsupported := true }
  | some r => if r.definitive then pushT s item else pushU s item

/-- `best_match` -/
def bestMatch (s : SS) : Option Nat :=
  if s.unproc.isSome || (s.u.isEmpty && s.t.isEmpty) then none
  else if !s.t.isEmpty && !s.u.isEmpty then
    match s.u.peek, s.t.peek with
    | some x, some y =>
      match curAt s.σ x, curAt s.σ y with
      | some bx, some by' => if Range.lt bx by' then some x else some y
      | _, _ => none
    | _, _ => none
  else if !s.t.isEmpty then s.t.peek
  else s.u.peek

/-- the minimum stale lower bound over all nodes of both heaps (`POSITIVE_INFINITY` when there is none) -/
def staleLb (s : SS) : Bound :=
  (s.u.es ++ s.t.es).foldl (fun lb e => Bound.min' e.key.lo lb) .posInf

/-- `bounds()` -/
def boundsOf (s : SS) : Range :=
  match bestMatch s with
  | none => s.ib
  | some b =>
    match curAt s.σ b with
    | none => s.ib
    | some bb =>
      let lb0 := staleLb s
      let lb := if lb0 == .posInf || Bound.lt lb0 s.ib.lo then s.ib.lo else lb0
      ⟨Bound.min' lb bb.hi, bb.hi⟩

/-- `goal_test()` -/
def goalTest (s : SS) : Bool :=
  if s.unproc.isSome then false
  else match bestMatch s with
    | none => false
    | some b => match curAt s.σ b with
      | none => false
      | some bb => bb.dominates (boundsOf s)

/-- `self.best_match is not None and self.best_match != item and self.best_match.bounds().dominates(b)` -/
def dominatedByBest (s : SS) (item : Nat) (b : Range) : Bool :=
  match bestMatch s with
  | none => false
  | some bm => bm != item && (match curAt s.σ bm with
    | some bb => bb.dominates b
    | none => false)

/-- `_update_bounds(node)` after `node.item` was tightened -/
def updateBounds (sel : Sel) (s : SS) (node : HEntry) : SS :=
  match curAt s.σ node.item with
  | none => { s with unsupported := true }
  | some b =>
    if dominatedByBest s node.item b then popNode sel s false node
    else if s.ib.dominates b then popNode sel s false node
    else if b.definitive then pushT (popNode sel s false node) node.item
    else if Bound.lt node.key.lo b.lo then pushU (popNode sel s false node) node.item
    else s

inductive StepRes where
  | ret (b : Bool) (s : SS)
  | cont (s : SS)

/-- the `if self._unprocessed is not None:` block; `some true` = the early `return True` -/
def intake (s : SS) : Option Bool × SS :=
  match s.unproc with
  | none => (none, s)
  | some [] => (none, { s with unproc := none })
  | some (k :: ks) =>
    match curAt s.σ k with
    | none => (none, { s with unproc := some ks, unsupported := true })
    | some bk =>
      if Bound.lt .negInf s.ib.lo && Bound.le bk.hi s.ib.lo then
        (some true, pushByDef { s with unproc := none, u := Heap.empty, t := Heap.empty } k)
      else (none, pushByDef { s with unproc := some ks } k)

/-- the `if len(self._untightened) == 1:` block -/
def lenOne (s : SS) : SS :=
  if s.u.es.length == 1 then
    match s.u.peek with
    | none => { s with unsupported := true }
    | some x =>
      let r := tightenAt s.σ x
      let s1 := { s with σ := r.2 }
      match curAt r.2 x with
      | none => { s1 with unsupported := true }
      | some bx => if r.1 && bx.definitive then pushT { s1 with u := Heap.empty } x else s1
  else s

/-- the bounds moved with respect to `starting_bounds` -/
def boundsMoved (start : Range) (s : SS) : Bool :=
  Bound.lt start.lo (boundsOf s).lo || Bound.lt (boundsOf s).hi start.hi

/-- the end of an iteration of the `while True` of `tighten_bounds` -/
def tbFin (start : Range) (s : SS) (tightened : Bool) : StepRes :=
  if boundsMoved start s then .ret true s
  else if s.unproc.isNone && !tightened then .ret false s
  else .cont s

/-- the part of an iteration after the intake block -/
def tbBody (sel : Sel) (start : Range) (s : SS) : StepRes :=
  if s.u.isEmpty then tbFin start s false
  else
    let s1 := if s.unproc.isNone then lenOne s else s
    if s.unproc.isNone && goalTest s1 then
      match bestMatch s1 with
      | none => .ret false { s1 with unsupported := true }
      | some best =>
        let r := tightenAt s1.σ best
        .ret r.1 (pushByDef { s1 with σ := r.2, u := Heap.empty, t := Heap.empty } best)
    else
      match s1.u.minEntry with
      | none => .ret false { s1 with unsupported := true }      -- `list(None)`: TypeError in Python; unreachable
      | some node =>
        let r := tightenAt s1.σ node.item
        if r.1 then tbFin start (updateBounds sel { s1 with σ := r.2 } node) true
        else .ret false { s1 with σ := r.2, unsupported := true }

/-- one iteration of the `while True` of `tighten_bounds` -/
def tbIter (sel : Sel) (start : Range) (s0 : SS) : StepRes :=
  match intake s0 with
  | (some b, s) => .ret b s
  | (none, s) => tbBody sel start s

def tbLoop (sel : Sel) (start : Range) : Nat → SS → Option (Bool × SS)
  | 0, _ => none
  | f + 1, s =>
    match tbIter sel start s with
    | .ret b s' => some (b, s')
    | .cont s' => tbLoop sel start f s'

/-- the progress measure of the search -/
def SS.measure (s : SS) : Nat :=
  total s.σ + (match s.unproc with | some l => l.length + 1 | none => 0)

/-- `tighten_bounds()`; `none` = out of fuel (never: theorem) -/
def tightenBounds (sel : Sel) (s : SS) : Option (Bool × SS) :=
  tbLoop sel (boundsOf s) (s.measure + 1) s

def searchLoop (sel : Sel) : Nat → SS → Option SS
  | 0, _ => none
  | f + 1, s =>
    match tightenBounds sel s with
    | none => none
    | some (true, s') => searchLoop sel f s'
    | some (false, s') => some s'

/-- `search()`: the final state; the result is `bestMatch` of it -/
def search (sel : Sel) (s : SS) : Option SS := searchLoop sel (s.measure + 2) s

/-- `remove_best()` -/
def removeBest (sel : Sel) (s : SS) : Option Nat × SS :=
  if s.unproc.isSome || (s.u.isEmpty && s.t.isEmpty) then (none, s)
  else
    let useT : Bool :=
      if !s.t.isEmpty && !s.u.isEmpty then
        match s.u.peek, s.t.peek with
        | some x, some y =>
          match curAt s.σ x, curAt s.σ y with
          | some bx, some by' => !Range.lt bx by'
          | _, _ => true
        | _, _ => true
      else !s.t.isEmpty
    let h := if useT then s.t else s.u
    match h.minEntry with
    | none => (none, { s with unsupported := true })
    | some e => (some e.item, popNode sel s useT e)

/-! ## JSON driver -/
open Lean

def snapJson (ret : Json) (s : SS) : Json :=
  Json.arr #[ret, (boundsOf s).toJson, optNatJson (bestMatch s), Json.bool (goalTest s)]

/-- `steps`: the search loop written out, observing after every call -/
def stepsLoop (sel : Sel) : Nat → SS → List Json → Except String (SS × List Json)
  | 0, _, _ => throw "steps: fuel"
  | f + 1, s, acc =>
    match tightenBounds sel s with
    | none => throw "tighten_bounds: fuel"
    | some (b, s') =>
      let acc := snapJson (Json.bool b) s' :: acc
      if b then stepsLoop sel f s' acc else pure (s', acc)

/-- the ordering loop from the docstring of `remove_best` -/
def drainInner (sel : Sel) : Nat → SS → Except String SS
  | 0, _ => throw "drain: fuel"
  | f + 1, s =>
    if goalTest s then pure s
    else match tightenBounds sel s with
      | none => throw "tighten_bounds: fuel"
      | some (b, s') => if b then drainInner sel f s' else pure s'

def drainTail (sel : Sel) : Nat → SS → List (Option Nat) → Except String (SS × List (Option Nat))
  | 0, _, _ => throw "drain: fuel"
  | f + 1, s, out =>
    if goalTest s then
      let r := removeBest sel s
      drainTail sel f r.2 (r.1 :: out)
    else pure (s, out)

def drainOuter (sel : Sel) : Nat → SS → List (Option Nat) → Except String (SS × List (Option Nat))
  | 0, _, _ => throw "drain: fuel"
  | f + 1, s, out =>
    match tightenBounds sel s with
    | none => throw "tighten_bounds: fuel"
    | some (false, s') => drainTail sel (s'.u.es.length + s'.t.es.length + 2) s' out
    | some (true, s') => do
      let s2 ← drainInner sel (s'.measure + 2) s'
      if goalTest s2 then
        let r := removeBest sel s2
        drainOuter sel f r.2 (r.1 :: out)
      else drainOuter sel f s2 out

def parseOrc (j : Json) : Except String (List (Bool × Option Nat)) := do
  let a ← j.getArr?
  a.toList.mapM fun e => do
    match (← e.getArr?).toList with
    | [Json.str tag, v] =>
      let m : Option Nat ← (if v.isNull then pure none else do pure (some (← v.getNat?)))
      pure (tag == "t", m)
    | _ => throw "bad orc entry"

def oracleStatus (orc : List (Bool × Option Nat)) (s : SS) : Json :=
  if s.unsupported then Json.str "unsupported"
  else if s.bad then Json.str "inadmissible"
  else if s.popLog.reverse != orc.map (·.1) then Json.str "pop sequence differs"
  else Json.str "ok"

def searchCore (op : String) (σ : St) (j : Json) : Except String Json := do
  let ibj ← j.getObjVal? "ib"
  let ib : Range ← (if ibj.isNull then pure ⟨.negInf, .posInf⟩ else Range.ofJson ibj)
  let orc ← parseOrc (← j.getObjVal? "orc")
  let sel : Sel := fun k => match orc[k]? with
    | some p => p.2
    | none => none
  let s0 := SS.init σ ib
  match op with
  | "search" =>
    match search sel s0 with
    | none => throw "search: fuel"
    | some s =>
      pure <| Json.mkObj (("res", optNatJson (bestMatch s)) :: ("bounds", (boundsOf s).toJson)
        :: ("oracle", oracleStatus orc s) :: stateJson s.σ)
  | "steps" =>
    let (s, acc) ← stepsLoop sel (s0.measure + 2) s0 [snapJson Json.null s0]
    pure <| Json.mkObj (("res", optNatJson (bestMatch s)) :: ("bounds", (boundsOf s).toJson)
      :: ("steps", Json.arr acc.reverse.toArray) :: ("oracle", oracleStatus orc s) :: stateJson s.σ)
  | "drain" =>
    let (s, out) ← drainOuter sel (s0.measure + σ.length + 2) s0 []
    pure <| Json.mkObj (("out", Json.arr (out.reverse.map optNatJson).toArray)
      :: ("oracle", oracleStatus orc s) :: stateJson s.σ)
  | _ => throw s!"unknown op {op}"

def boundedHandler : Handler := fun j => do
  let op ← getStr j "op"
  let σ ← itemsOfJson (← j.getObjVal? "items")
  if op == "search" || op == "steps" || op == "drain" then searchCore op σ j else boundedCore op σ j

end GtModel.Bounded

/-
  L1: documents and graphtage trees as built by `graphtage.json.build_tree` (JSON, JSON5, YAML and
  PLIST loaders all end there).  Lean core only.

  * `Doc`   : the Python value handed to `build_tree` (objects keep their insertion order).
  * `Tree`  : the node tree.  `leaf` = LeafNode subclasses, `list` = ListNode, `dict` = DictNode
              (children are KeyValuePairNodes, stored in the sorted order `DictNode.from_dict` gives),
              `fdict` = FixedKeyDictNode (insertion order).  A key/value pair is `(key, value)` with
              the key a string (JSON object keys), stored as its list of code points.
  Strings are lists of code points (`Nat`) so that no escaping layer sits between Python and Lean.
-/
import GtModel.Model.Proto

namespace GtModel
open Lean

abbrev Str := List Nat

inductive Scalar where
  | null
  | bool (b : Bool)
  | int (i : Int)
  | float (repr : Str)     -- Python's `str(x)`, shipped by the harness; floats are opaque tokens
  | str (s : Str)
deriving DecidableEq, Repr, Inhabited

inductive Doc where
  | scalar (s : Scalar)
  | list (cs : List Doc)
  | obj (kvs : List (Str × Doc))
deriving Repr, Inhabited

inductive Tree where
  | leaf (s : Scalar)
  | list (cs : List Tree)
  | dict (kvs : List (Str × Tree))
  | fdict (kvs : List (Str × Tree))
deriving Repr, Inhabited

structure Opts where
  ake : Bool := true      -- allow_key_edits
  amk : Bool := true      -- auto_match_keys
  ale : Bool := true      -- allow_list_edits
  alesl : Bool := true    -- allow_list_edits_when_same_length
deriving Repr, Inhabited, DecidableEq

/-! ### `str(obj)` -/

def strOfString (s : String) : Str := s.toList.map Char.toNat

def natDigits (n : Nat) : Str := strOfString (toString n)

/-- Python `str(i)` for an `int`. -/
def intStr (i : Int) : Str :=
  if i < 0 then 45 :: natDigits i.natAbs else natDigits i.natAbs

/-- `str(node.object)` as `LeafNode.edits` / `calculate_total_size` see it. -/
def Scalar.pyStr : Scalar → Str
  | .null => strOfString "None"
  | .bool true => strOfString "True"
  | .bool false => strOfString "False"
  | .int i => intStr i
  | .float r => r
  | .str s => s

/-- `LeafNode.__eq__` (after the bool/number fix) and `NullNode.__eq__`.  Numerically equal
    int/float pairs are outside the domain: a `float` leaf is never integral here. -/
def Scalar.eq : Scalar → Scalar → Bool
  | .null, .null => true
  | .bool a, .bool b => a == b
  | .int a, .int b => a == b
  | .float a, .float b => a == b
  | .str a, .str b => a == b
  | _, _ => false

def Scalar.isStr : Scalar → Bool
  | .str _ => true
  | _ => false

/-! ### lexicographic order on code-point lists = Python's `str.__lt__` -/

def strLt : Str → Str → Bool
  | [], [] => false
  | [], _ :: _ => true
  | _ :: _, [] => false
  | a :: as, b :: bs => if a < b then true else if b < a then false else strLt as bs

/-- insertion of one pair into a key-sorted list; a later equal key goes after (stable) -/
def insertKV {α : Type} (k : Str) (v : α) : List (Str × α) → List (Str × α)
  | [] => [(k, v)]
  | (k', v') :: rest => if strLt k k' then (k, v) :: (k', v') :: rest else (k', v') :: insertKV k v rest

/-- `sorted(kvps)` on distinct string keys (insertion sort; for distinct keys every correct sort agrees) -/
def sortKV {α : Type} : List (Str × α) → List (Str × α)
  | [] => []
  | (k, v) :: rest => insertKV k v (sortKV rest)

/-! ### `build_tree` -/

def build (o : Opts) : Doc → Tree
  | .scalar s => .leaf s
  | .list cs => .list (buildL o cs)
  | .obj kvs => if o.ake then .dict (sortKV (buildKV o kvs)) else .fdict (buildKV o kvs)
where
  buildL (o : Opts) : List Doc → List Tree
    | [] => []
    | c :: cs => build o c :: buildL o cs
  buildKV (o : Opts) : List (Str × Doc) → List (Str × Tree)
    | [] => []
    | (k, v) :: rest => (k, build o v) :: buildKV o rest

/-! ### `total_size` -/

mutual
def Tree.size : Tree → Nat
  | .leaf .null => 0
  | .leaf s => s.pyStr.length
  | .list cs => sizeL cs
  | .dict kvs => sizeKV kvs
  | .fdict kvs => sizeKV kvs
def sizeL : List Tree → Nat
  | [] => 0
  | c :: cs => (c.size + 1) + sizeL cs
def sizeKV : List (Str × Tree) → Nat
  | [] => 0
  | (k, v) :: rest => ((k.length + v.size + 2) + 1) + sizeKV rest
end

/-- `KeyValuePairNode.total_size` -/
def kvSize (kv : Str × Tree) : Nat := kv.1.length + kv.2.size + 2

def Tree.isLeaf : Tree → Bool
  | .leaf _ => true
  | _ => false

/-! ### node equality (`__eq__`) -/

mutual
/-- `a == b` on nodes. Lists: element-wise; `DictNode`: equal multisets of pairs (keys are distinct, so:
    same length and every pair of `a` has an equal pair in `b`); `FixedKeyDictNode`: same. -/
def Tree.eq : Tree → Tree → Bool
  | .leaf a, .leaf b => a.eq b
  | .list as, .list bs => eqL as bs
  | .dict as, .dict bs => as.length == bs.length && subKV as bs
  | .fdict as, .fdict bs => as.length == bs.length && subKV as bs
  | _, _ => false
def eqL : List Tree → List Tree → Bool
  | [], [] => true
  | a :: as, b :: bs => a.eq b && eqL as bs
  | _, _ => false
/-- every pair of the first list has a pair with the same key and an equal value in the second -/
def subKV : List (Str × Tree) → List (Str × Tree) → Bool
  | [], _ => true
  | (k, v) :: rest, bs => findKV k v bs && subKV rest bs
def findKV (k : Str) (v : Tree) : List (Str × Tree) → Bool
  | [] => false
  | (k', v') :: rest => (k == k' && v.eq v') || findKV k v rest
end

def kvEq (a b : Str × Tree) : Bool := a.1 == b.1 && a.2.eq b.2

/-! ### JSON decoding of the harness' document encoding -/

def strOfJson (j : Json) : Except String Str := jsonToNatList j

partial def docOfJson (j : Json) : Except String Doc := do
  let k ← getStr j "k"
  match k with
  | "null" => pure (.scalar .null)
  | "bool" => pure (.scalar (.bool (← getBool j "v")))
  | "int" => pure (.scalar (.int (← getInt j "v")))
  | "float" => pure (.scalar (.float (← strOfJson (← j.getObjVal? "s"))))
  | "str" => pure (.scalar (.str (← strOfJson (← j.getObjVal? "s"))))
  | "list" => do
      let cs ← getArr j "c"
      pure (.list (← cs.toList.mapM docOfJson))
  | "dict" => do
      let cs ← getArr j "c"
      let kvs ← cs.toList.mapM (fun p => do
        let a ← p.getArr?
        if h : a.size = 2 then
          let k ← strOfJson a[0]
          let v ← docOfJson a[1]
          pure (k, v)
        else throw "dict entry: expected [key, value]")
      pure (.obj kvs)
  | other => throw s!"unknown doc kind {other}"

def optsOfJson (j : Json) : Except String Opts := do
  pure { ake := (← getBool j "ake"), amk := (← getBool j "amk"), ale := (← getBool j "ale"), alesl := (← getBool j "alesl") }

end GtModel

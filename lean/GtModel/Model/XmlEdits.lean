/-
  L2x: static edit semantics of XML / HTML elements (`graphtage.xml`; `class HTML(XML)` uses the same builder and
  node classes) on top of the L2 model (`GtModel.edits`).  Mirrors
    xml.build_tree                       (`xbuild`)
    XMLElement.__eq__ / calculate_total_size / children()
    XMLElement.edits → Match | XMLElementEdit
    XMLElementEdit  = [tag edit, attrib edit, optional text edit, child edit], bounds = sum of the parts
    XMLElementChildren (a ListNode carrying the two list options of the BuildOptions the tree was built with)
      .edits → Match | FixedLengthSequenceEdit | EditDistance (penalty 1)
  The tag / text edits are `strEdits`, the attribute edit is the L2 `edits` on the attribute mapping (a `Tree`):
  nothing of L2 is re-modelled.  Lean core only.
-/
import GtModel.Model.Edits

namespace GtModel.Xml
open Lean GtModel
open GtModel.EditMatrix (Move solve located trimLens middle)

/-! ### documents and trees -/

/-- what `xml.etree.ElementTree` hands to `build_tree`: tag, attributes in document order, `text` (the text before
    the first child), `tail` (the text between this element's end tag and the next sibling / the parent's end tag),
    child elements.  `build_tree` never reads `tail` (defect D23: mixed content after a child element is lost). -/
inductive XDoc where
  | mk (tag : Str) (attrib : List (Str × Str)) (text tail : Option Str) (children : List XDoc)
deriving Repr, Inhabited

/-- `XMLElement`: tag (a StringNode), attrib (a DictNode or FixedKeyDictNode — any L2 tree here), optional text
    (a StringNode), `_children` (XMLElementChildren) -/
inductive XTree where
  | mk (tag : Str) (attrib : Tree) (text : Option Str) (children : List XTree)
deriving Repr, Inhabited

namespace XTree
def tag : XTree → Str | mk t _ _ _ => t
def attrib : XTree → Tree | mk _ a _ _ => a
def text : XTree → Option Str | mk _ _ x _ => x
def children : XTree → List XTree | mk _ _ _ c => c
end XTree

/-- the Python dict `{StringNode(k): StringNode(v)}` handed to `DictNode.from_dict` / `FixedKeyDictNode.from_dict`,
    as the document `json.build_tree` would be given -/
def attrDoc (a : List (Str × Str)) : Doc := .obj (a.map fun kv => (kv.1, .scalar (.str kv.2)))

/-- `if root.text: text = StringNode(root.text) else: text = None` -/
def buildText : Option Str → Option Str
  | some [] => none
  | t => t

/-- `xml.build_tree`: the attribute mapping is built exactly like a JSON object of strings (sorted `DictNode`
    carrying `auto_match_keys`, or insertion-ordered `FixedKeyDictNode` when key edits are off) -/
def xbuild (o : Opts) : XDoc → XTree
  | .mk tag a text _tail cs => .mk tag (build o (attrDoc a)) (buildText text) (xbuildL o cs)
where
  xbuildL (o : Opts) : List XDoc → List XTree
    | [] => []
    | c :: cs => xbuild o c :: xbuildL o cs

/-! ### `str.strip()` -/

/-- the code points `str.isspace()` accepts (= what `str.strip()` without argument removes);
    validated exhaustively over all 0x110000 code points by stream `scriptxml` (kind `space`) -/
def isPySpace (c : Nat) : Bool :=
  (9 ≤ c && c ≤ 13) || (28 ≤ c && c ≤ 32) || c == 133 || c == 160 || c == 5760 || (8192 ≤ c && c ≤ 8202)
    || c == 8232 || c == 8233 || c == 8239 || c == 8287 || c == 12288

def lstrip (s : Str) : Str := s.dropWhile isPySpace

/-- `s.strip()` -/
def strip (s : Str) : Str := (lstrip (lstrip s).reverse).reverse

/-- the text as `XMLElement.__eq__` compares it: `text.object.strip()`, `''` when there is no text -/
def eqText : Option Str → Str
  | some s => strip s
  | none => []

/-! ### size and equality -/

mutual
/-- `XMLElement.calculate_total_size` -/
def XTree.size : XTree → Nat
  | .mk tag a text cs => (match text with | some s => s.length | none => 0) + tag.length + a.size + xsizeL cs
/-- `XMLElementChildren.total_size` (a ListNode): Σ (child size + 1) -/
def xsizeL : List XTree → Nat
  | [] => 0
  | c :: cs => (c.size + 1) + xsizeL cs
end

mutual
/-- `self == other` for two `XMLElement`s, in the evaluation order of `XMLElement.__eq__`:
    `other.tag == self.tag and other.attrib == self.attrib and other_text == my_text and
     other._children == self._children` (the tuple comparison calls `other_child == self_child`). -/
def XTree.eq : XTree → XTree → Bool
  | .mk stag sattr stext scs, .mk otag oattr otext ocs =>
      otag == stag && oattr.eq sattr && eqText otext == eqText stext && xeqL ocs scs
termination_by a b => sizeOf a + sizeOf b
/-- tuple equality of two child tuples -/
def xeqL : List XTree → List XTree → Bool
  | [], [] => true
  | a :: as, b :: bs => a.eq b && xeqL as bs
  | _, _ => false
termination_by as bs => sizeOf as + sizeOf bs
end

instance : BEq XTree := ⟨XTree.eq⟩

/-- filler for out-of-range reads (never reached: every read is guarded by a length) -/
def dX : XTree := .mk [] (.leaf .null) none []

/-! ### scripts -/

inductive XKind where
  | match_ | remove | insert | elem | fixed | ed
deriving DecidableEq, Repr, Inhabited

/-- an edit script over elements: `emb` = an L2 script (tag, attribute and text edits, with their own labels);
    `mk` = Match / Remove / Insert of an element, `XMLElementEdit` (`elem`), and the two list edits over
    `XMLElementChildren` (`fixed` = FixedLengthSequenceEdit, `ed` = EditDistance).
    `fi` / `ti` as in `Script`: index of the edit's from- and to-node in its parent's `children()`. -/
inductive XScript where
  | emb (s : Script)
  | mk (kind : XKind) (fi ti : Ix) (cost : Nat) (subs : List XScript)
deriving Repr, Inhabited

namespace XScript
def cost : XScript → Nat
  | emb s => s.cost
  | mk _ _ _ c _ => c
def fi : XScript → Ix
  | emb s => s.fi
  | mk _ f _ _ _ => f
def ti : XScript → Ix
  | emb s => s.ti
  | mk _ _ t _ _ => t
def subs : XScript → List XScript
  | emb _ => []
  | mk _ _ _ _ s => s
/-- an `Insert` edit (its from_node is the inserted node) -/
def isInsert : XScript → Bool
  | emb s => s.kind == .insert
  | mk k _ _ _ _ => k == .insert
def isRemove : XScript → Bool
  | emb s => s.kind == .remove
  | mk k _ _ _ _ => k == .remove
def relabel (s : XScript) (f t : Ix) : XScript :=
  match s with
  | emb s => emb (s.relabel f t)
  | mk k _ _ c subs => mk k f t c subs
end XScript

def xsum (l : List XScript) : Nat := (l.map XScript.cost).sum

def xMatch (c : Nat) : XScript := .mk .match_ .none .none c []
def xRemove (i size pen : Nat) : XScript := .mk .remove (.at i) .none (size + pen) []
def xInsert (i size pen : Nat) : XScript := .mk .insert (.at i) .none (size + pen) []
def xCompound (k : XKind) (subs : List XScript) : XScript := .mk k .none .none (xsum subs) subs

/-! ### the parts of an `XMLElementEdit` -/

/-- index of `_children` in `XMLElement.children()` = (tag, attrib, [text], _children) -/
def kidsIx (text : Option Str) : Nat := if text.isSome then 3 else 2

/-- `self.text_edit` -/
def textEdit (ft tt : Option Str) : Option Script :=
  match ft, tt with
  | some a, some b => some ((strEdits a b).relabel (.at 2) (.at 2))
  | none, some b => some (mkInsert 2 b.length 1)        -- Insert(to_insert=to_node.text, insert_into=from_node)
  | some a, none => some (mkRemove 2 a.length 1)        -- Remove(to_remove=from_node.text, remove_from=from_node)
  | none, none => none

/-- `FixedLengthSequenceEdit` over two child tuples; `tbl[c][r]` = script of `from[c].edits(to[r])` -/
def kidsFixed (fcs tcs : List XTree) (tbl : List (List XScript)) : XScript :=
  let n := Nat.min fcs.length tcs.length
  let pairs := (List.range n).map fun i => ((tbl.getD i []).getD i (xMatch 0)).relabel (.at i) (.at i)
  let rems := (List.range (fcs.length - n)).map fun k => xRemove (n + k) ((fcs.getD (n + k) dX).size) 1
  let inss := (List.range (tcs.length - n)).map fun k => xInsert (n + k) ((tcs.getD (n + k) dX).size) 1
  xCompound .fixed (pairs ++ rems ++ inss)

/-- `EditDistance` over two child tuples with `insert_remove_penalty = pen`: shared prefix / suffix matched at
    cost 0, the greedy matrix (`EditMatrix.solve`) over the middle, exactly as `edScript` does for L2 lists -/
def kidsEd (fcs tcs : List XTree) (pen : Nat) (tbl : List (List XScript)) : XScript :=
  let ps := trimLens fcs tcs
  let mf := middle fcs ps
  let mt := middle tcs ps
  let rem := mf.map (fun c => c.size + pen)
  let ins := mt.map (fun c => c.size + pen)
  let cellS (r c : Nat) : XScript := (tbl.getD (c + ps.1) []).getD (r + ps.1) (xMatch 0)
  let cells := (List.range mt.length).map fun r => (List.range mf.length).map fun c => (cellS r c).cost
  let res := solve rem ins cells
  let pre := (List.range ps.1).map fun k => (xMatch 0).relabel (.at k) (.at k)
  let mid := (located res.2).map fun (m, r, c) =>
    match m with
    | .diag => (cellS r c).relabel (.at (c + ps.1)) (.at (r + ps.1))
    | .up => xInsert (r + ps.1) ((mt.getD r dX).size) pen
    | .left => xRemove (c + ps.1) ((mf.getD c dX).size) pen
  let suf := (List.range ps.2).map fun k => (xMatch 0).relabel (.at (fcs.length - ps.2 + k)) (.at (tcs.length - ps.2 + k))
  .mk .ed .none .none res.1 (pre ++ mid ++ suf)

/-- `XMLElementChildren.edits` = `ListNode.edits`: `XMLElement.__init__` builds
    `XMLElementChildren(children, allow_list_edits=…, allow_list_edits_when_same_length=…)` from the build options
    (`xml.build_tree`), and `ListNode.edits` reads the two flags of the FROM list (both trees of a comparison are
    built with the same options, hence the single `o`, as in the L2 `edits`):
      equal child tuples → `Match(…, 0)`;
      `not allow_list_edits or (same length and (not allow_list_edits_when_same_length or length == 1))`
        → `FixedLengthSequenceEdit`;
      otherwise → `EditDistance`.
    Penalty: `ListNode.edits` waives it only when every child of both lists is a leaf; elements are containers and
    two empty lists are equal, so whenever an `EditDistance` is built here the penalty is 1. -/
def kidsScript (o : Opts) (fcs tcs : List XTree) (tbl : List (List XScript)) : XScript :=
  if xeqL fcs tcs then xMatch 0
  else if !o.ale || (fcs.length == tcs.length && (!o.alesl || fcs.length == 1)) then kidsFixed fcs tcs tbl
  else kidsEd fcs tcs 1 tbl

/-- `XMLElementEdit(from, to)` given its parts -/
def elemScript (tagE attrE : Script) (textE : Option Script) (kf kt : Nat) (kidsE : XScript) : XScript :=
  xCompound .elem ([.emb (tagE.relabel (.at 0) (.at 0)), .emb (attrE.relabel (.at 1) (.at 1))]
    ++ (match textE with | some e => [.emb e] | none => [])
    ++ [kidsE.relabel (.at kf) (.at kt)])

/-! ### the recursive dispatch -/

/-- `from.edits(to)` for two `XMLElement`s, fully refined.  `fp` / `tp`: index paths of the two elements from their
    roots (keys of the assignment-solver oracle used by the attribute `MultiSetEdit`s). -/
def xmlEdits (o : Opts) (orc : Oracle) : List Nat → List Nat → XTree → XTree → XScript
  | fp, tp, .mk ftag fattr ftext fcs, .mk ttag tattr ttext tcs =>
      if XTree.eq (.mk ftag fattr ftext fcs) (.mk ttag tattr ttext tcs) then xMatch 0
      else
        let kf := kidsIx ftext
        let kt := kidsIx ttext
        let tbl : List (List XScript) := fcs.attach.zipIdx.map fun (⟨fc, _⟩, c) =>
          tcs.zipIdx.map fun (tc, r) => xmlEdits o orc (fp ++ [kf, c]) (tp ++ [kt, r]) fc tc
        elemScript (strEdits ftag ttag) (edits o orc (fp ++ [1]) (tp ++ [1]) fattr tattr) (textEdit ftext ttext)
          kf kt (kidsScript o fcs tcs tbl)
termination_by _ _ f _ => sizeOf f
decreasing_by
  all_goals simp_wf
  have := List.sizeOf_lt_of_mem ‹fc ∈ fcs›; omega

/-- the whole comparison: build both documents, diff the roots -/
def diffXml (o : Opts) (orc : Oracle) (f t : XDoc) : XScript :=
  xmlEdits o orc [] [] (xbuild o f) (xbuild o t)

/-! ### JSON for the driver -/

def XKind.toString : XKind → String
  | .match_ => "match" | .remove => "remove" | .insert => "insert" | .elem => "xml" | .fixed => "fixed" | .ed => "ed"

partial def XScript.toJson : XScript → Json
  | .emb s => s.toJson
  | .mk k f t c subs =>
      Json.arr #[Json.str k.toString, f.toJson, t.toJson, Json.num (c : Nat), Json.arr (subs.map XScript.toJson).toArray]

partial def xdocOfJson (j : Json) : Except String XDoc := do
  let tag ← strOfJson (← j.getObjVal? "tag")
  let ats ← getArr j "attrib"
  let attrib ← ats.toList.mapM fun p => do
    let a ← p.getArr?
    if h : a.size = 2 then
      pure ((← strOfJson a[0]), (← strOfJson a[1]))
    else throw "attrib entry: expected [key, value]"
  let tj ← j.getObjVal? "text"
  let text ← match tj with
    | Json.null => pure none
    | v => (strOfJson v).map some
  let tail ← match j.getObjVal? "tail" with
    | .ok Json.null => pure none
    | .ok v => (strOfJson v).map some
    | .error _ => pure none
  let cs ← getArr j "children"
  pure (.mk tag attrib text tail (← cs.toList.mapM xdocOfJson))

/-- stream `scriptxml`, kind `xml` -/
def xmlHandler : Handler := fun j => do
  let o ← optsOfJson j
  let f ← xdocOfJson (← j.getObjVal? "f")
  let t ← xdocOfJson (← j.getObjVal? "t")
  let orc ← oracleOfJson (← j.getObjVal? "oracle")
  let ft := xbuild o f
  let tt := xbuild o t
  let s := xmlEdits o orc [] [] ft tt
  pure <| Json.mkObj [("script", s.toJson), ("eq", Json.bool (ft.eq tt)),
    ("sizes", natListToJson [ft.size, tt.size])]

/-- stream `scriptxml`, kind `space`: the white-space code points in `[lo, hi)` and `strip` of given strings -/
def spaceHandler : Handler := fun j => do
  let lo ← getNat j "lo"
  let hi ← getNat j "hi"
  let strs ← (← getArr j "strs").toList.mapM strOfJson
  pure <| Json.mkObj [("spaces", natListToJson ((List.range (hi - lo)).filterMap fun k =>
      if isPySpace (lo + k) then some (lo + k) else none)),
    ("stripped", Json.arr (strs.map fun s => natListToJson (strip s)).toArray)]

end GtModel.Xml

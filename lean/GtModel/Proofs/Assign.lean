/-
  Helper lemmas for C15 (model layer L5, `GtModel.Assign`).  Core Lean only.
-/
import GtModel.Model.Assign

namespace GtModel.Assign
open GtModel.Gen

/-! ### dtype table -/

/-- Every row of the generated `INTEGER_DTYPE_INTERVALS` lies inside numpy's true range of its dtype.
    (Re-checked by `lake build` whenever the table in /repo changes.) -/
theorem table_rows_sound : ∀ r ∈ integerDtypeIntervals, r.trueLo ≤ r.lo ∧ r.hi ≤ r.trueHi + 1 := by decide

theorem getDtype_sound {lo hi : Int} {d : DtypeRow} (h : getDtype lo hi = some d) :
    d.trueLo ≤ lo ∧ hi ≤ d.trueHi := by
  unfold getDtype at h
  have hm := List.mem_of_find?_eq_some h
  have hp := List.find?_some h
  have hs := table_rows_sound d hm
  simp only [Bool.and_eq_true, decide_eq_true_eq] at hp
  omega

/-! ### index pairs -/

theorem mem_indices {n m i j : Nat} : (i, j) ∈ indices n m ↔ i < n ∧ j < m := by
  simp [indices]

theorem cell_some_of_complete {inp : Input} (h : hasNull inp = false) {i j : Nat} (hi : i < inp.n) (hj : j < inp.m) :
    ∃ c, inp.cell i j = some c := by
  unfold hasNull at h
  rw [List.any_eq_false] at h
  have := h (i, j) (mem_indices.2 ⟨hi, hj⟩)
  cases hc : inp.cell i j with
  | none => simp [hc] at this
  | some c => exact ⟨c, rfl⟩

theorem hasNull_of_none {inp : Input} {i j : Nat} (hi : i < inp.n) (hj : j < inp.m) (h : inp.cell i j = none) :
    hasNull inp = true := by
  unfold hasNull
  rw [List.any_eq_true]
  exact ⟨(i, j), mem_indices.2 ⟨hi, hj⟩, by simp [h]⟩

theorem mem_present {inp : Input} {c : Cell} :
    c ∈ present inp ↔ ∃ i j, i < inp.n ∧ j < inp.m ∧ inp.cell i j = some c := by
  unfold present
  rw [List.mem_filterMap]
  constructor
  · rintro ⟨⟨i, j⟩, hm, hc⟩
    exact ⟨i, j, (mem_indices.1 hm).1, (mem_indices.1 hm).2, hc⟩
  · rintro ⟨i, j, hi, hj, hc⟩
    exact ⟨(i, j), mem_indices.2 ⟨hi, hj⟩, hc⟩

theorem cellOfRows_mem {rows : List (List (Option Cell))} {i j : Nat} {c : Cell}
    (h : cellOfRows rows i j = some c) : ∃ r ∈ rows, some c ∈ r := by
  unfold cellOfRows at h
  split at h
  · rename_i r hr
    split at h
    · rename_i oc hc
      subst h
      exact ⟨r, List.mem_of_getElem? hr, List.mem_of_getElem? hc⟩
    · cases h
  · cases h

/-! ### max / sums -/

theorem foldl_max_ge (l : List Int) (x : Int) :
    x ≤ l.foldl (fun a b => if a < b then b else a) x ∧
    ∀ y ∈ l, y ≤ l.foldl (fun a b => if a < b then b else a) x := by
  induction l generalizing x with
  | nil => simp
  | cons z zs ih =>
    simp only [List.foldl_cons, List.mem_cons]
    by_cases hxz : x < z
    · simp only [hxz, if_true]
      have h1 := (ih z).1
      have h2 := (ih z).2
      refine ⟨by omega, ?_⟩
      rintro y (rfl | hy)
      · exact h1
      · exact h2 y hy
    · simp only [hxz, if_false]
      have h1 := (ih x).1
      have h2 := (ih x).2
      refine ⟨h1, ?_⟩
      rintro y (rfl | hy)
      · omega
      · exact h2 y hy

theorem maxOfList_ge {l : List Int} {s : Int} (h : maxOfList l = some s) : ∀ y ∈ l, y ≤ s := by
  cases l with
  | nil => simp [maxOfList] at h
  | cons x xs =>
    simp only [maxOfList, Option.some.injEq] at h
    subst h
    intro y hy
    rcases List.mem_cons.1 hy with rfl | hy
    · exact (foldl_max_ge xs _).1
    · exact (foldl_max_ge xs x).2 y hy

theorem maxEdge_lt {c : Cell} {rest : List Cell} {B : Int} (hc : c.w < B) (hr : ∀ e ∈ rest, e.w < B) :
    maxEdge c rest < B := by
  unfold maxEdge
  generalize c.w = x at hc
  induction rest generalizing x with
  | nil => simpa
  | cons e es ih =>
    simp only [List.foldl_cons]
    apply ih
    · intro e' he'; exact hr e' (List.mem_cons_of_mem _ he')
    · split
      · exact hr e (List.mem_cons_self)
      · exact hc

theorem le_sum_of_mem_nonneg {l : List Int} (hn : ∀ x ∈ l, 0 ≤ x) {y : Int} (hy : y ∈ l) : y ≤ l.sum := by
  induction l with
  | nil => cases hy
  | cons x xs ih =>
    have hx : 0 ≤ x := hn x List.mem_cons_self
    have hxs : ∀ z ∈ xs, 0 ≤ z := fun z hz => hn z (List.mem_cons_of_mem _ hz)
    have hs : 0 ≤ xs.sum := by
      clear ih hy
      induction xs with
      | nil => simp
      | cons a as iha =>
        have := hxs a List.mem_cons_self
        have := iha (fun z hz => hn z (by
          rcases List.mem_cons.1 hz with rfl | hz
          · exact List.mem_cons_self
          · exact List.mem_cons_of_mem _ (List.mem_cons_of_mem _ hz))) (fun z hz => hxs z (List.mem_cons_of_mem _ hz))
        simp only [List.sum_cons]; omega
    simp only [List.sum_cons]
    rcases List.mem_cons.1 hy with rfl | hy
    · omega
    · have := ih hxs hy; omega

/-- Non-negative weights (the domain graphtage uses: edit costs). -/
def NonNeg (inp : Input) : Prop := ∀ i j c, inp.cell i j = some c → 0 ≤ c.w

theorem weight_le_colSum {inp : Input} (hn : NonNeg inp) {i j : Nat} {c : Cell} (hi : i < inp.n)
    (hc : inp.cell i j = some c) : c.w ≤ colSum inp j := by
  unfold colSum
  apply le_sum_of_mem_nonneg
  · intro x hx
    rw [List.mem_map] at hx
    obtain ⟨c', hc', rfl⟩ := hx
    rw [List.mem_filterMap] at hc'
    obtain ⟨i', _, h'⟩ := hc'
    exact hn i' j c' h'
  · rw [List.mem_map]
    exact ⟨c, List.mem_filterMap.2 ⟨i, List.mem_range.2 hi, hc⟩, rfl⟩

theorem colSum_lt_null {inp : Input} (hu : 1 ≤ inp.unit) {nv : Int} (h : nullValue inp = some nv) {j : Nat}
    (hj : j < inp.m) : colSum inp j < nv := by
  unfold nullValue at h
  cases hm : maxOfList ((List.range inp.m).map (colSum inp)) with
  | none => simp [hm] at h
  | some s =>
    simp only [hm, Option.map_some, Option.some.injEq] at h
    have := maxOfList_ge hm (colSum inp j) (List.mem_map.2 ⟨j, List.mem_range.2 hj, rfl⟩)
    omega

theorem weight_lt_null {inp : Input} (hn : NonNeg inp) (hu : 1 ≤ inp.unit) {nv : Int}
    (h : nullValue inp = some nv) {i j : Nat} {c : Cell} (hi : i < inp.n) (hj : j < inp.m)
    (hc : inp.cell i j = some c) : c.w < nv := by
  have h1 := weight_le_colSum hn hi hc
  have h2 := colSum_lt_null hu h hj
  omega

theorem nullValue_isSome {inp : Input} (hm : 0 < inp.m) : ∃ nv, nullValue inp = some nv := by
  unfold nullValue
  cases h : (List.range inp.m).map (colSum inp) with
  | nil =>
    have : ((List.range inp.m).map (colSum inp)).length = 0 := by rw [h]; rfl
    simp at this; omega
  | cons x xs => simp only [maxOfList, Option.map_some]; exact ⟨_, rfl⟩

/-! ### characterisation of `prepare` -/

theorem nullStep_ok {inp : Input} {mx null mx' : Int} (h : nullStep inp mx = .ok (null, mx')) :
    (hasNull inp = true → nullValue inp = some null ∧ mx < null ∧ mx' = null) ∧
    (hasNull inp = false → mx' = mx) := by
  unfold nullStep at h
  by_cases hn : hasNull inp = true
  · simp only [hn, if_true] at h
    cases hnv : nullValue inp with
    | none => simp [hnv] at h
    | some nv =>
      simp only [hnv] at h
      by_cases hgt : nv > mx
      · simp only [hgt, if_true, Except.ok.injEq, Prod.mk.injEq] at h
        obtain ⟨rfl, rfl⟩ := h
        exact ⟨fun _ => ⟨rfl, by omega, rfl⟩, fun hf => by simp [hn] at hf⟩
      · simp [hgt] at h
  · have hn' : hasNull inp = false := by simpa using hn
    simp only [hn', Bool.false_eq_true, if_false, Except.ok.injEq, Prod.mk.injEq] at h
    exact ⟨fun ht => by simp [hn'] at ht, fun _ => h.2.symm⟩

theorem convert_ok {inp : Input} {ty : Ty} {null mn mx : Int} {p : Prep} (h : convert inp ty null mn mx = .ok p) :
    p.hasNull = hasNull inp ∧ p.null = null ∧ p.ty = ty ∧
    (ty ≠ .bool → p.shown = filledW inp null) ∧
    (ty = .bool → p.shown = fun i j => if filledW inp null i j ≠ 0 then (inp.unit : Int) else 0) := by
  unfold convert at h
  cases ty
  · simp only at h
    split at h
    · simp only [Except.ok.injEq] at h
      subst h
      exact ⟨rfl, rfl, rfl, fun _ => rfl, fun hb => by cases hb⟩
    · cases h
  · simp only [Except.ok.injEq] at h
    subst h
    exact ⟨rfl, rfl, rfl, fun hb => absurd rfl hb, fun _ => rfl⟩
  · simp only [Except.ok.injEq] at h
    subst h
    exact ⟨rfl, rfl, rfl, fun _ => rfl, fun hb => by cases hb⟩

/-- What a successful `prepare` established. -/
theorem prepare_some {inp : Input} {p : Prep} (h : prepare inp = .ok (some p)) :
    p.hasNull = hasNull inp ∧
    (p.hasNull = true → nullValue inp = some p.null) ∧
    (p.ty ≠ .bool → p.shown = filledW inp p.null) ∧
    (p.ty = .bool → p.shown = fun i j => if filledW inp p.null i j ≠ 0 then (inp.unit : Int) else 0) ∧
    (∃ c rest, present inp = c :: rest ∧ c.ty = p.ty ∧ ∀ e ∈ rest, e.ty = p.ty) := by
  unfold prepare at h
  split at h
  · simp at h
  · rename_i c rest hpres
    split at h
    · simp at h
    · rename_i hall
      have hall' : ∀ e ∈ rest, e.ty = c.ty := by
        have : (rest.all fun e => decide (e.ty = c.ty)) = true := by simpa using hall
        intro e he
        simpa using (List.all_eq_true.1 this) e he
      split at h
      · simp at h
      · rename_i null mx' hns
        split at h
        · simp at h
        · rename_i p' hcv
          simp only [Except.ok.injEq, Option.some.injEq] at h
          subst h
          obtain ⟨h1, h2, h3, h4, h5⟩ := convert_ok hcv
          have hs := nullStep_ok hns
          refine ⟨h1, ?_, ?_, ?_, c, rest, hpres, h3.symm, fun e he => by rw [hall' e he, h3]⟩
          · intro hp
            rw [h1] at hp
            rw [h2]
            exact (hs.1 hp).1
          · intro hb; rw [h2]; exact h4 (by rw [← h3]; exact hb)
          · intro hb; rw [h2]; exact h5 (by rw [← h3]; exact hb)

/-! ### `finish` -/

theorem zip_map_fst_sublist (l₁ : List Nat) (l₂ : List Nat) : ((l₁.zip l₂).map Prod.fst).Sublist l₁ := by
  induction l₁ generalizing l₂ with
  | nil => simp
  | cons x xs ih =>
    cases l₂ with
    | nil => simp
    | cons y ys => simpa using ih ys

theorem zip_map_snd_sublist (l₁ : List Nat) (l₂ : List Nat) : ((l₁.zip l₂).map Prod.snd).Sublist l₂ := by
  induction l₁ generalizing l₂ with
  | nil => simp
  | cons x xs ih =>
    cases l₂ with
    | nil => simp
    | cons y ys => simpa using ih ys

/-- The per-pair filter of `finish`. -/
def keep (inp : Input) (p : Prep) (ft : Nat × Nat) : Option Pair :=
  match inp.cell ft.1 ft.2 with
  | some c => if !p.hasNull || decide (c.w < p.null) then some ⟨ft.1, ft.2, c.ty, c.w⟩ else none
  | none => none

theorem finish_eq (inp : Input) (p : Prep) (a : Ans) : finish inp p a = (a.rows.zip a.cols).filterMap (keep inp p) := rfl

theorem keep_some {inp : Input} {p : Prep} {ft : Nat × Nat} {q : Pair} (h : keep inp p ft = some q) :
    q.f = ft.1 ∧ q.t = ft.2 ∧ inp.cell ft.1 ft.2 = some ⟨q.ty, q.w⟩ ∧ (p.hasNull = false ∨ q.w < p.null) := by
  unfold keep at h
  split at h
  · rename_i c hc
    split at h
    · rename_i hk
      simp only [Option.some.injEq] at h
      subst h
      refine ⟨rfl, rfl, hc, ?_⟩
      simpa using hk
    · cases h
  · cases h

theorem filterMap_keep_f_sublist (inp : Input) (p : Prep) (l : List (Nat × Nat)) :
    ((l.filterMap (keep inp p)).map (·.f)).Sublist (l.map Prod.fst) := by
  induction l with
  | nil => simp
  | cons x xs ih =>
    cases hk : keep inp p x with
    | none => simp only [List.filterMap_cons, hk, List.map_cons]; exact List.Sublist.cons _ ih
    | some q =>
      simp only [List.filterMap_cons, hk, List.map_cons]
      rw [(keep_some hk).1]
      exact List.Sublist.cons_cons _ ih

theorem filterMap_keep_t_sublist (inp : Input) (p : Prep) (l : List (Nat × Nat)) :
    ((l.filterMap (keep inp p)).map (·.t)).Sublist (l.map Prod.snd) := by
  induction l with
  | nil => simp
  | cons x xs ih =>
    cases hk : keep inp p x with
    | none => simp only [List.filterMap_cons, hk, List.map_cons]; exact List.Sublist.cons _ ih
    | some q =>
      simp only [List.filterMap_cons, hk, List.map_cons]
      rw [(keep_some hk).2.1]
      exact List.Sublist.cons_cons _ ih

theorem finish_f_sublist (inp : Input) (p : Prep) (a : Ans) : ((finish inp p a).map (·.f)).Sublist a.rows :=
  (filterMap_keep_f_sublist inp p _).trans (zip_map_fst_sublist _ _)

theorem finish_t_sublist (inp : Input) (p : Prep) (a : Ans) : ((finish inp p a).map (·.t)).Sublist a.cols :=
  (filterMap_keep_t_sublist inp p _).trans (zip_map_snd_sublist _ _)

theorem mem_finish {inp : Input} {p : Prep} {a : Ans} {q : Pair} (h : q ∈ finish inp p a) :
    (q.f, q.t) ∈ a.rows.zip a.cols ∧ inp.cell q.f q.t = some ⟨q.ty, q.w⟩ ∧ (p.hasNull = false ∨ q.w < p.null) := by
  rw [finish_eq, List.mem_filterMap] at h
  obtain ⟨ft, hm, hk⟩ := h
  obtain ⟨h1, h2, h3, h4⟩ := keep_some hk
  rw [h1, h2]
  exact ⟨hm, h3, h4⟩

/-- On a list of pairs that all exist and all pass the filter, `finish` keeps everything and the reported
    weights sum to the matrix total. -/
theorem keep_all_sum {inp : Input} {p : Prep} (ent : Nat → Nat → Int) (l : List (Nat × Nat))
    (h : ∀ ft ∈ l, ∃ c, inp.cell ft.1 ft.2 = some c ∧ (p.hasNull = false ∨ c.w < p.null) ∧ ent ft.1 ft.2 = c.w) :
    (l.filterMap (keep inp p)).length = l.length ∧
    ((l.filterMap (keep inp p)).map (·.w)).sum = (l.map fun ft => ent ft.1 ft.2).sum := by
  induction l with
  | nil => simp
  | cons x xs ih =>
    obtain ⟨c, hc, hpass, hent⟩ := h x List.mem_cons_self
    have ih' := ih (fun ft hft => h ft (List.mem_cons_of_mem _ hft))
    have hk : keep inp p x = some ⟨x.1, x.2, c.ty, c.w⟩ := by
      unfold keep
      simp only [hc]
      have : (!p.hasNull || decide (c.w < p.null)) = true := by
        rcases hpass with hp | hp
        · simp [hp]
        · simp [hp]
      simp [this]
    simp only [List.filterMap_cons, hk, List.length_cons, List.map_cons, List.sum_cons, ih'.1, ih'.2, hent]
    exact ⟨trivial, trivial⟩

theorem filterMap_congr' {α β : Type} {f g : α → Option β} {l : List α} (h : ∀ x ∈ l, f x = g x) :
    l.filterMap f = l.filterMap g := by
  induction l with
  | nil => rfl
  | cons x xs ih =>
    simp only [List.filterMap_cons, h x List.mem_cons_self, ih (fun y hy => h y (List.mem_cons_of_mem _ hy))]

/-! ### completeness of the brute-force enumeration -/

theorem injections_complete (m : Nat) (l : List Nat) (hnd : l.Nodup) (hlt : ∀ x ∈ l, x < m) :
    l ∈ injections l.length m := by
  induction l with
  | nil => simp [injections]
  | cons x xs ih =>
    rw [List.nodup_cons] at hnd
    simp only [List.length_cons, injections, List.mem_flatMap, List.mem_map, List.mem_filter, List.mem_range]
    refine ⟨xs, ih hnd.2 (fun y hy => hlt y (List.mem_cons_of_mem _ hy)), x, ⟨hlt x List.mem_cons_self, ?_⟩, rfl⟩
    simpa using hnd.1

theorem isOptimalB_sound {d : Dense} {a : Ans} (h : isOptimalB d a = true) (b : Ans) (hb : b.Valid d.n d.m) :
    total d.ent a ≤ total d.ent b := by
  unfold isOptimalB at h
  simp only [List.all_eq_true, decide_eq_true_eq] at h
  obtain ⟨hr, hc, hrn, hcn, hrl, hcl⟩ := hb
  have h1 := injections_complete d.n b.rows hrn hrl
  have h2 := injections_complete d.m b.cols hcn hcl
  rw [hr] at h1
  rw [hc] at h2
  exact h b.rows h1 b.cols h2

end GtModel.Assign

/- Order lemmas about `Bound` / `Range` (Bool-valued comparisons of the L0 model). -/
import GtModel.Model.Range

namespace GtModel
namespace Bound

theorem le_refl (a : Bound) : le a a = true := by cases a <;> simp [le, lt]
theorem lt_irrefl (a : Bound) : lt a a = false := by cases a <;> simp [lt]
theorem le_trans {a b c : Bound} (h1 : le a b = true) (h2 : le b c = true) : le a c = true := by
  cases a <;> cases b <;> cases c <;> simp_all [le, lt] <;> omega
theorem lt_of_lt_of_le {a b c : Bound} (h1 : lt a b = true) (h2 : le b c = true) : lt a c = true := by
  cases a <;> cases b <;> cases c <;> simp_all [le, lt] <;> omega
theorem lt_of_le_of_lt {a b c : Bound} (h1 : le a b = true) (h2 : lt b c = true) : lt a c = true := by
  cases a <;> cases b <;> cases c <;> simp_all [le, lt] <;> omega
theorem lt_trans {a b c : Bound} (h1 : lt a b = true) (h2 : lt b c = true) : lt a c = true := by
  cases a <;> cases b <;> cases c <;> simp_all [lt] <;> omega
theorem le_total (a b : Bound) : le a b = true ∨ le b a = true := by
  cases a <;> cases b <;> simp [le, lt] <;> omega
theorem le_of_lt {a b : Bound} (h : lt a b = true) : le a b = true := by simp [le, h]
theorem not_lt_iff_le {a b : Bound} : lt a b = false ↔ le b a = true := by
  cases a <;> cases b <;> simp [le, lt] <;> omega
theorem not_le_iff_lt {a b : Bound} : le a b = false ↔ lt b a = true := by
  cases a <;> cases b <;> simp [le, lt] <;> omega
theorem le_antisymm {a b : Bound} (h1 : le a b = true) (h2 : le b a = true) : a = b := by
  cases a <;> cases b <;> simp_all [le, lt] <;> omega
theorem fin_le_fin {a b : Int} : le (fin a) (fin b) = true ↔ a ≤ b := by simp [le, lt]; omega
theorem fin_lt_fin {a b : Int} : lt (fin a) (fin b) = true ↔ a < b := by simp [lt]

end Bound
end GtModel

/- Validity of trajectories, reachability of states through `tightenAt`, and the comparator lemmas. -/
import GtModel.Model.Bounded
import GtModel.Proofs.BoundLemmas

namespace GtModel.Bounded
open GtModel

/-! ## valid trajectories -/

/-- `r'` is nested in `r` and differs from it -/
def StrictSub (r' r : Range) : Prop := r.contains r' = true ∧ r' ≠ r

/-- a non-empty chain of strictly shrinking nested ranges ending in the point `n` -/
def ValidL : List Range → Int → Prop
  | [], _ => False
  | [r], n => r = Range.point n
  | r :: r' :: rs, n => StrictSub r' r ∧ ValidL (r' :: rs) n

def Item.Valid (it : Item) (n : Int) : Prop := ValidL it.traj n

/-- every item of the collection is a valid trajectory; `fs[i]` is the final cost of item `i` -/
def ValidSt (σ : St) (fs : List Int) : Prop :=
  σ.length = fs.length ∧ ∀ (i : Nat) (a : Item) (n : Int), σ[i]? = some a → fs[i]? = some n → a.Valid n

theorem validL_contains : ∀ {l : List Range} {r : Range} {n : Int}, ValidL (r :: l) n →
    Bound.le r.lo (.fin n) = true ∧ Bound.le (.fin n) r.hi = true
  | [], r, n, h => by
    simp [ValidL] at h; subst h; simp [Range.point, Bound.le_refl]
  | r' :: rs, r, n, h => by
    obtain ⟨⟨hc, _⟩, hv⟩ := h
    have ih := validL_contains hv
    simp [Range.contains] at hc
    exact ⟨Bound.le_trans hc.1 ih.1, Bound.le_trans ih.2 hc.2⟩

theorem Item.Valid.contains {it : Item} {n : Int} (h : it.Valid n) :
    Bound.le it.cur.lo (.fin n) = true ∧ Bound.le (.fin n) it.cur.hi = true := validL_contains h

theorem Item.Valid.last {it : Item} {n : Int} (h : it.Valid n) (hr : it.rest = []) : it.cur = Range.point n := by
  unfold Item.Valid Item.traj at h; rw [hr] at h; exact h

theorem Item.Valid.tighten {it : Item} {n : Int} (h : it.Valid n) : (it.tighten).2.Valid n := by
  unfold Item.tighten
  cases hr : it.rest with
  | nil => simp [Item.Valid, Item.traj, hr] at h ⊢; exact h
  | cons r rs => simp [Item.Valid, Item.traj, hr] at h ⊢; exact h.2

/-- a definitive range of a valid item is its final point, and nothing follows it -/
theorem Item.Valid.definitive {it : Item} {n : Int} (h : it.Valid n) (hd : it.cur.definitive = true) :
    it.cur = Range.point n ∧ it.rest = [] := by
  have hc := h.contains
  have hcur : it.cur = Range.point n := by
    rcases hcu : it.cur with ⟨lo, hi⟩
    rw [hcu] at hc hd
    simp [Range.definitive] at hd
    obtain ⟨h1, h2⟩ := hd
    subst h1
    cases lo <;> simp [Bound.isFin] at h2
    rename_i a
    simp [Bound.fin_le_fin] at hc
    simp [Range.point]; omega
  refine ⟨hcur, ?_⟩
  cases hr : it.rest with
  | nil => rfl
  | cons r rs =>
    exfalso
    unfold Item.Valid Item.traj at h; rw [hr] at h
    obtain ⟨⟨hsub, hne⟩, hv⟩ := h
    have hc2 := validL_contains hv
    rw [hcur] at hsub hne
    simp [Range.contains, Range.point] at hsub
    apply hne
    rcases r with ⟨lo, hi⟩
    simp [Range.point] at hc2 ⊢
    exact ⟨Bound.le_antisymm hc2.1 hsub.1, Bound.le_antisymm hsub.2 hc2.2⟩

theorem Item.Valid.definitive_iff {it : Item} {n : Int} (h : it.Valid n) :
    it.cur.definitive = true ↔ it.rest = [] := by
  constructor
  · exact fun hd => (h.definitive hd).2
  · intro hr; rw [h.last hr]; simp [Range.definitive, Range.point, Bound.isFin]

/-! ## `tightenAt` on the collection -/

theorem tightenAt_length (σ : St) (k : Nat) : (tightenAt σ k).2.length = σ.length := by
  unfold tightenAt; split <;> simp

theorem tightenAt_get_ne {σ : St} {k m : Nat} (h : m ≠ k) : (tightenAt σ k).2[m]? = σ[m]? := by
  unfold tightenAt; split
  · rfl
  · simp [List.getElem?_set]; intro h'; exact absurd h'.symm h

theorem tightenAt_get_eq {σ : St} {k : Nat} {a : Item} (h : σ[k]? = some a) :
    (tightenAt σ k).2[k]? = some (a.tighten).2 ∧ (tightenAt σ k).1 = (a.tighten).1 := by
  unfold tightenAt; rw [h]
  have : k < σ.length := by
    rcases Nat.lt_or_ge k σ.length with h' | h'
    · exact h'
    · simp [List.getElem?_eq_none h'] at h
  simp [this]

theorem tightenAt_none {σ : St} {k : Nat} (h : σ[k]? = none) : tightenAt σ k = (false, σ) := by
  unfold tightenAt; rw [h]

/-- what any index looks like after `tightenAt` -/
theorem tightenAt_get (σ : St) (k m : Nat) (a : Item) (h : σ[m]? = some a) :
    (tightenAt σ k).2[m]? = some (if m = k then (a.tighten).2 else a) := by
  by_cases hm : m = k
  · subst hm; rw [(tightenAt_get_eq h).1]; simp
  · rw [tightenAt_get_ne hm, h]; simp [hm]

theorem ValidSt.tightenAt {σ : St} {fs : List Int} (h : ValidSt σ fs) (k : Nat) : ValidSt (tightenAt σ k).2 fs := by
  refine ⟨by rw [tightenAt_length]; exact h.1, ?_⟩
  intro i a n hi hn
  by_cases hik : i = k
  · subst hik
    cases hs : σ[i]? with
    | none => rw [tightenAt_none hs] at hi; simp [hs] at hi
    | some b =>
      rw [(tightenAt_get_eq hs).1] at hi
      cases hi
      exact (h.2 i b n hs hn).tighten
  · rw [tightenAt_get_ne hik] at hi; exact h.2 i a n hi hn

/-! ## states reachable by tightening -/

inductive Reach : St → St → Prop
  | refl (σ : St) : Reach σ σ
  | step {σ σ' : St} (k : Nat) : Reach (tightenAt σ k).2 σ' → Reach σ σ'

theorem Reach.trans {a b c : St} (h1 : Reach a b) (h2 : Reach b c) : Reach a c := by
  induction h1 with
  | refl => exact h2
  | step k _ ih => exact .step k (ih h2)

theorem Reach.one (σ : St) (k : Nat) : Reach σ (tightenAt σ k).2 := .step k (.refl _)

theorem Reach.valid {σ σ' : St} {fs : List Int} (h : Reach σ σ') (hv : ValidSt σ fs) : ValidSt σ' fs := by
  induction h with
  | refl => exact hv
  | step k _ ih => exact ih (hv.tightenAt k)

theorem Reach.total_le {σ σ' : St} (h : Reach σ σ') : total σ' ≤ total σ := by
  induction h with
  | refl => exact Nat.le_refl _
  | step k _ ih => exact Nat.le_trans ih (total_tightenAt_le _ k)

theorem Reach.length {σ σ' : St} (h : Reach σ σ') : σ'.length = σ.length := by
  induction h with
  | refl => rfl
  | step k _ ih => rw [ih, tightenAt_length]

/-- item `a'` is item `a` after `k` successful tightenings: its state lies on `a`'s trajectory -/
def Item.Adv (a a' : Item) : Prop := ∃ k, a'.traj = a.traj.drop k ∧ a'.pos = a.pos + k ∧ a.calls ≤ a'.calls

theorem Item.Adv.refl (a : Item) : a.Adv a := ⟨0, by simp, by simp, Nat.le_refl _⟩

theorem Item.Adv.trans {a b c : Item} (h1 : a.Adv b) (h2 : b.Adv c) : a.Adv c := by
  obtain ⟨k1, e1, p1, c1⟩ := h1
  obtain ⟨k2, e2, p2, c2⟩ := h2
  exact ⟨k1 + k2, by rw [e2, e1, List.drop_drop], by omega, by omega⟩

theorem Item.adv_tighten (a : Item) : a.Adv (a.tighten).2 := by
  unfold Item.tighten
  cases hr : a.rest with
  | nil => exact ⟨0, by simp [Item.traj, hr], by simp, by simp⟩
  | cons r rs => exact ⟨1, by simp [Item.traj, hr], by simp, by simp⟩

/-- every item of `σ'` is the same-index item of `σ`, advanced along its trajectory -/
def Adv (σ σ' : St) : Prop :=
  σ'.length = σ.length ∧ ∀ (i : Nat) (a : Item), σ[i]? = some a → ∃ a', σ'[i]? = some a' ∧ a.Adv a'

theorem Adv.refl (σ : St) : Adv σ σ := ⟨rfl, fun _ a h => ⟨a, h, Item.Adv.refl a⟩⟩

theorem Adv.trans {a b c : St} (h1 : Adv a b) (h2 : Adv b c) : Adv a c := by
  refine ⟨by rw [h2.1, h1.1], ?_⟩
  intro i x hx
  obtain ⟨y, hy, hxy⟩ := h1.2 i x hx
  obtain ⟨z, hz, hyz⟩ := h2.2 i y hy
  exact ⟨z, hz, hxy.trans hyz⟩

theorem adv_tightenAt (σ : St) (k : Nat) : Adv σ (tightenAt σ k).2 := by
  refine ⟨tightenAt_length σ k, ?_⟩
  intro i a ha
  refine ⟨_, tightenAt_get σ k i a ha, ?_⟩
  split
  · exact Item.adv_tighten a
  · exact Item.Adv.refl a

theorem Reach.adv {σ σ' : St} (h : Reach σ σ') : Adv σ σ' := by
  induction h with
  | refl => exact Adv.refl _
  | step k _ ih => exact (adv_tightenAt _ k).trans ih

/-! ## the comparator loops stay inside `Reach` -/

theorem ltLoop_reach (σ : St) (i j : Nat) : Reach σ (ltLoop σ i j) := by
  fun_induction ltLoop σ i j with
  | case1 => exact .refl _
  | case2 σ a b _ _ _ h1 ih => exact .step i ih
  | case3 σ a b _ _ _ h1 h2 ih => exact .step i (.step j ih)
  | case4 σ a b _ _ _ h1 h2 => exact .step i (.step j (.refl _))
  | case5 => exact .refl _

theorem fullTighten_reach (σ : St) (i j : Nat) : Reach σ (fullTighten σ i j) := by
  fun_induction fullTighten σ i j with
  | case1 σ h1 ih => exact .step i ih
  | case2 σ h1 h2 ih => exact .step i (.step j ih)
  | case3 σ h1 h2 => exact .step i (.step j (.refl _))

end GtModel.Bounded

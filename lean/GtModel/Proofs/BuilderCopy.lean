/-
  `TreeNode.copy()`: on the trees the builders produce, the copy is the original with exactly three flags reset
  (`ListNode.allow_list_edits`, `ListNode.allow_list_edits_when_same_length`, `StringNode.quoted`) and every
  `CyclicReference` wrapped once more.
-/
import GtModel.Proofs.BuilderMachine
import GtModel.Proofs.BuilderToObj
import GtModel.Proofs.BuilderValue

namespace GtModel.Builder

mutual
/-- what `copy()` returns on a built tree: flags dropped by `copy_from`, placeholders re-wrapped -/
def reset : Tree → Tree
  | .leaf c s _ => .leaf c s true
  | .cyc r w => .cyc r (w + 1)
  | .node (.list _ _) cs => .node (.list true true) (resetList cs)
  | .node t cs => .node t (resetList cs)
def resetList : List Tree → List Tree
  | [] => []
  | t :: ts => reset t :: resetList ts
end

theorem resetList_eq_map : ∀ (cs : List Tree), resetList cs = cs.map reset := by
  intro cs
  induction cs with
  | nil => rfl
  | cons t ts ih => simp [resetList, ih]

/-- one key/value pair child: `KeyValuePairNode(key leaf, built value)` -/
def kvpParts : Tree → Option (Tree × Tree)
  | .node (.kvp ..) [k, v] => some (k, v)
  | _ => none

mutual
/-- the shape of trees produced by the builders on C18's domain (see `buildVal_built`); `ac` / `ap` = placeholders (`CyclicReference`) / `pydiff.PyObj` nodes allowed -/
inductive Built (ac ap : Bool) : Tree → Prop where
  | leaf (c : LeafCls) (s : Scalar) (q : Bool) : (c = .null → s = Scalar.none) → Built ac ap (.leaf c s q)
  | cyc (r : Ref) (w : Nat) : ac = true → Built ac ap (.cyc r w)
  | list (a b : Bool) (cs : List Tree) : BuiltList ac ap cs → Built ac ap (.node (.list a b) cs)
  | mset (amk : Bool) (cs : List Tree) : (∀ c ∈ cs, IsKeyLeaf c) → (cs.map leafEqc).Pairwise (· ≠ ·) →
      Built ac ap (.node (.mset amk) cs)
  | dict (py amk : Bool) (cs : List Tree) : BuiltKvps ac ap cs → (cs.map (fun c => leafEqc (kvpKey c))).Pairwise (· ≠ ·) →
      Built ac ap (.node (.dict py amk) cs)
  | fdict (py : Bool) (cs : List Tree) : BuiltKvps ac ap cs → (cs.map (fun c => leafEqc (kvpKey c))).Pairwise (· ≠ ·) →
      Built ac ap (.node (.fdict py) cs)
  | pyobj (n a : Tree) : ap = true → Built ac ap n → Built ac ap a → Built ac ap (.node .pyobj [n, a])
  | kvp (kw ake : Bool) (k v : Tree) : IsKeyLeaf k → Built ac ap v → Built ac ap (.node (.kvp kw ake) [k, v])
inductive BuiltList (ac ap : Bool) : List Tree → Prop where
  | nil : BuiltList ac ap []
  | cons {t ts} : Built ac ap t → BuiltList ac ap ts → BuiltList ac ap (t :: ts)
inductive BuiltKvps (ac ap : Bool) : List Tree → Prop where
  | nil : BuiltKvps ac ap []
  | cons {kw ake k v ts} : IsKeyLeaf k → Built ac ap v → BuiltKvps ac ap ts → BuiltKvps ac ap (.node (.kvp kw ake) [k, v] :: ts)
end

theorem reset_keyLeaf {t : Tree} (h : IsKeyLeaf t) : IsKeyLeaf (reset t) ∧ leafEqc (reset t) = leafEqc t := by
  obtain ⟨c, s, q, rfl, hc⟩ := h
  exact ⟨⟨c, s, true, rfl, hc⟩, rfl⟩

theorem copyFrom_leaf (c : LeafCls) (s : Scalar) (q : Bool) (h : c = .null → s = Scalar.none) (cs : List Tree) :
    copyFrom (.leaf c s q) cs = .ok (.leaf c s true) := by
  simp only [copyFrom, pure, Except.pure]
  by_cases hc : c = .null
  · simp [hc, h hc]
  · simp [hc]

/-- key/value-pair children -/
theorem builtKvps_reset {ac ap : Bool} : ∀ (cs : List Tree), BuiltKvps ac ap cs →
    (∀ c ∈ cs, (∃ kw ake k v, c = .node (.kvp kw ake) [k, v] ∧ IsKeyLeaf k))
  | [], _ => by intro c hc; simp at hc
  | c0 :: cs, h => by
    cases h with
    | cons hk _ hrest =>
      intro c hc
      simp only [List.mem_cons] at hc
      cases hc with
      | inl h => exact ⟨_, _, _, _, h, hk⟩
      | inr h => exact builtKvps_reset cs hrest c h

theorem builtList_of_kvps {ac ap : Bool} : ∀ (cs : List Tree), BuiltKvps ac ap cs → BuiltList ac ap cs
  | [], _ => .nil
  | c :: cs, h => by
    cases h with
    | cons hk hv hrest => exact .cons (.kvp _ _ _ _ hk hv) (builtList_of_kvps cs hrest)

mutual
/-- **copy_eq, structural form.**  On a built tree the recursive reading of `copy()` returns `reset t`. -/
theorem copyRec_built {ac ap : Bool} : ∀ (t : Tree), Built ac ap t → copyRec t = .ok (reset t)
  | .leaf c s q, h => by
    cases h with
    | leaf _ _ _ hc => simp only [copyRec, reset]; exact copyFrom_leaf c s q hc []
  | .cyc r w, _ => by simp [copyRec, copyFrom, reset, pure, Except.pure]
  | .node tag cs, h => by
    cases h with
    | list a b _ hl =>
      simp only [copyRec, bind, Except.bind, copyRecList_built cs hl, copyFrom, reset, pure, Except.pure]
    | mset amk _ hk hd =>
      have hl : BuiltList ac ap cs := by
        clear hd
        induction cs with
        | nil => exact .nil
        | cons c cs ih =>
          obtain ⟨c', s, q, rfl, hc⟩ := hk c (by simp)
          exact .cons (.leaf c' s q hc) (ih (fun x hx => hk x (by simp [hx])))
      simp only [copyRec, bind, Except.bind, copyRecList_built cs hl, copyFrom, reset, pure, Except.pure]
      have hpw : (resetList cs).Pairwise (fun a b => Tree.pyEq a b = false) := by
        rw [resetList_eq_map, List.pairwise_map]
        rw [List.pairwise_map] at hd
        refine List.Pairwise.imp_of_mem ?_ hd
        intro a b ha hb hne
        have ra := reset_keyLeaf (hk a ha)
        have rb := reset_keyLeaf (hk b hb)
        exact pyEq_keyLeaf ra.1 rb.1 (by rw [ra.2, rb.2]; exact hne)
      rw [mkCounter_id _ _ hpw]
    | dict py amk _ hk hd =>
      have hl := builtList_of_kvps cs hk
      simp only [copyRec, bind, Except.bind, copyRecList_built cs hl, copyFrom, reset, pure, Except.pure]
      have hpw : (resetList cs).Pairwise (fun a b => Tree.pyEq a b = false) := by
        rw [resetList_eq_map, List.pairwise_map]
        rw [List.pairwise_map] at hd
        refine List.Pairwise.imp_of_mem ?_ hd
        intro a b ha hb hne
        obtain ⟨kw, ake, k, v, rfl, hka⟩ := builtKvps_reset cs hk a ha
        obtain ⟨kw', ake', k', v', rfl, hkb⟩ := builtKvps_reset cs hk b hb
        simp only [kvpKey] at hne
        have ra := reset_keyLeaf hka
        have rb := reset_keyLeaf hkb
        simp only [reset, resetList, pyEq_kvp, pyEq_keyLeaf ra.1 rb.1 (by rw [ra.2, rb.2]; exact hne), Bool.false_and]
      rw [mkCounter_id _ _ hpw]
    | fdict py _ hk hd =>
      have hl := builtList_of_kvps cs hk
      simp only [copyRec, bind, Except.bind, copyRecList_built cs hl, copyFrom, reset, pure, Except.pure]
      have hpw : ((resetList cs).map (fun c => (kvpKey c, c))).Pairwise (fun a b => Tree.pyEq a.1 b.1 = false) := by
        rw [resetList_eq_map, List.pairwise_map, List.pairwise_map]
        rw [List.pairwise_map] at hd
        refine List.Pairwise.imp_of_mem ?_ hd
        intro a b ha hb hne
        obtain ⟨kw, ake, k, v, rfl, hka⟩ := builtKvps_reset cs hk a ha
        obtain ⟨kw', ake', k', v', rfl, hkb⟩ := builtKvps_reset cs hk b hb
        simp only [kvpKey] at hne
        have ra := reset_keyLeaf hka
        have rb := reset_keyLeaf hkb
        simp only [reset, resetList, kvpKey]
        exact pyEq_keyLeaf ra.1 rb.1 (by rw [ra.2, rb.2]; exact hne)
      rw [dictOf_id _ _ hpw, List.map_map]
      simp [Function.comp_def]
    | pyobj n a _ hn ha =>
      simp only [copyRec, copyRecList, bind, Except.bind, copyRec_built n hn, copyRec_built a ha, copyFrom, reset,
        resetList, pure, Except.pure]
    | kvp kw ake k v hk hv =>
      obtain ⟨c', s, q, rfl, hc⟩ := hk
      simp only [copyRec, copyRecList, bind, Except.bind, copyRec_built v hv, copyFrom, reset,
        resetList, pure, Except.pure]
      by_cases h0 : c' = .null
      · simp [h0, hc h0]
      · simp [h0]
theorem copyRecList_built {ac ap : Bool} : ∀ (cs : List Tree), BuiltList ac ap cs → copyRecList cs = .ok (resetList cs)
  | [], _ => rfl
  | t :: ts, h => by
    cases h with
    | cons h1 h2 =>
      simp only [copyRecList, bind, Except.bind, copyRec_built t h1, copyRecList_built ts h2, resetList, pure, Except.pure]
end


theorem builtList_iff {ac ap : Bool} : ∀ (cs : List Tree), BuiltList ac ap cs ↔ ∀ c ∈ cs, Built ac ap c
  | [] => ⟨fun _ c hc => by simp at hc, fun _ => .nil⟩
  | t :: ts => by
    constructor
    · intro h
      cases h with
      | cons h1 h2 =>
        intro c hc
        simp only [List.mem_cons] at hc
        cases hc with
        | inl h => subst h; exact h1
        | inr h => exact (builtList_iff ts).1 h2 c h
    · intro h
      exact .cons (h t (by simp)) ((builtList_iff ts).2 (fun c hc => h c (by simp [hc])))

theorem builtKvps_iff {ac ap : Bool} : ∀ (cs : List Tree), BuiltKvps ac ap cs ↔
    ∀ c ∈ cs, ∃ kw ake k v, c = .node (.kvp kw ake) [k, v] ∧ IsKeyLeaf k ∧ Built ac ap v
  | [] => ⟨fun _ c hc => by simp at hc, fun _ => .nil⟩
  | t :: ts => by
    constructor
    · intro h
      cases h with
      | cons hk hv hrest =>
        intro c hc
        simp only [List.mem_cons] at hc
        cases hc with
        | inl h => exact ⟨_, _, _, _, h, hk, hv⟩
        | inr h => exact (builtKvps_iff ts).1 hrest c h
    · intro h
      obtain ⟨kw, ake, k, v, rfl, hk, hv⟩ := h t (by simp)
      exact .cons hk hv ((builtKvps_iff ts).2 (fun c hc => h c (by simp [hc])))

/-- the mapping nodes are built trees -/
theorem mappingFrom_built {ac ap : Bool} (py : Bool) (o : Opts) (items : List (Tree × Tree)) (hg : GoodItems items)
    (hv : ∀ it ∈ items, Built ac ap it.2) (t : Tree) (hb : mappingFrom py o items = .ok t) : Built ac ap t := by
  have hk : ∀ ake, ∀ c ∈ items.map (fun p => kvpNode py ake p.1 p.2),
      ∃ kw ake' k v, c = .node (.kvp kw ake') [k, v] ∧ IsKeyLeaf k ∧ Built ac ap v := by
    intro ake c hc
    obtain ⟨it, hit, rfl⟩ := List.mem_map.1 hc
    exact ⟨py, ake, it.1, it.2, rfl, hg.keys it hit, hv it hit⟩
  have hd : ∀ ake, ((items.map (fun p => kvpNode py ake p.1 p.2)).map (fun c => leafEqc (kvpKey c))).Pairwise (· ≠ ·) := by
    intro ake
    have := hg.dist
    simpa [List.map_map, Function.comp_def, kvpNode, kvpKey] using this
  unfold mappingFrom at hb
  by_cases hake : o.ake = true
  · rw [if_pos hake] at hb
    simp only [dictNodeFrom, bind, Except.bind] at hb
    cases hs : pySorted kvpLt (items.map (fun p => kvpNode py true p.1 p.2)) with
    | error e => rw [hs] at hb; simp at hb
    | ok sorted =>
      rw [hs] at hb
      simp [pure, Except.pure] at hb
      have hperm := pySorted_perm kvpLt _ _ hs
      have hkvps_pw : (items.map (fun p => kvpNode py true p.1 p.2)).Pairwise
          (fun a b => Tree.pyEq a b = false ∧ Tree.pyEq b a = false) := by
        rw [List.pairwise_map]
        refine hg.pairwise.imp ?_
        intro a b hab
        simp only [kvpNode, pyEq_kvp, hab.1, hab.2, Bool.false_and, and_self]
      have hsorted_pw : sorted.Pairwise (fun a b => Tree.pyEq a b = false ∧ Tree.pyEq b a = false) :=
        (List.Perm.pairwise_iff (fun {a b} h => ⟨h.2, h.1⟩) hperm.symm).1 hkvps_pw
      rw [mkCounter_id _ _ (hsorted_pw.imp (fun h => h.1))] at hb
      rw [← hb]
      refine .dict py o.amk sorted ((builtKvps_iff sorted).2 (fun c hc => hk true c (hperm.subset hc))) ?_
      have hd' := hd true
      rw [List.pairwise_map] at hd' ⊢
      exact (List.Perm.pairwise_iff (fun {a b} (h : leafEqc (kvpKey a) ≠ leafEqc (kvpKey b)) => Ne.symm h) hperm.symm).1 hd'
  · rw [if_neg hake] at hb
    simp only [pure, Except.pure, fdictNodeFrom] at hb
    injection hb with hb
    have hpw : (items.map (fun p => (p.1, kvpNode py false p.1 p.2))).Pairwise
        (fun a b => Tree.pyEq a.1 b.1 = false) := by
      rw [List.pairwise_map]
      exact hg.pairwise.imp (fun h => h.1)
    rw [dictOf_id _ _ hpw, List.map_map] at hb
    rw [← hb]
    exact .fdict py _ ((builtKvps_iff _).2 (by simpa [Function.comp_def] using hk false))
      (by simpa [Function.comp_def] using hd false)

theorem scalarLeaf_built {ac ap : Bool} (s : Scalar) : Built ac ap (scalarLeaf s) := by
  unfold scalarLeaf
  cases s.kind with
  | none => exact .leaf _ _ _ (fun _ => rfl)
  | int => exact .leaf _ _ _ (fun h => by cases h)
  | bool => exact .leaf _ _ _ (fun h => by cases h)
  | float => exact .leaf _ _ _ (fun h => by cases h)
  | str => exact .leaf _ _ _ (fun h => by cases h)
  | bytes => exact .leaf _ _ _ (fun h => by cases h)

mutual
/-- what the builders make of a plain value is a built tree -/
theorem buildVal_built (o : Opts) : ∀ (v : PyVal), Plain v → ∀ t, buildVal o v = .ok t → Built false false t
  | .scalar mro s, _, t, hb => by
    simp [buildVal, pure, Except.pure] at hb
    subst hb
    exact scalarLeaf_built s
  | .list mro xs, h, t, hb => by
    simp only [Plain] at h
    simp only [buildVal, bind, Except.bind] at hb
    cases hl : buildValList o xs with
    | error e => rw [hl] at hb; simp at hb
    | ok ts =>
      rw [hl] at hb
      simp [pure, Except.pure] at hb
      subst hb
      exact .list _ _ _ (buildValList_built o xs h ts hl)
  | .tuple mro xs, h, t, hb => by
    simp only [Plain] at h
    simp only [buildVal, bind, Except.bind] at hb
    cases hl : buildValList o xs with
    | error e => rw [hl] at hb; simp at hb
    | ok ts =>
      rw [hl] at hb
      simp [pure, Except.pure] at hb
      subst hb
      exact .list _ _ _ (buildValList_built o xs h ts hl)
  | .set mro xs, h, t, hb => by
    simp only [Plain] at h
    obtain ⟨ts, h1, h2, h3, _⟩ := buildValList_scalars o xs h.1
    simp only [buildVal, bind, Except.bind, h1] at hb
    simp [pure, Except.pure] at hb
    have hd : (ts.map leafEqc).Pairwise (· ≠ ·) := by rw [h3]; exact h.2
    have hpw : ts.Pairwise (fun a b => Tree.pyEq a b = false) := by
      have hd' := hd
      rw [List.pairwise_map] at hd'
      exact List.Pairwise.imp_of_mem (fun ha hb hne => pyEq_keyLeaf (h2 _ ha) (h2 _ hb) hne) hd'
    rw [mkCounter_id _ _ hpw] at hb
    subst hb
    exact .mset _ _ h2 hd
  | .dict mro kvs, h, t, hb => by
    simp only [Plain] at h
    obtain ⟨ks, k1, k2, k3, k4⟩ := buildValKeys_scalars o kvs (plainPairs_keys kvs h.1)
    obtain ⟨vs, v1, v2⟩ := buildValVals_toObj o kvs h.1
    have hlk := forall2_length k4
    have hlv := forall2_length v2
    have hn : (ks ++ vs).length / 2 = ks.length := by simp [List.length_append]; omega
    have htake : List.take ((ks ++ vs).length / 2) (ks ++ vs) = ks := by rw [hn]; simp
    have hdrop : List.drop ((ks ++ vs).length / 2) (ks ++ vs) = vs := by rw [hn]; simp
    have hg : GoodItems (ks.zip vs) := by
      constructor
      · intro it hit
        exact k2 _ (List.of_mem_zip hit).1
      · have : (ks.zip vs).map (fun it => leafEqc it.1) = ks.map leafEqc := by
          have h1 : (ks.zip vs).map (fun it => leafEqc it.1) = ((ks.zip vs).map Prod.fst).map leafEqc := by
            rw [List.map_map]; rfl
          rw [h1, List.map_fst_zip (by omega)]
        rw [this, k3]; exact h.2
    simp only [buildVal, k1, v1, bind, Except.bind, buildDict, htake, hdrop, dictOf_good hg] at hb
    have hvb := buildValVals_built o kvs h.1 vs v1
    exact mappingFrom_built false o _ hg (fun it hit => (builtList_iff vs).1 hvb _ (List.of_mem_zip hit).2) t hb
  | .custom _ _ _, h, _, _ => by simp [Plain] at h
theorem buildValList_built (o : Opts) : ∀ (xs : List PyVal), PlainList xs → ∀ ts, buildValList o xs = .ok ts →
    BuiltList false false ts
  | [], _, ts, hb => by simp [buildValList, pure, Except.pure] at hb; subst hb; exact .nil
  | x :: xs, h, ts, hb => by
    simp only [PlainList] at h
    simp only [buildValList, bind, Except.bind] at hb
    cases h1 : buildVal o x with
    | error e => rw [h1] at hb; simp at hb
    | ok t =>
      rw [h1] at hb
      cases h2 : buildValList o xs with
      | error e => rw [h2] at hb; simp at hb
      | ok ts' =>
        rw [h2] at hb
        simp [pure, Except.pure] at hb
        subst hb
        exact .cons (buildVal_built o x h.1 t h1) (buildValList_built o xs h.2 ts' h2)
theorem buildValVals_built (o : Opts) : ∀ (kvs : List (PyVal × PyVal)), PlainPairs kvs → ∀ vs, buildValVals o kvs = .ok vs →
    BuiltList false false vs
  | [], _, vs, hb => by simp [buildValVals, pure, Except.pure] at hb; subst hb; exact .nil
  | (k, v) :: rest, h, vs, hb => by
    simp only [PlainPairs] at h
    simp only [buildValVals, bind, Except.bind] at hb
    cases h1 : buildVal o v with
    | error e => rw [h1] at hb; simp at hb
    | ok t =>
      rw [h1] at hb
      cases h2 : buildValVals o rest with
      | error e => rw [h2] at hb; simp at hb
      | ok vs' =>
        rw [h2] at hb
        simp [pure, Except.pure] at hb
        subst hb
        exact .cons (buildVal_built o v h.2.1 t h1) (buildValVals_built o rest h.2.2 vs' h2)
end

/-! ### `reset` keeps the plain value (no placeholders) -/

mutual
theorem toObj_reset {ap : Bool} : ∀ (t : Tree), Built false ap t → toObj (reset t) = toObj t
  | .leaf c s q, _ => by simp [reset, toObj]
  | .cyc r w, h => by cases h with | cyc _ _ h => simp at h
  | .node tag cs, h => by
    cases h with
    | list a b _ hl => simp only [reset, toObj, toObjList_reset cs hl]
    | mset amk _ hk hd =>
      have hl : BuiltList false ap cs := (builtList_iff cs).2 (fun c hc => by
        obtain ⟨c', s, q, rfl, h0⟩ := hk c hc
        exact .leaf c' s q h0)
      simp only [reset, toObj, toObjList_reset cs hl]
    | dict py amk _ hk hd => simp only [reset, toObj, toObjItems_reset cs hk]
    | fdict py _ hk hd => simp only [reset, toObj, toObjItems_reset cs hk]
    | pyobj n a _ hn ha =>
      cases n with
      | leaf c s q => simp only [reset, resetList, toObj, toObj_reset a ha]
      | cyc r w => simp only [reset, resetList, toObj]
      | node t' cs' => cases t' <;> simp only [reset, resetList, toObj]
    | kvp kw ake k v hk hv => simp only [reset, toObj]
theorem toObjList_reset {ap : Bool} : ∀ (cs : List Tree), BuiltList false ap cs → toObjList (resetList cs) = toObjList cs
  | [], _ => rfl
  | t :: ts, h => by
    cases h with
    | cons h1 h2 => simp only [resetList, toObjList, toObj_reset t h1, toObjList_reset ts h2]
theorem toObjItems_reset {ap : Bool} : ∀ (cs : List Tree), BuiltKvps false ap cs → toObjItems (resetList cs) = toObjItems cs
  | [], _ => rfl
  | t :: ts, h => by
    cases h with
    | cons hk hv hrest =>
      obtain ⟨c', s, q, rfl, _⟩ := hk
      simp only [resetList, reset, toObjItems, toObj, toObj_reset _ hv, toObjItems_reset ts hrest]
end


end GtModel.Builder

/-
  Python `__eq__` on nodes (`Tree.pyEq`) ignores the flags that `copy_from` drops, and is reflexive on built trees
  without placeholders / PyObj nodes: hence `copy() == tree`.
-/
import GtModel.Proofs.BuilderCopy

namespace GtModel.Builder


theorem all_zip_subtype {α β} {P : α → Prop} (f : α → β → Bool) :
    ∀ (l : List {x // P x}) (bs : List β),
      (l.zip bs).all (fun p => f p.1.val p.2) = ((l.map Subtype.val).zip bs).all (fun p => f p.1 p.2) := by
  intro l
  induction l with
  | nil => intro bs; rfl
  | cons a l ih =>
    intro bs
    cases bs with
    | nil => rfl
    | cons b bs => simp [ih]

theorem filter_length_subtype {α} {P : α → Prop} (g : α → Bool) :
    ∀ (l : List {x // P x}), (l.filter (fun y => g y.val)).length = ((l.map Subtype.val).filter g).length := by
  intro l
  induction l with
  | nil => rfl
  | cons a l ih =>
    simp only [List.filter_cons, List.map_cons]
    split <;> simp [ih]

theorem pyEq_node_tuple (ta tb : Tag) (ha : ta.ckind = .tuple) (hb : tb.ckind = .tuple) (as bs : List Tree) :
    Tree.pyEq (.node ta as) (.node tb bs) =
      (as.length == bs.length && (as.zip bs).all (fun p => Tree.pyEq p.1 p.2)) := by
  simp only [Tree.pyEq, ha, hb]
  rw [all_zip_subtype (fun x y => Tree.pyEq x y) as.attach bs, List.attach_map_subtype_val]

theorem pyEq_node_kvp (ta tb : Tag) (ha : ta.ckind = .kvp) (hb : tb.ckind = .kvp) (as bs : List Tree) :
    Tree.pyEq (.node ta as) (.node tb bs) =
      (as.length == bs.length && (as.zip bs).all (fun p => Tree.pyEq p.1 p.2)) := by
  simp only [Tree.pyEq, ha, hb]
  rw [all_zip_subtype (fun x y => Tree.pyEq x y) as.attach bs, List.attach_map_subtype_val]

theorem pyEq_node_counter (ta tb : Tag) (ha : ta.ckind = .counter) (hb : tb.ckind = .counter) (as bs : List Tree) :
    Tree.pyEq (.node ta as) (.node tb bs) =
      (as.length == bs.length && as.all (fun x => Tree.pyEq x x &&
          ((as.filter (fun y => Tree.pyEq x y)).length == (bs.filter (fun y => Tree.pyEq x y)).length))) := by
  simp [Tree.pyEq, ha, hb]
  congr 1
  congr 1
  funext x
  rw [filter_length_subtype (fun y => Tree.pyEq x y) as.attach, List.attach_map_subtype_val]

theorem pyEq_node_pdict (ta tb : Tag) (ha : ta.ckind = .pdict) (hb : tb.ckind = .pdict) (as bs : List Tree) :
    Tree.pyEq (.node ta as) (.node tb bs) =
      (as.length == bs.length && as.all (fun x => bs.any (fun y => Tree.pyEq x y))) := by
  simp [Tree.pyEq, ha, hb]

theorem pyEq_node_other (ta tb : Tag) (as bs : List Tree)
    (h : ta.ckind ≠ tb.ckind ∨ ta.ckind = .pyobj) : Tree.pyEq (.node ta as) (.node tb bs) = false := by
  cases hka : ta.ckind <;> cases hkb : tb.ckind <;> simp [Tree.pyEq, hka, hkb] <;> simp_all

theorem reset_node (t : Tag) (cs : List Tree) :
    ∃ t', reset (.node t cs) = .node t' (resetList cs) ∧ t'.ckind = t.ckind := by
  cases t with
  | list a b => exact ⟨.list true true, by simp [reset], rfl⟩
  | mset a => exact ⟨_, by simp [reset], rfl⟩
  | dict a b => exact ⟨_, by simp [reset], rfl⟩
  | fdict a => exact ⟨_, by simp [reset], rfl⟩
  | kvp a b => exact ⟨_, by simp [reset], rfl⟩
  | pyobj => exact ⟨_, by simp [reset], rfl⟩

theorem zip_all_congr {α} (f : α → α → Bool) (g : α → α) : ∀ (as bs : List α),
    (∀ x ∈ as, ∀ y, f x (g y) = f x y) →
    (as.zip (bs.map g)).all (fun p => f p.1 p.2) = (as.zip bs).all (fun p => f p.1 p.2) := by
  intro as
  induction as with
  | nil => intro bs _; rfl
  | cons a as ih =>
    intro bs h
    cases bs with
    | nil => rfl
    | cons b bs =>
      simp only [List.map_cons, List.zip_cons_cons, List.all_cons]
      rw [h a (by simp) b, ih bs (fun x hx => h x (by simp [hx]))]

theorem filter_len_map {α} (p : α → Bool) (g : α → α) (bs : List α) (h : ∀ y, p (g y) = p y) :
    ((bs.map g).filter p).length = (bs.filter p).length := by
  induction bs with
  | nil => rfl
  | cons b bs ih => simp only [List.map_cons, List.filter_cons, h b]; split <;> simp [ih]

theorem all_congr_mem {α} (l : List α) (p q : α → Bool) (h : ∀ x ∈ l, p x = q x) : l.all p = l.all q := by
  induction l with
  | nil => rfl
  | cons a l ih => simp only [List.all_cons, h a (by simp), ih (fun x hx => h x (by simp [hx]))]

mutual
/-- `==` does not look at the flags `copy_from` drops (right operand) -/
theorem pyEq_reset_right : ∀ (a b : Tree), Tree.pyEq a (reset b) = Tree.pyEq a b
  | .leaf c s q, b => by
    cases b with
    | leaf c' s' q' => simp [reset, pyEq_leaf]
    | cyc r w => simp [reset, Tree.pyEq]
    | node t cs => obtain ⟨t', h, _⟩ := reset_node t cs; rw [h]; simp [Tree.pyEq]
  | .cyc r w, b => by
    cases b with
    | leaf c' s' q' => simp [reset, Tree.pyEq]
    | cyc r w => simp [reset, Tree.pyEq]
    | node t cs => obtain ⟨t', h, _⟩ := reset_node t cs; rw [h]; simp [Tree.pyEq]
  | .node ta as, b => by
    cases b with
    | leaf c' s' q' => simp [reset, Tree.pyEq]
    | cyc r w => simp [reset, Tree.pyEq]
    | node tb bs =>
      obtain ⟨tb', h, hk⟩ := reset_node tb bs
      rw [h, resetList_eq_map]
      have hm := pyEq_reset_right_mem as
      by_cases hne : ta.ckind ≠ tb.ckind ∨ ta.ckind = .pyobj
      · rw [pyEq_node_other ta tb as bs hne, pyEq_node_other ta tb' as _ (by rw [hk]; exact hne)]
      · have heq : ta.ckind = tb.ckind := by
          apply Classical.byContradiction; intro h'; exact hne (.inl h')
        have hnp : ta.ckind ≠ .pyobj := fun h' => hne (.inr h')
        cases hka : ta.ckind with
        | pyobj => exact absurd hka hnp
        | tuple =>
          have hkb : tb.ckind = .tuple := by rw [← heq, hka]
          rw [pyEq_node_tuple ta tb hka hkb, pyEq_node_tuple ta tb' hka (by rw [hk, hkb]), List.length_map,
            zip_all_congr (fun x y => Tree.pyEq x y) reset as bs hm]
        | kvp =>
          have hkb : tb.ckind = .kvp := by rw [← heq, hka]
          rw [pyEq_node_kvp ta tb hka hkb, pyEq_node_kvp ta tb' hka (by rw [hk, hkb]), List.length_map,
            zip_all_congr (fun x y => Tree.pyEq x y) reset as bs hm]
        | counter =>
          have hkb : tb.ckind = .counter := by rw [← heq, hka]
          rw [pyEq_node_counter ta tb hka hkb, pyEq_node_counter ta tb' hka (by rw [hk, hkb]), List.length_map]
          congr 1
          apply all_congr_mem
          intro x hx
          rw [filter_len_map (fun y => Tree.pyEq x y) reset bs (hm x hx)]
        | pdict =>
          have hkb : tb.ckind = .pdict := by rw [← heq, hka]
          rw [pyEq_node_pdict ta tb hka hkb, pyEq_node_pdict ta tb' hka (by rw [hk, hkb]), List.length_map]
          congr 1
          apply all_congr_mem
          intro x hx
          rw [List.any_map]
          congr 1
          funext y
          exact hm x hx y
theorem pyEq_reset_right_mem : ∀ (as : List Tree), ∀ x ∈ as, ∀ b, Tree.pyEq x (reset b) = Tree.pyEq x b
  | [], x, hx, _ => by simp at hx
  | a :: as, x, hx, b => by
    simp only [List.mem_cons] at hx
    cases hx with
    | inl h => subst h; exact pyEq_reset_right x b
    | inr h => exact pyEq_reset_right_mem as x h b
end

theorem zip_all_congr_left {α} (f : α → α → Bool) (g : α → α) : ∀ (as bs : List α),
    (∀ x ∈ as, ∀ y, f (g x) y = f x y) →
    ((as.map g).zip bs).all (fun p => f p.1 p.2) = (as.zip bs).all (fun p => f p.1 p.2) := by
  intro as
  induction as with
  | nil => intro bs _; rfl
  | cons a as ih =>
    intro bs h
    cases bs with
    | nil => rfl
    | cons b bs =>
      simp only [List.map_cons, List.zip_cons_cons, List.all_cons]
      rw [h a (by simp) b, ih bs (fun x hx => h x (by simp [hx]))]

mutual
/-- `==` does not look at the flags `copy_from` drops (left operand) -/
theorem pyEq_reset_left : ∀ (a b : Tree), Tree.pyEq (reset a) b = Tree.pyEq a b
  | .leaf c s q, b => by
    cases b with
    | leaf c' s' q' => simp [reset, pyEq_leaf]
    | cyc r w => simp [reset, Tree.pyEq]
    | node t cs => simp [reset, Tree.pyEq]
  | .cyc r w, b => by
    cases b <;> simp [reset, Tree.pyEq]
  | .node ta as, b => by
    obtain ⟨ta', h, hk⟩ := reset_node ta as
    rw [h, resetList_eq_map]
    cases b with
    | leaf c' s' q' => simp [Tree.pyEq]
    | cyc r w => simp [Tree.pyEq]
    | node tb bs =>
      have hm := pyEq_reset_left_mem as
      have hfun : ∀ x ∈ as, (fun y => Tree.pyEq (reset x) y) = (fun y => Tree.pyEq x y) :=
        fun x hx => funext (hm x hx)
      by_cases hne : ta.ckind ≠ tb.ckind ∨ ta.ckind = .pyobj
      · rw [pyEq_node_other ta tb as bs hne, pyEq_node_other ta' tb _ bs (by rw [hk]; exact hne)]
      · have heq : ta.ckind = tb.ckind := by
          apply Classical.byContradiction; intro h'; exact hne (.inl h')
        have hnp : ta.ckind ≠ .pyobj := fun h' => hne (.inr h')
        cases hka : ta.ckind with
        | pyobj => exact absurd hka hnp
        | tuple =>
          have hkb : tb.ckind = .tuple := by rw [← heq, hka]
          rw [pyEq_node_tuple ta tb hka hkb, pyEq_node_tuple ta' tb (by rw [hk, hka]) hkb, List.length_map,
            zip_all_congr_left (fun x y => Tree.pyEq x y) reset as bs hm]
        | kvp =>
          have hkb : tb.ckind = .kvp := by rw [← heq, hka]
          rw [pyEq_node_kvp ta tb hka hkb, pyEq_node_kvp ta' tb (by rw [hk, hka]) hkb, List.length_map,
            zip_all_congr_left (fun x y => Tree.pyEq x y) reset as bs hm]
        | counter =>
          have hkb : tb.ckind = .counter := by rw [← heq, hka]
          rw [pyEq_node_counter ta tb hka hkb, pyEq_node_counter ta' tb (by rw [hk, hka]) hkb, List.length_map,
            List.all_map]
          congr 1
          apply all_congr_mem
          intro x hx
          simp only [Function.comp]
          rw [hm x hx (reset x), pyEq_reset_right x x, hfun x hx,
            filter_len_map (fun y => Tree.pyEq x y) reset as (fun y => pyEq_reset_right x y)]
        | pdict =>
          have hkb : tb.ckind = .pdict := by rw [← heq, hka]
          rw [pyEq_node_pdict ta tb hka hkb, pyEq_node_pdict ta' tb (by rw [hk, hka]) hkb, List.length_map,
            List.all_map]
          congr 1
          apply all_congr_mem
          intro x hx
          simp only [Function.comp]
          rw [hfun x hx]
theorem pyEq_reset_left_mem : ∀ (as : List Tree), ∀ x ∈ as, ∀ b, Tree.pyEq (reset x) b = Tree.pyEq x b
  | [], x, hx, _ => by simp at hx
  | a :: as, x, hx, b => by
    simp only [List.mem_cons] at hx
    cases hx with
    | inl h => subst h; exact pyEq_reset_left x b
    | inr h => exact pyEq_reset_left_mem as x h b
end

theorem zip_self_all {α} (f : α → α → Bool) : ∀ (as : List α), (∀ x ∈ as, f x x = true) →
    (as.zip as).all (fun p => f p.1 p.2) = true := by
  intro as
  induction as with
  | nil => intro _; rfl
  | cons a as ih =>
    intro h
    simp only [List.zip_cons_cons, List.all_cons, h a (by simp), ih (fun x hx => h x (by simp [hx])), Bool.and_self]

theorem keyLeaf_refl {t : Tree} (h : IsKeyLeaf t) : Tree.pyEq t t = true := by
  obtain ⟨c, s, q, rfl, _⟩ := h
  rw [pyEq_leaf]
  by_cases hc : c = .null <;> simp [hc]

mutual
/-- a built tree without placeholders and without `PyObj` nodes equals itself under `__eq__` -/
theorem pyEq_refl_built : ∀ (t : Tree), Built false false t → Tree.pyEq t t = true
  | .leaf c s q, h => by
    cases h with
    | leaf _ _ _ hc => exact keyLeaf_refl ⟨c, s, q, rfl, hc⟩
  | .cyc r w, h => by cases h with | cyc _ _ h => simp at h
  | .node tag cs, h => by
    cases h with
    | list a b _ hl =>
      rw [pyEq_node_tuple _ _ rfl rfl, zip_self_all _ cs (pyEq_refl_list cs hl)]
      simp
    | mset amk _ hk hd =>
      rw [pyEq_node_counter _ _ rfl rfl]
      simp only [beq_self_eq_true, Bool.true_and, List.all_eq_true, Bool.and_eq_true, and_true]
      intro x hx
      exact keyLeaf_refl (hk x hx)
    | dict py amk _ hk hd =>
      rw [pyEq_node_counter _ _ rfl rfl]
      simp only [beq_self_eq_true, Bool.true_and, List.all_eq_true, Bool.and_eq_true, and_true]
      exact pyEq_refl_kvps cs hk
    | fdict py _ hk hd =>
      rw [pyEq_node_pdict _ _ rfl rfl]
      simp only [beq_self_eq_true, Bool.true_and, List.all_eq_true, List.any_eq_true]
      intro x hx
      exact ⟨x, hx, pyEq_refl_kvps cs hk x hx⟩
    | pyobj n a hp _ _ => simp at hp
    | kvp kw ake k v hk hv => rw [pyEq_kvp, keyLeaf_refl hk, pyEq_refl_built v hv]; rfl
theorem pyEq_refl_list : ∀ (cs : List Tree), BuiltList false false cs → ∀ x ∈ cs, Tree.pyEq x x = true
  | [], _, x, hx => by simp at hx
  | t :: ts, h, x, hx => by
    cases h with
    | cons h1 h2 =>
      simp only [List.mem_cons] at hx
      cases hx with
      | inl h' => subst h'; exact pyEq_refl_built x h1
      | inr h' => exact pyEq_refl_list ts h2 x h'
theorem pyEq_refl_kvps : ∀ (cs : List Tree), BuiltKvps false false cs → ∀ x ∈ cs, Tree.pyEq x x = true
  | [], _, x, hx => by simp at hx
  | t :: ts, h, x, hx => by
    cases h with
    | cons hk hv hrest =>
      simp only [List.mem_cons] at hx
      cases hx with
      | inl h' => subst h'; rw [pyEq_kvp, keyLeaf_refl hk, pyEq_refl_built _ hv]; rfl
      | inr h' => exact pyEq_refl_kvps ts hrest x h'
end

/-- **`copy() == tree`** for built trees without placeholders / PyObj nodes -/
theorem pyEq_reset_self (t : Tree) (h : Built false false t) : Tree.pyEq (reset t) t = true := by
  rw [pyEq_reset_left, pyEq_refl_built t h]

end GtModel.Builder

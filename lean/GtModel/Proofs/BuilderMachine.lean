/-
  The work-stack machine of `Builder.build_tree` computes the path recursion `dfs`
  (same tree, same error), and the work-stack machine of `TreeNode.copy` computes `copyRec`.
-/
import GtModel.Model.Builder

namespace GtModel.Builder

/-! ### generalities on `runSteps` -/

variable (b : BKind) (o : Opts) (s : Store)

theorem runSteps_done (n : Nat) (t : Tree) : runSteps b o s n (.done t) = .done t := by
  cases n <;> simp [runSteps]

theorem runSteps_fail (n : Nat) (e : Err) : runSteps b o s n (.fail e) = .fail e := by
  cases n <;> simp [runSteps]

theorem runSteps_add (m n : Nat) (st : Step) :
    runSteps b o s (m + n) st = runSteps b o s n (runSteps b o s m st) := by
  induction m generalizing st with
  | zero => simp [runSteps]
  | succ m ih =>
    have : m + 1 + n = (m + n) + 1 := by omega
    rw [this]
    cases st with
    | cont w => simp [runSteps, ih]
    | done t => simp [runSteps, runSteps_done]
    | fail e => simp [runSteps, runSteps_fail]

/-- `st'` is reached from `st` after finitely many loop iterations -/
def Reaches (st st' : Step) : Prop := ∃ n, runSteps b o s n st = st'

theorem Reaches.refl (st : Step) : Reaches b o s st st := ⟨0, rfl⟩

theorem Reaches.trans {a c d : Step} (h1 : Reaches b o s a c) (h2 : Reaches b o s c d) : Reaches b o s a d := by
  obtain ⟨m, hm⟩ := h1
  obtain ⟨n, hn⟩ := h2
  exact ⟨m + n, by rw [runSteps_add, hm, hn]⟩

theorem Reaches.step (w : List Frame) : Reaches b o s (.cont w) (step b o s w) := ⟨1, rfl⟩

/-- what happens to a finished node: returned if the stack is empty, else appended to the parent's
`processed_children` -/
def deliver (t : Tree) : List Frame → Step
  | [] => .done t
  | p :: rest => .cont ({ p with processed := p.processed ++ [t] } :: rest)

theorem step_finish (x : Ref) (proc : List Tree) (rest : List Frame) :
    step b o s (⟨x, proc, []⟩ :: rest) =
      match buildNode b o s x proc with
      | .error e => .fail (.build e)
      | .ok t => deliver t rest := by
  simp only [step]
  cases buildNode b o s x proc with
  | error e => rfl
  | ok t => cases rest <;> rfl

theorem dfsChildren_cons (recur : Ref → Except Err Tree) (path : List Ref) (c : Ref) (cs : List Ref) :
    dfsChildren b o s recur path (c :: cs) =
      ((if (scans b o s (expand b s c) && path.contains c) = true then
          (if o.ign = true then Except.ok (Tree.cyc c 1) else Except.error Err.cycle)
        else recur c) >>= fun t => dfsChildren b o s recur path cs >>= fun ts => Except.ok (t :: ts)) := by
  simp only [dfsChildren]
  split
  · split <;> rfl
  · rfl

/-- the hypothesis on the recursive call used by the children loop -/
def SimHyp (recur : Ref → Except Err Tree) (x : Ref) (rest : List Frame) : Prop :=
  ∀ (c : Ref) (proc : List Tree) (more : List Ref),
    (∀ t, recur c = .ok t →
      Reaches b o s (.cont (⟨c, [], expand b s c⟩ :: ⟨x, proc, more⟩ :: rest))
        (.cont (⟨x, proc ++ [t], more⟩ :: rest))) ∧
    (∀ e, recur c = .error e → e ≠ .outOfFuel →
      Reaches b o s (.cont (⟨c, [], expand b s c⟩ :: ⟨x, proc, more⟩ :: rest)) (.fail e))

theorem children_sim (recur : Ref → Except Err Tree) (x : Ref) (rest : List Frame)
    (hyp : SimHyp b o s recur x rest) :
    ∀ (cs : List Ref) (proc : List Tree),
      (∀ ts, dfsChildren b o s recur (x :: rest.map (·.node)) cs = .ok ts →
        Reaches b o s (.cont (⟨x, proc, cs⟩ :: rest)) (.cont (⟨x, proc ++ ts, []⟩ :: rest))) ∧
      (∀ e, dfsChildren b o s recur (x :: rest.map (·.node)) cs = .error e → e ≠ .outOfFuel →
        Reaches b o s (.cont (⟨x, proc, cs⟩ :: rest)) (.fail e)) := by
  intro cs
  induction cs with
  | nil =>
    intro proc
    constructor
    · intro ts h
      simp [dfsChildren, pure, Except.pure] at h
      subst h
      simpa using Reaches.refl b o s _
    · intro e h
      simp [dfsChildren, pure, Except.pure] at h
  | cons c cs ih =>
    intro proc
    -- the machine's first iteration on this child
    by_cases hs : (scans b o s (expand b s c) && (x :: rest.map (·.node)).contains c) = true
    · -- the cycle scan fires
      by_cases hi : o.ign = true
      · have hstep : step b o s (⟨x, proc, c :: cs⟩ :: rest) = .cont (⟨x, proc ++ [.cyc c 1], cs⟩ :: rest) := by
          simp only [step]
          rw [if_pos hs, if_pos hi]
        obtain ⟨ih1, ih2⟩ := ih (proc ++ [.cyc c 1])
        constructor
        · intro ts h
          rw [dfsChildren_cons, if_pos hs, if_pos hi] at h
          simp only [bind, Except.bind] at h
          cases hrest : dfsChildren b o s recur (x :: rest.map (·.node)) cs with
          | error e => rw [hrest] at h; simp at h
          | ok ts' =>
            rw [hrest] at h
            simp at h
            subst h
            have := ih1 ts' hrest
            have h2 : Reaches b o s (.cont (⟨x, proc, c :: cs⟩ :: rest)) (.cont (⟨x, proc ++ [.cyc c 1], cs⟩ :: rest)) :=
              ⟨1, by simp [runSteps, hstep]⟩
            simpa using Reaches.trans b o s h2 this
        · intro e h hne
          rw [dfsChildren_cons, if_pos hs, if_pos hi] at h
          simp only [bind, Except.bind] at h
          cases hrest : dfsChildren b o s recur (x :: rest.map (·.node)) cs with
          | ok ts' => rw [hrest] at h; simp at h
          | error e' =>
            rw [hrest] at h
            simp at h
            subst h
            have h2 : Reaches b o s (.cont (⟨x, proc, c :: cs⟩ :: rest)) (.cont (⟨x, proc ++ [.cyc c 1], cs⟩ :: rest)) :=
              ⟨1, by simp [runSteps, hstep]⟩
            exact Reaches.trans b o s h2 (ih2 e' hrest hne)
      · have hi' : o.ign = false := by simpa using hi
        have hstep : step b o s (⟨x, proc, c :: cs⟩ :: rest) = .fail .cycle := by
          simp only [step]
          rw [if_pos hs, if_neg hi]
        constructor
        · intro ts h
          rw [dfsChildren_cons, if_pos hs, if_neg hi] at h
          simp [bind, Except.bind] at h
        · intro e h _
          rw [dfsChildren_cons, if_pos hs, if_neg hi] at h
          simp [bind, Except.bind] at h
          subst h
          exact ⟨1, by simp [runSteps, hstep]⟩
    · -- the child is pushed
      have hstep : step b o s (⟨x, proc, c :: cs⟩ :: rest) = .cont (⟨c, [], expand b s c⟩ :: ⟨x, proc, cs⟩ :: rest) := by
        simp only [step]
        rw [if_neg hs]
      have hpush : Reaches b o s (.cont (⟨x, proc, c :: cs⟩ :: rest)) (.cont (⟨c, [], expand b s c⟩ :: ⟨x, proc, cs⟩ :: rest)) :=
        ⟨1, by simp [runSteps, hstep]⟩
      obtain ⟨hy1, hy2⟩ := hyp c proc cs
      constructor
      · intro ts h
        rw [dfsChildren_cons, if_neg hs] at h
        simp only [bind, Except.bind] at h
        cases hc : recur c with
        | error e => rw [hc] at h; simp at h
        | ok t =>
          rw [hc] at h
          cases hrest : dfsChildren b o s recur (x :: rest.map (·.node)) cs with
          | error e => rw [hrest] at h; simp at h
          | ok ts' =>
            rw [hrest] at h
            simp at h
            subst h
            obtain ⟨ih1, _⟩ := ih (proc ++ [t])
            have := Reaches.trans b o s hpush (Reaches.trans b o s (hy1 t hc) (ih1 ts' hrest))
            simpa using this
      · intro e h hne
        rw [dfsChildren_cons, if_neg hs] at h
        simp only [bind, Except.bind] at h
        cases hc : recur c with
        | error e' =>
          rw [hc] at h
          simp at h
          subst h
          exact Reaches.trans b o s hpush (hy2 e' hc hne)
        | ok t =>
          rw [hc] at h
          cases hrest : dfsChildren b o s recur (x :: rest.map (·.node)) cs with
          | ok ts' => rw [hrest] at h; simp at h
          | error e' =>
            rw [hrest] at h
            simp at h
            subst h
            obtain ⟨_, ih2⟩ := ih (proc ++ [t])
            exact Reaches.trans b o s hpush (Reaches.trans b o s (hy1 t hc) (ih2 e' hrest hne))

/-- **Simulation.**  From the configuration in which `x` has just been pushed, the machine reaches the
configuration in which `x`'s tree has been delivered to its parent (or returned), resp. raises the same error. -/
theorem dfs_sim : ∀ (d : Nat) (x : Ref) (rest : List Frame),
    (∀ t, dfs b o s d (rest.map (·.node)) x = .ok t →
      Reaches b o s (.cont (⟨x, [], expand b s x⟩ :: rest)) (deliver t rest)) ∧
    (∀ e, dfs b o s d (rest.map (·.node)) x = .error e → e ≠ .outOfFuel →
      Reaches b o s (.cont (⟨x, [], expand b s x⟩ :: rest)) (.fail e)) := by
  intro d
  induction d with
  | zero =>
    intro x rest
    constructor
    · intro t h; simp [dfs, throw, throwThe, MonadExceptOf.throw] at h
    · intro e h hne
      simp [dfs, throw, throwThe, MonadExceptOf.throw] at h
      exact absurd h.symm hne
  | succ d ih =>
    intro x rest
    have hyp : SimHyp b o s (dfs b o s d (x :: rest.map (·.node))) x rest := by
      intro c proc more
      have := ih c (⟨x, proc, more⟩ :: rest)
      simpa [deliver] using this
    obtain ⟨cs1, cs2⟩ := children_sim b o s _ x rest hyp (expand b s x) []
    constructor
    · intro t h
      simp only [dfs, bind, Except.bind] at h
      cases hc : dfsChildren b o s (dfs b o s d (x :: rest.map (·.node))) (x :: rest.map (·.node)) (expand b s x) with
      | error e => rw [hc] at h; simp at h
      | ok ts =>
        rw [hc] at h
        simp at h
        have h1 := cs1 ts hc
        simp at h1
        have h2 : Reaches b o s (.cont (⟨x, ts, []⟩ :: rest)) (deliver t rest) :=
          ⟨1, by
            cases hb : buildNode b o s x ts with
            | error e' => rw [hb] at h; simp [liftB] at h
            | ok t' =>
              rw [hb] at h
              simp [liftB] at h
              subst h
              simp [runSteps, step_finish, hb]⟩
        exact Reaches.trans b o s h1 h2
    · intro e h hne
      simp only [dfs, bind, Except.bind] at h
      cases hc : dfsChildren b o s (dfs b o s d (x :: rest.map (·.node))) (x :: rest.map (·.node)) (expand b s x) with
      | error e' =>
        rw [hc] at h
        simp at h
        subst h
        exact cs2 e' hc hne
      | ok ts =>
        rw [hc] at h
        simp at h
        have h1 := cs1 ts hc
        simp at h1
        have h2 : Reaches b o s (.cont (⟨x, ts, []⟩ :: rest)) (.fail e) :=
          ⟨1, by
            cases hb : buildNode b o s x ts with
            | ok t' => rw [hb] at h; simp [liftB] at h
            | error e' =>
              rw [hb] at h
              simp [liftB] at h
              subst h
              simp [runSteps, step_finish, hb]⟩
        exact Reaches.trans b o s h1 h2

/-- the machine started by `build_tree(root)` returns what `dfs` returns -/
theorem buildTree_of_dfs (d : Nat) (root : Ref) (r : Except Err Tree)
    (h : dfs b o s d [] root = r) (hne : r ≠ .error .outOfFuel) :
    ∃ fuel, ∀ fuel' ≥ fuel, buildTree b o s fuel' root = r := by
  obtain ⟨h1, h2⟩ := dfs_sim b o s d root []
  cases r with
  | ok t =>
    obtain ⟨n, hn⟩ := h1 t (by simpa using h)
    refine ⟨n, fun fuel' hf => ?_⟩
    obtain ⟨k, rfl⟩ : ∃ k, fuel' = n + k := ⟨fuel' - n, by omega⟩
    simp [buildTree, initWork, runSteps_add, hn, deliver, runSteps_done]
  | error e =>
    have hne' : e ≠ .outOfFuel := fun h' => hne (by rw [h'])
    obtain ⟨n, hn⟩ := h2 e (by simpa using h) hne'
    refine ⟨n, fun fuel' hf => ?_⟩
    obtain ⟨k, rfl⟩ : ∃ k, fuel' = n + k := ⟨fuel' - n, by omega⟩
    simp [buildTree, initWork, runSteps_add, hn, runSteps_fail]

/-! ### `TreeNode.copy`: the work-stack machine computes `copyRec` -/

theorem copyRun_done (n : Nat) (t : Tree) : copyRun n (.done t) = .done t := by
  cases n <;> simp [copyRun]

theorem copyRun_fail (n : Nat) (e : BErr) : copyRun n (.fail e) = .fail e := by
  cases n <;> simp [copyRun]

theorem copyRun_add (m n : Nat) (st : CStep) : copyRun (m + n) st = copyRun n (copyRun m st) := by
  induction m generalizing st with
  | zero => simp [copyRun]
  | succ m ih =>
    have : m + 1 + n = (m + n) + 1 := by omega
    rw [this]
    cases st with
    | cont w => simp [copyRun, ih]
    | done t => simp [copyRun, copyRun_done]
    | fail e => simp [copyRun, copyRun_fail]

def CReaches (st st' : CStep) : Prop := ∃ n, copyRun n st = st'

theorem CReaches.refl (st : CStep) : CReaches st st := ⟨0, rfl⟩

theorem CReaches.trans {a c d : CStep} (h1 : CReaches a c) (h2 : CReaches c d) : CReaches a d := by
  obtain ⟨m, hm⟩ := h1
  obtain ⟨n, hn⟩ := h2
  exact ⟨m + n, by rw [copyRun_add, hm, hn]⟩

def cdeliver (t : Tree) : List CFrame → CStep
  | [] => .done t
  | p :: rest => .cont ({ p with processed := p.processed ++ [t] } :: rest)

theorem copyStep_finish (x : Tree) (proc : List Tree) (work : List CFrame) :
    copyStep (⟨x, proc, []⟩ :: work) =
      match copyFrom x proc with
      | .error e => .fail e
      | .ok t => cdeliver t work := by
  simp only [copyStep]
  cases copyFrom x proc with
  | error e => rfl
  | ok t => cases work <;> rfl

theorem copyRec_eq (t : Tree) : copyRec t = (copyRecList t.children >>= fun cs' => copyFrom t cs') := by
  cases t with
  | leaf c s q => simp [copyRec, copyRecList, Tree.children, bind, Except.bind, pure, Except.pure]
  | cyc r w => simp [copyRec, copyRecList, Tree.children, bind, Except.bind, pure, Except.pure]
  | node tg cs => simp [copyRec, Tree.children]

def CopyListSim (cs : List Tree) (node : Tree) (proc : List Tree) (work : List CFrame) : Prop :=
    (∀ ts, copyRecList cs = .ok ts →
      CReaches (.cont (⟨node, proc, cs⟩ :: work)) (.cont (⟨node, proc ++ ts, []⟩ :: work))) ∧
    (∀ e, copyRecList cs = .error e → CReaches (.cont (⟨node, proc, cs⟩ :: work)) (.fail e))

def CopySim (t : Tree) (work : List CFrame) : Prop :=
    (∀ t', copyRec t = .ok t' → CReaches (.cont (⟨t, [], t.children⟩ :: work)) (cdeliver t' work)) ∧
    (∀ e, copyRec t = .error e → CReaches (.cont (⟨t, [], t.children⟩ :: work)) (.fail e))

theorem copy_sim_of_list (t : Tree) (work : List CFrame) (hl : CopyListSim t.children t [] work) :
    CopySim t work := by
    unfold CopySim
    rw [copyRec_eq]
    obtain ⟨l1, l2⟩ := hl
    constructor
    · intro t' h
      simp only [bind, Except.bind] at h
      cases hc : copyRecList t.children with
      | error e => rw [hc] at h; simp at h
      | ok cs' =>
        rw [hc] at h
        simp at h
        have h1 := l1 cs' hc
        simp at h1
        exact CReaches.trans h1 ⟨1, by simp [copyRun, copyStep_finish, h]⟩
    · intro e h
      simp only [bind, Except.bind] at h
      cases hc : copyRecList t.children with
      | error e' =>
        rw [hc] at h
        simp at h
        subst h
        exact l2 e' hc
      | ok cs' =>
        rw [hc] at h
        simp at h
        have h1 := l1 cs' hc
        simp at h1
        exact CReaches.trans h1 ⟨1, by simp [copyRun, copyStep_finish, h]⟩

theorem copy_sim_list_nil (node : Tree) (proc : List Tree) (work : List CFrame) : CopyListSim [] node proc work := by
    constructor
    · intro ts h
      simp [copyRecList, pure, Except.pure] at h
      subst h
      simpa using CReaches.refl _
    · intro e h
      simp [copyRecList, pure, Except.pure] at h

mutual
theorem copy_sim : ∀ (t : Tree) (work : List CFrame), CopySim t work
  | .leaf _ _ _, work => copy_sim_of_list _ work (copy_sim_list_nil _ _ _)
  | .cyc _ _, work => copy_sim_of_list _ work (copy_sim_list_nil _ _ _)
  | .node tg cs, work => copy_sim_of_list _ work (copy_sim_list cs (.node tg cs) [] work)
theorem copy_sim_list : ∀ (cs : List Tree) (node : Tree) (proc : List Tree) (work : List CFrame),
    CopyListSim cs node proc work
  | [], node, proc, work => copy_sim_list_nil node proc work
  | c :: cs, node, proc, work => by
    have hc := copy_sim c (⟨node, proc, cs⟩ :: work)
    have hpush : CReaches (.cont (⟨node, proc, c :: cs⟩ :: work))
        (.cont (⟨c, [], c.children⟩ :: ⟨node, proc, cs⟩ :: work)) := ⟨1, by simp [copyRun, copyStep]⟩
    obtain ⟨c1, c2⟩ := hc
    constructor
    · intro ts h
      simp only [copyRecList, bind, Except.bind] at h
      cases h1 : copyRec c with
      | error e => rw [h1] at h; simp at h
      | ok t' =>
        rw [h1] at h
        cases h2 : copyRecList cs with
        | error e => rw [h2] at h; simp at h
        | ok ts' =>
          rw [h2] at h
          simp [pure, Except.pure] at h
          subst h
          obtain ⟨r1, _⟩ := copy_sim_list cs node (proc ++ [t']) work
          have := CReaches.trans hpush (CReaches.trans (c1 t' h1) (by simpa [cdeliver] using r1 ts' h2))
          simpa using this
    · intro e h
      simp only [copyRecList, bind, Except.bind] at h
      cases h1 : copyRec c with
      | error e' =>
        rw [h1] at h
        simp at h
        subst h
        exact CReaches.trans hpush (c2 e' h1)
      | ok t' =>
        rw [h1] at h
        cases h2 : copyRecList cs with
        | ok ts' => rw [h2] at h; simp [pure, Except.pure] at h
        | error e' =>
          rw [h2] at h
          simp at h
          subst h
          obtain ⟨_, r2⟩ := copy_sim_list cs node (proc ++ [t']) work
          exact CReaches.trans hpush (CReaches.trans (c1 t' h1) (by simpa [cdeliver] using r2 e' h2))
end

/-- `TreeNode.copy()` (the machine) returns what the recursion `copyRec` returns -/
theorem copyTree_of_copyRec (t : Tree) : ∃ fuel, ∀ fuel' ≥ fuel, copyTree fuel' t = liftB (copyRec t) := by
  obtain ⟨h1, h2⟩ := copy_sim t []
  cases hr : copyRec t with
  | ok t' =>
    obtain ⟨n, hn⟩ := h1 t' hr
    refine ⟨n, fun fuel' hf => ?_⟩
    obtain ⟨k, rfl⟩ : ∃ k, fuel' = n + k := ⟨fuel' - n, by omega⟩
    simp [copyTree, copyInit, copyRun_add, hn, cdeliver, copyRun_done, liftB]
  | error e =>
    obtain ⟨n, hn⟩ := h2 e hr
    refine ⟨n, fun fuel' hf => ?_⟩
    obtain ⟨k, rfl⟩ : ∃ k, fuel' = n + k := ⟨fuel' - n, by omega⟩
    simp [copyTree, copyInit, copyRun_add, hn, copyRun_fail, liftB]

end GtModel.Builder

/-
  Lemmas for `to_obj (build x) = normalise x`: no-collapse of `dictOf` / `mkCounter` on pairwise distinct keys,
  CPython's `sorted` returns a permutation, transport of element-wise relations along permutations.
-/
import GtModel.Model.Builder

namespace GtModel.Builder

/-! ### insertion-ordered dict / Counter without equal keys -/

theorem dictInsert_fresh {κ ν} (eq : κ → κ → Bool) (k : κ) (v : ν) :
    ∀ (acc : List (κ × ν)), (∀ p ∈ acc, eq p.1 k = false) → dictInsert eq k v acc = acc ++ [(k, v)] := by
  intro acc
  induction acc with
  | nil => intro _; rfl
  | cons p acc ih =>
    intro h
    obtain ⟨k0, v0⟩ := p
    have h0 : eq k0 k = false := h (k0, v0) (by simp)
    simp only [dictInsert, h0, Bool.false_eq_true, if_false, List.cons_append]
    rw [ih (fun p hp => h p (by simp [hp]))]

theorem dictOf_aux {κ ν} (eq : κ → κ → Bool) : ∀ (kvs acc : List (κ × ν)),
    (acc ++ kvs).Pairwise (fun a b => eq a.1 b.1 = false) →
    kvs.foldl (fun acc p => dictInsert eq p.1 p.2 acc) acc = acc ++ kvs := by
  intro kvs
  induction kvs with
  | nil => intro acc _; simp
  | cons p kvs ih =>
    intro acc h
    simp only [List.foldl_cons]
    have hfresh : ∀ q ∈ acc, eq q.1 p.1 = false := by
      intro q hq
      rw [List.pairwise_append] at h
      exact h.2.2 q hq p (by simp)
    rw [dictInsert_fresh eq p.1 p.2 acc hfresh, ih (acc ++ [p]) (by simpa using h)]
    simp

/-- no two keys equal ⇒ `dict(kvs)` keeps every entry, in order -/
theorem dictOf_id {κ ν} (eq : κ → κ → Bool) (kvs : List (κ × ν))
    (h : kvs.Pairwise (fun a b => eq a.1 b.1 = false)) : dictOf eq kvs = kvs := by
  simpa [dictOf] using dictOf_aux eq kvs [] (by simpa using h)

theorem counterAdd_fresh {α} (eq : α → α → Bool) (x : α) :
    ∀ (acc : List (α × Nat)), (∀ p ∈ acc, eq p.1 x = false) → counterAdd eq x acc = acc ++ [(x, 1)] := by
  intro acc
  induction acc with
  | nil => intro _; rfl
  | cons p acc ih =>
    intro h
    obtain ⟨y, n⟩ := p
    have h0 : eq y x = false := h (y, n) (by simp)
    simp only [counterAdd, h0, Bool.false_eq_true, if_false, List.cons_append]
    rw [ih (fun p hp => h p (by simp [hp]))]

theorem counterOf_aux {α} (eq : α → α → Bool) : ∀ (xs : List α) (acc : List (α × Nat)),
    (acc.map (·.1) ++ xs).Pairwise (fun a b => eq a b = false) →
    xs.foldl (fun acc x => counterAdd eq x acc) acc = acc ++ xs.map (fun x => (x, 1)) := by
  intro xs
  induction xs with
  | nil => intro acc _; simp
  | cons x xs ih =>
    intro acc h
    simp only [List.foldl_cons]
    have hfresh : ∀ q ∈ acc, eq q.1 x = false := by
      intro q hq
      rw [List.pairwise_append] at h
      exact h.2.2 q.1 (List.mem_map.2 ⟨q, hq, rfl⟩) x (by simp)
    rw [counterAdd_fresh eq x acc hfresh, ih (acc ++ [(x, 1)]) (by simpa using h)]
    simp

/-- no two elements equal ⇒ `list(Counter(xs).elements()) = xs` -/
theorem mkCounter_id {α} (eq : α → α → Bool) (xs : List α) (h : xs.Pairwise (fun a b => eq a b = false)) :
    mkCounter eq xs = xs := by
  have := counterOf_aux eq xs [] (by simpa using h)
  simp only [mkCounter, counterOf, this, List.nil_append, counterElems]
  induction xs with
  | nil => rfl
  | cons x xs ih =>
    simp only [List.map_cons, List.flatMap_cons, List.replicate_one, List.singleton_append, List.cons.injEq, true_and]
    exact ih (List.Pairwise.of_cons h) (counterOf_aux eq xs [] (by simpa using List.Pairwise.of_cons h))

/-! ### CPython's `sorted` returns a permutation of its input -/

section
variable {α : Type} (lt : α → α → Except BErr Bool)

theorem takeRun_append (desc : Bool) : ∀ (xs : List α) (prev : α) (r rest : List α),
    takeRun lt desc prev xs = .ok (r, rest) → r ++ rest = xs := by
  intro xs
  induction xs with
  | nil => intro prev r rest h; simp [takeRun, pure, Except.pure] at h; simp [h.1, h.2]
  | cons x xs ih =>
    intro prev r rest h
    simp only [takeRun, bind, Except.bind] at h
    cases hb : lt x prev with
    | error e => rw [hb] at h; simp at h
    | ok bv =>
      rw [hb] at h
      by_cases hd : (bv == desc) = true
      · simp only [hd, if_true] at h
        cases hr : takeRun lt desc x xs with
        | error e => rw [hr] at h; simp at h
        | ok pr =>
          obtain ⟨r', rest'⟩ := pr
          rw [hr] at h
          simp [pure, Except.pure] at h
          obtain ⟨rfl, rfl⟩ := h
          simp [ih x r' rest' hr]
      · simp only [hd] at h
        simp [pure, Except.pure] at h
        obtain ⟨rfl, rfl⟩ := h
        simp

theorem binInsertAll_perm : ∀ (ps sorted out : List α),
    binInsertAll lt sorted ps = .ok out → out.Perm (sorted ++ ps) := by
  intro ps
  induction ps with
  | nil => intro sorted out h; simp [binInsertAll, pure, Except.pure] at h; simp [h]
  | cons p ps ih =>
    intro sorted out h
    simp only [binInsertAll, bind, Except.bind] at h
    cases hb : bsearch lt p sorted.toArray 0 sorted.length with
    | error e => rw [hb] at h; simp at h
    | ok pos =>
      rw [hb] at h
      have := ih _ _ h
      refine this.trans ?_
      have h1 : (List.take pos sorted ++ p :: List.drop pos sorted).Perm (p :: sorted) := by
        have : (List.take pos sorted ++ p :: List.drop pos sorted).Perm (p :: (List.take pos sorted ++ List.drop pos sorted)) :=
          List.perm_middle
        simpa using this
      have h2 : (List.take pos sorted ++ p :: List.drop pos sorted ++ ps).Perm ((p :: sorted) ++ ps) :=
        List.Perm.append_right ps h1
      refine h2.trans ?_
      simpa using (List.perm_middle (l₁ := sorted) (l₂ := ps) (a := p)).symm

/-- `sorted(xs)` is a permutation of `xs` (whatever the comparison answers) -/
theorem pySorted_perm : ∀ (xs out : List α), pySorted lt xs = .ok out → out.Perm xs := by
  intro xs out h
  match xs with
  | [] => simp [pySorted, pure, Except.pure] at h; simp [h]
  | [a] => simp [pySorted, pure, Except.pure] at h; simp [h]
  | a :: b :: rest =>
    simp only [pySorted, bind, Except.bind] at h
    cases hd : lt b a with
    | error e => rw [hd] at h; simp at h
    | ok d =>
      rw [hd] at h
      simp only at h
      cases hr : takeRun lt d b rest with
      | error e => rw [hr] at h; simp at h
      | ok pr =>
        obtain ⟨r, rest'⟩ := pr
        rw [hr] at h
        simp only at h
        have happ := takeRun_append lt d rest b r rest' hr
        have hp := binInsertAll_perm lt _ _ _ h
        refine hp.trans ?_
        subst happ
        cases d
        · simp
        · simp only [if_true]
          have : (a :: b :: r).reverse.Perm (a :: b :: r) := List.reverse_perm _
          simpa using List.Perm.append_right rest' this

end

/-! ### element-wise relations along permutations -/

inductive Forall2 {α β} (R : α → β → Prop) : List α → List β → Prop where
  | nil : Forall2 R [] []
  | cons {a b l r} : R a b → Forall2 R l r → Forall2 R (a :: l) (b :: r)

theorem forall2_perm {α β} {R : α → β → Prop} {l1 l2 : List α} (hp : l1.Perm l2) :
    ∀ {r1 : List β}, Forall2 R l1 r1 → ∃ r2, Forall2 R l2 r2 ∧ r1.Perm r2 := by
  induction hp with
  | nil => intro r1 h; cases h; exact ⟨[], .nil, .refl _⟩
  | cons x _ ih =>
    intro r1 h
    cases h with
    | cons hxy hrest =>
      obtain ⟨r2, h2, hp2⟩ := ih hrest
      exact ⟨_ :: r2, .cons hxy h2, .cons _ hp2⟩
  | swap x y l =>
    intro r1 h
    cases h with
    | cons hy hrest =>
      cases hrest with
      | cons hx hrest' => exact ⟨_ :: _ :: _, .cons hx (.cons hy hrest'), .swap _ _ _⟩
  | trans _ _ ih1 ih2 =>
    intro r1 h
    obtain ⟨r2, h2, hp2⟩ := ih1 h
    obtain ⟨r3, h3, hp3⟩ := ih2 h2
    exact ⟨r3, h3, hp2.trans hp3⟩

/-! ### equality of plain values up to the order of dict entries / multiset elements (Python `==`) -/

mutual
inductive ObjEquiv : Obj → Obj → Prop where
  | scalar (s : Scalar) : ObjEquiv (.scalar s) (.scalar s)
  | list {xs ys} : ObjEquivList xs ys → ObjEquiv (.list xs) (.list ys)
  | mset {xs zs ys} : ObjEquivList xs zs → zs.Perm ys → ObjEquiv (.mset xs) (.mset ys)
  | dict {kvs zs ws} : ObjEquivPairs kvs zs → zs.Perm ws → ObjEquiv (.dict kvs) (.dict ws)
inductive ObjEquivList : List Obj → List Obj → Prop where
  | nil : ObjEquivList [] []
  | cons {x y xs ys} : ObjEquiv x y → ObjEquivList xs ys → ObjEquivList (x :: xs) (y :: ys)
inductive ObjEquivPairs : List (Obj × Obj) → List (Obj × Obj) → Prop where
  | nil : ObjEquivPairs [] []
  | cons {k v k' v' xs ys} : ObjEquiv k k' → ObjEquiv v v' → ObjEquivPairs xs ys →
      ObjEquivPairs ((k, v) :: xs) ((k', v') :: ys)
end

theorem objEquivList_of_forall2 {xs ys : List Obj} (h : Forall2 ObjEquiv xs ys) : ObjEquivList xs ys := by
  induction h with
  | nil => exact .nil
  | cons h _ ih => exact .cons h ih

theorem forall2_of_objEquivList {xs ys : List Obj} (h : ObjEquivList xs ys) : Forall2 ObjEquiv xs ys := by
  induction xs generalizing ys with
  | nil => cases h; exact .nil
  | cons x xs ih => cases h with | cons h1 h2 => exact .cons h1 (ih h2)

def PairEquiv (a b : Obj × Obj) : Prop := ObjEquiv a.1 b.1 ∧ ObjEquiv a.2 b.2

theorem objEquivPairs_of_forall2 {xs ys : List (Obj × Obj)} (h : Forall2 PairEquiv xs ys) : ObjEquivPairs xs ys := by
  induction h with
  | nil => exact .nil
  | cons h _ ih => exact .cons h.1 h.2 ih

theorem forall2_of_objEquivPairs {xs ys : List (Obj × Obj)} (h : ObjEquivPairs xs ys) : Forall2 PairEquiv xs ys := by
  induction xs generalizing ys with
  | nil => cases h; exact .nil
  | cons x xs ih => cases h with | cons h1 h2 h3 => exact .cons ⟨h1, h2⟩ (ih h3)

/-- permuting the left dict keeps it equivalent -/
theorem ObjEquiv.dict_perm {rs rs' N : List (Obj × Obj)} (hp : rs.Perm rs') (h : ObjEquivPairs rs N) :
    ObjEquiv (.dict rs') (.dict N) := by
  obtain ⟨zs, hz, hpz⟩ := forall2_perm hp (forall2_of_objEquivPairs h)
  exact .dict (objEquivPairs_of_forall2 hz) hpz.symm

theorem ObjEquiv.mset_perm {rs rs' N : List Obj} (hp : rs.Perm rs') (h : ObjEquivList rs N) :
    ObjEquiv (.mset rs') (.mset N) := by
  obtain ⟨zs, hz, hpz⟩ := forall2_perm hp (forall2_of_objEquivList h)
  exact .mset (objEquivList_of_forall2 hz) hpz.symm

/-! ### `toObjList` / `toObjItems` as element-wise relations -/

theorem toObjList_forall2 : ∀ (ts : List Tree) (xs : List Obj),
    toObjList ts = .ok xs ↔ Forall2 (fun t x => toObj t = .ok x) ts xs := by
  intro ts
  induction ts with
  | nil =>
    intro xs
    constructor
    · intro h; simp [toObjList, pure, Except.pure] at h; subst h; exact .nil
    · intro h; cases h; rfl
  | cons t ts ih =>
    intro xs
    constructor
    · intro h
      simp only [toObjList, bind, Except.bind] at h
      cases h1 : toObj t with
      | error e => rw [h1] at h; simp at h
      | ok x =>
        rw [h1] at h
        cases h2 : toObjList ts with
        | error e => rw [h2] at h; simp at h
        | ok xs' =>
          rw [h2] at h
          simp [pure, Except.pure] at h
          subst h
          exact .cons h1 ((ih xs').1 h2)
    · intro h
      cases h with
      | cons h1 h2 =>
        simp only [toObjList, bind, Except.bind, h1, (ih _).2 h2]
        rfl

/-- the key/value reading of one mapping child -/
def KvObj (t : Tree) (kv : Obj × Obj) : Prop :=
  ∃ kw ake k v, t = .node (.kvp kw ake) [k, v] ∧ toObj k = .ok kv.1 ∧ toObj v = .ok kv.2

theorem toObjItems_of_forall2 : ∀ (ts : List Tree) (rs : List (Obj × Obj)),
    Forall2 KvObj ts rs → toObjItems ts = .ok rs := by
  intro ts rs h
  induction h with
  | nil => rfl
  | cons h1 _ ih =>
    obtain ⟨kw, ake, k, v, rfl, hk, hv⟩ := h1
    simp only [toObjItems, bind, Except.bind, hk, hv, ih]
    rfl

theorem forall2_mem_right {α β} {R : α → β → Prop} {l : List α} {rs : List β} (h : Forall2 R l rs) :
    ∀ r ∈ rs, ∃ a ∈ l, R a r := by
  induction h with
  | nil => intro r hr; simp at hr
  | cons h1 _ ih =>
    intro r hr
    simp only [List.mem_cons] at hr
    cases hr with
    | inl h => subst h; exact ⟨_, by simp, h1⟩
    | inr h => obtain ⟨a, ha, hR⟩ := ih r h; exact ⟨a, by simp [ha], hR⟩

theorem forall2_pairwise {α β} {R : α → β → Prop} {P : α → α → Prop} {Q : β → β → Prop}
    (hPQ : ∀ a b r r', R a r → R b r' → P a b → Q r r') {l : List α} {rs : List β}
    (h : Forall2 R l rs) : l.Pairwise P → rs.Pairwise Q := by
  induction h with
  | nil => intro _; exact .nil
  | cons h1 h2 ih =>
    intro hp
    rw [List.pairwise_cons] at hp ⊢
    refine ⟨?_, ih hp.2⟩
    intro r' hr'
    obtain ⟨b, hb, hR⟩ := forall2_mem_right h2 r' hr'
    exact hPQ _ _ _ _ h1 hR (hp.1 b hb)

theorem forall2_map_left {α β γ} {R : γ → β → Prop} (f : α → γ) {l : List α} {rs : List β}
    (h : Forall2 (fun a r => R (f a) r) l rs) : Forall2 R (l.map f) rs := by
  induction h with
  | nil => exact .nil
  | cons h1 _ ih => exact .cons h1 ih

/-! ### mappings with pairwise distinct leaf keys -/

theorem pyEq_leaf (ca cb : LeafCls) (sa sb : Scalar) (qa qb : Bool) :
    Tree.pyEq (.leaf ca sa qa) (.leaf cb sb qb) =
      if ca = .null then decide (cb = .null)
      else ((decide (sa.kind = .bool) == decide (sb.kind = .bool)) && sa.eqc == sb.eqc) := by
  simp [Tree.pyEq]

theorem pyEq_kvp (kw ake kw' ake' : Bool) (k v k' v' : Tree) :
    Tree.pyEq (.node (.kvp kw ake) [k, v]) (.node (.kvp kw' ake') [k', v']) = (Tree.pyEq k k' && Tree.pyEq v v') := by
  simp [Tree.pyEq, Tag.ckind]

def leafEqc : Tree → String
  | .leaf _ s _ => s.eqc
  | _ => ""

/-- a dictionary key / set member node: a leaf; a `NullNode` always wraps `None` -/
def IsKeyLeaf (t : Tree) : Prop := ∃ c s q, t = .leaf c s q ∧ (c = .null → s = Scalar.none)

theorem pyEq_keyLeaf {a b : Tree} (ha : IsKeyLeaf a) (hb : IsKeyLeaf b) (hne : leafEqc a ≠ leafEqc b) :
    Tree.pyEq a b = false := by
  obtain ⟨c, s, q, rfl, hc⟩ := ha
  obtain ⟨c', s', q', rfl, hc'⟩ := hb
  rw [pyEq_leaf]
  simp only [leafEqc] at hne
  by_cases h : c = .null
  · rw [if_pos h]
    by_cases h' : c' = .null
    · rw [hc h, hc' h'] at hne; exact absurd rfl hne
    · simp [h']
  · rw [if_neg h]
    simp [hne]

/-- symmetric "different dictionary keys" -/
def KeyNe (a b : Tree × Tree) : Prop := Tree.pyEq a.1 b.1 = false ∧ Tree.pyEq b.1 a.1 = false

structure GoodItems (items : List (Tree × Tree)) : Prop where
  keys : ∀ it ∈ items, IsKeyLeaf it.1
  dist : (items.map (fun it => leafEqc it.1)).Pairwise (· ≠ ·)

theorem GoodItems.pairwise {items : List (Tree × Tree)} (h : GoodItems items) : items.Pairwise KeyNe := by
  have hd := h.dist
  rw [List.pairwise_map] at hd
  refine List.Pairwise.imp_of_mem ?_ hd
  intro a b ha hb hne
  exact ⟨pyEq_keyLeaf (h.keys a ha) (h.keys b hb) hne, pyEq_keyLeaf (h.keys b hb) (h.keys a ha) (Ne.symm hne)⟩

theorem dictOf_good {items : List (Tree × Tree)} (h : GoodItems items) : dictOf Tree.pyEq items = items :=
  dictOf_id _ _ (h.pairwise.imp (fun hk => hk.1))

theorem toObj_keyLeaf {t : Tree} (h : IsKeyLeaf t) : ∃ s, toObj t = .ok (.scalar s) ∧ s.eqc = leafEqc t := by
  obtain ⟨c, s, q, rfl, _⟩ := h
  exact ⟨s, by simp [toObj, pure, Except.pure], rfl⟩

/-- symmetric "different keys" on plain values -/
def ObjKeyNe (a b : Obj × Obj) : Prop := Obj.keyEq a.1 b.1 = false ∧ Obj.keyEq b.1 a.1 = false

theorem keyEq_scalar (a b : Scalar) : Obj.keyEq (.scalar a) (.scalar b) = (a.eqc == b.eqc) := by
  simp [Obj.keyEq]

/-- the per-item reading: `toObj` of the key and of the value -/
def ItemObj (it : Tree × Tree) (r : Obj × Obj) : Prop := toObj it.1 = .ok r.1 ∧ toObj it.2 = .ok r.2

/-- **Mapping lemma.**  A `DictNode` / `FixedKeyDictNode` (or pydiff attribute mapping) built from items whose keys
are pairwise distinct leaves reads back, by `to_obj()`, as the dict of the items' values — up to the order chosen
by `sorted` for a `DictNode`. -/
theorem mappingFrom_toObj (py : Bool) (o : Opts) (items : List (Tree × Tree)) (rs : List (Obj × Obj))
    (hg : GoodItems items) (hobj : Forall2 ItemObj items rs) (t : Tree)
    (hb : mappingFrom py o items = .ok t) : ∃ rs', toObj t = .ok (.dict rs') ∧ rs.Perm rs' := by
  -- the value side: keys are scalars, pairwise different
  have hrs_scalar : ∀ r ∈ rs, ∃ s, r.1 = .scalar s := by
    intro r hr
    obtain ⟨it, hit, hi⟩ := forall2_mem_right hobj r hr
    obtain ⟨s, hs, _⟩ := toObj_keyLeaf (hg.keys it hit)
    have h1 : toObj it.1 = .ok r.1 := hi.1
    rw [hs] at h1
    exact ⟨s, by simp at h1; exact h1.symm⟩
  have hrs_pw : rs.Pairwise ObjKeyNe := by
    have hd := hg.dist
    rw [List.pairwise_map] at hd
    have hd' : items.Pairwise (fun a b => IsKeyLeaf a.1 ∧ IsKeyLeaf b.1 ∧ leafEqc a.1 ≠ leafEqc b.1) :=
      List.Pairwise.imp_of_mem (fun ha hb hne => ⟨hg.keys _ ha, hg.keys _ hb, hne⟩) hd
    refine forall2_pairwise ?_ hobj hd'
    intro a b r r' hra hrb hab
    obtain ⟨ha, hb, hne⟩ := hab
    obtain ⟨s, hs, hse⟩ := toObj_keyLeaf ha
    obtain ⟨s', hs', hse'⟩ := toObj_keyLeaf hb
    have e1 : r.1 = .scalar s := by
      have h1 : toObj a.1 = .ok r.1 := hra.1
      rw [hs] at h1; simp at h1; exact h1.symm
    have e2 : r'.1 = .scalar s' := by
      have h1 : toObj b.1 = .ok r'.1 := hrb.1
      rw [hs'] at h1; simp at h1; exact h1.symm
    unfold ObjKeyNe
    rw [e1, e2, keyEq_scalar, keyEq_scalar, hse, hse']
    constructor
    · simpa using hne
    · simpa using Ne.symm hne
  -- reading any permutation of the key/value-pair children
  have read : ∀ (tag : Tag) (cs : List Tree) (rs' : List (Obj × Obj)), (tag = .dict py o.amk ∨ tag = .fdict py) →
      Forall2 KvObj cs rs' → rs.Perm rs' → toObj (.node tag cs) = .ok (.dict rs') := by
    intro tag cs rs' htag hcs hperm
    have hitems := toObjItems_of_forall2 cs rs' hcs
    have hhash : rs'.all (fun p => p.1.hashable) = true := by
      rw [List.all_eq_true]
      intro r hr
      obtain ⟨s, hs⟩ := hrs_scalar r (hperm.symm.subset hr)
      rw [hs]; rfl
    have hpw' : rs'.Pairwise ObjKeyNe :=
      (List.Perm.pairwise_iff (fun {a b} (h : ObjKeyNe a b) => (⟨h.2, h.1⟩ : ObjKeyNe b a)) hperm).1 hrs_pw
    have hid : dictOf Obj.keyEq rs' = rs' := dictOf_id _ _ (hpw'.imp (fun hk => hk.1))
    cases htag with
    | inl h => subst h; simp [toObj, hitems, hhash, hid, bind, Except.bind, pure, Except.pure]
    | inr h => subst h; simp [toObj, hitems, hhash, hid, bind, Except.bind, pure, Except.pure]
  have hkv : ∀ ake, Forall2 KvObj (items.map (fun p => kvpNode py ake p.1 p.2)) rs := by
    intro ake
    apply forall2_map_left
    have : ∀ {l r}, Forall2 ItemObj l r →
        Forall2 (fun (a : Tree × Tree) (r : Obj × Obj) => KvObj (kvpNode py ake a.1 a.2) r) l r := by
      intro l r h
      induction h with
      | nil => exact .nil
      | cons h1 _ ih => exact .cons ⟨py, ake, _, _, rfl, h1.1, h1.2⟩ ih
    exact this hobj
  unfold mappingFrom at hb
  by_cases hake : o.ake = true
  · -- DictNode: sorted, then a Counter
    rw [if_pos hake] at hb
    simp only [dictNodeFrom, bind, Except.bind] at hb
    cases hs : pySorted kvpLt (items.map (fun p => kvpNode py true p.1 p.2)) with
    | error e => rw [hs] at hb; simp at hb
    | ok sorted =>
      rw [hs] at hb
      simp [pure, Except.pure] at hb
      have hperm := pySorted_perm kvpLt _ _ hs
      -- the key/value pairs are pairwise different nodes, so the Counter keeps them all, in order
      have hkvps_pw : (items.map (fun p => kvpNode py true p.1 p.2)).Pairwise
          (fun a b => Tree.pyEq a b = false ∧ Tree.pyEq b a = false) := by
        rw [List.pairwise_map]
        refine hg.pairwise.imp ?_
        intro a b hab
        simp only [kvpNode, pyEq_kvp, hab.1, hab.2, Bool.false_and, and_self]
      have hsorted_pw : sorted.Pairwise (fun a b => Tree.pyEq a b = false ∧ Tree.pyEq b a = false) :=
        (List.Perm.pairwise_iff (fun {a b} h => ⟨h.2, h.1⟩) hperm.symm).1 hkvps_pw
      rw [mkCounter_id _ _ (hsorted_pw.imp (fun h => h.1))] at hb
      obtain ⟨rs', hrs', hp'⟩ := forall2_perm hperm.symm (hkv true)
      exact ⟨rs', by rw [← hb]; exact read _ _ _ (.inl rfl) hrs' hp', hp'⟩
  · rw [if_neg hake] at hb
    simp only [pure, Except.pure, fdictNodeFrom] at hb
    injection hb with hb
    have hpw : (items.map (fun p => (p.1, kvpNode py false p.1 p.2))).Pairwise
        (fun a b => Tree.pyEq a.1 b.1 = false) := by
      rw [List.pairwise_map]
      exact hg.pairwise.imp (fun h => h.1)
    rw [dictOf_id _ _ hpw, List.map_map] at hb
    refine ⟨rs, ?_, .refl _⟩
    rw [← hb]
    exact read _ _ _ (.inr rfl) (by simpa [Function.comp_def] using hkv false) (.refl _)

end GtModel.Builder

namespace GtModel.Builder

/-! ### CPython's `sorted` does not raise when the comparison is total on distinct positions -/

section
variable {α : Type} (lt : α → α → Except BErr Bool)

/-- both comparisons of two elements succeed -/
def CmpOk (a b : α) : Prop := (∃ r, lt a b = .ok r) ∧ (∃ r, lt b a = .ok r)

theorem CmpOk.symm {a b : α} (h : CmpOk lt a b) : CmpOk lt b a := ⟨h.2, h.1⟩

theorem takeRun_ok (desc : Bool) : ∀ (xs : List α) (prev : α), (prev :: xs).Pairwise (CmpOk lt) →
    ∃ pr, takeRun lt desc prev xs = .ok pr := by
  intro xs
  induction xs with
  | nil => intro prev _; exact ⟨_, rfl⟩
  | cons x xs ih =>
    intro prev h
    rw [List.pairwise_cons] at h
    obtain ⟨bv, hb⟩ := (h.1 x (by simp)).2
    simp only [takeRun, bind, Except.bind, hb]
    by_cases hd : (bv == desc) = true
    · obtain ⟨pr, hpr⟩ := ih x h.2
      simp only [hd, if_true, hpr]
      exact ⟨_, rfl⟩
    · simp only [hd]
      exact ⟨_, rfl⟩

theorem bsearch_ok (pivot : α) (a : Array α) (hp : ∀ y ∈ a.toList, ∃ r, lt pivot y = .ok r) :
    ∀ (n l r : Nat), r - l ≤ n → r ≤ a.size → ∃ pos, bsearch lt pivot a l r = .ok pos := by
  intro n
  induction n with
  | zero =>
    intro l r h _
    unfold bsearch
    have : ¬ l < r := by omega
    simp only [this, dite_false]
    exact ⟨_, rfl⟩
  | succ n ih =>
    intro l r h hr
    unfold bsearch
    by_cases hlr : l < r
    · simp only [hlr, dite_true]
      have hlt : l + (r - l) / 2 < a.size := by omega
      have hget : a[l + (r - l) / 2]? = some a[l + (r - l) / 2] := by simp [hlt]
      obtain ⟨bv, hbv⟩ := hp a[l + (r - l) / 2] (by simp)
      simp only [hget, bind, Except.bind, hbv]
      cases bv
      · simp only [Bool.false_eq_true, if_false]
        exact ih _ _ (by omega) hr
      · simp only [if_true]
        exact ih _ _ (by omega) (by omega)
    · simp only [hlr, dite_false]
      exact ⟨_, rfl⟩

theorem binInsertAll_ok : ∀ (ps sorted : List α), (sorted ++ ps).Pairwise (CmpOk lt) →
    ∃ out, binInsertAll lt sorted ps = .ok out := by
  intro ps
  induction ps with
  | nil => intro sorted _; exact ⟨_, rfl⟩
  | cons p ps ih =>
    intro sorted h
    have hp : ∀ y ∈ sorted.toArray.toList, ∃ r, lt p y = .ok r := by
      intro y hy
      rw [List.pairwise_append] at h
      exact (h.2.2 y (by simpa using hy) p (by simp)).2
    obtain ⟨pos, hpos⟩ := bsearch_ok lt p sorted.toArray hp sorted.length 0 sorted.length (by omega) (by simp)
    simp only [binInsertAll, bind, Except.bind, hpos]
    apply ih
    have hperm : (List.take pos sorted ++ p :: List.drop pos sorted ++ ps).Perm (sorted ++ p :: ps) := by
      have h1 : (List.take pos sorted ++ p :: List.drop pos sorted).Perm (p :: sorted) := by
        have : (List.take pos sorted ++ p :: List.drop pos sorted).Perm (p :: (List.take pos sorted ++ List.drop pos sorted)) :=
          List.perm_middle
        simpa using this
      refine (List.Perm.append_right ps h1).trans ?_
      simpa using (List.perm_middle (l₁ := sorted) (l₂ := ps) (a := p)).symm
    exact (List.Perm.pairwise_iff (fun {a b} h => CmpOk.symm lt h) hperm.symm).1 h

theorem pySorted_ok (xs : List α) (h : xs.Pairwise (CmpOk lt)) : ∃ out, pySorted lt xs = .ok out := by
  match xs with
  | [] => exact ⟨_, rfl⟩
  | [a] => exact ⟨_, rfl⟩
  | a :: b :: rest =>
    have h' := h
    rw [List.pairwise_cons] at h
    obtain ⟨d, hd⟩ := (h.1 b (by simp)).2
    obtain ⟨pr, hpr⟩ := takeRun_ok lt d rest b h.2
    obtain ⟨r, rest'⟩ := pr
    simp only [pySorted, bind, Except.bind, hd, hpr]
    apply binInsertAll_ok
    have happ := takeRun_append lt d rest b r rest' hpr
    subst happ
    cases d
    · simpa using h'
    · simp only [if_true]
      have hperm : ((a :: b :: r).reverse ++ rest').Perm (a :: b :: (r ++ rest')) := by
        have : (a :: b :: r).reverse.Perm (a :: b :: r) := List.reverse_perm _
        simpa using List.Perm.append_right rest' this
      exact (List.Perm.pairwise_iff (fun {a b} h => CmpOk.symm lt h) hperm.symm).1 h'

end

/-- `KeyValuePairNode.__lt__` is defined on two pairs whose keys are different leaves -/
theorem kvpLt_ok {py ake : Bool} {a b : Tree × Tree} (ha : IsKeyLeaf a.1) (hb : IsKeyLeaf b.1)
    (hne : Tree.pyEq a.1 b.1 = false) : ∃ r, kvpLt (kvpNode py ake a.1 a.2) (kvpNode py ake b.1 b.2) = .ok r := by
  obtain ⟨c, s, q, hae, _⟩ := ha
  obtain ⟨c', s', q', hbe, _⟩ := hb
  rw [hae, hbe] at hne
  simp only [kvpLt, kvpNode, hae, hbe, nodeLt, bind, Except.bind, pure, Except.pure, hne]
  by_cases hc : c = .null
  · subst hc
    simp only [if_true]
    cases c' <;> exact ⟨_, rfl⟩
  · simp only [hc, if_false]
    by_cases hl : scalarLt s s' = true
    · simp only [hl, if_true]; exact ⟨_, rfl⟩
    · simp only [hl]
      exact ⟨_, rfl⟩

/-- building a mapping from items with pairwise distinct leaf keys never raises -/
theorem mappingFrom_ok (py : Bool) (o : Opts) (items : List (Tree × Tree)) (hg : GoodItems items) :
    ∃ t, mappingFrom py o items = .ok t := by
  unfold mappingFrom
  by_cases hake : o.ake = true
  · rw [if_pos hake]
    have hpw : (items.map (fun p => kvpNode py true p.1 p.2)).Pairwise (CmpOk kvpLt) := by
      rw [List.pairwise_map]
      refine List.Pairwise.imp_of_mem ?_ hg.pairwise
      intro a b ha hb hab
      exact ⟨kvpLt_ok (hg.keys a ha) (hg.keys b hb) hab.1, kvpLt_ok (hg.keys b hb) (hg.keys a ha) hab.2⟩
    obtain ⟨out, hout⟩ := pySorted_ok kvpLt _ hpw
    simp only [dictNodeFrom, bind, Except.bind, hout]
    exact ⟨_, rfl⟩
  · rw [if_neg hake]
    exact ⟨_, rfl⟩

/-! ### pydiff: `PyObjBuilder.default_builder` -/

/-- `[attr₁, value₁, attr₂, value₂, …]` as `PyObjBuilder.default_expander` yields them -/
def flattenItems : List (Tree × Tree) → List Tree
  | [] => []
  | it :: rest => it.1 :: it.2 :: flattenItems rest

theorem pairUp_flatten : ∀ (items : List (Tree × Tree)), pairUp (flattenItems items) = items
  | [] => rfl
  | it :: rest => by simp [flattenItems, pairUp, pairUp_flatten rest]

theorem flatten_length_even : ∀ (items : List (Tree × Tree)), (flattenItems items).length % 2 = 0
  | [] => rfl
  | it :: rest => by simp [flattenItems]; have := flatten_length_even rest; omega

def IsStrLeaf (t : Tree) : Prop := ∃ s q, t = .leaf .string s q

theorem unquote_strLeaf {t : Tree} (h : IsStrLeaf t) :
    IsKeyLeaf (unquote t) ∧ leafEqc (unquote t) = leafEqc t ∧ toObj (unquote t) = toObj t ∧ isStringNode t = true := by
  obtain ⟨s, q, rfl⟩ := h
  exact ⟨⟨.string, s, false, rfl, fun h => by cases h⟩, rfl, by simp [unquote, toObj], rfl⟩

/-- **`PyObjBuilder.default_builder` is value-faithful**: given the class-name node, attribute-name nodes with pairwise
different names and already built attribute values reading back as `rs`, the `PyObj` node reads back as
`{class_name: {attr: value, …}}` (up to the order of the attributes). -/
theorem pyobjDefaultBuild_toObj (o : Opts) (sName : Scalar) (q : Bool) (items : List (Tree × Tree))
    (rs : List (Obj × Obj)) (hk : ∀ it ∈ items, IsStrLeaf it.1)
    (hd : (items.map (fun it => leafEqc it.1)).Pairwise (· ≠ ·)) (hobj : Forall2 ItemObj items rs) :
    ∃ t rs', pyobjDefaultBuild o (.leaf .string sName q :: flattenItems items) = .ok t ∧
      toObj t = .ok (.dict [(.scalar sName, .dict rs')]) ∧ rs.Perm rs' := by
  have hg : GoodItems items :=
    ⟨fun it hit => by obtain ⟨s, q', h⟩ := hk it hit; exact ⟨.string, s, q', h, fun h' => by cases h'⟩, hd⟩
  let items' := items.map (fun p => (unquote p.1, p.2))
  have hg' : GoodItems items' := by
    constructor
    · intro it hit
      obtain ⟨it0, h0, rfl⟩ := List.mem_map.1 hit
      exact (unquote_strLeaf (hk it0 h0)).1
    · have : items'.map (fun it => leafEqc it.1) = items.map (fun it => leafEqc it.1) := by
        simp only [items', List.map_map]
        apply List.map_congr_left
        intro it hit
        exact (unquote_strLeaf (hk it hit)).2.1
      rw [this]; exact hd
  have hobj' : Forall2 ItemObj items' rs := by
    apply forall2_map_left
    have : ∀ {l r}, (∀ it ∈ l, IsStrLeaf it.1) → Forall2 ItemObj l r →
        Forall2 (fun (a : Tree × Tree) (r : Obj × Obj) => ItemObj (unquote a.1, a.2) r) l r := by
      intro l r hl h
      induction h with
      | nil => exact .nil
      | @cons a b l' r' h1 _ ih =>
        refine .cons ⟨?_, h1.2⟩ (ih (fun it hit => hl it (by simp [hit])))
        have := (unquote_strLeaf (hl a (by simp))).2.2.1
        show toObj (unquote a.1) = .ok b.1
        rw [this]; exact h1.1
    exact this hk hobj
  obtain ⟨attrs, hattrs⟩ := mappingFrom_ok true o items' hg'
  obtain ⟨rs', hr', hp⟩ := mappingFrom_toObj true o items' rs hg' hobj' attrs hattrs
  have hall : (items.all (fun p => isStringNode p.1)) = true := by
    rw [List.all_eq_true]
    intro it hit
    exact (unquote_strLeaf (hk it hit)).2.2.2
  refine ⟨.node .pyobj [.leaf .string sName false, attrs], rs', ?_, ?_, hp⟩
  · have hname : isStringNode (.leaf .string sName q) = true := rfl
    have hun : unquote (.leaf .string sName q) = .leaf .string sName false := rfl
    have hmap : List.map (fun p => (unquote p.1, p.2)) items = items' := rfl
    simp only [pyobjDefaultBuild, hname, flatten_length_even, pairUp_flatten, dictOf_good hg, hall, hun, hmap]
    simp [bind, Except.bind, hattrs, pure, Except.pure]
  · simp [toObj, hr', bind, Except.bind, pure, Except.pure]

end GtModel.Builder

/-
  `buildVal`: what `BasicBuilder` / `PyObjBuilder` build from a tree-shaped (already unfolded) value, as a plain
  structural recursion — the bridge between the work-stack machine on stores and `to_obj` / `json.build_tree`.
-/
import GtModel.Proofs.BuilderToObj

namespace GtModel.Builder

/-- the leaf node BasicBuilder makes for a scalar (`build_int`, `build_bool`, `build_float`, `build_str`, `build_none`) -/
def scalarLeaf (s : Scalar) : Tree :=
  match s.kind with
  | .int => .leaf .integer s true
  | .bool => .leaf .bool s true
  | .float => .leaf .float s true
  | .str => .leaf .string s true
  | .bytes => .leaf .string s true
  | .none => .leaf .null Scalar.none true

mutual
def buildVal (o : Opts) : PyVal → Except BErr Tree
  | .scalar _ s => pure (scalarLeaf s)
  | .list _ xs => do
      let ts ← buildValList o xs
      pure (.node (.list o.ale o.alesl) ts)
  | .tuple _ xs => do
      let ts ← buildValList o xs
      pure (.node (.list o.ale o.alesl) ts)
  | .set _ xs => do
      let ts ← buildValList o xs
      pure (.node (.mset true) (mkCounter Tree.pyEq ts))
  | .dict _ kvs => do
      let ks ← buildValKeys o kvs
      let vs ← buildValVals o kvs
      buildDict o (ks ++ vs)
  | .custom _ _ _ => throw .notImplemented
def buildValList (o : Opts) : List PyVal → Except BErr (List Tree)
  | [] => pure []
  | x :: xs => do
      let t ← buildVal o x
      let ts ← buildValList o xs
      pure (t :: ts)
def buildValKeys (o : Opts) : List (PyVal × PyVal) → Except BErr (List Tree)
  | [] => pure []
  | (k, _) :: rest => do
      let t ← buildVal o k
      let ts ← buildValKeys o rest
      pure (t :: ts)
def buildValVals (o : Opts) : List (PyVal × PyVal) → Except BErr (List Tree)
  | [] => pure []
  | (_, v) :: rest => do
      let t ← buildVal o v
      let ts ← buildValVals o rest
      pure (t :: ts)
end

/-! ### the domain of C18 for the builders (custom objects excluded here) -/

def IsScalarVal : PyVal → Prop
  | .scalar _ s => s.kind = .none → s = Scalar.none
  | _ => False

def valEqc : PyVal → String
  | .scalar _ s => s.eqc
  | _ => ""

mutual
/-- lists, tuples, sets of scalars, dicts with scalar keys, scalars; Python's guarantee that set members / dict keys
are pairwise `!=` is part of the domain -/
def Plain : PyVal → Prop
  | .scalar _ s => s.kind = .none → s = Scalar.none
  | .list _ xs => PlainList xs
  | .tuple _ xs => PlainList xs
  | .set _ xs => (∀ x ∈ xs, IsScalarVal x) ∧ (xs.map valEqc).Pairwise (· ≠ ·)
  | .dict _ kvs => PlainPairs kvs ∧ (kvs.map (fun p => valEqc p.1)).Pairwise (· ≠ ·)
  | .custom _ _ _ => False
def PlainList : List PyVal → Prop
  | [] => True
  | x :: xs => Plain x ∧ PlainList xs
def PlainPairs : List (PyVal × PyVal) → Prop
  | [] => True
  | (k, v) :: rest => IsScalarVal k ∧ Plain v ∧ PlainPairs rest
end

theorem scalarLeaf_keyLeaf (s : Scalar) (h : s.kind = .none → s = Scalar.none) :
    IsKeyLeaf (scalarLeaf s) ∧ leafEqc (scalarLeaf s) = s.eqc ∧ toObj (scalarLeaf s) = .ok (.scalar s) := by
  unfold scalarLeaf
  cases hk : s.kind
  all_goals simp only
  all_goals first
    | exact ⟨⟨_, _, _, rfl, fun h' => by cases h'⟩, rfl, by simp [toObj, pure, Except.pure]⟩
    | (have := h hk
       exact ⟨⟨_, _, _, rfl, fun _ => rfl⟩, by rw [this]; rfl, by rw [this]; simp [toObj, pure, Except.pure]⟩)

/-- building scalars: one key-leaf per value, same eqc, reading back as the scalar -/
theorem buildValList_scalars (o : Opts) : ∀ (xs : List PyVal), (∀ x ∈ xs, IsScalarVal x) →
    ∃ ts, buildValList o xs = .ok ts ∧ (∀ t ∈ ts, IsKeyLeaf t) ∧ ts.map leafEqc = xs.map valEqc ∧
      Forall2 (fun t x => toObj t = .ok x) ts (normaliseList xs) := by
  intro xs
  induction xs with
  | nil => intro _; exact ⟨[], rfl, by simp, rfl, by simp only [normaliseList]; exact .nil⟩
  | cons x xs ih =>
    intro h
    obtain ⟨ts, h1, h2, h3, h4⟩ := ih (fun y hy => h y (by simp [hy]))
    have hx := h x (by simp)
    cases x with
    | scalar mro s =>
      simp only [IsScalarVal] at hx
      obtain ⟨k1, k2, k3⟩ := scalarLeaf_keyLeaf s hx
      refine ⟨scalarLeaf s :: ts, by simp [buildValList, buildVal, h1, bind, Except.bind, pure, Except.pure], ?_, ?_, ?_⟩
      · intro t ht
        simp only [List.mem_cons] at ht
        cases ht with
        | inl h => subst h; exact k1
        | inr h => exact h2 t h
      · simp [k2, h3, valEqc]
      · simp only [normaliseList, normalise]; exact .cons k3 h4
    | list _ _ => simp [IsScalarVal] at hx
    | tuple _ _ => simp [IsScalarVal] at hx
    | dict _ _ => simp [IsScalarVal] at hx
    | set _ _ => simp [IsScalarVal] at hx
    | custom _ _ _ => simp [IsScalarVal] at hx

theorem buildValKeys_scalars (o : Opts) : ∀ (kvs : List (PyVal × PyVal)), (∀ p ∈ kvs, IsScalarVal p.1) →
    ∃ ks, buildValKeys o kvs = .ok ks ∧ (∀ t ∈ ks, IsKeyLeaf t) ∧ ks.map leafEqc = kvs.map (fun p => valEqc p.1) ∧
      Forall2 (fun t (p : PyVal × PyVal) => ∃ s, normalise p.1 = .scalar s ∧ toObj t = .ok (.scalar s)) ks kvs := by
  intro kvs
  induction kvs with
  | nil => intro _; exact ⟨[], rfl, by simp, rfl, .nil⟩
  | cons p kvs ih =>
    intro h
    obtain ⟨ks, h1, h2, h3, h4⟩ := ih (fun y hy => h y (by simp [hy]))
    obtain ⟨k, v⟩ := p
    have hx := h (k, v) (by simp)
    cases k with
    | scalar mro s =>
      simp only [IsScalarVal] at hx
      obtain ⟨k1, k2, k3⟩ := scalarLeaf_keyLeaf s hx
      refine ⟨scalarLeaf s :: ks, by simp [buildValKeys, buildVal, h1, bind, Except.bind, pure, Except.pure], ?_, ?_, ?_⟩
      · intro t ht
        simp only [List.mem_cons] at ht
        cases ht with
        | inl h => subst h; exact k1
        | inr h => exact h2 t h
      · simp [k2, h3, valEqc]
      · exact .cons ⟨s, by simp only [normalise], k3⟩ h4
    | list _ _ => simp [IsScalarVal] at hx
    | tuple _ _ => simp [IsScalarVal] at hx
    | dict _ _ => simp [IsScalarVal] at hx
    | set _ _ => simp [IsScalarVal] at hx
    | custom _ _ _ => simp [IsScalarVal] at hx

theorem forall2_length {α β} {R : α → β → Prop} {l : List α} {r : List β} (h : Forall2 R l r) : l.length = r.length := by
  induction h with
  | nil => rfl
  | cons _ _ ih => simp [ih]

theorem plainPairs_keys : ∀ (kvs : List (PyVal × PyVal)), PlainPairs kvs → ∀ p ∈ kvs, IsScalarVal p.1 := by
  intro kvs
  induction kvs with
  | nil => intro _ p hp; simp at hp
  | cons q kvs ih =>
    intro h p hp
    obtain ⟨k, v⟩ := q
    simp only [PlainPairs] at h
    simp only [List.mem_cons] at hp
    cases hp with
    | inl h' => subst h'; exact h.1
    | inr h' => exact ih h.2.2 p h'

/-- zipping built keys and values gives the items the mapping lemma wants -/
theorem zip_items : ∀ (kvs : List (PyVal × PyVal)) (ks vs : List Tree),
    Forall2 (fun t (p : PyVal × PyVal) => ∃ s, normalise p.1 = .scalar s ∧ toObj t = .ok (.scalar s)) ks kvs →
    Forall2 (fun t (p : PyVal × PyVal) => ∃ y, toObj t = .ok y ∧ ObjEquiv y (normalise p.2)) vs kvs →
    ∃ rs, Forall2 ItemObj (ks.zip vs) rs ∧ ObjEquivPairs rs (normalisePairs kvs) := by
  intro kvs
  induction kvs with
  | nil =>
    intro ks vs hk hv
    cases hk; cases hv
    exact ⟨[], .nil, by simp only [normalisePairs]; exact .nil⟩
  | cons p kvs ih =>
    intro ks vs hk hv
    obtain ⟨k, v⟩ := p
    cases hk with
    | cons hk1 hk2 =>
      cases hv with
      | cons hv1 hv2 =>
        obtain ⟨rs, h1, h2⟩ := ih _ _ hk2 hv2
        obtain ⟨s, hs1, hs2⟩ := hk1
        obtain ⟨y, hy1, hy2⟩ := hv1
        refine ⟨(.scalar s, y) :: rs, .cons ⟨hs2, hy1⟩ h1, ?_⟩
        simp only [normalisePairs]
        simp only at hs1
        rw [hs1]
        exact .cons (.scalar s) hy2 h2

mutual
/-- **to_obj_build, value level.**  What the builders make of a plain value reads back as that value. -/
theorem buildVal_toObj (o : Opts) : ∀ (v : PyVal), Plain v →
    ∃ t y, buildVal o v = .ok t ∧ toObj t = .ok y ∧ ObjEquiv y (normalise v)
  | .scalar mro s, h => by
    simp only [Plain] at h
    obtain ⟨_, _, k3⟩ := scalarLeaf_keyLeaf s h
    exact ⟨_, _, rfl, k3, by simp only [normalise]; exact .scalar s⟩
  | .list mro xs, h => by
    simp only [Plain] at h
    obtain ⟨ts, ys, h1, h2, h3⟩ := buildValList_toObj o xs h
    refine ⟨.node (.list o.ale o.alesl) ts, .list ys, by simp [buildVal, h1, bind, Except.bind, pure, Except.pure], ?_,
      by simp only [normalise]; exact .list h3⟩
    simp [toObj, (toObjList_forall2 ts ys).2 h2, bind, Except.bind, pure, Except.pure]
  | .tuple mro xs, h => by
    simp only [Plain] at h
    obtain ⟨ts, ys, h1, h2, h3⟩ := buildValList_toObj o xs h
    refine ⟨.node (.list o.ale o.alesl) ts, .list ys, by simp [buildVal, h1, bind, Except.bind, pure, Except.pure], ?_,
      by simp only [normalise]; exact .list h3⟩
    simp [toObj, (toObjList_forall2 ts ys).2 h2, bind, Except.bind, pure, Except.pure]
  | .set mro xs, h => by
    simp only [Plain] at h
    obtain ⟨ts, h1, h2, h3, h4⟩ := buildValList_scalars o xs h.1
    -- the member nodes are pairwise different, so the Counter keeps them all, in order
    have hpw : ts.Pairwise (fun a b => Tree.pyEq a b = false) := by
      have hd : (ts.map leafEqc).Pairwise (· ≠ ·) := by rw [h3]; exact h.2
      rw [List.pairwise_map] at hd
      exact List.Pairwise.imp_of_mem (fun ha hb hne => pyEq_keyLeaf (h2 _ ha) (h2 _ hb) hne) hd
    -- on the value side the members are scalars with pairwise different eqc
    have hsc : ∀ (xs : List PyVal), (∀ x ∈ xs, IsScalarVal x) →
        (∀ y ∈ normaliseList xs, y.hashable = true) ∧
        ((xs.map valEqc).Pairwise (· ≠ ·) → (normaliseList xs).Pairwise (fun a b => Obj.keyEq a b = false)) := by
      intro xs
      induction xs with
      | nil => intro _; simp [normaliseList]
      | cons x xs ih =>
        intro hx
        obtain ⟨i1, i2⟩ := ih (fun y hy => hx y (by simp [hy]))
        have hx0 := hx x (by simp)
        cases x with
        | scalar m s =>
          constructor
          · intro y hy
            simp only [normaliseList, normalise, List.mem_cons] at hy
            cases hy with
            | inl h => subst h; rfl
            | inr h => exact i1 y h
          · intro hd
            simp only [List.map_cons, List.pairwise_cons] at hd
            simp only [normaliseList, normalise, List.pairwise_cons]
            refine ⟨?_, i2 hd.2⟩
            intro y hy
            -- y is the normal form of some scalar member with a different eqc
            have : ∀ (zs : List PyVal), (∀ z ∈ zs, IsScalarVal z) → ∀ y ∈ normaliseList zs,
                ∃ s', y = .scalar s' ∧ s'.eqc ∈ zs.map valEqc := by
              intro zs
              induction zs with
              | nil => intro _ y hy; simp [normaliseList] at hy
              | cons z zs ihz =>
                intro hz y hy
                have hz0 := hz z (by simp)
                cases z with
                | scalar m' s' =>
                  simp only [normaliseList, normalise, List.mem_cons] at hy
                  cases hy with
                  | inl h => exact ⟨s', h, by simp [valEqc]⟩
                  | inr h =>
                    obtain ⟨s'', e1, e2⟩ := ihz (fun w hw => hz w (by simp [hw])) y h
                    exact ⟨s'', e1, by simp [e2]⟩
                | list _ _ => simp [IsScalarVal] at hz0
                | tuple _ _ => simp [IsScalarVal] at hz0
                | dict _ _ => simp [IsScalarVal] at hz0
                | set _ _ => simp [IsScalarVal] at hz0
                | custom _ _ _ => simp [IsScalarVal] at hz0
            obtain ⟨s', e1, e2⟩ := this xs (fun w hw => hx w (by simp [hw])) y hy
            rw [e1, keyEq_scalar]
            have := hd.1 _ e2
            simp only [valEqc] at this
            simpa using this
        | list _ _ => simp [IsScalarVal] at hx0
        | tuple _ _ => simp [IsScalarVal] at hx0
        | dict _ _ => simp [IsScalarVal] at hx0
        | set _ _ => simp [IsScalarVal] at hx0
        | custom _ _ _ => simp [IsScalarVal] at hx0
    obtain ⟨hhash, hkeys⟩ := hsc xs h.1
    refine ⟨.node (.mset true) (mkCounter Tree.pyEq ts), .mset (normaliseList xs),
      by simp [buildVal, h1, bind, Except.bind, pure, Except.pure], ?_, ?_⟩
    · have hall : (normaliseList xs).all Obj.hashable = true := by
        rw [List.all_eq_true]; exact hhash
      simp [toObj, mkCounter_id _ _ hpw, (toObjList_forall2 ts _).2 h4, bind, Except.bind, pure, Except.pure, hall,
        mkCounter_id _ _ (hkeys h.2)]
    · simp only [normalise]
      have hrefl : ∀ (zs : List PyVal), (∀ z ∈ zs, IsScalarVal z) → ObjEquivList (normaliseList zs) (normaliseList zs) := by
        intro zs
        induction zs with
        | nil => intro _; simp only [normaliseList]; exact .nil
        | cons z zs ihz =>
          intro hz
          have hz0 := hz z (by simp)
          cases z with
          | scalar m' s' =>
            simp only [normaliseList, normalise]
            exact .cons (.scalar s') (ihz (fun w hw => hz w (by simp [hw])))
          | list _ _ => simp [IsScalarVal] at hz0
          | tuple _ _ => simp [IsScalarVal] at hz0
          | dict _ _ => simp [IsScalarVal] at hz0
          | set _ _ => simp [IsScalarVal] at hz0
          | custom _ _ _ => simp [IsScalarVal] at hz0
      exact .mset (hrefl xs h.1) (.refl _)
  | .dict mro kvs, h => by
    simp only [Plain] at h
    obtain ⟨ks, k1, k2, k3, k4⟩ := buildValKeys_scalars o kvs (plainPairs_keys kvs h.1)
    obtain ⟨vs, v1, v2⟩ := buildValVals_toObj o kvs h.1
    have hlk := forall2_length k4
    have hlv := forall2_length v2
    have hn : (ks ++ vs).length / 2 = ks.length := by simp [List.length_append]; omega
    have htake : List.take ((ks ++ vs).length / 2) (ks ++ vs) = ks := by rw [hn]; simp
    have hdrop : List.drop ((ks ++ vs).length / 2) (ks ++ vs) = vs := by rw [hn]; simp
    obtain ⟨rs, r1, r2⟩ := zip_items kvs ks vs k4 v2
    have hg : GoodItems (ks.zip vs) := by
      constructor
      · intro it hit
        exact k2 _ (List.of_mem_zip hit).1
      · have : (ks.zip vs).map (fun it => leafEqc it.1) = ks.map leafEqc := by
          have h1 : (ks.zip vs).map (fun it => leafEqc it.1) = ((ks.zip vs).map Prod.fst).map leafEqc := by
            rw [List.map_map]; rfl
          rw [h1, List.map_fst_zip (by omega)]
        rw [this, k3]; exact h.2
    obtain ⟨t, ht⟩ := mappingFrom_ok false o _ hg
    have hb : buildVal o (.dict mro kvs) = .ok t := by
      simp only [buildVal, k1, v1, bind, Except.bind, buildDict, htake, hdrop, dictOf_good hg, ht]
    obtain ⟨rs', hr', hp⟩ := mappingFrom_toObj false o _ rs hg r1 t ht
    exact ⟨t, .dict rs', hb, hr', by simp only [normalise]; exact ObjEquiv.dict_perm hp r2⟩
  | .custom _ _ _, h => by simp [Plain] at h
theorem buildValList_toObj (o : Opts) : ∀ (xs : List PyVal), PlainList xs →
    ∃ ts ys, buildValList o xs = .ok ts ∧ Forall2 (fun t y => toObj t = .ok y) ts ys ∧ ObjEquivList ys (normaliseList xs)
  | [], _ => ⟨[], [], rfl, .nil, by simp only [normaliseList]; exact .nil⟩
  | x :: xs, h => by
    simp only [PlainList] at h
    obtain ⟨t, y, h1, h2, h3⟩ := buildVal_toObj o x h.1
    obtain ⟨ts, ys, g1, g2, g3⟩ := buildValList_toObj o xs h.2
    exact ⟨t :: ts, y :: ys, by simp [buildValList, h1, g1, bind, Except.bind, pure, Except.pure], .cons h2 g2,
      by simp only [normaliseList]; exact .cons h3 g3⟩
theorem buildValVals_toObj (o : Opts) : ∀ (kvs : List (PyVal × PyVal)), PlainPairs kvs →
    ∃ vs, buildValVals o kvs = .ok vs ∧
      Forall2 (fun t (p : PyVal × PyVal) => ∃ y, toObj t = .ok y ∧ ObjEquiv y (normalise p.2)) vs kvs
  | [], _ => ⟨[], rfl, .nil⟩
  | (k, v) :: rest, h => by
    simp only [PlainPairs] at h
    obtain ⟨t, y, h1, h2, h3⟩ := buildVal_toObj o v h.2.1
    obtain ⟨vs, g1, g2⟩ := buildValVals_toObj o rest h.2.2
    exact ⟨t :: vs, by simp [buildValVals, h1, g1, bind, Except.bind, pure, Except.pure], .cons ⟨y, h2, h3⟩ g2⟩
end

end GtModel.Builder

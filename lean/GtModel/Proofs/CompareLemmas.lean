/- `BoundedComparator.__lt__/__le__` and `min_bounded`: exit conditions and consistency with the final costs. -/
import GtModel.Proofs.BoundedLemmas

namespace GtModel.Bounded
open GtModel

theorem Item.tighten_fst_false {x : Item} : (x.tighten).1 = false ↔ x.rest = [] := by
  unfold Item.tighten; cases hr : x.rest <;> simp

theorem Item.tighten_rest_nil {x : Item} (h : x.rest = []) : (x.tighten).2.rest = [] ∧ (x.tighten).2.cur = x.cur := by
  unfold Item.tighten; rw [h]; simp

theorem tightenAt_false_rest {σ : St} {k : Nat} {x : Item} (hx : σ[k]? = some x) (h : (tightenAt σ k).1 = false) :
    x.rest = [] := by
  rw [(tightenAt_get_eq hx).2] at h; exact Item.tighten_fst_false.mp h

theorem rest_nil_tightenAt {σ : St} {m : Nat} {x : Item} (k : Nat) (hx : σ[m]? = some x) (hr : x.rest = []) :
    ∃ x', (tightenAt σ k).2[m]? = some x' ∧ x'.rest = [] ∧ x'.cur = x.cur := by
  refine ⟨_, tightenAt_get σ k m x hx, ?_⟩
  split
  · exact Item.tighten_rest_nil hr
  · exact ⟨hr, rfl⟩

theorem get_of_tightenAt {σ : St} {k m : Nat} {x : Item} (h : (tightenAt σ k).2[m]? = some x) :
    ∃ x0, σ[m]? = some x0 := by
  cases hs : σ[m]? with
  | some x0 => exact ⟨x0, rfl⟩
  | none =>
    have hl := tightenAt_length σ k
    have h1 : σ.length ≤ m := by
      rcases Nat.lt_or_ge m σ.length with h' | h'
      · simp [List.getElem?_eq_getElem h'] at hs
      · exact h'
    have h2 : (tightenAt σ k).2[m]? = none := List.getElem?_eq_none (by omega)
    rw [h2] at h; cases h

/-- both tightenings of a loop iteration answered `False`: both items are at the end of their trajectories -/
theorem both_false_rest {σ : St} {i j : Nat}
    (h1 : ¬ (tightenAt σ i).1 = true) (h2 : ¬ (tightenAt (tightenAt σ i).2 j).1 = true)
    {a b : Item} (ha : (tightenAt (tightenAt σ i).2 j).2[i]? = some a)
    (hb : (tightenAt (tightenAt σ i).2 j).2[j]? = some b) : a.rest = [] ∧ b.rest = [] := by
  simp only [Bool.not_eq_true] at h1 h2
  obtain ⟨a1, ha1⟩ := get_of_tightenAt ha
  obtain ⟨a0, ha0⟩ := get_of_tightenAt ha1
  obtain ⟨b1, hb1⟩ := get_of_tightenAt hb
  have r0 := tightenAt_false_rest ha0 h1
  obtain ⟨a1', e1, r1, _⟩ := rest_nil_tightenAt i ha0 r0
  obtain ⟨a2', e2, r2, _⟩ := rest_nil_tightenAt j e1 r1
  rw [ha] at e2; cases e2
  have rb1 := tightenAt_false_rest hb1 h2
  obtain ⟨b2', e3, r3, _⟩ := rest_nil_tightenAt j hb1 rb1
  rw [hb] at e3; cases e3
  exact ⟨r2, r3⟩

theorem ltLoop_exit (σ : St) (i j : Nat) : ∀ a b, (ltLoop σ i j)[i]? = some a → (ltLoop σ i j)[j]? = some b →
    a.cur.dominates b.cur = true ∨ b.cur.dominates a.cur = true ∨ (a.rest = [] ∧ b.rest = []) := by
  fun_induction ltLoop σ i j with
  | case1 σ a0 b0 hi hj hc =>
    intro a b ha hb
    rw [hj] at ha; rw [hi] at hb; cases ha; cases hb
    simp at hc; rcases hc with h | h
    · exact .inl h
    · exact .inr (.inl h)
  | case2 σ a b _ _ _ h1 ih => exact ih
  | case3 σ a b _ _ _ h1 h2 ih => exact ih
  | case4 σ a0 b0 _ _ _ h1 h2 =>
    intro a b ha hb
    exact .inr (.inr (both_false_rest h1 h2 ha hb))
  | case5 σ hno =>
    intro a b ha hb
    exact (hno a b ha hb).elim

theorem fullTighten_exit (σ : St) (i j : Nat) : ∀ a b, (fullTighten σ i j)[i]? = some a →
    (fullTighten σ i j)[j]? = some b → a.rest = [] ∧ b.rest = [] := by
  fun_induction fullTighten σ i j with
  | case1 σ h1 ih => exact ih
  | case2 σ h1 h2 ih => exact ih
  | case3 σ h1 h2 => intro a b ha hb; exact both_false_rest h1 h2 ha hb

/-- order facts between two valid items -/
theorem dom_final {a b : Item} {na nb : Int} (ha : a.Valid na) (hb : b.Valid nb)
    (h : a.cur.dominates b.cur = true) : na ≤ nb := by
  have h1 := ha.contains.2
  have h2 := hb.contains.1
  unfold Range.dominates at h
  exact Bound.fin_le_fin.mp (Bound.le_trans (Bound.le_trans h1 h) h2)

theorem point_dominates {n m : Int} : (Range.point n).dominates (Range.point m) = true ↔ n ≤ m := by
  simp [Range.dominates, Range.point, Bound.fin_le_fin]

theorem point_eq {n m : Int} : Range.point n = Range.point m ↔ n = m := by
  simp [Range.point]

/-- the specification of one comparator call -/
theorem ltCmp_spec {σ : St} {fs : List Int} (hv : ValidSt σ fs) (i j : Nat) (idlt : Bool) {ni nj : Int}
    (hi : fs[i]? = some ni) (hj : fs[j]? = some nj) :
    Reach σ (ltCmp σ i j idlt).2 ∧ ((ltCmp σ i j idlt).1 = true → ni ≤ nj) ∧
      ((ltCmp σ i j idlt).1 = false → nj ≤ ni) := by
  have hr := ltLoop_reach σ i j
  have hv' := hr.valid hv
  have hex := ltLoop_exit σ i j
  unfold ltCmp
  simp only []
  have li : i < fs.length := by
    rcases Nat.lt_or_ge i fs.length with h | h
    · exact h
    · simp [List.getElem?_eq_none h] at hi
  have lj : j < fs.length := by
    rcases Nat.lt_or_ge j fs.length with h | h
    · exact h
    · simp [List.getElem?_eq_none h] at hj
  have hl := hv'.1
  have gi : (ltLoop σ i j)[i]? = some (ltLoop σ i j)[i] := List.getElem?_eq_getElem (by omega)
  have gj : (ltLoop σ i j)[j]? = some (ltLoop σ i j)[j] := List.getElem?_eq_getElem (by omega)
  rw [gi, gj]
  simp only []
  generalize (ltLoop σ i j)[i] = a at gi
  generalize (ltLoop σ i j)[j] = b at gj
  have va := hv'.2 i a ni gi hi
  have vb := hv'.2 j b nj gj hj
  refine ⟨hr, ?_, ?_⟩
  · intro hres
    simp at hres
    rcases hres with h | ⟨heq, _⟩
    · exact dom_final va vb h
    · rcases hex a b gi gj with h | h | ⟨ra, rb⟩
      · exact dom_final va vb h
      · -- equal ranges and b dominates a
        have h1 := va.contains.2
        have h2 := vb.contains.1
        unfold Range.dominates at h
        rw [← heq] at h h2
        have := Bound.le_trans (Bound.le_trans h1 h) h2
        exact Bound.fin_le_fin.mp this
      · rw [va.last ra, vb.last rb] at heq
        have := point_eq.mp heq; omega
  · intro hres
    simp at hres
    rcases hex a b gi gj with h | h | ⟨ra, rb⟩
    · rw [hres.1] at h; cases h
    · exact dom_final vb va h
    · have h1 := hres.1
      rw [va.last ra, vb.last rb] at h1
      have : ¬ ni ≤ nj := by
        intro hle; rw [point_dominates.mpr hle] at h1; cases h1
      omega

theorem leCmp_spec {σ : St} {fs : List Int} (hv : ValidSt σ fs) (i j : Nat) (idlt : Bool) {ni nj : Int}
    (hi : fs[i]? = some ni) (hj : fs[j]? = some nj) :
    Reach σ (leCmp σ i j idlt).2 ∧ ((leCmp σ i j idlt).1 = true ↔ ni ≤ nj) := by
  obtain ⟨hr, ht, hf⟩ := ltCmp_spec hv i j idlt hi hj
  unfold leCmp
  simp only []
  cases hres : (ltCmp σ i j idlt).1
  · simp only [Bool.false_eq_true, ↓reduceIte]
    have hr2 := fullTighten_reach (ltCmp σ i j idlt).2 i j
    have hv' := (hr.trans hr2).valid hv
    have hex := fullTighten_exit (ltCmp σ i j idlt).2 i j
    have li : i < fs.length := by
      rcases Nat.lt_or_ge i fs.length with h | h
      · exact h
      · simp [List.getElem?_eq_none h] at hi
    have lj : j < fs.length := by
      rcases Nat.lt_or_ge j fs.length with h | h
      · exact h
      · simp [List.getElem?_eq_none h] at hj
    have hl := hv'.1
    generalize fullTighten (ltCmp σ i j idlt).2 i j = σ2 at *
    have gi : σ2[i]? = some σ2[i] := List.getElem?_eq_getElem (by omega)
    have gj : σ2[j]? = some σ2[j] := List.getElem?_eq_getElem (by omega)
    obtain ⟨ra, rb⟩ := hex _ _ gi gj
    have va := hv'.2 i _ ni gi hi
    have vb := hv'.2 j _ nj gj hj
    refine ⟨hr.trans hr2, ?_⟩
    unfold curAt
    rw [gi, gj]
    simp only [Option.map_some, beq_iff_eq, Option.some.injEq]
    rw [va.last ra, vb.last rb, point_eq]
    have := hf hres
    omega
  · simp only [↓reduceIte, true_iff]
    exact ⟨hr, ht hres⟩

/-! ## `min_bounded` -/

theorem minLoop_spec (orc : Nat → Bool) (fs : List Int) : ∀ (ks : List Nat) (σ : St) (best : Option Nat),
    ValidSt σ fs → (∀ k ∈ ks, k < fs.length) → (∀ b, best = some b → b < fs.length) →
    Reach σ (minLoop orc σ ks best).2 ∧
    ((minLoop orc σ ks best).1 = none ↔ (ks = [] ∧ best = none)) ∧
    (∀ m, (minLoop orc σ ks best).1 = some m → (m ∈ ks ∨ best = some m) ∧
      ∀ nm, fs[m]? = some nm →
        (∀ b nb, best = some b → fs[b]? = some nb → nm ≤ nb) ∧ (∀ k ∈ ks, ∀ nk, fs[k]? = some nk → nm ≤ nk)) := by
  intro ks
  induction ks with
  | nil =>
    intro σ best hv _ _
    simp only [minLoop]
    refine ⟨.refl _, by simp, ?_⟩
    intro m hm
    refine ⟨.inr hm, ?_⟩
    intro nm hnm
    refine ⟨?_, by simp⟩
    intro b nb hb hnb
    rw [hm] at hb; cases hb; rw [hnm] at hnb; cases hnb; exact Int.le_refl _
  | cons k ks ih =>
    intro σ best hv hks hb
    have hk : k < fs.length := hks k (by simp)
    have hks' : ∀ k' ∈ ks, k' < fs.length := fun k' h' => hks k' (by simp [h'])
    cases best with
    | none =>
      simp only [minLoop]
      obtain ⟨h1, h2, h3⟩ := ih σ (some k) hv hks' (by intro b hb'; cases hb'; exact hk)
      refine ⟨h1, ?_, ?_⟩
      · constructor
        · intro hn; have := h2.mp hn; simp at this
        · intro h; simp at h
      · intro m hm
        obtain ⟨g1, g2⟩ := h3 m hm
        refine ⟨?_, ?_⟩
        · rcases g1 with g | g
          · exact .inl (by simp [g])
          · cases g; exact .inl (by simp)
        · intro nm hnm
          obtain ⟨f1, f2⟩ := g2 nm hnm
          refine ⟨(by intro b nb hb'; cases hb'), ?_⟩
          intro k' hk' nk hnk
          simp at hk'
          rcases hk' with rfl | hk'
          · exact f1 _ nk rfl hnk
          · exact f2 k' hk' nk hnk
    | some b =>
      simp only [minLoop]
      have hbl : b < fs.length := hb b rfl
      have gk : fs[k]? = some fs[k] := List.getElem?_eq_getElem hk
      have gb : fs[b]? = some fs[b] := List.getElem?_eq_getElem hbl
      obtain ⟨c1, c2, c3⟩ := ltCmp_spec hv k b (orc k) gk gb
      have hv' := c1.valid hv
      cases hres : (ltCmp σ k b (orc k)).1
      · simp only [Bool.false_eq_true, ↓reduceIte]
        obtain ⟨h1, h2, h3⟩ := ih (ltCmp σ k b (orc k)).2 (some b) hv' hks' (by intro b' hb'; cases hb'; exact hbl)
        refine ⟨c1.trans h1, ?_, ?_⟩
        · constructor
          · intro hn; have := h2.mp hn; simp at this
          · intro h; simp at h
        · intro m hm
          obtain ⟨g1, g2⟩ := h3 m hm
          refine ⟨?_, ?_⟩
          · rcases g1 with g | g
            · exact .inl (by simp [g])
            · exact .inr g
          · intro nm hnm
            obtain ⟨f1, f2⟩ := g2 nm hnm
            refine ⟨f1, ?_⟩
            intro k' hk' nk hnk
            simp at hk'
            rcases hk' with rfl | hk'
            · have e1 := f1 b fs[b] rfl gb
              have e2 := c3 hres
              rw [gk] at hnk; cases hnk
              omega
            · exact f2 k' hk' nk hnk
      · simp only [↓reduceIte]
        obtain ⟨h1, h2, h3⟩ := ih (ltCmp σ k b (orc k)).2 (some k) hv' hks' (by intro b' hb'; cases hb'; exact hk)
        refine ⟨c1.trans h1, ?_, ?_⟩
        · constructor
          · intro hn; have := h2.mp hn; simp at this
          · intro h; simp at h
        · intro m hm
          obtain ⟨g1, g2⟩ := h3 m hm
          refine ⟨?_, ?_⟩
          · rcases g1 with g | g
            · exact .inl (by simp [g])
            · cases g; exact .inl (by simp)
          · intro nm hnm
            obtain ⟨f1, f2⟩ := g2 nm hnm
            have e1 := f1 k fs[k] rfl gk
            have e2 := c2 hres
            refine ⟨?_, ?_⟩
            · intro b' nb hb' hnb
              cases hb'; rw [gb] at hnb; cases hnb; omega
            · intro k' hk' nk hnk
              simp at hk'
              rcases hk' with rfl | hk'
              · rw [gk] at hnk; cases hnk; exact e1
              · exact f2 k' hk' nk hnk

end GtModel.Bounded

/- `make_distinct`: the initial loop establishes the invariant; the whole function. -/
import GtModel.Proofs.DistinctMain

namespace GtModel.Bounded
open GtModel

theorem mdInit_spec (fs : List Int) : ∀ (ks : List Nat) (σ : St) (tree : List Entry),
    ValidSt σ fs → Sync σ tree → tree.Nodup → IdxInj tree → (∀ e ∈ tree, e.idx ∉ ks) → ks.Nodup →
    (∀ k ∈ ks, k < σ.length) →
    match mdInit σ ks tree with
    | .ok (tree', σ') => Reach σ σ' ∧ Sync σ' tree' ∧ tree'.Nodup ∧ IdxInj tree' ∧
        (∀ i, InTree tree' i ↔ (InTree tree i ∨ i ∈ ks))
    | .error σ' => Reach σ σ' := by
  intro ks
  induction ks with
  | nil =>
    intro σ tree hv hs hn hi _ _ _
    simp only [mdInit]
    exact ⟨.refl _, hs, hn, hi, fun i => by simp⟩
  | cons k ks ih =>
    intro σ tree hv hs hn hi hfresh hnd hlt
    have hk : k < σ.length := hlt k (by simp)
    have gk : σ[k]? = some σ[k] := List.getElem?_eq_getElem hk
    simp only [mdInit]
    rw [gk]
    simp only []
    generalize hσ1 : (if σ[k].cur.finite = true then σ else (tightenAt σ k).2) = σ1
    have hr1 : Reach σ σ1 := by
      rw [← hσ1]; split
      · exact .refl _
      · exact Reach.one σ k
    have hs1 : Sync σ1 tree := by
      intro e he
      have hne : e.idx ≠ k := fun h => hfresh e he (by simp [h])
      rw [← hσ1]; split
      · exact hs e he
      · rw [tightenAt_get_ne hne]; exact hs e he
    have hl1 : σ1.length = σ.length := hr1.length
    cases hf : (curAt σ1 k).bind finOf with
    | none => simp only []; exact hr1
    | some p =>
      obtain ⟨lo, hi'⟩ := p
      simp only []
      unfold curAt at hf
      have g1 : σ1[k]? = some σ1[k] := List.getElem?_eq_getElem (by omega)
      rw [g1] at hf
      simp at hf
      have hc := finOf_some hf
      have hadd := add_inv hs1 hi (fun e he h => hfresh e he (by simp [h])) g1 hc
      have hnd' := List.nodup_cons.mp hnd
      have := ih σ1 (treeAdd tree ⟨k, lo, hi'⟩) (hr1.valid hv) hadd.1 (treeAdd_nodup hn _) hadd.2
        (by
          intro e he
          rcases mem_treeAdd.mp he with h | rfl
          · intro hm; exact hfresh e h (by simp [hm])
          · exact hnd'.1)
        hnd'.2 (by intro k' hk'; rw [hl1]; exact hlt k' (by simp [hk']))
      split at this
      · rename_i tree' σ' heq
        obtain ⟨r, s, n, inj, m⟩ := this
        refine ⟨hr1.trans r, s, n, inj, ?_⟩
        intro i
        rw [m i]
        constructor
        · rintro (⟨e, he, hi''⟩ | h)
          · rcases mem_treeAdd.mp he with h' | rfl
            · exact .inl ⟨e, h', hi''⟩
            · right; simp at hi''; simp [hi'']
          · right; simp [h]
        · rintro (⟨e, he, hi''⟩ | h)
          · exact .inl ⟨e, mem_treeAdd.mpr (.inl he), hi''⟩
          · simp at h
            rcases h with rfl | h
            · exact .inl ⟨⟨i, lo, hi'⟩, mem_treeAdd.mpr (.inr rfl), rfl⟩
            · exact .inr h
      · rename_i σ' heq
        exact hr1.trans this

/-- the result of `make_distinct` on valid trajectories, for every choice function -/
theorem makeDistinct_spec (ch : Choice) {σ : St} {fs : List Int} (hv : ValidSt σ fs) :
    (∃ σ' r, makeDistinct ch σ = .ok σ' r ∧ Reach σ σ' ∧ AllSep σ') ∨
    (∃ σ', makeDistinct ch σ = .valueError σ' ∧ Reach σ σ') ∨ makeDistinct ch σ = .badChoice := by
  unfold makeDistinct
  have h0 := mdInit_spec fs (List.range σ.length) σ [] hv (by intro e he; cases he) List.nodup_nil
    (by intro e he; cases he) (by intro e he; cases he) List.nodup_range (by intro k hk; simpa using hk)
  split
  · rename_i σ1 heq
    rw [heq] at h0
    exact .inr (.inl ⟨σ1, rfl, h0⟩)
  · rename_i tree σ1 heq
    rw [heq] at h0
    obtain ⟨r, s, n, inj, m⟩ := h0
    have inv : MDInv σ1 tree fs := by
      refine ⟨r.valid hv, s, n, inj, ?_⟩
      intro i j hij
      by_cases hi : i < σ.length
      · by_cases hj : j < σ.length
        · right
          exact ⟨(m i).mpr (.inr (by simpa using hi)), (m j).mpr (.inr (by simpa using hj))⟩
        · left; intro a b _ hb
          have : σ1.length = σ.length := r.length
          simp [List.getElem?_eq_none (show σ1.length ≤ j by omega)] at hb
      · left; intro a b ha _
        have : σ1.length = σ.length := r.length
        simp [List.getElem?_eq_none (show σ1.length ≤ i by omega)] at ha
    rcases mdLoop_spec ch fs _ 0 tree σ1 inv (Nat.le_refl _) with ⟨σ', r', e, hr, hs⟩ | e
    · exact .inl ⟨σ', r', e, r.trans hr, hs⟩
    · exact .inr (.inr e)

end GtModel.Bounded

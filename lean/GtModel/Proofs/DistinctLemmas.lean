/- `make_distinct`: separation is stable under tightening; the tree invariant; post-condition and termination. -/
import GtModel.Proofs.CompareLemmas

namespace GtModel.Bounded
open GtModel

/-- items `i` and `j` are separated: both definitive or disjoint -/
def SepAt (σ : St) (i j : Nat) : Prop := ∀ a b, σ[i]? = some a → σ[j]? = some b → sepB a.cur b.cur = true

theorem sepB_comm (x y : Range) : sepB x y = sepB y x := by
  unfold sepB
  cases x.definitive <;> cases y.definitive <;> cases Bound.lt x.hi y.lo <;> cases Bound.lt y.hi x.lo <;> rfl

theorem SepAt.symm {σ : St} {i j : Nat} (h : SepAt σ i j) : SepAt σ j i := by
  intro a b ha hb; rw [sepB_comm]; exact h b a hb ha

theorem sepB_shrink {x x' y : Range} {n : Int} (hc : x.contains x' = true)
    (hlo : Bound.le x'.lo (.fin n) = true) (hhi : Bound.le (.fin n) x'.hi = true)
    (h : sepB x y = true) : sepB x' y = true := by
  simp [Range.contains] at hc
  obtain ⟨c1, c2⟩ := hc
  unfold sepB at h ⊢
  simp only [Bool.or_eq_true, Bool.and_eq_true] at h ⊢
  rcases h with (⟨hx, hy⟩ | h) | h
  · left; left
    refine ⟨?_, hy⟩
    rcases x with ⟨xl, xh⟩; rcases x' with ⟨xl', xh'⟩
    simp [Range.definitive] at hx ⊢
    obtain ⟨e, f⟩ := hx
    subst e
    cases xl <;> simp [Bound.isFin] at f
    rename_i v
    simp at c1 c2 hlo hhi
    have a1 := Bound.le_antisymm (Bound.le_trans (Bound.le_trans hlo hhi) c2) c1
    have a2 := Bound.le_antisymm c2 (Bound.le_trans c1 (Bound.le_trans hlo hhi))
    subst a1; subst a2; simp [Bound.isFin]
  · left; right; exact Bound.lt_of_le_of_lt c2 h
  · right; exact Bound.lt_of_lt_of_le h c1

theorem Item.Valid.tighten_contains {a : Item} {n : Int} (h : a.Valid n) :
    a.cur.contains (a.tighten).2.cur = true := by
  unfold Item.tighten
  cases hr : a.rest with
  | nil => simp [Range.contains, Bound.le_refl]
  | cons r rs =>
    unfold Item.Valid Item.traj at h; rw [hr] at h
    exact h.1.1

theorem sepB_tighten {a : Item} {n : Int} (h : a.Valid n) {y : Range} (hs : sepB a.cur y = true) :
    sepB (a.tighten).2.cur y = true :=
  sepB_shrink h.tighten_contains h.tighten.contains.1 h.tighten.contains.2 hs

theorem ValidSt.get {σ : St} {fs : List Int} (hv : ValidSt σ fs) {i : Nat} {a : Item} (h : σ[i]? = some a) :
    ∃ n, fs[i]? = some n ∧ a.Valid n := by
  have : i < fs.length := by
    rcases Nat.lt_or_ge i σ.length with h' | h'
    · rw [← hv.1]; exact h'
    · simp [List.getElem?_eq_none h'] at h
  exact ⟨fs[i], List.getElem?_eq_getElem this, hv.2 i a _ h (List.getElem?_eq_getElem this)⟩

theorem get_of_tightenAt' {σ : St} {k m : Nat} {x : Item} (h : (tightenAt σ k).2[m]? = some x) :
    ∃ x0, σ[m]? = some x0 ∧ x = (if m = k then (x0.tighten).2 else x0) := by
  obtain ⟨x0, h0⟩ := get_of_tightenAt h
  refine ⟨x0, h0, ?_⟩
  have := tightenAt_get σ k m x0 h0
  rw [h] at this; cases this; rfl

theorem SepAt.tightenAt {σ : St} {fs : List Int} (hv : ValidSt σ fs) {i j : Nat} (h : SepAt σ i j) (k : Nat) :
    SepAt (tightenAt σ k).2 i j := by
  intro a' b' ha' hb'
  obtain ⟨a0, ha0, ea⟩ := get_of_tightenAt' ha'
  obtain ⟨b0, hb0, eb⟩ := get_of_tightenAt' hb'
  obtain ⟨na, _, va⟩ := hv.get ha0
  obtain ⟨nb, _, vb⟩ := hv.get hb0
  have h0 := h a0 b0 ha0 hb0
  have h1 : sepB a'.cur b0.cur = true := by
    rw [ea]; split
    · exact sepB_tighten va h0
    · exact h0
  rw [sepB_comm] at h1 ⊢
  rw [eb]; split
  · exact sepB_tighten vb h1
  · exact h1

theorem SepAt.reach {σ σ' : St} {fs : List Int} (hr : Reach σ σ') (hv : ValidSt σ fs) {i j : Nat}
    (h : SepAt σ i j) : SepAt σ' i j := by
  induction hr with
  | refl => exact h
  | step k _ ih => exact ih (hv.tightenAt k) (h.tightenAt hv k)

/-! ## the inner loop -/

theorem sepLoop_spec (σ : St) (b s : Nat) : ∀ σ', sepLoop σ b s = some σ' →
    Reach σ σ' ∧ SepAt σ' b s ∧ (∀ m, m ≠ b → m ≠ s → σ'[m]? = σ[m]?) ∧
    ((∀ x y, σ[b]? = some x → σ[s]? = some y → sepB x.cur y.cur = false) → total σ' < total σ) := by
  fun_induction sepLoop σ b s with
  | case1 σ x y hx hy hc =>
    intro σ' h; cases h
    refine ⟨.refl _, ?_, fun _ _ _ => rfl, ?_⟩
    · intro a c ha hc'
      rw [hy] at ha; rw [hx] at hc'; cases ha; cases hc'; exact hc
    · intro hf
      have := hf x y hy hx
      rw [this] at hc; cases hc
  | case2 σ x y hx hy hc h ih =>
    intro σ' hs
    obtain ⟨r, sp, fr, _⟩ := ih σ' hs
    refine ⟨.step b (.step s r), sp, ?_, ?_⟩
    · intro m hb hs'
      rw [fr m hb hs', tightenAt_get_ne hs', tightenAt_get_ne hb]
    · intro _
      have l := r.total_le
      rcases h with h | h
      · have := total_tightenAt_true h; have := total_tightenAt_le (tightenAt σ b).2 s; omega
      · have := total_tightenAt_true h; have := total_tightenAt_le σ b; omega
  | case3 σ x y hx hy hc h => intro σ' hs; cases hs
  | case4 σ hno => intro σ' hs; cases hs

theorem sepLoop_some {σ : St} {fs : List Int} (hv : ValidSt σ fs) {b s : Nat} (hne : b ≠ s)
    (hb : b < σ.length) (hs : s < σ.length) : ∃ σ', sepLoop σ b s = some σ' := by
  fun_induction sepLoop σ b s with
  | case1 σ x y hx hy hc => exact ⟨_, rfl⟩
  | case2 σ x y hx hy hc h ih =>
    exact ih ((hv.tightenAt b).tightenAt s) (by simp [tightenAt_length]; exact hb) (by simp [tightenAt_length]; exact hs)
  | case3 σ x y hx hy hc h =>
    exfalso
    simp only [not_or, Bool.not_eq_true] at h
    have rx := tightenAt_false_rest hy h.1
    have hy1 : (tightenAt σ b).2[s]? = some y := by rw [tightenAt_get_ne (Ne.symm hne)]; exact hx
    have ry := tightenAt_false_rest hy1 h.2
    obtain ⟨nx, _, vx⟩ := hv.get hy
    obtain ⟨ny, _, vy⟩ := hv.get hx
    have dx := vx.definitive_iff.mpr rx
    have dy := vy.definitive_iff.mpr ry
    apply hc
    simp [sepB, dx, dy]
  | case4 σ hno =>
    exfalso
    exact hno _ _ (List.getElem?_eq_getElem hb) (List.getElem?_eq_getElem hs)

end GtModel.Bounded

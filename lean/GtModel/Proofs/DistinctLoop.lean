/- `make_distinct`: the tree invariant, post-condition and termination of the main loop. -/
import GtModel.Proofs.DistinctLemmas

namespace GtModel.Bounded
open GtModel

def Sync (σ : St) (tree : List Entry) : Prop :=
  ∀ e ∈ tree, ∃ a, σ[e.idx]? = some a ∧ a.cur = ⟨.fin e.lo, .fin e.hi⟩

def IdxInj (tree : List Entry) : Prop := ∀ e1 ∈ tree, ∀ e2 ∈ tree, e1.idx = e2.idx → e1 = e2

def InTree (tree : List Entry) (i : Nat) : Prop := ∃ e ∈ tree, e.idx = i

def PairInv (σ : St) (tree : List Entry) : Prop :=
  ∀ i j, i ≠ j → SepAt σ i j ∨ (InTree tree i ∧ InTree tree j)

def AllSep (σ : St) : Prop := ∀ i j, i ≠ j → SepAt σ i j

structure MDInv (σ : St) (tree : List Entry) (fs : List Int) : Prop where
  valid : ValidSt σ fs
  sync : Sync σ tree
  nodup : tree.Nodup
  inj : IdxInj tree
  pair : PairInv σ tree

theorem finOf_some {r : Range} {lo hi : Int} (h : finOf r = some (lo, hi)) : r = ⟨.fin lo, .fin hi⟩ := by
  rcases r with ⟨l, u⟩
  cases l <;> cases u <;> simp [finOf] at h
  obtain ⟨rfl, rfl⟩ := h; rfl

theorem finOf_fin (lo hi : Int) : finOf ⟨.fin lo, .fin hi⟩ = some (lo, hi) := rfl

theorem finite_finOf {r : Range} (h : r.finite = true) : ∃ lo hi, finOf r = some (lo, hi) := by
  rcases r with ⟨l, u⟩
  cases l <;> cases u <;> simp [Range.finite, Bound.isFin] at h
  exact ⟨_, _, rfl⟩

theorem not_overlap_sep {a b : Range} {l1 h1 l2 h2 : Int} (ea : a = ⟨.fin l1, .fin h1⟩) (eb : b = ⟨.fin l2, .fin h2⟩)
    (e2 : Entry) (h2l : e2.lo = l2) (h2h : e2.hi = h2) (hno : e2.overlaps l1 h1 = false) : sepB a b = true := by
  subst ea; subst eb
  simp [Entry.overlaps, h2l, h2h] at hno
  simp [sepB, Bound.lt]
  by_cases h : l2 < h1 + 1
  · have := hno h; right; omega
  · left; right; omega

theorem pick_spec {k : Nat} {cands : List Entry} {e : Entry} (h : pick k cands = some e) :
    e ∈ cands ∧ e.idx = k ∧ ∀ m ∈ cands, m.size ≤ e.size := by
  unfold pick at h
  split at h
  · cases h
  · rename_i e' hf
    split at h
    · rename_i hall
      cases h
      have := List.find?_some hf
      simp at this
      refine ⟨List.mem_of_find?_eq_some hf, this, ?_⟩
      intro m hm
      simp at hall
      exact hall m hm
    · cases h

theorem mem_treeAdd {tree : List Entry} {e e' : Entry} : e' ∈ treeAdd tree e ↔ e' ∈ tree ∨ e' = e := by
  unfold treeAdd
  split
  · rename_i h; simp at h
    constructor
    · exact .inl
    · rintro (h' | rfl)
      · exact h'
      · exact h
  · simp

theorem treeAdd_length (tree : List Entry) (e : Entry) : (treeAdd tree e).length ≤ tree.length + 1 := by
  unfold treeAdd; split <;> simp

theorem treeAdd_nodup {tree : List Entry} (h : tree.Nodup) (e : Entry) : (treeAdd tree e).Nodup := by
  unfold treeAdd
  split
  · exact h
  · rename_i hc; simp at hc
    rw [List.nodup_append]
    refine ⟨h, by simp, ?_⟩
    intro a ha b hb
    simp at hb; subst hb
    intro hab; subst hab; exact hc ha

theorem readd_spec {tree tree' : List Entry} {σ : St} {k : Nat} (h : readd tree σ k = some tree') :
    ∃ lo hi a, σ[k]? = some a ∧ a.cur = ⟨.fin lo, .fin hi⟩ ∧
      ((tree' = tree ∧ ∀ e ∈ tree, e.overlaps lo hi = false) ∨ tree' = treeAdd tree ⟨k, lo, hi⟩) := by
  unfold readd at h
  split at h
  · cases h
  · rename_i lo hi hf
    unfold curAt at hf
    cases ha : σ[k]? with
    | none => simp [ha] at hf
    | some a =>
      simp [ha] at hf
      refine ⟨lo, hi, a, rfl, finOf_some hf, ?_⟩
      cases h
      split
      · exact .inr rfl
      · rename_i hany
        simp at hany
        exact .inl ⟨rfl, fun e he => by simpa using hany e he⟩

/-- finiteness of the current range is preserved by tightening valid items -/
def FinAt (σ : St) (k : Nat) : Prop := ∀ a, σ[k]? = some a → a.cur.finite = true

theorem finite_shrink {x x' : Range} {n : Int} (hc : x.contains x' = true)
    (hlo : Bound.le x'.lo (.fin n) = true) (hhi : Bound.le (.fin n) x'.hi = true) (h : x.finite = true) :
    x'.finite = true := by
  rcases x with ⟨l, u⟩; rcases x' with ⟨l', u'⟩
  simp [Range.contains] at hc
  cases l <;> cases u <;> simp [Range.finite, Bound.isFin] at h
  cases l' <;> cases u' <;> simp_all [Range.finite, Bound.isFin, Bound.le, Bound.lt]

theorem FinAt.tightenAt {σ : St} {fs : List Int} (hv : ValidSt σ fs) {m : Nat} (h : FinAt σ m) (k : Nat) :
    FinAt (tightenAt σ k).2 m := by
  intro a' ha'
  obtain ⟨a0, ha0, ea⟩ := get_of_tightenAt' ha'
  obtain ⟨n, _, va⟩ := hv.get ha0
  rw [ea]; split
  · exact finite_shrink va.tighten_contains va.tighten.contains.1 va.tighten.contains.2 (h a0 ha0)
  · exact h a0 ha0

theorem FinAt.reach {σ σ' : St} {fs : List Int} (hr : Reach σ σ') (hv : ValidSt σ fs) {m : Nat}
    (h : FinAt σ m) : FinAt σ' m := by
  induction hr with
  | refl => exact h
  | step k _ ih => exact ih (hv.tightenAt k) (h.tightenAt hv k)

theorem readd_some {tree : List Entry} {σ : St} {k : Nat} (hk : k < σ.length) (hf : FinAt σ k) :
    ∃ tree', readd tree σ k = some tree' := by
  unfold readd curAt
  have g : σ[k]? = some σ[k] := List.getElem?_eq_getElem hk
  obtain ⟨lo, hi, e⟩ := finite_finOf (hf _ g)
  rw [g]; simp [e]

theorem Sync.finAt {σ : St} {tree : List Entry} (h : Sync σ tree) {e : Entry} (he : e ∈ tree) : FinAt σ e.idx := by
  intro a ha
  obtain ⟨a', ha', ec⟩ := h e he
  rw [ha] at ha'; cases ha'
  rw [ec]; rfl

theorem Sync.lt_length {σ : St} {tree : List Entry} (h : Sync σ tree) {e : Entry} (he : e ∈ tree) :
    e.idx < σ.length := by
  obtain ⟨a', ha', _⟩ := h e he
  rcases Nat.lt_or_ge e.idx σ.length with h' | h'
  · exact h'
  · simp [List.getElem?_eq_none h'] at ha'

/-- round A: the biggest interval overlaps nothing else and is dropped -/
theorem MDInv.roundA {σ : St} {tree : List Entry} {fs : List Int} (inv : MDInv σ tree fs) {big : Entry}
    (hb : big ∈ tree) (hm : (tree.erase big).filter (fun e => e.overlaps big.lo big.hi) = []) :
    MDInv σ (tree.erase big) fs := by
  have sub : ∀ e, e ∈ tree.erase big → e ∈ tree := fun e he => List.mem_of_mem_erase he
  refine ⟨inv.valid, fun e he => inv.sync e (sub e he), inv.nodup.erase _, ?_, ?_⟩
  · intro e1 h1 e2 h2 he; exact inv.inj e1 (sub _ h1) e2 (sub _ h2) he
  · -- pairs
    have key : ∀ i j, i ≠ j → InTree tree i → InTree tree j → i = big.idx →
        SepAt σ i j ∨ (InTree (tree.erase big) i ∧ InTree (tree.erase big) j) := by
      intro i j hij ⟨ei, hei, ii⟩ ⟨ej, hej, jj⟩ hbi
      left
      have eib : ei = big := inv.inj ei hei big hb (by rw [ii, hbi])
      subst eib
      have hne : ej ≠ ei := by intro h; subst h; exact hij (ii.symm.trans jj)
      have hej' : ej ∈ tree.erase ei := (inv.nodup.mem_erase_iff).mpr ⟨hne, hej⟩
      have hno : ej.overlaps ei.lo ei.hi = false := by
        have : ej ∉ (tree.erase ei).filter (fun e => e.overlaps ei.lo ei.hi) := by rw [hm]; simp
        simp [List.mem_filter, hej'] at this
        simpa using this
      intro a b ha hb'
      obtain ⟨a', ha', eca⟩ := inv.sync ei hei
      obtain ⟨b', hb'', ecb⟩ := inv.sync ej hej
      rw [ii] at ha'; rw [jj] at hb''
      rw [ha] at ha'; rw [hb'] at hb''; cases ha'; cases hb''
      exact not_overlap_sep eca ecb ej rfl rfl hno
    intro i j hij
    rcases inv.pair i j hij with h | ⟨hi, hj⟩
    · exact .inl h
    · by_cases h1 : i = big.idx
      · exact key i j hij hi hj h1
      · by_cases h2 : j = big.idx
        · rcases key j i (Ne.symm hij) hj hi h2 with h | ⟨a, b⟩
          · exact .inl h.symm
          · exact .inr ⟨b, a⟩
        · right
          obtain ⟨ei, hei, ii⟩ := hi
          obtain ⟨ej, hej, jj⟩ := hj
          refine ⟨⟨ei, (inv.nodup.mem_erase_iff).mpr ⟨?_, hei⟩, ii⟩, ⟨ej, (inv.nodup.mem_erase_iff).mpr ⟨?_, hej⟩, jj⟩⟩
          · intro h; subst h; exact h1 ii.symm
          · intro h; subst h; exact h2 jj.symm

end GtModel.Bounded

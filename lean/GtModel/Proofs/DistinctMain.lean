/- `make_distinct`: round B of the main loop, the loop theorem, and the initial loop. -/
import GtModel.Proofs.DistinctLoop

namespace GtModel.Bounded
open GtModel

theorem add_inv {σ : St} {T : List Entry} {k : Nat} {a : Item} {lo hi : Int} (hs : Sync σ T) (hi' : IdxInj T)
    (hk : ∀ e ∈ T, e.idx ≠ k) (ha : σ[k]? = some a) (hc : a.cur = ⟨.fin lo, .fin hi⟩) :
    Sync σ (treeAdd T ⟨k, lo, hi⟩) ∧ IdxInj (treeAdd T ⟨k, lo, hi⟩) := by
  constructor
  · intro e he
    rcases mem_treeAdd.mp he with h | rfl
    · exact hs e h
    · exact ⟨a, ha, hc⟩
  · intro e1 h1 e2 h2 he
    rcases mem_treeAdd.mp h1 with h1 | rfl <;> rcases mem_treeAdd.mp h2 with h2 | rfl
    · exact hi' e1 h1 e2 h2 he
    · exact absurd he (hk e1 h1)
    · exact absurd he.symm (hk e2 h2)
    · rfl

theorem readd_sub {tree tree' : List Entry} {σ : St} {k : Nat} (h : readd tree σ k = some tree') :
    ∀ e ∈ tree, e ∈ tree' := by
  obtain ⟨lo, hi, a, _, _, h' | h'⟩ := readd_spec h
  · intro e he; rw [h'.1]; exact he
  · intro e he; rw [h']; exact mem_treeAdd.mpr (.inl he)

theorem readd_length {tree tree' : List Entry} {σ : St} {k : Nat} (h : readd tree σ k = some tree') :
    tree'.length ≤ tree.length + 1 := by
  obtain ⟨lo, hi, a, _, _, h' | h'⟩ := readd_spec h
  · rw [h'.1]; omega
  · rw [h']; exact treeAdd_length _ _

/-- round B: the two biggest overlapping intervals are separated and possibly put back -/
theorem MDInv.roundB {σ σ' : St} {tree tree3 tree4 : List Entry} {fs : List Int} (inv : MDInv σ tree fs)
    {big sec : Entry} (hb : big ∈ tree) (hs : sec ∈ tree.erase big)
    (hsl : sepLoop σ big.idx sec.idx = some σ')
    (h3 : readd ((tree.erase big).erase sec) σ' big.idx = some tree3)
    (h4 : readd tree3 σ' sec.idx = some tree4) : MDInv σ' tree4 fs := by
  obtain ⟨hr, hsep, frame, _⟩ := sepLoop_spec σ big.idx sec.idx σ' hsl
  have nd1 := inv.nodup.erase big
  have hs' : sec ≠ big ∧ sec ∈ tree := (inv.nodup.mem_erase_iff).mp hs
  have hbs : big.idx ≠ sec.idx := fun h => hs'.1 (inv.inj sec hs'.2 big hb h.symm)
  have mem2 : ∀ e, e ∈ (tree.erase big).erase sec → e ∈ tree ∧ e.idx ≠ big.idx ∧ e.idx ≠ sec.idx := by
    intro e he
    have h1 := (nd1.mem_erase_iff).mp he
    have h2 := (inv.nodup.mem_erase_iff).mp h1.2
    exact ⟨h2.2, fun h => h2.1 (inv.inj e h2.2 big hb h), fun h => h1.1 (inv.inj e h2.2 sec hs'.2 h)⟩
  have mem2' : ∀ e, e ∈ tree → e.idx ≠ big.idx → e.idx ≠ sec.idx → e ∈ (tree.erase big).erase sec := by
    intro e he h1 h2
    refine (nd1.mem_erase_iff).mpr ⟨fun h => h2 (by rw [h]), (inv.nodup.mem_erase_iff).mpr ⟨fun h => h1 (by rw [h]), he⟩⟩
  have valid' := hr.valid inv.valid
  have sync2 : Sync σ' ((tree.erase big).erase sec) := by
    intro e he
    obtain ⟨ht, n1, n2⟩ := mem2 e he
    rw [frame e.idx n1 n2]; exact inv.sync e ht
  have inj2 : IdxInj ((tree.erase big).erase sec) := fun e1 h1 e2 h2 he => inv.inj e1 (mem2 e1 h1).1 e2 (mem2 e2 h2).1 he
  have nd2 := nd1.erase sec
  obtain ⟨lo3, hi3, a3, ha3, hc3, case3⟩ := readd_spec h3
  obtain ⟨lo4, hi4, a4, ha4, hc4, case4⟩ := readd_spec h4
  -- tree3
  have p3 : Sync σ' tree3 ∧ IdxInj tree3 ∧ tree3.Nodup ∧ (∀ e ∈ tree3, e.idx ≠ sec.idx) := by
    rcases case3 with ⟨e3, _⟩ | e3
    · rw [e3]; exact ⟨sync2, inj2, nd2, fun e he => (mem2 e he).2.2⟩
    · rw [e3]
      have := add_inv sync2 inj2 (fun e he => (mem2 e he).2.1) ha3 hc3
      refine ⟨this.1, this.2, treeAdd_nodup nd2 _, ?_⟩
      intro e he
      rcases mem_treeAdd.mp he with h | rfl
      · exact (mem2 e h).2.2
      · exact hbs
  have p4 : Sync σ' tree4 ∧ IdxInj tree4 ∧ tree4.Nodup := by
    rcases case4 with ⟨e4, _⟩ | e4
    · rw [e4]; exact ⟨p3.1, p3.2.1, p3.2.2.1⟩
    · rw [e4]
      have := add_inv p3.1 p3.2.1 p3.2.2.2 ha4 hc4
      exact ⟨this.1, this.2, treeAdd_nodup p3.2.2.1 _⟩
  have sub3 := readd_sub h3
  have sub4 := readd_sub h4
  have in4 : ∀ j, InTree ((tree.erase big).erase sec) j → InTree tree4 j :=
    fun j ⟨e, he, hj⟩ => ⟨e, sub4 e (sub3 e he), hj⟩
  -- big against the untouched ones
  have cb : ∀ j, InTree ((tree.erase big).erase sec) j → SepAt σ' big.idx j ∨ InTree tree4 big.idx := by
    intro j ⟨ej, hej, jj⟩
    rcases case3 with ⟨_, hno⟩ | e3
    · left
      intro a b ha hb'
      obtain ⟨b', hb'', ecb⟩ := sync2 ej hej
      rw [jj, hb'] at hb''; cases hb''
      rw [ha3] at ha; cases ha
      exact not_overlap_sep hc3 ecb ej rfl rfl (hno ej hej)
    · right
      exact ⟨⟨big.idx, lo3, hi3⟩, sub4 _ (by rw [e3]; exact mem_treeAdd.mpr (.inr rfl)), rfl⟩
  have cs : ∀ j, InTree ((tree.erase big).erase sec) j → SepAt σ' sec.idx j ∨ InTree tree4 sec.idx := by
    intro j ⟨ej, hej, jj⟩
    rcases case4 with ⟨_, hno⟩ | e4
    · left
      intro a b ha hb'
      obtain ⟨b', hb'', ecb⟩ := sync2 ej hej
      rw [jj, hb'] at hb''; cases hb''
      rw [ha4] at ha; cases ha
      exact not_overlap_sep hc4 ecb ej rfl rfl (hno ej (sub3 ej hej))
    · right
      exact ⟨⟨sec.idx, lo4, hi4⟩, by rw [e4]; exact mem_treeAdd.mpr (.inr rfl), rfl⟩
  refine ⟨valid', p4.1, p4.2.2, p4.2.1, ?_⟩
  -- classification of tree members
  have cls : ∀ i, InTree tree i → i = big.idx ∨ i = sec.idx ∨ InTree ((tree.erase big).erase sec) i := by
    intro i ⟨e, he, hi⟩
    by_cases h1 : i = big.idx
    · exact .inl h1
    · by_cases h2 : i = sec.idx
      · exact .inr (.inl h2)
      · exact .inr (.inr ⟨e, mem2' e he (by rw [hi]; exact h1) (by rw [hi]; exact h2), hi⟩)
  -- one orientation
  have key : ∀ i j, i ≠ j → InTree tree i → InTree tree j →
      (i = big.idx ∨ (i = sec.idx ∧ j ≠ big.idx) ∨ (InTree ((tree.erase big).erase sec) i ∧ InTree ((tree.erase big).erase sec) j)) →
      SepAt σ' i j ∨ (InTree tree4 i ∧ InTree tree4 j) := by
    intro i j hij hi hj hcase
    rcases hcase with rfl | ⟨rfl, hjb⟩ | ⟨h1, h2⟩
    · rcases cls j hj with h | rfl | h
      · exact absurd h.symm hij
      · exact .inl hsep
      · rcases cb j h with h' | h'
        · exact .inl h'
        · exact .inr ⟨h', in4 j h⟩
    · rcases cls j hj with h | h | h
      · exact absurd h hjb
      · exact absurd h.symm hij
      · rcases cs j h with h' | h'
        · exact .inl h'
        · exact .inr ⟨h', in4 j h⟩
    · exact .inr ⟨in4 i h1, in4 j h2⟩
  intro i j hij
  rcases inv.pair i j hij with h | ⟨hi, hj⟩
  · exact .inl (h.reach hr inv.valid)
  · rcases cls i hi with h1 | h1 | h1
    · exact key i j hij hi hj (.inl h1)
    · by_cases hjb : j = big.idx
      · rcases key j i (Ne.symm hij) hj hi (.inl hjb) with h | ⟨a, b⟩
        · exact .inl h.symm
        · exact .inr ⟨b, a⟩
      · exact key i j hij hi hj (.inr (.inl ⟨h1, hjb⟩))
    · rcases cls j hj with h2 | h2 | h2
      · rcases key j i (Ne.symm hij) hj hi (.inl h2) with h | ⟨a, b⟩
        · exact .inl h.symm
        · exact .inr ⟨b, a⟩
      · have : i ≠ big.idx := by
          obtain ⟨e, he, hi'⟩ := h1
          rw [← hi']; exact (mem2 e he).2.1
        rcases key j i (Ne.symm hij) hj hi (.inr (.inl ⟨h2, this⟩)) with h | ⟨a, b⟩
        · exact .inl h.symm
        · exact .inr ⟨b, a⟩
      · exact key i j hij hi hj (.inr (.inr ⟨h1, h2⟩))

/-- what `mdLoop` may return on a state satisfying the invariant, with enough fuel -/
theorem mdLoop_spec (ch : Choice) (fs : List Int) : ∀ (f r : Nat) (tree : List Entry) (σ : St),
    MDInv σ tree fs → total σ + tree.length + 1 ≤ f →
    (∃ σ' r', mdLoop ch f r tree σ = .ok σ' r' ∧ Reach σ σ' ∧ AllSep σ') ∨ mdLoop ch f r tree σ = .badChoice := by
  intro f
  induction f with
  | zero => intro r tree σ _ hf; omega
  | succ f ih =>
    intro r tree σ inv hf
    unfold mdLoop
    split
    · -- at most one interval left
      rename_i hlen
      left
      refine ⟨σ, r, rfl, .refl _, ?_⟩
      intro i j hij
      rcases inv.pair i j hij with h | ⟨⟨ei, hei, ii⟩, ⟨ej, hej, jj⟩⟩
      · exact h
      · exfalso
        match tree, hlen, hei, hej with
        | [], _, hei, _ => simp at hei
        | [e], _, hei, hej =>
          simp at hei hej; subst hei; subst hej; exact hij (ii.symm.trans jj)
    · rename_i hlen
      split
      · exact .inr rfl
      · rename_i big hpick
        obtain ⟨hb, _, hmax⟩ := pick_spec hpick
        obtain ⟨bi, hbi, hbc⟩ := inv.sync big hb
        rw [hbi]
        simp only []
        split
        · -- the biggest is definitive: every interval in the tree is a point
          rename_i hdef
          left
          refine ⟨σ, r, rfl, .refl _, ?_⟩
          intro i j hij
          rcases inv.pair i j hij with h | ⟨⟨ei, hei, ii⟩, ⟨ej, hej, jj⟩⟩
          · exact h
          · have hsz : big.size = 1 := by
              rw [hbc] at hdef
              simp [Range.definitive] at hdef
              have := hdef.1
              simp [Entry.size]; omega
            have pt : ∀ e ∈ tree, ∀ a, σ[e.idx]? = some a → a.cur.definitive = true := by
              intro e he a ha
              obtain ⟨a', ha', ec⟩ := inv.sync e he
              rw [ha] at ha'; cases ha'
              obtain ⟨n, _, va⟩ := inv.valid.get ha
              have c := va.contains
              rw [ec] at c ⊢
              simp [Bound.fin_le_fin] at c
              have := hmax e he
              rw [hsz] at this
              simp [Entry.size] at this
              simp [Range.definitive, Bound.isFin]; omega
            intro a b ha hb'
            rw [← ii] at ha; rw [← jj] at hb'
            simp [sepB, pt ei hei a ha, pt ej hej b hb']
        · rename_i hndef
          split
          · -- round A
            rename_i hme
            have hme' : (tree.erase big).filter (fun e => e.overlaps big.lo big.hi) = [] := by
              simpa using hme
            have inv' := inv.roundA hb hme'
            have hl : (tree.erase big).length + 1 = tree.length := by
              rw [List.length_erase_of_mem hb]
              have : 0 < tree.length := List.length_pos_of_mem hb
              omega
            exact ih (r + 1) _ σ inv' (by omega)
          · rename_i hme
            split
            · exact .inr rfl
            · rename_i sec hpick2
              obtain ⟨hsm, _, _⟩ := pick_spec hpick2
              have hs : sec ∈ tree.erase big := (List.mem_filter.mp hsm).1
              have hov : sec.overlaps big.lo big.hi = true := (List.mem_filter.mp hsm).2
              have hs' : sec ≠ big ∧ sec ∈ tree := (inv.nodup.mem_erase_iff).mp hs
              have hbs : big.idx ≠ sec.idx := fun h => hs'.1 (inv.inj sec hs'.2 big hb h.symm)
              have lb := inv.sync.lt_length hb
              have ls := inv.sync.lt_length hs'.2
              obtain ⟨σ', hsl⟩ := sepLoop_some inv.valid hbs lb ls
              rw [hsl]
              simp only []
              obtain ⟨hr, _, _, hdec⟩ := sepLoop_spec σ big.idx sec.idx σ' hsl
              have hlen' := hr.length
              obtain ⟨tree3, h3⟩ := readd_some (tree := (tree.erase big).erase sec) (σ := σ') (k := big.idx)
                (by omega) ((inv.sync.finAt hb).reach hr inv.valid)
              rw [h3]
              simp only []
              obtain ⟨tree4, h4⟩ := readd_some (tree := tree3) (σ := σ') (k := sec.idx)
                (by omega) ((inv.sync.finAt hs'.2).reach hr inv.valid)
              rw [h4]
              simp only []
              have inv' := inv.roundB hb hs hsl h3 h4
              -- progress: the first test of the inner loop fails
              have hlt : total σ' < total σ := by
                apply hdec
                intro x y hx hy
                obtain ⟨s', hs'', ecs⟩ := inv.sync sec hs'.2
                rw [hbi] at hx; rw [hs''] at hy; cases hx; cases hy
                rw [hbc, ecs]
                rw [hbc] at hndef
                simp [Entry.overlaps] at hov
                simp only [Bool.not_eq_true] at hndef
                unfold sepB; rw [hndef]
                simp [Bound.lt]; omega
              have l1 : (tree.erase big).length + 1 = tree.length := by
                rw [List.length_erase_of_mem hb]
                have : 0 < tree.length := List.length_pos_of_mem hb
                omega
              have l2 : ((tree.erase big).erase sec).length + 1 = (tree.erase big).length := by
                rw [List.length_erase_of_mem hs]
                have : 0 < (tree.erase big).length := List.length_pos_of_mem hs
                omega
              have l3 := readd_length h3
              have l4 := readd_length h4
              rcases ih (r + 1) tree4 σ' inv' (by omega) with ⟨σ'', r'', e, hr', hs''⟩ | e
              · exact .inl ⟨σ'', r'', e, hr.trans hr', hs''⟩
              · exact .inr e

end GtModel.Bounded

/-
  General lemmas about the greedy edit matrix (`GtModel.EditMatrix.solve`).

  1. `spec`: the matrix as a recursive function of (r, c) — exactly the recurrence of `_add_node` / `_best_match`;
     `corner_eq_spec` / `solve_eq_spec` connect the row-fold implementation with it.
  2. `spec_induction`: every property that is preserved by the three admissible moves holds for every cell.
  3. M1–M6 (`solve_counts`, `solve_total_eq_sum`, `solve_total_le`, `solve_diag_lt`, `solve_zero`, `solve_path`).
-/
import GtModel.Model.EditMatrix

namespace GtModel.EditMatrix

/-! ### The recursive specification -/

/-- Cell (r, c) of the matrix, as a recursive function (exponential to evaluate; used in proofs only). -/
def spec (rem ins : List Nat) (cells : List (List Nat)) : Nat → Nat → Cell
  | 0, 0 => origin
  | 0, c + 1 => goLeft (spec rem ins cells 0 c) (rem.getD c 0)
  | r + 1, 0 => goUp (spec rem ins cells r 0) (ins.getD r 0)
  | r + 1, c + 1 =>
      step (ins.getD r 0) (rem.getD c 0) (cellAt cells r c)
        (spec rem ins cells r c) (spec rem ins cells (r + 1) c) (spec rem ins cells r (c + 1))
termination_by r c => (r, c)

/-- `f c, f (c+1), …` (k entries). -/
def tabulateFrom (f : Nat → Cell) : Nat → Nat → List Cell
  | _, 0 => []
  | c, k + 1 => f c :: tabulateFrom f (c + 1) k

theorem tabulateFrom_length (f : Nat → Cell) (c k : Nat) : (tabulateFrom f c k).length = k := by
  induction k generalizing c with
  | zero => rfl
  | succ k ih => simp [tabulateFrom, ih]

theorem tabulateFrom_getLast (f : Nat → Cell) (c k : Nat) :
    (tabulateFrom f c (k + 1)).getLast? = some (f (c + k)) := by
  induction k generalizing c with
  | zero => simp [tabulateFrom]
  | succ k ih =>
    rw [tabulateFrom, List.getLast?_cons]
    rw [ih (c + 1)]
    simp; congr 1; omega

theorem drop_eq_cons {α : Type} {l : List α} {k : Nat} {x : α} {xs : List α} (d : α)
    (h : l.drop k = x :: xs) : l.getD k d = x ∧ l.drop (k + 1) = xs := by
  constructor
  · have : (l.drop k)[0]? = some x := by rw [h]; rfl
    rw [List.getElem?_drop] at this
    simp [List.getD, this] at *
  · have : l.drop (k + 1) = (l.drop k).drop 1 := by rw [List.drop_drop]
    rw [this, h]; rfl

theorem headD_drop {α : Type} (l : List α) (k : Nat) (d : α) : (l.drop k).headD d = l.getD k d := by
  induction l generalizing k with
  | nil => simp
  | cons x l ih =>
    cases k with
    | zero => simp
    | succ k => simp

section Connect
variable (rem ins : List Nat) (cells : List (List Nat))

theorem row0Go_eq (rems : List Nat) (c : Nat) (h : rem.drop c = rems) :
    row0Go (spec rem ins cells 0 c) rems = tabulateFrom (spec rem ins cells 0) (c + 1) rems.length := by
  induction rems generalizing c with
  | nil => rfl
  | cons rm rems ih =>
    obtain ⟨h1, h2⟩ := drop_eq_cons 0 h
    have e : goLeft (spec rem ins cells 0 c) rm = spec rem ins cells 0 (c + 1) := by
      rw [spec.eq_2, h1]
    simp only [row0Go, List.length_cons, tabulateFrom, e]
    rw [ih (c + 1) h2]

theorem row0_eq : row0 rem = tabulateFrom (spec rem ins cells 0) 0 (rem.length + 1) := by
  have := row0Go_eq rem ins cells rem 0 (by simp)
  rw [spec.eq_1] at this
  simp [row0, tabulateFrom, this, spec.eq_1]

theorem rowGo_eq (r : Nat) (rems : List Nat) (c : Nat) (h : rem.drop c = rems) :
    rowGo (ins.getD r 0) (spec rem ins cells (r + 1) c)
        (tabulateFrom (spec rem ins cells r) c (rems.length + 1)) rems ((cells.getD r []).drop c)
      = tabulateFrom (spec rem ins cells (r + 1)) (c + 1) rems.length := by
  induction rems generalizing c with
  | nil => simp [rowGo, tabulateFrom]
  | cons rm rems ih =>
    obtain ⟨h1, h2⟩ := drop_eq_cons 0 h
    have e : step (ins.getD r 0) rm (((cells.getD r []).drop c).headD 0) (spec rem ins cells r c)
        (spec rem ins cells (r + 1) c) (spec rem ins cells r (c + 1)) = spec rem ins cells (r + 1) (c + 1) := by
      rw [spec.eq_4, h1, headD_drop]; rfl
    have ih' := ih (c + 1) h2
    simp only [List.length_cons, tabulateFrom, rowGo, e, List.tail_drop] at ih' ⊢
    rw [ih']

theorem nextRow_eq (r : Nat) :
    nextRow rem (tabulateFrom (spec rem ins cells r) 0 (rem.length + 1)) (ins.getD r 0) (cells.getD r [])
      = tabulateFrom (spec rem ins cells (r + 1)) 0 (rem.length + 1) := by
  have := rowGo_eq rem ins cells r rem 0 (by simp)
  have e : goUp (spec rem ins cells r 0) (ins.getD r 0) = spec rem ins cells (r + 1) 0 := by
    rw [spec.eq_3]
  rw [← e] at this
  simp only [List.drop_zero] at this
  simp only [nextRow, tabulateFrom] at this ⊢
  rw [this, e]

theorem finalRow_eq (inss : List Nat) (r : Nat) (h : ins.drop r = inss) :
    finalRow rem (tabulateFrom (spec rem ins cells r) 0 (rem.length + 1)) inss (cells.drop r)
      = tabulateFrom (spec rem ins cells (r + inss.length)) 0 (rem.length + 1) := by
  induction inss generalizing r with
  | nil => simp [finalRow]
  | cons i inss ih =>
    obtain ⟨h1, h2⟩ := drop_eq_cons 0 h
    simp only [finalRow, headD_drop, List.tail_drop, List.length_cons]
    rw [← h1, nextRow_eq, ih (r + 1) h2]
    congr 2; omega

/-- The lower-right cell of the row-fold implementation is the recursive specification at (m, n). -/
theorem corner_eq_spec : corner rem ins cells = spec rem ins cells ins.length rem.length := by
  have := finalRow_eq rem ins cells ins 0 (by simp)
  simp only [List.drop_zero, Nat.zero_add] at this
  rw [← row0_eq] at this
  simp [corner, this, tabulateFrom_getLast]

theorem solve_eq_spec :
    solve rem ins cells = ((spec rem ins cells ins.length rem.length).cost,
                           (spec rem ins cells ins.length rem.length).script.reverse) := by
  simp [solve, corner_eq_spec]

end Connect

/-! ### The induction principle -/

theorem step_cases (i rm x : Nat) (d l u : Cell) :
    (step i rm x d l u = goDiag d x ∧ x < i ∧ x < rm) ∨ step i rm x d l u = goUp u i
      ∨ step i rm x d l u = goLeft l rm := by
  unfold step
  split
  · rename_i h
    simp only [Bool.and_eq_true, decide_eq_true_eq] at h
    exact Or.inl ⟨rfl, h.1.2, h.2⟩
  · split
    · exact Or.inr (Or.inl rfl)
    · exact Or.inr (Or.inr rfl)

/-- Every property of cells that holds at the origin and is preserved by a remove (left), an insert (up) and an
    admissible match (diag: only when strictly cheaper than the insert and the remove) holds for every cell. -/
theorem spec_induction (rem ins : List Nat) (cells : List (List Nat)) (Q : Nat → Nat → Cell → Prop)
    (h0 : Q 0 0 origin)
    (hl : ∀ r c p, Q r c p → Q r (c + 1) (goLeft p (rem.getD c 0)))
    (hu : ∀ r c p, Q r c p → Q (r + 1) c (goUp p (ins.getD r 0)))
    (hd : ∀ r c p, Q r c p → cellAt cells r c < ins.getD r 0 → cellAt cells r c < rem.getD c 0 →
        Q (r + 1) (c + 1) (goDiag p (cellAt cells r c)))
    (r c : Nat) : Q r c (spec rem ins cells r c) := by
  fun_induction spec rem ins cells r c with
  | case1 => exact h0
  | case2 c ih => exact hl _ _ _ ih
  | case3 r ih => exact hu _ _ _ ih
  | case4 r c ihd ihl ihu =>
    rcases step_cases (ins.getD r 0) (rem.getD c 0) (cellAt cells r c) (spec rem ins cells r c)
      (spec rem ins cells (r + 1) c) (spec rem ins cells r (c + 1)) with ⟨h, h1, h2⟩ | h | h
    · rw [h]; exact hd _ _ _ ihd h1 h2
    · rw [h]; exact hu _ _ _ ihu
    · rw [h]; exact hl _ _ _ ihl

/-! ### Replaying scripts -/

/-- Position reached after replaying a script from (r, c). -/
def endPos : Nat → Nat → List Move → Nat × Nat
  | r, c, [] => (r, c)
  | r, c, mv :: ms => endPos (Move.next r c mv).1 (Move.next r c mv).2 ms

/-- `P mv r c` holds for every move `mv` of the script, `(r, c)` being the position at which it is made. -/
def ForallMoves (P : Move → Nat → Nat → Prop) : Nat → Nat → List Move → Prop
  | _, _, [] => True
  | r, c, mv :: ms => P mv r c ∧ ForallMoves P (Move.next r c mv).1 (Move.next r c mv).2 ms

theorem endPos_append (r c : Nat) (ms : List Move) (mv : Move) :
    endPos r c (ms ++ [mv]) = Move.next (endPos r c ms).1 (endPos r c ms).2 mv := by
  induction ms generalizing r c with
  | nil => rfl
  | cons m ms ih => simp [endPos, ih]

theorem endPos_counts (r c : Nat) (ms : List Move) :
    endPos r c ms = (r + ms.count .diag + ms.count .up, c + ms.count .diag + ms.count .left) := by
  induction ms generalizing r c with
  | nil => simp [endPos]
  | cons m ms ih =>
    cases m <;> simp [endPos, ih, Move.next] <;> omega

theorem moveCostsFrom_append (rem ins : List Nat) (cells : List (List Nat)) (r c : Nat) (ms : List Move) (mv : Move) :
    moveCostsFrom rem ins cells r c (ms ++ [mv])
      = moveCostsFrom rem ins cells r c ms ++ [moveCost rem ins cells (endPos r c ms).1 (endPos r c ms).2 mv] := by
  induction ms generalizing r c with
  | nil => rfl
  | cons m ms ih => simp [moveCostsFrom, endPos, ih]

theorem forallMoves_append (P : Move → Nat → Nat → Prop) (r c : Nat) (ms : List Move) (mv : Move) :
    ForallMoves P r c (ms ++ [mv]) ↔ ForallMoves P r c ms ∧ P mv (endPos r c ms).1 (endPos r c ms).2 := by
  induction ms generalizing r c with
  | nil => simp [ForallMoves, endPos]
  | cons m ms ih => simp [ForallMoves, endPos, ih, and_assoc]

theorem positionsFrom_length (r c : Nat) (ms : List Move) : (positionsFrom r c ms).length = ms.length := by
  induction ms generalizing r c with
  | nil => rfl
  | cons m ms ih => simp [positionsFrom, ih]

/-- `ForallMoves` in terms of the located script. -/
theorem forallMoves_iff_located (P : Move → Nat → Nat → Prop) (ms : List Move) :
    ForallMoves P 0 0 ms ↔ ∀ x ∈ located ms, P x.1 x.2.1 x.2.2 := by
  have key : ∀ (ms : List Move) (r c : Nat),
      ForallMoves P r c ms ↔ ∀ x ∈ ms.zip (positionsFrom r c ms), P x.1 x.2.1 x.2.2 := by
    intro ms
    induction ms with
    | nil => simp [ForallMoves, positionsFrom]
    | cons m ms ih => intro r c; simp [ForallMoves, positionsFrom, ih]
  exact key ms 0 0

theorem sum_take_succ (l : List Nat) (k : Nat) : (l.take (k + 1)).sum = (l.take k).sum + l.getD k 0 := by
  induction l generalizing k with
  | nil => simp
  | cons x l ih =>
    cases k with
    | zero => simp
    | succ k => simp [ih k]; omega

section Props
variable (rem ins : List Nat) (cells : List (List Nat))

@[simp] theorem goLeft_script (p : Cell) (x : Nat) : (goLeft p x).script = .left :: p.script := rfl
@[simp] theorem goUp_script (p : Cell) (x : Nat) : (goUp p x).script = .up :: p.script := rfl
@[simp] theorem goDiag_script (p : Cell) (x : Nat) : (goDiag p x).script = .diag :: p.script := rfl
@[simp] theorem goLeft_cost (p : Cell) (x : Nat) : (goLeft p x).cost = p.cost + x := rfl
@[simp] theorem goUp_cost (p : Cell) (x : Nat) : (goUp p x).cost = p.cost + x := rfl
@[simp] theorem goDiag_cost (p : Cell) (x : Nat) : (goDiag p x).cost = p.cost + x := rfl
@[simp] theorem goLeft_path (p : Cell) (x : Nat) : (goLeft p x).path = p.path + 1 := rfl
@[simp] theorem goUp_path (p : Cell) (x : Nat) : (goUp p x).path = p.path + 1 := rfl
@[simp] theorem goDiag_path (p : Cell) (x : Nat) : (goDiag p x).path = p.path + 1 := rfl
@[simp] theorem origin_script : origin.script = [] := rfl
@[simp] theorem origin_cost : origin.cost = 0 := rfl
@[simp] theorem origin_path : origin.path = 0 := rfl

/-- The script of cell (r, c) leads from (0, 0) to (r, c). -/
theorem spec_endPos (r c : Nat) : endPos 0 0 (spec rem ins cells r c).script.reverse = (r, c) := by
  refine spec_induction rem ins cells (fun r c p => endPos 0 0 p.script.reverse = (r, c)) rfl ?_ ?_ ?_ r c
  · intro r c p h; simp [endPos_append, h, Move.next]
  · intro r c p h; simp [endPos_append, h, Move.next]
  · intro r c p h _ _; simp [endPos_append, h, Move.next]

/-- The cost of a cell is the sum of the costs of the moves of its script. -/
theorem spec_cost_eq_sum (r c : Nat) :
    (spec rem ins cells r c).cost = (moveCostsFrom rem ins cells 0 0 (spec rem ins cells r c).script.reverse).sum := by
  have := spec_induction rem ins cells
    (fun r c p => endPos 0 0 p.script.reverse = (r, c) ∧
      p.cost = (moveCostsFrom rem ins cells 0 0 p.script.reverse).sum) ⟨rfl, rfl⟩ ?_ ?_ ?_ r c
  · exact this.2
  · intro r c p ⟨h, h2⟩
    simp [endPos_append, moveCostsFrom_append, h, h2, Move.next, moveCost]
  · intro r c p ⟨h, h2⟩
    simp [endPos_append, moveCostsFrom_append, h, h2, Move.next, moveCost]
  · intro r c p ⟨h, h2⟩ _ _
    simp [endPos_append, moveCostsFrom_append, h, h2, Move.next, moveCost]

theorem spec_path (r c : Nat) : (spec rem ins cells r c).path = (spec rem ins cells r c).script.length := by
  refine spec_induction rem ins cells (fun _ _ p => p.path = p.script.length) rfl ?_ ?_ ?_ r c
  all_goals intros; simp_all

theorem spec_cost_le (r c : Nat) : (spec rem ins cells r c).cost ≤ (rem.take c).sum + (ins.take r).sum := by
  refine spec_induction rem ins cells (fun r c p => p.cost ≤ (rem.take c).sum + (ins.take r).sum) (by simp) ?_ ?_ ?_ r c
  · intro r c p h; simp [sum_take_succ]; omega
  · intro r c p h; simp [sum_take_succ]; omega
  · intro r c p h h1 h2; simp [sum_take_succ] at *; omega

/-- A DIAG move is only ever taken when the match is strictly cheaper than inserting and than removing. -/
def DiagLt (mv : Move) (r c : Nat) : Prop :=
  mv = .diag → cellAt cells r c < ins.getD r 0 ∧ cellAt cells r c < rem.getD c 0

theorem spec_diag_lt (r c : Nat) :
    ForallMoves (DiagLt rem ins cells) 0 0 (spec rem ins cells r c).script.reverse := by
  have := spec_induction rem ins cells
    (fun r c p => endPos 0 0 p.script.reverse = (r, c) ∧
      ForallMoves (DiagLt rem ins cells) 0 0 p.script.reverse) ⟨rfl, trivial⟩ ?_ ?_ ?_ r c
  · exact this.2
  · intro r c p ⟨h, h2⟩
    simp [endPos_append, forallMoves_append, h, h2, Move.next, DiagLt]
  · intro r c p ⟨h, h2⟩
    simp [endPos_append, forallMoves_append, h, h2, Move.next, DiagLt]
  · intro r c p ⟨h, h2⟩ h3 h4
    simp [endPos_append, forallMoves_append, h, h2, Move.next, DiagLt]
    exact ⟨h3, h4⟩

/-- With positive insert/remove costs a cell of cost 0 lies on the main diagonal and is reached by matches of
    cost 0 only. -/
theorem spec_zero (hrem : ∀ x ∈ rem, 0 < x) (hins : ∀ x ∈ ins, 0 < x) (r c : Nat)
    (hr : r ≤ ins.length) (hc : c ≤ rem.length) (h0 : (spec rem ins cells r c).cost = 0) :
    r = c ∧ (spec rem ins cells r c).script = List.replicate r .diag ∧ ∀ i, i < r → cellAt cells i i = 0 := by
  have := spec_induction rem ins cells
    (fun r c p => r ≤ ins.length → c ≤ rem.length → p.cost = 0 →
      r = c ∧ p.script = List.replicate r .diag ∧ ∀ i, i < r → cellAt cells i i = 0) ?_ ?_ ?_ ?_ r c hr hc h0
  · exact this
  · intros; simp
  · intro r c p _ _ hc h
    have hlt : c < rem.length := by omega
    have := hrem (rem.getD c 0) (by simp [List.getD, List.getElem?_eq_getElem hlt])
    simp at h this; omega
  · intro r c p _ hr _ h
    have hlt : r < ins.length := by omega
    have := hins (ins.getD r 0) (by simp [List.getD, List.getElem?_eq_getElem hlt])
    simp at h this; omega
  · intro r c p ih _ _ hr hc h
    simp at h
    obtain ⟨e, hs, hz⟩ := ih (by omega) (by omega) h.1
    subst e
    refine ⟨rfl, ?_, ?_⟩
    · simp [hs, List.replicate_succ]
    · intro i hi
      by_cases hi' : i < r
      · exact hz i hi'
      · have : i = r := by omega
        subst this; exact h.2

/-! ### M1 – M6 for `solve` -/

/-- M1: replaying the script consumes every from-element and every to-element exactly once. -/
theorem solve_counts :
    (solve rem ins cells).2.count .diag + (solve rem ins cells).2.count .left = rem.length ∧
    (solve rem ins cells).2.count .diag + (solve rem ins cells).2.count .up = ins.length := by
  have h := spec_endPos rem ins cells ins.length rem.length
  rw [endPos_counts] at h
  simp only [solve_eq_spec]
  simp only [Prod.mk.injEq] at h
  omega

/-- M1': the script is a path from (0,0) to (m,n). -/
theorem solve_endPos : endPos 0 0 (solve rem ins cells).2 = (ins.length, rem.length) := by
  simp only [solve_eq_spec]; exact spec_endPos ..

/-- M2: the reported total is the sum of the costs of the script's moves. -/
theorem solve_total_eq_sum :
    (solve rem ins cells).1 = (moveCosts rem ins cells (solve rem ins cells).2).sum := by
  simp only [solve_eq_spec, moveCosts]; exact spec_cost_eq_sum ..

/-- M3: the total never exceeds removing everything and inserting everything. -/
theorem solve_total_le : (solve rem ins cells).1 ≤ rem.sum + ins.sum := by
  have := spec_cost_le rem ins cells ins.length rem.length
  simpa [solve_eq_spec] using this

/-- M4: every DIAG move at (r,c) of the script has `cells[r][c] < ins[r] ∧ cells[r][c] < rem[c]`. -/
theorem solve_diag_lt : ForallMoves (DiagLt rem ins cells) 0 0 (solve rem ins cells).2 := by
  simp only [solve_eq_spec]; exact spec_diag_lt ..

/-- M4 on the located script. -/
theorem solve_diag_lt_located :
    ∀ x ∈ located (solve rem ins cells).2, x.1 = .diag →
      cellAt cells x.2.1 x.2.2 < ins.getD x.2.1 0 ∧ cellAt cells x.2.1 x.2.2 < rem.getD x.2.2 0 :=
  (forallMoves_iff_located _ _).1 (solve_diag_lt rem ins cells)

/-- M5: with positive insert/remove costs, total 0 means: same length, all DIAG, all of cost 0. -/
theorem solve_zero (hrem : ∀ x ∈ rem, 0 < x) (hins : ∀ x ∈ ins, 0 < x) (h0 : (solve rem ins cells).1 = 0) :
    ins.length = rem.length ∧ (solve rem ins cells).2 = List.replicate rem.length .diag ∧
      ∀ i, i < rem.length → cellAt cells i i = 0 := by
  simp only [solve_eq_spec] at h0 ⊢
  obtain ⟨e, hs, hz⟩ := spec_zero rem ins cells hrem hins _ _ (Nat.le_refl _) (Nat.le_refl _) h0
  refine ⟨e, ?_, ?_⟩
  · rw [hs, e]; simp
  · intro i hi; exact hz i (by omega)

/-- non-vacuity of `solve_zero`: positive insert/remove costs and total 0 -/
example : (∀ x ∈ [1, 2], 0 < x) ∧ (∀ x ∈ [3, 1], 0 < x) ∧ (solve [1, 2] [3, 1] [[0, 5], [5, 0]]).1 = 0 := by
  decide

/-- M6: `P[m][n]` is the length of the script, which is at least `max m n` and at most `m + n`. -/
theorem solve_path :
    (corner rem ins cells).path = (solve rem ins cells).2.length ∧
    max ins.length rem.length ≤ (solve rem ins cells).2.length ∧
    (solve rem ins cells).2.length ≤ ins.length + rem.length := by
  have h1 := solve_counts rem ins cells
  have hlen : ∀ l : List Move, l.length = l.count .diag + l.count .up + l.count .left := by
    intro l
    induction l with
    | nil => rfl
    | cons m l ih => cases m <;> simp [ih] <;> omega
  have h2 := hlen (solve rem ins cells).2
  refine ⟨?_, by omega, by omega⟩
  rw [corner_eq_spec, spec_path]; simp [solve_eq_spec]

end Props

/-- Concrete runs.  The greedy rule is NOT the textbook minimum: a match that is not strictly cheaper than both the
    insert and the remove is never taken (1×1, cell = ins = rem = 1: total 2, optimum 1), and the predecessor is
    chosen by the predecessors' (cost, path) alone, ignoring the cost of the move itself
    (rem = [1], ins = [1, 2], cells = [[0], [0]]: total 2 = match + insert of 2, optimum 1 = insert of 1 + match). -/
example : solve [1, 1] [1, 1] [[0, 1], [1, 0]] = (0, [.diag, .diag]) := by decide
example : solve [1] [1] [[1]] = (2, [.up, .left]) := by decide
example : solve [1] [1, 2] [[0], [0]] = (2, [.diag, .up]) := by decide

end GtModel.EditMatrix

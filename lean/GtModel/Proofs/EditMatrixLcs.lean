/-
  Unit-cost character matrices: the greedy (cost, path-length) rule of `EditDistance._best_match` computes exactly the
  optimal insert/delete distance, which is `|a| + |b| - 2·lcs a b`.

  * `indel`  : optimal insert/delete distance (recursive definition)
  * `lcs`    : length of a longest common subsequence; `lcs_le` / `lcs_attained` show it is the maximum length of a
               common `List.Sublist` (`IsCommonSubseq`)
  * `indel_add_lcs`, `lcs_reverse`, `lcs_trim`
  * `spec_unit_cost` / `solve_unit_cost`: the matrix total on unit-cost characters is `indel`
-/
import GtModel.Proofs.EditMatrix

namespace GtModel.EditMatrix

variable {α : Type} [DecidableEq α]
set_option linter.unusedSectionVars false

/-! ### Longest common subsequences -/

/-- `s` is a common subsequence of `a` and `b`. -/
def IsCommonSubseq (s a b : List α) : Prop := s.Sublist a ∧ s.Sublist b

/-- Length of a longest common subsequence (see `lcs_le`, `lcs_attained`). -/
def lcs : List α → List α → Nat
  | [], _ => 0
  | _ :: _, [] => 0
  | x :: a, y :: b => if x = y then lcs a b + 1 else max (lcs a (y :: b)) (lcs (x :: a) b)
termination_by a b => a.length + b.length

/-- Optimal insert/delete distance (insert and remove cost 1, only equal characters can be matched). -/
def indel : List α → List α → Nat
  | [], b => b.length
  | x :: a, [] => a.length + 1
  | x :: a, y :: b => if x = y then indel a b else min (indel a (y :: b)) (indel (x :: a) b) + 1
termination_by a b => a.length + b.length

theorem lcs_nil_right (a : List α) : lcs a ([] : List α) = 0 := by
  cases a <;> simp [lcs]

theorem indel_nil_left (b : List α) : indel ([] : List α) b = b.length := by simp [indel]
theorem indel_nil_right (a : List α) : indel a ([] : List α) = a.length := by
  cases a <;> simp [indel]

theorem lcs_cons_cons (x y : α) (a b : List α) :
    lcs (x :: a) (y :: b) = if x = y then lcs a b + 1 else max (lcs a (y :: b)) (lcs (x :: a) b) := by
  rw [lcs]

theorem indel_cons_cons (x y : α) (a b : List α) :
    indel (x :: a) (y :: b) = if x = y then indel a b else min (indel a (y :: b)) (indel (x :: a) b) + 1 := by
  rw [indel]

/-- No common subsequence is longer than `lcs`. -/
theorem lcs_le (a b : List α) : ∀ s : List α, IsCommonSubseq s a b → s.length ≤ lcs a b := by
  fun_induction lcs a b with
  | case1 b => intro s ⟨h, _⟩; simp at h; simp [h]
  | case2 x a => intro s ⟨_, h⟩; simp at h; simp [h]
  | case3 a x b ih =>
    intro s ⟨h1, h2⟩
    cases s with
    | nil => simp
    | cons z s =>
      have g1 : s.Sublist a := by
        rcases List.sublist_cons_iff.1 h1 with h | ⟨r, e, h⟩
        · exact List.sublist_of_cons_sublist h
        · cases e; exact h
      have g2 : s.Sublist b := by
        rcases List.sublist_cons_iff.1 h2 with h | ⟨r, e, h⟩
        · exact List.sublist_of_cons_sublist h
        · cases e; exact h
      have := ih s ⟨g1, g2⟩
      simp; omega
  | case4 x a y b hxy ih1 ih2 =>
    intro s ⟨h1, h2⟩
    rcases List.sublist_cons_iff.1 h1 with h | ⟨r, e, h⟩
    · have := ih1 s ⟨h, h2⟩; omega
    · subst e
      rcases List.sublist_cons_iff.1 h2 with h' | ⟨r', e', h'⟩
      · have := ih2 _ ⟨h1, h'⟩; omega
      · cases e'; exact absurd rfl hxy

/-- Some common subsequence has length `lcs`. -/
theorem lcs_attained (a b : List α) : ∃ s : List α, IsCommonSubseq s a b ∧ s.length = lcs a b := by
  fun_induction lcs a b with
  | case1 b => exact ⟨[], ⟨by simp, by simp⟩, rfl⟩
  | case2 x a => exact ⟨[], ⟨by simp, by simp⟩, rfl⟩
  | case3 a x b ih =>
    obtain ⟨s, ⟨h1, h2⟩, hl⟩ := ih
    exact ⟨x :: s, ⟨h1.cons_cons x, h2.cons_cons x⟩, by simp [hl]⟩
  | case4 x a y b hxy ih1 ih2 =>
    obtain ⟨s1, ⟨h1, h2⟩, hl1⟩ := ih1
    obtain ⟨s2, ⟨h3, h4⟩, hl2⟩ := ih2
    by_cases hm : lcs a (y :: b) ≤ lcs (x :: a) b
    · exact ⟨s2, ⟨h3, h4.cons y⟩, by omega⟩
    · exact ⟨s1, ⟨h1.cons x, h2⟩, by omega⟩

theorem indel_add_lcs (a b : List α) : indel a b + 2 * lcs a b = a.length + b.length := by
  fun_induction lcs a b with
  | case1 b => simp [indel_nil_left]
  | case2 x a => simp [indel_nil_right]
  | case3 a x b ih => rw [indel_cons_cons]; simp; omega
  | case4 x a y b hxy ih1 ih2 => rw [indel_cons_cons]; simp [hxy] at *; omega

theorem indel_eq (a b : List α) : indel a b = a.length + b.length - 2 * lcs a b := by
  have := indel_add_lcs a b; omega

theorem lcs_le_left (a b : List α) : lcs a b ≤ a.length := by
  obtain ⟨s, ⟨h, _⟩, e⟩ := lcs_attained a b
  rw [← e]; exact h.length_le

theorem lcs_le_right (a b : List α) : lcs a b ≤ b.length := by
  obtain ⟨s, ⟨_, h⟩, e⟩ := lcs_attained a b
  rw [← e]; exact h.length_le

theorem lcs_reverse (a b : List α) : lcs a.reverse b.reverse = lcs a b := by
  apply Nat.le_antisymm
  · obtain ⟨s, ⟨h1, h2⟩, e⟩ := lcs_attained a.reverse b.reverse
    have := lcs_le a b s.reverse ⟨by simpa using h1.reverse, by simpa using h2.reverse⟩
    simp at this; omega
  · obtain ⟨s, ⟨h1, h2⟩, e⟩ := lcs_attained a b
    have := lcs_le a.reverse b.reverse s.reverse ⟨h1.reverse, h2.reverse⟩
    simp at this; omega

theorem indel_reverse (a b : List α) : indel a.reverse b.reverse = indel a b := by
  rw [indel_eq, indel_eq, lcs_reverse]; simp

theorem lcs_append_left (p a b : List α) : lcs (p ++ a) (p ++ b) = p.length + lcs a b := by
  induction p with
  | nil => simp
  | cons x p ih => simp [lcs_cons_cons, ih]; omega

theorem lcs_append_right (a b s : List α) : lcs (a ++ s) (b ++ s) = lcs a b + s.length := by
  rw [← lcs_reverse, List.reverse_append, List.reverse_append, lcs_append_left, lcs_reverse]
  simp; omega

/-- Trimming a shared prefix and a shared suffix does not lose any common subsequence. -/
theorem lcs_trim (p a b s : List α) : lcs (p ++ a ++ s) (p ++ b ++ s) = p.length + lcs a b + s.length := by
  rw [lcs_append_right, lcs_append_left]

theorem lcs_self (a : List α) : lcs a a = a.length := by
  have := lcs_append_left a ([] : List α) []
  simpa [lcs] using this

/-! ### Lipschitz / parity facts about `indel` (needed for the greedy rule) -/

theorem indel_parity (a b : List α) : indel a b % 2 = (a.length + b.length) % 2 := by
  have := indel_add_lcs a b; omega

theorem indel_lip (a b : List α) :
    (∀ x, indel (x :: a) b ≤ indel a b + 1 ∧ indel a b ≤ indel (x :: a) b + 1) ∧
    (∀ y, indel a (y :: b) ≤ indel a b + 1 ∧ indel a b ≤ indel a (y :: b) + 1) := by
  induction h : a.length + b.length using Nat.strongRecOn generalizing a b with
  | _ n ih =>
    subst h
    constructor
    · intro x
      cases b with
      | nil => simp [indel_nil_right] <;> omega
      | cons y b =>
        have ⟨h1, h2⟩ := ih (a.length + b.length) (by simp) a b rfl
        have ⟨h1a, h1b⟩ := h1 x
        have ⟨h2a, h2b⟩ := h2 y
        rw [indel_cons_cons]
        split <;> omega
    · intro y
      cases a with
      | nil => simp [indel_nil_left] <;> omega
      | cons x a =>
        have ⟨h1, h2⟩ := ih (a.length + b.length) (by simp) a b rfl
        have ⟨h1a, h1b⟩ := h1 x
        have ⟨h2a, h2b⟩ := h2 y
        rw [indel_cons_cons]
        split <;> omega

/-! ### The unit-cost matrix -/

theorem lexLe_iff (p q : Cell) :
    lexLe p q = true ↔ (p.cost < q.cost ∨ (p.cost = q.cost ∧ p.path ≤ q.path)) := by
  simp [lexLe]

theorem ones_getD (a : List α) (c : Nat) (h : c < a.length) : (ones a).getD c 0 = 1 := by
  simp [ones, List.getD, h]

theorem ones_length (a : List α) : (ones a).length = a.length := by simp [ones]

theorem ones_pos (a : List α) : ∀ x ∈ ones a, 0 < x := by
  intro x hx; simp [ones] at hx; omega

theorem cellAt_charCells (a b : List α) (r c : Nat) (hr : r < b.length) (hc : c < a.length) :
    cellAt (charCells a b) r c = if a[c] = b[r] then 0 else 1 := by
  simp [cellAt, charCells, List.getD, hr, hc]

theorem take_succ_reverse (a : List α) (c : Nat) (h : c < a.length) :
    (a.take (c + 1)).reverse = a[c] :: (a.take c).reverse := by
  rw [List.take_succ_eq_append_getElem h]; simp

/-- Cell (r, c) of the unit-cost character matrix holds the optimal insert/delete distance between the prefixes
    `a[:c]` and `b[:r]` (stated on the reversed prefixes, which is how the recurrence peels characters). -/
theorem spec_unit_cost (a b : List α) (r c : Nat) (hr : r ≤ b.length) (hc : c ≤ a.length) :
    (spec (ones a) (ones b) (charCells a b) r c).cost = indel (a.take c).reverse (b.take r).reverse := by
  fun_induction spec (ones a) (ones b) (charCells a b) r c with
  | case1 => simp [indel]
  | case2 c ih =>
    have := ih hr (by omega)
    rw [ones_getD a c (by omega), goLeft_cost, this]
    simp [indel_nil_right]
    omega
  | case3 r ih =>
    have := ih (by omega) hc
    rw [ones_getD b r (by omega), goUp_cost, this]
    simp [indel_nil_left]
    omega
  | case4 r c ihd ihl ihu =>
    have hr' : r < b.length := by omega
    have hc' : c < a.length := by omega
    have ed := ihd (by omega) (by omega)
    have el := ihl hr (by omega)
    have eu := ihu (by omega) hc
    rw [take_succ_reverse b r hr'] at el
    rw [take_succ_reverse a c hc'] at eu
    rw [take_succ_reverse b r hr', take_succ_reverse a c hc', indel_cons_cons,
      ones_getD a c hc', ones_getD b r hr', cellAt_charCells a b r c hr' hc']
    have pd := indel_parity (a.take c).reverse (b.take r).reverse
    have pl := indel_parity (a.take c).reverse (b[r] :: (b.take r).reverse)
    have pu := indel_parity (a[c] :: (a.take c).reverse) (b.take r).reverse
    have ⟨h1, h2⟩ := indel_lip (a.take c).reverse (b.take r).reverse
    have ⟨h1a, h1b⟩ := h1 a[c]
    have ⟨h2a, h2b⟩ := h2 b[r]
    simp only [List.length_cons] at pl pu
    generalize spec (ones a) (ones b) (charCells a b) r c = d at *
    generalize spec (ones a) (ones b) (charCells a b) (r + 1) c = l at *
    generalize spec (ones a) (ones b) (charCells a b) r (c + 1) = u at *
    unfold step
    by_cases hxy : a[c] = b[r]
    · simp only [hxy, if_true]
      split
      · rename_i hcond
        simp [goDiag, ed]
      · rename_i hcond
        simp only [Bool.and_eq_true, decide_eq_true_eq, lexLe_iff] at hcond
        split
        · rename_i hu
          rw [lexLe_iff] at hu
          simp only [goUp]
          omega
        · rename_i hu
          rw [lexLe_iff] at hu
          simp only [goLeft]
          omega
    · simp only [hxy, if_false]
      split
      · rename_i hcond
        simp only [Bool.and_eq_true, decide_eq_true_eq] at hcond
        omega
      · split
        · rename_i hu
          rw [lexLe_iff] at hu
          simp only [goUp]
          omega
        · rename_i hu
          rw [lexLe_iff] at hu
          simp only [goLeft]
          omega

/-- On unit-cost characters the greedy matrix total is the optimal insert/delete distance. -/
theorem solve_unit_cost (a b : List α) :
    (solve (ones a) (ones b) (charCells a b)).1 = indel a b := by
  rw [solve_eq_spec]
  simp only [ones_length]
  rw [spec_unit_cost a b _ _ (Nat.le_refl _) (Nat.le_refl _)]
  simp [indel_reverse]

theorem solve_unit_cost_lcs (a b : List α) :
    (solve (ones a) (ones b) (charCells a b)).1 + 2 * lcs a b = a.length + b.length := by
  rw [solve_unit_cost]; exact indel_add_lcs a b

end GtModel.EditMatrix

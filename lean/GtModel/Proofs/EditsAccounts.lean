/-
  C01: `Accounts` = at every nesting level the sub-edits of a compound edit account for every child of both
  containers exactly once (in order for sequences).
-/
import GtModel.Proofs.EditsWalk
namespace GtModel
open List

attribute [-simp] List.getD_eq_getElem?_getD

/-- sequences (and the key/value pair): sub-edits come in the order of both containers -/
def Kind.ordered : Kind → Bool
  | .ed | .fixed | .str | .kvp => true
  | _ => false

/-- which node pairs an edit with sub-edits may relate -/
def kindFits : Kind → Nd → Nd → Prop
  | .kvp, .kv _ _, .kv _ _ => True
  | .fixed, .tree (.list _), .tree (.list _) => True
  | .ed, .tree (.list _), .tree (.list _) => True
  | .ms, .tree (.dict _), .tree (.dict _) => True
  | .fk, .tree (.fdict _), .tree (.fdict _) => True
  | .str, .tree (.leaf (.str _)), .tree (.leaf (.str _)) => True
  | _, _, _ => False

/-- one compound edit accounts for the children of the two nodes it relates -/
def LocalAcc (a b : Nd) (k : Kind) (subs : List Script) : Prop :=
  k.hasSubs = true → kindFits k a b ∧
    (if k.ordered then
      fromIdx subs = ixRange a.children.length ∧ toIdx (resolveSame a b) subs = ixRange b.children.length
    else
      (fromIdx subs).Perm (ixRange a.children.length) ∧
      (toIdx (resolveSame a b) subs).Perm (ixRange b.children.length))

/-- the script accounts for both documents at every nesting level -/
def Accounts (a b : Nd) (s : Script) : Prop := Walk LocalAcc a b s

/-- symmetric node equality on the pairs of two mappings (proved from distinct keys in `EditsEqSymm`) -/
def Tree.EqSymmOn (fkv tkv : List (Str × Tree)) : Prop :=
  ∀ x ∈ fkv, ∀ y ∈ tkv, x.2.eq y.2 = y.2.eq x.2

theorem kvSymm_of_eqSymm (fkv tkv : List (Str × Tree)) (h : Tree.EqSymmOn fkv tkv) : KvSymm fkv tkv := by
  intro i j hi hj
  have e1 : fkv.getD i dkv = fkv[i] := by simp [List.getD_eq_getElem?_getD, hi]
  have e2 : tkv.getD j dkv = tkv[j] := by simp [List.getD_eq_getElem?_getD, hj]
  rw [e1, e2]
  simp only [kvEq, h _ (List.getElem_mem hi) _ (List.getElem_mem hj)]
  congr 1
  rw [Bool.eq_iff_iff]; simp only [beq_iff_eq]; exact eq_comm

@[simp] theorem Nd.children_list (cs : List Tree) : (Nd.tree (.list cs)).children.length = cs.length := by
  simp [Nd.children]
@[simp] theorem Nd.children_dict (kvs : List (Str × Tree)) : (Nd.tree (.dict kvs)).children.length = kvs.length := by
  simp [Nd.children]
@[simp] theorem Nd.children_fdict (kvs : List (Str × Tree)) : (Nd.tree (.fdict kvs)).children.length = kvs.length := by
  simp [Nd.children]
@[simp] theorem Nd.children_str (s : Str) : (Nd.tree (.leaf (.str s))).children.length = s.length := by
  simp [Nd.children]
@[simp] theorem Nd.children_kv (k : Str) (v : Tree) : (Nd.kv k v).children.length = 2 := rfl

theorem leafEdits_hasSubs {a : Scalar} {t : Tree} (h : (leafEdits a t).kind.hasSubs = true) :
    ∃ s s', a = .str s ∧ t = .leaf (.str s') ∧
      leafEdits a t = .mk .str .none .none (strSubs s s').2 (strSubs s s').1 := by
  unfold leafEdits at h ⊢
  split at h <;> try (simp [leafLeaf, Kind.hasSubs] at h; done)
  rename_i s s'
  refine ⟨s, s', rfl, rfl, ?_⟩
  unfold strEdits at h ⊢
  split at h
  · simp [Kind.hasSubs] at h
  · split at h
    · simp [Kind.hasSubs] at h
    · rename_i h1 h2; simp [h1, h2]

theorem localAcc_edits (hsym : ∀ f t : Tree, f.KeysDistinct → t.KeysDistinct → f.eq t = t.eq f)
    (o : Opts) (orc : Oracle) (fp tp : List Nat) (f t : Tree) (hf : f.KeysDistinct) (ht : t.KeysDistinct) :
    LocalAcc (.tree f) (.tree t) (edits o orc fp tp f t).kind (edits o orc fp tp f t).subs := by
  intro hsub
  cases f with
  | leaf a =>
    rw [edits_leaf] at hsub ⊢
    obtain ⟨s, s', rfl, rfl, e⟩ := leafEdits_hasSubs hsub
    rw [e]
    refine ⟨trivial, ?_⟩
    simp only [Script.kind_mk, Script.subs_mk, Kind.ordered, if_true, Nd.children_str]
    exact strSubs_idx _ s s'
  | list fcs =>
    by_cases htl : ∃ tcs, t = .list tcs
    · obtain ⟨tcs, rfl⟩ := htl
      have hT := listTbl_top o orc fp tp fcs tcs
      rw [edits_list_list] at hsub ⊢
      split at hsub
      · simp [Kind.hasSubs] at hsub
      · rename_i h1
        simp only [h1, Bool.false_eq_true, if_false] at ⊢
        split
        · rw [show (fixedScript fcs tcs (listTbl o orc fp tp fcs tcs)).kind = .fixed from rfl]
          refine ⟨trivial, ?_⟩
          simp only [Kind.ordered, if_true, Nd.children_list]
          exact fixedScript_idx _ fcs tcs _ hT
        · rw [show ∀ p, (edScript fcs tcs p (listTbl o orc fp tp fcs tcs)).kind = .ed from fun _ => rfl]
          refine ⟨trivial, ?_⟩
          simp only [Kind.ordered, if_true, Nd.children_list]
          exact edScript_idx _ fcs tcs _ _ hT
    · rw [edits_list_other _ _ _ _ _ _ (fun tcs h => htl ⟨tcs, h⟩)] at hsub; simp [Kind.hasSubs] at hsub
  | dict fkv =>
    by_cases htl : ∃ tkv, t = .dict tkv
    · obtain ⟨tkv, rfl⟩ := htl
      rw [kd_dict] at hf ht
      rw [edits_dict_dict] at hsub ⊢
      split at hsub
      · simp [Kind.hasSubs] at hsub
      · rename_i h1
        simp only [h1, Bool.false_eq_true, if_false] at ⊢
        rw [show (msScript o.amk orc fp tp fkv tkv (kvTbl o orc fp tp fkv tkv)).kind = .ms from rfl]
        refine ⟨trivial, ?_⟩
        have hs : KvSymm fkv tkv := kvSymm_of_eqSymm _ _ (fun x hx y hy => hsym _ _ (hf.2 x hx) (ht.2 y hy))
        have h1 := msScript_fromIdx o.amk orc fp tp fkv tkv (kvTbl o orc fp tp fkv tkv)
        have h2 := msScript_toIdx o.amk orc fp tp fkv tkv (kvTbl o orc fp tp fkv tkv) hf.1 ht.1 hs
        simp only [Kind.ordered, Bool.false_eq_true, if_false, Nd.children_dict]
        exact ⟨h1, h2⟩
    · rw [edits_dict_other _ _ _ _ _ _ (fun tkv h => htl ⟨tkv, h⟩)] at hsub; simp [Kind.hasSubs] at hsub
  | fdict fkv =>
    by_cases htl : ∃ tkv, t = .fdict tkv
    · obtain ⟨tkv, rfl⟩ := htl
      rw [kd_fdict] at hf ht
      rw [edits_fdict_fdict] at hsub ⊢
      split at hsub
      · simp [Kind.hasSubs] at hsub
      · rename_i h1
        simp only [h1, Bool.false_eq_true, if_false] at ⊢
        rw [show (fkScript fkv tkv (kvTbl o orc fp tp fkv tkv)).kind = .fk from rfl]
        refine ⟨trivial, ?_⟩
        have h1 := fkScript_fromIdx fkv tkv (kvTbl o orc fp tp fkv tkv)
        have h2 := fkScript_toIdx (resolveSame (.tree (.fdict fkv)) (.tree (.fdict tkv))) fkv tkv
          (kvTbl o orc fp tp fkv tkv) hf.1 ht.1
        simp only [Kind.ordered, Bool.false_eq_true, if_false, Nd.children_fdict]
        exact ⟨h1, h2⟩
    · rw [edits_fdict_other _ _ _ _ _ _ (fun tkv h => htl ⟨tkv, h⟩)] at hsub; simp [Kind.hasSubs] at hsub

theorem localAcc_kvp (o : Opts) (orc : Oracle) (fp tp : List Nat) (k : Str) (v : Tree) (k' : Str) (v' : Tree) :
    LocalAcc (.kv k v) (.kv k' v') .kvp (kvpScript k k' (v.eq v') (edits o orc fp tp v v')).subs := by
  intro _
  refine ⟨trivial, ?_⟩
  simp only [Kind.ordered, if_true, Nd.children_kv]
  exact kvpScript_idx _ k k' (v.eq v') _ (edits_kind_top o orc fp tp v v')

theorem accounts_edits (hsym : ∀ f t : Tree, f.KeysDistinct → t.KeysDistinct → f.eq t = t.eq f)
    (o : Opts) (orc : Oracle) (fp tp : List Nat) (f t : Tree) (hf : f.KeysDistinct) (ht : t.KeysDistinct) :
    Accounts (.tree f) (.tree t) (edits o orc fp tp f t) :=
  walk_edits o orc treeInv_kd (fun fp tp f t hf ht => localAcc_edits hsym o orc fp tp f t hf ht)
    (fun fp tp k v k' v' _ _ => localAcc_kvp o orc fp tp k v k' v') f fp tp t hf ht

end GtModel

/-
  Basic facts about the L2 model `GtModel.edits`: attach-free unfolding equations (one per constructor pair),
  the sub-script tables as functions of (i, j), an induction principle for `Tree`, accessor simp lemmas.
-/
import GtModel.Model.Edits
namespace GtModel
open List

/-! ### accessors -/
@[simp] theorem Script.kind_mk (k f t c s) : (Script.mk k f t c s).kind = k := rfl
@[simp] theorem Script.fi_mk (k f t c s) : (Script.mk k f t c s).fi = f := rfl
@[simp] theorem Script.ti_mk (k f t c s) : (Script.mk k f t c s).ti = t := rfl
@[simp] theorem Script.cost_mk (k f t c s) : (Script.mk k f t c s).cost = c := rfl
@[simp] theorem Script.subs_mk (k f t c s) : (Script.mk k f t c s).subs = s := rfl
@[simp] theorem Script.relabel_kind (s : Script) (f t) : (s.relabel f t).kind = s.kind := rfl
@[simp] theorem Script.relabel_fi (s : Script) (f t) : (s.relabel f t).fi = f := rfl
@[simp] theorem Script.relabel_ti (s : Script) (f t) : (s.relabel f t).ti = t := rfl
@[simp] theorem Script.relabel_cost (s : Script) (f t) : (s.relabel f t).cost = s.cost := rfl
@[simp] theorem Script.relabel_subs (s : Script) (f t) : (s.relabel f t).subs = s.subs := rfl
theorem Script.eta (s : Script) : s = .mk s.kind s.fi s.ti s.cost s.subs := by cases s; rfl
@[simp] theorem mkMatch_kind (c) : (mkMatch c).kind = .match_ := rfl
@[simp] theorem mkMatch_cost (c) : (mkMatch c).cost = c := rfl
@[simp] theorem mkMatch_subs (c) : (mkMatch c).subs = [] := rfl
@[simp] theorem mkReplace_kind (a b) : (mkReplace a b).kind = .replace := rfl
@[simp] theorem mkReplace_subs (a b) : (mkReplace a b).subs = [] := rfl
@[simp] theorem mkRemove_kind (i s p) : (mkRemove i s p).kind = .remove := rfl
@[simp] theorem mkRemove_fi (i s p) : (mkRemove i s p).fi = .at i := rfl
@[simp] theorem mkRemove_ti (i s p) : (mkRemove i s p).ti = .none := rfl
@[simp] theorem mkRemove_cost (i s p) : (mkRemove i s p).cost = s + p := rfl
@[simp] theorem mkRemove_subs (i s p) : (mkRemove i s p).subs = [] := rfl
@[simp] theorem mkInsert_kind (i s p) : (mkInsert i s p).kind = .insert := rfl
@[simp] theorem mkInsert_fi (i s p) : (mkInsert i s p).fi = .at i := rfl
@[simp] theorem mkInsert_ti (i s p) : (mkInsert i s p).ti = .none := rfl
@[simp] theorem mkInsert_cost (i s p) : (mkInsert i s p).cost = s + p := rfl
@[simp] theorem mkInsert_subs (i s p) : (mkInsert i s p).subs = [] := rfl
@[simp] theorem mkCompound_kind (k s) : (mkCompound k s).kind = k := rfl
@[simp] theorem mkCompound_cost (k s) : (mkCompound k s).cost = sumCosts s := rfl
@[simp] theorem mkCompound_subs (k s) : (mkCompound k s).subs = s := rfl
@[simp] theorem sumCosts_nil : sumCosts [] = 0 := rfl
@[simp] theorem sumCosts_cons (s : Script) (l) : sumCosts (s :: l) = s.cost + sumCosts l := by simp [sumCosts]
@[simp] theorem sumCosts_append (a b : List Script) : sumCosts (a ++ b) = sumCosts a + sumCosts b := by simp [sumCosts]

/-! ### decidable equality of scripts (for concrete examples) -/
mutual
def Script.beq : Script → Script → Bool
  | .mk k f t c s, .mk k' f' t' c' s' => k == k' && f == f' && t == t' && c == c' && Script.beqL s s'
def Script.beqL : List Script → List Script → Bool
  | [], [] => true
  | a :: as, b :: bs => Script.beq a b && Script.beqL as bs
  | _, _ => false
end

mutual
theorem Script.eq_of_beq : ∀ (a b : Script), Script.beq a b = true → a = b
  | .mk k f t c s, .mk k' f' t' c' s', h => by
    simp only [Script.beq, Bool.and_eq_true, beq_iff_eq] at h
    obtain ⟨⟨⟨⟨rfl, rfl⟩, rfl⟩, rfl⟩, h5⟩ := h
    rw [Script.eqL_of_beqL s s' h5]
theorem Script.eqL_of_beqL : ∀ (a b : List Script), Script.beqL a b = true → a = b
  | [], [], _ => rfl
  | a :: as, b :: bs, h => by
    simp only [Script.beqL, Bool.and_eq_true] at h
    rw [Script.eq_of_beq a b h.1, Script.eqL_of_beqL as bs h.2]
  | [], _ :: _, h => by simp [Script.beqL] at h
  | _ :: _, [], h => by simp [Script.beqL] at h
end

/-! ### unfolding equations -/

theorem attach_zipIdx_map {α β : Type} (l : List α) (g : α → Nat → β) (k : Nat) :
    (l.attach.zipIdx k).map (fun p => g p.1.1 p.2) = (l.zipIdx k).map (fun p => g p.1 p.2) := by
  have h : l.zipIdx k = (l.attach.zipIdx k).map (Prod.map Subtype.val id) := by
    rw [← List.zipIdx_map, List.attach_map_subtype_val]
  rw [h, List.map_map]; rfl

def listTbl (o : Opts) (orc : Oracle) (fp tp : List Nat) (fcs tcs : List Tree) : List (List Script) :=
  fcs.zipIdx.map fun p => tcs.zipIdx.map fun q => edits o orc (fp ++ [p.2]) (tp ++ [q.2]) p.1 q.1

theorem edits_list_list (o : Opts) (orc : Oracle) (fp tp : List Nat) (fcs tcs : List Tree) :
    edits o orc fp tp (.list fcs) (.list tcs) =
      if eqL fcs tcs then mkMatch 0
      else if !o.ale || (fcs.length == tcs.length && (!o.alesl || fcs.length == 1)) then
        fixedScript fcs tcs (listTbl o orc fp tp fcs tcs)
      else edScript fcs tcs (if allLeaves fcs && allLeaves tcs && allPositive fcs && allPositive tcs then 0 else 1)
        (listTbl o orc fp tp fcs tcs) := by
  rw [edits]
  have := attach_zipIdx_map fcs (fun fc c => tcs.zipIdx.map fun q => edits o orc (fp ++ [c]) (tp ++ [q.2]) fc q.1) 0
  simp only [listTbl, this]

def kvTbl (o : Opts) (orc : Oracle) (fp tp : List Nat) (fkv tkv : List (Str × Tree)) : List (List Script) :=
  fkv.zipIdx.map fun p => tkv.zipIdx.map fun q => edits o orc (fp ++ [p.2, 1]) (tp ++ [q.2, 1]) p.1.2 q.1.2

theorem edits_dict_dict (o : Opts) (orc : Oracle) (fp tp : List Nat) (fkv tkv : List (Str × Tree)) :
    edits o orc fp tp (.dict fkv) (.dict tkv) =
      if (fkv.length == tkv.length && subKV fkv tkv) then mkMatch 0
      else msScript o.amk orc fp tp fkv tkv (kvTbl o orc fp tp fkv tkv) := by
  rw [edits]
  have := attach_zipIdx_map fkv (fun kv c => tkv.zipIdx.map fun q => edits o orc (fp ++ [c, 1]) (tp ++ [q.2, 1]) kv.2 q.1.2) 0
  simp only [kvTbl, this]

theorem edits_fdict_fdict (o : Opts) (orc : Oracle) (fp tp : List Nat) (fkv tkv : List (Str × Tree)) :
    edits o orc fp tp (.fdict fkv) (.fdict tkv) =
      if (fkv.length == tkv.length && subKV fkv tkv) then mkMatch 0
      else fkScript fkv tkv (kvTbl o orc fp tp fkv tkv) := by
  rw [edits]
  have := attach_zipIdx_map fkv (fun kv c => tkv.zipIdx.map fun q => edits o orc (fp ++ [c, 1]) (tp ++ [q.2, 1]) kv.2 q.1.2) 0
  simp only [kvTbl, this]

theorem edits_leaf (o : Opts) (orc : Oracle) (fp tp : List Nat) (a : Scalar) (t : Tree) :
    edits o orc fp tp (.leaf a) t = leafEdits a t := by rw [edits]

theorem listTbl_getD (o : Opts) (orc : Oracle) (fp tp : List Nat) (fcs tcs : List Tree) (i j : Nat) (d : Script)
    (hi : i < fcs.length) (hj : j < tcs.length) :
    ((listTbl o orc fp tp fcs tcs).getD i []).getD j d = edits o orc (fp ++ [i]) (tp ++ [j]) fcs[i] tcs[j] := by
  simp [listTbl, List.getD_eq_getElem?_getD, hi, hj]

theorem kvTbl_getD (o : Opts) (orc : Oracle) (fp tp : List Nat) (fkv tkv : List (Str × Tree)) (i j : Nat) (d : Script)
    (hi : i < fkv.length) (hj : j < tkv.length) :
    ((kvTbl o orc fp tp fkv tkv).getD i []).getD j d = edits o orc (fp ++ [i, 1]) (tp ++ [j, 1]) fkv[i].2 tkv[j].2 := by
  simp [kvTbl, List.getD_eq_getElem?_getD, hi, hj]

theorem Tree.ind {P : Tree → Prop} (leaf : ∀ s, P (.leaf s))
    (list : ∀ cs, (∀ c ∈ cs, P c) → P (.list cs))
    (dict : ∀ kvs, (∀ kv ∈ kvs, P kv.2) → P (.dict kvs))
    (fdict : ∀ kvs, (∀ kv ∈ kvs, P kv.2) → P (.fdict kvs)) : ∀ t, P t := by
  intro t
  induction h : sizeOf t using Nat.strongRecOn generalizing t with
  | _ n ih =>
    subst h
    cases t with
    | leaf s => exact leaf s
    | list cs =>
      apply list; intro c hc
      have := List.sizeOf_lt_of_mem hc
      exact ih _ (by simp; omega) c rfl
    | dict kvs =>
      apply dict; intro kv hkv
      have := List.sizeOf_lt_of_mem hkv
      have := sizeOf_snd_lt kv
      exact ih _ (by simp; omega) kv.2 rfl
    | fdict kvs =>
      apply fdict; intro kv hkv
      have := List.sizeOf_lt_of_mem hkv
      have := sizeOf_snd_lt kv
      exact ih _ (by simp; omega) kv.2 rfl

theorem edits_list_other (o : Opts) (orc : Oracle) (fp tp : List Nat) (fcs : List Tree) (t : Tree)
    (h : ∀ tcs, t ≠ .list tcs) : edits o orc fp tp (.list fcs) t = mkReplace (sizeL fcs) t.size := by
  cases t with
  | list tcs => exact absurd rfl (h tcs)
  | _ => rw [edits]; simp

theorem edits_dict_other (o : Opts) (orc : Oracle) (fp tp : List Nat) (fkv : List (Str × Tree)) (t : Tree)
    (h : ∀ tkv, t ≠ .dict tkv) : edits o orc fp tp (.dict fkv) t = mkReplace (sizeKV fkv) t.size := by
  cases t with
  | dict tkv => exact absurd rfl (h tkv)
  | _ => rw [edits]; simp

theorem edits_fdict_other (o : Opts) (orc : Oracle) (fp tp : List Nat) (fkv : List (Str × Tree)) (t : Tree)
    (h : ∀ tkv, t ≠ .fdict tkv) : edits o orc fp tp (.fdict fkv) t = mkReplace (sizeKV fkv) t.size := by
  cases t with
  | fdict tkv => exact absurd rfl (h tkv)
  | _ => rw [edits]; simp

/-- a property of every entry of a table (in range: by `h`; out of range: the default) -/
theorem tbl_all {P : Script → Prop} (tbl : List (List Script)) (d : Script) (hd : P d)
    (h : ∀ row ∈ tbl, ∀ s ∈ row, P s) (i j : Nat) : P ((tbl.getD i []).getD j d) := by
  simp only [List.getD_eq_getElem?_getD]
  cases hi : tbl[i]? with
  | none => simpa using hd
  | some row =>
    have hrow := List.mem_of_getElem? hi
    cases hj : row[j]? with
    | none => simpa [hj] using hd
    | some s => simpa [hj] using h row hrow s (List.mem_of_getElem? hj)

theorem listTbl_all {P : Script → Prop} (o : Opts) (orc : Oracle) (fp tp : List Nat) (fcs tcs : List Tree)
    (h : ∀ fc ∈ fcs, ∀ tc fp tp, P (edits o orc fp tp fc tc)) :
    ∀ row ∈ listTbl o orc fp tp fcs tcs, ∀ s ∈ row, P s := by
  intro row hrow s hs
  simp only [listTbl, List.mem_map] at hrow
  obtain ⟨p, hp, rfl⟩ := hrow
  simp only [List.mem_map] at hs
  obtain ⟨q, _, rfl⟩ := hs
  exact h p.1 (by have := List.mem_zipIdx hp; simp_all) _ _ _

theorem kvTbl_all {P : Script → Prop} (o : Opts) (orc : Oracle) (fp tp : List Nat) (fkv tkv : List (Str × Tree))
    (h : ∀ kv ∈ fkv, ∀ tc fp tp, P (edits o orc fp tp kv.2 tc)) :
    ∀ row ∈ kvTbl o orc fp tp fkv tkv, ∀ s ∈ row, P s := by
  intro row hrow s hs
  simp only [kvTbl, List.mem_map] at hrow
  obtain ⟨p, hp, rfl⟩ := hrow
  simp only [List.mem_map] at hs
  obtain ⟨q, _, rfl⟩ := hs
  exact h p.1 (by have := List.mem_zipIdx hp; simp_all) _ _ _

end GtModel

/-
  `build` (the model of `json.build_tree`) produces trees with distinct keys from documents with distinct keys
  (a Python `dict` cannot hold a key twice), and no `DictNode` when key edits are disabled / no `FixedKeyDictNode`
  when they are allowed.
-/
import GtModel.Proofs.EditsEqSymm
namespace GtModel
open List

mutual
def Doc.keysDistinct : Doc → Bool
  | .scalar _ => true
  | .list cs => dkdL cs
  | .obj kvs => decide ((kvs.map Prod.fst).Nodup) && dkdKV kvs
def dkdL : List Doc → Bool
  | [] => true
  | c :: cs => c.keysDistinct && dkdL cs
def dkdKV : List (Str × Doc) → Bool
  | [] => true
  | (_, v) :: rest => v.keysDistinct && dkdKV rest
end

/-- every object of the document has pairwise distinct keys -/
abbrev Doc.KeysDistinct (d : Doc) : Prop := d.keysDistinct = true

theorem insertKV_perm {α : Type} (k : Str) (v : α) (l : List (Str × α)) : (insertKV k v l).Perm ((k, v) :: l) := by
  induction l with
  | nil => exact List.Perm.refl _
  | cons q l ih =>
    obtain ⟨k', v'⟩ := q
    simp only [insertKV]
    split
    · exact List.Perm.refl _
    · exact ((List.Perm.cons _ ih).trans (List.Perm.swap _ _ l))

theorem sortKV_perm {α : Type} (l : List (Str × α)) : (sortKV l).Perm l := by
  induction l with
  | nil => exact List.Perm.refl _
  | cons p l ih => obtain ⟨k, v⟩ := p; exact (insertKV_perm k v _).trans (List.Perm.cons _ ih)

mutual
theorem build_kd (o : Opts) : ∀ d : Doc, d.KeysDistinct → (build o d).KeysDistinct
  | .scalar _, _ => rfl
  | .list cs, h => by
    simp only [Doc.KeysDistinct, Doc.keysDistinct] at h
    simp only [build, Tree.KeysDistinct, Tree.keysDistinct]
    exact buildL_kd o cs h
  | .obj kvs, h => by
    simp only [Doc.KeysDistinct, Doc.keysDistinct, Bool.and_eq_true, decide_eq_true_eq] at h
    have h2 := buildKV_kd o kvs h.2
    simp only [build]
    split
    · rw [kd_dict]
      have hp := sortKV_perm (build.buildKV o kvs)
      refine ⟨((hp.map Prod.fst).nodup_iff).2 (by rw [h2.2]; exact h.1), ?_⟩
      intro kv hkv
      exact (kdKV_iff _).1 h2.1 kv (hp.mem_iff.1 hkv)
    · rw [kd_fdict]
      exact ⟨by rw [keys, h2.2]; exact h.1, (kdKV_iff _).1 h2.1⟩
theorem buildL_kd (o : Opts) : ∀ cs : List Doc, dkdL cs = true → kdL (build.buildL o cs) = true
  | [], _ => rfl
  | c :: cs, h => by
    simp only [dkdL, Bool.and_eq_true] at h
    simp only [build.buildL, kdL, Bool.and_eq_true]
    exact ⟨build_kd o c h.1, buildL_kd o cs h.2⟩
theorem buildKV_kd (o : Opts) : ∀ kvs : List (Str × Doc), dkdKV kvs = true →
    kdKV (build.buildKV o kvs) = true ∧ (build.buildKV o kvs).map Prod.fst = kvs.map Prod.fst
  | [], _ => ⟨rfl, rfl⟩
  | (k, v) :: rest, h => by
    simp only [dkdKV, Bool.and_eq_true] at h
    have ih := buildKV_kd o rest h.2
    simp only [build.buildKV, kdKV, Bool.and_eq_true, List.map_cons, ih.2]
    exact ⟨⟨build_kd o v h.1, ih.1⟩, trivial⟩
end

end GtModel

/-
  C03: cost bookkeeping of the script produced by `edits`.
  `Script.CostOK`: every compound node reports exactly the sum of its sub-edits, at every level.
  `flatSum`: the sum over the flat edit list of `TreeNode.get_all_edit_contexts`.
-/
import GtModel.Proofs.EditsBasic
import GtModel.Proofs.EditMatrix
namespace GtModel
open List
open GtModel.EditMatrix

/-- kinds that carry sub-edits: the five `CompoundEdit` classes plus `StringEdit` -/
def Kind.hasSubs : Kind → Bool
  | .kvp | .fixed | .ed | .ms | .fk | .str => true
  | _ => false

mutual
/-- a node with sub-edits reports the sum of their costs (recursively); a leaf edit has no sub-edits -/
def Script.CostOK : Script → Prop
  | .mk k _ _ c subs => (if k.hasSubs then c = sumCosts subs else subs = []) ∧ CostOKL subs
def CostOKL : List Script → Prop
  | [] => True
  | s :: rest => s.CostOK ∧ CostOKL rest
end

theorem costOKL_iff (l : List Script) : CostOKL l ↔ ∀ s ∈ l, s.CostOK := by
  induction l with
  | nil => simp [CostOKL]
  | cons s l ih => simp [CostOKL, ih]

theorem Script.costOK_iff (s : Script) :
    s.CostOK ↔ (if s.kind.hasSubs then s.cost = sumCosts s.subs else s.subs = []) ∧ ∀ x ∈ s.subs, x.CostOK := by
  cases s; simp only [Script.CostOK, costOKL_iff, Script.kind_mk, Script.cost_mk, Script.subs_mk]
  exact Iff.rfl

@[simp] theorem costOK_mkMatch (c : Nat) : (mkMatch c).CostOK := by simp [mkMatch, Script.CostOK, Kind.hasSubs, CostOKL]
@[simp] theorem costOK_mkReplace (a b : Nat) : (mkReplace a b).CostOK := by simp [mkReplace, Script.CostOK, Kind.hasSubs, CostOKL]
@[simp] theorem costOK_mkRemove (i s p : Nat) : (mkRemove i s p).CostOK := by simp [mkRemove, Script.CostOK, Kind.hasSubs, CostOKL]
@[simp] theorem costOK_mkInsert (i s p : Nat) : (mkInsert i s p).CostOK := by simp [mkInsert, Script.CostOK, Kind.hasSubs, CostOKL]
@[simp] theorem costOK_relabel (s : Script) (f t : Ix) : (s.relabel f t).CostOK ↔ s.CostOK := by
  cases s; simp [Script.relabel, Script.CostOK]

theorem costOK_mkCompound (k : Kind) (subs : List Script) (hk : k.hasSubs = true) (h : ∀ s ∈ subs, s.CostOK) :
    (mkCompound k subs).CostOK := by
  simp [mkCompound, Script.CostOK, hk, costOKL_iff]; exact h

/-! ### replaying a matrix script -/

/-- every move of a path from (r,c) to (R,C) is made inside the rectangle -/
theorem zip_positions_inRange (ms : List Move) : ∀ (r c R C : Nat), endPos r c ms = (R, C) →
    ∀ x ∈ ms.zip (positionsFrom r c ms),
      r ≤ x.2.1 ∧ c ≤ x.2.2 ∧ x.2.1 ≤ R ∧ x.2.2 ≤ C ∧ (x.1 ≠ .left → x.2.1 < R) ∧ (x.1 ≠ .up → x.2.2 < C) := by
  induction ms with
  | nil => intro r c R C _ x hx; simp [positionsFrom] at hx
  | cons m ms ih =>
    intro r c R C h x hx
    have hc := endPos_counts r c (m :: ms)
    rw [h] at hc
    simp only [Prod.mk.injEq] at hc
    simp only [positionsFrom, List.zip_cons_cons, List.mem_cons] at hx
    rcases hx with rfl | hx
    · cases m <;> simp at hc ⊢ <;> omega
    · clear hc
      simp only [endPos] at h
      obtain ⟨h1, h2, h3, h4, h5, h6⟩ := ih _ _ R C h x hx
      refine ⟨?_, ?_, h3, h4, h5, h6⟩ <;> cases m <;> simp only [Move.next] at h1 h2 <;> omega

theorem located_inRange (ms : List Move) (R C : Nat) (h : endPos 0 0 ms = (R, C)) :
    ∀ x ∈ located ms, (x.1 ≠ .left → x.2.1 < R) ∧ (x.1 ≠ .up → x.2.2 < C) := by
  intro x hx
  have := zip_positions_inRange ms 0 0 R C h x hx
  exact ⟨this.2.2.2.2.1, this.2.2.2.2.2⟩

theorem solve_located_inRange (rem ins : List Nat) (cells : List (List Nat)) :
    ∀ x ∈ located (solve rem ins cells).2, (x.1 ≠ .left → x.2.1 < ins.length) ∧ (x.1 ≠ .up → x.2.2 < rem.length) :=
  located_inRange _ _ _ (solve_endPos rem ins cells)

/-- if the script element built for every move costs what the matrix charged, the costs are `moveCosts` -/
theorem map_cost_zip_positions (rem ins : List Nat) (cells : List (List Nat)) (g : Move × Nat × Nat → Script)
    (ms : List Move) : ∀ (r c : Nat),
    (∀ x ∈ ms.zip (positionsFrom r c ms), (g x).cost = moveCost rem ins cells x.2.1 x.2.2 x.1) →
    (ms.zip (positionsFrom r c ms)).map (fun x => (g x).cost) = moveCostsFrom rem ins cells r c ms := by
  induction ms with
  | nil => intro r c _; rfl
  | cons m ms ih =>
    intro r c h
    simp only [positionsFrom, List.zip_cons_cons, List.map_cons, moveCostsFrom]
    rw [ih _ _ (fun x hx => h x (by simp [positionsFrom, hx]))]
    rw [h (m, r, c) (by simp [positionsFrom])]

theorem sumCosts_located (rem ins : List Nat) (cells : List (List Nat)) (g : Move × Nat × Nat → Script)
    (h : ∀ x ∈ located (solve rem ins cells).2, (g x).cost = moveCost rem ins cells x.2.1 x.2.2 x.1) :
    sumCosts ((located (solve rem ins cells).2).map g) = (solve rem ins cells).1 := by
  rw [solve_total_eq_sum, moveCosts, ← map_cost_zip_positions rem ins cells g _ 0 0 h]
  simp [sumCosts, located, Function.comp_def]

theorem sumCosts_map_zero {α : Type} (l : List α) (g : α → Script) (h : ∀ a ∈ l, (g a).cost = 0) :
    sumCosts (l.map g) = 0 := by
  induction l with
  | nil => rfl
  | cons a l ih => simp [h a, ih (fun a ha => h a (by simp [ha]))]

/-! ### strings -/

theorem cellAt_charCells (a b : List Nat) (r c : Nat) (hr : r < b.length) (hc : c < a.length) :
    cellAt (charCells a b) r c = if a.getD c 0 == b.getD r 0 then 0 else 1 := by
  simp [cellAt, charCells, List.getD_eq_getElem?_getD, hr, hc]

theorem strSubs_sum (a b : Str) : sumCosts (strSubs a b).1 = (strSubs a b).2 := by
  simp only [strSubs, sumCosts_append]
  rw [sumCosts_map_zero (List.range _) _ (by intros; rfl), sumCosts_map_zero (List.range _) _ (by intros; rfl),
    sumCosts_located]
  · simp
  · intro x hx
    obtain ⟨m, r, c⟩ := x
    have hr := solve_located_inRange _ _ _ _ hx
    simp only [ones, List.length_map] at hr
    cases m
    · simp only [moveCost]
      rw [cellAt_charCells _ _ _ _ (hr.1 (by simp)) (hr.2 (by simp))]; rfl
    · have := hr.1 (by simp)
      simp [moveCost, ones, List.getD_eq_getElem?_getD, this]
    · have := hr.2 (by simp)
      simp [moveCost, ones, List.getD_eq_getElem?_getD, this]

theorem strSubs_leaf (a b : Str) : ∀ s ∈ (strSubs a b).1, s.CostOK := by
  intro s hs
  simp only [strSubs, List.mem_append, List.mem_map] at hs
  rcases hs with (⟨k, _, rfl⟩ | ⟨⟨m, r, c⟩, _, rfl⟩) | ⟨k, _, rfl⟩
  · simp
  · cases m <;> simp
  · simp

theorem costOK_strEdits (a b : Str) : (strEdits a b).CostOK := by
  unfold strEdits
  split
  · simp
  · split
    · simp
    · rw [Script.costOK_iff]
      simp only [Script.kind_mk, Kind.hasSubs, if_true, Script.cost_mk, Script.subs_mk]
      exact ⟨(strSubs_sum a b).symm, strSubs_leaf a b⟩

theorem costOK_leafEdits (a : Scalar) (t : Tree) : (leafEdits a t).CostOK := by
  unfold leafEdits
  split <;> simp [leafLeaf, costOK_strEdits]

theorem costOK_kvpScript (fk tk : Str) (ve : Bool) (v : Script) (hv : v.CostOK) : (kvpScript fk tk ve v).CostOK := by
  unfold kvpScript
  apply costOK_mkCompound _ _ rfl
  intro s hs
  simp only [List.mem_cons, List.mem_nil_iff, or_false] at hs
  rcases hs with rfl | rfl
  · split <;> simp [costOK_strEdits]
  · split <;> simp [hv]

/-! ### containers -/

theorem cellAt_tabulate (m n : Nat) (f : Nat → Nat → Nat) (r c : Nat) (hr : r < m) (hc : c < n) :
    cellAt ((List.range m).map fun r => (List.range n).map fun c => f r c) r c = f r c := by
  simp [cellAt, List.getD_eq_getElem?_getD, hr, hc]

theorem edScript_sum (fcs tcs : List Tree) (pen : Nat) (tbl : List (List Script)) :
    (edScript fcs tcs pen tbl).cost = sumCosts (edScript fcs tcs pen tbl).subs := by
  simp only [edScript, Script.cost_mk, Script.subs_mk, sumCosts_append]
  rw [sumCosts_map_zero (List.range _) _ (by intros; rfl), sumCosts_map_zero (List.range _) _ (by intros; rfl),
    sumCosts_located]
  · simp
  · intro x hx
    obtain ⟨m, r, c⟩ := x
    have hr := solve_located_inRange _ _ _ _ hx
    simp only [List.length_map] at hr
    cases m
    · simp only [moveCost]
      rw [cellAt_tabulate _ _ _ _ _ (hr.1 (by simp)) (hr.2 (by simp))]; rfl
    · have := hr.1 (by simp)
      simp [moveCost, List.getD_eq_getElem?_getD, this]
    · have := hr.2 (by simp)
      simp [moveCost, List.getD_eq_getElem?_getD, this]

theorem costOK_edScript (fcs tcs : List Tree) (pen : Nat) (tbl : List (List Script))
    (hT : ∀ i j, ((tbl.getD i []).getD j (mkMatch 0)).CostOK) : (edScript fcs tcs pen tbl).CostOK := by
  rw [Script.costOK_iff]
  refine ⟨by simpa [edScript, Kind.hasSubs] using edScript_sum fcs tcs pen tbl, ?_⟩
  intro s hs
  simp only [edScript, Script.subs_mk, List.mem_append, List.mem_map] at hs
  rcases hs with (⟨k, _, rfl⟩ | ⟨⟨m, r, c⟩, _, rfl⟩) | ⟨k, _, rfl⟩
  · simp
  · cases m <;> simp [-List.getD_eq_getElem?_getD, hT]
  · simp

theorem costOK_fixedScript (fcs tcs : List Tree) (tbl : List (List Script))
    (hT : ∀ i j, ((tbl.getD i []).getD j (mkMatch 0)).CostOK) : (fixedScript fcs tcs tbl).CostOK := by
  unfold fixedScript
  apply costOK_mkCompound _ _ rfl
  intro s hs
  simp only [List.mem_append, List.mem_map] at hs
  rcases hs with (⟨k, _, rfl⟩ | ⟨k, _, rfl⟩) | ⟨k, _, rfl⟩ <;> simp [-List.getD_eq_getElem?_getD, hT]

theorem costOK_msScript (amk : Bool) (orc : Oracle) (fp tp : List Nat) (fkv tkv : List (Str × Tree))
    (vtbl : List (List Script)) (hT : ∀ i j, ((vtbl.getD i []).getD j (mkMatch 0)).CostOK) :
    (msScript amk orc fp tp fkv tkv vtbl).CostOK := by
  unfold msScript
  apply costOK_mkCompound _ _ rfl
  intro s hs
  simp only [List.mem_append, List.mem_map] at hs
  rcases hs with (((⟨k, _, rfl⟩ | ⟨k, _, rfl⟩) | ⟨k, _, rfl⟩) | ⟨k, _, rfl⟩) | ⟨k, _, rfl⟩ <;>
    simp [-List.getD_eq_getElem?_getD, costOK_kvpScript, hT]

theorem costOK_fkScript (fkv tkv : List (Str × Tree))
    (vtbl : List (List Script)) (hT : ∀ i j, ((vtbl.getD i []).getD j (mkMatch 0)).CostOK) :
    (fkScript fkv tkv vtbl).CostOK := by
  unfold fkScript
  apply costOK_mkCompound _ _ rfl
  intro s hs
  simp only [List.mem_append, List.mem_filterMap] at hs
  rcases hs with (⟨i, _, h⟩ | ⟨i, _, h⟩) | ⟨i, _, h⟩
  · simp only [Option.map_eq_some_iff] at h
    obtain ⟨j, _, rfl⟩ := h
    split <;> simp [-List.getD_eq_getElem?_getD, costOK_kvpScript, hT]
  · split at h <;> simp at h
    subst h; simp
  · split at h <;> simp at h
    subst h; simp

/-- C03(a) on the model: every node of the script reports the sum of its parts -/
theorem costOK_edits (o : Opts) (orc : Oracle) (f : Tree) : ∀ (fp tp : List Nat) (t : Tree),
    (edits o orc fp tp f t).CostOK := by
  induction f using Tree.ind with
  | leaf s => intro fp tp t; rw [edits_leaf]; exact costOK_leafEdits s t
  | list fcs ih =>
    intro fp tp t
    by_cases ht : ∃ tcs, t = .list tcs
    · obtain ⟨tcs, rfl⟩ := ht
      have hT : ∀ i j, (((listTbl o orc fp tp fcs tcs).getD i []).getD j (mkMatch 0)).CostOK :=
        tbl_all _ _ (costOK_mkMatch 0) (listTbl_all o orc fp tp fcs tcs (fun fc hfc tc fp tp => ih fc hfc fp tp tc))
      rw [edits_list_list]
      split
      · simp
      · split
        · exact costOK_fixedScript _ _ _ hT
        · exact costOK_edScript _ _ _ _ hT
    · rw [edits_list_other _ _ _ _ _ _ (fun tcs h => ht ⟨tcs, h⟩)]; simp
  | dict fkv ih =>
    intro fp tp t
    by_cases ht : ∃ tkv, t = .dict tkv
    · obtain ⟨tkv, rfl⟩ := ht
      have hT : ∀ i j, (((kvTbl o orc fp tp fkv tkv).getD i []).getD j (mkMatch 0)).CostOK :=
        tbl_all _ _ (costOK_mkMatch 0) (kvTbl_all o orc fp tp fkv tkv (fun kv hkv tc fp tp => ih kv hkv fp tp tc))
      rw [edits_dict_dict]
      split
      · simp
      · exact costOK_msScript _ _ _ _ _ _ _ hT
    · rw [edits_dict_other _ _ _ _ _ _ (fun tkv h => ht ⟨tkv, h⟩)]; simp
  | fdict fkv ih =>
    intro fp tp t
    by_cases ht : ∃ tkv, t = .fdict tkv
    · obtain ⟨tkv, rfl⟩ := ht
      have hT : ∀ i j, (((kvTbl o orc fp tp fkv tkv).getD i []).getD j (mkMatch 0)).CostOK :=
        tbl_all _ _ (costOK_mkMatch 0) (kvTbl_all o orc fp tp fkv tkv (fun kv hkv tc fp tp => ih kv hkv fp tp tc))
      rw [edits_fdict_fdict]
      split
      · simp
      · exact costOK_fkScript _ _ _ hT
    · rw [edits_fdict_other _ _ _ _ _ _ (fun tkv h => ht ⟨tkv, h⟩)]; simp

/-! ### the flat edit list (`TreeNode.get_all_edit_contexts`) -/

/-- `isinstance(edit, CompoundEdit)`: `StringEdit` is NOT a `CompoundEdit` -/
def Kind.isCompoundEdit : Kind → Bool
  | .kvp | .fixed | .ed | .ms | .fk => true
  | _ => false

mutual
/-- the edits `get_all_edit_contexts` yields: compound edits are exploded (depth first, in order), every other
    edit is yielded iff its cost is positive -/
def flatEdits : Script → List Script
  | .mk k f t c subs => if k.isCompoundEdit then flatEditsL subs else if c > 0 then [.mk k f t c subs] else []
def flatEditsL : List Script → List Script
  | [] => []
  | s :: rest => flatEdits s ++ flatEditsL rest
end

/-- what `get_all_edits` sums to -/
def flatSum (s : Script) : Nat := sumCosts (flatEdits s)

/-- `EditedTreeNode.edited_cost()` of the annotated root: the root carries exactly one edit, the root edit -/
def editedCost (s : Script) : Nat := s.cost

mutual
theorem flatSum_eq_cost : ∀ (s : Script), s.CostOK → sumCosts (flatEdits s) = s.cost
  | .mk k f t c subs, h => by
    simp only [Script.CostOK] at h
    simp only [flatEdits]
    by_cases hk : k.isCompoundEdit = true
    · have hs : k.hasSubs = true := by cases k <;> simp_all [Kind.isCompoundEdit, Kind.hasSubs]
      simp only [hk, hs, if_true] at h ⊢
      rw [flatSumL_eq_cost subs h.2, Script.cost_mk, h.1]
    · simp only [hk, Bool.false_eq_true, if_false]
      by_cases hc : c > 0
      · simp [hc]
      · simp [hc]; omega
theorem flatSumL_eq_cost : ∀ (l : List Script), CostOKL l → sumCosts (flatEditsL l) = sumCosts l
  | [], _ => rfl
  | s :: rest, h => by
    simp only [CostOKL] at h
    simp only [flatEditsL, sumCosts_append, sumCosts_cons, flatSum_eq_cost s h.1, flatSumL_eq_cost rest h.2]
end

end GtModel

/-
  Node equality (`Tree.eq`, the model of `__eq__`) is symmetric on trees whose mappings have distinct keys.
  (For `DictNode` the model compares "same number of pairs and every pair of the first has an equal pair in the
  second", which is symmetric only because keys are distinct: a pigeonhole argument.)
-/
import GtModel.Proofs.EditsAccounts
namespace GtModel
open List

/-- pigeonhole: a duplicate-free list contained in a list that is not longer contains it -/
theorem subset_of_nodup_length {α : Type} [DecidableEq α] : ∀ (l1 l2 : List α), l1.Nodup → l1 ⊆ l2 →
    l2.length ≤ l1.length → l2 ⊆ l1 := by
  intro l1
  induction l1 with
  | nil => intro l2 _ _ hlen; cases l2 with
    | nil => exact fun _ h => h
    | cons _ _ => simp at hlen
  | cons a l1 ih =>
    intro l2 hnd hsub hlen
    rw [List.nodup_cons] at hnd
    have ha : a ∈ l2 := hsub (by simp)
    have h1 : l1 ⊆ l2.erase a := by
      intro x hx
      have hne : x ≠ a := fun e => hnd.1 (e ▸ hx)
      exact (List.mem_erase_of_ne hne).2 (hsub (by simp [hx]))
    have h2 : (l2.erase a).length ≤ l1.length := by
      rw [List.length_erase_of_mem ha]; simp at hlen; omega
    have h3 := ih (l2.erase a) hnd.2 h1 h2
    intro x hx
    by_cases hxa : x = a
    · simp [hxa]
    · exact List.mem_cons_of_mem _ (h3 ((List.mem_erase_of_ne hxa).2 hx))

theorem eq_of_key_eq {l : List (Str × Tree)} (hd : (keys l).Nodup) {x y : Str × Tree} (hx : x ∈ l) (hy : y ∈ l)
    (h : x.1 = y.1) : x = y := by
  obtain ⟨i, hi, rfl⟩ := List.getElem_of_mem hx
  obtain ⟨j, hj, rfl⟩ := List.getElem_of_mem hy
  have := keys_inj hd hi hj h
  subst this; rfl

theorem findKV_iff (k : Str) (v : Tree) (bs : List (Str × Tree)) :
    findKV k v bs = true ↔ ∃ y ∈ bs, k = y.1 ∧ v.eq y.2 = true := by
  induction bs with
  | nil => simp [findKV]
  | cons b bs ih => obtain ⟨k', v'⟩ := b; simp [findKV, ih]

theorem subKV_iff (as bs : List (Str × Tree)) :
    subKV as bs = true ↔ ∀ x ∈ as, ∃ y ∈ bs, x.1 = y.1 ∧ x.2.eq y.2 = true := by
  induction as with
  | nil => simp [subKV]
  | cons a as ih => obtain ⟨k, v⟩ := a; simp [subKV, ih, findKV_iff]

theorem Scalar.eq_symm (a b : Scalar) : a.eq b = b.eq a := by
  cases a <;> cases b <;> simp only [Scalar.eq] <;>
    first | rfl | (rw [Bool.eq_iff_iff]; simp only [beq_iff_eq]; exact eq_comm)

theorem mapping_eq_imp (as bs : List (Str × Tree)) (hda : (keys as).Nodup) (hdb : (keys bs).Nodup)
    (ih : ∀ x ∈ as, ∀ t : Tree, t.KeysDistinct → x.2.eq t = true → t.eq x.2 = true)
    (hkb : ∀ y ∈ bs, y.2.KeysDistinct)
    (h : (as.length == bs.length && subKV as bs) = true) : (bs.length == as.length && subKV bs as) = true := by
  simp only [Bool.and_eq_true, beq_iff_eq, subKV_iff] at h ⊢
  refine ⟨h.1.symm, ?_⟩
  have hsub : keys as ⊆ keys bs := by
    intro k hk
    simp only [keys, List.mem_map] at hk ⊢
    obtain ⟨x, hx, rfl⟩ := hk
    obtain ⟨y, hy, e, _⟩ := h.2 x hx
    exact ⟨y, hy, e.symm⟩
  have hsup : keys bs ⊆ keys as := subset_of_nodup_length _ _ hda hsub (by simp [keys, h.1])
  intro y hy
  have : y.1 ∈ keys as := hsup (List.mem_map_of_mem hy)
  simp only [keys, List.mem_map] at this
  obtain ⟨x, hx, e⟩ := this
  obtain ⟨y', hy', e', he⟩ := h.2 x hx
  have : y' = y := eq_of_key_eq hdb hy' hy (e'.symm.trans e)
  subst this
  exact ⟨x, hx, e.symm, ih x hx _ (hkb _ hy') he⟩

theorem Tree.eq_imp (f : Tree) : ∀ t : Tree, f.KeysDistinct → t.KeysDistinct → f.eq t = true → t.eq f = true := by
  induction f using Tree.ind with
  | leaf a =>
    intro t _ _ h
    cases t <;> simp [Tree.eq] at h ⊢
    rw [Scalar.eq_symm]; exact h
  | list as ih =>
    intro t hf ht h
    cases t with
    | list bs =>
      rw [kd_list] at hf ht
      simp only [Tree.eq] at h ⊢
      induction as generalizing bs with
      | nil => cases bs <;> simp_all [eqL]
      | cons a as ih2 =>
        cases bs with
        | nil => simp [eqL] at h
        | cons b bs =>
          simp only [eqL, Bool.and_eq_true] at h ⊢
          exact ⟨ih a (by simp) b (hf a (by simp)) (ht b (by simp)) h.1,
            ih2 (fun c hc => ih c (by simp [hc])) (fun c hc => hf c (by simp [hc])) bs (fun c hc => ht c (by simp [hc])) h.2⟩
    | _ => simp [Tree.eq] at h
  | dict as ih =>
    intro t hf ht h
    cases t with
    | dict bs =>
      rw [kd_dict] at hf ht
      simp only [Tree.eq] at h ⊢
      exact mapping_eq_imp as bs hf.1 ht.1 (fun x hx t htk he => ih x hx t (hf.2 x hx) htk he) ht.2 h
    | _ => simp [Tree.eq] at h
  | fdict as ih =>
    intro t hf ht h
    cases t with
    | fdict bs =>
      rw [kd_fdict] at hf ht
      simp only [Tree.eq] at h ⊢
      exact mapping_eq_imp as bs hf.1 ht.1 (fun x hx t htk he => ih x hx t (hf.2 x hx) htk he) ht.2 h
    | _ => simp [Tree.eq] at h

/-- `a == b ↔ b == a` on trees with distinct keys -/
theorem Tree.eq_symm (f t : Tree) (hf : f.KeysDistinct) (ht : t.KeysDistinct) : f.eq t = t.eq f := by
  rw [Bool.eq_iff_iff]
  exact ⟨Tree.eq_imp f t hf ht, Tree.eq_imp t f ht hf⟩

end GtModel

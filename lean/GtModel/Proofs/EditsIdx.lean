/-
  C01, per node: which children of the two containers the sub-edits of one compound edit account for.
-/
import GtModel.Proofs.EditsCost
namespace GtModel
open List
open GtModel.EditMatrix

attribute [-simp] List.getD_eq_getElem?_getD

def ixRange (n : Nat) : List Ix := (List.range n).map Ix.at

/-- from-side index of every sub-edit that is not an insertion, in script order -/
def fromIdx (subs : List Script) : List Ix := (subs.filter fun s => s.kind != .insert).map Script.fi

/-- to-side index of one sub-edit: an `Insert` holds the inserted node's index in `fi`; an identity match
    (`ti = same`, emitted by `MultiSetEdit`) is resolved by `resolve` from its from-index -/
def toIxOf (resolve : Ix → Ix) (s : Script) : Ix :=
  if s.kind == .insert then s.fi else if s.ti == .same then resolve s.fi else s.ti

/-- to-side index of every sub-edit that is not a removal, in script order -/
def toIdx (resolve : Ix → Ix) (subs : List Script) : List Ix :=
  (subs.filter fun s => s.kind != .remove).map (toIxOf resolve)

/-- kinds `edits` can return: never a bare Insert/Remove, never a KeyValuePairEdit -/
def Kind.isTop : Kind → Bool
  | .insert | .remove | .kvp => false
  | _ => true

theorem strEdits_kind (a b : Str) : (strEdits a b).kind = .match_ ∨ (strEdits a b).kind = .str := by
  unfold strEdits
  split
  · simp
  · split <;> simp

theorem strEdits_kind_top (a b : Str) : (strEdits a b).kind.isTop = true := by
  rcases strEdits_kind a b with h | h <;> simp [h, Kind.isTop]

theorem leafEdits_kind (a : Scalar) (t : Tree) : (leafEdits a t).kind.isTop = true := by
  unfold leafEdits
  split <;> first | exact strEdits_kind_top _ _ | simp [leafLeaf, Kind.isTop]

theorem edits_kind_top (o : Opts) (orc : Oracle) (fp tp : List Nat) (f t : Tree) :
    (edits o orc fp tp f t).kind.isTop = true := by
  cases f with
  | leaf a => rw [edits_leaf]; exact leafEdits_kind a t
  | list fcs =>
    by_cases ht : ∃ tcs, t = .list tcs
    · obtain ⟨tcs, rfl⟩ := ht
      rw [edits_list_list]
      split
      · simp [Kind.isTop]
      · split <;> simp [fixedScript, edScript, Kind.isTop]
    · rw [edits_list_other _ _ _ _ _ _ (fun tcs h => ht ⟨tcs, h⟩)]; simp [Kind.isTop]
  | dict fkv =>
    by_cases ht : ∃ tkv, t = .dict tkv
    · obtain ⟨tkv, rfl⟩ := ht
      rw [edits_dict_dict]
      split <;> simp [msScript, Kind.isTop]
    · rw [edits_dict_other _ _ _ _ _ _ (fun tkv h => ht ⟨tkv, h⟩)]; simp [Kind.isTop]
  | fdict fkv =>
    by_cases ht : ∃ tkv, t = .fdict tkv
    · obtain ⟨tkv, rfl⟩ := ht
      rw [edits_fdict_fdict]
      split <;> simp [fkScript, Kind.isTop]
    · rw [edits_fdict_other _ _ _ _ _ _ (fun tkv h => ht ⟨tkv, h⟩)]; simp [Kind.isTop]

theorem Kind.bne_of_ne {a b : Kind} (h : a ≠ b) : (a != b) = true := by simpa using h

theorem Kind.isTop_ne {k : Kind} (h : k.isTop = true) : k ≠ .insert ∧ k ≠ .remove ∧ k ≠ .kvp := by
  cases k <;> simp_all [Kind.isTop]

/-- every table entry (or the default) has a top kind -/
def TblTop (tbl : List (List Script)) : Prop := ∀ i j, ((tbl.getD i []).getD j (mkMatch 0)).kind.isTop = true

theorem listTbl_top (o : Opts) (orc : Oracle) (fp tp : List Nat) (fcs tcs : List Tree) :
    TblTop (listTbl o orc fp tp fcs tcs) :=
  tbl_all (P := fun s => s.kind.isTop = true) _ _ rfl
    (listTbl_all (P := fun s => s.kind.isTop = true) o orc fp tp fcs tcs (fun _ _ _ _ _ => edits_kind_top ..))

theorem kvTbl_top (o : Opts) (orc : Oracle) (fp tp : List Nat) (fkv tkv : List (Str × Tree)) :
    TblTop (kvTbl o orc fp tp fkv tkv) :=
  tbl_all (P := fun s => s.kind.isTop = true) _ _ rfl
    (kvTbl_all (P := fun s => s.kind.isTop = true) o orc fp tp fkv tkv (fun _ _ _ _ _ => edits_kind_top ..))

/-! ### generic list facts -/

theorem fromIdx_append (a b : List Script) : fromIdx (a ++ b) = fromIdx a ++ fromIdx b := by simp [fromIdx]
theorem toIdx_append (r : Ix → Ix) (a b : List Script) : toIdx r (a ++ b) = toIdx r a ++ toIdx r b := by simp [toIdx]

theorem fromIdx_map {α : Type} (l : List α) (g : α → Script) (ix : α → Ix)
    (h : ∀ a ∈ l, (g a).kind ≠ .insert ∧ (g a).fi = ix a) : fromIdx (l.map g) = l.map ix := by
  induction l with
  | nil => rfl
  | cons a l ih =>
    have ha := h a (by simp)
    simp only [fromIdx, List.map_cons, List.filter_cons, bne_iff_ne, ne_eq, ha.1, not_false_eq_true, if_true, ha.2] at ih ⊢
    rw [ih (fun a ha => h a (by simp [ha]))]

theorem fromIdx_map_insert {α : Type} (l : List α) (g : α → Script)
    (h : ∀ a ∈ l, (g a).kind = .insert) : fromIdx (l.map g) = [] := by
  induction l with
  | nil => rfl
  | cons a l ih =>
    have ha := h a (by simp)
    simp only [fromIdx, List.map_cons, List.filter_cons, ha, bne_self_eq_false, Bool.false_eq_true, if_false] at ih ⊢
    exact ih (fun a ha => h a (by simp [ha]))

theorem toIdx_map {α : Type} (r : Ix → Ix) (l : List α) (g : α → Script) (ix : α → Ix)
    (h : ∀ a ∈ l, (g a).kind ≠ .remove ∧ toIxOf r (g a) = ix a) : toIdx r (l.map g) = l.map ix := by
  induction l with
  | nil => rfl
  | cons a l ih =>
    have ha := h a (by simp)
    simp only [toIdx, List.map_cons, List.filter_cons, bne_iff_ne, ne_eq, ha.1, not_false_eq_true, if_true, ha.2] at ih ⊢
    rw [ih (fun a ha => h a (by simp [ha]))]

theorem toIdx_map_remove {α : Type} (r : Ix → Ix) (l : List α) (g : α → Script)
    (h : ∀ a ∈ l, (g a).kind = .remove) : toIdx r (l.map g) = [] := by
  induction l with
  | nil => rfl
  | cons a l ih =>
    have ha := h a (by simp)
    simp only [toIdx, List.map_cons, List.filter_cons, ha, bne_self_eq_false, Bool.false_eq_true, if_false] at ih ⊢
    exact ih (fun a ha => h a (by simp [ha]))

theorem toIxOf_relabel_at (r : Ix → Ix) (s : Script) (f : Ix) (j : Nat) (h : s.kind ≠ .insert) :
    toIxOf r (s.relabel f (.at j)) = .at j := by
  simp [toIxOf, h]

theorem ixRange_add (n k : Nat) : ixRange (n + k) = ixRange n ++ (List.range k).map (fun x => Ix.at (n + x)) := by
  simp [ixRange, List.range_add]

/-! ### FixedLengthSequenceEdit -/

theorem fixedScript_idx (r : Ix → Ix) (fcs tcs : List Tree) (tbl : List (List Script)) (hT : TblTop tbl) :
    fromIdx (fixedScript fcs tcs tbl).subs = ixRange fcs.length ∧
    toIdx r (fixedScript fcs tcs tbl).subs = ixRange tcs.length := by
  simp only [fixedScript, mkCompound_subs, fromIdx_append, toIdx_append]
  have hp : ∀ i, (((tbl.getD i []).getD i (mkMatch 0)).relabel (.at i) (.at i)).kind ≠ .insert ∧
      (((tbl.getD i []).getD i (mkMatch 0)).relabel (.at i) (.at i)).kind ≠ .remove := by
    intro i; have := Kind.isTop_ne (hT i i); simp [this]
  constructor
  · rw [fromIdx_map _ _ Ix.at (fun i _ => ⟨(hp i).1, rfl⟩),
      fromIdx_map _ _ (fun k => Ix.at (fcs.length.min tcs.length + k)) (fun i _ => ⟨by simp, rfl⟩),
      fromIdx_map_insert _ _ (fun i _ => rfl)]
    have : fcs.length = fcs.length.min tcs.length + (fcs.length - fcs.length.min tcs.length) := by
      have : fcs.length.min tcs.length ≤ fcs.length := Nat.min_le_left _ _; omega
    conv => rhs; rw [this, ixRange_add]
    simp [ixRange]
  · rw [toIdx_map r _ _ Ix.at (fun i _ => ⟨(hp i).2, toIxOf_relabel_at _ _ _ _ (Kind.isTop_ne (hT i i)).1⟩),
      toIdx_map_remove _ _ _ (fun i _ => rfl),
      toIdx_map r _ _ (fun k => Ix.at (fcs.length.min tcs.length + k)) (fun i _ => ⟨by simp, by simp [toIxOf]⟩)]
    have : tcs.length = fcs.length.min tcs.length + (tcs.length - fcs.length.min tcs.length) := by
      have : fcs.length.min tcs.length ≤ tcs.length := Nat.min_le_right _ _; omega
    conv => rhs; rw [this, ixRange_add]
    simp [ixRange]

/-! ### EditDistance / StringEdit: prefix, replayed matrix path, suffix -/

theorem fromIdx_map_filter {α : Type} (l : List α) (g : α → Script) (keep : α → Bool) (ix : α → Ix)
    (h : ∀ a ∈ l, ((g a).kind != .insert) = keep a ∧ (keep a = true → (g a).fi = ix a)) :
    fromIdx (l.map g) = (l.filter keep).map ix := by
  induction l with
  | nil => rfl
  | cons a l ih =>
    have ha := h a (by simp)
    have ih := ih (fun a ha => h a (by simp [ha]))
    simp only [fromIdx, List.map_cons, List.filter_cons, ha.1] at ih ⊢
    cases hk : keep a
    · simpa using ih
    · simp [ha.2 hk, ih]

theorem toIdx_map_filter {α : Type} (r : Ix → Ix) (l : List α) (g : α → Script) (keep : α → Bool) (ix : α → Ix)
    (h : ∀ a ∈ l, ((g a).kind != .remove) = keep a ∧ (keep a = true → toIxOf r (g a) = ix a)) :
    toIdx r (l.map g) = (l.filter keep).map ix := by
  induction l with
  | nil => rfl
  | cons a l ih =>
    have ha := h a (by simp)
    have ih := ih (fun a ha => h a (by simp [ha]))
    simp only [toIdx, List.map_cons, List.filter_cons, ha.1] at ih ⊢
    cases hk : keep a
    · simpa using ih
    · simp [ha.2 hk, ih]

/-- the column (from) positions of the non-UP moves of a path are consecutive -/
theorem zip_positions_cols (ms : List Move) : ∀ r c,
    ((ms.zip (positionsFrom r c ms)).filter (fun x => x.1 != .up)).map (fun x => x.2.2)
      = List.range' c ((endPos r c ms).2 - c) := by
  induction ms with
  | nil => intro r c; simp [positionsFrom, endPos]
  | cons m ms ih =>
    intro r c
    have hc := endPos_counts (Move.next r c m).1 (Move.next r c m).2 ms
    cases m <;> simp only [positionsFrom, List.zip_cons_cons, List.filter_cons, endPos, Move.next] at hc ⊢
    · have : (endPos (r + 1) (c + 1) ms).2 - c = ((endPos (r + 1) (c + 1) ms).2 - (c + 1)) + 1 := by
        rw [hc]; simp; omega
      simp [ih, this, List.range'_succ]
    · simp [ih]
    · have : (endPos r (c + 1) ms).2 - c = ((endPos r (c + 1) ms).2 - (c + 1)) + 1 := by
        rw [hc]; simp; omega
      simp [ih, this, List.range'_succ]

/-- the row (to) positions of the non-LEFT moves of a path are consecutive -/
theorem zip_positions_rows (ms : List Move) : ∀ r c,
    ((ms.zip (positionsFrom r c ms)).filter (fun x => x.1 != .left)).map (fun x => x.2.1)
      = List.range' r ((endPos r c ms).1 - r) := by
  induction ms with
  | nil => intro r c; simp [positionsFrom, endPos]
  | cons m ms ih =>
    intro r c
    have hc := endPos_counts (Move.next r c m).1 (Move.next r c m).2 ms
    cases m <;> simp only [positionsFrom, List.zip_cons_cons, List.filter_cons, endPos, Move.next] at hc ⊢
    · have : (endPos (r + 1) (c + 1) ms).1 - r = ((endPos (r + 1) (c + 1) ms).1 - (r + 1)) + 1 := by
        rw [hc]; simp; omega
      simp [ih, this, List.range'_succ]
    · have : (endPos (r + 1) c ms).1 - r = ((endPos (r + 1) c ms).1 - (r + 1)) + 1 := by
        rw [hc]; simp; omega
      simp [ih, this, List.range'_succ]
    · simp [ih]

theorem solve_cols (rem ins : List Nat) (cells : List (List Nat)) :
    ((located (solve rem ins cells).2).filter (fun x => x.1 != .up)).map (fun x => x.2.2) = List.range rem.length := by
  have := zip_positions_cols (solve rem ins cells).2 0 0
  rw [solve_endPos] at this
  simpa [located, List.range_eq_range'] using this

theorem solve_rows (rem ins : List Nat) (cells : List (List Nat)) :
    ((located (solve rem ins cells).2).filter (fun x => x.1 != .left)).map (fun x => x.2.1) = List.range ins.length := by
  have := zip_positions_rows (solve rem ins cells).2 0 0
  rw [solve_endPos] at this
  simpa [located, List.range_eq_range'] using this

theorem solve_cols_at (rem ins : List Nat) (cells : List (List Nat)) (p : Nat) :
    ((located (solve rem ins cells).2).filter (fun x => x.1 != .up)).map (fun x => Ix.at (x.2.2 + p))
      = (List.range rem.length).map (fun k => Ix.at (k + p)) := by
  rw [← solve_cols rem ins cells, List.map_map]; rfl

theorem solve_rows_at (rem ins : List Nat) (cells : List (List Nat)) (p : Nat) :
    ((located (solve rem ins cells).2).filter (fun x => x.1 != .left)).map (fun x => Ix.at (x.2.1 + p))
      = (List.range ins.length).map (fun k => Ix.at (k + p)) := by
  rw [← solve_rows rem ins cells, List.map_map]; rfl

theorem sharedPrefixLen_le {α : Type} [BEq α] (a b : List α) :
    sharedPrefixLen a b ≤ a.length ∧ sharedPrefixLen a b ≤ b.length := by
  fun_induction sharedPrefixLen a b <;> simp_all <;> omega

theorem trimLens_le {α : Type} [BEq α] (a b : List α) :
    (trimLens a b).1 + (trimLens a b).2 ≤ a.length ∧ (trimLens a b).1 + (trimLens a b).2 ≤ b.length := by
  have h1 := sharedPrefixLen_le a b
  have h2 := sharedPrefixLen_le (a.drop (sharedPrefixLen a b)).reverse (b.drop (sharedPrefixLen a b)).reverse
  simp only [trimLens, List.length_reverse, List.length_drop] at h2 ⊢
  omega

theorem middle_length {α : Type} (a : List α) (ps : Nat × Nat) : (middle a ps).length = a.length - ps.1 - ps.2 := by
  simp [middle]

theorem ixRange_three (p n s len : Nat) (h : len = p + n + s) :
    (List.range p).map Ix.at ++ (List.range n).map (fun k => Ix.at (k + p)) ++
      (List.range s).map (fun k => Ix.at (len - s + k)) = ixRange len := by
  subst h
  simp only [ixRange, List.range_add, List.map_append, List.map_map]
  congr 1
  · congr 1
    apply List.map_congr_left; intro k _; simp [Nat.add_comm]
  · apply List.map_congr_left; intro k _; simp

theorem edScript_idx (r : Ix → Ix) (fcs tcs : List Tree) (pen : Nat) (tbl : List (List Script)) (hT : TblTop tbl) :
    fromIdx (edScript fcs tcs pen tbl).subs = ixRange fcs.length ∧
    toIdx r (edScript fcs tcs pen tbl).subs = ixRange tcs.length := by
  have hl := trimLens_le fcs tcs
  have hmf := middle_length fcs (trimLens fcs tcs)
  have hmt := middle_length tcs (trimLens fcs tcs)
  simp only [edScript, Script.subs_mk, fromIdx_append, toIdx_append]
  constructor
  · rw [fromIdx_map _ _ Ix.at (fun i _ => ⟨by simp, rfl⟩),
      fromIdx_map _ _ (fun k => Ix.at (fcs.length - (trimLens fcs tcs).2 + k)) (fun i _ => ⟨by simp, rfl⟩),
      fromIdx_map_filter _ _ (fun x => x.1 != .up) (fun x => Ix.at (x.2.2 + (trimLens fcs tcs).1))]
    · rw [solve_cols_at]
      simp only [List.length_map]
      exact ixRange_three _ _ _ _ (by omega)
    · rintro ⟨m, rr, c⟩ _
      have := Kind.isTop_ne (hT (c + (trimLens fcs tcs).1) (rr + (trimLens fcs tcs).1))
      cases m <;> simp [Kind.bne_of_ne this.1] <;> decide
  · rw [toIdx_map r _ _ Ix.at (fun i _ => ⟨by simp, by simp [toIxOf]⟩),
      toIdx_map r _ _ (fun k => Ix.at (tcs.length - (trimLens fcs tcs).2 + k)) (fun i _ => ⟨by simp, by simp [toIxOf]⟩),
      toIdx_map_filter r _ _ (fun x => x.1 != .left) (fun x => Ix.at (x.2.1 + (trimLens fcs tcs).1))]
    · rw [solve_rows_at]
      simp only [List.length_map]
      exact ixRange_three _ _ _ _ (by omega)
    · rintro ⟨m, rr, c⟩ _
      have := Kind.isTop_ne (hT (c + (trimLens fcs tcs).1) (rr + (trimLens fcs tcs).1))
      cases m <;> simp [Kind.bne_of_ne this.2.1, this.1, toIxOf] <;> decide

theorem strSubs_idx (r : Ix → Ix) (a b : Str) :
    fromIdx (strSubs a b).1 = ixRange a.length ∧ toIdx r (strSubs a b).1 = ixRange b.length := by
  have hl := trimLens_le a b
  have hmf := middle_length a (trimLens a b)
  have hmt := middle_length b (trimLens a b)
  simp only [strSubs, fromIdx_append, toIdx_append]
  constructor
  · rw [fromIdx_map _ _ Ix.at (fun i _ => ⟨by simp, rfl⟩),
      fromIdx_map _ _ (fun k => Ix.at (a.length - (trimLens a b).2 + k)) (fun i _ => ⟨by simp, rfl⟩),
      fromIdx_map_filter _ _ (fun x => x.1 != .up) (fun x => Ix.at (x.2.2 + (trimLens a b).1))]
    · rw [solve_cols_at]
      simp only [ones, List.length_map]
      exact ixRange_three _ _ _ _ (by omega)
    · rintro ⟨m, rr, c⟩ _
      cases m <;> simp <;> decide
  · rw [toIdx_map r _ _ Ix.at (fun i _ => ⟨by simp, by simp [toIxOf]⟩),
      toIdx_map r _ _ (fun k => Ix.at (b.length - (trimLens a b).2 + k)) (fun i _ => ⟨by simp, by simp [toIxOf]⟩),
      toIdx_map_filter r _ _ (fun x => x.1 != .left) (fun x => Ix.at (x.2.1 + (trimLens a b).1))]
    · rw [solve_rows_at]
      simp only [ones, List.length_map]
      exact ixRange_three _ _ _ _ (by omega)
    · rintro ⟨m, rr, c⟩ _
      cases m <;> simp [toIxOf] <;> decide

theorem two_idx (r : Ix → Ix) (ke ve : Script) (h1 : ke.kind.isTop = true) (h2 : ve.kind.isTop = true) :
    fromIdx [ke.relabel (.at 0) (.at 0), ve.relabel (.at 1) (.at 1)] = ixRange 2 ∧
    toIdx r [ke.relabel (.at 0) (.at 0), ve.relabel (.at 1) (.at 1)] = ixRange 2 := by
  have h1' := Kind.isTop_ne h1
  have h2' := Kind.isTop_ne h2
  simp [fromIdx, toIdx, toIxOf, Kind.bne_of_ne h1'.1, Kind.bne_of_ne h1'.2.1,
    Kind.bne_of_ne h2'.1, Kind.bne_of_ne h2'.2.1, h1'.1, h2'.1, ixRange, List.range_succ]

/-- KeyValuePairEdit: exactly the key edit (0,0) and the value edit (1,1) -/
theorem kvpScript_idx (r : Ix → Ix) (fk tk : Str) (ve : Bool) (v : Script) (hv : v.kind.isTop = true) :
    fromIdx (kvpScript fk tk ve v).subs = ixRange 2 ∧ toIdx r (kvpScript fk tk ve v).subs = ixRange 2 := by
  have h1 : (if fk == tk then mkMatch 0 else strEdits fk tk).kind.isTop = true := by
    split
    · rfl
    · exact strEdits_kind_top _ _
  have h2 : (if ve then mkMatch 0 else v).kind.isTop = true := by
    split
    · rfl
    · exact hv
  exact two_idx r _ _ h1 h2

end GtModel

/-
  C10: what the matching options do to the script, node by node.
-/
import GtModel.Proofs.EditsBuild
namespace GtModel
open List

attribute [-simp] List.getD_eq_getElem?_getD

/-! ### positional list scripts -/

inductive Role where
  | pair | rem | ins
deriving DecidableEq, Repr

def Script.role (s : Script) : Role :=
  if s.kind = .insert then .ins else if s.kind = .remove then .rem else .pair

/-- what C10 looks at in a sub-edit: pair / remove / insert and the two indices -/
def Script.shape (s : Script) : Role × Ix × Ix := (s.role, s.fi, s.ti)

/-- the only script shape allowed when list edits are off: (0,0) … (k-1,k-1) with k = min n m, then the surplus tail
    of the longer list removed (from-indices k..n-1) or inserted (to-indices k..m-1) -/
def positionalShape (n m : Nat) : List (Role × Ix × Ix) :=
  (List.range (Nat.min n m)).map (fun i => (Role.pair, Ix.at i, Ix.at i))
  ++ (List.range (n - Nat.min n m)).map (fun k => (Role.rem, Ix.at (Nat.min n m + k), Ix.none))
  ++ (List.range (m - Nat.min n m)).map (fun k => (Role.ins, Ix.at (Nat.min n m + k), Ix.none))

theorem fixedScript_shape (fcs tcs : List Tree) (tbl : List (List Script)) (hT : TblTop tbl) :
    (fixedScript fcs tcs tbl).subs.map Script.shape = positionalShape fcs.length tcs.length := by
  simp only [fixedScript, mkCompound_subs, positionalShape, List.map_append, List.map_map]
  congr 1
  · congr 1
    apply List.map_congr_left
    intro i _
    have := Kind.isTop_ne (hT i i)
    simp [Script.shape, Script.role, this.1, this.2.1]

/-- list-vs-list edits that are not plain matches are positional whenever `cond` holds of the two lengths -/
def LocalPos (cond : Nat → Nat → Prop) (a b : Nd) (k : Kind) (subs : List Script) : Prop :=
  ∀ fcs tcs, a = .tree (.list fcs) → b = .tree (.list tcs) → k ≠ .match_ → cond fcs.length tcs.length →
    k = .fixed ∧ subs.map Script.shape = positionalShape fcs.length tcs.length

theorem localPos_edits (o : Opts) (cond : Nat → Nat → Prop)
    (hc : ∀ n m, cond n m → (!o.ale || (n == m && (!o.alesl || n == 1))) = true)
    (orc : Oracle) (fp tp : List Nat) (f t : Tree) :
    LocalPos cond (.tree f) (.tree t) (edits o orc fp tp f t).kind (edits o orc fp tp f t).subs := by
  intro fcs tcs ha hb hk hcond
  simp only [Nd.tree.injEq] at ha hb
  subst ha hb
  rw [edits_list_list] at hk ⊢
  split
  · rename_i h; simp [h] at hk
  · rw [if_pos (hc _ _ hcond)]
    exact ⟨rfl, fixedScript_shape _ _ _ (listTbl_top o orc fp tp fcs tcs)⟩

/-! ### FixedKeyDictNodeEdit pairs equal keys only -/

def LocalFK (a b : Nd) (k : Kind) (subs : List Script) : Prop :=
  ∀ fkv tkv, a = .tree (.fdict fkv) → b = .tree (.fdict tkv) → k = .fk →
    ∀ s ∈ subs, s.kind ≠ .insert → s.kind ≠ .remove →
      ∃ i j, ∃ (hi : i < fkv.length) (hj : j < tkv.length), s.fi = .at i ∧ s.ti = .at j ∧ fkv[i].1 = tkv[j].1

theorem localFK_edits (o : Opts) (orc : Oracle) (fp tp : List Nat) (f t : Tree) :
    LocalFK (.tree f) (.tree t) (edits o orc fp tp f t).kind (edits o orc fp tp f t).subs := by
  intro fkv tkv ha hb hk s hs hni hnr
  simp only [Nd.tree.injEq] at ha hb
  subst ha hb
  rw [edits_fdict_fdict] at hk hs
  split at hk
  · simp at hk
  · rename_i h
    simp only [h, Bool.false_eq_true, if_false] at hs
    rw [fkScript_subs] at hs
    simp only [List.mem_append, List.mem_map, List.mem_filter, List.mem_range] at hs
    rcases hs with (⟨i, ⟨hi, hsome⟩, rfl⟩ | ⟨k, _, rfl⟩) | ⟨k, _, rfl⟩
    · obtain ⟨j, hj⟩ := Option.isSome_iff_exists.1 hsome
      have hjl := findKey_lt hj
      have hkey := findKey_key hj
      rw [getD_key hi, getD_key hjl] at hkey
      refine ⟨i, j, hi, hjl, ?_, ?_, hkey.symm⟩
      · simp only [hj, Option.getD_some]; split <;> rfl
      · simp only [hj, Option.getD_some]; split <;> rfl
    · simp at hnr
    · simp at hni

/-! ### without key edits there is no MultiSetEdit at all -/

mutual
def Tree.noDict : Tree → Bool
  | .leaf _ => true
  | .list cs => noDictL cs
  | .dict _ => false
  | .fdict kvs => noDictKV kvs
def noDictL : List Tree → Bool
  | [] => true
  | c :: cs => c.noDict && noDictL cs
def noDictKV : List (Str × Tree) → Bool
  | [] => true
  | (_, v) :: rest => v.noDict && noDictKV rest
end

theorem noDictL_iff (cs : List Tree) : noDictL cs = true ↔ ∀ c ∈ cs, c.noDict = true := by
  induction cs with
  | nil => simp [noDictL]
  | cons c cs ih => simp [noDictL, ih]

theorem noDictKV_iff (kvs : List (Str × Tree)) : noDictKV kvs = true ↔ ∀ kv ∈ kvs, kv.2.noDict = true := by
  induction kvs with
  | nil => simp [noDictKV]
  | cons kv kvs ih => obtain ⟨k, v⟩ := kv; simp [noDictKV, ih]

theorem treeInv_noDict : TreeInv (fun t => t.noDict = true) :=
  ⟨fun _ => rfl, fun cs h => (noDictL_iff cs).1 (by simpa [Tree.noDict] using h),
   fun kvs h => by simp [Tree.noDict] at h, fun kvs h => (noDictKV_iff kvs).1 (by simpa [Tree.noDict] using h)⟩

mutual
theorem build_noDict (o : Opts) (h : o.ake = false) : ∀ d : Doc, (build o d).noDict = true
  | .scalar _ => rfl
  | .list cs => by simp only [build, Tree.noDict]; exact buildL_noDict o h cs
  | .obj kvs => by simp only [build, h, Bool.false_eq_true, if_false, Tree.noDict]; exact buildKV_noDict o h kvs
theorem buildL_noDict (o : Opts) (h : o.ake = false) : ∀ cs : List Doc, noDictL (build.buildL o cs) = true
  | [] => rfl
  | c :: cs => by simp only [build.buildL, noDictL, Bool.and_eq_true]; exact ⟨build_noDict o h c, buildL_noDict o h cs⟩
theorem buildKV_noDict (o : Opts) (h : o.ake = false) : ∀ kvs : List (Str × Doc), noDictKV (build.buildKV o kvs) = true
  | [] => rfl
  | (k, v) :: rest => by
    simp only [build.buildKV, noDictKV, Bool.and_eq_true]; exact ⟨build_noDict o h v, buildKV_noDict o h rest⟩
end

def LocalNoMs (_a _b : Nd) (k : Kind) (_subs : List Script) : Prop := k ≠ .ms

theorem strEdits_kind_ne_ms (a b : Str) : (strEdits a b).kind ≠ .ms := by
  rcases strEdits_kind a b with h | h <;> simp [h]

theorem leafEdits_kind_ne_ms (a : Scalar) (t : Tree) : (leafEdits a t).kind ≠ .ms := by
  unfold leafEdits
  split <;> first | exact strEdits_kind_ne_ms _ _ | simp [leafLeaf]

theorem localNoMs_edits (o : Opts) (orc : Oracle) (fp tp : List Nat) (f t : Tree) (hf : f.noDict = true) :
    LocalNoMs (.tree f) (.tree t) (edits o orc fp tp f t).kind (edits o orc fp tp f t).subs := by
  unfold LocalNoMs
  cases f with
  | leaf a => rw [edits_leaf]; exact leafEdits_kind_ne_ms a t
  | list fcs =>
    by_cases ht : ∃ tcs, t = .list tcs
    · obtain ⟨tcs, rfl⟩ := ht
      rw [edits_list_list]
      split
      · simp
      · split <;> simp [fixedScript, edScript]
    · rw [edits_list_other _ _ _ _ _ _ (fun tcs h => ht ⟨tcs, h⟩)]; simp
  | dict fkv => simp [Tree.noDict] at hf
  | fdict fkv =>
    by_cases ht : ∃ tkv, t = .fdict tkv
    · obtain ⟨tkv, rfl⟩ := ht
      rw [edits_fdict_fdict]
      split <;> simp [fkScript]
    · rw [edits_fdict_other _ _ _ _ _ _ (fun tkv h => ht ⟨tkv, h⟩)]; simp

/-! ### automatic key matching pairs every shared key with itself -/

def LocalAuto (a b : Nd) (k : Kind) (subs : List Script) : Prop :=
  ∀ fkv tkv, a = .tree (.dict fkv) → b = .tree (.dict tkv) → k = .ms →
    ∀ key, key ∈ keys fkv → key ∈ keys tkv →
      ∃ s ∈ subs, ∃ i j, ∃ (hi : i < fkv.length) (hj : j < tkv.length),
        s.kind = .kvp ∧ s.fi = .at i ∧ s.ti = .at j ∧ fkv[i].1 = key ∧ tkv[j].1 = key

theorem localAuto_edits (o : Opts) (hamk : o.amk = true) (orc : Oracle) (fp tp : List Nat) (f t : Tree) :
    LocalAuto (.tree f) (.tree t) (edits o orc fp tp f t).kind (edits o orc fp tp f t).subs := by
  intro fkv tkv ha hb hk key hkf hkt
  simp only [Nd.tree.injEq] at ha hb
  subst ha hb
  rw [edits_dict_dict] at hk ⊢
  split at hk
  · simp at hk
  · rename_i h
    simp only [h, Bool.false_eq_true, if_false]
    obtain ⟨i, hi, hki⟩ := mem_keys_iff.1 hkf
    have hne : findKey key tkv 0 ≠ none := fun e => (findKey_none.1 e) hkt
    obtain ⟨j, hj⟩ := Option.ne_none_iff_exists'.1 hne
    have hjl := findKey_lt hj
    have hkj := findKey_key hj
    rw [getD_key hjl] at hkj
    refine ⟨msKvE fkv tkv (kvTbl o orc fp tp fkv tkv) i j, ?_, i, j, hi, hjl,
      (msKvE_facts id _ _ _ _ _).1, (msKvE_facts id _ _ _ _ _).2.1, rfl, hki, hkj⟩
    rw [msScript_subs]
    simp only [List.mem_append, List.mem_map]
    refine Or.inl (Or.inl (Or.inl (Or.inr ⟨(i, j), ?_, rfl⟩)))
    simp only [msAuto, hamk, if_true, List.mem_filterMap, List.mem_range, Option.map_eq_some_iff]
    exact ⟨i, hi, j, by rw [getD_key hi, hki]; exact hj, rfl⟩

end GtModel

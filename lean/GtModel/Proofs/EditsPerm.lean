/-
  C01, per node, unordered containers: `FixedKeyDictNodeEdit` and `MultiSetEdit` account for every pair of both
  mappings exactly once (as permutations), for every oracle answer.
-/
import GtModel.Proofs.EditsIdx
namespace GtModel
open List

attribute [-simp] List.getD_eq_getElem?_getD

/-! ### generic -/

theorem filterMap_eq_map_filter {α β : Type} (f : α → Option β) (d : β) (l : List α) :
    l.filterMap f = (l.filter fun a => (f a).isSome).map fun a => (f a).getD d := by
  induction l with
  | nil => rfl
  | cons a l ih =>
    cases h : f a <;> simp [h, ih]

theorem perm_swap3 {α : Type} (a b c : List α) : (a ++ (b ++ c)).Perm (b ++ (a ++ c)) := by
  rw [← List.append_assoc, ← List.append_assoc]; exact List.Perm.append_right c List.perm_append_comm

theorem map_filter_congr {α β : Type} (l : List α) (p q : α → Bool) (f g : α → β)
    (h : ∀ a ∈ l, p a = q a ∧ (p a = true → f a = g a)) : (l.filter p).map f = (l.filter q).map g := by
  induction l with
  | nil => rfl
  | cons a l ih =>
    have ha := h a (by simp)
    have ih := ih (fun a ha => h a (by simp [ha]))
    simp only [List.filter_cons, ← ha.1]
    cases hp : p a
    · simpa using ih
    · simp [ha.2 hp, ih]

/-- a duplicate-free list of numbers below `n` followed by the numbers it misses is a permutation of `0..n-1` -/
theorem perm_compl (L : List Nat) (n : Nat) (p : Nat → Bool) (hnd : L.Nodup) (hlt : ∀ x ∈ L, x < n)
    (hp : ∀ j, j < n → (p j = true ↔ j ∉ L)) : (L ++ (List.range n).filter p).Perm (List.range n) := by
  rw [List.perm_ext_iff_of_nodup _ List.nodup_range]
  · intro a
    simp only [List.mem_append, List.mem_filter, List.mem_range]
    constructor
    · rintro (h | h)
      · exact hlt a h
      · exact h.1
    · intro h
      by_cases ha : a ∈ L
      · exact Or.inl ha
      · exact Or.inr ⟨h, (hp a h).2 ha⟩
  · rw [List.nodup_append]
    refine ⟨hnd, List.Nodup.sublist List.filter_sublist List.nodup_range, ?_⟩
    intro a ha b hb hab
    subst hab
    simp only [List.mem_filter, List.mem_range] at hb
    exact (hp a hb.1).1 hb.2 ha

theorem map_getD_range {α : Type} (T : List α) (d : α) : (List.range T.length).map (fun a => T.getD a d) = T := by
  apply List.ext_getElem
  · simp
  · intro i h1 h2
    simp at h1
    simp [List.getD_eq_getElem?_getD, h1]

/-! ### `findKey` -/

def keys {α : Type} (l : List (Str × α)) : List Str := l.map Prod.fst

theorem findKey_some {k : Str} {l : List (Str × Tree)} {s j : Nat} (h : findKey k l s = some j) :
    s ≤ j ∧ ∃ hj : j - s < l.length, l[j - s].1 = k := by
  induction l generalizing s with
  | nil => simp [findKey] at h
  | cons kv l ih =>
    obtain ⟨k', v'⟩ := kv
    simp only [findKey] at h
    split at h
    · simp only [Option.some.injEq] at h
      subst h
      rename_i hk
      simp only [beq_iff_eq] at hk
      simp [hk]
    · obtain ⟨h1, h2, h3⟩ := ih h
      refine ⟨by omega, ?_⟩
      have : j - s = (j - (s + 1)) + 1 := by omega
      simp only [this, List.length_cons, List.getElem_cons_succ]
      exact ⟨by omega, h3⟩

theorem findKey_none {k : Str} {l : List (Str × Tree)} {s : Nat} : findKey k l s = none ↔ k ∉ keys l := by
  induction l generalizing s with
  | nil => simp [findKey, keys]
  | cons kv l ih =>
    obtain ⟨k', v'⟩ := kv
    simp only [findKey, keys, List.map_cons, List.mem_cons, not_or]
    split
    · rename_i hk; simp only [beq_iff_eq] at hk; simp [hk]
    · rename_i hk; simp only [beq_iff_eq] at hk
      rw [ih]; simp [keys, hk]

/-- with distinct keys the i-th key is found at i -/
theorem findKey_self {l : List (Str × Tree)} (hd : (keys l).Nodup) {i : Nat} (hi : i < l.length) (s : Nat) :
    findKey l[i].1 l s = some (i + s) := by
  induction l generalizing i s with
  | nil => simp at hi
  | cons kv l ih =>
    obtain ⟨k', v'⟩ := kv
    simp only [keys, List.map_cons, List.nodup_cons] at hd
    cases i with
    | zero => simp [findKey]
    | succ i =>
      simp only [List.length_cons, Nat.add_lt_add_iff_right] at hi
      simp only [List.getElem_cons_succ, findKey]
      have hne : ¬ (l[i].1 == k') = true := by
        simp only [beq_iff_eq]
        intro h
        exact hd.1 (h ▸ List.mem_map_of_mem (List.getElem_mem hi))
      rw [if_neg hne, ih hd.2 hi]
      congr 1; omega

theorem findKey_lt {k : Str} {l : List (Str × Tree)} {j : Nat} (h : findKey k l 0 = some j) : j < l.length := by
  obtain ⟨_, h2, _⟩ := findKey_some h; simpa using h2

theorem findKey_key {k : Str} {l : List (Str × Tree)} {j : Nat} (h : findKey k l 0 = some j) :
    (l.getD j ([], .leaf .null)).1 = k := by
  obtain ⟨_, h2, h3⟩ := findKey_some h
  simp only [Nat.sub_zero] at h2 h3
  simp [List.getD_eq_getElem?_getD, h2, h3]

theorem findKey_iff {l : List (Str × Tree)} (hd : (keys l).Nodup) {k : Str} {j : Nat} :
    findKey k l 0 = some j ↔ ∃ hj : j < l.length, l[j].1 = k := by
  constructor
  · intro h
    obtain ⟨_, h2, h3⟩ := findKey_some h
    exact ⟨by simpa using h2, by simpa using h3⟩
  · rintro ⟨hj, rfl⟩
    simpa using findKey_self hd hj 0

theorem keys_inj {l : List (Str × Tree)} (hd : (keys l).Nodup) {i j : Nat} (hi : i < l.length) (hj : j < l.length)
    (h : l[i].1 = l[j].1) : i = j := by
  have h1 := findKey_self hd hi 0
  have h2 := findKey_self hd hj 0
  rw [h, h2] at h1
  simpa using h1.symm

theorem mem_keys_iff {α : Type} {l : List (Str × α)} {k : Str} : k ∈ keys l ↔ ∃ i, ∃ h : i < l.length, l[i].1 = k := by
  simp only [keys, List.mem_map]
  constructor
  · rintro ⟨kv, hkv, rfl⟩
    obtain ⟨i, hi, rfl⟩ := List.getElem_of_mem hkv
    exact ⟨i, hi, rfl⟩
  · rintro ⟨i, hi, rfl⟩
    exact ⟨l[i], List.getElem_mem hi, rfl⟩

/-! ### FixedKeyDictNodeEdit -/

abbrev dkv : Str × Tree := ([], .leaf .null)

theorem getD_key {l : List (Str × Tree)} {i : Nat} (hi : i < l.length) : (l.getD i dkv).1 = l[i].1 := by
  simp [List.getD_eq_getElem?_getD, hi]

/-- the three segments of `fkScript`, with `filterMap` turned into `filter`+`map` -/
theorem fkScript_subs (fkv tkv : List (Str × Tree)) (vtbl : List (List Script)) :
    (fkScript fkv tkv vtbl).subs =
      ((List.range fkv.length).filter fun i => (findKey (fkv.getD i dkv).1 tkv 0).isSome).map (fun i =>
        let j := (findKey (fkv.getD i dkv).1 tkv 0).getD 0
        if kvEq (fkv.getD i dkv) (tkv.getD j dkv) then (mkMatch 0).relabel (.at i) (.at j)
        else (kvpScript (fkv.getD i dkv).1 (tkv.getD j dkv).1 ((fkv.getD i dkv).2.eq (tkv.getD j dkv).2)
          ((vtbl.getD i []).getD j (mkMatch 0))).relabel (.at i) (.at j))
      ++ ((List.range fkv.length).filter fun i => !(findKey (fkv.getD i dkv).1 tkv 0).isSome).map (fun i =>
        mkRemove i (kvSize (fkv.getD i dkv)) 1)
      ++ ((List.range tkv.length).filter fun j => !(findKey (tkv.getD j dkv).1 fkv 0).isSome).map (fun j =>
        mkInsert j (kvSize (tkv.getD j dkv)) 1) := by
  simp only [fkScript, mkCompound_subs]
  congr 1
  · congr 1
    · rw [filterMap_eq_map_filter _ (mkMatch 0)]
      apply map_filter_congr
      intro i _
      refine ⟨by simp, fun hi => ?_⟩
      simp only [Option.isSome_map] at hi
      obtain ⟨j, hj⟩ := Option.isSome_iff_exists.1 hi
      simp [hj]
    · rw [filterMap_eq_map_filter _ (mkMatch 0)]
      apply map_filter_congr
      intro i _
      cases findKey (fkv.getD i dkv).1 tkv 0 <;> simp
  · rw [filterMap_eq_map_filter _ (mkMatch 0)]
    apply map_filter_congr
    intro i _
    cases findKey (tkv.getD i dkv).1 fkv 0 <;> simp

theorem ite_relabel_kind (c : Bool) (a b : Script) (f t : Ix) :
    (if c then a.relabel f t else b.relabel f t) = (if c then a else b).relabel f t := by
  cases c <;> rfl

theorem fkScript_fromIdx (fkv tkv : List (Str × Tree)) (vtbl : List (List Script)) :
    (fromIdx (fkScript fkv tkv vtbl).subs).Perm (ixRange fkv.length) := by
  rw [fkScript_subs]
  simp only [fromIdx_append]
  rw [fromIdx_map _ _ Ix.at, fromIdx_map _ _ Ix.at, fromIdx_map_insert, List.append_nil, ← List.map_append]
  · exact (List.filter_append_perm _ _).map _
  · intro a _; rfl
  · intro a _; exact ⟨by simp, rfl⟩
  · intro a _
    split <;> simp [kvpScript]

/-- the to-indices the key-matched pairs hit -/
def fkHits (fkv tkv : List (Str × Tree)) : List Nat :=
  (List.range fkv.length).filterMap fun i => findKey (fkv.getD i dkv).1 tkv 0

theorem fkHits_nodup (fkv tkv : List (Str × Tree)) (hdf : (keys fkv).Nodup) : (fkHits fkv tkv).Nodup := by
  unfold fkHits List.Nodup
  rw [List.pairwise_filterMap]
  refine List.Pairwise.imp_of_mem ?_ (List.nodup_range (n := fkv.length))
  intro a b ha hb hab j hj j' hj' e
  subst e
  simp only [List.mem_range] at ha hb
  have h1 := findKey_key hj
  have h2 := findKey_key hj'
  rw [getD_key ha] at h1
  rw [getD_key hb] at h2
  exact hab (keys_inj hdf ha hb (h1.symm.trans h2 |>.symm ▸ rfl))

theorem mem_fkHits (fkv tkv : List (Str × Tree)) (hdt : (keys tkv).Nodup) (j : Nat) (hj : j < tkv.length) :
    j ∈ fkHits fkv tkv ↔ tkv[j].1 ∈ keys fkv := by
  simp only [fkHits, List.mem_filterMap, List.mem_range, mem_keys_iff]
  constructor
  · rintro ⟨i, hi, h⟩
    have := findKey_key h
    rw [getD_key hi] at this
    refine ⟨i, hi, ?_⟩
    obtain ⟨_, h3⟩ := (findKey_iff hdt).1 h
    rw [getD_key hi] at h3
    exact h3.symm
  · rintro ⟨i, hi, h⟩
    refine ⟨i, hi, ?_⟩
    rw [getD_key hi, h]
    exact (findKey_iff hdt).2 ⟨hj, rfl⟩

theorem fkScript_toIdx (r : Ix → Ix) (fkv tkv : List (Str × Tree)) (vtbl : List (List Script))
    (hdf : (keys fkv).Nodup) (hdt : (keys tkv).Nodup) :
    (toIdx r (fkScript fkv tkv vtbl).subs).Perm (ixRange tkv.length) := by
  rw [fkScript_subs]
  simp only [toIdx_append]
  rw [toIdx_map r _ _ (fun i => Ix.at ((findKey (fkv.getD i dkv).1 tkv 0).getD 0)), toIdx_map_remove,
    toIdx_map r _ _ Ix.at, List.append_nil]
  · have h1 : (List.filter (fun i => (findKey (fkv.getD i dkv).1 tkv 0).isSome) (List.range fkv.length)).map
        (fun i => Ix.at ((findKey (fkv.getD i dkv).1 tkv 0).getD 0)) = (fkHits fkv tkv).map Ix.at := by
      rw [fkHits, filterMap_eq_map_filter _ 0, List.map_map]; rfl
    rw [h1, ← List.map_append]
    refine (perm_compl _ _ _ (fkHits_nodup fkv tkv hdf) ?_ ?_).map _
    · intro j hj
      simp only [fkHits, List.mem_filterMap] at hj
      obtain ⟨i, _, h⟩ := hj
      exact findKey_lt h
    · intro j hj
      rw [mem_fkHits fkv tkv hdt j hj, ← findKey_none (s := 0), getD_key hj]
      cases findKey tkv[j].1 fkv 0 <;> simp
  · intro a _; exact ⟨by simp, by simp [toIxOf]⟩
  · intro a _; rfl
  · intro a _
    split <;> simp [kvpScript, toIxOf]

/-! ### the oracle: whatever the solver answered, the model continues from a partial injection -/

/-- pairs with distinct first components, distinct second components, all in range -/
def PInj (nf nt : Nat) (l : List (Nat × Nat)) : Prop :=
  (l.map Prod.fst).Nodup ∧ (l.map Prod.snd).Nodup ∧ ∀ p ∈ l, p.1 < nf ∧ p.2 < nt

theorem PInj.perm {nf nt : Nat} {l l' : List (Nat × Nat)} (h : l.Perm l') (hl : PInj nf nt l) : PInj nf nt l' :=
  ⟨((h.map _).nodup_iff).1 hl.1, ((h.map _).nodup_iff).1 hl.2.1, fun p hp => hl.2.2 p ((h.mem_iff).2 hp)⟩

theorem sanitize_pinj (nf nt : Nat) (rest : List (Nat × Nat)) : ∀ acc, PInj nf nt acc →
    PInj nf nt (sanitize nf nt acc rest) := by
  induction rest with
  | nil => intro acc h; exact h.perm (List.reverse_perm acc).symm
  | cons p rest ih =>
    intro acc h
    obtain ⟨i, j⟩ := p
    simp only [sanitize]
    split
    · rename_i hc
      simp only [Bool.and_eq_true, decide_eq_true_eq, Bool.not_eq_true', List.any_eq_false, beq_iff_eq] at hc
      apply ih
      refine ⟨?_, ?_, ?_⟩
      · simp only [List.map_cons, List.nodup_cons, List.mem_map, not_exists, not_and]
        exact ⟨fun q hq e => hc.1.2 q hq (by simpa using e), h.1⟩
      · simp only [List.map_cons, List.nodup_cons, List.mem_map, not_exists, not_and]
        exact ⟨fun q hq e => hc.2 q hq (by simpa using e), h.2.1⟩
      · intro q hq
        simp only [List.mem_cons] at hq
        rcases hq with rfl | hq
        · exact ⟨hc.1.1.1, hc.1.1.2⟩
        · exact h.2.2 q hq
    · exact ih acc h

theorem identityPairs_pinj (nf nt : Nat) : PInj nf nt (identityPairs (Nat.min nf nt)) := by
  have h1 : Nat.min nf nt ≤ nf := Nat.min_le_left _ _
  have h2 : Nat.min nf nt ≤ nt := Nat.min_le_right _ _
  refine ⟨?_, ?_, ?_⟩
  · simp [identityPairs, List.map_map, Function.comp_def, List.nodup_range]
  · simp [identityPairs, List.map_map, Function.comp_def, List.nodup_range]
  · intro p hp
    simp only [identityPairs, List.mem_map, List.mem_range] at hp
    obtain ⟨i, hi, rfl⟩ := hp
    exact ⟨by dsimp only; omega, by dsimp only; omega⟩

theorem lookup_pinj (orc : Oracle) (fps tps : List (List Nat)) : PInj fps.length tps.length (orc.lookup fps tps) := by
  unfold Oracle.lookup
  split
  · exact sanitize_pinj _ _ _ [] ⟨by simp, by simp, by simp⟩
  · exact identityPairs_pinj _ _

theorem insertPair_perm (p : Nat × Nat) (l : List (Nat × Nat)) : (insertPair p l).Perm (p :: l) := by
  induction l with
  | nil => exact List.Perm.refl _
  | cons q l ih =>
    simp only [insertPair]
    split
    · exact List.Perm.refl _
    · exact ((List.Perm.cons q ih).trans (List.Perm.swap p q l))

theorem sortPairs_perm (l : List (Nat × Nat)) : (sortPairs l).Perm l := by
  induction l with
  | nil => exact List.Perm.refl _
  | cons p l ih => exact (insertPair_perm p _).trans (List.Perm.cons p ih)

theorem sorted_lookup_pinj (orc : Oracle) (fps tps : List (List Nat)) :
    PInj fps.length tps.length (sortPairs (orc.lookup fps tps)) :=
  (lookup_pinj orc fps tps).perm (sortPairs_perm _).symm

/-! ### MultiSetEdit -/

def msAuto (amk : Bool) (fkv tkv : List (Str × Tree)) : List (Nat × Nat) :=
  if amk then (List.range fkv.length).filterMap fun i => (findKey (fkv.getD i dkv).1 tkv 0).map fun j => (i, j)
  else []
def msFLeft (amk : Bool) (fkv tkv : List (Str × Tree)) : List Nat :=
  (List.range fkv.length).filter fun i => !((msAuto amk fkv tkv).any (·.1 == i))
def msTLeft (amk : Bool) (fkv tkv : List (Str × Tree)) : List Nat :=
  (List.range tkv.length).filter fun j => !((msAuto amk fkv tkv).any (·.2 == j))
def hasEqIn (x : Str × Tree) (idxs : List Nat) (l : List (Str × Tree)) : Bool :=
  idxs.any fun j => kvEq x (l.getD j dkv)
def msToMatch (amk : Bool) (fkv tkv : List (Str × Tree)) : List Nat :=
  (msFLeft amk fkv tkv).filter fun i => hasEqIn (fkv.getD i dkv) (msTLeft amk fkv tkv) tkv
def msToRemove (amk : Bool) (fkv tkv : List (Str × Tree)) : List Nat :=
  (msFLeft amk fkv tkv).filter fun i => !(hasEqIn (fkv.getD i dkv) (msTLeft amk fkv tkv) tkv)
def msToInsert (amk : Bool) (fkv tkv : List (Str × Tree)) : List Nat :=
  (msTLeft amk fkv tkv).filter fun j => !(hasEqIn (tkv.getD j dkv) (msFLeft amk fkv tkv) fkv)
def msPairs (amk : Bool) (orc : Oracle) (fp tp : List Nat) (fkv tkv : List (Str × Tree)) : List (Nat × Nat) :=
  sortPairs (orc.lookup ((msToRemove amk fkv tkv).map fun i => fp ++ [i]) ((msToInsert amk fkv tkv).map fun j => tp ++ [j]))
def msKvE (fkv tkv : List (Str × Tree)) (vtbl : List (List Script)) (i j : Nat) : Script :=
  (kvpScript (fkv.getD i dkv).1 (tkv.getD j dkv).1 ((fkv.getD i dkv).2.eq (tkv.getD j dkv).2)
    ((vtbl.getD i []).getD j (mkMatch 0))).relabel (.at i) (.at j)

theorem msScript_subs (amk : Bool) (orc : Oracle) (fp tp : List Nat) (fkv tkv : List (Str × Tree))
    (vtbl : List (List Script)) :
    (msScript amk orc fp tp fkv tkv vtbl).subs =
      (msToMatch amk fkv tkv).map (fun i => (mkMatch 0).relabel (.at i) .same)
      ++ (msAuto amk fkv tkv).map (fun p => msKvE fkv tkv vtbl p.1 p.2)
      ++ (msPairs amk orc fp tp fkv tkv).map (fun p =>
          msKvE fkv tkv vtbl ((msToRemove amk fkv tkv).getD p.1 0) ((msToInsert amk fkv tkv).getD p.2 0))
      ++ ((List.range (msToRemove amk fkv tkv).length).filter fun a => !((msPairs amk orc fp tp fkv tkv).any (·.1 == a))).map
          (fun a => mkRemove ((msToRemove amk fkv tkv).getD a 0) (kvSize (fkv.getD ((msToRemove amk fkv tkv).getD a 0) dkv)) 1)
      ++ ((List.range (msToInsert amk fkv tkv).length).filter fun b => !((msPairs amk orc fp tp fkv tkv).any (·.2 == b))).map
          (fun b => mkInsert ((msToInsert amk fkv tkv).getD b 0) (kvSize (tkv.getD ((msToInsert amk fkv tkv).getD b 0) dkv)) 1) := by
  rfl

theorem any_fst_iff (l : List (Nat × Nat)) (i : Nat) : (!(l.any (·.1 == i))) = true ↔ i ∉ l.map Prod.fst := by
  simp only [Bool.not_eq_true', List.any_eq_false, beq_iff_eq, List.mem_map, not_exists, not_and]
theorem any_snd_iff (l : List (Nat × Nat)) (j : Nat) : (!(l.any (·.2 == j))) = true ↔ j ∉ l.map Prod.snd := by
  simp only [Bool.not_eq_true', List.any_eq_false, beq_iff_eq, List.mem_map, not_exists, not_and]

theorem msAuto_fst (amk : Bool) (fkv tkv : List (Str × Tree)) :
    (msAuto amk fkv tkv).map Prod.fst =
      (List.range fkv.length).filter (fun i => amk && (findKey (fkv.getD i dkv).1 tkv 0).isSome) := by
  unfold msAuto
  cases amk
  · simp
  · simp only [if_true, Bool.true_and]
    rw [filterMap_eq_map_filter _ (0, 0), List.map_map]
    have : ∀ l : List Nat, (l.filter fun i => (findKey (fkv.getD i dkv).1 tkv 0).isSome).map id =
        l.filter fun i => (findKey (fkv.getD i dkv).1 tkv 0).isSome := by simp
    rw [← this]
    apply map_filter_congr
    intro i _
    cases h : findKey (fkv.getD i dkv).1 tkv 0 <;> simp [h]

theorem msAuto_snd (amk : Bool) (fkv tkv : List (Str × Tree)) :
    (msAuto amk fkv tkv).map Prod.snd = if amk then fkHits fkv tkv else [] := by
  unfold msAuto fkHits
  cases amk
  · simp
  · simp only [if_true, List.map_filterMap]
    congr 1; funext i
    cases findKey (fkv.getD i dkv).1 tkv 0 <;> simp

theorem msAuto_mem {amk : Bool} {fkv tkv : List (Str × Tree)} {p : Nat × Nat} (h : p ∈ msAuto amk fkv tkv) :
    amk = true ∧ p.1 < fkv.length ∧ findKey (fkv.getD p.1 dkv).1 tkv 0 = some p.2 := by
  unfold msAuto at h
  cases amk
  · simp at h
  · simp only [if_true, List.mem_filterMap, List.mem_range, Option.map_eq_some_iff] at h
    obtain ⟨i, hi, j, hj, rfl⟩ := h
    exact ⟨rfl, hi, hj⟩

theorem msKvE_facts (r : Ix → Ix) (fkv tkv : List (Str × Tree)) (vtbl : List (List Script)) (i j : Nat) :
    (msKvE fkv tkv vtbl i j).kind = .kvp ∧ (msKvE fkv tkv vtbl i j).fi = .at i ∧
      toIxOf r (msKvE fkv tkv vtbl i j) = .at j := by
  simp [msKvE, kvpScript, toIxOf]

theorem msScript_fromIdx (amk : Bool) (orc : Oracle) (fp tp : List Nat) (fkv tkv : List (Str × Tree))
    (vtbl : List (List Script)) :
    (fromIdx (msScript amk orc fp tp fkv tkv vtbl).subs).Perm (ixRange fkv.length) := by
  rw [msScript_subs]
  simp only [fromIdx_append]
  rw [fromIdx_map _ _ Ix.at (fun i _ => ⟨by simp, rfl⟩),
    fromIdx_map (msAuto amk fkv tkv) _ (fun p => Ix.at p.1) (fun p _ => ⟨by simp [(msKvE_facts id fkv tkv vtbl _ _).1], (msKvE_facts id fkv tkv vtbl _ _).2.1⟩),
    fromIdx_map (msPairs amk orc fp tp fkv tkv) _ (fun p => Ix.at ((msToRemove amk fkv tkv).getD p.1 0))
      (fun p _ => ⟨by simp [(msKvE_facts id fkv tkv vtbl _ _).1], (msKvE_facts id fkv tkv vtbl _ _).2.1⟩),
    fromIdx_map _ _ (fun a => Ix.at ((msToRemove amk fkv tkv).getD a 0)) (fun a _ => ⟨by simp, rfl⟩),
    fromIdx_map_insert _ _ (fun _ _ => rfl), List.append_nil]
  have hP := sorted_lookup_pinj orc ((msToRemove amk fkv tkv).map fun i => fp ++ [i]) ((msToInsert amk fkv tkv).map fun j => tp ++ [j])
  simp only [List.length_map] at hP
  -- removed side: matched pairs + leftovers enumerate `toRemove`
  have h1 : (((msPairs amk orc fp tp fkv tkv).map Prod.fst) ++
      (List.range (msToRemove amk fkv tkv).length).filter fun a => !((msPairs amk orc fp tp fkv tkv).any (·.1 == a))).Perm
      (List.range (msToRemove amk fkv tkv).length) :=
    perm_compl _ _ _ hP.1 (fun x hx => by
      simp only [List.mem_map] at hx; obtain ⟨p, hp, rfl⟩ := hx; exact (hP.2.2 p hp).1)
      (fun j _ => any_fst_iff _ j)
  have h2 := (h1.map (fun a => (msToRemove amk fkv tkv).getD a 0))
  rw [map_getD_range, List.map_append, List.map_map] at h2
  -- toMatch ++ toRemove = fLeft
  have h3 : (msToMatch amk fkv tkv ++ msToRemove amk fkv tkv).Perm (msFLeft amk fkv tkv) := List.filter_append_perm _ _
  -- auto ++ fLeft = everything
  have h4 : ((msAuto amk fkv tkv).map Prod.fst ++ msFLeft amk fkv tkv).Perm (List.range fkv.length) := by
    refine perm_compl _ _ _ ?_ ?_ (fun j _ => any_fst_iff _ j)
    · rw [msAuto_fst]; exact List.Nodup.sublist List.filter_sublist List.nodup_range
    · intro x hx; rw [msAuto_fst] at hx; simp only [List.mem_filter, List.mem_range] at hx; exact hx.1
  have h5 : (msToMatch amk fkv tkv ++ (msAuto amk fkv tkv).map Prod.fst ++
      (((msPairs amk orc fp tp fkv tkv).map Prod.fst).map (fun a => (msToRemove amk fkv tkv).getD a 0) ++
        ((List.range (msToRemove amk fkv tkv).length).filter fun a => !((msPairs amk orc fp tp fkv tkv).any (·.1 == a))).map
          (fun a => (msToRemove amk fkv tkv).getD a 0))).Perm (List.range fkv.length) := by
    refine List.Perm.trans ?_ h4
    refine List.Perm.trans (List.Perm.append_left _ (by simpa [List.map_map] using h2)) ?_
    refine List.Perm.trans ?_ (List.Perm.append_left _ h3)
    rw [List.append_assoc]
    exact perm_swap3 _ _ _
  have h6 := h5.map Ix.at
  simp only [List.map_append, List.map_map, Function.comp_def, List.append_assoc] at h6 ⊢
  exact h6

/-- the to-index of an identity match `Match(n, n, 0)` of `MultiSetEdit`: the pair with the same key -/
def keyResolve (fkv tkv : List (Str × Tree)) : Ix → Ix
  | .at i => match fkv[i]? with
    | some kv => (match findKey kv.1 tkv 0 with | some j => .at j | none => .none)
    | none => .none
  | _ => .none

theorem kvEq_key {x y : Str × Tree} (h : kvEq x y = true) : x.1 = y.1 := by
  simp only [kvEq, Bool.and_eq_true, beq_iff_eq] at h; exact h.1

theorem hasEqIn_iff (x : Str × Tree) (idxs : List Nat) (l : List (Str × Tree)) :
    hasEqIn x idxs l = true ↔ ∃ j ∈ idxs, kvEq x (l.getD j dkv) = true := by
  simp [hasEqIn]

theorem hits_nodup (fkv tkv : List (Str × Tree)) (hdf : (keys fkv).Nodup) (L : List Nat) (hL : L.Nodup)
    (hlt : ∀ i ∈ L, i < fkv.length) : (L.filterMap fun i => findKey (fkv.getD i dkv).1 tkv 0).Nodup := by
  unfold List.Nodup
  rw [List.pairwise_filterMap]
  refine List.Pairwise.imp_of_mem ?_ hL
  intro a b ha hb hab j hj j' hj' e
  subst e
  have h1 := findKey_key hj
  have h2 := findKey_key hj'
  rw [getD_key (hlt a ha)] at h1
  rw [getD_key (hlt b hb)] at h2
  exact hab (keys_inj hdf (hlt a ha) (hlt b hb) (h1.symm.trans h2 |>.symm ▸ rfl))

/-- symmetric pair equality between the two mappings (a consequence of symmetric node equality) -/
def KvSymm (fkv tkv : List (Str × Tree)) : Prop :=
  ∀ i j, i < fkv.length → j < tkv.length → kvEq (fkv.getD i dkv) (tkv.getD j dkv) = kvEq (tkv.getD j dkv) (fkv.getD i dkv)

theorem fLeft_mem {amk : Bool} {fkv tkv : List (Str × Tree)} {i : Nat} (h : i ∈ msFLeft amk fkv tkv) :
    i < fkv.length ∧ (amk = true → (fkv.getD i dkv).1 ∉ keys tkv) := by
  simp only [msFLeft, List.mem_filter, List.mem_range, any_fst_iff, msAuto_fst, not_and, Bool.and_eq_true] at h
  refine ⟨h.1, fun ha => ?_⟩
  have := h.2 h.1
  rw [← findKey_none (s := 0)]
  cases hk : findKey (fkv.getD i dkv).1 tkv 0
  · rfl
  · simp [ha, hk] at this

theorem tLeft_mem {amk : Bool} {fkv tkv : List (Str × Tree)} {j : Nat} (h : j ∈ msTLeft amk fkv tkv) :
    j < tkv.length := by
  simp only [msTLeft, List.mem_filter, List.mem_range] at h; exact h.1

/-- the to-pairs that have an equal from-pair among the unmatched ones are exactly the resolved identity matches -/
theorem ms_same_perm (amk : Bool) (fkv tkv : List (Str × Tree)) (hdf : (keys fkv).Nodup) (hdt : (keys tkv).Nodup)
    (hsym : KvSymm fkv tkv) :
    ((msToMatch amk fkv tkv).map fun i => keyResolve fkv tkv (.at i)).Perm
      (((msTLeft amk fkv tkv).filter fun j => hasEqIn (tkv.getD j dkv) (msFLeft amk fkv tkv) fkv).map Ix.at) := by
  cases amk
  · -- no automatic key matching: everything is still unmatched
    have hF : msFLeft false fkv tkv = List.range fkv.length := by simp [msFLeft, msAuto]
    have hT : msTLeft false fkv tkv = List.range tkv.length := by simp [msTLeft, msAuto]
    have hres : ∀ i ∈ msToMatch false fkv tkv,
        keyResolve fkv tkv (.at i) = Ix.at ((findKey (fkv.getD i dkv).1 tkv 0).getD 0) ∧
          (findKey (fkv.getD i dkv).1 tkv 0).isSome = true := by
      intro i hi
      simp only [msToMatch, hF, hT, List.mem_filter, List.mem_range, hasEqIn_iff] at hi
      obtain ⟨hi, j, hj, he⟩ := hi
      have hk := kvEq_key he
      rw [getD_key hj] at hk
      have hf : findKey (fkv.getD i dkv).1 tkv 0 = some j := by rw [hk]; exact (findKey_iff hdt).2 ⟨hj, rfl⟩
      simp only [keyResolve, List.getElem?_eq_getElem hi]
      rw [getD_key hi] at hf
      simp [getD_key hi, hf]
    have e1 : (msToMatch false fkv tkv).map (fun i => keyResolve fkv tkv (.at i)) =
        ((msToMatch false fkv tkv).filterMap fun i => findKey (fkv.getD i dkv).1 tkv 0).map Ix.at := by
      rw [filterMap_eq_map_filter _ 0, List.map_map]
      have : (msToMatch false fkv tkv).filter (fun i => (findKey (fkv.getD i dkv).1 tkv 0).isSome) = msToMatch false fkv tkv :=
        List.filter_eq_self.2 (fun i hi => (hres i hi).2)
      rw [this]
      exact List.map_congr_left (fun i hi => (hres i hi).1)
    rw [e1]
    refine List.Perm.map _ ?_
    have hnd : (msToMatch false fkv tkv).Nodup := by
      simp only [msToMatch, hF]
      exact List.Nodup.sublist List.filter_sublist List.nodup_range
    rw [List.perm_ext_iff_of_nodup (hits_nodup fkv tkv hdf _ hnd (fun i hi => by
        simp only [msToMatch, hF, List.mem_filter, List.mem_range] at hi; exact hi.1))
      (List.Nodup.sublist List.filter_sublist (by rw [hT]; exact List.nodup_range))]
    intro j
    simp only [List.mem_filterMap, msToMatch, hF, hT, List.mem_filter, List.mem_range, hasEqIn_iff]
    constructor
    · rintro ⟨i, ⟨hi, j', hj', he⟩, hf⟩
      obtain ⟨hj, hkj⟩ := (findKey_iff hdt).1 hf
      have hk := kvEq_key he
      rw [getD_key hj'] at hk
      have : j' = j := keys_inj hdt hj' hj (hk.symm.trans hkj.symm)
      subst this
      exact ⟨hj', i, hi, by rw [← hsym i j' hi hj']; exact he⟩
    · rintro ⟨hj, i, hi, he⟩
      have he' : kvEq (fkv.getD i dkv) (tkv.getD j dkv) = true := by rw [hsym i j hi hj]; exact he
      refine ⟨i, ⟨hi, j, hj, he'⟩, ?_⟩
      have hk := kvEq_key he'
      rw [getD_key hj] at hk
      rw [hk]; exact (findKey_iff hdt).2 ⟨hj, rfl⟩
  · -- automatic key matching took every shared key: nothing is left to identify
    have h1 : msToMatch true fkv tkv = [] := by
      simp only [msToMatch, List.filter_eq_nil_iff, hasEqIn_iff, not_exists, not_and]
      intro i hi j hj he
      have hk := kvEq_key he
      rw [getD_key (tLeft_mem hj)] at hk
      exact (fLeft_mem hi).2 rfl (hk ▸ List.mem_map_of_mem (List.getElem_mem _))
    have h2 : ((msTLeft true fkv tkv).filter fun j => hasEqIn (tkv.getD j dkv) (msFLeft true fkv tkv) fkv) = [] := by
      simp only [List.filter_eq_nil_iff, hasEqIn_iff, not_exists, not_and]
      intro j hj i hi he
      have hk := kvEq_key he
      rw [getD_key (tLeft_mem hj)] at hk
      exact (fLeft_mem hi).2 rfl (hk ▸ List.mem_map_of_mem (List.getElem_mem _))
    rw [h1, h2]; exact List.Perm.refl _

theorem msScript_toIdx (amk : Bool) (orc : Oracle) (fp tp : List Nat) (fkv tkv : List (Str × Tree))
    (vtbl : List (List Script)) (hdf : (keys fkv).Nodup) (hdt : (keys tkv).Nodup) (hsym : KvSymm fkv tkv) :
    (toIdx (keyResolve fkv tkv) (msScript amk orc fp tp fkv tkv vtbl).subs).Perm (ixRange tkv.length) := by
  rw [msScript_subs]
  simp only [toIdx_append]
  rw [toIdx_map _ _ _ (fun i => keyResolve fkv tkv (.at i)) (fun i _ => ⟨by simp, by simp [toIxOf]⟩),
    toIdx_map _ (msAuto amk fkv tkv) _ (fun p => Ix.at p.2)
      (fun p _ => ⟨by simp [(msKvE_facts id fkv tkv vtbl _ _).1], (msKvE_facts _ fkv tkv vtbl _ _).2.2⟩),
    toIdx_map _ (msPairs amk orc fp tp fkv tkv) _ (fun p => Ix.at ((msToInsert amk fkv tkv).getD p.2 0))
      (fun p _ => ⟨by simp [(msKvE_facts id fkv tkv vtbl _ _).1], (msKvE_facts _ fkv tkv vtbl _ _).2.2⟩),
    toIdx_map_remove _ _ _ (fun _ _ => rfl),
    toIdx_map _ _ _ (fun b => Ix.at ((msToInsert amk fkv tkv).getD b 0)) (fun b _ => ⟨by simp, by simp [toIxOf]⟩),
    List.append_nil]
  have hP := sorted_lookup_pinj orc ((msToRemove amk fkv tkv).map fun i => fp ++ [i]) ((msToInsert amk fkv tkv).map fun j => tp ++ [j])
  simp only [List.length_map] at hP
  have h1 : (((msPairs amk orc fp tp fkv tkv).map Prod.snd) ++
      (List.range (msToInsert amk fkv tkv).length).filter fun b => !((msPairs amk orc fp tp fkv tkv).any (·.2 == b))).Perm
      (List.range (msToInsert amk fkv tkv).length) :=
    perm_compl _ _ _ hP.2.1 (fun x hx => by
      simp only [List.mem_map] at hx; obtain ⟨p, hp, rfl⟩ := hx; exact (hP.2.2 p hp).2)
      (fun j _ => any_snd_iff _ j)
  have h2 := ((h1.map (fun b => (msToInsert amk fkv tkv).getD b 0)).map Ix.at)
  rw [map_getD_range, List.map_append, List.map_map, List.map_append, List.map_map, List.map_map] at h2
  -- identified ++ toInsert = tLeft
  have h3 : (((msTLeft amk fkv tkv).filter fun j => hasEqIn (tkv.getD j dkv) (msFLeft amk fkv tkv) fkv).map Ix.at ++
      (msToInsert amk fkv tkv).map Ix.at).Perm ((msTLeft amk fkv tkv).map Ix.at) := by
    rw [← List.map_append]; exact (List.filter_append_perm _ _).map _
  have h4 : (((msAuto amk fkv tkv).map Prod.snd).map Ix.at ++ (msTLeft amk fkv tkv).map Ix.at).Perm (ixRange tkv.length) := by
    rw [← List.map_append]
    refine (perm_compl _ _ _ ?_ ?_ (fun j _ => any_snd_iff _ j)).map _
    · rw [msAuto_snd]; split
      · exact fkHits_nodup fkv tkv hdf
      · simp
    · intro x hx
      simp only [List.mem_map] at hx
      obtain ⟨p, hp, rfl⟩ := hx
      exact findKey_lt (msAuto_mem hp).2.2
  refine List.Perm.trans ?_ h4
  refine List.Perm.trans ?_ (List.Perm.append_left _ h3)
  refine List.Perm.trans ?_ (List.Perm.append_left _ (List.Perm.append_right _ (ms_same_perm amk fkv tkv hdf hdt hsym)))
  rw [List.append_assoc, List.append_assoc]
  refine List.Perm.trans (List.Perm.append_left _ (List.Perm.append_left _ h2)) ?_
  simp only [List.map_map]
  exact perm_swap3 _ _ _

end GtModel

/-
  C01, second sentence: "discarding everything marked inserted reproduces the first document and discarding
  everything marked removed reproduces the second" — for WHOLE documents.

  `projectFrom a b s` / `projectTo a b s` rebuild a document from the edit script `s`:
    * the container TYPE of every level comes from the kind of the compound edit (`ed`/`fixed` → list, `ms` → DictNode,
      `fk` → FixedKeyDictNode, `kvp` → key/value pair, `str` → string), see `assemble`;
    * the children of every level are the sub-edits in SCRIPT order, without the insertions (resp. removals);
    * a sub-edit that has sub-edits itself is projected recursively;
    * a sub-edit without sub-edits (Match, Replace, Remove, Insert) stands for ONE whole node, which the script names
      only by its index (the model's scripts carry indices and costs, no values): the node is looked up by that
      index among the children of the node the parent edit relates (`a` for `fi`, `b` for the to-index).
  The two documents are therefore used ONLY to look sub-values up by recorded index; nothing is compared with them and a
  script with a wrong / repeated / missing index, a wrong kind or a wrong order projects to a different document or to
  `none` (examples in Props/C01.lean).

  `Tree.Sim f' f`: `f'` is `f` up to the ORDER of the pairs of its mappings, at every depth (mappings are unordered:
  MultiSetEdit / FixedKeyDictNodeEdit list matched pairs first, then removals, then insertions).  Lists, strings, keys
  and leaves are related only to themselves.
-/
import GtModel.Proofs.EditsAccounts
namespace GtModel
open List

attribute [-simp] List.getD_eq_getElem?_getD

namespace C01

/-- the children named by a list of indices -/
def pick {α : Type} (l : List α) (ixs : List Ix) : List α :=
  ixs.filterMap fun ix => match ix with | .at i => l[i]? | _ => none

theorem filterMap_getElem?_range {α : Type} (l : List α) :
    (List.range l.length).filterMap (fun i => l[i]?) = l := by
  induction l with
  | nil => rfl
  | cons x xs ih => simp [List.range_succ_eq_map, List.filterMap_map, Function.comp_def, ih]

theorem pick_ixRange {α : Type} (l : List α) : pick l (ixRange l.length) = l := by
  simp only [pick, ixRange, List.filterMap_map]
  exact filterMap_getElem?_range l

end C01
open C01 (pick pick_ixRange)

/-! ### equal up to the order of the pairs of mappings -/

mutual
/-- `f'.Sim f`: same tree, except that the pairs of every mapping may come in another order -/
def Tree.Sim : Tree → Tree → Prop
  | .leaf a, t => t = .leaf a
  | .list as, t => ∃ bs, t = .list bs ∧ SimL as bs
  | .dict as, t => ∃ cs bs, t = .dict bs ∧ SimKV as cs ∧ cs.Perm bs
  | .fdict as, t => ∃ cs bs, t = .fdict bs ∧ SimKV as cs ∧ cs.Perm bs
/-- element-wise, in order -/
def SimL : List Tree → List Tree → Prop
  | [], bs => bs = []
  | a :: as, bs => ∃ b bs', bs = b :: bs' ∧ a.Sim b ∧ SimL as bs'
/-- pair-wise, in order: same key, related values -/
def SimKV : List (Str × Tree) → List (Str × Tree) → Prop
  | [], bs => bs = []
  | (k, v) :: as, bs => ∃ w bs', bs = (k, w) :: bs' ∧ v.Sim w ∧ SimKV as bs'
end

mutual
theorem Tree.Sim.refl : ∀ t : Tree, t.Sim t
  | .leaf _ => by simp [Tree.Sim]
  | .list as => by simp only [Tree.Sim]; exact ⟨as, rfl, SimL.refl as⟩
  | .dict as => by simp only [Tree.Sim]; exact ⟨as, as, rfl, SimKV.refl as, List.Perm.refl _⟩
  | .fdict as => by simp only [Tree.Sim]; exact ⟨as, as, rfl, SimKV.refl as, List.Perm.refl _⟩
theorem SimL.refl : ∀ as : List Tree, SimL as as
  | [] => by simp [SimL]
  | a :: as => by simp only [SimL]; exact ⟨a, as, rfl, Tree.Sim.refl a, SimL.refl as⟩
theorem SimKV.refl : ∀ as : List (Str × Tree), SimKV as as
  | [] => by simp [SimKV]
  | (k, v) :: as => by simp only [SimKV]; exact ⟨v, as, rfl, Tree.Sim.refl v, SimKV.refl as⟩
end

/-- nodes of a walk: trees up to mapping order, pairs with the same key, the same character -/
def Nd.Sim : Nd → Nd → Prop
  | .tree a, .tree b => a.Sim b
  | .kv k v, .kv k' w => k = k' ∧ v.Sim w
  | .chr c, .chr d => c = d
  | _, _ => False

def Nd.SimL : List Nd → List Nd → Prop
  | [], [] => True
  | x :: xs, y :: ys => x.Sim y ∧ Nd.SimL xs ys
  | _, _ => False

theorem Nd.Sim.refl : ∀ a : Nd, a.Sim a
  | .tree t => Tree.Sim.refl t
  | .kv _ v => ⟨rfl, Tree.Sim.refl v⟩
  | .chr _ => rfl

/-! ### the two projections -/

def Nd.asTree : Nd → Option Tree | .tree t => some t | _ => none
def Nd.asKv : Nd → Option (Str × Tree) | .kv k v => some (k, v) | _ => none
def Nd.asChr : Nd → Option Nat | .chr c => some c | _ => none

/-- all-or-nothing `map` -/
def allSome {α β : Type} (f : α → Option β) : List α → Option (List β)
  | [] => some []
  | x :: xs => match f x, allSome f xs with
    | some y, some ys => some (y :: ys)
    | _, _ => none

/-- the node a compound edit of kind `k` stands for, given the children that survive the projection:
    the container type is read off the edit's kind, never off a document -/
def assemble : Kind → List Nd → Option Nd
  | .ed, cs => (allSome Nd.asTree cs).map fun l => .tree (.list l)
  | .fixed, cs => (allSome Nd.asTree cs).map fun l => .tree (.list l)
  | .ms, cs => (allSome Nd.asKv cs).map fun l => .tree (.dict l)
  | .fk, cs => (allSome Nd.asKv cs).map fun l => .tree (.fdict l)
  | .str, cs => (allSome Nd.asChr cs).map fun l => .tree (.leaf (.str l))
  | .kvp, [.tree (.leaf (.str k)), .tree v] => some (.kv k v)
  | _, _ => none

mutual
/-- discard everything marked inserted: what the script `s` (an edit of node `a` into node `b`) leaves of the FIRST
    document.  An edit without sub-edits stands for its from-node as a whole. -/
def projectFrom : Nd → Nd → Script → Option Nd
  | a, b, .mk k _ _ _ subs =>
      if k.hasSubs then (projectFromL a b subs).bind (assemble k) else some a
/-- the surviving from-children of the sub-edits of an edit of `a` into `b`, in script order -/
def projectFromL : Nd → Nd → List Script → Option (List Nd)
  | _, _, [] => some []
  | a, b, s :: rest =>
      if s.kind = .insert then projectFromL a b rest          -- marked inserted: discarded
      else
        match s.fi with
        | .at i =>
          match a.children[i]? with
          | some x =>
            let px : Option Nd :=
              if s.kind.hasSubs then
                match toIxOf (resolveSame a b) s with
                | .at j => match b.children[j]? with
                  | some y => projectFrom x y s
                  | none => none
                | _ => none
              else some x
            match px, projectFromL a b rest with
            | some x', some xs => some (x' :: xs)
            | _, _ => none
          | none => none
        | _ => none
end

mutual
/-- discard everything marked removed: what the script leaves of the SECOND document.  An edit without sub-edits
    stands for its to-node as a whole. -/
def projectTo : Nd → Nd → Script → Option Nd
  | a, b, .mk k _ _ _ subs =>
      if k.hasSubs then (projectToL a b subs).bind (assemble k) else some b
/-- the surviving to-children of the sub-edits of an edit of `a` into `b`, in script order -/
def projectToL : Nd → Nd → List Script → Option (List Nd)
  | _, _, [] => some []
  | a, b, s :: rest =>
      if s.kind = .remove then projectToL a b rest            -- marked removed: discarded
      else
        match toIxOf (resolveSame a b) s with
        | .at j =>
          match b.children[j]? with
          | some y =>
            let py : Option Nd :=
              if s.kind.hasSubs then
                match s.fi with
                | .at i => match a.children[i]? with
                  | some x => projectTo x y s
                  | none => none
                | _ => none
              else some y
            match py, projectToL a b rest with
            | some y', some ys => some (y' :: ys)
            | _, _ => none
          | none => none
        | _ => none
end

/-! ### lemmas on `pick`, `allSome`, `assemble` -/

theorem fromIdx_cons' (s : Script) (rest : List Script) :
    fromIdx (s :: rest) = if s.kind = .insert then fromIdx rest else s.fi :: fromIdx rest := by
  by_cases h : s.kind = .insert <;> simp [fromIdx, h]

theorem toIdx_cons' (r : Ix → Ix) (s : Script) (rest : List Script) :
    toIdx r (s :: rest) = if s.kind = .remove then toIdx r rest else toIxOf r s :: toIdx r rest := by
  by_cases h : s.kind = .remove <;> simp [toIdx, h]

theorem pick_cons_some {α : Type} (l : List α) (i : Nat) (x : α) (ixs : List Ix) (h : l[i]? = some x) :
    pick l (.at i :: ixs) = x :: pick l ixs := by
  simp [pick, h]

theorem pick_map {α β : Type} (f : α → β) (l : List α) (ixs : List Ix) :
    pick (l.map f) ixs = (pick l ixs).map f := by
  simp only [pick, List.map_filterMap]
  congr 1; funext ix; cases ix <;> simp

theorem pick_perm' {α : Type} (l : List α) {ixs : List Ix} (h : ixs.Perm (ixRange l.length)) : (pick l ixs).Perm l := by
  have := h.filterMap (fun ix => match ix with | .at i => l[i]? | _ => none)
  rw [show List.filterMap _ (ixRange l.length) = pick l (ixRange l.length) from rfl, pick_ixRange] at this
  exact this

theorem mem_ixRange' {i n : Nat} : Ix.at i ∈ ixRange n ↔ i < n := by
  simp [ixRange]

theorem fi_mem_fromIdx' {s : Script} {subs : List Script} (hs : s ∈ subs) (hk : s.kind ≠ .insert) :
    s.fi ∈ fromIdx subs := by
  simp only [fromIdx, List.mem_map, List.mem_filter]
  exact ⟨s, ⟨hs, by simpa using hk⟩, rfl⟩

theorem toIx_mem_toIdx' (r : Ix → Ix) {s : Script} {subs : List Script} (hs : s ∈ subs) (hk : s.kind ≠ .remove) :
    toIxOf r s ∈ toIdx r subs := by
  simp only [toIdx, List.mem_map, List.mem_filter]
  exact ⟨s, ⟨hs, by simpa using hk⟩, rfl⟩

theorem mem_ixRange_of {ix : Ix} {n : Nat} (h : ix ∈ ixRange n) : ∃ i, ix = .at i ∧ i < n := by
  simp only [ixRange, List.mem_map, List.mem_range] at h
  obtain ⟨i, hi, rfl⟩ := h
  exact ⟨i, rfl, hi⟩

/-- survivors related to tree children are tree nodes -/
theorem simL_trees : ∀ (cs : List Nd) (as : List Tree), Nd.SimL cs (as.map .tree) →
    ∃ ts, allSome Nd.asTree cs = some ts ∧ SimL ts as
  | [], [], _ => ⟨[], rfl, by simp [SimL]⟩
  | [], _ :: _, h => by simp [Nd.SimL] at h
  | _ :: _, [], h => by simp [Nd.SimL] at h
  | c :: cs, a :: as, h => by
    simp only [List.map_cons, Nd.SimL] at h
    obtain ⟨ts, h1, h2⟩ := simL_trees cs as h.2
    cases c with
    | tree t =>
      refine ⟨t :: ts, by simp [allSome, Nd.asTree, h1], ?_⟩
      simp only [SimL]; exact ⟨a, as, rfl, h.1, h2⟩
    | kv k v => exact absurd h.1 (by simp [Nd.Sim])
    | chr c => exact absurd h.1 (by simp [Nd.Sim])

theorem simL_kvs : ∀ (cs : List Nd) (as : List (Str × Tree)), Nd.SimL cs (as.map fun kv => .kv kv.1 kv.2) →
    ∃ ts, allSome Nd.asKv cs = some ts ∧ SimKV ts as
  | [], [], _ => ⟨[], rfl, by simp [SimKV]⟩
  | [], _ :: _, h => by simp [Nd.SimL] at h
  | _ :: _, [], h => by simp [Nd.SimL] at h
  | c :: cs, (k, v) :: as, h => by
    simp only [List.map_cons, Nd.SimL] at h
    obtain ⟨ts, h1, h2⟩ := simL_kvs cs as h.2
    cases c with
    | kv k' w =>
      obtain ⟨rfl, hw⟩ := h.1
      refine ⟨(k', w) :: ts, by simp [allSome, Nd.asKv, h1], ?_⟩
      simp only [SimKV]; exact ⟨v, as, rfl, hw, h2⟩
    | tree t => exact absurd h.1 (by simp [Nd.Sim])
    | chr c => exact absurd h.1 (by simp [Nd.Sim])

theorem simL_chrs : ∀ (cs : List Nd) (as : List Nat), Nd.SimL cs (as.map .chr) → allSome Nd.asChr cs = some as
  | [], [], _ => rfl
  | [], _ :: _, h => by simp [Nd.SimL] at h
  | _ :: _, [], h => by simp [Nd.SimL] at h
  | c :: cs, a :: as, h => by
    simp only [List.map_cons, Nd.SimL] at h
    have h1 := simL_chrs cs as h.2
    cases c with
    | chr c => obtain rfl : c = a := h.1; simp [allSome, Nd.asChr, h1]
    | tree t => exact absurd h.1 (by simp [Nd.Sim])
    | kv k v => exact absurd h.1 (by simp [Nd.Sim])

theorem Tree.Sim.of_leaf {t : Tree} {a : Scalar} (h : t.Sim (.leaf a)) : t = .leaf a := by
  cases t with
  | leaf b => simp only [Tree.Sim] at h; exact h.symm
  | list as => simp [Tree.Sim] at h
  | dict as => simp [Tree.Sim] at h
  | fdict as => simp [Tree.Sim] at h

theorem kindFits_inv {k : Kind} {a b : Nd} (h : kindFits k a b) :
    (k = .kvp ∧ ∃ k1 v1 k2 v2, a = .kv k1 v1 ∧ b = .kv k2 v2) ∨
    ((k = .fixed ∨ k = .ed) ∧ ∃ as bs, a = .tree (.list as) ∧ b = .tree (.list bs)) ∨
    (k = .ms ∧ ∃ as bs, a = .tree (.dict as) ∧ b = .tree (.dict bs)) ∨
    (k = .fk ∧ ∃ as bs, a = .tree (.fdict as) ∧ b = .tree (.fdict bs)) ∨
    (k = .str ∧ ∃ s s', a = .tree (.leaf (.str s)) ∧ b = .tree (.leaf (.str s'))) := by
  unfold kindFits at h
  split at h <;> simp_all

theorem kindFits_swap {k : Kind} {a b : Nd} (h : kindFits k a b) : kindFits k b a := by
  rcases kindFits_inv h with ⟨rfl, k1, v1, k2, v2, rfl, rfl⟩ | ⟨hk', as, bs, rfl, rfl⟩ | ⟨rfl, as, bs, rfl, rfl⟩ |
    ⟨rfl, as, bs, rfl, rfl⟩ | ⟨rfl, s, s', rfl, rfl⟩
  · trivial
  · rcases hk' with rfl | rfl <;> trivial
  · trivial
  · trivial
  · trivial

/-- assembling survivors that are related to the children a compound edit accounts for (all of them, in order / up to a
    permutation for mappings) gives a node related to the node the edit is about -/
theorem assemble_sim (k : Kind) (a b : Nd) (cs : List Nd) (ixs : List Ix) (hk : kindFits k a b)
    (hc : Nd.SimL cs (pick a.children ixs))
    (hix : if k.ordered then ixs = ixRange a.children.length else ixs.Perm (ixRange a.children.length)) :
    ∃ a', assemble k cs = some a' ∧ a'.Sim a := by
  rcases kindFits_inv hk with ⟨rfl, k1, v1, k2, v2, rfl, rfl⟩ | ⟨hk', as, bs, rfl, rfl⟩ | ⟨rfl, as, bs, rfl, rfl⟩ |
    ⟨rfl, as, bs, rfl, rfl⟩ | ⟨rfl, s, s', rfl, rfl⟩
  · simp only [Kind.ordered, if_true] at hix
    subst hix
    rw [pick_ixRange] at hc
    simp only [Nd.children] at hc
    match cs, hc with
    | [x, y], hc =>
      simp only [Nd.SimL] at hc
      obtain ⟨hx, hy, -⟩ := hc
      cases x with
      | tree tx =>
        cases y with
        | tree ty =>
          have := Tree.Sim.of_leaf hx
          subst this
          exact ⟨_, rfl, rfl, hy⟩
        | kv _ _ => exact absurd hy (by simp [Nd.Sim])
        | chr _ => exact absurd hy (by simp [Nd.Sim])
      | kv _ _ => exact absurd hx (by simp [Nd.Sim])
      | chr _ => exact absurd hx (by simp [Nd.Sim])
  · have ho : k.ordered = true := by rcases hk' with rfl | rfl <;> rfl
    simp only [ho, if_true] at hix
    subst hix
    rw [pick_ixRange] at hc
    simp only [Nd.children] at hc
    obtain ⟨ts, h1, h2⟩ := simL_trees cs as hc
    refine ⟨.tree (.list ts), ?_, ?_⟩
    · rcases hk' with rfl | rfl <;> simp [assemble, h1]
    · simp only [Nd.Sim, Tree.Sim]; exact ⟨as, rfl, h2⟩
  · simp only [Kind.ordered, Bool.false_eq_true, if_false, Nd.children_dict] at hix
    simp only [Nd.children, pick_map] at hc
    obtain ⟨ts, h1, h2⟩ := simL_kvs cs _ hc
    refine ⟨.tree (.dict ts), by simp [assemble, h1], ?_⟩
    simp only [Nd.Sim, Tree.Sim]
    exact ⟨_, as, rfl, h2, pick_perm' as hix⟩
  · simp only [Kind.ordered, Bool.false_eq_true, if_false, Nd.children_fdict] at hix
    simp only [Nd.children, pick_map] at hc
    obtain ⟨ts, h1, h2⟩ := simL_kvs cs _ hc
    refine ⟨.tree (.fdict ts), by simp [assemble, h1], ?_⟩
    simp only [Nd.Sim, Tree.Sim]
    exact ⟨_, as, rfl, h2, pick_perm' as hix⟩
  · simp only [Kind.ordered, if_true] at hix
    subst hix
    rw [pick_ixRange] at hc
    simp only [Nd.children] at hc
    have h1 := simL_chrs cs s hc
    exact ⟨.tree (.leaf (.str s)), by simp [assemble, h1], by simp [Nd.Sim, Tree.Sim]⟩

/-! ### the projections of a script that accounts for both documents -/

/-- the from-side indices of the sub-edits (insertions aside) name children of `a` -/
def FromIn (a : Nd) (subs : List Script) : Prop :=
  ∀ s ∈ subs, s.kind ≠ .insert → ∃ i, s.fi = .at i ∧ i < a.children.length

/-- the to-side indices of the sub-edits (removals aside) name children of `b` -/
def ToIn (a b : Nd) (subs : List Script) : Prop :=
  ∀ s ∈ subs, s.kind ≠ .remove → ∃ j, toIxOf (resolveSame a b) s = .at j ∧ j < b.children.length

theorem localAcc_fromIn {a b : Nd} {k : Kind} {subs : List Script} (h : LocalAcc a b k subs) (hk : k.hasSubs = true) :
    FromIn a subs := by
  obtain ⟨_, hix⟩ := h hk
  intro s hs hne
  have hm := fi_mem_fromIdx' hs hne
  have : s.fi ∈ ixRange a.children.length := by
    split at hix
    · rw [← hix.1]; exact hm
    · exact hix.1.mem_iff.1 hm
  exact mem_ixRange_of this

theorem localAcc_toIn {a b : Nd} {k : Kind} {subs : List Script} (h : LocalAcc a b k subs) (hk : k.hasSubs = true) :
    ToIn a b subs := by
  obtain ⟨_, hix⟩ := h hk
  intro s hs hne
  have hm := toIx_mem_toIdx' (resolveSame a b) hs hne
  have : toIxOf (resolveSame a b) s ∈ ixRange b.children.length := by
    split at hix
    · rw [← hix.2]; exact hm
    · exact hix.2.mem_iff.1 hm
  exact mem_ixRange_of this

mutual
theorem projectFrom_ok : ∀ (a b : Nd) (s : Script), Walk LocalAcc a b s → ∃ a', projectFrom a b s = some a' ∧ a'.Sim a
  | a, b, .mk k fi ti c subs, h => by
    simp only [Walk] at h
    obtain ⟨hl, hw⟩ := h
    simp only [projectFrom]
    by_cases hk : k.hasSubs = true
    · simp only [hk, if_true]
      obtain ⟨cs, h1, h2⟩ := projectFromL_ok a b subs hw (localAcc_fromIn hl hk)
      obtain ⟨hfit, hix⟩ := hl hk
      obtain ⟨a', h3, h4⟩ := assemble_sim k a b cs (fromIdx subs) hfit h2
        (by split at hix <;> simp only [*, if_true, if_false, Bool.false_eq_true] <;> exact hix.1)
      exact ⟨a', by simp [h1, h3], h4⟩
    · simp only [hk]; exact ⟨a, rfl, Nd.Sim.refl a⟩
theorem projectFromL_ok : ∀ (a b : Nd) (subs : List Script), WalkL LocalAcc a b subs → FromIn a subs →
    ∃ cs, projectFromL a b subs = some cs ∧ Nd.SimL cs (pick a.children (fromIdx subs))
  | a, b, [], _, _ => ⟨[], rfl, by simp [fromIdx, pick, Nd.SimL]⟩
  | a, b, s :: rest, h, hin => by
    simp only [WalkL] at h
    obtain ⟨hs, hrest⟩ := h
    obtain ⟨cs, h1, h2⟩ := projectFromL_ok a b rest hrest (fun s' hs' => hin s' (by simp [hs']))
    rw [fromIdx_cons']
    by_cases hk : s.kind = .insert
    · simp only [projectFromL, hk, if_true]; exact ⟨cs, h1, h2⟩
    · obtain ⟨i, hi, hlt⟩ := hin s (by simp) hk
      have hx : a.children[i]? = some a.children[i] := by simp [hlt]
      simp only [projectFromL, hk, if_false, hi, hx]
      rw [pick_cons_some _ _ _ _ hx]
      by_cases hsub : s.kind.hasSubs = true
      · obtain ⟨i', j, x, y, e1, e2, e3, e4, hwalk⟩ := hs hsub
        have hii : i' = i := by rw [hi] at e1; injection e1 with e; exact e.symm
        subst hii
        rw [hx] at e3
        injection e3 with e3
        subst e3
        obtain ⟨x', p1, p2⟩ := projectFrom_ok _ y s hwalk
        simp only [hsub, if_true, e2, e4, p1, h1]
        exact ⟨x' :: cs, rfl, by simp only [Nd.SimL]; exact ⟨p2, h2⟩⟩
      · simp only [hsub, h1]
        exact ⟨a.children[i] :: cs, rfl, by simp only [Nd.SimL]; exact ⟨Nd.Sim.refl _, h2⟩⟩
end

mutual
theorem projectTo_ok : ∀ (a b : Nd) (s : Script), Walk LocalAcc a b s → ∃ b', projectTo a b s = some b' ∧ b'.Sim b
  | a, b, .mk k fi ti c subs, h => by
    simp only [Walk] at h
    obtain ⟨hl, hw⟩ := h
    simp only [projectTo]
    by_cases hk : k.hasSubs = true
    · simp only [hk, if_true]
      obtain ⟨cs, h1, h2⟩ := projectToL_ok a b subs hw (localAcc_toIn hl hk)
      obtain ⟨hfit, hix⟩ := hl hk
      obtain ⟨b', h3, h4⟩ := assemble_sim k b a cs (toIdx (resolveSame a b) subs) (kindFits_swap hfit) h2
        (by split at hix <;> simp only [*, if_true, if_false, Bool.false_eq_true] <;> exact hix.2)
      exact ⟨b', by simp [h1, h3], h4⟩
    · simp only [hk]; exact ⟨b, rfl, Nd.Sim.refl b⟩
theorem projectToL_ok : ∀ (a b : Nd) (subs : List Script), WalkL LocalAcc a b subs → ToIn a b subs →
    ∃ cs, projectToL a b subs = some cs ∧ Nd.SimL cs (pick b.children (toIdx (resolveSame a b) subs))
  | a, b, [], _, _ => ⟨[], rfl, by simp [toIdx, pick, Nd.SimL]⟩
  | a, b, s :: rest, h, hin => by
    simp only [WalkL] at h
    obtain ⟨hs, hrest⟩ := h
    obtain ⟨cs, h1, h2⟩ := projectToL_ok a b rest hrest (fun s' hs' => hin s' (by simp [hs']))
    rw [toIdx_cons']
    by_cases hk : s.kind = .remove
    · simp only [projectToL, hk, if_true]; exact ⟨cs, h1, h2⟩
    · obtain ⟨j, hj, hlt⟩ := hin s (by simp) hk
      have hy : b.children[j]? = some b.children[j] := by simp [hlt]
      simp only [projectToL, hk, if_false, hj, hy]
      rw [pick_cons_some _ _ _ _ hy]
      by_cases hsub : s.kind.hasSubs = true
      · obtain ⟨i, j', x, y, e1, e2, e3, e4, hwalk⟩ := hs hsub
        have hjj : j' = j := by rw [hj] at e2; injection e2 with e; exact e.symm
        subst hjj
        rw [hy] at e4
        injection e4 with e4
        subst e4
        obtain ⟨y', p1, p2⟩ := projectTo_ok x _ s hwalk
        simp only [hsub, if_true, e1, e3, p1, h1]
        exact ⟨y' :: cs, rfl, by simp only [Nd.SimL]; exact ⟨p2, h2⟩⟩
      · simp only [hsub, h1]
        exact ⟨b.children[j] :: cs, rfl, by simp only [Nd.SimL]; exact ⟨Nd.Sim.refl _, h2⟩⟩
end

end GtModel

/-
  Walking a script together with the two documents it relates: `Walk P a b s` states `P` for the node pair (a, b) and
  the root of `s`, and recursively for every sub-edit with sub-edits, linked to the children its indices name.
  `walk_edits`: to prove `Walk P` for `edits …` it suffices to prove `P` for each node kind separately.
-/
import GtModel.Proofs.EditsPerm
namespace GtModel
open List
open GtModel.EditMatrix

attribute [-simp] List.getD_eq_getElem?_getD

/-- the things an edit can relate: tree nodes, key/value pairs of a mapping, characters of a string -/
inductive Nd where
  | tree (t : Tree)
  | kv (k : Str) (v : Tree)
  | chr (c : Nat)

def Nd.children : Nd → List Nd
  | .tree (.leaf (.str s)) => s.map .chr
  | .tree (.leaf _) => []
  | .tree (.list cs) => cs.map .tree
  | .tree (.dict kvs) => kvs.map fun kv => .kv kv.1 kv.2
  | .tree (.fdict kvs) => kvs.map fun kv => .kv kv.1 kv.2
  | .kv k v => [.tree (.leaf (.str k)), .tree v]
  | .chr _ => []

/-- resolution of identity matches (`ti = same`): only `MultiSetEdit` (two `DictNode`s) emits them -/
def resolveSame : Nd → Nd → Ix → Ix
  | .tree (.dict fkv), .tree (.dict tkv), ix => keyResolve fkv tkv ix
  | _, _, _ => .none

mutual
def Walk (P : Nd → Nd → Kind → List Script → Prop) : Nd → Nd → Script → Prop
  | a, b, .mk k _ _ _ subs => P a b k subs ∧ WalkL P a b subs
def WalkL (P : Nd → Nd → Kind → List Script → Prop) : Nd → Nd → List Script → Prop
  | _, _, [] => True
  | a, b, s :: rest =>
      (s.kind.hasSubs = true → ∃ i j x y, s.fi = .at i ∧ toIxOf (resolveSame a b) s = .at j ∧
          a.children[i]? = some x ∧ b.children[j]? = some y ∧ Walk P x y s)
        ∧ WalkL P a b rest
end

variable {P : Nd → Nd → Kind → List Script → Prop}

theorem walk_iff (a b : Nd) (s : Script) : Walk P a b s ↔ P a b s.kind s.subs ∧ WalkL P a b s.subs := by
  cases s; simp [Walk]

theorem walkL_iff (a b : Nd) (l : List Script) : WalkL P a b l ↔ ∀ s ∈ l, s.kind.hasSubs = true →
    ∃ i j x y, s.fi = .at i ∧ toIxOf (resolveSame a b) s = .at j ∧
      a.children[i]? = some x ∧ b.children[j]? = some y ∧ Walk P x y s := by
  induction l with
  | nil => simp [WalkL]
  | cons s l ih => simp [WalkL, ih]

theorem walk_relabel (a b : Nd) (s : Script) (f t : Ix) : Walk P a b (s.relabel f t) ↔ Walk P a b s := by
  rw [walk_iff, walk_iff]; simp

theorem walk_leafKind (a b : Nd) (s : Script) (hs : s.subs = []) : Walk P a b s ↔ P a b s.kind [] := by
  rw [walk_iff, hs]; simp [WalkL]

/-- sub-edits without sub-edits need no linking -/
theorem walkL_of_flat (a b : Nd) (l : List Script) (h : ∀ s ∈ l, s.kind.hasSubs = false) : WalkL P a b l := by
  rw [walkL_iff]; intro s hs hk; rw [h s hs] at hk; cases hk

theorem strSubs_flat (a b : Str) : ∀ s ∈ (strSubs a b).1, s.kind.hasSubs = false := by
  intro s hs
  simp only [strSubs, List.mem_append, List.mem_map] at hs
  rcases hs with (⟨k, _, rfl⟩ | ⟨⟨m, r, c⟩, _, rfl⟩) | ⟨k, _, rfl⟩
  · rfl
  · cases m <;> rfl
  · rfl

theorem strEdits_subs_flat (a b : Str) : ∀ s ∈ (strEdits a b).subs, s.kind.hasSubs = false := by
  unfold strEdits
  split
  · simp
  · split
    · simp
    · exact strSubs_flat a b

theorem leafEdits_subs_flat (a : Scalar) (t : Tree) : ∀ s ∈ (leafEdits a t).subs, s.kind.hasSubs = false := by
  unfold leafEdits
  split <;> first | exact strEdits_subs_flat _ _ | simp [leafLeaf]

/-! ### distinct keys (true of every tree built from a Python `dict`) -/

mutual
def Tree.keysDistinct : Tree → Bool
  | .leaf _ => true
  | .list cs => kdL cs
  | .dict kvs => decide ((kvs.map Prod.fst).Nodup) && kdKV kvs
  | .fdict kvs => decide ((kvs.map Prod.fst).Nodup) && kdKV kvs
def kdL : List Tree → Bool
  | [] => true
  | c :: cs => c.keysDistinct && kdL cs
def kdKV : List (Str × Tree) → Bool
  | [] => true
  | (_, v) :: rest => v.keysDistinct && kdKV rest
end

/-- `Tree.KeysDistinct`: within every mapping of the tree, no key occurs twice -/
abbrev Tree.KeysDistinct (t : Tree) : Prop := t.keysDistinct = true

theorem kdL_iff (cs : List Tree) : kdL cs = true ↔ ∀ c ∈ cs, c.KeysDistinct := by
  induction cs with
  | nil => simp [kdL]
  | cons c cs ih => simp [kdL, ih]

theorem kdKV_iff (kvs : List (Str × Tree)) : kdKV kvs = true ↔ ∀ kv ∈ kvs, kv.2.KeysDistinct := by
  induction kvs with
  | nil => simp [kdKV]
  | cons kv kvs ih => obtain ⟨k, v⟩ := kv; simp [kdKV, ih]

theorem kd_list (cs : List Tree) : (Tree.list cs).KeysDistinct ↔ ∀ c ∈ cs, c.KeysDistinct := by
  simp [Tree.KeysDistinct, Tree.keysDistinct, kdL_iff]
theorem kd_dict (kvs : List (Str × Tree)) :
    (Tree.dict kvs).KeysDistinct ↔ (keys kvs).Nodup ∧ ∀ kv ∈ kvs, kv.2.KeysDistinct := by
  simp [Tree.KeysDistinct, Tree.keysDistinct, kdKV_iff, keys]
theorem kd_fdict (kvs : List (Str × Tree)) :
    (Tree.fdict kvs).KeysDistinct ↔ (keys kvs).Nodup ∧ ∀ kv ∈ kvs, kv.2.KeysDistinct := by
  simp [Tree.KeysDistinct, Tree.keysDistinct, kdKV_iff, keys]

/-! ### the walk over `edits` -/

theorem toRemove_lt {amk : Bool} {fkv tkv : List (Str × Tree)} {a : Nat} (ha : a < (msToRemove amk fkv tkv).length) :
    (msToRemove amk fkv tkv).getD a 0 < fkv.length := by
  have e : (msToRemove amk fkv tkv).getD a 0 = (msToRemove amk fkv tkv)[a] := by simp [List.getD_eq_getElem?_getD, ha]
  have hm : (msToRemove amk fkv tkv)[a] ∈ msToRemove amk fkv tkv := List.getElem_mem ha
  rw [e]
  simp only [msToRemove, List.mem_filter] at hm
  exact (fLeft_mem hm.1).1

theorem toInsert_lt {amk : Bool} {fkv tkv : List (Str × Tree)} {b : Nat} (hb : b < (msToInsert amk fkv tkv).length) :
    (msToInsert amk fkv tkv).getD b 0 < tkv.length := by
  have e : (msToInsert amk fkv tkv).getD b 0 = (msToInsert amk fkv tkv)[b] := by simp [List.getD_eq_getElem?_getD, hb]
  have hm : (msToInsert amk fkv tkv)[b] ∈ msToInsert amk fkv tkv := List.getElem_mem hb
  rw [e]
  simp only [msToInsert, List.mem_filter] at hm
  exact tLeft_mem hm.1


/-- a property of trees inherited by children (`KeysDistinct`, "contains no DictNode", `True`, …) -/
structure TreeInv (Inv : Tree → Prop) : Prop where
  leaf : ∀ s, Inv (.leaf s)
  list : ∀ cs, Inv (.list cs) → ∀ c ∈ cs, Inv c
  dict : ∀ kvs, Inv (.dict kvs) → ∀ kv ∈ kvs, Inv kv.2
  fdict : ∀ kvs, Inv (.fdict kvs) → ∀ kv ∈ kvs, Inv kv.2

theorem treeInv_true : TreeInv (fun _ => True) := ⟨fun _ => trivial, fun _ _ _ _ => trivial, fun _ _ _ _ => trivial, fun _ _ _ _ => trivial⟩

theorem treeInv_kd : TreeInv Tree.KeysDistinct :=
  ⟨fun _ => rfl, fun cs h => (kd_list cs).1 h, fun kvs h => ((kd_dict kvs).1 h).2, fun kvs h => ((kd_fdict kvs).1 h).2⟩

section
variable (o : Opts) (orc : Oracle) {Inv : Tree → Prop} (hI : TreeInv Inv)
variable (hE : ∀ fp tp f t, Inv f → Inv t →
    P (.tree f) (.tree t) (edits o orc fp tp f t).kind (edits o orc fp tp f t).subs)
variable (hK : ∀ fp tp k v k' v', Inv v → Inv v' →
    P (.kv k v) (.kv k' v') .kvp (kvpScript k k' (v.eq v') (edits o orc fp tp v v')).subs)
include hI hE hK

omit hK in
theorem walk_leaf (fp tp : List Nat) (a : Scalar) (t : Tree) (ht : Inv t) :
    Walk P (.tree (.leaf a)) (.tree t) (edits o orc fp tp (.leaf a) t) := by
  rw [walk_iff]
  refine ⟨hE fp tp _ _ (hI.leaf _) ht, walkL_of_flat _ _ _ ?_⟩
  rw [edits_leaf]; exact leafEdits_subs_flat a t

theorem walk_kvp (fp tp : List Nat) (k k' : Str) (v v' : Tree) (hv : Inv v) (hv' : Inv v')
    (ih : Walk P (.tree v) (.tree v') (edits o orc fp tp v v')) :
    Walk P (.kv k v) (.kv k' v') (kvpScript k k' (v.eq v') (edits o orc fp tp v v')) := by
  rw [walk_iff]
  refine ⟨hK fp tp k v k' v' hv hv', ?_⟩
  rw [walkL_iff]
  intro s hs hsub
  simp only [kvpScript, mkCompound_subs, List.mem_cons, List.mem_nil_iff, or_false] at hs
  rcases hs with rfl | rfl
  · refine ⟨0, 0, .tree (.leaf (.str k)), .tree (.leaf (.str k')), rfl, ?_, rfl, rfl, ?_⟩
    · apply toIxOf_relabel_at
      split
      · simp
      · exact (Kind.isTop_ne (strEdits_kind_top _ _)).1
    · rw [walk_relabel]
      split
      · rename_i h; simp [h, Kind.hasSubs] at hsub
      · have := walk_leaf o orc hI hE [] [] (.str k) (.leaf (.str k')) (hI.leaf _)
        rw [edits_leaf] at this
        exact this
  · refine ⟨1, 1, .tree v, .tree v', rfl, ?_, rfl, rfl, ?_⟩
    · apply toIxOf_relabel_at
      split
      · simp
      · exact (Kind.isTop_ne (edits_kind_top ..)).1
    · rw [walk_relabel]
      split
      · rename_i h; simp [h, Kind.hasSubs] at hsub
      · exact ih

theorem walk_msKvE (fp tp : List Nat) (fkv tkv : List (Str × Tree)) (a b : Nd) (i j : Nat)
    (hi : i < fkv.length) (hj : j < tkv.length)
    (ha : a.children = fkv.map fun kv => .kv kv.1 kv.2) (hb : b.children = tkv.map fun kv => .kv kv.1 kv.2)
    (hv : Inv fkv[i].2) (hv' : Inv tkv[j].2)
    (ih : Walk P (.tree fkv[i].2) (.tree tkv[j].2) (edits o orc (fp ++ [i, 1]) (tp ++ [j, 1]) fkv[i].2 tkv[j].2)) :
    ∃ i' j' x y, (msKvE fkv tkv (kvTbl o orc fp tp fkv tkv) i j).fi = .at i' ∧
      toIxOf (resolveSame a b) (msKvE fkv tkv (kvTbl o orc fp tp fkv tkv) i j) = .at j' ∧
      a.children[i']? = some x ∧ b.children[j']? = some y ∧
      Walk P x y (msKvE fkv tkv (kvTbl o orc fp tp fkv tkv) i j) := by
  refine ⟨i, j, .kv fkv[i].1 fkv[i].2, .kv tkv[j].1 tkv[j].2, (msKvE_facts id _ _ _ _ _).2.1,
    (msKvE_facts _ _ _ _ _ _).2.2, by simp [ha, hi], by simp [hb, hj], ?_⟩
  simp only [msKvE, walk_relabel]
  have e1 : fkv.getD i dkv = fkv[i] := by simp [List.getD_eq_getElem?_getD, hi]
  have e2 : tkv.getD j dkv = tkv[j] := by simp [List.getD_eq_getElem?_getD, hj]
  rw [kvTbl_getD _ _ _ _ _ _ _ _ _ hi hj, e1, e2]
  exact walk_kvp o orc hI hE hK _ _ _ _ _ _ hv hv' ih

theorem walk_edits (f : Tree) : ∀ (fp tp : List Nat) (t : Tree), Inv f → Inv t →
    Walk P (.tree f) (.tree t) (edits o orc fp tp f t) := by
  induction f using Tree.ind with
  | leaf a => intro fp tp t _ ht; exact walk_leaf o orc hI hE fp tp a t ht
  | list fcs ih =>
    intro fp tp t hf ht
    rw [walk_iff]
    refine ⟨hE fp tp _ _ hf ht, ?_⟩
    by_cases htl : ∃ tcs, t = .list tcs
    · obtain ⟨tcs, rfl⟩ := htl
      have hf := hI.list _ hf
      have ht := hI.list _ ht
      have hT := listTbl_top o orc fp tp fcs tcs
      have hlink : ∀ i j, i < fcs.length → j < tcs.length →
          ∃ i' j' x y, ((((listTbl o orc fp tp fcs tcs).getD i []).getD j (mkMatch 0)).relabel (.at i) (.at j)).fi = .at i' ∧
            toIxOf (resolveSame (.tree (.list fcs)) (.tree (.list tcs)))
              ((((listTbl o orc fp tp fcs tcs).getD i []).getD j (mkMatch 0)).relabel (.at i) (.at j)) = .at j' ∧
            (Nd.tree (.list fcs)).children[i']? = some x ∧ (Nd.tree (.list tcs)).children[j']? = some y ∧
            Walk P x y ((((listTbl o orc fp tp fcs tcs).getD i []).getD j (mkMatch 0)).relabel (.at i) (.at j)) := by
        intro i j hi hj
        refine ⟨i, j, .tree fcs[i], .tree tcs[j], rfl, toIxOf_relabel_at _ _ _ _ (Kind.isTop_ne (hT i j)).1,
          by simp [Nd.children, hi], by simp [Nd.children, hj], ?_⟩
        rw [walk_relabel, listTbl_getD _ _ _ _ _ _ _ _ _ hi hj]
        exact ih _ (List.getElem_mem hi) _ _ _ (hf _ (List.getElem_mem hi)) (ht _ (List.getElem_mem hj))
      rw [edits_list_list]
      split
      · simp [WalkL]
      · split
        · rw [walkL_iff]
          intro s hs hsub
          simp only [fixedScript, mkCompound_subs, List.mem_append, List.mem_map, List.mem_range] at hs
          rcases hs with (⟨k, hk, rfl⟩ | ⟨k, _, rfl⟩) | ⟨k, _, rfl⟩
          · have h1 : fcs.length.min tcs.length ≤ fcs.length := Nat.min_le_left _ _
            have h2 : fcs.length.min tcs.length ≤ tcs.length := Nat.min_le_right _ _
            exact hlink k k (by omega) (by omega)
          · simp [Kind.hasSubs] at hsub
          · simp [Kind.hasSubs] at hsub
        · rw [walkL_iff]
          intro s hs hsub
          simp only [edScript, Script.subs_mk, List.mem_append, List.mem_map] at hs
          rcases hs with (⟨k, _, rfl⟩ | ⟨⟨m, r, c⟩, hm, rfl⟩) | ⟨k, _, rfl⟩
          · simp [Kind.hasSubs] at hsub
          · have hr := solve_located_inRange _ _ _ _ hm
            have hl := trimLens_le fcs tcs
            simp only [List.length_map, middle_length] at hr
            cases m
            · have h1 := hr.1 (by simp)
              have h2 := hr.2 (by simp)
              dsimp only
              exact hlink _ _ (by omega) (by omega)
            · simp [Kind.hasSubs] at hsub
            · simp [Kind.hasSubs] at hsub
          · simp [Kind.hasSubs] at hsub
    · rw [edits_list_other _ _ _ _ _ _ (fun tcs h => htl ⟨tcs, h⟩)]; simp [WalkL]
  | dict fkv ih =>
    intro fp tp t hf ht
    rw [walk_iff]
    refine ⟨hE fp tp _ _ hf ht, ?_⟩
    by_cases htl : ∃ tkv, t = .dict tkv
    · obtain ⟨tkv, rfl⟩ := htl
      have hf := hI.dict _ hf
      have ht := hI.dict _ ht
      have hlink : ∀ i j, i < fkv.length → j < tkv.length → _ := fun i j hi hj =>
        walk_msKvE o orc hI hE hK fp tp fkv tkv (.tree (.dict fkv)) (.tree (.dict tkv)) i j hi hj rfl rfl
          (hf _ (List.getElem_mem hi)) (ht _ (List.getElem_mem hj))
          (ih _ (List.getElem_mem hi) _ _ _ (hf _ (List.getElem_mem hi)) (ht _ (List.getElem_mem hj)))
      rw [edits_dict_dict]
      split
      · simp [WalkL]
      · rw [walkL_iff, msScript_subs]
        intro s hs hsub
        simp only [List.mem_append, List.mem_map] at hs
        rcases hs with (((⟨k, _, rfl⟩ | ⟨p, hp, rfl⟩) | ⟨p, hp, rfl⟩) | ⟨k, _, rfl⟩) | ⟨k, _, rfl⟩
        · simp [Kind.hasSubs] at hsub
        · have := msAuto_mem hp
          exact hlink _ _ this.2.1 (findKey_lt this.2.2)
        · have hP := sorted_lookup_pinj orc ((msToRemove o.amk fkv tkv).map fun i => fp ++ [i])
            ((msToInsert o.amk fkv tkv).map fun j => tp ++ [j])
          simp only [List.length_map] at hP
          have := hP.2.2 p hp
          exact hlink _ _ (toRemove_lt this.1) (toInsert_lt this.2)
        · simp [Kind.hasSubs] at hsub
        · simp [Kind.hasSubs] at hsub
    · rw [edits_dict_other _ _ _ _ _ _ (fun tkv h => htl ⟨tkv, h⟩)]; simp [WalkL]
  | fdict fkv ih =>
    intro fp tp t hf ht
    rw [walk_iff]
    refine ⟨hE fp tp _ _ hf ht, ?_⟩
    by_cases htl : ∃ tkv, t = .fdict tkv
    · obtain ⟨tkv, rfl⟩ := htl
      have hf := hI.fdict _ hf
      have ht := hI.fdict _ ht
      have hlink : ∀ i j, i < fkv.length → j < tkv.length → _ := fun i j hi hj =>
        walk_msKvE o orc hI hE hK fp tp fkv tkv (.tree (.fdict fkv)) (.tree (.fdict tkv)) i j hi hj rfl rfl
          (hf _ (List.getElem_mem hi)) (ht _ (List.getElem_mem hj))
          (ih _ (List.getElem_mem hi) _ _ _ (hf _ (List.getElem_mem hi)) (ht _ (List.getElem_mem hj)))
      rw [edits_fdict_fdict]
      split
      · simp [WalkL]
      · rw [walkL_iff, fkScript_subs]
        intro s hs hsub
        simp only [List.mem_append, List.mem_map, List.mem_filter, List.mem_range] at hs
        rcases hs with (⟨i, ⟨hi, hsome⟩, rfl⟩ | ⟨k, _, rfl⟩) | ⟨k, _, rfl⟩
        · obtain ⟨j, hj⟩ := Option.isSome_iff_exists.1 hsome
          simp only [hj, Option.getD_some] at hsub ⊢
          split at hsub
          · simp [Kind.hasSubs] at hsub
          · rename_i hne
            simp only [hne, Bool.false_eq_true, if_false]
            exact hlink i j hi (findKey_lt hj)
        · simp [Kind.hasSubs] at hsub
        · simp [Kind.hasSubs] at hsub
    · rw [edits_fdict_other _ _ _ _ _ _ (fun tkv h => htl ⟨tkv, h⟩)]; simp [WalkL]

end

end GtModel

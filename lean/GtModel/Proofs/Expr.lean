/-
  Invariant machinery for the L7 evaluator: a predicate on the evaluator's log that every monadic
  building block preserves, hence `eval` establishes it from the empty log.

  `R` constrains the attribute reads, `N` the resolved names.  The three side conditions are exactly the
  places where `Expression.eval` / `get_member` / `get_value` touch the log.
-/
import GtModel.Model.Expr

namespace GtModel.Expr

variable {σ Obj : Type}

/-- The log of a state satisfies `R` on every attribute read and `N` on every resolved name, and the host
    state satisfies `H` (a host-side invariant, `True` for the abstract theorems). -/
structure Inv (R : Read Obj → Prop) (N : String → Prop) (H : σ → Prop) (s : ES σ Obj) : Prop where
  reads : ∀ r ∈ s.reads, R r
  names : ∀ n ∈ s.resolved, N n
  host : H s.hs

/-- `m` preserves the log invariant, whatever it returns or raises. -/
def Pres (R : Read Obj → Prop) (N : String → Prop) (H : σ → Prop) {α : Type} (m : M σ Obj α) : Prop :=
  ∀ s, Inv R N H s → Inv R N H (m s).2

section Blocks
variable {R : Read Obj → Prop} {N : String → Prop} {H : σ → Prop} {α β : Type}

theorem Pres.pure (a : α) : Pres R N H (M.pure a : M σ Obj α) := fun _ h => h

theorem Pres.throw (e : Exc) : Pres R N H (M.throw e : M σ Obj α) := fun _ h => h

theorem Pres.bind {m : M σ Obj α} {f : α → M σ Obj β}
    (hm : Pres R N H m) (hf : ∀ a, Pres R N H (f a)) : Pres R N H (M.bind m f) := by
  intro s h
  have h1 := hm s h
  unfold M.bind
  split
  · rename_i a s' heq
    rw [heq] at h1
    exact hf a s' h1
  · rename_i e s' heq
    rw [heq] at h1
    exact h1

theorem Pres.lift {op : HRes σ α} (hop : ∀ t, H t → H (op t).2) : Pres R N H (M.lift op : M σ Obj α) := by
  intro s h
  unfold M.lift
  exact ⟨h.reads, h.names, hop s.hs h.host⟩

theorem Pres.logRead {o : Obj} {n : String} {g : Bool} (hr : R ⟨o, n, g⟩) :
    Pres R N H (M.logRead o n g : M σ Obj Unit) := by
  intro s h
  refine ⟨?_, h.names, h.host⟩
  intro r hr'
  simp only [M.logRead, List.mem_append, List.mem_singleton] at hr'
  rcases hr' with hr' | hr'
  · exact h.reads r hr'
  · rw [hr']; exact hr

theorem Pres.logResolved {n : String} (hn : N n) : Pres R N H (M.logResolved n : M σ Obj Unit) := by
  intro s h
  refine ⟨h.reads, ?_, h.host⟩
  intro m hm
  simp only [M.logResolved, List.mem_append, List.mem_singleton] at hm
  rcases hm with hm | hm
  · exact h.names m hm
  · rw [hm]; exact hn

end Blocks

section Evaluator
variable {R : Read Obj → Prop} {N : String → Prop} {H : σ → Prop}
variable (h : Host σ Obj) (locals globals : Env Obj)

/-- Every effectful host operation preserves the host-side invariant `H`. -/
structure HostOK (h : Host σ Obj) (H : σ → Prop) : Prop where
  getattr : ∀ a n t, H t → H (h.getattr a n t).2
  call : ∀ a b t, H t → H (h.call a b t).2
  getitem : ∀ a b t, H t → H (h.getitem a b t).2
  neg : ∀ a t, H t → H (h.neg a t).2
  inv : ∀ a t, H t → H (h.inv a t).2
  binop : ∀ s a b t, H t → H (h.binop s a b t).2
  truth : ∀ a t, H t → H (h.truth a t).2
  fmt : ∀ a t, H t → H (h.fmt a t).2

/-- Side conditions: what the evaluator is allowed to write into its log. -/
structure LogSites (R : Read Obj → Prop) (N : String → Prop) (locals globals : Env Obj) : Prop where
  /-- the `getattr(obj, member.name)` of `get_member`, reached only when the name passed the underscore test -/
  member : ∀ (a : Obj) (name : String), ¬ (name.startsWith "_" = true) → R ⟨a, name, true⟩
  /-- the `member.offset` probe in the error path of `get_member` -/
  offset : ∀ o : Obj, R ⟨o, "offset", false⟩
  /-- `get_value` on an identifier found in `locals` or in `globals` -/
  name : ∀ (n : String) (o : Obj), locals.find n = some o ∨ globals.find n = some o → N n

variable {h locals globals}

theorem pres_getValue (H : σ → Prop) (ls : LogSites R N locals globals) (v : SVal Obj) :
    Pres R N H (getValue h locals globals v) := by
  unfold getValue
  split
  · exact Pres.pure _
  · exact Pres.pure _
  · exact Pres.pure _
  · exact Pres.pure _
  · rename_i n _
    split
    · rename_i o hl
      exact Pres.bind (Pres.logResolved (ls.name n o (Or.inl hl))) fun _ => Pres.pure _
    · split
      · rename_i o hg
        exact Pres.bind (Pres.logResolved (ls.name n o (Or.inr hg))) fun _ => Pres.pure _
      · exact Pres.throw _
  · exact Pres.throw _

theorem pres_getValues (H : σ → Prop) (ls : LogSites R N locals globals) (vs : List (SVal Obj)) :
    Pres R N H (getValues h locals globals vs) := by
  induction vs with
  | nil => exact Pres.pure _
  | cons v vs ih =>
    unfold getValues
    exact Pres.bind (pres_getValue H ls v) fun _ => Pres.bind ih fun _ => Pres.pure _

theorem pres_getMember (hk : HostOK h H) (ls : LogSites R N locals globals) (a : Obj) (m : SVal Obj) :
    Pres R N H (getMember h a m) := by
  unfold getMember
  split
  · rename_i name _
    split
    · exact Pres.bind (Pres.lift (hk.fmt _)) fun _ => Pres.throw _
    · rename_i hn
      split
      · exact Pres.throw _
      · split
        · exact Pres.pure _
        · split
          · exact Pres.pure _
          · exact Pres.bind (Pres.logRead (ls.member a name hn)) fun _ => Pres.lift (hk.getattr _ _)
  · exact Pres.throw _
  · rename_i o
    exact Pres.bind (Pres.lift (hk.fmt _)) fun _ =>
      Pres.bind (Pres.logRead (ls.offset o)) fun _ =>
      Pres.bind (Pres.lift (hk.getattr _ _)) fun _ => Pres.throw _

theorem pres_expandArgs (_hk : HostOK h H) (ls : LogSites R N locals globals) (es : List Bool) (vs : List (SVal Obj)) :
    Pres R N H (expandArgs h locals globals es vs) := by
  induction es generalizing vs with
  | nil => unfold expandArgs; exact Pres.pure _
  | cons e es ih =>
    cases vs with
    | nil => unfold expandArgs; exact Pres.pure _
    | cons v vs =>
      unfold expandArgs
      split
      · exact Pres.bind (pres_getValue H ls v) fun _ => Pres.bind (ih vs) fun _ => Pres.pure _
      · exact Pres.bind (ih vs) fun _ => Pres.pure _

theorem pres_execute (hk : HostOK h H) (ls : LogSites R N locals globals) (spec : OpSpec) (args : List (SVal Obj)) :
    Pres R N H (execute (σ := σ) h spec args) := by
  unfold execute
  split
  · exact Pres.throw _
  · split
    · exact pres_getMember hk ls _ _
    · exact Pres.lift (hk.getitem _ _)
    · exact Pres.lift (hk.call _ _)
    · exact Pres.pure _
    · exact Pres.lift (hk.neg _)
    · exact Pres.lift (hk.inv _)
    · exact Pres.bind (Pres.lift (hk.truth _)) fun _ => Pres.pure _
    · exact Pres.lift (hk.binop _ _ _)
    · exact Pres.bind (Pres.lift (hk.truth _)) fun _ => Pres.pure _
    · exact Pres.bind (Pres.lift (hk.truth _)) fun _ => Pres.pure _
    · exact Pres.pure _
    · exact Pres.bind (Pres.lift (hk.truth _)) fun _ => Pres.lift (hk.getitem _ _)
    · exact Pres.throw _

theorem pres_step (hk : HostOK h H) (ls : LogSites R N locals globals) (values : List (SVal Obj)) (t : Tok) :
    Pres R N H (step h locals globals values t) := by
  unfold step
  split
  · exact Pres.bind (pres_getValues H ls _) fun _ => Pres.pure _
  · exact Pres.bind (pres_expandArgs hk ls _ _) fun _ =>
      Pres.bind (pres_execute hk ls _ _) fun _ => Pres.pure _
  · exact Pres.pure _

theorem pres_run (hk : HostOK h H) (ls : LogSites R N locals globals) (values : List (SVal Obj)) (ts : List Tok) :
    Pres R N H (run h locals globals values ts) := by
  induction ts generalizing values with
  | nil => unfold run; exact Pres.pure _
  | cons t ts ih =>
    unfold run
    exact Pres.bind (pres_step hk ls values t) fun vs => ih vs

theorem pres_finish (_hk : HostOK h H) (ls : LogSites R N locals globals) (values : List (SVal Obj)) :
    Pres R N H (finish h locals globals values) := by
  unfold finish
  split
  · split
    · exact Pres.bind (pres_getValue H ls _) fun _ => Pres.pure _
    · exact Pres.pure _
  · exact Pres.throw _

/-- Every run of `eval`, successful or not, ends with a log that satisfies the invariant. -/
theorem inv_eval (hk : HostOK h H) (ls : LogSites R N locals globals) (tokens : List Tok) (s0 : σ) (h0 : H s0) :
    Inv R N H (eval h locals globals tokens s0).2 := by
  unfold eval
  apply Pres.bind (pres_run hk ls [] tokens) (fun vs => pres_finish hk ls vs)
  exact Inv.mk (fun r hr => nomatch hr) (fun n hn => nomatch hn) h0

end Evaluator

/-! ### facts about `Env.find` -/

theorem Env.find_some_mem_keys {Obj : Type} (e : Env Obj) (n : String) (o : Obj) (hf : e.find n = some o) :
    n ∈ e.map Prod.fst := by
  induction e with
  | nil => simp [Env.find] at hf
  | cons kv rest ih =>
    obtain ⟨k, v⟩ := kv
    unfold Env.find at hf
    split at hf
    · rename_i hk; simp [hk]
    · simp only [List.map_cons, List.mem_cons]; exact Or.inr (ih hf)

end GtModel.Expr

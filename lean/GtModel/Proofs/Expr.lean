/-
  Invariant machinery for the L7 evaluator: a predicate on the evaluator's log that every monadic
  building block preserves, hence `eval` establishes it from the empty log.

  `R` constrains the attribute reads, `N` the resolved names.  The three side conditions are exactly the
  places where `Expression.eval` / `get_member` / `get_value` touch the log.
-/
import GtModel.Model.Expr

namespace GtModel.Expr

variable {σ Obj : Type}

/-- The log of a state satisfies `R` on every attribute read and `N` on every resolved name, and the host
    state satisfies `H` (a host-side invariant, `True` for the abstract theorems). -/
structure Inv (R : Read Obj → Prop) (N : String → Prop) (H : σ → Prop) (s : ES σ Obj) : Prop where
  reads : ∀ r ∈ s.reads, R r
  names : ∀ n ∈ s.resolved, N n
  host : H s.hs

/-- `m` preserves the log invariant, whatever it returns or raises. -/
def Pres (R : Read Obj → Prop) (N : String → Prop) (H : σ → Prop) {α : Type} (m : M σ Obj α) : Prop :=
  ∀ s, Inv R N H s → Inv R N H (m s).2

section Blocks
variable {R : Read Obj → Prop} {N : String → Prop} {H : σ → Prop} {α β : Type}

theorem Pres.pure (a : α) : Pres R N H (M.pure a : M σ Obj α) := fun _ h => h

theorem Pres.throw (e : Exc) : Pres R N H (M.throw e : M σ Obj α) := fun _ h => h

theorem Pres.bind {m : M σ Obj α} {f : α → M σ Obj β}
    (hm : Pres R N H m) (hf : ∀ a, Pres R N H (f a)) : Pres R N H (M.bind m f) := by
  intro s h
  have h1 := hm s h
  unfold M.bind
  split
  · rename_i a s' heq
    rw [heq] at h1
    exact hf a s' h1
  · rename_i e s' heq
    rw [heq] at h1
    exact h1

theorem Pres.lift {op : HRes σ α} (hop : ∀ t, H t → H (op t).2) : Pres R N H (M.lift op : M σ Obj α) := by
  intro s h
  unfold M.lift
  exact ⟨h.reads, h.names, hop s.hs h.host⟩

theorem Pres.logRead {o : Obj} {n : String} {g : Bool} (hr : R ⟨o, n, g⟩) :
    Pres R N H (M.logRead o n g : M σ Obj Unit) := by
  intro s h
  refine ⟨?_, h.names, h.host⟩
  intro r hr'
  simp only [M.logRead, List.mem_append, List.mem_singleton] at hr'
  rcases hr' with hr' | hr'
  · exact h.reads r hr'
  · rw [hr']; exact hr

theorem Pres.logResolved {n : String} (hn : N n) : Pres R N H (M.logResolved n : M σ Obj Unit) := by
  intro s h
  refine ⟨h.reads, ?_, h.host⟩
  intro m hm
  simp only [M.logResolved, List.mem_append, List.mem_singleton] at hm
  rcases hm with hm | hm
  · exact h.names m hm
  · rw [hm]; exact hn

end Blocks

section Evaluator
variable {R : Read Obj → Prop} {N : String → Prop} {H : σ → Prop}
variable (h : Host σ Obj) (locals globals : Env Obj)

/-- Every effectful host operation preserves the host-side invariant `H` — `getattr` only for PUBLIC names: the
    proofs below must show, at each of the evaluator's two `getattr` call sites, that the name it passes does not
    start with an underscore (an evaluator that handed an underscore name to the host could not use this field). -/
structure HostOK (h : Host σ Obj) (H : σ → Prop) : Prop where
  getattr : ∀ a n, ¬ (n.startsWith "_" = true) → ∀ t, H t → H (h.getattr a n t).2
  call : ∀ a b t, H t → H (h.call a b t).2
  getitem : ∀ a b t, H t → H (h.getitem a b t).2
  neg : ∀ a t, H t → H (h.neg a t).2
  inv : ∀ a t, H t → H (h.inv a t).2
  binop : ∀ s a b t, H t → H (h.binop s a b t).2
  truth : ∀ a t, H t → H (h.truth a t).2
  fmt : ∀ a t, H t → H (h.fmt a t).2

/-- Side conditions: what the evaluator is allowed to write into its log. -/
structure LogSites (R : Read Obj → Prop) (N : String → Prop) (locals globals : Env Obj) : Prop where
  /-- the `getattr(obj, member.name)` of `get_member`, reached only when the name passed the underscore test -/
  member : ∀ (a : Obj) (name : String), ¬ (name.startsWith "_" = true) → R ⟨a, name, true⟩
  /-- the `member.offset` probe in the error path of `get_member` -/
  offset : ∀ o : Obj, R ⟨o, "offset", false⟩
  /-- `get_value` on an identifier found in `locals` or in `globals` -/
  name : ∀ (n : String) (o : Obj), locals.find n = some o ∨ globals.find n = some o → N n

variable {h locals globals}

theorem pres_getValue (H : σ → Prop) (ls : LogSites R N locals globals) (v : SVal Obj) :
    Pres R N H (getValue h locals globals v) := by
  unfold getValue
  split
  · exact Pres.pure _
  · exact Pres.pure _
  · exact Pres.pure _
  · exact Pres.pure _
  · rename_i n _
    split
    · rename_i o hl
      exact Pres.bind (Pres.logResolved (ls.name n o (Or.inl hl))) fun _ => Pres.pure _
    · split
      · rename_i o hg
        exact Pres.bind (Pres.logResolved (ls.name n o (Or.inr hg))) fun _ => Pres.pure _
      · exact Pres.throw _
  · exact Pres.throw _

theorem pres_getValues (H : σ → Prop) (ls : LogSites R N locals globals) (vs : List (SVal Obj)) :
    Pres R N H (getValues h locals globals vs) := by
  induction vs with
  | nil => exact Pres.pure _
  | cons v vs ih =>
    unfold getValues
    exact Pres.bind (pres_getValue H ls v) fun _ => Pres.bind ih fun _ => Pres.pure _

theorem offset_public : ¬ ("offset".startsWith "_" = true) := by decide +kernel

theorem pres_getMember (hk : HostOK h H) (ls : LogSites R N locals globals) (a : Obj) (m : SVal Obj) :
    Pres R N H (getMember h a m) := by
  unfold getMember
  split
  · rename_i name _
    split
    · exact Pres.bind (Pres.lift (hk.fmt _)) fun _ => Pres.throw _
    · rename_i hn
      split
      · exact Pres.throw _
      · split
        · exact Pres.pure _
        · split
          · exact Pres.pure _
          · exact Pres.bind (Pres.logRead (ls.member a name hn)) fun _ => Pres.lift (hk.getattr _ _ hn)
  · exact Pres.throw _
  · rename_i o
    exact Pres.bind (Pres.lift (hk.fmt _)) fun _ =>
      Pres.bind (Pres.logRead (ls.offset o)) fun _ =>
      Pres.bind (Pres.lift (hk.getattr _ _ offset_public)) fun _ => Pres.throw _

theorem pres_expandArgs (_hk : HostOK h H) (ls : LogSites R N locals globals) (es : List Bool) (vs : List (SVal Obj)) :
    Pres R N H (expandArgs h locals globals es vs) := by
  induction es generalizing vs with
  | nil => unfold expandArgs; exact Pres.pure _
  | cons e es ih =>
    cases vs with
    | nil => unfold expandArgs; exact Pres.pure _
    | cons v vs =>
      unfold expandArgs
      split
      · exact Pres.bind (pres_getValue H ls v) fun _ => Pres.bind (ih vs) fun _ => Pres.pure _
      · exact Pres.bind (ih vs) fun _ => Pres.pure _

theorem pres_execute (hk : HostOK h H) (ls : LogSites R N locals globals) (spec : OpSpec) (args : List (SVal Obj)) :
    Pres R N H (execute (σ := σ) h spec args) := by
  unfold execute
  split
  · exact Pres.throw _
  · split
    · exact pres_getMember hk ls _ _
    · exact Pres.lift (hk.getitem _ _)
    · exact Pres.lift (hk.call _ _)
    · exact Pres.pure _
    · exact Pres.lift (hk.neg _)
    · exact Pres.lift (hk.inv _)
    · exact Pres.bind (Pres.lift (hk.truth _)) fun _ => Pres.pure _
    · exact Pres.lift (hk.binop _ _ _)
    · exact Pres.bind (Pres.lift (hk.truth _)) fun _ => Pres.pure _
    · exact Pres.bind (Pres.lift (hk.truth _)) fun _ => Pres.pure _
    · exact Pres.pure _
    · exact Pres.bind (Pres.lift (hk.truth _)) fun _ => Pres.lift (hk.getitem _ _)
    · exact Pres.throw _

theorem pres_step (hk : HostOK h H) (ls : LogSites R N locals globals) (values : List (SVal Obj)) (t : Tok) :
    Pres R N H (step h locals globals values t) := by
  unfold step
  split
  · exact Pres.bind (pres_getValues H ls _) fun _ => Pres.pure _
  · exact Pres.bind (pres_expandArgs hk ls _ _) fun _ =>
      Pres.bind (pres_execute hk ls _ _) fun _ => Pres.pure _
  · exact Pres.pure _

theorem pres_run (hk : HostOK h H) (ls : LogSites R N locals globals) (values : List (SVal Obj)) (ts : List Tok) :
    Pres R N H (run h locals globals values ts) := by
  induction ts generalizing values with
  | nil => unfold run; exact Pres.pure _
  | cons t ts ih =>
    unfold run
    exact Pres.bind (pres_step hk ls values t) fun vs => ih vs

theorem pres_finish (_hk : HostOK h H) (ls : LogSites R N locals globals) (values : List (SVal Obj)) :
    Pres R N H (finish h locals globals values) := by
  unfold finish
  split
  · split
    · exact Pres.bind (pres_getValue H ls _) fun _ => Pres.pure _
    · exact Pres.pure _
  · exact Pres.throw _

/-- Every run of `eval`, successful or not, ends with a log that satisfies the invariant. -/
theorem inv_eval (hk : HostOK h H) (ls : LogSites R N locals globals) (tokens : List Tok) (s0 : σ) (h0 : H s0) :
    Inv R N H (eval h locals globals tokens s0).2 := by
  unfold eval
  apply Pres.bind (pres_run hk ls [] tokens) (fun vs => pres_finish hk ls vs)
  exact Inv.mk (fun r hr => nomatch hr) (fun n hn => nomatch hn) h0

end Evaluator

/-! ### facts about `Env.find` -/

theorem Env.find_some_mem_keys {Obj : Type} (e : Env Obj) (n : String) (o : Obj) (hf : e.find n = some o) :
    n ∈ e.map Prod.fst := by
  induction e with
  | nil => simp [Env.find] at hf
  | cons kv rest ih =>
    obtain ⟨k, v⟩ := kv
    unfold Env.find at hf
    split at hf
    · rename_i hk; simp [hk]
    · simp only [List.map_cons, List.mem_cons]; exact Or.inr (ih hf)

end GtModel.Expr

/-! ### the recording ("spy") host: what the HOST is asked, as opposed to what the evaluator writes into its own log

  `attrReads` / `namesResolved` are a log the evaluator keeps itself (two `logRead` sites in `getMember`).  A statement
  about that log alone would also hold for an evaluator that passes an underscore name to `h.getattr` and simply does
  not log it.  `spy h` closes that gap: it is `h` over the state `σ × List String`, and its `getattr` — the only way
  the evaluator can read an attribute — appends every name it is asked for, whoever asks.  The theorems about
  `eval (spy h)` therefore speak about the host calls themselves. -/
namespace GtModel.Expr

variable {σ Obj : Type}

/-- run a host operation of `h` on the first component, keep the recorded names -/
@[inline] def spyOp {α : Type} (op : HRes σ α) : HRes (σ × List String) α := fun t =>
  match op t.1 with
  | (r, s') => (r, (s', t.2))

/-- The recording wrapper of a host: `getattr` appends the requested name to the second component of the state;
    nothing else touches it. -/
def spy (h : Host σ Obj) : Host (σ × List String) Obj where
  ofInt := h.ofInt
  ofFloat := h.ofFloat
  ofStr := h.ofStr
  ofBool := h.ofBool
  mkColl := h.mkColl
  getattr := fun a n t =>
    match h.getattr a n t.1 with
    | (r, s') => (r, (s', t.2 ++ [n]))
  call := fun a b => spyOp (h.call a b)
  getitem := fun a b => spyOp (h.getitem a b)
  neg := fun a => spyOp (h.neg a)
  inv := fun a => spyOp (h.inv a)
  binop := fun s a b => spyOp (h.binop s a b)
  truth := fun a => spyOp (h.truth a)
  fmt := fun a => spyOp (h.fmt a)
  isReflective := h.isReflective
  isStrType := h.isStrType
  isStrInst := h.isStrInst
  safeFn := h.safeFn
  mkPartial := h.mkPartial

/-- every name recorded by the spy is public -/
def SpyPub (t : σ × List String) : Prop := ∀ n ∈ t.2, ¬ (n.startsWith "_" = true)

theorem spyOp_snd {α : Type} (op : HRes σ α) (t : σ × List String) : (spyOp op t).2.2 = t.2 := by
  unfold spyOp; split; rfl

theorem spy_hostOK (h : Host σ Obj) : HostOK (spy h) SpyPub := by
  refine ⟨?_, ?_, ?_, ?_, ?_, ?_, ?_, ?_⟩
  · intro a n hn t ht m hm
    simp only [spy] at hm
    simp only [List.mem_append, List.mem_singleton] at hm
    rcases hm with hm | hm
    · exact ht m hm
    · rw [hm]; exact hn
  all_goals
    intros
    rename_i t ht
    intro m hm
    simp only [spy, spyOp_snd] at hm
    exact ht m hm

/-! #### the evaluator's own log is faithful: it lists exactly the names the host was asked for, in order -/

/-- the `reads` log and the spy's record agree -/
def Faithful (s : ES (σ × List String) Obj) : Prop := s.reads.map (·.name) = s.hs.2

def PresF {α : Type} (m : M (σ × List String) Obj α) : Prop := ∀ s, Faithful s → Faithful (m s).2

theorem PresF.pure {α : Type} (a : α) : PresF (M.pure a : M (σ × List String) Obj α) := fun _ h => h
theorem PresF.throw {α : Type} (e : Exc) : PresF (M.throw e : M (σ × List String) Obj α) := fun _ h => h

theorem PresF.bind {α β : Type} {m : M (σ × List String) Obj α} {f : α → M (σ × List String) Obj β}
    (hm : PresF m) (hf : ∀ a, PresF (f a)) : PresF (M.bind m f) := by
  intro s h
  have h1 := hm s h
  unfold M.bind
  split
  · rename_i a s' heq; rw [heq] at h1; exact hf a s' h1
  · rename_i e s' heq; rw [heq] at h1; exact h1

theorem PresF.lift {α : Type} {op : HRes (σ × List String) α} (hop : ∀ t, (op t).2.2 = t.2) :
    PresF (M.lift op : M (σ × List String) Obj α) := by
  intro s h
  unfold M.lift
  simp only [Faithful] at h ⊢
  rw [hop s.hs]; exact h

theorem PresF.spyOp {α : Type} (op : HRes σ α) : PresF (M.lift (spyOp op) : M (σ × List String) Obj α) :=
  PresF.lift (spyOp_snd op)

theorem PresF.logResolved (n : String) : PresF (M.logResolved n : M (σ × List String) Obj Unit) := fun _ h => h

/-- the unit "log the read, then ask the host": both records grow by the same name -/
theorem PresF.readThenGetattr (h : Host σ Obj) (a : Obj) (n : String) (g : Bool) :
    PresF (M.bind (M.logRead a n g) fun _ => M.lift ((spy h).getattr a n)) := by
  intro s hs
  simp only [M.bind, M.logRead, M.lift, spy]
  simp only [Faithful, List.map_append, List.map_cons, List.map_nil] at hs ⊢
  rw [hs]

variable {h : Host σ Obj} {locals globals : Env Obj}

theorem presF_getValue (v : SVal Obj) : PresF (getValue (spy h) locals globals v) := by
  unfold getValue
  split
  · exact PresF.pure _
  · exact PresF.pure _
  · exact PresF.pure _
  · exact PresF.pure _
  · split
    · exact PresF.bind (PresF.logResolved _) fun _ => PresF.pure _
    · split
      · exact PresF.bind (PresF.logResolved _) fun _ => PresF.pure _
      · exact PresF.throw _
  · exact PresF.throw _

theorem presF_getValues (vs : List (SVal Obj)) : PresF (getValues (spy h) locals globals vs) := by
  induction vs with
  | nil => exact PresF.pure _
  | cons v vs ih =>
    unfold getValues
    exact PresF.bind (presF_getValue v) fun _ => PresF.bind ih fun _ => PresF.pure _

theorem presF_getMember (a : Obj) (m : SVal Obj) : PresF (getMember (spy h) a m) := by
  unfold getMember
  split
  · split
    · exact PresF.bind (PresF.spyOp _) fun _ => PresF.throw _
    · split
      · exact PresF.throw _
      · split
        · exact PresF.pure _
        · split
          · exact PresF.pure _
          · exact PresF.readThenGetattr h _ _ _
  · exact PresF.throw _
  · rename_i o
    refine PresF.bind (PresF.spyOp _) fun _ => ?_
    -- (logRead; getattr) >>= throw, re-associated
    intro s hs
    have key := PresF.readThenGetattr h o "offset" false s hs
    simp only [M.bind, M.logRead, M.lift, M.throw] at key ⊢
    split <;> (rename_i heq; simp only [Prod.mk.injEq] at heq; obtain ⟨_, rfl⟩ := heq; exact key)

theorem presF_expandArgs (es : List Bool) (vs : List (SVal Obj)) : PresF (expandArgs (spy h) locals globals es vs) := by
  induction es generalizing vs with
  | nil => unfold expandArgs; exact PresF.pure _
  | cons e es ih =>
    cases vs with
    | nil => unfold expandArgs; exact PresF.pure _
    | cons v vs =>
      unfold expandArgs
      split
      · exact PresF.bind (presF_getValue v) fun _ => PresF.bind (ih vs) fun _ => PresF.pure _
      · exact PresF.bind (ih vs) fun _ => PresF.pure _

theorem presF_execute (spec : OpSpec) (args : List (SVal Obj)) : PresF (execute (spy h) spec args) := by
  unfold execute
  split
  · exact PresF.throw _
  · split
    · exact presF_getMember _ _
    · exact PresF.spyOp _
    · exact PresF.spyOp _
    · exact PresF.pure _
    · exact PresF.spyOp _
    · exact PresF.spyOp _
    · exact PresF.bind (PresF.spyOp _) fun _ => PresF.pure _
    · exact PresF.spyOp _
    · exact PresF.bind (PresF.spyOp _) fun _ => PresF.pure _
    · exact PresF.bind (PresF.spyOp _) fun _ => PresF.pure _
    · exact PresF.pure _
    · exact PresF.bind (PresF.spyOp _) fun _ => PresF.spyOp _
    · exact PresF.throw _

theorem presF_step (values : List (SVal Obj)) (t : Tok) : PresF (step (spy h) locals globals values t) := by
  unfold step
  split
  · exact PresF.bind (presF_getValues _) fun _ => PresF.pure _
  · exact PresF.bind (presF_expandArgs _ _) fun _ => PresF.bind (presF_execute _ _) fun _ => PresF.pure _
  · exact PresF.pure _

theorem presF_run (values : List (SVal Obj)) (ts : List Tok) : PresF (run (spy h) locals globals values ts) := by
  induction ts generalizing values with
  | nil => unfold run; exact PresF.pure _
  | cons t ts ih => unfold run; exact PresF.bind (presF_step values t) fun vs => ih vs

theorem presF_finish (values : List (SVal Obj)) : PresF (finish (spy h) locals globals values) := by
  unfold finish
  split
  · split
    · exact PresF.bind (presF_getValue _) fun _ => PresF.pure _
    · exact PresF.pure _
  · exact PresF.throw _

theorem faithful_eval (tokens : List Tok) (s0 : σ) :
    Faithful (eval (spy h) locals globals tokens (s0, [])).2 := by
  unfold eval
  apply PresF.bind (presF_run [] tokens) (fun vs => presF_finish vs)
  rfl

/-! #### erasure: the recording wrapper does not change what is computed -/

/-- `s'` is `s` plus recorded names -/
def Rel (s : ES σ Obj) (s' : ES (σ × List String) Obj) : Prop :=
  s'.hs.1 = s.hs ∧ s'.reads = s.reads ∧ s'.resolved = s.resolved

/-- `m'` (over `spy h`) simulates `m` (over `h`): same result, related states -/
def Sim {α : Type} (m : M σ Obj α) (m' : M (σ × List String) Obj α) : Prop :=
  ∀ s s', Rel s s' → (m s).1 = (m' s').1 ∧ Rel (m s).2 (m' s').2

theorem Sim.pure {α : Type} (a : α) : Sim (M.pure a : M σ Obj α) (M.pure a) := fun _ _ hr => ⟨rfl, hr⟩
theorem Sim.throw {α : Type} (e : Exc) : Sim (M.throw e : M σ Obj α) (M.throw e) := fun _ _ hr => ⟨rfl, hr⟩

theorem Sim.bind {α β : Type} {m : M σ Obj α} {m' : M (σ × List String) Obj α}
    {f : α → M σ Obj β} {f' : α → M (σ × List String) Obj β}
    (hm : Sim m m') (hf : ∀ a, Sim (f a) (f' a)) : Sim (M.bind m f) (M.bind m' f') := by
  intro s s' hr
  have h1 := hm s s' hr
  unfold M.bind
  rcases hms : m s with ⟨r, t⟩
  rcases hms' : m' s' with ⟨r', t'⟩
  rw [hms, hms'] at h1
  obtain ⟨h1a, h1b⟩ := h1
  simp only at h1a
  subst h1a
  cases r with
  | ok a => exact hf a t t' h1b
  | error e => exact ⟨rfl, h1b⟩

theorem Sim.spyOp {α : Type} (op : HRes σ α) : Sim (M.lift op : M σ Obj α) (M.lift (spyOp op)) := by
  intro s s' hr
  obtain ⟨h1, h2, h3⟩ := hr
  simp [M.lift, GtModel.Expr.spyOp, h1, Rel, h2, h3]

theorem Sim.getattr (h : Host σ Obj) (a : Obj) (n : String) :
    Sim (M.lift (h.getattr a n) : M σ Obj Obj) (M.lift ((spy h).getattr a n)) := by
  intro s s' hr
  obtain ⟨h1, h2, h3⟩ := hr
  simp [M.lift, spy, h1, Rel, h2, h3]

theorem Sim.logRead (o : Obj) (n : String) (g : Bool) :
    Sim (M.logRead o n g : M σ Obj Unit) (M.logRead o n g) := by
  intro s s' hr
  obtain ⟨h1, h2, h3⟩ := hr
  simp [M.logRead, Rel, h1, h2, h3]

theorem Sim.logResolved (n : String) : Sim (M.logResolved n : M σ Obj Unit) (M.logResolved n) := by
  intro s s' hr
  obtain ⟨h1, h2, h3⟩ := hr
  simp [M.logResolved, Rel, h1, h2, h3]

theorem sim_getValue (v : SVal Obj) : Sim (getValue h locals globals v) (getValue (spy h) locals globals v) := by
  unfold getValue
  split
  · exact Sim.pure _
  · exact Sim.pure _
  · exact Sim.pure _
  · exact Sim.pure _
  · split
    · exact Sim.bind (Sim.logResolved _) fun _ => Sim.pure _
    · split
      · exact Sim.bind (Sim.logResolved _) fun _ => Sim.pure _
      · exact Sim.throw _
  · exact Sim.throw _

theorem sim_getValues (vs : List (SVal Obj)) :
    Sim (getValues h locals globals vs) (getValues (spy h) locals globals vs) := by
  induction vs with
  | nil => exact Sim.pure _
  | cons v vs ih =>
    unfold getValues
    exact Sim.bind (sim_getValue v) fun _ => Sim.bind ih fun _ => Sim.pure _

@[simp] theorem spy_isReflective : (spy h).isReflective = h.isReflective := rfl
@[simp] theorem spy_isStrType : (spy h).isStrType = h.isStrType := rfl
@[simp] theorem spy_isStrInst : (spy h).isStrInst = h.isStrInst := rfl
@[simp] theorem spy_safeFn : (spy h).safeFn = h.safeFn := rfl
@[simp] theorem spy_mkPartial : (spy h).mkPartial = h.mkPartial := rfl

set_option linter.unusedSimpArgs false in
theorem sim_getMember (a : Obj) (m : SVal Obj) : Sim (getMember h a m) (getMember (spy h) a m) := by
  unfold getMember
  simp only [spy_isReflective, spy_isStrType, spy_isStrInst, spy_safeFn, spy_mkPartial]
  split
  · rename_i name _
    by_cases hu : name.startsWith "_" = true
    · simp only [hu, ↓reduceIte]
      exact Sim.bind (Sim.spyOp _) fun _ => Sim.throw _
    · simp only [hu, ↓reduceIte]
      by_cases hr : h.isReflective a = true
      · simp only [hr, ↓reduceIte]
        exact Sim.throw _
      · simp only [hr, ↓reduceIte]
        by_cases h1 : (safeStrMethods.contains name && h.isStrType a) = true
        · simp only [h1, ↓reduceIte]
          exact Sim.pure _
        · simp only [h1, ↓reduceIte]
          by_cases h2 : (safeStrMethods.contains name && h.isStrInst a) = true
          · simp only [h2, ↓reduceIte]
            exact Sim.pure _
          · simp only [h2, ↓reduceIte]
            exact Sim.bind (Sim.logRead _ _ _) fun _ => Sim.getattr h _ _
  · exact Sim.throw _
  · exact Sim.bind (Sim.spyOp _) fun _ => Sim.bind (Sim.logRead _ _ _) fun _ =>
      Sim.bind (Sim.getattr h _ _) fun _ => Sim.throw _

theorem sim_expandArgs (es : List Bool) (vs : List (SVal Obj)) :
    Sim (expandArgs h locals globals es vs) (expandArgs (spy h) locals globals es vs) := by
  induction es generalizing vs with
  | nil => unfold expandArgs; exact Sim.pure _
  | cons e es ih =>
    cases vs with
    | nil => unfold expandArgs; exact Sim.pure _
    | cons v vs =>
      unfold expandArgs
      split
      · exact Sim.bind (sim_getValue v) fun _ => Sim.bind (ih vs) fun _ => Sim.pure _
      · exact Sim.bind (ih vs) fun _ => Sim.pure _

theorem sim_execute (spec : OpSpec) (args : List (SVal Obj)) :
    Sim (execute h spec args) (execute (spy h) spec args) := by
  unfold execute
  split
  · exact Sim.throw _
  · split
    · exact sim_getMember _ _
    · exact Sim.spyOp _
    · exact Sim.spyOp _
    · exact Sim.pure _
    · exact Sim.spyOp _
    · exact Sim.spyOp _
    · exact Sim.bind (Sim.spyOp _) fun _ => Sim.pure _
    · exact Sim.spyOp _
    · exact Sim.bind (Sim.spyOp _) fun _ => Sim.pure _
    · exact Sim.bind (Sim.spyOp _) fun _ => Sim.pure _
    · exact Sim.pure _
    · exact Sim.bind (Sim.spyOp _) fun _ => Sim.spyOp _
    · exact Sim.throw _

theorem sim_step (values : List (SVal Obj)) (t : Tok) :
    Sim (step h locals globals values t) (step (spy h) locals globals values t) := by
  unfold step
  split
  · exact Sim.bind (sim_getValues _) fun _ => Sim.pure _
  · exact Sim.bind (sim_expandArgs _ _) fun _ => Sim.bind (sim_execute _ _) fun _ => Sim.pure _
  · exact Sim.pure _

theorem sim_run (values : List (SVal Obj)) (ts : List Tok) :
    Sim (run h locals globals values ts) (run (spy h) locals globals values ts) := by
  induction ts generalizing values with
  | nil => unfold run; exact Sim.pure _
  | cons t ts ih => unfold run; exact Sim.bind (sim_step values t) fun vs => ih vs

theorem sim_finish (values : List (SVal Obj)) :
    Sim (finish h locals globals values) (finish (spy h) locals globals values) := by
  unfold finish
  split
  · split
    · exact Sim.bind (sim_getValue _) fun _ => Sim.pure _
    · exact Sim.pure _
  · exact Sim.throw _

/-- `eval` over the recording wrapper computes the same result, the same host state and the same evaluator log
    as `eval` over the host itself. -/
theorem sim_eval (tokens : List Tok) (s0 : σ) (rec0 : List String) :
    (eval h locals globals tokens s0).1 = (eval (spy h) locals globals tokens (s0, rec0)).1 ∧
    Rel (eval h locals globals tokens s0).2 (eval (spy h) locals globals tokens (s0, rec0)).2 := by
  unfold eval
  exact Sim.bind (sim_run [] tokens) (fun vs => sim_finish vs) _ _ ⟨rfl, rfl, rfl⟩

end GtModel.Expr

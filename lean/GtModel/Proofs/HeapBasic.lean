/-
  Basic facts about the L4 heap model: flattening, the multiset of (id, key, deleted) triples, heap order.
  (`Multiset` from Mathlib is used only to discharge permutation goals by `ac_rfl`.)
-/
import GtModel.Model.Heap
import Mathlib.Algebra.Order.Group.Multiset

set_option linter.unusedSimpArgs false
set_option linter.unusedVariables false

namespace GtModel.Heap
variable {K : Type}

/-- laws of a total preorder given by its strict part; satisfied by `intMin` and `intMax` -/
structure Total (cmp : Cmp K) : Prop where
  asymm : ∀ a b, cmp.lt a b = true → cmp.lt b a = false
  ntrans : ∀ a b c, cmp.lt a b = false → cmp.lt b c = false → cmp.lt a c = false
  eq_iff : ∀ a b, cmp.eq a b = true ↔ (cmp.lt a b = false ∧ cmp.lt b a = false)

theorem Total.irrefl {cmp : Cmp K} (T : Total cmp) (a : K) : cmp.lt a a = false := by
  cases h : cmp.lt a a
  · rfl
  · have := T.asymm a a h; simp_all

theorem total_intMin : Total intMin := by
  constructor <;> simp [intMin] <;> omega

theorem total_intMax : Total intMax := by
  constructor <;> simp [intMax] <;> omega

/-! ### flattening -/

@[simp] theorem flat_eq (n : HNode K) : flat n = n :: flats n.kids := by
  cases n; simp [flat]

@[simp] theorem flats_nil : flats ([] : List (HNode K)) = [] := by simp [flats]
@[simp] theorem flats_cons (x : HNode K) (xs) : flats (x :: xs) = x :: flats x.kids ++ flats xs := by
  simp [flats]

@[simp] theorem flats_append (a b : List (HNode K)) : flats (a ++ b) = flats a ++ flats b := by
  induction a with
  | nil => simp
  | cons x xs ih => simp [ih]

theorem mem_flats_of_mem {l : List (HNode K)} {r : HNode K} (h : r ∈ l) : r ∈ flats l := by
  induction l with
  | nil => cases h
  | cons x xs ih =>
    simp at h ⊢
    rcases h with h | h
    · exact Or.inl h
    · exact Or.inr (Or.inr (ih h))

theorem flats_sub_of_mem {l : List (HNode K)} {r : HNode K} (h : r ∈ l) {x} (hx : x ∈ flats r.kids) : x ∈ flats l := by
  induction l with
  | nil => cases h
  | cons y ys ih =>
    simp at h ⊢
    rcases h with h | h
    · subst h; exact Or.inr (Or.inl hx)
    · exact Or.inr (Or.inr (ih h))

/-- the (id, key, deleted) triple of a node -/
def item (x : HNode K) : Nat × K × Bool := (x.id, x.key, x.deleted)

/-- all triples of a forest, in `nodes()` order -/
def items (rs : List (HNode K)) : List (Nat × K × Bool) := (flats rs).map item

/-- the same as a multiset -/
def ms (rs : List (HNode K)) : Multiset (Nat × K × Bool) := (items rs : Multiset _)

@[simp] theorem items_nil : items ([] : List (HNode K)) = [] := by simp [items]
@[simp] theorem items_cons (x : HNode K) (xs) : items (x :: xs) = item x :: (items x.kids ++ items xs) := by
  simp [items]
@[simp] theorem items_append (a b : List (HNode K)) : items (a ++ b) = items a ++ items b := by
  simp [items]

@[simp] theorem ms_nil : ms ([] : List (HNode K)) = 0 := by simp [ms]
@[simp] theorem ms_cons (x : HNode K) (xs) : ms (x :: xs) = {item x} + ms x.kids + ms xs := by
  simp only [ms, items_cons, ← Multiset.coe_add, ← Multiset.cons_coe, ← Multiset.singleton_add]; ac_rfl
@[simp] theorem ms_append (a b : List (HNode K)) : ms (a ++ b) = ms a + ms b := by
  simp [ms]

theorem ms_eq_iff {a b : List (HNode K)} : ms a = ms b ↔ (items a).Perm (items b) := by
  simp [ms, Multiset.coe_eq_coe]

theorem ms_perm {a b : List (HNode K)} (h : a.Perm b) : ms a = ms b := by
  induction h with
  | nil => rfl
  | cons x _ ih => simp [ih]
  | swap x y l => simp only [ms_cons, ← Multiset.singleton_add]; ac_rfl
  | trans _ _ ih1 ih2 => exact ih1.trans ih2

theorem mem_ms {rs : List (HNode K)} {i} : i ∈ ms rs ↔ i ∈ items rs := by simp [ms]

theorem card_ms (rs : List (HNode K)) : Multiset.card (ms rs) = (flats rs).length := by simp [ms, items]

theorem mem_items_of_mem_flats {rs : List (HNode K)} {x} (h : x ∈ flats rs) : item x ∈ items rs :=
  List.mem_map_of_mem h

/-! ### ring insertion -/

theorem insert1_perm {α : Type} (c : α) (l : List α) : (insert1 c l).Perm (c :: l) := by
  cases l with
  | nil => simp [insert1]
  | cons r rs => simp [insert1]; exact List.Perm.swap _ _ _

theorem mem_insert1 {α : Type} {c x : α} {l : List α} : x ∈ insert1 c l ↔ x = c ∨ x ∈ l := by
  rw [(insert1_perm c l).mem_iff]; simp

theorem appendAll_perm {α : Type} (rs cs : List α) : (appendAll rs cs).Perm (cs ++ rs) := by
  induction cs generalizing rs with
  | nil => simp [appendAll]
  | cons c cs ih =>
    simp only [appendAll, List.foldl_cons] at ih ⊢
    refine (ih _).trans ?_
    refine (List.Perm.append_left cs (insert1_perm c rs)).trans ?_
    simp

theorem mem_appendAll {α : Type} {x : α} {rs cs : List α} : x ∈ appendAll rs cs ↔ x ∈ cs ∨ x ∈ rs := by
  rw [(appendAll_perm rs cs).mem_iff]; simp

/-! ### heap order -/

mutual
/-- every child's key is not less than its parent's, recursively -/
def Ord (cmp : Cmp K) : HNode K → Prop
  | ⟨_, k, _, _, ks⟩ => OrdK cmp k ks
def OrdK (cmp : Cmp K) (k : K) : List (HNode K) → Prop
  | [] => True
  | c :: cs => cmp.lt c.key k = false ∧ Ord cmp c ∧ OrdK cmp k cs
end

theorem ordK_iff (cmp : Cmp K) (k : K) (ks : List (HNode K)) :
    OrdK cmp k ks ↔ ∀ c ∈ ks, cmp.lt c.key k = false ∧ Ord cmp c := by
  induction ks with
  | nil => simp [OrdK]
  | cons c cs ih => simp [OrdK, ih, and_assoc]

theorem ord_iff (cmp : Cmp K) (n : HNode K) :
    Ord cmp n ↔ ∀ c ∈ n.kids, cmp.lt c.key n.key = false ∧ Ord cmp c := by
  cases n; simp [Ord, ordK_iff]

/-- a forest of heap-ordered trees -/
def Ords (cmp : Cmp K) (rs : List (HNode K)) : Prop := ∀ r ∈ rs, Ord cmp r

theorem ord_congr {cmp : Cmp K} {a b : HNode K} (hk : a.key = b.key) (hc : a.kids = b.kids) : Ord cmp a ↔ Ord cmp b := by
  rw [ord_iff, ord_iff, hk, hc]

theorem ord_link {cmp : Cmp K} {p c : HNode K} (hp : Ord cmp p) (hc : Ord cmp c) (h : cmp.lt c.key p.key = false) :
    Ord cmp (link p c) := by
  rw [ord_iff] at hp ⊢
  intro x hx
  simp only [link, mem_insert1] at hx
  rcases hx with rfl | hx
  · exact ⟨h, (ord_congr (a := c) (b := { c with mark := false }) rfl rfl).1 hc⟩
  · exact hp x hx

theorem ms_insert1 (c : HNode K) (l) : ms (insert1 c l) = ms [c] + ms l := by
  rw [ms_perm (insert1_perm c l)]; simp only [ms_cons, ms_nil, ← Multiset.singleton_add]; ac_rfl

theorem ms_appendAll (rs cs : List (HNode K)) : ms (appendAll rs cs) = ms cs + ms rs := by
  rw [ms_perm (appendAll_perm rs cs), ms_append]

theorem ms_link (p c : HNode K) : ms [link p c] = ms [p] + ms [c] := by
  simp only [ms_cons, ms_nil, link, item, ms_insert1, ← Multiset.singleton_add]
  ac_rfl

theorem ms_link_cons (p c : HNode K) (rest) : ms (link p c :: rest) = ms [p] + ms [c] + ms rest := by
  rw [show link p c :: rest = [link p c] ++ rest from rfl, ms_append, ms_link]

/-- normalise multiset expressions built from forests and close the goal up to associativity/commutativity -/
macro "ms_ac" : tactic =>
  `(tactic| ((try simp only [ms_link_cons]); (try simp only [ms_cons, ms_append, ms_nil, ms_link, ms_insert1, ms_appendAll, ← Multiset.singleton_add, ← Multiset.cons_coe, add_zero, zero_add]); (try ac_rfl)))

/-- in a heap-ordered tree the root has a minimal key -/
theorem root_le_all {cmp : Cmp K} (T : Total cmp) :
    ∀ (n : HNode K), Ord cmp n → ∀ i ∈ items [n], cmp.lt i.2.1 n.key = false
  | ⟨id, k, m, d, ks⟩, h, i, hi => by
    simp only [items_cons, items_nil, List.append_nil, List.mem_cons] at hi
    rcases hi with rfl | hi
    · exact T.irrefl _
    · exact root_le_all_kids T k ks ((ord_iff _ _).1 h) i hi
where
  root_le_all_kids {cmp : Cmp K} (T : Total cmp) (k : K) :
      ∀ (ks : List (HNode K)), (∀ c ∈ ks, cmp.lt c.key k = false ∧ Ord cmp c) → ∀ i ∈ items ks, cmp.lt i.2.1 k = false
    | [], _, i, hi => by simp at hi
    | c :: cs, h, i, hi => by
      simp only [items_cons, List.mem_cons, List.mem_append] at hi
      have hc := h c (by simp)
      rcases hi with rfl | hi | hi
      · exact hc.1
      · have := root_le_all T c hc.2 i (by simp; exact Or.inr hi)
        exact T.ntrans _ _ _ this hc.1
      · exact root_le_all_kids T k cs (fun x hx => h x (by simp [hx])) i hi

end GtModel.Heap

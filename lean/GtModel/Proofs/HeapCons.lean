/-
  `_consolidate` / `_extract_min` of the L4 heap model: multiset preservation, heap order, min pointer,
  and absence of the IndexError of the degree array.
-/
import GtModel.Proofs.HeapBasic

set_option linter.unusedSimpArgs false
set_option linter.unusedVariables false

namespace GtModel.Heap
variable {K : Type}

/-- identities of all nodes of a forest -/
def ids (rs : List (HNode K)) : List Nat := (items rs).map (·.1)

def NoDel (rs : List (HNode K)) : Prop := ∀ i ∈ items rs, i.2.2 = false

theorem ids_perm_of_ms {a b : List (HNode K)} (h : ms a = ms b) : (ids a).Perm (ids b) :=
  (ms_eq_iff.1 h).map _

theorem nodup_of_ms {a b : List (HNode K)} (h : ms a = ms b) (hn : (ids a).Nodup) : (ids b).Nodup :=
  (ids_perm_of_ms h).nodup hn

theorem nodel_of_ms {a b : List (HNode K)} (h : ms a = ms b) (hn : NoDel a) : NoDel b := by
  intro i hi; exact hn i ((ms_eq_iff.1 h).mem_iff.2 hi)

theorem sublist_flats (l : List (HNode K)) : l.Sublist (flats l) := by
  induction l with
  | nil => simp
  | cons x xs ih =>
    simp only [flats_cons, List.cons_append]
    exact List.Sublist.cons_cons _ (List.sublist_append_of_sublist_right ih)

theorem top_ids_nodup {l : List (HNode K)} (h : (ids l).Nodup) : (l.map (·.id)).Nodup := by
  have : (l.map (·.id)).Sublist (ids l) := by
    simp only [ids, items, List.map_map]
    exact (sublist_flats l).map _
  exact this.nodup h

theorem length_le_flats (l : List (HNode K)) : l.length ≤ (flats l).length := (sublist_flats l).length_le

theorem mem_items_root {l : List (HNode K)} {i} (h : i ∈ items l) : ∃ s ∈ l, i ∈ items [s] := by
  induction l with
  | nil => simp at h
  | cons x xs ih =>
    simp only [items_cons, List.mem_cons, List.mem_append] at h
    rcases h with h | h | h
    · exact ⟨x, by simp, by simp [h]⟩
    · exact ⟨x, by simp, by simp [h]⟩
    · obtain ⟨s, hs, hi⟩ := ih h; exact ⟨s, by simp [hs], hi⟩

theorem items_sub_of_mem {l : List (HNode K)} {s} (hs : s ∈ l) {i} (hi : i ∈ items [s]) : i ∈ items l := by
  induction l with
  | nil => cases hs
  | cons x xs ih =>
    simp only [items_cons, items_nil, List.append_nil, List.mem_cons, List.mem_append] at hi ⊢
    rcases List.mem_cons.1 hs with rfl | hs
    · rcases hi with hi | hi
      · exact Or.inl hi
      · exact Or.inr (Or.inl hi)
    · exact Or.inr (Or.inr (ih hs))

/-! ### `nodeLt` / `nodeLe` on undeleted nodes -/

theorem nodeLt_nodel {cmp : Cmp K} {a b : HNode K} (ha : a.deleted = false) : nodeLt cmp a b = cmp.lt a.key b.key := by
  simp [nodeLt, ha]

theorem nodeLe_nodel {cmp : Cmp K} (T : Total cmp) {a b : HNode K} (ha : a.deleted = false) :
    nodeLe cmp a b = true ↔ cmp.lt b.key a.key = false := by
  simp only [nodeLe, nodeLt_nodel ha, Bool.or_eq_true, T.eq_iff]
  constructor
  · rintro (h | h)
    · exact T.asymm _ _ h
    · exact h.2
  · intro h
    cases h' : cmp.lt a.key b.key
    · exact Or.inr ⟨rfl, h⟩
    · exact Or.inl rfl

/-! ### the degree array -/

def somes (a : List (Option (HNode K))) : List (HNode K) := a.filterMap id

@[simp] theorem somes_nil : somes ([] : List (Option (HNode K))) = [] := rfl
@[simp] theorem somes_none (a : List (Option (HNode K))) : somes (none :: a) = somes a := by simp [somes]
@[simp] theorem somes_some (x : HNode K) (a) : somes (some x :: a) = x :: somes a := by simp [somes]
@[simp] theorem somes_append (a b : List (Option (HNode K))) : somes (a ++ b) = somes a ++ somes b := by simp [somes]
@[simp] theorem somes_replicate (n : Nat) : somes (List.replicate n (none : Option (HNode K))) = [] := by
  induction n with
  | zero => rfl
  | succ n ih => simp [List.replicate_succ, ih]

theorem consGo_spec {cmp : Cmp K} (T : Total cmp) :
    ∀ (suf : List (Option (HNode K))) (x : HNode K) (r), consGo cmp suf x = .ok r →
      Ords cmp (somes suf) → Ord cmp x → NoDel (x :: somes suf) →
      ms (somes r) = ms [x] + ms (somes suf) ∧ Ords cmp (somes r) ∧ r.length = suf.length ∧
        (∀ y ∈ somes r, y.id ∈ (x :: somes suf).map (·.id))
  | [], x, r, h, _, _, _ => by simp [consGo] at h
  | none :: rest, x, r, h, ho, hx, hd => by
    simp only [consGo, Except.ok.injEq] at h
    subst h
    refine ⟨by simp only [somes_some, somes_none]; ms_ac, ?_, by simp, ?_⟩
    · intro y hy
      simp only [somes_some, somes_none, List.mem_cons] at hy
      rcases hy with rfl | hy
      · exact hx
      · exact ho y (by simpa using hy)
    · intro y hy; simp at hy ⊢; rcases hy with rfl | hy
      · exact Or.inl rfl
      · exact Or.inr ⟨y, hy, rfl⟩
  | some y :: rest, x, r, h, ho, hx, hd => by
    simp only [consGo] at h
    split at h
    · rename_i r' hr'
      simp only [Except.ok.injEq] at h
      subst h
      have hyd : y.deleted = false := hd (item y) (by simp [item])
      have hxd : x.deleted = false := hd (item x) (by simp [item])
      have hyo : Ord cmp y := ho y (by simp)
      have hro : Ords cmp (somes rest) := fun z hz => ho z (by simp [hz])
      rw [nodeLt_nodel hyd] at hr'
      have hmsx : ms [x] + ms (somes (some y :: rest)) = ms [x] + ms [y] + ms (somes rest) := by
        simp only [somes_some]; ms_ac
      cases hlt : cmp.lt y.key x.key
      · simp only [hlt, Bool.false_eq_true, if_false] at hr'
        have hl : Ord cmp (link x y) := ord_link hx hyo hlt
        have hd' : NoDel (link x y :: somes rest) := by
          intro i hi
          have : i ∈ ms (link x y :: somes rest) := mem_ms.2 hi
          have h2 : ms (link x y :: somes rest) = ms (x :: somes (some y :: rest)) := by
            simp only [somes_some]; ms_ac
          rw [h2] at this
          exact hd i (mem_ms.1 this)
        obtain ⟨h1, h2, h3, h4⟩ := consGo_spec T rest _ r' hr' hro hl hd'
        refine ⟨?_, ?_, by simp [h3], ?_⟩
        · rw [hmsx]; simp only [somes_none]; rw [h1]; ms_ac
        · simpa using h2
        · intro z hz
          have := h4 z (by simpa using hz)
          simp [link] at this ⊢
          rcases this with h | ⟨w, hw, he⟩
          · exact Or.inl h
          · exact Or.inr (Or.inr ⟨w, hw, he⟩)
      · simp only [hlt, if_true] at hr'
        have hl : Ord cmp (link y x) := ord_link hyo hx (T.asymm _ _ hlt)
        have hd' : NoDel (link y x :: somes rest) := by
          intro i hi
          have : i ∈ ms (link y x :: somes rest) := mem_ms.2 hi
          have h2 : ms (link y x :: somes rest) = ms (x :: somes (some y :: rest)) := by
            simp only [somes_some]; ms_ac
          rw [h2] at this
          exact hd i (mem_ms.1 this)
        obtain ⟨h1, h2, h3, h4⟩ := consGo_spec T rest _ r' hr' hro hl hd'
        refine ⟨?_, ?_, by simp [h3], ?_⟩
        · rw [hmsx]; simp only [somes_none]; rw [h1]; ms_ac
        · simpa using h2
        · intro z hz
          have := h4 z (by simpa using hz)
          simp [link] at this ⊢
          rcases this with h | ⟨w, hw, he⟩
          · exact Or.inr (Or.inl h)
          · exact Or.inr (Or.inr ⟨w, hw, he⟩)
    · simp at h

theorem consGo_ok {cmp : Cmp K} :
    ∀ (suf : List (Option (HNode K))) (x : HNode K), none ∈ suf → ∃ r, consGo cmp suf x = .ok r
  | [], _, h => by simp at h
  | none :: rest, x, _ => ⟨_, rfl⟩
  | some y :: rest, x, h => by
    have h' : none ∈ rest := by simpa using h
    obtain ⟨r, hr⟩ := consGo_ok (cmp := cmp) rest (link (if nodeLt cmp y x then y else x) (if nodeLt cmp y x then x else y)) h'
    exact ⟨none :: r, by simp [consGo, hr]⟩

theorem ms_somes_take_drop (a : List (Option (HNode K))) (d : Nat) :
    ms (somes a) = ms (somes (a.take d)) + ms (somes (a.drop d)) := by
  conv => lhs; rw [← List.take_append_drop d a]
  rw [somes_append, ms_append]

theorem consInsert_spec {cmp : Cmp K} (T : Total cmp) (a : List (Option (HNode K))) (x : HNode K) (a') 
    (h : consInsert cmp a x = .ok a') (ho : Ords cmp (somes a)) (hx : Ord cmp x) (hd : NoDel (x :: somes a)) :
    ms (somes a') = ms [x] + ms (somes a) ∧ Ords cmp (somes a') ∧ a'.length = a.length ∧
      (∀ y ∈ somes a', y.id ∈ (x :: somes a).map (·.id)) := by
  simp only [consInsert] at h
  split at h
  · rename_i r hr
    simp only [Except.ok.injEq] at h
    subst h
    have hsub : ∀ z ∈ somes (a.drop x.kids.length), z ∈ somes a := by
      intro z hz
      rw [← List.take_append_drop x.kids.length a, somes_append]; simp [hz]
    have hsub' : ∀ z ∈ somes (a.take x.kids.length), z ∈ somes a := by
      intro z hz
      rw [← List.take_append_drop x.kids.length a, somes_append]; simp [hz]
    have hd' : NoDel (x :: somes (a.drop x.kids.length)) := by
      intro i hi
      apply hd i
      have hi' := mem_ms.2 hi
      apply mem_ms.1
      have : ms (x :: somes a) = ms (x :: somes (a.drop x.kids.length)) + ms (somes (a.take x.kids.length)) := by
        rw [show x :: somes a = [x] ++ somes a from rfl, show x :: somes (a.drop x.kids.length) = [x] ++ somes (a.drop x.kids.length) from rfl,
          ms_append, ms_append, ms_somes_take_drop a x.kids.length]
        ac_rfl
      rw [this]; exact Multiset.mem_add.2 (Or.inl hi')
    obtain ⟨h1, h2, h3, h4⟩ := consGo_spec T _ x r hr (fun z hz => ho z (hsub z hz)) hx hd'
    refine ⟨?_, ?_, ?_, ?_⟩
    · rw [somes_append, ms_append, h1, ms_somes_take_drop a x.kids.length]; ac_rfl
    · intro z hz
      rw [somes_append, List.mem_append] at hz
      rcases hz with hz | hz
      · exact ho z (hsub' z hz)
      · exact h2 z hz
    · rw [List.length_append, h3, ← List.length_append, List.take_append_drop]
    · intro z hz
      rw [somes_append, List.mem_append] at hz
      rcases hz with hz | hz
      · simp only [List.map_cons, List.mem_cons, List.mem_map]
        exact Or.inr ⟨z, hsub' z hz, rfl⟩
      · have := h4 z hz
        simp only [List.map_cons, List.mem_cons, List.mem_map] at this ⊢
        rcases this with h | ⟨w, hw, he⟩
        · exact Or.inl h
        · exact Or.inr ⟨w, hsub w hw, he⟩
  · simp at h

theorem consAll_spec {cmp : Cmp K} (T : Total cmp) :
    ∀ (xs : List (HNode K)) (a : List (Option (HNode K))) (a'), consAll cmp xs a = .ok a' →
      Ords cmp (somes a) → Ords cmp xs → NoDel (xs ++ somes a) →
      ms (somes a') = ms xs + ms (somes a) ∧ Ords cmp (somes a') ∧ a'.length = a.length ∧
        (∀ y ∈ somes a', y.id ∈ (xs ++ somes a).map (·.id))
  | [], a, a', h, ho, _, _ => by
    simp only [consAll, Except.ok.injEq] at h
    subst h
    exact ⟨by simp, ho, rfl, fun y hy => by simp; exact ⟨y, hy, rfl⟩⟩
  | x :: xs, a, a', h, ho, hxs, hd => by
    simp only [consAll] at h
    split at h
    · rename_i a1 ha1
      have hd1 : NoDel (x :: somes a) := by
        intro i hi; apply hd i
        simp only [items_cons, items_append, List.cons_append, List.mem_cons, List.mem_append] at hi ⊢
        rcases hi with h | h | h
        · exact Or.inl h
        · exact Or.inr (Or.inl h)
        · exact Or.inr (Or.inr (Or.inr h))
      obtain ⟨h1, h2, h3, h4⟩ := consInsert_spec T a x a1 ha1 ho (hxs x (by simp)) hd1
      have hd2 : NoDel (xs ++ somes a1) := by
        intro i hi; apply hd i
        have hi' := mem_ms.2 hi
        apply mem_ms.1
        rw [ms_append, h1] at hi'
        rw [show x :: xs ++ somes a = [x] ++ (xs ++ somes a) from rfl, ms_append, ms_append]
        rw [show ms [x] + (ms xs + ms (somes a)) = ms xs + (ms [x] + ms (somes a)) by ac_rfl]
        exact hi'
      obtain ⟨g1, g2, g3, g4⟩ := consAll_spec T xs a1 a' h h2 (fun z hz => hxs z (by simp [hz])) hd2
      refine ⟨?_, g2, by rw [g3, h3], ?_⟩
      · rw [g1, h1, show x :: xs = [x] ++ xs from rfl, ms_append]; ac_rfl
      · intro y hy
        have := g4 y hy
        simp only [List.map_append, List.mem_append, List.mem_map, List.map_cons, List.mem_cons] at this ⊢
        rcases this with ⟨w, hw, he⟩ | ⟨w, hw, he⟩
        · exact Or.inl (Or.inr ⟨w, hw, he⟩)
        · have := h4 w hw
          simp only [List.map_cons, List.mem_cons, List.mem_map] at this
          rcases this with h | ⟨v, hv, hev⟩
          · exact Or.inl (Or.inl (he ▸ h))
          · exact Or.inr ⟨v, hv, hev.trans he⟩
    · simp at h

theorem length_le_somes (l : List (Option (HNode K))) (h : none ∉ l) : l.length ≤ (somes l).length := by
  induction l with
  | nil => simp
  | cons o os ih =>
    cases o with
    | none => simp at h
    | some v =>
      have : none ∉ os := by simpa using h
      simp [ih this]

/-- the degree array of length `n` never overflows as long as fewer than `n` nodes are being consolidated -/
theorem consInsert_ok {cmp : Cmp K} (a : List (Option (HNode K))) (x : HNode K)
    (hn : (flats [x]).length + (flats (somes a)).length < a.length) : ∃ a', consInsert cmp a x = .ok a' := by
  have hnone : none ∈ a.drop x.kids.length := by
    by_contra hc
    have h1 := length_le_somes _ hc
    have h2 := length_le_flats (somes (a.drop x.kids.length))
    have h3 : (flats (somes (a.drop x.kids.length))).length ≤ (flats (somes a)).length := by
      have := congrArg Multiset.card (ms_somes_take_drop a x.kids.length)
      simp only [Multiset.card_add, card_ms] at this
      omega
    have h4 := length_le_flats x.kids
    simp only [List.length_drop, flats_cons, flats_nil, List.append_nil, List.length_cons, List.length_append] at h1 hn
    omega
  obtain ⟨r, hr⟩ := consGo_ok (cmp := cmp) _ x hnone
  exact ⟨a.take x.kids.length ++ r, by simp [consInsert, hr]⟩

theorem consAll_ok {cmp : Cmp K} (T : Total cmp) :
    ∀ (xs : List (HNode K)) (a : List (Option (HNode K))),
      Ords cmp (somes a) → Ords cmp xs → NoDel (xs ++ somes a) →
      (flats xs).length + (flats (somes a)).length < a.length → ∃ a', consAll cmp xs a = .ok a'
  | [], a, _, _, _, _ => ⟨a, rfl⟩
  | x :: xs, a, ho, hxs, hd, hn => by
    have hn1 : (flats [x]).length + (flats (somes a)).length < a.length := by
      simp only [flats_cons, flats_nil, List.append_nil, List.length_cons, List.length_append] at hn ⊢; omega
    obtain ⟨a1, ha1⟩ := consInsert_ok (cmp := cmp) a x hn1
    have hd1 : NoDel (x :: somes a) := by
      intro i hi; apply hd i
      simp only [items_cons, items_append, List.cons_append, List.mem_cons, List.mem_append] at hi ⊢
      rcases hi with h | h | h
      · exact Or.inl h
      · exact Or.inr (Or.inl h)
      · exact Or.inr (Or.inr (Or.inr h))
    obtain ⟨h1, h2, h3, h4⟩ := consInsert_spec T a x a1 ha1 ho (hxs x (by simp)) hd1
    have hd2 : NoDel (xs ++ somes a1) := by
      intro i hi; apply hd i
      have hi' := mem_ms.2 hi
      apply mem_ms.1
      rw [ms_append, h1] at hi'
      rw [show x :: xs ++ somes a = [x] ++ (xs ++ somes a) from rfl, ms_append, ms_append]
      rw [show ms [x] + (ms xs + ms (somes a)) = ms xs + (ms [x] + ms (somes a)) by ac_rfl]
      exact hi'
    have hc : (flats (somes a1)).length = (flats [x]).length + (flats (somes a)).length := by
      have := congrArg Multiset.card h1
      simpa only [Multiset.card_add, card_ms] using this
    have hn2 : (flats xs).length + (flats (somes a1)).length < a1.length := by
      simp only [flats_cons, flats_nil, List.append_nil, List.length_cons, List.length_append] at hn hc ⊢; omega
    obtain ⟨a', ha'⟩ := consAll_ok T xs a1 h2 (fun z hz => hxs z (by simp [hz])) hd2 hn2
    exact ⟨a', by simp [consAll, ha1, ha']⟩

/-! ### the new root ring is a permutation of the surviving trees -/

theorem find_none_of_not_mem {α : Type} (f : α → Nat) (S : List α) (v : Nat) (h : v ∉ S.map f) :
    S.find? (fun s => f s == v) = none := by
  simp only [List.find?_eq_none, beq_iff_eq]
  intro s hs he
  exact h (List.mem_map.2 ⟨s, hs, he⟩)

def lk {α β : Type} (f : α → Nat) (g : β → Nat) (S : List α) (r : β) : Option α := S.find? (fun s => f s == g r)

theorem lk_cons {α β : Type} (f : α → Nat) (g : β → Nat) (s : α) (S : List α) (r : β) :
    lk f g (s :: S) r = if f s = g r then some s else lk f g S r := by
  simp only [lk, List.find?_cons]
  by_cases h : f s = g r
  · simp [h]
  · have : (f s == g r) = false := by simp [h]
    simp [this, h]

theorem fm_step {α β : Type} (f : α → Nat) (g : β → Nat) (s : α) (S' : List α) (hs : f s ∉ S'.map f) :
    ∀ L : List β, (L.map g).Nodup →
      (f s ∈ L.map g → (L.filterMap (lk f g (s :: S'))).Perm (s :: L.filterMap (lk f g S'))) ∧
      (f s ∉ L.map g → L.filterMap (lk f g (s :: S')) = L.filterMap (lk f g S'))
  | [], _ => by simp
  | r :: L', hnd => by
    have hnd' : (L'.map g).Nodup := (List.nodup_cons.1 (by simpa using hnd)).2
    have hr : g r ∉ L'.map g := (List.nodup_cons.1 (by simpa using hnd)).1
    obtain ⟨ih1, ih2⟩ := fm_step f g s S' hs L' hnd'
    by_cases he : f s = g r
    · have hnone : lk f g S' r = none := find_none_of_not_mem f S' (g r) (he ▸ hs)
      have hs' : f s ∉ L'.map g := he ▸ hr
      constructor
      · intro _
        rw [List.filterMap_cons, List.filterMap_cons, lk_cons, if_pos he, hnone]
        simp only []
        rw [ih2 hs']
      · intro h; simp [he] at h
    · constructor
      · intro h
        have h' : f s ∈ L'.map g := by
          simp only [List.map_cons, List.mem_cons] at h
          rcases h with h | h
          · exact absurd h he
          · exact h
        rw [List.filterMap_cons, List.filterMap_cons, lk_cons, if_neg he]
        cases hv : lk f g S' r with
        | none => exact ih1 h'
        | some v => exact ((ih1 h').cons v).trans (List.Perm.swap _ _ _)
      · intro h
        have h' : f s ∉ L'.map g := fun hc => h (by simp [hc])
        rw [List.filterMap_cons, List.filterMap_cons, lk_cons, if_neg he, ih2 h']

theorem filterMap_find_perm {α β : Type} (f : α → Nat) (g : β → Nat) :
    ∀ (S : List α) (L : List β), (S.map f).Nodup → (L.map g).Nodup → (∀ s ∈ S, f s ∈ L.map g) →
      (L.filterMap (lk f g S)).Perm S
  | [], L, _, _, _ => by simp [lk]
  | s :: S', L, hS, hL, hsub => by
    have hs : f s ∉ S'.map f := (List.nodup_cons.1 (by simpa using hS)).1
    have hS' : (S'.map f).Nodup := (List.nodup_cons.1 (by simpa using hS)).2
    have := (fm_step f g s S' hs L hL).1 (hsub s (by simp))
    exact this.trans ((filterMap_find_perm f g S' L hS' hL (fun x hx => hsub x (by simp [hx]))).cons s)

/-! ### choosing the new `_min` -/

theorem pickMin_spec {cmp : Cmp K} (T : Total cmp) :
    ∀ (surv : List (HNode K)) (m0 : HNode K), (∀ t ∈ surv, t.deleted = false) →
      cmp.lt m0.key (pickMin cmp surv m0).key = false ∧
      (∀ t ∈ surv, cmp.lt t.key (pickMin cmp surv m0).key = false) ∧
      ((pickMin cmp surv m0 = m0 ∧ ∀ t ∈ surv, cmp.lt m0.key t.key = true) ∨ pickMin cmp surv m0 ∈ surv)
  | [], m0, _ => by simp [pickMin, T.irrefl]
  | t :: ts, m0, hd => by
    have htd : t.deleted = false := hd t (by simp)
    have hts : ∀ x ∈ ts, x.deleted = false := fun x hx => hd x (by simp [hx])
    have hunf : pickMin cmp (t :: ts) m0 = pickMin cmp ts (if nodeLe cmp t m0 then t else m0) := by
      simp [pickMin]
    rw [hunf]
    by_cases hle : nodeLe cmp t m0 = true
    · simp only [hle, if_true]
      have hle' := (nodeLe_nodel T htd).1 hle
      obtain ⟨h1, h2, h3⟩ := pickMin_spec T ts t hts
      refine ⟨T.ntrans _ _ _ hle' h1, ?_, ?_⟩
      · intro x hx
        rcases List.mem_cons.1 hx with rfl | hx
        · exact h1
        · exact h2 x hx
      · rcases h3 with ⟨h3, _⟩ | h3
        · exact Or.inr (by rw [h3]; simp)
        · exact Or.inr (by simp [h3])
    · simp only [hle, if_false]
      have hlt : cmp.lt m0.key t.key = true := by
        cases h : cmp.lt m0.key t.key
        · exact absurd ((nodeLe_nodel T htd).2 h) hle
        · rfl
      obtain ⟨h1, h2, h3⟩ := pickMin_spec T ts m0 hts
      refine ⟨h1, ?_, ?_⟩
      · intro x hx
        rcases List.mem_cons.1 hx with rfl | hx
        · exact T.ntrans _ _ _ (T.asymm _ _ hlt) h1
        · exact h2 x hx
      · rcases h3 with ⟨h3, h4⟩ | h3
        · refine Or.inl ⟨h3, ?_⟩
          intro x hx
          rcases List.mem_cons.1 hx with rfl | hx
          · exact hlt
          · exact h4 x hx
        · exact Or.inr (by simp [h3])

/-! ### `_consolidate` -/

theorem consolidate_spec {cmp : Cmp K} (T : Total cmp) (n : Nat) (rs : List (HNode K)) (m0 : HNode K) (roots mid)
    (h : consolidate cmp n rs m0 = .ok (roots, mid))
    (ho : Ords cmp rs) (hd : NoDel rs) (hnd : (ids rs).Nodup) (hm0 : m0 ∈ rs) :
    ms roots = ms rs ∧ Ords cmp roots ∧
      ∃ r ∈ roots, r.id = mid ∧ ∀ r' ∈ roots, cmp.lt r'.key r.key = false := by
  simp only [consolidate] at h
  split at h
  · simp at h
  · rename_i a ha
    simp only [Except.ok.injEq, Prod.mk.injEq] at h
    obtain ⟨hroots, hmid⟩ := h
    have hd0 : NoDel (rs ++ somes (List.replicate n none)) := by simpa using hd
    obtain ⟨h1, h2, h3, h4⟩ := consAll_spec T rs _ a ha (by simp [Ords]) ho hd0
    simp only [somes_replicate, ms_nil, add_zero, List.append_nil] at h1 h4
    have hsurv : a.filterMap id = somes a := rfl
    rw [hsurv] at hroots hmid
    have hndS : (ids (somes a)).Nodup := nodup_of_ms h1.symm hnd
    have hperm : roots.Perm (somes a) := by
      rw [← hroots]
      exact filterMap_find_perm (fun s : HNode K => s.id) (fun r : HNode K => r.id) (somes a) rs
        (top_ids_nodup hndS) (top_ids_nodup hnd) h4
    have hdS : NoDel (somes a) := nodel_of_ms h1.symm hd
    have hdS' : ∀ t ∈ somes a, t.deleted = false := by
      intro t ht
      exact hdS (item t) (mem_items_of_mem_flats (mem_flats_of_mem ht))
    obtain ⟨p1, p2, p3⟩ := pickMin_spec T (somes a) m0 hdS'
    have hmem : pickMin cmp (somes a) m0 ∈ somes a := by
      rcases p3 with ⟨_, p4⟩ | p3
      · exfalso
        have : item m0 ∈ items (somes a) := by
          apply mem_ms.1; rw [h1]; exact mem_ms.2 (mem_items_of_mem_flats (mem_flats_of_mem hm0))
        obtain ⟨s, hs, hi⟩ := mem_items_root this
        have := root_le_all T s (h2 s hs) _ hi
        simp only [item] at this
        rw [p4 s hs] at this; cases this
      · exact p3
    refine ⟨(ms_perm hperm).trans h1, fun r hr => h2 r (hperm.mem_iff.1 hr), ?_⟩
    exact ⟨pickMin cmp (somes a) m0, hperm.mem_iff.2 hmem, hmid, fun r' hr' => p2 r' (hperm.mem_iff.1 hr')⟩

theorem consolidate_ok {cmp : Cmp K} (T : Total cmp) (n : Nat) (rs : List (HNode K)) (m0 : HNode K)
    (ho : Ords cmp rs) (hd : NoDel rs) (hn : (flats rs).length < n) : ∃ res, consolidate cmp n rs m0 = .ok res := by
  obtain ⟨a, ha⟩ := consAll_ok T rs (List.replicate n none) (by simp [Ords]) ho (by simpa using hd) (by simpa using hn)
  simp only [consolidate, ha]
  exact ⟨_, rfl⟩

end GtModel.Heap

/-
  `_cut` / `_cascading_cut` as performed by `decrease_key` and `remove` (model: `cutNode`, `cutKids`, `cutRoots`).
-/
import GtModel.Proofs.HeapExtract

set_option linter.unusedSimpArgs false
set_option linter.unusedVariables false

namespace GtModel.Heap
variable {K : Type}

/-- `upd` changes neither identity nor children -/
def KeepsShape (upd : HNode K → HNode K) : Prop := ∀ x, (upd x).id = x.id ∧ (upd x).kids = x.kids

/-- What a cut below a node of key `pk` guarantees: exactly one node `x` (the target `t`) was updated; every tree
    cut out is heap ordered; cut-out ancestors have keys ≥ `pk`; the target either was cut out or still is ≥ `pk`. -/
def CutPost (cmp : Cmp K) (t : Nat) (upd : HNode K → HNode K) (pk : K) (pd : Bool) (before after cuts : List (HNode K)) : Prop :=
  ∃ (x : HNode K) (rest : Multiset (Nat × K × Bool)), x ∈ flats before ∧ x.id = t ∧
    ms before = {item x} + rest ∧ ms after + ms cuts = {item (upd x)} + rest ∧
    Ords cmp cuts ∧
    (∀ c ∈ cuts, (c.id = t ∧ c.key = (upd x).key) ∨ cmp.lt c.key pk = false) ∧
    ((∃ c ∈ cuts, c.id = t ∧ c.key = (upd x).key) ∨
      (cmp.lt (upd x).key pk = false ∧
        (((upd x).deleted && !pd) = false ∨ ∃ p ∈ flats before, ((upd x).deleted && !p.deleted) = false)))

theorem ord_unmark {cmp : Cmp K} {c : HNode K} (b : Bool) : Ord cmp { c with mark := b } ↔ Ord cmp c :=
  ord_congr rfl rfl

theorem ms_setmark (c : HNode K) (b : Bool) (rest) : ms ({ c with mark := b } :: rest) = ms (c :: rest) := by
  simp only [ms_cons, item]

theorem flats_mem_head {c : HNode K} {cs : List (HNode K)} {y : HNode K} (h : y ∈ flats [c]) : y ∈ flats (c :: cs) := by
  rw [show c :: cs = [c] ++ cs from rfl, flats_append]; exact List.mem_append_left _ h

theorem cutNode_spec {cmp : Cmp K} (T : Total cmp) (t : Nat) (upd : HNode K → HNode K) (hU : KeepsShape upd) :
    ∀ (n : HNode K) (n' : HNode K) (cuts casc), cutNode cmp t upd n = some (n', cuts, casc) →
      Ord cmp n → (∀ x ∈ flats [n], x.id = t → cmp.lt x.key (upd x).key = false) →
      CutPost cmp t upd n.key n.deleted [n] [n'] cuts ∧ Ord cmp n' ∧ n'.key = n.key ∧ n'.id = n.id
  | ⟨i, k, m, d, ks⟩, n', cuts, casc, h, ho, hu => by
    simp only [cutNode] at h
    split at h
    · rename_i ks' cuts' casc' hk
      simp only [Option.some.injEq, Prod.mk.injEq] at h
      obtain ⟨rfl, rfl, rfl⟩ := h
      have hok := (ord_iff cmp _).1 ho
      obtain ⟨⟨x, rest, hx, hxt, h1, h2, h3, h4, h5⟩, hks'⟩ := cutKids_spec T t upd hU k d ks ks' cuts' casc' hk hok
        (fun y hy => hu y (by simp [hy]))
      have h5' : (∃ c ∈ cuts', c.id = t ∧ c.key = (upd x).key) ∨
          (cmp.lt (upd x).key k = false ∧
            (((upd x).deleted && !d) = false ∨ ∃ p ∈ flats [(⟨i, k, m, d, ks⟩ : HNode K)], ((upd x).deleted && !p.deleted) = false)) := by
        rcases h5 with h | ⟨h, h' | ⟨p, hp, h'⟩⟩
        · exact Or.inl h
        · exact Or.inr ⟨h, Or.inl h'⟩
        · exact Or.inr ⟨h, Or.inr ⟨p, by simp [hp], h'⟩⟩
      refine ⟨⟨x, {item (⟨i, k, m, d, ks⟩ : HNode K)} + rest, by simp [hx], hxt, ?_, ?_, h3, h4, h5'⟩, ?_, rfl, rfl⟩
      · simp only [ms_cons, ms_nil, add_zero, h1]; ac_rfl
      · simp only [ms_cons, ms_nil, add_zero]
        rw [show ({item (⟨i, k, m, d, ks'⟩ : HNode K)} + ms ks' + ms cuts' : Multiset _) = {item (⟨i, k, m, d, ks'⟩ : HNode K)} + (ms ks' + ms cuts') by ac_rfl, h2]
        simp only [item]; ac_rfl
      · exact (ord_iff cmp _).2 hks'
    · simp at h
where
  cutKids_spec {cmp : Cmp K} (T : Total cmp) (t : Nat) (upd : HNode K → HNode K) (hU : KeepsShape upd) (pk : K) (pd : Bool) :
      ∀ (ks ks' cuts : List (HNode K)) (casc : Bool), cutKids cmp t upd pk pd ks = some (ks', cuts, casc) →
        (∀ c ∈ ks, cmp.lt c.key pk = false ∧ Ord cmp c) →
        (∀ x ∈ flats ks, x.id = t → cmp.lt x.key (upd x).key = false) →
        CutPost cmp t upd pk pd ks ks' cuts ∧ (∀ c ∈ ks', cmp.lt c.key pk = false ∧ Ord cmp c)
    | [], ks', cuts, casc, h, _, _ => by simp [cutKids] at h
    | c :: cs, ks', cuts, casc, h, ho, hu => by
      have hco := ho c (by simp)
      have hcs : ∀ y ∈ cs, cmp.lt y.key pk = false ∧ Ord cmp y := fun y hy => ho y (by simp [hy])
      simp only [cutKids] at h
      split at h
      · -- the target is this child
        rename_i hid
        have hid' : c.id = t := by simpa using hid
        have hle : cmp.lt c.key (upd c).key = false := hu c (by simp) hid'
        have hordc' : ∀ b, Ord cmp { upd c with mark := b } := by
          intro b
          rw [ord_iff]
          intro y hy
          simp only [(hU c).2] at hy
          have := (ord_iff cmp c).1 hco.2 y hy
          exact ⟨T.ntrans _ _ _ this.1 hle, this.2⟩
        have hordc : Ord cmp (upd c) := by
          rw [ord_iff]
          intro y hy
          simp only [(hU c).2] at hy
          have := (ord_iff cmp c).1 hco.2 y hy
          exact ⟨T.ntrans _ _ _ this.1 hle, this.2⟩
        split at h
        · simp only [Option.some.injEq, Prod.mk.injEq] at h
          obtain ⟨rfl, rfl, rfl⟩ := h
          refine ⟨⟨c, ms c.kids + ms cs, by simp, hid', by simp only [ms_cons]; ac_rfl, ?_, ?_, ?_, ?_⟩, hcs⟩
          · rw [ms_setmark (upd c) false []]; simp only [ms_cons, ms_nil, (hU c).2]; ac_rfl
          · intro y hy; have := List.mem_singleton.1 hy; subst this; exact hordc' false
          · intro y hy; have := List.mem_singleton.1 hy; subst this
            exact Or.inl ⟨(hU c).1.trans hid', rfl⟩
          · exact Or.inl ⟨{ upd c with mark := false }, List.mem_singleton.2 rfl, (hU c).1.trans hid', rfl⟩
        · rename_i hnl
          simp only [Option.some.injEq, Prod.mk.injEq] at h
          obtain ⟨rfl, rfl, rfl⟩ := h
          have hk : cmp.lt (upd c).key pk = false := by
            simp only [nodeLt, Bool.or_eq_true, not_or, Bool.not_eq_true] at hnl
            exact hnl.2
          have hk2 : ((upd c).deleted && !pd) = false := by
            simp only [nodeLt, Bool.or_eq_true, not_or, Bool.not_eq_true] at hnl
            exact hnl.1
          refine ⟨⟨c, ms c.kids + ms cs, by simp, hid', by simp only [ms_cons]; ac_rfl, ?_, by simp [Ords], by simp, Or.inr ⟨hk, Or.inl hk2⟩⟩, ?_⟩
          · simp only [ms_cons, ms_nil, (hU c).2]; ac_rfl
          · intro y hy
            rcases List.mem_cons.1 hy with rfl | hy
            · exact ⟨hk, hordc⟩
            · exact hcs y hy
      · split at h
        · -- the target is below this child
          rename_i c' cuts1 casc1 hc1
          obtain ⟨⟨x, rest, hx, hxt, h1, h2, h3, h4, h5⟩, hoc', hkc', hic'⟩ :=
            cutNode_spec T t upd hU c c' cuts1 casc1 hc1 hco.2 (fun y hy => hu y (flats_mem_head hy))
          have hx' : x ∈ flats (c :: cs) := flats_mem_head hx
          have hmsb : ms (c :: cs) = {item x} + (rest + ms cs) := by
            rw [show c :: cs = [c] ++ cs from rfl, ms_append, h1]; ac_rfl
          have hck : cmp.lt c'.key pk = false := hkc' ▸ hco.1
          have h4' : ∀ y ∈ cuts1, (y.id = t ∧ y.key = (upd x).key) ∨ cmp.lt y.key pk = false := by
            intro y hy
            rcases h4 y hy with h | h
            · exact Or.inl h
            · exact Or.inr (T.ntrans _ _ _ h hco.1)
          have h5' : (∃ y ∈ cuts1, y.id = t ∧ y.key = (upd x).key) ∨
              (cmp.lt (upd x).key pk = false ∧
                (((upd x).deleted && !pd) = false ∨ ∃ p ∈ flats (c :: cs), ((upd x).deleted && !p.deleted) = false)) := by
            rcases h5 with h | ⟨h, h' | ⟨p, hp, h'⟩⟩
            · exact Or.inl h
            · exact Or.inr ⟨T.ntrans _ _ _ h hco.1, Or.inr ⟨c, by simp, h'⟩⟩
            · exact Or.inr ⟨T.ntrans _ _ _ h hco.1, Or.inr ⟨p, flats_mem_head hp, h'⟩⟩
          split at h
          · split at h
            · -- cascading cut of c'
              simp only [Option.some.injEq, Prod.mk.injEq] at h
              obtain ⟨rfl, rfl, rfl⟩ := h
              refine ⟨⟨x, rest + ms cs, hx', hxt, hmsb, ?_, ?_, ?_, ?_⟩, hcs⟩
              · rw [ms_append, ms_setmark c' false []]
                rw [show ms cs + (ms cuts1 + ms [c']) = (ms [c'] + ms cuts1) + ms cs by ac_rfl, h2]; ac_rfl
              · intro y hy
                rcases List.mem_append.1 hy with hy | hy
                · exact h3 y hy
                · have := List.mem_singleton.1 hy; subst this; exact (ord_unmark false).2 hoc'
              · intro y hy
                rcases List.mem_append.1 hy with hy | hy
                · exact h4' y hy
                · have := List.mem_singleton.1 hy; subst this; exact Or.inr hck
              · rcases h5' with ⟨y, hy, hh⟩ | h
                · exact Or.inl ⟨y, by simp [hy], hh⟩
                · exact Or.inr h
            · simp only [Option.some.injEq, Prod.mk.injEq] at h
              obtain ⟨rfl, rfl, rfl⟩ := h
              refine ⟨⟨x, rest + ms cs, hx', hxt, hmsb, ?_, h3, h4', h5'⟩, ?_⟩
              · rw [ms_setmark c' true cs, show c' :: cs = [c'] ++ cs from rfl, ms_append]
                rw [show ms [c'] + ms cs + ms cuts1 = (ms [c'] + ms cuts1) + ms cs by ac_rfl, h2]; ac_rfl
              · intro y hy
                rcases List.mem_cons.1 hy with rfl | hy
                · exact ⟨hck, (ord_unmark true).2 hoc'⟩
                · exact hcs y hy
          · simp only [Option.some.injEq, Prod.mk.injEq] at h
            obtain ⟨rfl, rfl, rfl⟩ := h
            refine ⟨⟨x, rest + ms cs, hx', hxt, hmsb, ?_, h3, h4', h5'⟩, ?_⟩
            · rw [show c' :: cs = [c'] ++ cs from rfl, ms_append]
              rw [show ms [c'] + ms cs + ms cuts1 = (ms [c'] + ms cuts1) + ms cs by ac_rfl, h2]; ac_rfl
            · intro y hy
              rcases List.mem_cons.1 hy with rfl | hy
              · exact ⟨hck, hoc'⟩
              · exact hcs y hy
        · -- the target is further right in the ring
          split at h
          · rename_i cs' cuts1 casc1 hc1
            simp only [Option.some.injEq, Prod.mk.injEq] at h
            obtain ⟨rfl, rfl, rfl⟩ := h
            obtain ⟨⟨x, rest, hx, hxt, h1, h2, h3, h4, h5⟩, hcs'⟩ :=
              cutKids_spec T t upd hU pk pd cs cs' cuts1 casc1 hc1 hcs (fun y hy => hu y (by simp [hy]))
            have h5' : (∃ y ∈ cuts1, y.id = t ∧ y.key = (upd x).key) ∨
                (cmp.lt (upd x).key pk = false ∧
                  (((upd x).deleted && !pd) = false ∨ ∃ p ∈ flats (c :: cs), ((upd x).deleted && !p.deleted) = false)) := by
              rcases h5 with h | ⟨h, h' | ⟨p, hp, h'⟩⟩
              · exact Or.inl h
              · exact Or.inr ⟨h, Or.inl h'⟩
              · exact Or.inr ⟨h, Or.inr ⟨p, by simp [hp], h'⟩⟩
            refine ⟨⟨x, rest + ms [c], by simp [hx], hxt, ?_, ?_, h3, h4, h5'⟩, ?_⟩
            · rw [show c :: cs = [c] ++ cs from rfl, ms_append, h1]; ac_rfl
            · rw [show c :: cs' = [c] ++ cs' from rfl, ms_append]
              rw [show ms [c] + ms cs' + ms cuts1 = (ms cs' + ms cuts1) + ms [c] by ac_rfl, h2]; ac_rfl
            · intro y hy
              rcases List.mem_cons.1 hy with rfl | hy
              · exact hco
              · exact hcs' y hy
          · simp at h

/-- how a root changes: same identity; the key stays, or (for the target) becomes the new key, never larger -/
def RootRel (cmp : Cmp K) (t : Nat) (newkey : K) (r r' : HNode K) : Prop :=
  r'.id = r.id ∧ cmp.lt r.key r'.key = false ∧ (r'.key = r.key ∨ (r.id = t ∧ r'.key = newkey))

theorem rootRel_refl {cmp : Cmp K} (T : Total cmp) (t : Nat) (k : K) : ∀ rs : List (HNode K), List.Forall₂ (RootRel cmp t k) rs rs
  | [] => List.Forall₂.nil
  | r :: rs => List.Forall₂.cons ⟨rfl, T.irrefl _, Or.inl rfl⟩ (rootRel_refl T t k rs)

theorem cutRoots_spec {cmp : Cmp K} (T : Total cmp) (t : Nat) (upd : HNode K → HNode K) (hU : KeepsShape upd) :
    ∀ (rs rs' cuts : List (HNode K)), cutRoots cmp t upd rs = some (rs', cuts) → Ords cmp rs →
      (∀ x ∈ flats rs, x.id = t → cmp.lt x.key (upd x).key = false) →
      ∃ (x : HNode K) (rest : Multiset (Nat × K × Bool)), x ∈ flats rs ∧ x.id = t ∧
        ms rs = {item x} + rest ∧ ms rs' + ms cuts = {item (upd x)} + rest ∧
        Ords cmp rs' ∧ Ords cmp cuts ∧ List.Forall₂ (RootRel cmp t (upd x).key) rs rs' ∧
        (∀ c ∈ cuts, (c.id = t ∧ c.key = (upd x).key) ∨ ∃ r ∈ rs, cmp.lt c.key r.key = false) ∧
        ((∃ c ∈ cuts, c.id = t ∧ c.key = (upd x).key) ∨ (∃ r' ∈ rs', r'.id = t ∧ r'.key = (upd x).key) ∨
          (∃ r' ∈ rs', cmp.lt (upd x).key r'.key = false ∧ ∃ p ∈ flats rs, ((upd x).deleted && !p.deleted) = false))
  | [], rs', cuts, h, _, _ => by simp [cutRoots] at h
  | r :: rs, rs', cuts, h, ho, hu => by
    have hro : Ord cmp r := ho r (by simp)
    have hrs : Ords cmp rs := fun y hy => ho y (by simp [hy])
    simp only [cutRoots] at h
    split at h
    · rename_i hid
      have hid' : r.id = t := by simpa using hid
      simp only [Option.some.injEq, Prod.mk.injEq] at h
      obtain ⟨rfl, rfl⟩ := h
      have hle : cmp.lt r.key (upd r).key = false := hu r (by simp) hid'
      have hordr : Ord cmp (upd r) := by
        rw [ord_iff]
        intro y hy
        simp only [(hU r).2] at hy
        have := (ord_iff cmp r).1 hro y hy
        exact ⟨T.ntrans _ _ _ this.1 hle, this.2⟩
      refine ⟨r, ms r.kids + ms rs, by simp, hid', by simp only [ms_cons]; ac_rfl, ?_, ?_, by simp [Ords], ?_, by simp, ?_⟩
      · simp only [ms_cons, ms_nil, (hU r).2]; ac_rfl
      · intro y hy
        rcases List.mem_cons.1 hy with rfl | hy
        · exact hordr
        · exact hrs y hy
      · exact List.Forall₂.cons ⟨(hU r).1, hle, Or.inr ⟨hid', rfl⟩⟩ (rootRel_refl T t _ rs)
      · exact Or.inr (Or.inl ⟨upd r, by simp, (hU r).1.trans hid', rfl⟩)
    · split at h
      · rename_i r' cuts1 casc1 hc1
        simp only [Option.some.injEq, Prod.mk.injEq] at h
        obtain ⟨rfl, rfl⟩ := h
        obtain ⟨⟨x, rest, hx, hxt, h1, h2, h3, h4, h5⟩, hor', hkr', hir'⟩ :=
          cutNode_spec T t upd hU r r' cuts1 casc1 hc1 hro (fun y hy => hu y (flats_mem_head hy))
        refine ⟨x, rest + ms rs, flats_mem_head hx, hxt, ?_, ?_, ?_, h3, ?_, ?_, ?_⟩
        · rw [show r :: rs = [r] ++ rs from rfl, ms_append, h1]; ac_rfl
        · rw [show r' :: rs = [r'] ++ rs from rfl, ms_append]
          rw [show ms [r'] + ms rs + ms cuts1 = (ms [r'] + ms cuts1) + ms rs by ac_rfl, h2]; ac_rfl
        · intro y hy
          rcases List.mem_cons.1 hy with rfl | hy
          · exact hor'
          · exact hrs y hy
        · exact List.Forall₂.cons ⟨hir', by rw [hkr']; exact T.irrefl _, Or.inl hkr'⟩ (rootRel_refl T t _ rs)
        · intro c hc
          rcases h4 c hc with h | h
          · exact Or.inl h
          · exact Or.inr ⟨r, by simp, h⟩
        · rcases h5 with h | ⟨h, h' | ⟨p, hp, h'⟩⟩
          · exact Or.inl h
          · exact Or.inr (Or.inr ⟨r', by simp, hkr' ▸ h, r, by simp, h'⟩)
          · exact Or.inr (Or.inr ⟨r', by simp, hkr' ▸ h, p, flats_mem_head hp, h'⟩)
      · split at h
        · rename_i rs1 cuts1 hc1
          simp only [Option.some.injEq, Prod.mk.injEq] at h
          obtain ⟨rfl, rfl⟩ := h
          obtain ⟨x, rest, hx, hxt, h1, h2, h3, h4, h5, h6, h7⟩ :=
            cutRoots_spec T t upd hU rs rs1 cuts1 hc1 hrs (fun y hy => hu y (by simp [hy]))
          refine ⟨x, rest + ms [r], by simp [hx], hxt, ?_, ?_, ?_, h4, ?_, ?_, ?_⟩
          · rw [show r :: rs = [r] ++ rs from rfl, ms_append, h1]; ac_rfl
          · rw [show r :: rs1 = [r] ++ rs1 from rfl, ms_append]
            rw [show ms [r] + ms rs1 + ms cuts1 = (ms rs1 + ms cuts1) + ms [r] by ac_rfl, h2]; ac_rfl
          · intro y hy
            rcases List.mem_cons.1 hy with rfl | hy
            · exact hro
            · exact h3 y hy
          · exact List.Forall₂.cons ⟨rfl, T.irrefl _, Or.inl rfl⟩ h5
          · intro c hc
            rcases h6 c hc with h | ⟨q, hq, h⟩
            · exact Or.inl h
            · exact Or.inr ⟨q, by simp [hq], h⟩
          · rcases h7 with h | ⟨q, hq, h⟩ | ⟨q, hq, h, p, hp, h'⟩
            · exact Or.inl h
            · exact Or.inr (Or.inl ⟨q, by simp [hq], h⟩)
            · exact Or.inr (Or.inr ⟨q, by simp [hq], h, p, by simp [hp], h'⟩)
        · simp at h

end GtModel.Heap

/-
  `_extract_min` of the L4 heap model and the heap invariant.
-/
import GtModel.Proofs.HeapCons

set_option linter.unusedSimpArgs false
set_option linter.unusedVariables false

namespace GtModel.Heap
variable {K : Type}

/-- `_min` designates a root of minimum key (or the heap is empty) -/
def MinOk (cmp : Cmp K) (rs : List (HNode K)) : Option Nat → Prop
  | none => rs = []
  | some m => ∃ r ∈ rs, r.id = m ∧ ∀ r' ∈ rs, cmp.lt r'.key r.key = false

/-- The heap invariant: heap order; no node carries the `deleted` flag; node identities are distinct; `_n` is the
    number of nodes; `_min` is a root of minimum key.  (`degree = kids.length` holds by construction of the model;
    the correspondence stream checks the real `degree` field against it.) -/
structure Inv (cmp : Cmp K) (h : Heap K) : Prop where
  ord : Ords cmp h.roots
  nodel : NoDel h.roots
  nodup : (ids h.roots).Nodup
  size : h.n = (flats h.roots).length
  minOk : MinOk cmp h.roots h.min

theorem inv_empty (cmp : Cmp K) : Inv cmp (empty : Heap K) :=
  ⟨by simp [empty, Ords], by simp [empty, NoDel], by simp [empty, ids], by simp [empty], by simp [empty, MinOk]⟩

theorem splitId_spec (t : Nat) : ∀ (l : List (HNode K)) a z b, splitId t l = some (a, z, b) →
    l = a ++ z :: b ∧ z.id = t
  | [], a, z, b, h => by simp [splitId] at h
  | r :: rs, a, z, b, h => by
    simp only [splitId] at h
    split at h
    · rename_i hr
      simp only [Option.some.injEq, Prod.mk.injEq] at h
      obtain ⟨rfl, rfl, rfl⟩ := h
      exact ⟨rfl, by simpa using hr⟩
    · split at h
      · rename_i a1 z1 b1 h1
        simp only [Option.some.injEq, Prod.mk.injEq] at h
        obtain ⟨rfl, rfl, rfl⟩ := h
        obtain ⟨e, hz⟩ := splitId_spec t rs a1 z1 b1 h1
        exact ⟨by rw [e]; rfl, hz⟩
      · simp at h

theorem splitId_of_mem (t : Nat) : ∀ (l : List (HNode K)), (∃ r ∈ l, r.id = t) → ∃ a z b, splitId t l = some (a, z, b)
  | [], h => by simp at h
  | r :: rs, h => by
    by_cases hr : r.id = t
    · exact ⟨[], r, rs, by simp [splitId, hr]⟩
    · obtain ⟨x, hx, hxt⟩ := h
      have : ∃ r ∈ rs, r.id = t := by
        rcases List.mem_cons.1 hx with rfl | hx
        · exact absurd hxt hr
        · exact ⟨x, hx, hxt⟩
      obtain ⟨a, z, b, h'⟩ := splitId_of_mem t rs this
      exact ⟨r :: a, z, b, by simp [splitId, hr, h']⟩

theorem splitId_insert1 (t : Nat) (c : HNode K) (hc : c.id ≠ t) (rs : List (HNode K)) (a z b)
    (h : splitId t rs = some (a, z, b)) :
    ∃ a' b', splitId t (insert1 c rs) = some (a', z, b') ∧ (a' ++ b').Perm (c :: (a ++ b)) := by
  cases rs with
  | nil => simp [splitId] at h
  | cons r rs' =>
    simp only [splitId] at h
    by_cases hr : r.id = t
    · simp only [hr, beq_self_eq_true, if_true, Option.some.injEq, Prod.mk.injEq] at h
      obtain ⟨rfl, rfl, rfl⟩ := h
      exact ⟨[], c :: rs', by simp [insert1, splitId, hr], by simp⟩
    · have hr' : (r.id == t) = false := by simp [hr]
      have hc' : (c.id == t) = false := by simp [hc]
      simp only [hr', Bool.false_eq_true, if_false] at h
      split at h
      · rename_i a1 z1 b1 h1
        simp only [Option.some.injEq, Prod.mk.injEq] at h
        obtain ⟨rfl, rfl, rfl⟩ := h
        refine ⟨r :: c :: a1, b1, by simp [insert1, splitId, hr', hc', h1], ?_⟩
        simp only [List.cons_append]
        exact List.Perm.swap _ _ _
      · simp at h

theorem splitId_appendAll (t : Nat) : ∀ (cs : List (HNode K)) (rs : List (HNode K)) (a z b),
    (∀ c ∈ cs, c.id ≠ t) → splitId t rs = some (a, z, b) →
    ∃ a' b', splitId t (appendAll rs cs) = some (a', z, b') ∧ (a' ++ b').Perm (cs ++ (a ++ b))
  | [], rs, a, z, b, _, h => ⟨a, b, by simpa [appendAll] using h, by simp⟩
  | c :: cs, rs, a, z, b, hc, h => by
    obtain ⟨a1, b1, h1, p1⟩ := splitId_insert1 t c (hc c (by simp)) rs a z b h
    obtain ⟨a2, b2, h2, p2⟩ := splitId_appendAll t cs (insert1 c rs) a1 z b1 (fun x hx => hc x (by simp [hx])) h1
    refine ⟨a2, b2, by simpa [appendAll] using h2, p2.trans ?_⟩
    refine (List.Perm.append_left cs p1).trans ?_
    simp

theorem mem_ids_of_mem_flats {rs : List (HNode K)} {x} (h : x ∈ flats rs) : x.id ∈ ids rs := by
  simp only [ids, items, List.map_map, List.mem_map]
  exact ⟨x, h, rfl⟩

/-- what `_extract_min` needs: `_min = z` is a root; every node except possibly `z` is undeleted -/
structure ExtPre (cmp : Cmp K) (h : Heap K) (zid : Nat) : Prop where
  min : h.min = some zid
  ord : Ords cmp h.roots
  nodup : (ids h.roots).Nodup
  size : h.n = (flats h.roots).length
  root : ∃ r ∈ h.roots, r.id = zid
  nodel : ∀ i ∈ items h.roots, i.1 ≠ zid → i.2.2 = false

theorem extractMin_spec {cmp : Cmp K} (T : Total cmp) (h : Heap K) (zid : Nat) (pre : ExtPre cmp h zid) :
    ∃ h' z, extractMin cmp h = .ok (h', some z) ∧ z ∈ h.roots ∧ z.id = zid ∧ Inv cmp h' ∧
      ms h.roots = {item z} + ms h'.roots := by
  obtain ⟨a, z, b, hs⟩ := splitId_of_mem zid h.roots pre.root
  obtain ⟨hroots, hz⟩ := splitId_spec zid _ _ _ _ hs
  have hnd := pre.nodup
  have hidsEq : ids h.roots = ids a ++ zid :: (ids z.kids ++ ids b) := by
    rw [hroots]; simp [ids, hz, item]
  rw [hidsEq] at hnd
  have hzk : zid ∉ ids z.kids := by
    have := (List.nodup_append.1 hnd).2.1
    have := (List.nodup_cons.1 this).1
    simp only [List.mem_append, not_or] at this
    exact this.1
  have hkids : ∀ c ∈ z.kids, c.id ≠ zid := by
    intro c hc he
    exact hzk (he ▸ mem_ids_of_mem_flats (mem_flats_of_mem hc))
  obtain ⟨a', b', hs2, hp⟩ := splitId_appendAll zid z.kids h.roots a z b hkids hs
  have hms2 : ms (a' ++ b') = ms z.kids + ms a + ms b := by
    rw [ms_perm hp]; simp only [ms_append]; ac_rfl
  have hmsr : ms h.roots = {item z} + ms (a' ++ b') := by
    rw [hms2, hroots]; ms_ac
  have hzmem : z ∈ h.roots := by rw [hroots]; simp
  have hzo : Ord cmp z := pre.ord z hzmem
  have hord2 : Ords cmp (a' ++ b') := by
    intro r hr
    have := hp.mem_iff.1 hr
    simp only [List.mem_append] at this
    rcases this with h1 | h1 | h1
    · exact ((ord_iff cmp z).1 hzo r h1).2
    · exact pre.ord r (by rw [hroots]; simp [h1])
    · exact pre.ord r (by rw [hroots]; simp [h1])
  have hidsp : (ids h.roots).Perm (zid :: ids (a' ++ b')) := by
    have : ms h.roots = ms ([⟨z.id, z.key, z.mark, z.deleted, []⟩] ++ (a' ++ b')) := by
      rw [hmsr]; simp only [ms_append, ms_cons, ms_nil, item]; ac_rfl
    have := ids_perm_of_ms this
    simpa [ids, hz, item] using this
  have hnd2 : (ids (a' ++ b')).Nodup := (List.nodup_cons.1 (hidsp.nodup pre.nodup)).2
  have hznot : zid ∉ ids (a' ++ b') := (List.nodup_cons.1 (hidsp.nodup pre.nodup)).1
  have hdel2 : NoDel (a' ++ b') := by
    intro i hi
    apply pre.nodel i
    · apply mem_ms.1; rw [hmsr]; exact Multiset.mem_add.2 (Or.inr (mem_ms.2 hi))
    · intro he; exact hznot (he ▸ List.mem_map_of_mem hi)
  have hcard : (flats h.roots).length = 1 + (flats (a' ++ b')).length := by
    have := congrArg Multiset.card hmsr
    simpa only [Multiset.card_add, card_ms, Multiset.card_singleton] using this
  have hn0 : h.n ≠ 0 := by rw [pre.size, hcard]; omega
  simp only [extractMin, pre.min, hs, hs2, hn0, if_false]
  cases hh : (b' ++ a').head? with
  | none =>
    have hnil : b' ++ a' = [] := by simpa using hh
    have ha' : a' = [] := (List.append_eq_nil_iff.1 hnil).2
    have hb' : b' = [] := (List.append_eq_nil_iff.1 hnil).1
    subst ha' hb'
    refine ⟨_, z, rfl, hzmem, hz, ?_, by simpa using hmsr⟩
    refine ⟨by simp [Ords], by simp [NoDel], by simp [ids], ?_, by simp [MinOk]⟩
    simp at hcard ⊢; rw [pre.size, hcard]
  | some right =>
    have hrm : right ∈ a' ++ b' := by
      have := List.mem_of_mem_head? hh
      simp only [List.mem_append] at this ⊢
      exact this.symm
    have hlt : (flats (a' ++ b')).length < h.n := by rw [pre.size, hcard]; omega
    obtain ⟨⟨roots3, m⟩, hc⟩ := consolidate_ok (cmp := cmp) T h.n (a' ++ b') right hord2 hdel2 hlt
    obtain ⟨c1, c2, c3⟩ := consolidate_spec T h.n (a' ++ b') right roots3 m hc hord2 hdel2 hnd2 hrm
    simp only [hc]
    refine ⟨_, z, rfl, hzmem, hz, ?_, by simp only; rw [c1]; exact hmsr⟩
    refine ⟨c2, nodel_of_ms c1.symm hdel2, nodup_of_ms c1.symm hnd2, ?_, c3⟩
    have := congrArg Multiset.card c1
    simp only [card_ms] at this
    simp only; rw [this, pre.size, hcard]; omega

end GtModel.Heap

/-
  The public operations of the L4 heap model preserve the invariant and refine the multiset of live items.
-/
import GtModel.Proofs.HeapCut

set_option linter.unusedSimpArgs false
set_option linter.unusedVariables false

namespace GtModel.Heap
variable {K : Type}

theorem inj_of_nodup_map {α : Type} (f : α → Nat) : ∀ (l : List α), (l.map f).Nodup → ∀ x ∈ l, ∀ y ∈ l, f x = f y → x = y
  | [], _, x, hx, _, _, _ => by cases hx
  | a :: l, hn, x, hx, y, hy, he => by
    have hn' : f a ∉ l.map f ∧ (l.map f).Nodup := List.nodup_cons.1 hn
    rcases List.mem_cons.1 hx with hx1 | hx1 <;> rcases List.mem_cons.1 hy with hy1 | hy1
    · rw [hx1, hy1]
    · exact absurd (List.mem_map.2 ⟨y, hy1, by rw [← he, hx1]⟩) hn'.1
    · exact absurd (List.mem_map.2 ⟨x, hx1, by rw [he, hy1]⟩) hn'.1
    · exact inj_of_nodup_map f l hn'.2 x hx1 y hy1 he

theorem node_unique {rs : List (HNode K)} (hn : (ids rs).Nodup) {x y : HNode K} (hx : x ∈ flats rs) (hy : y ∈ flats rs)
    (he : x.id = y.id) : x = y := by
  have : ((flats rs).map (·.id)).Nodup := by
    have h2 := hn
    simp only [ids, items, List.map_map] at h2
    exact h2
  exact inj_of_nodup_map (·.id) _ this x hx y hy he

theorem findNode_spec {t : Nat} {rs : List (HNode K)} {m} (h : findNode t rs = some m) : m ∈ flats rs ∧ m.id = t := by
  simp only [findNode] at h
  exact ⟨List.mem_of_find?_eq_some h, by simpa using List.find?_some h⟩

theorem findNode_some {t : Nat} {rs : List (HNode K)} (h : ∃ x ∈ flats rs, x.id = t) : ∃ m, findNode t rs = some m := by
  obtain ⟨x, hx, hxt⟩ := h
  cases hf : findNode t rs with
  | some m => exact ⟨m, rfl⟩
  | none =>
    simp only [findNode, List.find?_eq_none] at hf
    exact absurd (by simpa using hxt) (hf x hx)

theorem findNode_eq {t : Nat} {rs : List (HNode K)} (hn : (ids rs).Nodup) {x} (hx : x ∈ flats rs) (hxt : x.id = t) :
    findNode t rs = some x := by
  obtain ⟨m, hm⟩ := findNode_some ⟨x, hx, hxt⟩
  obtain ⟨h1, h2⟩ := findNode_spec hm
  rw [hm, node_unique hn h1 hx (h2.trans hxt.symm)]

theorem nodel_flats {rs : List (HNode K)} (h : NoDel rs) {x} (hx : x ∈ flats rs) : x.deleted = false :=
  h (item x) (mem_items_of_mem_flats hx)

/-! ### push -/

theorem push_spec {cmp : Cmp K} (T : Total cmp) (h : Heap K) (hI : Inv cmp h) (id : Nat) (k : K) (hid : id ∉ ids h.roots) :
    ∃ h', push cmp h id k = .ok h' ∧ Inv cmp h' ∧ ms h'.roots = {(id, k, false)} + ms h.roots := by
  have hms : ms (insert1 (⟨id, k, false, false, []⟩ : HNode K) h.roots) = {(id, k, false)} + ms h.roots := by
    rw [ms_insert1]; simp [item]
  have hord : Ords cmp (insert1 (⟨id, k, false, false, []⟩ : HNode K) h.roots) := by
    intro r hr
    rcases mem_insert1.1 hr with rfl | hr
    · rw [ord_iff]; intro c hc; cases hc
    · exact hI.ord r hr
  have hnodel : NoDel (insert1 (⟨id, k, false, false, []⟩ : HNode K) h.roots) := by
    intro i hi
    have := mem_ms.2 hi
    rw [hms] at this
    rcases Multiset.mem_add.1 this with h1 | h1
    · simp at h1; rw [h1]
    · exact hI.nodel i (mem_ms.1 h1)
  have hnodup : (ids (insert1 (⟨id, k, false, false, []⟩ : HNode K) h.roots)).Nodup := by
    have : ms (insert1 (⟨id, k, false, false, []⟩ : HNode K) h.roots) = ms ((⟨id, k, false, false, []⟩ : HNode K) :: h.roots) := by
      rw [hms]; simp [item]
    have hp := ids_perm_of_ms this
    refine hp.symm.nodup ?_
    simp only [ids, items_cons, items_nil, List.nil_append, List.map_cons, item]
    exact List.nodup_cons.2 ⟨hid, hI.nodup⟩
  have hsize : h.n + 1 = (flats (insert1 (⟨id, k, false, false, []⟩ : HNode K) h.roots)).length := by
    have := congrArg Multiset.card hms
    simp only [card_ms, Multiset.card_add, Multiset.card_singleton] at this
    rw [this, hI.size]; omega
  cases hmin : h.min with
  | none =>
    simp only [push, hmin]
    refine ⟨_, rfl, ⟨hord, hnodel, hnodup, hsize, ?_⟩, hms⟩
    exact ⟨_, mem_insert1.2 (Or.inl rfl), rfl, by
      intro r' hr'
      have hnil : h.roots = [] := by have := hI.minOk; rw [hmin] at this; exact this
      rw [hnil] at hr'
      simp only [insert1, List.mem_singleton] at hr'
      subst hr'; exact T.irrefl _⟩
  | some mid =>
    have hmo := hI.minOk
    rw [hmin] at hmo
    obtain ⟨r, hr, hrid, hrmin⟩ := hmo
    have hf : findNode mid h.roots = some r := findNode_eq hI.nodup (mem_flats_of_mem hr) hrid
    simp only [push, hmin, hf]
    refine ⟨_, rfl, ⟨hord, hnodel, hnodup, hsize, ?_⟩, hms⟩
    simp only [nodeLt, Bool.false_and, Bool.false_or]
    cases hlt : cmp.lt k r.key
    · simp only [Bool.false_eq_true, if_false]
      refine ⟨r, mem_insert1.2 (Or.inr hr), hrid, ?_⟩
      intro r' hr'
      rcases mem_insert1.1 hr' with rfl | hr'
      · exact hlt
      · exact hrmin r' hr'
    · simp only [if_true]
      refine ⟨_, mem_insert1.2 (Or.inl rfl), rfl, ?_⟩
      intro r' hr'
      rcases mem_insert1.1 hr' with rfl | hr'
      · exact T.irrefl _
      · exact T.ntrans _ _ _ (hrmin r' hr') (T.asymm _ _ hlt)

/-! ### pop / peek -/

theorem dropDeleted_inv {cmp : Cmp K} (h : Heap K) (hI : Inv cmp h) (fuel : Nat) : dropDeleted cmp fuel h = .ok h := by
  unfold dropDeleted
  cases hmin : h.min with
  | none => rfl
  | some mid =>
    have hmo := hI.minOk
    rw [hmin] at hmo
    obtain ⟨r, hr, hrid, _⟩ := hmo
    have hf : findNode mid h.roots = some r := findNode_eq hI.nodup (mem_flats_of_mem hr) hrid
    simp only [hf, nodel_flats hI.nodel (mem_flats_of_mem hr), Bool.false_eq_true, if_false]

theorem extPre_of_inv {cmp : Cmp K} (h : Heap K) (hI : Inv cmp h) (mid : Nat) (hmin : h.min = some mid) : ExtPre cmp h mid := by
  have hmo := hI.minOk
  rw [hmin] at hmo
  obtain ⟨r, hr, hrid, _⟩ := hmo
  exact ⟨hmin, hI.ord, hI.nodup, hI.size, ⟨r, hr, hrid⟩, fun i hi _ => hI.nodel i hi⟩

theorem min_le_all {cmp : Cmp K} (T : Total cmp) (h : Heap K) (hI : Inv cmp h) (mid : Nat) (hmin : h.min = some mid)
    (z : HNode K) (hz : z ∈ h.roots) (hzid : z.id = mid) : ∀ i ∈ items h.roots, cmp.lt i.2.1 z.key = false := by
  have hmo := hI.minOk
  rw [hmin] at hmo
  obtain ⟨r, hr, hrid, hrmin⟩ := hmo
  have : z = r := node_unique hI.nodup (mem_flats_of_mem hz) (mem_flats_of_mem hr) (hzid.trans hrid.symm)
  subst this
  intro i hi
  obtain ⟨s, hs, his⟩ := mem_items_root hi
  exact T.ntrans _ _ _ (root_le_all T s (hI.ord s hs) i his) (hrmin s hs)

theorem pop_empty {cmp : Cmp K} (h : Heap K) (hI : Inv cmp h) (he : h.roots = []) : pop cmp h = .error .attributeError := by
  have hmin : h.min = none := by
    cases hm : h.min with
    | none => rfl
    | some mid =>
      have hmo := hI.minOk
      rw [hm] at hmo
      obtain ⟨r, hr, _⟩ := hmo
      rw [he] at hr; cases hr
  simp only [pop, dropDeleted_inv h hI, extractMin, hmin]

theorem min_some_of_nonempty {cmp : Cmp K} (h : Heap K) (hI : Inv cmp h) (hne : h.roots ≠ []) : ∃ mid, h.min = some mid := by
  cases hm : h.min with
  | none => have := hI.minOk; rw [hm] at this; exact absurd this hne
  | some mid => exact ⟨mid, rfl⟩

theorem pop_spec {cmp : Cmp K} (T : Total cmp) (h : Heap K) (hI : Inv cmp h) (hne : h.roots ≠ []) :
    ∃ h' z, pop cmp h = .ok (h', z.id) ∧ Inv cmp h' ∧ ms h.roots = {item z} + ms h'.roots ∧ z.deleted = false ∧
      ∀ i ∈ items h.roots, cmp.lt i.2.1 z.key = false := by
  obtain ⟨mid, hmin⟩ := min_some_of_nonempty h hI hne
  obtain ⟨h', z, he, hz, hzid, hI', hms⟩ := extractMin_spec T h mid (extPre_of_inv h hI mid hmin)
  refine ⟨h', z, by simp only [pop, dropDeleted_inv h hI, he], hI', hms, nodel_flats hI.nodel (mem_flats_of_mem hz), ?_⟩
  exact min_le_all T h hI mid hmin z hz hzid

theorem peek_empty {cmp : Cmp K} (h : Heap K) (hI : Inv cmp h) (he : h.roots = []) : peek cmp h = .error .attributeError := by
  have hmin : h.min = none := by
    cases hm : h.min with
    | none => rfl
    | some mid =>
      have hmo := hI.minOk
      rw [hm] at hmo
      obtain ⟨r, hr, _⟩ := hmo
      rw [he] at hr; cases hr
  simp only [peek, dropDeleted_inv h hI, hmin]

theorem peek_spec {cmp : Cmp K} (T : Total cmp) (h : Heap K) (hI : Inv cmp h) (hne : h.roots ≠ []) :
    ∃ z ∈ h.roots, peek cmp h = .ok (h, z.id) ∧ z.deleted = false ∧ ∀ i ∈ items h.roots, cmp.lt i.2.1 z.key = false := by
  obtain ⟨mid, hmin⟩ := min_some_of_nonempty h hI hne
  have hmo := hI.minOk
  rw [hmin] at hmo
  obtain ⟨r, hr, hrid, _⟩ := hmo
  refine ⟨r, hr, by simp only [peek, dropDeleted_inv h hI, hmin, hrid], nodel_flats hI.nodel (mem_flats_of_mem hr), ?_⟩
  exact min_le_all T h hI mid hmin r hr hrid

/-! ### decrease_key / remove -/

theorem cutNode_none {cmp : Cmp K} (t : Nat) (upd : HNode K → HNode K) :
    ∀ (n : HNode K), cutNode cmp t upd n = none → ∀ x ∈ flats n.kids, x.id ≠ t
  | ⟨i, k, m, d, ks⟩, h => by
    simp only [cutNode] at h
    split at h
    · simp at h
    · rename_i hk
      exact cutKids_none t upd k d ks hk
where
  cutKids_none {cmp : Cmp K} (t : Nat) (upd : HNode K → HNode K) (pk : K) (pd : Bool) :
      ∀ (ks : List (HNode K)), cutKids cmp t upd pk pd ks = none → ∀ x ∈ flats ks, x.id ≠ t
    | [], _ => by simp
    | c :: cs, h => by
      simp only [cutKids] at h
      split at h
      · split at h <;> simp at h
      · rename_i hid
        split at h
        · split at h
          · split at h <;> simp at h
          · simp at h
        · rename_i hc
          split at h
          · simp at h
          · rename_i hcs
            intro x hx
            simp only [flats_cons, List.mem_cons, List.mem_append] at hx
            rcases hx with (rfl | hx) | hx
            · simpa using hid
            · exact cutNode_none t upd c hc x hx
            · exact cutKids_none t upd pk pd cs hcs x hx

theorem cutRoots_none {cmp : Cmp K} (t : Nat) (upd : HNode K → HNode K) :
    ∀ (rs : List (HNode K)), cutRoots cmp t upd rs = none → ∀ x ∈ flats rs, x.id ≠ t
  | [], _ => by simp
  | r :: rs, h => by
    simp only [cutRoots] at h
    split at h
    · simp at h
    · rename_i hid
      split at h
      · simp at h
      · rename_i hc
        split at h
        · simp at h
        · rename_i hrs
          intro x hx
          simp only [flats_cons, List.mem_cons, List.mem_append] at hx
          rcases hx with (rfl | hx) | hx
          · simpa using hid
          · exact cutNode_none t upd r hc x hx
          · exact cutRoots_none t upd rs hrs x hx

theorem nodup_ids_iff (rs : List (HNode K)) : (ids rs).Nodup ↔ ((ms rs).map (·.1)).Nodup := by
  simp [ids, ms]

theorem forall₂_left {α : Type} {R : α → α → Prop} : ∀ {l l' : List α}, List.Forall₂ R l l' → ∀ x ∈ l, ∃ y ∈ l', R x y
  | _, _, .nil, x, hx => by cases hx
  | _, _, .cons (a := a) (b := b) h t, x, hx => by
    rcases List.mem_cons.1 hx with rfl | hx
    · exact ⟨b, by simp, h⟩
    · obtain ⟨y, hy, hr⟩ := forall₂_left t x hx; exact ⟨y, by simp [hy], hr⟩

theorem forall₂_right {α : Type} {R : α → α → Prop} : ∀ {l l' : List α}, List.Forall₂ R l l' → ∀ y ∈ l', ∃ x ∈ l, R x y
  | _, _, .nil, y, hy => by cases hy
  | _, _, .cons (a := a) (b := b) h t, y, hy => by
    rcases List.mem_cons.1 hy with rfl | hy
    · exact ⟨a, by simp, h⟩
    · obtain ⟨x, hx, hr⟩ := forall₂_right t y hy; exact ⟨x, by simp [hx], hr⟩

/-- `remove(node)` for a node of the heap: the invariant is preserved and exactly that node disappears -/
theorem remove_spec {cmp : Cmp K} (T : Total cmp) (h : Heap K) (hI : Inv cmp h) (t : Nat) (hin : ∃ x ∈ flats h.roots, x.id = t) :
    ∃ h' x, remove cmp h t = .ok h' ∧ Inv cmp h' ∧ x ∈ flats h.roots ∧ x.id = t ∧ ms h.roots = {item x} + ms h'.roots := by
  have hU : KeepsShape (fun x : HNode K => { x with deleted := true }) := fun x => ⟨rfl, rfl⟩
  cases hc : cutRoots cmp t (fun x => { x with deleted := true }) h.roots with
  | none =>
    obtain ⟨x, hx, hxt⟩ := hin
    exact absurd hxt (cutRoots_none t _ h.roots hc x hx)
  | some res =>
    obtain ⟨rs', cuts⟩ := res
    obtain ⟨x, rest, hx, hxt, h1, h2, h3, h4, h5, h6, h7⟩ := cutRoots_spec T t _ hU h.roots rs' cuts hc hI.ord
      (fun y _ _ => T.irrefl _)
    have hmsn : ms (appendAll rs' cuts) = {(t, x.key, true)} + rest := by
      rw [ms_appendAll, Multiset.add_comm, h2]; simp [item, hxt]
    have hrestsub : ∀ i ∈ rest, i ∈ items h.roots := by
      intro i hi; apply mem_ms.1; rw [h1]; exact Multiset.mem_add.2 (Or.inr hi)
    have hidm : (ms (appendAll rs' cuts)).map (·.1) = (ms h.roots).map (·.1) := by
      rw [hmsn, h1]; simp [item, hxt]
    have pre : ExtPre cmp ⟨appendAll rs' cuts, some t, h.n⟩ t := by
      refine ⟨rfl, ?_, ?_, ?_, ?_, ?_⟩
      · intro r hr
        rcases mem_appendAll.1 hr with hr | hr
        · exact h4 r hr
        · exact h3 r hr
      · simp only; rw [nodup_ids_iff, hidm, ← nodup_ids_iff]; exact hI.nodup
      · simp only
        have := congrArg Multiset.card hidm
        simp only [Multiset.card_map, card_ms] at this
        rw [this]; exact hI.size
      · simp only
        rcases h7 with ⟨c, hc, hct, _⟩ | ⟨r', hr', hrt, _⟩ | ⟨r', hr', _, p, hp, hdel⟩
        · exact ⟨c, mem_appendAll.2 (Or.inl hc), hct⟩
        · exact ⟨r', mem_appendAll.2 (Or.inr hr'), hrt⟩
        · have := nodel_flats hI.nodel hp
          simp [this] at hdel
      · intro i hi hne
        have := mem_ms.2 hi
        simp only at this
        rw [hmsn] at this
        rcases Multiset.mem_add.1 this with hh | hh
        · simp at hh; rw [hh] at hne; exact absurd rfl hne
        · exact hI.nodel i (hrestsub i hh)
    obtain ⟨h', z, he, hz, hzid, hI', hms'⟩ := extractMin_spec T _ t pre
    simp only at hms' hz
    have hitemz : item z = (t, x.key, true) := by
      have hzin : item z ∈ ms (appendAll rs' cuts) := mem_ms.2 (mem_items_of_mem_flats (mem_flats_of_mem hz))
      rw [hmsn] at hzin
      rcases Multiset.mem_add.1 hzin with hh | hh
      · simpa using hh
      · exfalso
        have hnd := (nodup_ids_iff h.roots).1 hI.nodup
        rw [h1] at hnd
        rw [Multiset.singleton_add, Multiset.map_cons, Multiset.nodup_cons] at hnd
        apply hnd.1
        exact Multiset.mem_map.2 ⟨item z, hh, by simp [item, hzid, hxt]⟩
    have hrest : rest = ms h'.roots := by
      rw [hmsn, hitemz] at hms'
      exact Multiset.add_right_inj.1 hms'
    refine ⟨h', x, by simp only [remove, hc, he], hI', hx, hxt, by rw [h1, hrest]⟩

theorem decreaseKey_notInHeap {cmp : Cmp K} (h : Heap K) (t : Nat) (k : K) (hnot : ∀ x ∈ flats h.roots, x.id ≠ t) :
    decreaseKey cmp h t k = .error .notInHeap := by
  have : findNode t h.roots = none := by
    simp only [findNode, List.find?_eq_none]
    intro x hx; simpa using hnot x hx
  simp only [decreaseKey, this]

theorem decreaseKey_valueError {cmp : Cmp K} (h : Heap K) (hI : Inv cmp h) (t : Nat) (k : K) (x : HNode K)
    (hx : x ∈ flats h.roots) (hxt : x.id = t) (hlt : cmp.lt x.key k = true) : decreaseKey cmp h t k = .error .valueError := by
  simp only [decreaseKey, findNode_eq hI.nodup hx hxt, hlt, if_true]

/-- `decrease_key(x, k)` with `k` not larger than the current key: invariant preserved, exactly that key changes -/
theorem decreaseKey_spec {cmp : Cmp K} (T : Total cmp) (h : Heap K) (hI : Inv cmp h) (t : Nat) (k : K) (x : HNode K)
    (hx : x ∈ flats h.roots) (hxt : x.id = t) (hle : cmp.lt x.key k = false) :
    ∃ h' rest, decreaseKey cmp h t k = .ok h' ∧ Inv cmp h' ∧ ms h.roots = {(t, x.key, false)} + rest ∧
      ms h'.roots = {(t, k, false)} + rest := by
  have hU : KeepsShape (fun x : HNode K => { x with key := k }) := fun x => ⟨rfl, rfl⟩
  have hxd : x.deleted = false := nodel_flats hI.nodel hx
  have hu : ∀ y ∈ flats h.roots, y.id = t → cmp.lt y.key ({ y with key := k } : HNode K).key = false := by
    intro y hy hyt
    have : y = x := node_unique hI.nodup hy hx (hyt.trans hxt.symm)
    subst this; exact hle
  cases hc : cutRoots cmp t (fun x => { x with key := k }) h.roots with
  | none => exact absurd hxt (cutRoots_none t _ h.roots hc x hx)
  | some res =>
    obtain ⟨rs', cuts⟩ := res
    obtain ⟨x0, rest, hx0, hx0t, h1, h2, h3, h4, h5, h6, h7⟩ := cutRoots_spec T t _ hU h.roots rs' cuts hc hI.ord hu
    have : x0 = x := node_unique hI.nodup hx0 hx (hx0t.trans hxt.symm)
    subst this
    simp only at h2 h5 h6 h7
    have hmsn : ms (appendAll rs' cuts) = {(t, k, false)} + rest := by
      rw [ms_appendAll, Multiset.add_comm, h2]; simp [item, hxt, hxd]
    have hmso : ms h.roots = {(t, x0.key, false)} + rest := by rw [h1]; simp [item, hxt, hxd]
    have hidm : (ms (appendAll rs' cuts)).map (·.1) = (ms h.roots).map (·.1) := by
      rw [hmsn, hmso]; simp
    have hnodup : (ids (appendAll rs' cuts)).Nodup := by
      rw [nodup_ids_iff, hidm, ← nodup_ids_iff]; exact hI.nodup
    have hord : Ords cmp (appendAll rs' cuts) := by
      intro r hr
      rcases mem_appendAll.1 hr with hr | hr
      · exact h4 r hr
      · exact h3 r hr
    have hnodel : NoDel (appendAll rs' cuts) := by
      intro i hi
      have := mem_ms.2 hi
      rw [hmsn] at this
      rcases Multiset.mem_add.1 this with hh | hh
      · simp at hh; rw [hh]
      · apply hI.nodel i; apply mem_ms.1; rw [h1]; exact Multiset.mem_add.2 (Or.inr hh)
    have hsize : h.n = (flats (appendAll rs' cuts)).length := by
      have := congrArg Multiset.card hidm
      simp only [Multiset.card_map, card_ms] at this
      rw [this]; exact hI.size
    -- the old minimum
    have hne : h.roots ≠ [] := by intro he; rw [he] at hx; simp at hx
    obtain ⟨mid, hmin⟩ := min_some_of_nonempty h hI hne
    have hmo := hI.minOk
    rw [hmin] at hmo
    obtain ⟨r, hr, hrid, hrmin⟩ := hmo
    obtain ⟨m', hm', hrel⟩ := forall₂_left h5 r hr
    obtain ⟨hm'id, hm'le, _⟩ := hrel
    have hm'R : m' ∈ appendAll rs' cuts := mem_appendAll.2 (Or.inr hm')
    have hf : findNode mid (appendAll rs' cuts) = some m' :=
      findNode_eq hnodup (mem_flats_of_mem hm'R) (hm'id.trans hrid)
    have claimA : ∀ y ∈ appendAll rs' cuts, (y.id = t ∧ y.key = k) ∨ cmp.lt y.key r.key = false := by
      intro y hy
      rcases mem_appendAll.1 hy with hy | hy
      · rcases h6 y hy with hh | ⟨q, hq, hh⟩
        · exact Or.inl hh
        · exact Or.inr (T.ntrans _ _ _ hh (hrmin q hq))
      · obtain ⟨q, hq, hqid, _, hqk | ⟨hqt, hqk⟩⟩ := forall₂_right h5 y hy
        · exact Or.inr (hqk ▸ hrmin q hq)
        · exact Or.inl ⟨hqid.trans hqt, hqk⟩
    refine ⟨_, rest, by simp only [decreaseKey, findNode_eq hI.nodup hx0 hxt, hle, hc, hmin, hf]; rfl, ?_, hmso, hmsn⟩
    refine ⟨hord, hnodel, hnodup, hsize, ?_⟩
    simp only [nodeLt, hxd, Bool.false_and, Bool.false_or]
    cases hlt : cmp.lt k m'.key
    · simp only [Bool.false_eq_true, if_false]
      refine ⟨m', hm'R, hm'id.trans hrid, ?_⟩
      intro y hy
      rcases claimA y hy with ⟨_, hyk⟩ | hh
      · rw [hyk]; exact hlt
      · exact T.ntrans _ _ _ hh hm'le
    · simp only [if_true]
      have hmin' : ∀ y ∈ appendAll rs' cuts, cmp.lt y.key k = false := by
        intro y hy
        rcases claimA y hy with ⟨_, hyk⟩ | hh
        · rw [hyk]; exact T.irrefl _
        · exact T.ntrans _ _ _ (T.ntrans _ _ _ hh hm'le) (T.asymm _ _ hlt)
      have hex : ∃ y ∈ appendAll rs' cuts, y.id = t ∧ y.key = k := by
        rcases h7 with ⟨c, hc, hh⟩ | ⟨r', hr', hh⟩ | ⟨q', hq', hkq, _⟩
        · exact ⟨c, mem_appendAll.2 (Or.inl hc), hh⟩
        · exact ⟨r', mem_appendAll.2 (Or.inr hr'), hh⟩
        · have hq'R : q' ∈ appendAll rs' cuts := mem_appendAll.2 (Or.inr hq')
          rcases claimA q' hq'R with hh | hh
          · exact ⟨q', hq'R, hh⟩
          · exfalso
            have := T.ntrans _ _ _ (T.ntrans _ _ _ hkq hh) hm'le
            rw [hlt] at this; cases this
      obtain ⟨y, hy, hyt, hyk⟩ := hex
      exact ⟨y, hy, hyt, fun y' hy' => hyk ▸ hmin' y' hy'⟩

end GtModel.Heap

/-
  The ghost data of the structural classes (mutual structural recursion over the machines) and the compositional
  lemmas for kvp / fixed.
-/
import GtModel.Proofs.LazyDefsMs

namespace GtModel.Lazy

/-! ### ghost data, structural part; `ed`, `coll`, `ms` machines are atoms whose ghost data is a parameter -/

mutual
def finG (a : Ghost) : M → Nat
  | .const _ c => c
  | .kvp _ k v => finG a k + finG a v
  | .str _ e => finG a e
  | .fixed _ subs tail => finL a subs + tailCost tail
  | .ed _ s cells => edFinOf s (finLL a cells)
  | .coll _ _ p q => finL a q + finL a p
  | .ms _ s k w e => (w.assign.map (finAt (finLL a e))).sum + finL a k + extraOf s w w.assign
def finL (a : Ghost) : List M → Nat
  | [] => 0
  | m :: ms => finG a m + finL a ms
def finRow (a : Ghost) : List M → List Nat
  | [] => []
  | m :: ms => finG a m :: finRow a ms
/-- the matrix of the cells' final costs -/
def finLL (a : Ghost) : List (List M) → List (List Nat)
  | [] => []
  | r :: rs => finRow a r :: finLL a rs
end

mutual
def viewG (a : Ghost) : M → Iv
  | .const _ c => Iv.point c
  | .kvp _ k v => (viewG a k).add (viewG a v)
  | .str _ e => viewG a e
  | .fixed _ subs tail => ⟨(viewL a subs).lo + tailCost tail, (viewL a subs).hi + tailCost tail⟩
  | .ed _ s cells => edViewOf s (finLL a cells)
  | .coll _ s _ q =>
      match s.cost with
      | some c => c
      | none =>
        if s.iterDone then ⟨(viewL a q).lo, Nat.min s.ub0 (viewL a q).hi⟩
        else ⟨(viewL a q).lo, Nat.min s.ub0 (s.ub0 - decL a q s.inits)⟩
  | .ms _ s k w e =>
      let b1 : Iv := ⟨(wmViewV w (viewLL a e)).lo + (viewL a k).lo, (wmViewV w (viewLL a e)).hi + (viewL a k).hi⟩
      match leftIv s w with
      | some r => b1.add r
      | none => b1
def viewL (a : Ghost) : List M → Iv
  | [] => ⟨0, 0⟩
  | m :: ms => (viewG a m).add (viewL a ms)
def viewRow (a : Ghost) : List M → List Iv
  | [] => []
  | m :: ms => viewG a m :: viewRow a ms
/-- the matrix of the edges' intervals -/
def viewLL (a : Ghost) : List (List M) → List (List Iv)
  | [] => []
  | r :: rs => viewRow a r :: viewLL a rs
def decL (a : Ghost) : List M → List Nat → Nat
  | [], _ => 0
  | m :: ms, is => (is.headD 0 - (viewG a m).hi) + decL a ms is.tail
end

mutual
/-- structural measure: the number of `True` steps still possible -/
def muG (a : Ghost) : M → Nat
  | .const _ _ => 0
  | .kvp _ k v => muG a k + muG a v
  | .str _ e => muG a e
  | .fixed _ subs tail => muL a subs + ((viewL a subs).hi - (viewL a subs).lo)
  | .ed _ s cells => edMu0 s + muLL2 a cells
  | .coll l s p q =>
      muL a q + muL a p + p.length + (if s.iterDone then 0 else 1)
        + ((viewG a (.coll l s p q)).hi - (viewG a (.coll l s p q)).lo)
  | .ms l s k w e =>
      muL a k + muLL2 a e + wmFlags w + ((viewG a (.ms l s k w e)).hi - (viewG a (.ms l s k w e)).lo)
def muL (a : Ghost) : List M → Nat
  | [] => 0
  | m :: ms => muG a m + muL a ms
def muLL2 (a : Ghost) : List (List M) → Nat
  | [] => 0
  | r :: rs => muL a r + muLL2 a rs
end

def DScript.subs : DScript → List DScript
  | .mk _ _ _ _ subs => subs

mutual
/-- the script the harness' dump prints once the machine is definitive -/
def scriptG (a : Ghost) : M → DScript
  | .const l c => .mk l.kind l.fi l.ti (Iv.point c) []
  | .kvp l k v => .mk l.kind l.fi l.ti (Iv.point (finG a k + finG a v)) [scriptG a k, scriptG a v]
  | .str l e => .mk l.kind l.fi l.ti (Iv.point (finG a e)) (scriptG a e).subs
  | .fixed l subs tail =>
      .mk l.kind l.fi l.ti (Iv.point (finL a subs + tailCost tail)) (scriptL a subs ++ tail.map DScript.ofScript)
  | .ed l s cells =>
      .mk l.kind l.fi l.ti (Iv.point (edFinOf s (finLL a cells)))
        (matchesFrom 0 0 s.pre
          ++ edPathScripts s (scriptLL a cells) (ptrace s (finLL a cells) (s.nt + s.nf + 1) s.nt s.nf).reverse
          ++ matchesFrom (s.flen - s.suf) (s.tlen - s.suf) s.suf)
  | .coll l _ p q =>
      .mk l.kind l.fi l.ti (Iv.point (finL a q + finL a p)) (scriptL a q ++ scriptL a p)
  | .ms l s k w e =>
      .mk l.kind l.fi l.ti
        (Iv.point ((w.assign.map (finAt (finLL a e))).sum + finL a k + extraOf s w w.assign))
        (s.nMatch.map DScript.ofScript ++ scriptL a k ++ w.assign.map (scrAt (scriptLL a e))
          ++ ((unmatched w.nf (w.assign.map (·.1))).map fun x =>
              DScript.mk .remove (.at (s.remIdx.getD x 0)) .none (Iv.point (s.remCosts.getD x 0)) [])
          ++ ((unmatched w.nt (w.assign.map (·.2))).map fun x =>
              DScript.mk .insert (.at (s.insIdx.getD x 0)) .none (Iv.point (s.insCosts.getD x 0)) []))
def scriptL (a : Ghost) : List M → List DScript
  | [] => []
  | m :: ms => scriptG a m :: scriptL a ms
def scriptLL (a : Ghost) : List (List M) → List (List DScript)
  | [] => []
  | r :: rs => scriptL a r :: scriptLL a rs
end

/-- the ghost that only knows intervals, final costs, measures and scripts (used inside the invariant of `ed`) -/
def ghostOf (a : Ghost) : Ghost :=
  { I := fun _ => True, Q := fun _ => True, view := viewG a, fin := finG a, μ := muG a, script := scriptG a }

mutual
/-- the invariant; `F` = the iteration bound of the loops (`mkOps q F n`): a collection must be able to finish its
    `while True` loop within `F` iterations -/
def invG (a : Ghost) (F : Nat) : M → Prop
  | .const _ _ => True
  | .kvp _ k v => invG a F k ∧ invG a F v
  | .str _ e => invG a F e
  | .fixed _ subs _ => invL a F subs
  | .ed _ s cells => edMu0 s + muLL2 a cells < F ∧ invLL2 a F cells ∧ EdInv (ghostOf a) s cells
  | .coll _ s p q =>
      muL a q + muL a p + p.length + (if s.iterDone then 0 else 1) < F ∧
      invL a F q ∧ invL a F p ∧ HiLe (viewOnly (viewG a)) q s.inits ∧ HiLe (viewOnly (viewG a)) p s.pinits ∧
        s.inits.sum + s.pinits.sum ≤ s.ub0 ∧ (s.iterDone = true → p = [] ∧ q ≠ []) ∧
        (∀ c, s.cost = some c → s.iterDone = true ∧
            c = ⟨(viewL a q).lo, Nat.min s.ub0 (viewL a q).hi⟩ ∧ c.lo = c.hi) ∧
        (p ≠ [] ∨ q ≠ [])
  | .ms _ s k w e =>
      wmFlags w + muLL2 a e < F ∧ invL a F k ∧ invLL2 a F e ∧ MShape e w.nf w.nt ∧ AssignOK w ∧
        (∀ pairs, w.mtch = some pairs → pairs = w.assign) ∧
        (∀ b, w.memo = some b → b = Iv.point ((w.assign.map (finAt (finLL a e))).sum) ∧
          ∀ p ∈ w.assign, (ivAt (viewLL a e) p).lo = (ivAt (viewLL a e) p).hi) ∧
        s.remCosts.length = w.nf ∧ s.insCosts.length = w.nt
def invL (a : Ghost) (F : Nat) : List M → Prop
  | [] => True
  | m :: ms => invG a F m ∧ invL a F ms
def invLL2 (a : Ghost) (F : Nat) : List (List M) → Prop
  | [] => True
  | r :: rs => invL a F r ∧ invLL2 a F rs
end

mutual
def setG (a : Ghost) : M → Prop
  | .const _ _ => True
  | .kvp _ k v => setG a k ∧ setG a v
  | .str _ e => setG a e
  | .fixed _ subs _ => setL a subs
  | .ed _ s _ => edComplete s = true → s.cache.isSome = true
  | .coll _ _ _ _ => True
  | .ms _ _ k _ _ => setL a k
def setL (a : Ghost) : List M → Prop
  | [] => True
  | m :: ms => setG a m ∧ setL a ms
end

mutual
/-- nesting depth of the structural part (atoms count 1; their own depth is the atom hypothesis' business) -/
def height : M → Nat
  | .const _ _ => 1
  | .kvp _ k v => Nat.max (height k) (height v) + 1
  | .str _ e => height e + 1
  | .fixed _ subs _ => heightL subs + 1
  | .ed _ _ cells => heightLL cells + 1
  | .coll _ _ p q => Nat.max (heightL q) (heightL p) + 1
  | .ms _ _ k _ e => Nat.max (heightL k) (heightLL e) + 1
def heightL : List M → Nat
  | [] => 0
  | m :: ms => Nat.max (height m) (heightL ms)
def heightLL : List (List M) → Nat
  | [] => 0
  | r :: rs => Nat.max (heightL r) (heightLL rs)
end

/-- no machine class is left abstract -/
def isAtom : M → Bool
  | _ => false

/-- the ghost of all machines of structural height ≤ n over the atoms `a` -/
def G (a : Ghost) (F n : Nat) : Ghost :=
  { I := fun m => invG a F m ∧ height m ≤ n, Q := setG a, view := viewG a, fin := finG a, μ := muG a,
    script := scriptG a }

end GtModel.Lazy

namespace GtModel.Lazy

/-! ### const -/

section Classes
variable {rec : Ops} {g : Ghost}

/-! ### kvp: `bounds` adds, `tighten` is a short-circuit `or` -/

theorem kvpBounds_ok (h : Protocol rec g) (l : Lbl) (k v : M) (hk : g.I k) (hv : g.I v) :
    ∃ k' v', kvpBounds rec l k v = .ok (.kvp l k' v', (g.view k).add (g.view v)) ∧
      Pres g k k' ∧ g.Q k' ∧ Pres g v v' ∧ g.Q v' := by
  obtain ⟨k', ek, pk, qk⟩ := h.bounds k hk
  obtain ⟨v', ev, pv, qv⟩ := h.bounds v hv
  exact ⟨k', v', by simp [kvpBounds, ek, ev, bind, Except.bind, pure, Except.pure], pk, qk, pv, qv⟩

theorem kvpTighten_ok (h : Protocol rec g) (l : Lbl) (k v : M) (hk : g.I k) (hv : g.I v) :
    ∃ k' v' r, kvpTighten rec l k v = .ok (.kvp l k' v', r) ∧
      ((r = true ∧ Step g k k' true ∧ v' = v) ∨ (Step g k k' false ∧ Step g v v' r)) := by
  obtain ⟨k', rk, ek, sk⟩ := h.tighten k hk
  cases rk with
  | true =>
    exact ⟨k', v, true, by simp [kvpTighten, ek, bind, Except.bind, pure, Except.pure], Or.inl ⟨rfl, sk, rfl⟩⟩
  | false =>
    obtain ⟨v', rv, ev, sv⟩ := h.tighten v hv
    exact ⟨k', v', rv, by simp [kvpTighten, ek, ev, bind, Except.bind, pure, Except.pure], Or.inr ⟨sk, sv⟩⟩

/-! ### lists of sub-edits: aggregates -/

/-- `ms'` is `ms` after some operations on its elements -/
structure Agg (g : Ghost) (ms ms' : List M) : Prop where
  inv : ∀ m ∈ ms', g.I m
  fin : sumFin g ms' = sumFin g ms
  lo : sumLo g ms ≤ sumLo g ms'
  hi : sumHi g ms' ≤ sumHi g ms
  mu : sumMu g ms' ≤ sumMu g ms
  scr : ms'.map g.script = ms.map g.script

theorem Agg.refl (ms : List M) (h : ∀ m ∈ ms, g.I m) : Agg g ms ms :=
  ⟨h, rfl, Nat.le_refl _, Nat.le_refl _, Nat.le_refl _, rfl⟩

theorem Agg.trans {a b c : List M} (h1 : Agg g a b) (h2 : Agg g b c) : Agg g a c :=
  ⟨h2.inv, h2.fin.trans h1.fin, Nat.le_trans h1.lo h2.lo, Nat.le_trans h2.hi h1.hi, Nat.le_trans h2.mu h1.mu,
    h2.scr.trans h1.scr⟩

theorem sum_wf (h : Protocol rec g) (ms : List M) (hI : ∀ m ∈ ms, g.I m) :
    sumLo g ms ≤ sumFin g ms ∧ sumFin g ms ≤ sumHi g ms := by
  induction ms with
  | nil => simp [sumLo, sumFin, sumHi]
  | cons m ms ih =>
    have hm := h.wf m (hI m (by simp))
    have := ih (fun x hx => hI x (by simp [hx]))
    simp only [sumLo, sumFin, sumHi]; omega

/-- `bounds()` on every element: nothing changes but every element is settled -/
theorem fixedBoundsGo_ok (h : Protocol rec g) (ms : List M) (hI : ∀ m ∈ ms, g.I m) :
    ∃ ms', fixedBoundsGo rec ms = .ok (ms', sumLo g ms, sumHi g ms) ∧ Agg g ms ms' ∧
      sumLo g ms' = sumLo g ms ∧ sumHi g ms' = sumHi g ms ∧ (∀ m ∈ ms', g.Q m) := by
  induction ms with
  | nil => exact ⟨[], rfl, Agg.refl [] (by simp), rfl, rfl, by simp⟩
  | cons m ms ih =>
    obtain ⟨m', em, pm, qm⟩ := h.bounds m (hI m (by simp))
    obtain ⟨ms', ems, ag, elo, ehi, qs⟩ := ih (fun x hx => hI x (by simp [hx]))
    refine ⟨m' :: ms', ?_, ⟨?_, ?_, ?_, ?_, ?_, by simp only [List.map, pm.scr, ag.scr]⟩, ?_, ?_, ?_⟩
    · simp [fixedBoundsGo, em, ems, bind, Except.bind, pure, Except.pure, sumLo, sumHi]
    · intro x hx
      rcases List.mem_cons.mp hx with rfl | hx
      · exact pm.inv
      · exact ag.inv x hx
    · simp only [sumFin, pm.fin, ag.fin]
    · simp only [sumLo, pm.view]; have := ag.lo; omega
    · simp only [sumHi, pm.view]; have := ag.hi; omega
    · simp only [sumMu]; have := ag.mu; have := pm.mu; omega
    · simp only [sumLo, pm.view, elo]
    · simp only [sumHi, pm.view, ehi]
    · intro x hx
      rcases List.mem_cons.mp hx with rfl | hx
      · exact qm
      · exact qs x hx

/-- outcome of the undecorated `FixedLengthSequenceEdit.tighten_bounds` -/
structure RawOut (g : Ghost) (ms ms' : List M) (r : Bool) : Prop where
  agg : Agg g ms ms'
  dec : r = true → sumMu g ms' < sumMu g ms
  strict : r = true → sumLo g ms < sumLo g ms' ∨ sumHi g ms' < sumHi g ms
  stop : r = false → sumLo g ms' = sumHi g ms'

theorem iv_ne_of_sub {a b : Iv} (hs : a.lo ≤ b.lo ∧ b.hi ≤ a.hi) (hne : b ≠ a) : a.lo < b.lo ∨ b.hi < a.hi := by
  rcases a with ⟨al, ah⟩
  rcases b with ⟨bl, bh⟩
  simp only [ne_eq, Iv.mk.injEq] at hne
  simp only at hs ⊢
  omega

theorem fixedRaw_ok (h : Protocol rec g) (ms : List M) (hI : ∀ m ∈ ms, g.I m) :
    ∃ ms' r, fixedRaw rec ms = .ok (ms', r) ∧ RawOut g ms ms' r := by
  induction ms with
  | nil =>
    exact ⟨[], false, rfl, ⟨Agg.refl [] (by simp), by simp, by simp, by simp [sumLo, sumHi]⟩⟩
  | cons m ms ih =>
    have hIm := hI m (by simp)
    have hIms : ∀ x ∈ ms, g.I x := fun x hx => hI x (by simp [hx])
    obtain ⟨m1, e1, p1, q1⟩ := h.bounds m hIm
    obtain ⟨m2, r, e2, s2⟩ := h.tighten m1 p1.inv
    cases r with
    | true =>
      obtain ⟨m3, e3, p3, _⟩ := h.bounds m2 s2.inv
      refine ⟨m3 :: ms, true, ?_, ⟨⟨?_, ?_, ?_, ?_, ?_, by simp only [List.map, p3.scr, s2.scr, p1.scr]⟩, ?_, ?_, by simp⟩⟩
      · simp [fixedRaw, e1, e2, e3, bind, Except.bind, pure, Except.pure]
      · intro x hx
        rcases List.mem_cons.mp hx with rfl | hx
        · exact p3.inv
        · exact hIms x hx
      · simp only [sumFin, p3.fin, s2.fin, p1.fin]
      · simp only [sumLo, p3.view]; have := s2.sub.1; rw [p1.view] at this; omega
      · simp only [sumHi, p3.view]; have := s2.sub.2; rw [p1.view] at this; omega
      · simp only [sumMu]; have := p3.mu; have := s2.mu; have := p1.mu; omega
      · intro _; simp only [sumMu]; have := p3.mu; have := s2.dec rfl; have := p1.mu; omega
      · intro _
        have hne := s2.strict q1 rfl
        have := iv_ne_of_sub s2.sub hne
        rw [p1.view] at this
        simp only [sumLo, sumHi, p3.view]; omega
    | false =>
      obtain ⟨ms', r', ems, out⟩ := ih hIms
      refine ⟨m2 :: ms', r', ?_, ⟨⟨?_, ?_, ?_, ?_, ?_, by simp only [List.map, s2.scr, p1.scr, out.agg.scr]⟩, ?_, ?_, ?_⟩⟩
      · simp [fixedRaw, e1, e2, ems, bind, Except.bind, pure, Except.pure]
      · intro x hx
        rcases List.mem_cons.mp hx with rfl | hx
        · exact s2.inv
        · exact out.agg.inv x hx
      · simp only [sumFin, s2.fin, p1.fin, out.agg.fin]
      · simp only [sumLo]; have := s2.sub.1; rw [p1.view] at this; have := out.agg.lo; omega
      · simp only [sumHi]; have := s2.sub.2; rw [p1.view] at this; have := out.agg.hi; omega
      · simp only [sumMu]; have := s2.mu; have := p1.mu; have := out.agg.mu; omega
      · intro hr; simp only [sumMu]; have := s2.mu; have := p1.mu; have := out.dec hr; omega
      · intro hr
        have h1 := s2.sub.1; have h2 := s2.sub.2; rw [p1.view] at h1 h2
        have := out.strict hr
        simp only [sumLo, sumHi]; omega
      · intro hr
        have := s2.stop rfl
        have := out.stop hr
        simp only [sumLo, sumHi]; omega

theorem fixedBounds_ok (h : Protocol rec g) (l : Lbl) (ms : List M) (tail : List Script) (hI : ∀ m ∈ ms, g.I m) :
    ∃ ms', fixedBounds rec l ms tail = .ok (.fixed l ms' tail, ⟨sumLo g ms + tailCost tail, sumHi g ms + tailCost tail⟩) ∧
      Agg g ms ms' ∧ sumLo g ms' = sumLo g ms ∧ sumHi g ms' = sumHi g ms ∧ (∀ m ∈ ms', g.Q m) := by
  obtain ⟨ms', e, ag, elo, ehi, qs⟩ := fixedBoundsGo_ok h ms hI
  have wf := sum_wf h ms hI
  refine ⟨ms', ?_, ag, elo, ehi, qs⟩
  have hle : ¬ (sumHi g ms + tailCost tail < sumLo g ms + tailCost tail) := by omega
  simp [fixedBounds, e, bind, Except.bind, pure, Except.pure, Iv.mk?, hle]

/-- outcome of the decorated `tighten_bounds` (sums of the sub-edits; the constant tail is added on both sides) -/
structure FixedOut (g : Ghost) (ms ms' : List M) (r : Bool) : Prop where
  agg : Agg g ms ms'
  dec : r = true → sumMu g ms' + (sumHi g ms' - sumLo g ms') < sumMu g ms + (sumHi g ms - sumLo g ms)
  strict : r = true → sumLo g ms < sumLo g ms' ∨ sumHi g ms' < sumHi g ms
  stop : r = false → sumLo g ms' = sumHi g ms'

/-- `repeat_until_tightened` around `FixedLengthSequenceEdit.tighten_bounds` terminates: ONE iteration of its loop
    suffices whenever the sub-edits obey the protocol (so any fuel ≥ 1 is enough) -/
theorem fixedLoop_ok (h : Protocol rec g) (l : Lbl) (tail : List Script) (n : Nat) (ms : List M)
    (hI : ∀ m ∈ ms, g.I m) (hnd : sumLo g ms ≠ sumHi g ms) :
    ∃ ms', fixedLoop rec l tail ⟨sumLo g ms + tailCost tail, sumHi g ms + tailCost tail⟩ (n + 1) ms
        = .ok (.fixed l ms' tail, true) ∧ FixedOut g ms ms' true := by
  obtain ⟨ms1, r, e1, out⟩ := fixedRaw_ok h ms hI
  obtain ⟨ms2, e2, ag2, elo, ehi, _⟩ := fixedBounds_ok h l ms1 tail out.agg.inv
  have wf0 := sum_wf h ms hI
  have wf1 := sum_wf h ms1 out.agg.inv
  have hlo := out.agg.lo
  have hhi := out.agg.hi
  have c1 : ¬ (sumLo g ms1 < sumLo g ms ∨ sumHi g ms < sumHi g ms1) := by omega
  have c2 : (sumLo g ms1 = sumHi g ms1 ∨ sumLo g ms < sumLo g ms1) ∨ sumHi g ms1 < sumHi g ms := by
    cases r with
    | true => have := out.strict rfl; omega
    | false => have := out.stop rfl; omega
  refine ⟨ms2, ?_, ⟨out.agg.trans ag2, ?_, ?_, by simp⟩⟩
  · simp only [fixedLoop, e1, e2, bind, Except.bind, Iv.definitive]
    simp only [pure, Except.pure, Bool.or_eq_true, decide_eq_true_eq, beq_iff_eq, Nat.add_lt_add_iff_right,
      gt_iff_lt, Nat.add_right_cancel_iff]
    rw [if_neg c1, if_pos c2]
  · intro _
    have := ag2.mu
    rw [elo, ehi]
    cases r with
    | true => have := out.dec rfl; omega
    | false => have := out.stop rfl; have := out.agg.mu; omega
  · intro _
    rw [elo, ehi]
    cases r with
    | true => exact out.strict rfl
    | false => have := out.stop rfl; omega

theorem fixedTighten_ok (h : Protocol rec g) (l : Lbl) (tail : List Script) (n : Nat) (ms : List M)
    (hI : ∀ m ∈ ms, g.I m) :
    ∃ ms' r, fixedTighten rec (n + 1) l ms tail = .ok (.fixed l ms' tail, r) ∧ FixedOut g ms ms' r := by
  obtain ⟨ms1, e1, ag1, elo, ehi, _⟩ := fixedBounds_ok h l ms tail hI
  by_cases hd : sumLo g ms = sumHi g ms
  · refine ⟨ms1, false, ?_, ⟨ag1, by simp, by simp, ?_⟩⟩
    · simp [fixedTighten, e1, bind, Except.bind, pure, Except.pure, Iv.definitive, hd]
    · intro _; rw [elo, ehi]; exact hd
  · have hd1 : sumLo g ms1 ≠ sumHi g ms1 := by rw [elo, ehi]; exact hd
    obtain ⟨ms2, e2, out⟩ := fixedLoop_ok h l tail n ms1 ag1.inv hd1
    rw [elo, ehi] at e2
    refine ⟨ms2, true, ?_, ⟨ag1.trans out.agg, ?_, ?_, by simp⟩⟩
    · simp [fixedTighten, e1, bind, Except.bind, Iv.definitive, hd, e2]
    · intro _; have h1 := out.dec rfl; have := ag1.mu; rw [elo, ehi] at h1; omega
    · intro _; have := out.strict rfl; rw [elo, ehi] at this; exact this

theorem fixedTighten_ok' (h : Protocol rec g) (l : Lbl) (tail : List Script) (n : Nat) (hn : 0 < n) (ms : List M)
    (hI : ∀ m ∈ ms, g.I m) :
    ∃ ms' r, fixedTighten rec n l ms tail = .ok (.fixed l ms' tail, r) ∧ FixedOut g ms ms' r := by
  cases n with
  | zero => exact absurd hn (Nat.lt_irrefl 0)
  | succ n => exact fixedTighten_ok h l tail n ms hI

theorem fixedComplete_ok (h : Protocol rec g) (ms : List M) (hI : ∀ m ∈ ms, g.I m) :
    ∃ ms' c, fixedComplete rec ms = .ok (ms', c) ∧ Agg g ms ms' ∧
      sumLo g ms' = sumLo g ms ∧ sumHi g ms' = sumHi g ms ∧ ((∀ m ∈ ms, g.Q m) → ∀ m ∈ ms', g.Q m) := by
  induction ms with
  | nil => exact ⟨[], true, rfl, Agg.refl [] (by simp), rfl, rfl, fun _ => by simp⟩
  | cons m ms ih =>
    have hIms : ∀ x ∈ ms, g.I x := fun x hx => hI x (by simp [hx])
    obtain ⟨m', c, em, pm, qm⟩ := h.complete m (hI m (by simp))
    cases c with
    | false =>
      refine ⟨m' :: ms, false, ?_, ⟨?_, ?_, ?_, ?_, ?_, by simp only [List.map, pm.scr]⟩, ?_, ?_, ?_⟩
      · simp [fixedComplete, em, bind, Except.bind, pure, Except.pure]
      · intro x hx
        rcases List.mem_cons.mp hx with rfl | hx
        · exact pm.inv
        · exact hIms x hx
      · simp only [sumFin, pm.fin]
      · simp only [sumLo, pm.view]; omega
      · simp only [sumHi, pm.view]; omega
      · simp only [sumMu]; have := pm.mu; omega
      · simp only [sumLo, pm.view]
      · simp only [sumHi, pm.view]
      · intro hq x hx
        rcases List.mem_cons.mp hx with rfl | hx
        · exact qm (hq m (by simp))
        · exact hq x (by simp [hx])
    | true =>
      obtain ⟨ms', c', ems, ag, elo, ehi, qs⟩ := ih hIms
      refine ⟨m' :: ms', c', ?_, ⟨?_, ?_, ?_, ?_, ?_, by simp only [List.map, pm.scr, ag.scr]⟩, ?_, ?_, ?_⟩
      · simp [fixedComplete, em, ems, bind, Except.bind, pure, Except.pure]
      · intro x hx
        rcases List.mem_cons.mp hx with rfl | hx
        · exact pm.inv
        · exact ag.inv x hx
      · simp only [sumFin, pm.fin, ag.fin]
      · simp only [sumLo, pm.view]; have := ag.lo; omega
      · simp only [sumHi, pm.view]; have := ag.hi; omega
      · simp only [sumMu]; have := pm.mu; have := ag.mu; omega
      · simp only [sumLo, pm.view, elo]
      · simp only [sumHi, pm.view, ehi]
      · intro hq x hx
        rcases List.mem_cons.mp hx with rfl | hx
        · exact qm (hq m (by simp))
        · exact qs (fun y hy => hq y (by simp [hy])) x hx

theorem mapOnDiff_ok (h : Protocol rec g) (ms : List M) (hI : ∀ m ∈ ms, g.I m) :
    ∃ ms', mapMStates rec.onDiff ms = .ok ms' ∧ Agg g ms ms' := by
  induction ms with
  | nil => exact ⟨[], rfl, Agg.refl [] (by simp)⟩
  | cons m ms ih =>
    obtain ⟨m', em, pm⟩ := h.onDiff m (hI m (by simp))
    obtain ⟨ms', ems, ag⟩ := ih (fun x hx => hI x (by simp [hx]))
    refine ⟨m' :: ms', ?_, ⟨?_, ?_, ?_, ?_, ?_, by simp only [List.map, pm.scr, ag.scr]⟩⟩
    · simp [mapMStates, em, ems, bind, Except.bind, pure, Except.pure]
    · intro x hx
      rcases List.mem_cons.mp hx with rfl | hx
      · exact pm.inv
      · exact ag.inv x hx
    · simp only [sumFin, pm.fin, ag.fin]
    · simp only [sumLo]; have := pm.sub.1; have := ag.lo; omega
    · simp only [sumHi]; have := pm.sub.2; have := ag.hi; omega
    · simp only [sumMu]; have := ag.mu; have := pm.mu; omega

/-- a definitive interval cannot shrink any further -/
theorem keeps_def_view (h : Protocol rec g) {m m' : M} (k : Keeps g m m')
    (hd : (g.view m).lo = (g.view m).hi) : g.view m' = g.view m := by
  have w := h.wf m' k.inv
  have := k.sub
  cases hv : g.view m with
  | mk lo hi =>
    cases hv' : g.view m' with
    | mk lo' hi' => rw [hv] at hd this; rw [hv'] at w this; simp only at *; simp only [Iv.mk.injEq]; omega

/-- if the sums of the lower and upper bounds agree, every element is definitive -/
theorem all_definitive (h : Protocol rec g) (ms : List M) (hI : ∀ m ∈ ms, g.I m)
    (hd : sumLo g ms = sumHi g ms) : ∀ m ∈ ms, (g.view m).lo = (g.view m).hi := by
  induction ms with
  | nil => simp
  | cons m ms ih =>
    have hm := h.wf m (hI m (by simp))
    have hr := sum_wf h ms (fun x hx => hI x (by simp [hx]))
    simp only [sumLo, sumHi] at hd
    intro x hx
    rcases List.mem_cons.mp hx with rfl | hx
    · omega
    · exact ih (fun x hx => hI x (by simp [hx])) (by omega) x hx

theorem dumpList_ok (h : Protocol rec g) (ms : List M) (hI : ∀ m ∈ ms, g.I m)
    (hd : ∀ m ∈ ms, (g.view m).lo = (g.view m).hi) :
    ∃ ms', dumpList rec ms = .ok (ms', ms.map g.script) ∧ Agg g ms ms' ∧
      sumLo g ms' = sumLo g ms ∧ sumHi g ms' = sumHi g ms := by
  induction ms with
  | nil => exact ⟨[], rfl, Agg.refl [] (by simp), rfl, rfl⟩
  | cons m ms ih =>
    obtain ⟨m', em, pm⟩ := h.dump m (hI m (by simp)) (hd m (by simp))
    have pmv := keeps_def_view h pm (hd m (by simp))
    obtain ⟨ms', ems, ag, elo, ehi⟩ := ih (fun x hx => hI x (by simp [hx])) (fun x hx => hd x (by simp [hx]))
    refine ⟨m' :: ms', ?_, ⟨?_, ?_, ?_, ?_, ?_, by simp only [List.map, pm.scr, ag.scr]⟩, ?_, ?_⟩
    · simp [dumpList, em, ems, bind, Except.bind, pure, Except.pure]
    · intro x hx
      rcases List.mem_cons.mp hx with rfl | hx
      · exact pm.inv
      · exact ag.inv x hx
    · simp only [sumFin, pm.fin, ag.fin]
    · simp only [sumLo, pmv]; have := ag.lo; omega
    · simp only [sumHi, pmv]; have := ag.hi; omega
    · simp only [sumMu]; have := ag.mu; have := pm.mu; omega
    · simp only [sumLo, pmv, elo]
    · simp only [sumHi, pmv, ehi]

end Classes

end GtModel.Lazy

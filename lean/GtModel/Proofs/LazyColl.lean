/-
  EditCollection (explode_edits = False, i.e. FixedKeyDictNodeEdit): lazily expanded sub-edits, incremental bounds,
  `_cost` memo.  Generic in the ghost `g` of the sub-edits, like the lemmas for `fixed` in LazyBase.
-/
import GtModel.Proofs.LazyBase

namespace GtModel.Lazy

section
variable {rec : Ops} {g : Ghost}

/-! ### element-wise `Keeps` on lists -/

/-- `l'` is `l` after operations on its elements -/
def KeepsL (g : Ghost) : List M → List M → Prop
  | [], [] => True
  | m :: ms, m' :: ms' => Keeps g m m' ∧ KeepsL g ms ms'
  | _, _ => False

theorem KeepsL.refl : ∀ (l : List M), (∀ m ∈ l, g.I m) → KeepsL g l l
  | [], _ => trivial
  | m :: ms, h => ⟨Keeps.refl g m (h m (by simp)), KeepsL.refl ms (fun x hx => h x (by simp [hx]))⟩

theorem KeepsL.trans : ∀ {a b c : List M}, KeepsL g a b → KeepsL g b c → KeepsL g a c
  | [], [], [], _, _ => trivial
  | _ :: _, _ :: _, _ :: _, h1, h2 => ⟨h1.1.trans h2.1, KeepsL.trans h1.2 h2.2⟩
  | [], [], _ :: _, _, h2 => h2.elim
  | [], _ :: _, _, h1, _ => h1.elim
  | _ :: _, [], _, h1, _ => h1.elim
  | _ :: _, _ :: _, [], _, h2 => h2.elim

theorem KeepsL.length : ∀ {a b : List M}, KeepsL g a b → b.length = a.length
  | [], [], _ => rfl
  | _ :: _, _ :: _, h => by simp [KeepsL.length h.2]
  | [], _ :: _, h => h.elim
  | _ :: _, [], h => h.elim

theorem KeepsL.inv : ∀ {a b : List M}, KeepsL g a b → ∀ m ∈ b, g.I m
  | [], [], _ => by simp
  | _ :: _, _ :: _, h => by
      intro x hx
      rcases List.mem_cons.mp hx with rfl | hx
      · exact h.1.inv
      · exact KeepsL.inv h.2 x hx
  | [], _ :: _, h => h.elim
  | _ :: _, [], h => h.elim

theorem KeepsL.sums : ∀ {a b : List M}, KeepsL g a b →
    sumLo g a ≤ sumLo g b ∧ sumHi g b ≤ sumHi g a ∧ sumFin g b = sumFin g a ∧ sumMu g b ≤ sumMu g a ∧
      b.map g.script = a.map g.script
  | [], [], _ => by simp [sumLo, sumHi, sumFin, sumMu]
  | x :: _, y :: _, h => by
      have ih := KeepsL.sums h.2
      have h1 := h.1
      refine ⟨?_, ?_, ?_, ?_, ?_⟩
      · simp only [sumLo]; have := h1.sub.1; omega
      · simp only [sumHi]; have := h1.sub.2; omega
      · simp only [sumFin, h1.fin, ih.2.2.1]
      · simp only [sumMu]; have := h1.mu; omega
      · simp only [List.map, h1.scr, ih.2.2.2.2]
  | [], _ :: _, h => h.elim
  | _ :: _, [], h => h.elim

/-- replacing the i-th element by something it `Keeps` -/
theorem KeepsL.set : ∀ (l : List M) (i : Nat) (x y : M), (∀ m ∈ l, g.I m) → l[i]? = some x → Keeps g x y →
    KeepsL g l (l.set i y)
  | [], _, _, _, _, h, _ => by simp at h
  | m :: ms, 0, x, y, hI, h, k => by
      simp only [List.getElem?_cons_zero, Option.some.injEq] at h
      subst h
      exact ⟨k, KeepsL.refl ms (fun z hz => hI z (by simp [hz]))⟩
  | m :: ms, i + 1, x, y, hI, h, k => by
      simp only [List.getElem?_cons_succ] at h
      exact ⟨Keeps.refl g m (hI m (by simp)), KeepsL.set ms i x y (fun z hz => hI z (by simp [hz])) h k⟩

theorem KeepsL.append : ∀ {a b : List M} (c : List M), KeepsL g a b → (∀ m ∈ c, g.I m) → KeepsL g (a ++ c) (b ++ c)
  | [], [], c, _, hc => KeepsL.refl c hc
  | _ :: _, _ :: _, c, h, hc => ⟨h.1, KeepsL.append c h.2 hc⟩
  | [], _ :: _, _, h, _ => h.elim
  | _ :: _, [], _, h, _ => h.elim

/-! ### initial upper bounds -/

theorem HiLe.dec : ∀ {l : List M} {is : List Nat}, HiLe g l is → decOf g l is + sumHi g l = is.sum
  | [], [], _ => rfl
  | m :: ms, i :: is, h => by
      have := HiLe.dec h.2
      have := h.1
      simp only [decOf, sumHi, List.headD_cons, List.tail_cons, List.sum_cons]; omega
  | [], _ :: _, h => h.elim
  | _ :: _, [], h => h.elim

theorem HiLe.keeps : ∀ {a b : List M} {is : List Nat}, HiLe g a is → KeepsL g a b → HiLe g b is
  | [], [], [], _, _ => trivial
  | _ :: _, _ :: _, _ :: _, h, k => ⟨Nat.le_trans k.1.sub.2 h.1, HiLe.keeps h.2 k.2⟩
  | [], [], _ :: _, h, _ => h.elim
  | [], _ :: _, _, _, k => k.elim
  | _ :: _, [], _, _, k => k.elim
  | _ :: _, _ :: _, [], h, _ => h.elim

theorem HiLe.append : ∀ {a : List M} {is : List Nat} {x : M} {i : Nat}, HiLe g a is → (g.view x).hi ≤ i →
    HiLe g (a ++ [x]) (is ++ [i])
  | [], [], _, _, _, hx => ⟨hx, trivial⟩
  | _ :: _, _ :: _, _, _, h, hx => ⟨h.1, HiLe.append h.2 hx⟩
  | [], _ :: _, _, _, h, _ => h.elim
  | _ :: _, [], _, _, h, _ => h.elim

theorem sumLo_append (a b : List M) : sumLo g (a ++ b) = sumLo g a + sumLo g b := by
  induction a with
  | nil => simp [sumLo]
  | cons x xs ih => simp only [List.cons_append, sumLo, ih]; omega
theorem sumHi_append (a b : List M) : sumHi g (a ++ b) = sumHi g a + sumHi g b := by
  induction a with
  | nil => simp [sumHi]
  | cons x xs ih => simp only [List.cons_append, sumHi, ih]; omega
theorem sumFin_append (a b : List M) : sumFin g (a ++ b) = sumFin g a + sumFin g b := by
  induction a with
  | nil => simp [sumFin]
  | cons x xs ih => simp only [List.cons_append, sumFin, ih]; omega
theorem sumMu_append (a b : List M) : sumMu g (a ++ b) = sumMu g a + sumMu g b := by
  induction a with
  | nil => simp [sumMu]
  | cons x xs ih => simp only [List.cons_append, sumMu, ih]; omega

/-! ### reading the sub-edits' bounds -/

/-- `bounds()` on every element (element-wise version of `fixedBoundsGo_ok`) -/
theorem boundsGo_keeps (h : Protocol rec g) : ∀ (ms : List M), (∀ m ∈ ms, g.I m) →
    ∃ ms', fixedBoundsGo rec ms = .ok (ms', sumLo g ms, sumHi g ms) ∧ KeepsL g ms ms' ∧
      sumLo g ms' = sumLo g ms ∧ sumHi g ms' = sumHi g ms ∧ (∀ m ∈ ms', g.Q m)
  | [], _ => ⟨[], rfl, trivial, rfl, rfl, by simp⟩
  | m :: ms, hI => by
    obtain ⟨m', em, pm, qm⟩ := h.bounds m (hI m (by simp))
    obtain ⟨ms', ems, k, elo, ehi, qs⟩ := boundsGo_keeps h ms (fun x hx => hI x (by simp [hx]))
    refine ⟨m' :: ms', ?_, ⟨pm.keeps, k⟩, ?_, ?_, ?_⟩
    · simp [fixedBoundsGo, em, ems, bind, Except.bind, pure, Except.pure, sumLo, sumHi]
    · simp only [sumLo, pm.view, elo]
    · simp only [sumHi, pm.view, ehi]
    · intro x hx
      rcases List.mem_cons.mp hx with rfl | hx
      · exact qm
      · exact qs x hx

/-- the incremental pass: every element's `bounds()` is read twice -/
theorem partialGo_keeps (h : Protocol rec g) : ∀ (ms : List M) (is : List Nat), (∀ m ∈ ms, g.I m) →
    ∃ ms', collPartialGo rec ms is = .ok (ms', sumLo g ms, decOf g ms is) ∧ KeepsL g ms ms' ∧
      sumLo g ms' = sumLo g ms ∧ sumHi g ms' = sumHi g ms ∧ (∀ m ∈ ms', g.Q m)
  | [], _, _ => ⟨[], rfl, trivial, rfl, rfl, by simp⟩
  | m :: ms, is, hI => by
    obtain ⟨m1, e1, p1, _⟩ := h.bounds m (hI m (by simp))
    obtain ⟨m2, e2, p2, q2⟩ := h.bounds m1 p1.inv
    obtain ⟨ms', ems, k, elo, ehi, qs⟩ := partialGo_keeps h ms is.tail (fun x hx => hI x (by simp [hx]))
    have pv := (p1.trans p2).view
    refine ⟨m2 :: ms', ?_, ⟨(p1.trans p2).keeps, k⟩, ?_, ?_, ?_⟩
    · simp [collPartialGo, e1, e2, ems, bind, Except.bind, pure, Except.pure, sumLo, decOf, p1.view]
    · simp only [sumLo, pv, elo]
    · simp only [sumHi, pv, ehi]
    · intro x hx
      rcases List.mem_cons.mp hx with rfl | hx
      · exact q2
      · exact qs x hx

/-! ### the collection's interval and invariant -/

/-- the interval the collection exposes -/
def collView (g : Ghost) (s : CollSt) (q : List M) : Iv :=
  match s.cost with
  | some c => c
  | none =>
    if s.iterDone then ⟨sumLo g q, Nat.min s.ub0 (sumHi g q)⟩
    else ⟨sumLo g q, Nat.min s.ub0 (s.ub0 - decOf g q s.inits)⟩

structure CollInv (g : Ghost) (s : CollSt) (p q : List M) : Prop where
  iq : ∀ m ∈ q, g.I m
  ip : ∀ m ∈ p, g.I m
  hq : HiLe g q s.inits
  hp : HiLe g p s.pinits
  ub : s.inits.sum + s.pinits.sum ≤ s.ub0
  done : s.iterDone = true → p = [] ∧ q ≠ []
  memo : ∀ c, s.cost = some c → s.iterDone = true ∧ c = ⟨sumLo g q, Nat.min s.ub0 (sumHi g q)⟩ ∧ c.lo = c.hi
  ne : p ≠ [] ∨ q ≠ []

/-- the arithmetic facts behind "never invalidated" and "the Range constructor never fails" -/
theorem CollInv.arith (h : Protocol rec g) {s : CollSt} {p q : List M} (inv : CollInv g s p q) :
    sumLo g q ≤ sumFin g q ∧ sumFin g q ≤ sumHi g q ∧ sumHi g q ≤ s.inits.sum ∧
    sumFin g p ≤ s.pinits.sum ∧ decOf g q s.inits + sumHi g q = s.inits.sum := by
  have w1 := sum_wf h q inv.iq
  have w2 := sum_wf h p inv.ip
  have d1 := HiLe.dec inv.hq
  have d2 := HiLe.dec inv.hp
  omega

/-- `bounds()` of the collection: never invalid, never a bad Range, returns `collView`, keeps the invariant -/
theorem collBounds_ok (h : Protocol rec g) (l : Lbl) (s : CollSt) (p q : List M) (inv : CollInv g s p q) :
    ∃ s' q', collBounds rec l s p q = .ok (.coll l s' p q', collView g s q) ∧ KeepsL g q q' ∧
      CollInv g s' p q' ∧ collView g s' q' = collView g s q ∧
      sumLo g q' = sumLo g q ∧ sumHi g q' = sumHi g q ∧
      s'.iterDone = s.iterDone ∧ s'.inits = s.inits ∧ s'.pinits = s.pinits ∧ s'.ub0 = s.ub0 ∧
      (s.cost = none → ∀ m ∈ q', g.Q m) ∧ (s.cost.isSome = true → s' = s ∧ q' = q) := by
  obtain ⟨a1, a2, a3, a4, a5⟩ := inv.arith h
  have hub := inv.ub
  cases hc : s.cost with
  | some c =>
    refine ⟨s, q, ?_, KeepsL.refl q inv.iq, inv, rfl, rfl, rfl, rfl, rfl, rfl, rfl, ?_, fun _ => ⟨rfl, rfl⟩⟩
    · simp [collBounds, hc, collView, pure, Except.pure]
    · intro hn; cases hn
  | none =>
    by_cases hd : s.iterDone = true
    · -- all sub-edits are expanded
      obtain ⟨hp0, hq0⟩ := inv.done hd
      obtain ⟨q', e, k, elo, ehi, qs⟩ := boundsGo_keeps h q inv.iq
      have hne : q.isEmpty = false := by cases q with | nil => exact absurd rfl hq0 | cons _ _ => rfl
      have c1 : ¬ (sumLo g q > s.ub0) := by omega
      have c2 : ¬ (Nat.min s.ub0 (sumHi g q) < sumLo g q) := by
        have : sumLo g q ≤ Nat.min s.ub0 (sumHi g q) := Nat.le_min.mpr ⟨by omega, by omega⟩
        omega
      by_cases hdef : sumLo g q = Nat.min s.ub0 (sumHi g q)
      · -- definitive: memoised
        refine ⟨{ s with cost := some ⟨sumLo g q, Nat.min s.ub0 (sumHi g q)⟩ }, q', ?_, k, ?_, ?_, elo, ehi,
          rfl, rfl, rfl, rfl, fun _ => qs, ?_⟩
        · simp [collBounds, hc, hd, hne, e, bind, Except.bind, pure, Except.pure, c1, c2, collView, Iv.definitive, hdef, Nat.min_le_left]
        · refine ⟨k.inv, inv.ip, HiLe.keeps inv.hq k, inv.hp, inv.ub, ?_, ?_, ?_⟩
          · intro _; exact ⟨hp0, by intro hq'; have := k.length; rw [hq'] at this; cases q with | nil => exact hq0 rfl | cons _ _ => simp at this⟩
          · intro c hcc
            simp only [Option.some.injEq] at hcc
            subst hcc
            exact ⟨hd, by rw [elo, ehi], hdef⟩
          · exact Or.inr (by intro hq'; have := k.length; rw [hq'] at this; cases q with | nil => exact hq0 rfl | cons _ _ => simp at this)
        · simp [collView, hc, hd]
        · intro hs; cases hs
      · refine ⟨s, q', ?_, k, ?_, ?_, elo, ehi, rfl, rfl, rfl, rfl, fun _ => qs, ?_⟩
        · simp [collBounds, hc, hd, hne, e, bind, Except.bind, pure, Except.pure, c1, c2, collView, Iv.definitive, hdef, Nat.min_le_left]
        · refine ⟨k.inv, inv.ip, HiLe.keeps inv.hq k, inv.hp, inv.ub, ?_, ?_, ?_⟩
          · intro _; exact ⟨hp0, by intro hq'; have := k.length; rw [hq'] at this; cases q with | nil => exact hq0 rfl | cons _ _ => simp at this⟩
          · intro c hcc; rw [hc] at hcc; cases hcc
          · exact Or.inr (by intro hq'; have := k.length; rw [hq'] at this; cases q with | nil => exact hq0 rfl | cons _ _ => simp at this)
        · simp [collView, hc, hd, elo, ehi]
        · intro hs; cases hs
    · -- some sub-edits are still pending: incremental bounds
      obtain ⟨q', e, k, elo, ehi, qs⟩ := partialGo_keeps h q s.inits inv.iq
      have hq' := HiLe.keeps inv.hq k
      have d' := HiLe.dec hq'
      have c0 : ¬ (decOf g q s.inits > s.ub0) := by omega
      have c1 : ¬ (sumLo g q > s.ub0) := by omega
      have c2 : ¬ (Nat.min s.ub0 (s.ub0 - decOf g q s.inits) < sumLo g q) := by
        have : sumLo g q ≤ Nat.min s.ub0 (s.ub0 - decOf g q s.inits) := Nat.le_min.mpr ⟨by omega, by omega⟩
        omega
      have c3 : sumLo g q ≤ s.ub0 - decOf g q s.inits := by omega
      refine ⟨s, q', ?_, k, ?_, ?_, elo, ehi, rfl, rfl, rfl, rfl, fun _ => qs, ?_⟩
      · simp [collBounds, hc, hd, e, bind, Except.bind, pure, Except.pure, c0, c1, c3, collView]
      · refine ⟨k.inv, inv.ip, hq', inv.hp, inv.ub, ?_, ?_, ?_⟩
        · intro hd'; exact absurd hd' hd
        · intro c hcc; rw [hc] at hcc; cases hcc
        · rcases inv.ne with hne | hne
          · exact Or.inl hne
          · exact Or.inr (by intro hq'; have := k.length; rw [hq'] at this; cases q with | nil => exact hne rfl | cons _ _ => simp at this)
      · have : decOf g q' s.inits = decOf g q s.inits := by omega
        simp [collView, hc, hd, elo, this]
      · intro hs; cases hs

theorem nmin (a b : Nat) : Nat.min a b = min a b := rfl

/-! ### what every step of the collection preserves -/

/-- the structural part of the collection's measure: steps still possible in the sub-edits, edits still to expand -/
def collMu0 (g : Ghost) (s : CollSt) (p q : List M) : Nat :=
  sumMu g q + sumMu g p + p.length + (if s.iterDone then 0 else 1)

structure CollKeeps (g : Ghost) (s : CollSt) (p q : List M) (s' : CollSt) (p' q' : List M) : Prop where
  inv : CollInv g s' p' q'
  ub0 : s'.ub0 = s.ub0
  fin : sumFin g q' + sumFin g p' = sumFin g q + sumFin g p
  sub : (collView g s q).lo ≤ (collView g s' q').lo ∧ (collView g s' q').hi ≤ (collView g s q).hi
  mu : collMu0 g s' p' q' ≤ collMu0 g s p q
  scr : (q' ++ p').map g.script = (q ++ p).map g.script

theorem CollKeeps.refl {s : CollSt} {p q : List M} (inv : CollInv g s p q) : CollKeeps g s p q s p q :=
  ⟨inv, rfl, rfl, ⟨Nat.le_refl _, Nat.le_refl _⟩, Nat.le_refl _, rfl⟩

theorem CollKeeps.trans {s1 s2 s3 : CollSt} {p1 p2 p3 q1 q2 q3 : List M}
    (h1 : CollKeeps g s1 p1 q1 s2 p2 q2) (h2 : CollKeeps g s2 p2 q2 s3 p3 q3) : CollKeeps g s1 p1 q1 s3 p3 q3 :=
  ⟨h2.inv, h2.ub0.trans h1.ub0, h2.fin.trans h1.fin,
    ⟨Nat.le_trans h1.sub.1 h2.sub.1, Nat.le_trans h2.sub.2 h1.sub.2⟩, Nat.le_trans h2.mu h1.mu, h2.scr.trans h1.scr⟩

/-- `bounds()` as a `CollKeeps` step -/
theorem collBounds_keeps (h : Protocol rec g) (l : Lbl) (s : CollSt) (p q : List M) (inv : CollInv g s p q) :
    ∃ s' q', collBounds rec l s p q = .ok (.coll l s' p q', collView g s q) ∧ CollKeeps g s p q s' p q' ∧
      collView g s' q' = collView g s q ∧ (s.cost = none → ∀ m ∈ q', g.Q m) ∧ s'.iterDone = s.iterDone ∧
      q'.length = q.length := by
  obtain ⟨s', q', e, k, inv', hv, _, _, hd, _, _, hu, hq, _⟩ := collBounds_ok h l s p q inv
  obtain ⟨_, _, kf, km, ks⟩ := k.sums
  refine ⟨s', q', e, ⟨inv', hu, by rw [kf], ⟨by rw [hv]; exact Nat.le_refl _, by rw [hv]; exact Nat.le_refl _⟩, ?_, ?_⟩, hv, hq, hd, k.length⟩
  · simp only [collMu0, hd]; omega
  · simp only [List.map_append, ks]

theorem HiLe.nil_left : ∀ {is : List Nat}, HiLe g [] is → is = []
  | [], _ => rfl
  | _ :: _, h => h.elim

theorem HiLe.cons_left : ∀ {x : M} {xs : List M} {is : List Nat}, HiLe g (x :: xs) is →
    ∃ i is', is = i :: is' ∧ (g.view x).hi ≤ i ∧ HiLe g xs is'
  | _, _, i :: is', h => ⟨i, is', rfl, h.1, h.2⟩
  | _, _, [], h => h.elim

/-- `_expand_edits()`: either nothing to do (iterator exhausted earlier), or the measure strictly decreases -/
theorem collExpand_ok (h : Protocol rec g) (s : CollSt) (p q : List M) (inv : CollInv g s p q) :
    CollKeeps g s p q (collExpand s p q).1 (collExpand s p q).2.1 (collExpand s p q).2.2.1 ∧
    (s.iterDone = true → collExpand s p q = (s, p, q, false)) ∧
    (s.iterDone = false → collMu0 g (collExpand s p q).1 (collExpand s p q).2.1 (collExpand s p q).2.2.1
        < collMu0 g s p q) ∧
    ((collExpand s p q).2.2.2 = true → (collExpand s p q).1.cost = none) := by
  obtain ⟨a1, a2, a3, a4, a5⟩ := inv.arith h
  have hub := inv.ub
  by_cases hd : s.iterDone = true
  · have e : collExpand s p q = (s, p, q, false) := by simp [collExpand, hd]
    rw [e]
    exact ⟨CollKeeps.refl inv, fun _ => rfl, fun hf => (by rw [hd] at hf; cases hf), fun hf => (by cases hf)⟩
  · have hcn : s.cost = none := by
      cases hc : s.cost with
      | none => rfl
      | some c => exact absurd (inv.memo c hc).1 hd
    have hdf : s.iterDone = false := by cases hh : s.iterDone with | true => exact absurd hh hd | false => rfl
    cases p with
    | nil =>
      have hpi := HiLe.nil_left inv.hp
      have e : collExpand s [] q = ({ s with iterDone := true }, [], q, false) := by simp [collExpand, hdf]
      rw [e]
      have hq0 : q ≠ [] := by rcases inv.ne with hh | hh; exact absurd rfl hh; exact hh
      refine ⟨⟨⟨inv.iq, inv.ip, inv.hq, inv.hp, inv.ub, fun _ => ⟨rfl, hq0⟩, ?_, inv.ne⟩, rfl, rfl, ?_, ?_, rfl⟩,
        fun hf => (by rw [hdf] at hf; cases hf), fun _ => ?_, fun hf => (by cases hf)⟩
      · intro c hcc; simp only [hcn] at hcc; cases hcc
      · rw [hpi] at hub
        simp only [collView, hcn, hdf, nmin]
        simp only [List.sum_nil] at hub
        constructor
        · exact Nat.le_refl _
        · simp; omega
      · simp only [collMu0, hdf]; simp
      · simp only [collMu0, hdf]; simp
    | cons x rest =>
      obtain ⟨i, is', hpi, hxi, hrest⟩ := HiLe.cons_left inv.hp
      have e : collExpand s (x :: rest) q =
          ({ s with cost := none, inits := s.inits ++ [i], pinits := is' }, rest, q ++ [x], true) := by
        simp [collExpand, hdf, hpi]
      rw [e]
      have hq1 : HiLe g (q ++ [x]) (s.inits ++ [i]) := HiLe.append inv.hq hxi
      have d1 := HiLe.dec hq1
      have hIx := inv.ip x (by simp)
      have wx := h.wf x hIx
      rw [hpi] at hub
      simp only [List.sum_cons] at hub
      refine ⟨⟨⟨?_, fun m hm => inv.ip m (by simp [hm]), hq1, hrest, ?_, ?_, ?_, Or.inr (by simp)⟩, rfl, ?_, ?_, ?_, ?_⟩,
        fun hf => (by rw [hdf] at hf; cases hf), fun _ => ?_, fun _ => rfl⟩
      · intro m hm
        rcases List.mem_append.mp hm with hm | hm
        · exact inv.iq m hm
        · simp only [List.mem_singleton] at hm; subst hm; exact hIx
      · simp only [List.sum_append, List.sum_cons, List.sum_nil]; omega
      · intro hf; simp only [hdf] at hf; cases hf
      · intro c hcc; cases hcc
      · simp only [sumFin_append, sumFin]; omega
      · simp only [collView, hcn, hdf, nmin, sumLo_append, sumHi_append, sumLo, sumHi] at *
        simp only [List.sum_append, List.sum_cons, List.sum_nil] at d1
        constructor
        · simp
        · simp; omega
      · simp only [collMu0, hdf, sumMu_append, sumMu, List.length_cons]; simp; omega
      · simp only [List.append_assoc, List.singleton_append]
      · simp only [collMu0, hdf, sumMu_append, sumMu, List.length_cons]; simp; omega

theorem KeepsL.get : ∀ {a b : List M} (j : Nat) (y : M), KeepsL g a b → b[j]? = some y →
    ∃ x, a[j]? = some x ∧ Keeps g x y
  | x :: _, _ :: _, 0, y, h, hy => by
      simp only [List.getElem?_cons_zero, Option.some.injEq] at hy
      subst hy
      exact ⟨x, rfl, h.1⟩
  | _ :: _, _ :: _, j + 1, y, h, hy => by
      simp only [List.getElem?_cons_succ] at hy ⊢
      exact KeepsL.get j y h.2 hy
  | [], [], _, _, _, hy => by simp at hy
  | [], _ :: _, _, _, h, _ => h.elim
  | _ :: _, [], _, _, h, _ => h.elim

/-- the sub-edits changed (element-wise `Keeps`), the memo is kept or cleared: the collection `CollKeeps` -/
theorem collKeeps_children (h : Protocol rec g) {s : CollSt} {p q q' : List M} (inv : CollInv g s p q)
    (k : KeepsL g q q') (clear : Bool) :
    CollKeeps g s p q (if clear then { s with cost := none } else s) p q' := by
  obtain ⟨a1, a2, a3, a4, a5⟩ := inv.arith h
  have hub := inv.ub
  obtain ⟨klo, khi, kf, km, ks⟩ := k.sums
  have hq' := HiLe.keeps inv.hq k
  have d' := HiLe.dec hq'
  have w' := sum_wf h q' k.inv
  have hne : p ≠ [] ∨ q' ≠ [] := by
    rcases inv.ne with hh | hh
    · exact Or.inl hh
    · exact Or.inr (by intro e; have := k.length; rw [e] at this; cases q with | nil => exact hh rfl | cons _ _ => simp at this)
  have hdone : ∀ s' : CollSt, s'.iterDone = s.iterDone → s'.iterDone = true → p = [] ∧ q' ≠ [] := by
    intro s' e hd
    obtain ⟨hp0, hq0⟩ := inv.done (e ▸ hd)
    exact ⟨hp0, by intro e'; have := k.length; rw [e'] at this; cases q with | nil => exact hq0 rfl | cons _ _ => simp at this⟩
  -- the exposed interval only shrinks, and stays the same single value if it was memoised
  have hview : ∀ s' : CollSt, s'.ub0 = s.ub0 → s'.iterDone = s.iterDone → s'.inits = s.inits →
      (s'.cost = s.cost ∨ s'.cost = none) →
      (collView g s q).lo ≤ (collView g s' q').lo ∧ (collView g s' q').hi ≤ (collView g s q).hi ∧
      (∀ c, s'.cost = some c → s'.iterDone = true ∧ c = ⟨sumLo g q', Nat.min s'.ub0 (sumHi g q')⟩ ∧ c.lo = c.hi) := by
    intro s' e1 e2 e3 e4
    cases hc : s.cost with
    | some c =>
      obtain ⟨m1, m2, m3⟩ := inv.memo c hc
      rw [m2] at m3
      simp only [nmin] at m3
      have hsame : sumLo g q' = sumLo g q ∧ sumHi g q' = sumHi g q := by omega
      rcases e4 with e4 | e4
      · rw [hc] at e4
        refine ⟨?_, ?_, ?_⟩
        · simp [collView, hc, e4]
        · simp [collView, hc, e4]
        · intro c' hc'
          rw [e4] at hc'; simp only [Option.some.injEq] at hc'; subst hc'
          exact ⟨e2 ▸ m1, by rw [m2, hsame.1, hsame.2, e1], by rw [m2]; simp only [nmin]; omega⟩
      · refine ⟨?_, ?_, fun c' hc' => by rw [e4] at hc'; cases hc'⟩
        · simp only [collView, hc, e4, e2, m1, if_true, m2, hsame.1]; exact Nat.le_refl _
        · simp only [collView, hc, e4, e2, m1, if_true, m2, hsame.2, e1]; exact Nat.le_refl _
    | none =>
      have e4' : s'.cost = none := by rcases e4 with e4 | e4; rw [e4, hc]; exact e4
      refine ⟨?_, ?_, fun c' hc' => by rw [e4'] at hc'; cases hc'⟩
      · by_cases hd : s.iterDone = true
        · simp only [collView, hc, e4', e2, hd, if_true]; exact klo
        · simp only [collView, hc, e4', e2, hd, if_false]; exact klo
      · by_cases hd : s.iterDone = true
        · simp only [collView, hc, e4', e2, hd, if_true, e1, nmin]; omega
        · simp only [collView, hc, e4', e2, hd, e1, e3, nmin, Bool.false_eq_true, if_false]; omega
  cases clear with
  | true =>
    obtain ⟨v1, v2, v3⟩ := hview { s with cost := none } rfl rfl rfl (Or.inr rfl)
    exact ⟨⟨k.inv, inv.ip, hq', inv.hp, inv.ub, hdone _ rfl, v3, hne⟩, rfl, by rw [kf], ⟨v1, v2⟩,
      by show sumMu g q' + sumMu g p + p.length + (if s.iterDone then 0 else 1) ≤ _; simp only [collMu0]; omega,
      by simp only [List.map_append, ks]⟩
  | false =>
    obtain ⟨v1, v2, v3⟩ := hview s rfl rfl rfl (Or.inl rfl)
    exact ⟨⟨k.inv, inv.ip, hq', inv.hp, inv.ub, hdone _ rfl, v3, hne⟩, rfl, by rw [kf], ⟨v1, v2⟩,
      by show sumMu g q' + sumMu g p + p.length + (if s.iterDone then 0 else 1) ≤ _; simp only [collMu0]; omega,
      by simp only [List.map_append, ks]⟩

/-- `_is_tightened(starting_bounds)` -/
theorem collIsTightened_ok (h : Protocol rec g) (l : Lbl) (s : CollSt) (p q : List M) (inv : CollInv g s p q)
    (start : Iv) :
    ∃ s' q', collIsTightened rec (.coll l s p q) start = .ok (.coll l s' p q',
        decide ((collView g s q).lo > start.lo) || decide ((collView g s q).hi < start.hi)) ∧
      CollKeeps g s p q s' p q' ∧ collView g s' q' = collView g s q ∧ s'.iterDone = s.iterDone := by
  obtain ⟨s1, q1, e1, k1, v1, _, d1, _⟩ := collBounds_keeps h l s p q inv
  by_cases hlo : (collView g s q).lo > start.lo
  · exact ⟨s1, q1, by simp [collIsTightened, asColl, e1, bind, Except.bind, pure, Except.pure, hlo], k1, v1, d1⟩
  · obtain ⟨s2, q2, e2, k2, v2, _, d2, _⟩ := collBounds_keeps h l s1 p q1 k1.inv
    refine ⟨s2, q2, ?_, k1.trans k2, v2.trans v1, d2.trans d1⟩
    simp [collIsTightened, asColl, e1, bind, Except.bind, pure, Except.pure, hlo, e2, v1]

theorem def_of_keeps (h : Protocol rec g) {x y : M} (k : Keeps g x y)
    (hd : (g.view x).lo = (g.view x).hi) : (g.view y).lo = (g.view y).hi := by
  have w := h.wf y k.inv
  have := k.sub
  omega

theorem sumMu_set_lt : ∀ (q : List M) (i : Nat) (c c1 : M), q[i]? = some c → g.μ c1 < g.μ c →
    sumMu g (q.set i c1) < sumMu g q
  | [], _, _, _, h, _ => by simp at h
  | m :: ms, 0, c, c1, h, hlt => by
      simp only [List.getElem?_cons_zero, Option.some.injEq] at h
      subst h
      simp only [List.set_cons_zero, sumMu]; omega
  | m :: ms, i + 1, c, c1, h, hlt => by
      simp only [List.getElem?_cons_succ] at h
      have := sumMu_set_lt ms i c c1 h hlt
      simp only [List.set_cons_succ, sumMu]; omega

/-- all elements before index `i` are definitive -/
def DefPrefix (g : Ghost) (q : List M) (i : Nat) : Prop :=
  ∀ j x, j < i → q[j]? = some x → (g.view x).lo = (g.view x).hi

theorem DefPrefix.keeps (h : Protocol rec g) {q q' : List M} {i : Nat} (d : DefPrefix g q i) (k : KeepsL g q q') :
    DefPrefix g q' i := by
  intro j y hj hy
  obtain ⟨x, hx, kx⟩ := KeepsL.get j y k hy
  exact def_of_keeps h kx (d j x hj hx)

/-- the `for child in self._sub_edits` loop of `EditCollection.tighten_bounds` -/
theorem collChildren_ok (h : Protocol rec g) (l : Lbl) (start : Iv) :
    ∀ (k i : Nat) (s : CollSt) (p q : List M) (t : Bool), CollInv g s p q → i + k = q.length →
      (t = false → DefPrefix g q i) →
      ∃ s' q' ret t', collChildren rec l start k i s p q t = .ok (.coll l s' p q', ret, t') ∧
        CollKeeps g s p q s' p q' ∧ s'.iterDone = s.iterDone ∧
        (ret = true → start.lo < (collView g s' q').lo ∨ (collView g s' q').hi < start.hi) ∧
        (t = true → t' = true) ∧ (ret = true → t' = true) ∧
        (t' = true → t = false → collMu0 g s' p q' < collMu0 g s p q) ∧
        (ret = false → t' = false → ∀ x ∈ q', (g.view x).lo = (g.view x).hi)
  | 0, i, s, p, q, t, inv, hik, hdef => by
    refine ⟨s, q, false, t, rfl, CollKeeps.refl inv, rfl, by simp, id, by simp, ?_, ?_⟩
    · intro h1 h2; rw [h1] at h2; cases h2
    · intro _ ht x hx
      obtain ⟨j, hj, hjx⟩ := List.getElem_of_mem hx
      exact hdef ht j x (by omega) (by rw [List.getElem?_eq_getElem hj, hjx])
  | k + 1, i, s, p, q, t, inv, hik, hdef => by
    have hi : i < q.length := by omega
    have hqi : q[i]? = some q[i] := List.getElem?_eq_getElem hi
    obtain ⟨c1, r, e1, st⟩ := h.tighten q[i] (inv.iq _ (List.getElem_mem hi))
    have K1 : KeepsL g q (q.set i c1) := KeepsL.set q i q[i] c1 inv.iq hqi st.keeps
    have hlen1 : (q.set i c1).length = q.length := List.length_set
    cases r with
    | true =>
      have ck1 := collKeeps_children h inv K1 true
      simp only [if_true] at ck1
      obtain ⟨s2, q2, e2, ck2, v2, _, d2, l2⟩ := collBounds_keeps h l { s with cost := none } p (q.set i c1) ck1.inv
      have hmu1 : collMu0 g { s with cost := none } p (q.set i c1) < collMu0 g s p q := by
        have := sumMu_set_lt (g := g) q i q[i] c1 hqi (st.dec rfl)
        show sumMu g (q.set i c1) + sumMu g p + p.length + (if s.iterDone then 0 else 1) < _
        simp only [collMu0]; omega
      by_cases hret : (collView g { s with cost := none } (q.set i c1)).lo > start.lo ∨
          (collView g { s with cost := none } (q.set i c1)).hi < start.hi
      · refine ⟨s2, q2, true, true, ?_, ck1.trans ck2, d2, ?_, fun _ => rfl, fun _ => rfl, ?_, by simp⟩
        · simp only [collChildren, hqi, e1, bind, Except.bind, e2]
          simp [hret, pure, Except.pure]
        · intro _; rw [v2]; rcases hret with hh | hh; exact Or.inl hh; exact Or.inr hh
        · intro _ _; have := ck2.mu; omega
      · have hlen2 : q2.length = q.length := by rw [l2, hlen1]
        obtain ⟨s3, q3, ret, t', e3, ck3, d3, r1, r2, r3, r4, r5⟩ :=
          collChildren_ok h l start k (i + 1) s2 p q2 true ck2.inv (by omega) (by intro hf; cases hf)
        have ht' : t' = true := r2 rfl
        refine ⟨s3, q3, ret, t', ?_, (ck1.trans ck2).trans ck3, d3.trans d2, r1, fun _ => ht', r3, ?_, ?_⟩
        · simp only [collChildren, hqi, e1, bind, Except.bind, e2]
          simp [hret, asColl, pure, Except.pure, e3]
        · intro _ _; have := ck2.mu; have := ck3.mu; omega
        · intro _ hf; rw [ht'] at hf; cases hf
    | false =>
      obtain ⟨c2, e2, p2, _⟩ := h.bounds c1 st.inv
      have hdefc1 := st.stop rfl
      have hset : ((q.set i c1).set i c2) = q.set i c2 := List.set_set ..
      have K2 : KeepsL g q (q.set i c2) :=
        KeepsL.set q i q[i] c2 inv.iq hqi (st.keeps.trans p2.keeps)
      have ck := collKeeps_children h inv K2 false
      simp only [Bool.false_eq_true, if_false] at ck
      have hlen2 : (q.set i c2).length = q.length := List.length_set
      obtain ⟨s3, q3, ret, t', e3, ck3, d3, r1, r2, r3, r4, r5⟩ :=
        collChildren_ok h l start k (i + 1) s p (q.set i c2) t ck.inv (by omega) (by
          intro ht j x hj hx
          by_cases hji : j = i
          · subst hji
            rw [List.getElem?_set_self hi] at hx
            simp only [Option.some.injEq] at hx; subst hx
            rw [p2.view]; exact hdefc1
          · exact DefPrefix.keeps h (hdef ht) K2 j x (by omega) hx)
      refine ⟨s3, q3, ret, t', ?_, ck.trans ck3, d3, r1, r2, r3, ?_, r5⟩
      · have hbd : (g.view c1).definitive = true := by simp [Iv.definitive, hdefc1]
        simp only [collChildren, hqi, e1, bind, Except.bind, e2]
        simp [hbd, hset, e3]
      · intro h1 h2; have := r4 h1 h2; have := ck.mu; omega

theorem sum_eq_of_def : ∀ (q : List M), (∀ x ∈ q, (g.view x).lo = (g.view x).hi) → sumLo g q = sumHi g q
  | [], _ => rfl
  | x :: xs, hd => by
      have := hd x (by simp)
      have := sum_eq_of_def xs (fun y hy => hd y (by simp [hy]))
      simp only [sumLo, sumHi]; omega

/-- once every sub-edit is expanded and definitive, so is the collection -/
theorem collView_def (h : Protocol rec g) {s : CollSt} {p q : List M} (inv : CollInv g s p q)
    (hd : s.iterDone = true) (hall : ∀ x ∈ q, (g.view x).lo = (g.view x).hi) :
    (collView g s q).lo = (collView g s q).hi := by
  obtain ⟨a1, a2, a3, a4, a5⟩ := inv.arith h
  have hub := inv.ub
  have := sum_eq_of_def q hall
  cases hc : s.cost with
  | some c => simp only [collView, hc]; exact (inv.memo c hc).2.2
  | none => simp only [collView, hc, hd, if_true, nmin]; omega

/-- the part of the loop body after `if self._expand_edits() and self._is_tightened(...)` -/
def collLoopCont (rec : Ops) (start : Iv) (k : Nat) (m2 : M) (ret : Bool) : R (M × Bool) :=
  if ret then pure (m2, true)
  else do
    let (l, s2, p2, q2) ← asColl m2
    let (m3, returned, tightened) ← collChildren rec l start q2.length 0 s2 p2 q2 false
    if returned then pure (m3, true)
    else
      let (_, s3, _, _) ← asColl m3
      if !tightened && s3.iterDone then collIsTightened rec m3 start
      else collLoop rec start k m3

theorem collLoop_unfold (rec : Ops) (start : Iv) (k : Nat) (l : Lbl) (s : CollSt) (p q : List M) :
    collLoop rec start (k + 1) (.coll l s p q) =
      (match (if (collExpand s p q).2.2.2 = true then
                collIsTightened rec (.coll l (collExpand s p q).1 (collExpand s p q).2.1 (collExpand s p q).2.2.1) start
              else pure (M.coll l (collExpand s p q).1 (collExpand s p q).2.1 (collExpand s p q).2.2.1, false)) with
       | .error e => .error e
       | .ok r => collLoopCont rec start k r.1 r.2) := by
  rcases hE : collExpand s p q with ⟨s1, p1, q1, produced⟩
  cases produced
  · simp only [collLoop, asColl, bind, Except.bind, pure, Except.pure, hE, collLoopCont, Bool.false_eq_true, if_false]
  · simp only [collLoop, asColl, bind, Except.bind, pure, Except.pure, hE, collLoopCont, if_true]
    cases collIsTightened rec (M.coll l s1 p1 q1) start with
    | error e => rfl
    | ok v => cases hv : v.2 <;> simp [hv]

/-- the continuation of the loop body, given the loop itself for smaller fuel -/
theorem collLoopCont_ok (h : Protocol rec g) (l : Lbl) (start : Iv) (k : Nat)
    (ih : ∀ (s : CollSt) (p q : List M), CollInv g s p q → collMu0 g s p q < k →
      ∃ s' p' q' r, collLoop rec start k (.coll l s p q) = .ok (.coll l s' p' q', r) ∧
        CollKeeps g s p q s' p' q' ∧
        (r = true → start.lo < (collView g s' q').lo ∨ (collView g s' q').hi < start.hi) ∧
        (r = false → (collView g s' q').lo = (collView g s' q').hi))
    (s2 : CollSt) (p1 q2 : List M) (ret : Bool) (inv : CollInv g s2 p1 q2)
    (hret : ret = true → start.lo < (collView g s2 q2).lo ∨ (collView g s2 q2).hi < start.hi)
    (hmu : s2.iterDone = false → collMu0 g s2 p1 q2 < k) (hmu' : collMu0 g s2 p1 q2 ≤ k) :
    ∃ s' p' q' r, collLoopCont rec start k (.coll l s2 p1 q2) ret = .ok (.coll l s' p' q', r) ∧
      CollKeeps g s2 p1 q2 s' p' q' ∧
      (r = true → start.lo < (collView g s' q').lo ∨ (collView g s' q').hi < start.hi) ∧
      (r = false → (collView g s' q').lo = (collView g s' q').hi) := by
  cases ret with
  | true =>
    exact ⟨s2, p1, q2, true, by simp [collLoopCont, pure, Except.pure], CollKeeps.refl inv, fun _ => hret rfl, by simp⟩
  | false =>
    obtain ⟨s3, q3, returned, tightened, e3, ck3, d3, r1, _, r3, r4, r5⟩ :=
      collChildren_ok h l start q2.length 0 s2 p1 q2 false inv (by omega) (by intro _ j x hj; omega)
    cases returned with
    | true =>
      refine ⟨s3, p1, q3, true, ?_, ck3, fun _ => r1 rfl, by simp⟩
      simp [collLoopCont, asColl, bind, Except.bind, pure, Except.pure, e3]
    | false =>
      by_cases hfin : tightened = false ∧ s3.iterDone = true
      · obtain ⟨s4, q4, e4, ck4, v4, d4⟩ := collIsTightened_ok h l s3 p1 q3 ck3.inv start
        refine ⟨s4, p1, q4, (decide ((collView g s3 q3).lo > start.lo) || decide ((collView g s3 q3).hi < start.hi)),
          ?_, ck3.trans ck4, ?_, ?_⟩
        · simp [collLoopCont, asColl, bind, Except.bind, pure, Except.pure, e3, hfin.1, hfin.2, e4]
        · intro hr
          rw [v4]
          simp only [Bool.or_eq_true, decide_eq_true_eq] at hr
          exact hr
        · intro _
          rw [v4]
          exact collView_def h ck3.inv hfin.2 (r5 rfl hfin.1)
      · have hmu3 : collMu0 g s3 p1 q3 < k := by
          have m3 := ck3.mu
          by_cases ht : tightened = true
          · have := r4 ht rfl; omega
          · have htf : tightened = false := by cases tightened with | true => exact absurd rfl ht | false => rfl
            have hnd : ¬ s3.iterDone = true := fun hd => hfin ⟨htf, hd⟩
            have h2 : s2.iterDone = false := by
              cases hs : s2.iterDone with
              | false => rfl
              | true => rw [d3, hs] at hnd; exact absurd rfl hnd
            have := hmu h2
            omega
        obtain ⟨s5, p5, q5, r, e5, ck5, c1, c2⟩ := ih s3 p1 q3 ck3.inv hmu3
        refine ⟨s5, p5, q5, r, ?_, ck3.trans ck5, c1, c2⟩
        have hcond : (!tightened && s3.iterDone) = false := by
          cases tightened <;> cases hd : s3.iterDone <;> simp_all
        simp [collLoopCont, asColl, bind, Except.bind, pure, Except.pure, e3, hcond, e5]

/-- the `while True` loop of `EditCollection.tighten_bounds` terminates (fuel > `collMu0`) -/
theorem collLoop_ok (h : Protocol rec g) (l : Lbl) (start : Iv) :
    ∀ (k : Nat) (s : CollSt) (p q : List M), CollInv g s p q → collMu0 g s p q < k →
      ∃ s' p' q' r, collLoop rec start k (.coll l s p q) = .ok (.coll l s' p' q', r) ∧
        CollKeeps g s p q s' p' q' ∧
        (r = true → start.lo < (collView g s' q').lo ∨ (collView g s' q').hi < start.hi) ∧
        (r = false → (collView g s' q').lo = (collView g s' q').hi)
  | 0, _, _, _, _, hk => absurd hk (Nat.not_lt_zero _)
  | k + 1, s, p, q, inv, hk => by
    obtain ⟨ckE, hEdone, hEmu, _⟩ := collExpand_ok h s p q inv
    rw [collLoop_unfold]
    rcases hE : collExpand s p q with ⟨s1, p1, q1, produced⟩
    rw [hE] at ckE hEdone hEmu
    simp only at ckE hEmu ⊢
    have hmuE := ckE.mu
    -- `if self._expand_edits() and self._is_tightened(starting_bounds): return True`
    have step1 : ∃ s2 q2 ret, (if produced = true then collIsTightened rec (.coll l s1 p1 q1) start
          else pure (M.coll l s1 p1 q1, false)) = .ok (.coll l s2 p1 q2, ret) ∧
        CollKeeps g s1 p1 q1 s2 p1 q2 ∧ s2.iterDone = s1.iterDone ∧
        (ret = true → start.lo < (collView g s2 q2).lo ∨ (collView g s2 q2).hi < start.hi) := by
      cases produced with
      | true =>
        obtain ⟨s2, q2, e2, ck2, v2, d2⟩ := collIsTightened_ok h l s1 p1 q1 ckE.inv start
        refine ⟨s2, q2, _, by simpa using e2, ck2, d2, ?_⟩
        intro hr
        rw [v2]
        simp only [Bool.or_eq_true, decide_eq_true_eq] at hr
        exact hr
      | false =>
        exact ⟨s1, q1, false, by simp [pure, Except.pure], CollKeeps.refl ckE.inv, rfl, by simp⟩
    obtain ⟨s2, q2, ret, e2, ck2, d2, hret⟩ := step1
    rw [e2]
    simp only
    have hmu2 := ck2.mu
    have hlt : s2.iterDone = false → collMu0 g s2 p1 q2 < k := by
      intro hf
      have hs : s.iterDone = false := by
        cases hs : s.iterDone with
        | false => rfl
        | true =>
          have := hEdone hs
          simp only [Prod.mk.injEq] at this
          rw [d2, this.1, hs] at hf; cases hf
      have := hEmu hs
      omega
    obtain ⟨s', p', q', r, e, ck, c1, c2⟩ :=
      collLoopCont_ok h l start k (collLoop_ok h l start k) s2 p1 q2 ret ck2.inv hret hlt (by omega)
    exact ⟨s', p', q', r, e, (ckE.trans ck2).trans ck, c1, c2⟩

/-- `EditCollection.tighten_bounds()` -/
theorem collTighten_ok (h : Protocol rec g) (l : Lbl) (n : Nat) (s : CollSt) (p q : List M) (inv : CollInv g s p q)
    (hn : collMu0 g s p q < n) :
    ∃ s' p' q' r, collTighten rec n l s p q = .ok (.coll l s' p' q', r) ∧ CollKeeps g s p q s' p' q' ∧
      (r = true → (collView g s q).lo < (collView g s' q').lo ∨ (collView g s' q').hi < (collView g s q).hi) ∧
      (r = false → (collView g s' q').lo = (collView g s' q').hi) := by
  obtain ⟨s1, q1, e1, ck1, v1, _, _, _⟩ := collBounds_keeps h l s p q inv
  have := ck1.mu
  obtain ⟨s2, p2, q2, r, e2, ck2, c1, c2⟩ := collLoop_ok h l (collView g s q) n s1 p q1 ck1.inv (by omega)
  exact ⟨s2, p2, q2, r, by simp [collTighten, e1, bind, Except.bind, e2], ck1.trans ck2, c1, c2⟩

/-- the collection's interval contains its final cost (the sum over ALL sub-edits, expanded or not) -/
theorem collView_wf (h : Protocol rec g) {s : CollSt} {p q : List M} (inv : CollInv g s p q) :
    (collView g s q).lo ≤ sumFin g q + sumFin g p ∧ sumFin g q + sumFin g p ≤ (collView g s q).hi := by
  obtain ⟨a1, a2, a3, a4, a5⟩ := inv.arith h
  have hub := inv.ub
  have wp := sum_wf h p inv.ip
  have dp := HiLe.dec inv.hp
  cases hc : s.cost with
  | some c =>
    obtain ⟨m1, m2, m3⟩ := inv.memo c hc
    obtain ⟨hp0, _⟩ := inv.done m1
    subst hp0
    rw [m2] at m3
    simp only [nmin] at m3
    simp only [collView, hc, m2, nmin, sumFin]
    omega
  | none =>
    by_cases hd : s.iterDone = true
    · obtain ⟨hp0, _⟩ := inv.done hd
      subst hp0
      simp only [collView, hc, hd, if_true, nmin, sumFin]; omega
    · simp only [collView, hc, hd, nmin, Bool.false_eq_true, if_false]; omega

theorem HiLe.appendL : ∀ {a : List M} {is : List Nat} {b : List M} {js : List Nat}, HiLe g a is → HiLe g b js →
    HiLe g (a ++ b) (is ++ js)
  | [], [], _, _, _, hb => hb
  | _ :: _, _ :: _, _, _, h, hb => ⟨h.1, HiLe.appendL h.2 hb⟩
  | [], _ :: _, _, _, h, _ => h.elim
  | _ :: _, [], _, _, h, _ => h.elim

/-- `edits()` consumed completely -/
theorem collExpandAll_ok (h : Protocol rec g) (s : CollSt) (p q : List M) (inv : CollInv g s p q) :
    CollKeeps g s p q (collExpandAll s p q).1 [] (collExpandAll s p q).2 ∧ (collExpandAll s p q).1.iterDone = true := by
  obtain ⟨a1, a2, a3, a4, a5⟩ := inv.arith h
  have hub := inv.ub
  by_cases hd : s.iterDone = true
  · obtain ⟨hp0, _⟩ := inv.done hd
    subst hp0
    have e : collExpandAll s [] q = (s, q) := by simp [collExpandAll, hd]
    rw [e]
    exact ⟨CollKeeps.refl inv, hd⟩
  · have hcn : s.cost = none := by
      cases hc : s.cost with
      | none => rfl
      | some c => exact absurd (inv.memo c hc).1 hd
    have hdf : s.iterDone = false := by cases hh : s.iterDone with | true => exact absurd hh hd | false => rfl
    have e : collExpandAll s p q = ({ s with cost := none, iterDone := true, inits := s.inits ++ s.pinits, pinits := [] }, q ++ p) := by
      simp only [collExpandAll, hdf, hcn]
      cases p <;> simp
    rw [e]
    have hq1 : HiLe g (q ++ p) (s.inits ++ s.pinits) := HiLe.appendL inv.hq inv.hp
    have d1 := HiLe.dec hq1
    have wp := sum_wf h p inv.ip
    have dp := HiLe.dec inv.hp
    refine ⟨⟨⟨?_, by simp, hq1, trivial, ?_, ?_, ?_, ?_⟩, rfl, ?_, ?_, ?_, ?_⟩, rfl⟩
    · intro m hm
      rcases List.mem_append.mp hm with hm | hm
      · exact inv.iq m hm
      · exact inv.ip m hm
    · simp only [List.sum_append, List.sum_nil]; omega
    · intro _
      refine ⟨rfl, ?_⟩
      rcases inv.ne with hh | hh
      · intro e'; exact hh (List.append_eq_nil_iff.mp e').2
      · intro e'; exact hh (List.append_eq_nil_iff.mp e').1
    · intro c hcc; cases hcc
    · rcases inv.ne with hh | hh
      · exact Or.inr (by intro e'; exact hh (List.append_eq_nil_iff.mp e').2)
      · exact Or.inr (by intro e'; exact hh (List.append_eq_nil_iff.mp e').1)
    · simp only [sumFin_append, sumFin]; omega
    · simp only [collView, hcn, hdf, nmin, sumLo_append, sumHi_append, Bool.false_eq_true, if_false, if_true]
      simp only [List.sum_append] at d1
      constructor
      · omega
      · omega
    · simp only [collMu0, hdf, sumMu_append, sumMu, List.length_nil]; simp; omega
    · simp

/-- element-wise versions of `mapOnDiff_ok` / `dumpList_ok` -/
theorem mapOnDiff_keeps (h : Protocol rec g) : ∀ (ms : List M), (∀ m ∈ ms, g.I m) →
    ∃ ms', mapMStates rec.onDiff ms = .ok ms' ∧ KeepsL g ms ms'
  | [], _ => ⟨[], rfl, trivial⟩
  | m :: ms, hI => by
    obtain ⟨m', em, pm⟩ := h.onDiff m (hI m (by simp))
    obtain ⟨ms', ems, k⟩ := mapOnDiff_keeps h ms (fun x hx => hI x (by simp [hx]))
    exact ⟨m' :: ms', by simp [mapMStates, em, ems, bind, Except.bind, pure, Except.pure], ⟨pm, k⟩⟩

theorem dumpList_keeps (h : Protocol rec g) : ∀ (ms : List M), (∀ m ∈ ms, g.I m) →
    (∀ m ∈ ms, (g.view m).lo = (g.view m).hi) →
    ∃ ms', dumpList rec ms = .ok (ms', ms.map g.script) ∧ KeepsL g ms ms'
  | [], _, _ => ⟨[], rfl, trivial⟩
  | m :: ms, hI, hd => by
    obtain ⟨m', em, pm⟩ := h.dump m (hI m (by simp)) (hd m (by simp))
    obtain ⟨ms', ems, k⟩ := dumpList_keeps h ms (fun x hx => hI x (by simp [hx])) (fun x hx => hd x (by simp [hx]))
    exact ⟨m' :: ms', by simp [dumpList, em, ems, bind, Except.bind, pure, Except.pure], ⟨pm, k⟩⟩

/-- a definitive, fully expanded collection has only definitive sub-edits -/
theorem coll_all_def (h : Protocol rec g) {s : CollSt} {p q : List M} (inv : CollInv g s p q)
    (hd : s.iterDone = true) (hv : (collView g s q).lo = (collView g s q).hi) :
    ∀ m ∈ q, (g.view m).lo = (g.view m).hi := by
  obtain ⟨a1, a2, a3, a4, a5⟩ := inv.arith h
  have hub := inv.ub
  apply all_definitive h q inv.iq
  cases hc : s.cost with
  | some c =>
    obtain ⟨_, m2, m3⟩ := inv.memo c hc
    rw [m2] at m3; simp only [nmin] at m3; omega
  | none =>
    simp only [collView, hc, hd, if_true, nmin] at hv; omega

end

end GtModel.Lazy

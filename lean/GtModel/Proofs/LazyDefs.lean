/-
  Definitions shared by the ghost data (LazyBase) and the per-class proofs: initial upper bounds of a collection;
  tables, the greedy matrix over the cells' final costs, the invariant and the exposed interval of an EditDistance.
-/
import GtModel.Proofs.LazyGhost
import GtModel.Proofs.EditMatrix

namespace GtModel.Lazy
open GtModel.EditMatrix (Cell Move step spec lexLe goLeft goUp goDiag cellAt)

/-- every element's upper bound is at most its recorded initial upper bound (parallel lists of equal length) -/
def HiLe (g : Ghost) : List M → List Nat → Prop
  | [], [] => True
  | m :: ms, i :: is => (g.view m).hi ≤ i ∧ HiLe g ms is
  | _, _ => False

/-- what `EditCollection.bounds()` subtracts from the upper bound: Σ (initial upper bound − current upper bound) -/
def decOf (g : Ghost) : List M → List Nat → Nat
  | [], _ => 0
  | m :: ms, is => (is.headD 0 - (g.view m).hi) + decOf g ms is.tail


/-- a ghost that only knows the exposed intervals (used inside the invariant of `coll`) -/
def viewOnly (view : M → Iv) : Ghost :=
  { I := fun _ => True, Q := fun _ => True, view := view, fin := fun _ => 0, μ := fun _ => 0, script := fun _ => default }

/-- an `m × n` table -/
def TShape (t : List (List Nat)) (m n : Nat) : Prop := t.length = m ∧ ∀ row ∈ t, row.length = n

/-- the cell matrix has `m` rows of `n` cells -/
def MShape (t : List (List M)) (m n : Nat) : Prop := t.length = m ∧ ∀ row ∈ t, row.length = n

/-- the matrix of the cells' final costs -/
def finM (g : Ghost) (t : List (List M)) : List (List Nat) := t.map (·.map g.fin)

def sumLo (g : Ghost) : List M → Nat
  | [] => 0
  | m :: ms => (g.view m).lo + sumLo g ms
def sumHi (g : Ghost) : List M → Nat
  | [] => 0
  | m :: ms => (g.view m).hi + sumHi g ms
def sumFin (g : Ghost) : List M → Nat
  | [] => 0
  | m :: ms => g.fin m + sumFin g ms
def sumMu (g : Ghost) : List M → Nat
  | [] => 0
  | m :: ms => g.μ m + sumMu g ms

def muLLg (g : Ghost) : List (List M) → Nat
  | [] => 0
  | r :: rs => sumMu g r + muLLg g rs

/-- the matrix of the cells' scripts -/
def scrM (g : Ghost) (t : List (List M)) : List (List DScript) := t.map (·.map g.script)

/-- the greedy matrix over the final costs `fm` of the cells -/
def edT (s : EdSt) (fm : List (List Nat)) : Nat → Nat → Cell := spec s.rem s.ins fm

/-- the final cost of the EditDistance -/
def edFinOf (s : EdSt) (fm : List (List Nat)) : Nat := (edT s fm s.nt s.nf).cost

/-- table entry (r, c) holds the greedy matrix' cost and path length -/
def Match (s : EdSt) (fm : List (List Nat)) (r c : Nat) : Prop :=
  tget s.costs r c = .ok (edT s fm r c).cost ∧ tget s.paths r c = .ok (edT s fm r c).path

/-- the tables have the right shape and agree with the greedy matrix on the set `P` -/
structure TabOK (s : EdSt) (fm : List (List Nat)) (P : Nat → Nat → Prop) : Prop where
  shC : TShape s.costs (s.nt + 1) (s.nf + 1)
  shP : TShape s.paths (s.nt + 1) (s.nf + 1)
  ok : ∀ r c, r ≤ s.nt → c ≤ s.nf → P r c → Match s fm r c

/-- where the fringe is -/
structure Pos (s : EdSt) : Prop where
  lo : -1 ≤ s.fr
  hi : s.fr ≤ s.nt
  fc : s.fc ≤ s.nf
  z : s.fr < s.nt → s.fc = 0

/-- number of anti-diagonals started so far = index of the next one -/
def started (s : EdSt) : Nat := (s.fr + 1).toNat + s.fc

def kOf (s : EdSt) : Nat := s.fr.toNat + s.fc

/-- the move that enters (row, col) in the greedy matrix -/
def moveAt (s : EdSt) (fm : List (List Nat)) (row col : Nat) : Move :=
  if row == 0 then .left else if col == 0 then .up else (edT s fm row col).script.headD .left

def predOf (mv : Move) (row col : Nat) : Nat × Nat :=
  match mv with
  | .diag => (row - 1, col - 1) | .up => (row - 1, col) | .left => (row, col - 1)

/-- the path from (row, col) back to the origin in the greedy matrix, corner first: what `edits()` caches -/
def ptrace (s : EdSt) (fm : List (List Nat)) : Nat → Nat → Nat → List (Move × Nat × Nat)
  | 0, _, _ => []
  | k + 1, row, col =>
      if row == 0 && col == 0 then []
      else (moveAt s fm row col, row, col) ::
        ptrace s fm k (predOf (moveAt s fm row col) row col).1 (predOf (moveAt s fm row col) row col).2

/-- the inner cells in `D` are definitive -/
def DefOn (g : Ghost) (cells : List (List M)) (D : Nat → Nat → Prop) : Prop :=
  ∀ r c m, 1 ≤ r → 1 ≤ c → D r c → mget cells (r - 1) (c - 1) = .ok m → (g.view m).lo = (g.view m).hi

def minD : List Nat → Nat
  | [] => 0
  | x :: xs => xs.foldl Nat.min x

def costsOn (s : EdSt) (fm : List (List Nat)) (l : List (Nat × Nat)) : List Nat :=
  l.map fun rc => (edT s fm rc.1 rc.2).cost

/-- min over the current and the last fringe diagonal -/
def fringeMin (s : EdSt) (fm : List (List Nat)) : Nat :=
  Nat.min (minD (costsOn s fm (diag s.fr s.fc s.nf))) (minD (costsOn s fm s.lastFringe))

/-- what `bounds()` returns -/
def edViewOf (s : EdSt) (fm : List (List Nat)) : Iv :=
  if edComplete s then Iv.point (edFinOf s fm)
  else if s.fr ≤ 0 then ⟨s.lb0, s.ub0⟩
  else ⟨Nat.max s.lb0 (fringeMin s fm), s.ub0⟩

/-- which table entries are filled in -/
def Filled (s : EdSt) (r c : Nat) : Prop :=
  (r = 0 ∧ c = 0) ∨
    (0 ≤ s.fr ∧ r + c ≤ kOf s ∧ (r = 0 ∨ c = 0 ∨ r + c < s.nt + s.nf ∨ s.cache.isSome = true))

/-- which inner cells have been tightened to a single value -/
def DefSet (s : EdSt) (r c : Nat) : Prop :=
  r ≤ s.nt ∧ c ≤ s.nf ∧ 0 ≤ s.fr ∧ r + c ≤ kOf s ∧ (r + c < s.nt + s.nf ∨ s.cache.isSome = true)

/-- static facts about the costs -/
structure EdStat (s : EdSt) (fm : List (List Nat)) : Prop where
  remPos : ∀ x ∈ s.rem, 0 < x
  insPos : ∀ x ∈ s.ins, 0 < x
  total : s.rem.sum + s.ins.sum ≤ s.ub0
  lbFin : s.lb0 ≤ edFinOf s fm
  lbLt : 0 < s.nf → 0 < s.nt → s.lb0 < s.ub0

structure EdInv (g : Ghost) (s : EdSt) (cells : List (List M)) : Prop where
  nz : 0 < s.nt + s.nf
  pos : Pos s
  shape : MShape cells s.nt s.nf
  cellsI : ∀ row ∈ cells, ∀ m ∈ row, g.I m
  tab : TabOK s (finM g cells) (Filled s)
  defs : DefOn g cells (DefSet s)
  last : 0 ≤ s.fr → ∀ r c, (r, c) ∈ s.lastFringe ↔ (r ≤ s.nt ∧ c ≤ s.nf ∧ r + c + 1 = kOf s)
  jf : s.freed = true ↔ s.cache.isSome = true
  jc : s.cache.isSome = true → 0 ≤ s.fr ∧ s.nt + s.nf ≤ kOf s
  cv : ∀ tr, s.cache = some tr → tr = ptrace s (finM g cells) (s.nt + s.nf + 1) s.nt s.nf
  stat : EdStat s (finM g cells)

/-- diagonals still to be swept -/
def edMu0 (s : EdSt) : Nat := (s.nt + s.nf + 1) - started s

/-- the sub-edit scripts along a path -/
def edPathScripts (s : EdSt) (scr : List (List DScript)) : List (Move × Nat × Nat) → List DScript
  | [] => []
  | (mv, r, c) :: rest =>
      (match mv with
        | .diag => (scr.getD (r - 1) []).getD (c - 1) default
        | .up => .mk .insert (.at (r - 1 + s.pre)) .none (Iv.point (s.ins.getD (r - 1) 0)) []
        | .left => .mk .remove (.at (c - 1 + s.pre)) .none (Iv.point (s.rem.getD (c - 1) 0)) [])
      :: edPathScripts s scr rest

end GtModel.Lazy

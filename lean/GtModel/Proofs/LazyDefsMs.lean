/-
  Definitions for the WeightedBipartiteMatcher / MultiSetEdit ghost data (used by the structural ghost in LazyBase and
  by the per-class proofs): k smallest / k largest sums, row minima / maxima of interval matrices, the matcher's
  interval, admissible assignments, left-over costs.
-/
import GtModel.Proofs.LazyDefs

namespace GtModel.Lazy

/-- sum of the `k` smallest -/
def ksm (k : Nat) (l : List Nat) : Nat := ((sortNat l).take k).sum

/-- sum of the `k` largest -/
def klg (k : Nat) (l : List Nat) : Nat := ((sortNat l).reverse.take k).sum

def maxD : List Nat → Nat
  | [] => 0
  | x :: xs => xs.foldl Nat.max x

/-- the interval at a pair of indices (default `[0, 0]`) -/
def ivAt (vm : List (List Iv)) (p : Nat × Nat) : Iv := (vm.getD p.1 []).getD p.2 ⟨0, 0⟩

def rowMinV (row : List Iv) : Nat := minD (row.map (·.lo))
def rowMaxV (row : List Iv) : Nat := maxD (row.map (·.hi))

/-- `WeightedBipartiteMatcher.bounds()` without the memo -/
def wmForm (w : WmSt) (vm : List (List Iv)) : Iv :=
  if w.nf == 0 || w.nt == 0 then Iv.point 0
  else
    match w.mtch with
    | none => ⟨ksm (Nat.min w.nf w.nt) (vm.map rowMinV), klg (Nat.min w.nf w.nt) (vm.map rowMaxV)⟩
    | some pairs => ⟨(pairs.map fun p => (ivAt vm p).lo).sum, (pairs.map fun p => (ivAt vm p).hi).sum⟩

def wmViewV (w : WmSt) (vm : List (List Iv)) : Iv :=
  match w.memo with
  | some b => b
  | none => wmForm w vm

def finAt (fm : List (List Nat)) (p : Nat × Nat) : Nat := (fm.getD p.1 []).getD p.2 0

/-- what the matcher's oracle answer must satisfy: a partial injection of full size, ordered by from-index -/
structure AssignOK (w : WmSt) : Prop where
  inRange : ∀ p ∈ w.assign, p.1 < w.nf ∧ p.2 < w.nt
  sortedF : (w.assign.map (·.1)).Pairwise (· < ·)
  nodupT : (w.assign.map (·.2)).Nodup
  full : w.assign.length = Nat.min w.nf w.nt

/-- the two flags that can still flip -/
def wmFlags (w : WmSt) : Nat := (if w.distinct then 0 else 1) + (if w.mtch.isSome then 0 else 1)

/-- Σ costs over the left-over from-nodes and to-nodes -/
def extraOf (s : MsSt) (w : WmSt) (pairs : List (Nat × Nat)) : Nat :=
  ((unmatched w.nf (pairs.map (·.1))).map fun a => s.remCosts.getD a 0).sum
    + ((unmatched w.nt (pairs.map (·.2))).map fun a => s.insCosts.getD a 0).sum

/-- the part of `MultiSetEdit.bounds()` that accounts for the size difference of the two multisets -/
def leftIv (s : MsSt) (w : WmSt) : Option Iv :=
  match w.mtch with
  | some pairs => some (Iv.point (extraOf s w pairs))
  | none =>
      if w.nf > w.nt then
        some ⟨((sortNat s.remCosts).take (w.nf - w.nt)).sum,
          ((sortNat s.remCosts).drop ((sortNat s.remCosts).length - (w.nf - w.nt))).sum⟩
      else if w.nf < w.nt then
        some ⟨((sortNat s.insCosts).take (w.nt - w.nf)).sum,
          ((sortNat s.insCosts).drop ((sortNat s.insCosts).length - (w.nt - w.nf))).sum⟩
      else none

/-- the interval `leftIv` stands for (`none` = nothing is added) -/
def leftIvD (s : MsSt) (w : WmSt) : Iv := (leftIv s w).getD ⟨0, 0⟩

def scrAt (sm : List (List DScript)) (p : Nat × Nat) : DScript := (sm.getD p.1 []).getD p.2 default

end GtModel.Lazy

/-
  EditDistance, local invariants (for ANY behaviour of the cells):
    J s  :=  the matrix is freed  ⇒  the script is cached         ("matrix freed ⇒ script cached")
  is preserved by every method, whatever the cells do.
-/
import GtModel.Model.Lazy

namespace GtModel.Lazy

/-- the part of the state that only `_cleanup()` / `edits()` touch is unchanged -/
def EdSt.fcEq (s s' : EdSt) : Prop := s'.freed = s.freed ∧ s'.cache = s.cache

theorem EdSt.fcEq.refl (s : EdSt) : s.fcEq s := ⟨rfl, rfl⟩
theorem EdSt.fcEq.trans {a b c : EdSt} (h1 : a.fcEq b) (h2 : b.fcEq c) : a.fcEq c :=
  ⟨h2.1.trans h1.1, h2.2.trans h1.2⟩

theorem addNode_fc (s s' : EdSt) (r c : Nat) (h : addNode s r c = .ok s') : s.fcEq s' := by
  unfold addNode at h
  simp only [bind, Except.bind, pure, Except.pure] at h
  repeat' split at h
  all_goals first | (cases h; exact ⟨rfl, rfl⟩) | cases h

theorem addNodes_fc (l : List (Nat × Nat)) : ∀ (s s' : EdSt), addNodes s l = .ok s' → s.fcEq s' := by
  induction l with
  | nil => intro s s' h; cases h; exact EdSt.fcEq.refl _
  | cons x rest ih =>
    intro s s' h
    obtain ⟨r, c⟩ := x
    simp only [addNodes, bind, Except.bind] at h
    split at h
    · cases h
    · rename_i s1 h1
      exact (addNode_fc s s1 r c h1).trans (ih s1 s' h)

theorem nextFringe_fc (s s' : EdSt) (b : Bool) (h : nextFringe s = .ok (s', b)) : s.fcEq s' := by
  unfold nextFringe at h
  split at h
  · cases h; exact EdSt.fcEq.refl _
  · simp only [bind, Except.bind, pure, Except.pure] at h
    split at h
    · cases h
    · rename_i s2 h2
      cases h
      have := addNodes_fc _ _ _ h2
      exact ⟨this.1, this.2⟩

theorem bestMatch_fc (rec : Ops) (s s' : EdSt) (cells cells' : List (List M)) (row col : Nat) (mv : EditMatrix.Move)
    (h : bestMatch rec s cells row col = .ok (s', cells', mv)) : s.fcEq s' := by
  unfold bestMatch at h
  simp only [bind, Except.bind, pure, Except.pure] at h
  repeat' split at h
  all_goals first | (cases h; exact ⟨rfl, rfl⟩) | cases h

theorem processFringe_fc (rec : Ops) (n : Nat) (ra : Bool) (l : List (Nat × Nat)) :
    ∀ (s s' : EdSt) (cells cells' : List (List M)),
      processFringe rec n ra s cells l = .ok (s', cells') → s.fcEq s' := by
  induction l with
  | nil => intro s s' c c' h; cases h; exact EdSt.fcEq.refl _
  | cons x rest ih =>
    intro s s' cells cells' h
    obtain ⟨row, col⟩ := x
    unfold processFringe at h
    simp only [bind, Except.bind, pure, Except.pure] at h
    split at h
    · split at h
      · cases h
      · rename_i v hv
        obtain ⟨s1, c1, mv⟩ := v
        exact (bestMatch_fc rec s s1 cells c1 row col mv hv).trans (ih _ _ _ _ h)
    · repeat' split at h
      all_goals first | cases h | skip
      all_goals
        rename_i v hv
        obtain ⟨s1, c1, mv⟩ := v
        exact (bestMatch_fc rec s s1 _ c1 row col mv hv).trans (ih _ _ _ _ h)

theorem backTrace_fc (rec : Ops) : ∀ (k : Nat) (s s' : EdSt) (cells cells' : List (List M)) (row col : Nat)
    (acc tr : List (EditMatrix.Move × Nat × Nat)),
    backTrace rec k s cells row col acc = .ok (s', cells', tr) → s.fcEq s'
  | 0, _, _, _, _, _, _, _, _, h => by cases h
  | k + 1, s, s', cells, cells', row, col, acc, tr, h => by
    unfold backTrace at h
    split at h
    · cases h; exact EdSt.fcEq.refl _
    · simp only [bind, Except.bind] at h
      split at h
      · cases h
      · rename_i v hv
        obtain ⟨s1, c1, mv⟩ := v
        exact (bestMatch_fc rec s s1 cells c1 row col mv hv).trans (backTrace_fc rec k _ _ _ _ _ _ _ _ h)

/-- "matrix freed ⇒ script cached" -/
def EdSt.J (s : EdSt) : Prop := s.freed = true → s.cache.isSome = true

theorem J_of_fc {s s' : EdSt} (h : s.fcEq s') (hj : s.J) : s'.J := by
  intro hf; rw [h.1] at hf; rw [h.2]; exact hj hf

/-- after `edits()` has built the script the matrix is freed AND the script is cached -/
theorem edFinalize_J (rec : Ops) (n : Nat) (s s' : EdSt) (cells cells' : List (List M))
    (h : edFinalize rec n s cells = .ok (s', cells')) : s'.cache.isSome = true ∧ s'.freed = true := by
  unfold edFinalize at h
  simp only [bind, Except.bind, pure, Except.pure] at h
  repeat' split at h
  all_goals cases h
  all_goals first
    | exact ⟨rfl, rfl⟩
    | (rename_i hthrow _ _ _ _; cases hthrow)
    | (rename_i hthrow _ _ _ _ _ _ _ _ _ _; cases hthrow)
    | simp_all [throw, throwThe, MonadExceptOf.throw]

theorem edBounds_J (rec : Ops) (n : Nat) (s s' : EdSt) (cells cells' : List (List M)) (b : Iv)
    (h : edBounds rec n s cells = .ok (s', cells', b)) (hj : s.J) : s'.J := by
  unfold edBounds at h
  simp only [bind, Except.bind, pure, Except.pure] at h
  split at h
  · split at h
    · split at h
      · cases h
      · rename_i v hv
        obtain ⟨s1, c1⟩ := v
        have := edFinalize_J rec n s s1 cells c1 hv
        split at h
        · cases h
        · cases h; intro _; exact this.1
    · split at h
      · cases h
      · cases h; exact hj
  · repeat' split at h
    all_goals cases h
    all_goals exact hj

theorem edTightenComplete_J (rec : Ops) (n : Nat) (s s' : EdSt) (cells cells' : List (List M)) (r : Bool)
    (h : edTightenComplete rec n s cells = .ok (s', cells', r)) (hj : s.J) : s'.J := by
  unfold edTightenComplete at h
  simp only [bind, Except.bind, pure, Except.pure] at h
  repeat' split at h
  all_goals cases h
  all_goals first
    | exact hj
    | (rename_i hv; exact edBounds_J rec n _ _ _ _ _ hv hj)
    | (rename_i hv _ _; exact edBounds_J rec n _ _ _ _ _ hv hj)

theorem throw_ne_ok {α : Type} (e : Err) (v : α) : (throw e : R α) = .ok v → False := by
  intro h; cases h

/-- close a `J` goal from the hypotheses `split` left in the context -/
macro "ed_close" hj:term : tactic => `(tactic| first
  | (exfalso; apply throw_ne_ok; assumption)
  | exact $hj
  | (apply edBounds_J (hj := $hj); assumption)
  | (apply edTightenComplete_J (hj := $hj); assumption)
  | (apply edBounds_J (hj := edTightenComplete_J (hj := $hj) (h := by assumption)); assumption))

theorem edBuildLoop_J (rec : Ops) (q : Bool) (n : Nat) (initial : Iv) :
    ∀ (k : Nat) (s s' : EdSt) (cells cells' : List (List M)) (r : Bool),
      edBuildLoop rec q n initial k s cells = .ok (s', cells', r) → s.J → s'.J
  | 0, _, _, _, _, _, h, _ => by cases h
  | k + 1, s, s', cells, cells', r, h, hj => by
    unfold edBuildLoop at h
    simp only [bind, Except.bind, pure, Except.pure] at h
    split at h
    · cases h
    · rename_i v hv
      have hj1 : v.1.J := J_of_fc (nextFringe_fc s v.1 v.2 hv) hj
      split at h
      · -- the matrix just became complete
        repeat' split at h
        all_goals cases h
        all_goals ed_close hj1
      · -- a fringe was processed (or it was the first fringe)
        repeat' split at h
        all_goals first
          | (exfalso; apply throw_ne_ok; assumption)
          | (cases h <;> first
              | exact hj1
              | exact J_of_fc (processFringe_fc _ _ _ _ _ _ _ _ (by assumption)) hj1)
          | exact edBuildLoop_J rec q n initial k _ _ _ _ _ h hj1
          | exact edBuildLoop_J rec q n initial k _ _ _ _ _ h
              (J_of_fc (processFringe_fc _ _ _ _ _ _ _ _ (by assumption)) hj1)

theorem edTighten_J (rec : Ops) (q : Bool) (n : Nat) (s s' : EdSt) (cells cells' : List (List M)) (r : Bool)
    (h : edTighten rec q n s cells = .ok (s', cells', r)) (hj : s.J) : s'.J := by
  unfold edTighten at h
  simp only [bind, Except.bind, pure, Except.pure] at h
  split at h
  · cases h; exact hj
  · split at h
    · cases h; exact hj
    · split at h
      · exact edTightenComplete_J rec n _ _ _ _ _ h hj
      · split at h
        · cases h
        · rename_i v hv
          exact edBuildLoop_J rec q n _ n _ _ _ _ _ h (edBounds_J rec n _ _ _ _ _ hv hj)

theorem edRunToComplete_J (rec : Ops) (q : Bool) (n : Nat) :
    ∀ (k : Nat) (s s' : EdSt) (cells cells' : List (List M)),
      edRunToComplete rec q n k s cells = .ok (s', cells') → s.J → s'.J
  | 0, _, _, _, _, h, _ => by cases h
  | k + 1, s, s', cells, cells', h, hj => by
    unfold edRunToComplete at h
    split at h
    · cases h; exact hj
    · simp only [bind, Except.bind, pure, Except.pure] at h
      split at h
      · cases h
      · rename_i v hv
        have hj1 := edTighten_J rec q n _ _ _ _ _ hv hj
        split at h
        · exact edRunToComplete_J rec q n k _ _ _ _ h hj1
        · cases h; exact hj1

theorem edEnsure_J (rec : Ops) (q : Bool) (n : Nat) (s s' : EdSt) (cells cells' : List (List M))
    (h : edEnsure rec q n s cells = .ok (s', cells')) (hj : s.J) : s'.J := by
  unfold edEnsure at h
  simp only [bind, Except.bind, pure, Except.pure] at h
  split at h
  · cases h; exact hj
  · split at h
    · split at h
      · cases h
      · cases h; intro _; rfl
    · split at h
      · cases h
      · rename_i v hv
        have hj1 := edRunToComplete_J rec q n n _ _ _ _ hv hj
        repeat' split at h
        all_goals first
          | (cases h; exact hj1)
          | (intro _; exact (edFinalize_J rec n _ _ _ _ h).1)
          | cases h

/-- a fresh `EditDistance` has neither freed its matrix nor cached a script -/
theorem edInit_J (ps : Nat × Nat) (fs ts : List Nat) (pen : Nat) : (edInit ps fs ts pen).J := by
  intro h; simp [edInit] at h

/-- **matrix freed ⇒ script cached**, for every protocol method of an `EditDistance`, whatever its cells do -/
theorem ed_freed_cached (rec : Ops) (q : Bool) (n : Nat) (l : Lbl) (s : EdSt) (cells : List (List M)) (hj : s.J) :
    (∀ m' b, boundsB rec n (.ed l s cells) = .ok (m', b) → ∃ s' c', m' = .ed l s' c' ∧ s'.J) ∧
    (∀ m' r, tightenB rec q n (.ed l s cells) = .ok (m', r) → ∃ s' c', m' = .ed l s' c' ∧ s'.J) ∧
    (∀ m', onDiffB rec q n (.ed l s cells) = .ok m' → ∃ s' c', m' = .ed l s' c' ∧ s'.J) := by
  refine ⟨?_, ?_, ?_⟩
  · intro m' b h
    simp only [boundsB, bind, Except.bind, pure, Except.pure] at h
    split at h
    · cases h
    · rename_i v hv
      cases h
      exact ⟨_, _, rfl, edBounds_J rec n _ _ _ _ _ hv hj⟩
  · intro m' r h
    simp only [tightenB, bind, Except.bind, pure, Except.pure] at h
    split at h
    · cases h
    · rename_i v hv
      cases h
      exact ⟨_, _, rfl, edTighten_J rec q n _ _ _ _ _ hv hj⟩
  · intro m' h
    simp only [onDiffB, bind, Except.bind, pure, Except.pure] at h
    split at h
    · cases h
    · rename_i v hv
      split at h
      · cases h
      · cases h
        exact ⟨_, _, rfl, edEnsure_J rec q n _ _ _ _ hv hj⟩

end GtModel.Lazy

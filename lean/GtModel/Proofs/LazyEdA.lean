/-
  EditDistance protocol, part A: tables (`costs` / `path_costs`), the cell matrix, anti-diagonals.
-/
import GtModel.Proofs.LazyColl

namespace GtModel.Lazy

/-! ### tables of numbers -/

theorem tget_ok {t : List (List Nat)} {m n r c : Nat} (h : TShape t m n) (hr : r < m) (hc : c < n) :
    ∃ v, tget t r c = .ok v := by
  have hr' : r < t.length := by rw [h.1]; exact hr
  have hrow := h.2 t[r] (List.getElem_mem hr')
  refine ⟨(t[r])[c]'(by rw [hrow]; exact hc), ?_⟩
  simp [tget, List.getElem?_eq_getElem hr', List.getElem?_eq_getElem (show c < t[r].length by rw [hrow]; exact hc), pure, Except.pure]

theorem tset_ok {t : List (List Nat)} {m n r c : Nat} (v : Nat) (h : TShape t m n) (hr : r < m) (hc : c < n) :
    ∃ t', tset t r c v = .ok t' ∧ TShape t' m n ∧ tget t' r c = .ok v ∧
      ∀ r' c', (r' ≠ r ∨ c' ≠ c) → tget t' r' c' = tget t r' c' := by
  have hr' : r < t.length := by rw [h.1]; exact hr
  have hrow := h.2 t[r] (List.getElem_mem hr')
  have hc' : c < t[r].length := by rw [hrow]; exact hc
  refine ⟨t.set r (t[r].set c v), ?_, ⟨?_, ?_⟩, ?_, ?_⟩
  · simp [tset, List.getElem?_eq_getElem hr', hc', pure, Except.pure]
  · simp [h.1]
  · intro row hrow'
    rcases List.mem_or_eq_of_mem_set hrow' with hm | he
    · exact h.2 row hm
    · rw [he]; simp [hrow]
  · simp [tget, List.getElem?_set_self hr', List.getElem?_set_self hc', pure, Except.pure]
  · intro r' c' hne
    by_cases hrr : r' = r
    · subst hrr
      have hcc : c' ≠ c := by rcases hne with h1 | h1; exact absurd rfl h1; exact h1
      simp only [tget, List.getElem?_set_self hr', List.getElem?_eq_getElem hr']
      rw [List.getElem?_set_ne (Ne.symm hcc)]
    · simp only [tget]
      rw [List.getElem?_set_ne (Ne.symm hrr)]

theorem zeroTable_shape (m n : Nat) : TShape (zeroTable m n) m n := by
  refine ⟨by simp [zeroTable], ?_⟩
  intro row hrow
  simp only [zeroTable, List.mem_replicate] at hrow
  rw [hrow.2]; simp

/-! ### the matrix of cell machines -/

section
variable {g : Ghost}

/-- `cells'` is `cells` after operations on its elements -/
def KeepsLL (g : Ghost) : List (List M) → List (List M) → Prop
  | [], [] => True
  | r :: rs, r' :: rs' => KeepsL g r r' ∧ KeepsLL g rs rs'
  | _, _ => False

theorem KeepsLL.refl : ∀ (t : List (List M)), (∀ row ∈ t, ∀ m ∈ row, g.I m) → KeepsLL g t t
  | [], _ => trivial
  | r :: rs, h => ⟨KeepsL.refl r (h r (by simp)), KeepsLL.refl rs (fun x hx => h x (by simp [hx]))⟩

theorem KeepsLL.trans : ∀ {a b c : List (List M)}, KeepsLL g a b → KeepsLL g b c → KeepsLL g a c
  | [], [], [], _, _ => trivial
  | _ :: _, _ :: _, _ :: _, h1, h2 => ⟨KeepsL.trans h1.1 h2.1, KeepsLL.trans h1.2 h2.2⟩
  | [], [], _ :: _, _, h2 => h2.elim
  | [], _ :: _, _, h1, _ => h1.elim
  | _ :: _, [], _, h1, _ => h1.elim
  | _ :: _, _ :: _, [], _, h2 => h2.elim

theorem KeepsLL.inv : ∀ {a b : List (List M)}, KeepsLL g a b → ∀ row ∈ b, ∀ m ∈ row, g.I m
  | [], [], _ => by simp
  | _ :: _, _ :: _, h => by
      intro row hrow
      rcases List.mem_cons.mp hrow with rfl | hrow
      · exact KeepsL.inv h.1
      · exact KeepsLL.inv h.2 row hrow
  | [], _ :: _, h => h.elim
  | _ :: _, [], h => h.elim

/-- row access -/
theorem KeepsLL.row : ∀ {a b : List (List M)} (r : Nat) (y : List M), KeepsLL g a b → b[r]? = some y →
    ∃ x, a[r]? = some x ∧ KeepsL g x y
  | x :: _, _ :: _, 0, y, h, hy => by
      simp only [List.getElem?_cons_zero, Option.some.injEq] at hy
      subst hy; exact ⟨x, rfl, h.1⟩
  | _ :: _, _ :: _, r + 1, y, h, hy => by
      simp only [List.getElem?_cons_succ] at hy ⊢
      exact KeepsLL.row r y h.2 hy
  | [], [], _, _, _, hy => by simp at hy
  | [], _ :: _, _, _, h, _ => h.elim
  | _ :: _, [], _, _, h, _ => h.elim

theorem KeepsLL.row' : ∀ {a b : List (List M)} (r : Nat) (x : List M), KeepsLL g a b → a[r]? = some x →
    ∃ y, b[r]? = some y ∧ KeepsL g x y
  | _ :: _, y :: _, 0, x, h, hx => by
      simp only [List.getElem?_cons_zero, Option.some.injEq] at hx
      subst hx; exact ⟨y, rfl, h.1⟩
  | _ :: _, _ :: _, r + 1, x, h, hx => by
      simp only [List.getElem?_cons_succ] at hx ⊢
      exact KeepsLL.row' r x h.2 hx
  | [], [], _, _, _, hx => by simp at hx
  | [], _ :: _, _, _, h, _ => h.elim
  | _ :: _, [], _, _, h, _ => h.elim

theorem KeepsL.get' : ∀ {a b : List M} (j : Nat) (x : M), KeepsL g a b → a[j]? = some x →
    ∃ y, b[j]? = some y ∧ Keeps g x y
  | _ :: _, y :: _, 0, x, h, hx => by
      simp only [List.getElem?_cons_zero, Option.some.injEq] at hx
      subst hx; exact ⟨y, rfl, h.1⟩
  | _ :: _, _ :: _, j + 1, x, h, hx => by
      simp only [List.getElem?_cons_succ] at hx ⊢
      exact KeepsL.get' j x h.2 hx
  | [], [], _, _, _, hx => by simp at hx
  | [], _ :: _, _, _, h, _ => h.elim
  | _ :: _, [], _, _, h, _ => h.elim

theorem mget_some {t : List (List M)} {r c : Nat} {m : M} (h : mget t r c = .ok m) :
    ∃ row, t[r]? = some row ∧ row[c]? = some m := by
  unfold mget at h
  split at h
  · cases h
  · rename_i row hrow
    split at h
    · cases h
    · rename_i v hv
      cases h
      exact ⟨row, hrow, hv⟩

theorem mget_of_some {t : List (List M)} {r c : Nat} {m : M} {row : List M} (h1 : t[r]? = some row)
    (h2 : row[c]? = some m) : mget t r c = .ok m := by
  simp [mget, h1, h2, pure, Except.pure]

/-- an element of the new matrix comes from the same place of the old one -/
theorem KeepsLL.get {a b : List (List M)} {r c : Nat} {y : M} (h : KeepsLL g a b) (hy : mget b r c = .ok y) :
    ∃ x, mget a r c = .ok x ∧ Keeps g x y := by
  obtain ⟨rowb, h1, h2⟩ := mget_some hy
  obtain ⟨rowa, h3, k⟩ := KeepsLL.row r rowb h h1
  obtain ⟨x, h4, kx⟩ := KeepsL.get c y k h2
  exact ⟨x, mget_of_some h3 h4, kx⟩

theorem KeepsLL.get' {a b : List (List M)} {r c : Nat} {x : M} (h : KeepsLL g a b) (hx : mget a r c = .ok x) :
    ∃ y, mget b r c = .ok y ∧ Keeps g x y := by
  obtain ⟨rowa, h1, h2⟩ := mget_some hx
  obtain ⟨rowb, h3, k⟩ := KeepsLL.row' r rowa h h1
  obtain ⟨y, h4, ky⟩ := KeepsL.get' c x k h2
  exact ⟨y, mget_of_some h3 h4, ky⟩

theorem KeepsLL.setRow : ∀ (t : List (List M)) (r : Nat) (x y : List M), (∀ row ∈ t, ∀ m ∈ row, g.I m) →
    t[r]? = some x → KeepsL g x y → KeepsLL g t (t.set r y)
  | [], _, _, _, _, h, _ => by simp at h
  | row :: rs, 0, x, y, hI, h, k => by
      simp only [List.getElem?_cons_zero, Option.some.injEq] at h
      subst h
      exact ⟨k, KeepsLL.refl rs (fun z hz => hI z (by simp [hz]))⟩
  | row :: rs, r + 1, x, y, hI, h, k => by
      simp only [List.getElem?_cons_succ] at h
      exact ⟨KeepsL.refl row (hI row (by simp)), KeepsLL.setRow rs r x y (fun z hz => hI z (by simp [hz])) h k⟩

/-- replacing one cell by something it `Keeps` -/
theorem mset_keeps {t : List (List M)} {r c : Nat} {x y : M} (hI : ∀ row ∈ t, ∀ m ∈ row, g.I m)
    (hx : mget t r c = .ok x) (k : Keeps g x y) :
    ∃ t', mset t r c y = .ok t' ∧ KeepsLL g t t' ∧ mget t' r c = .ok y ∧
      (∀ r' c', (r' ≠ r ∨ c' ≠ c) → mget t' r' c' = mget t r' c') := by
  obtain ⟨row, h1, h2⟩ := mget_some hx
  have hr : r < t.length := by
    rcases Nat.lt_or_ge r t.length with h | h
    · exact h
    · rw [List.getElem?_eq_none h] at h1; cases h1
  have hc : c < row.length := by
    rcases Nat.lt_or_ge c row.length with h | h
    · exact h
    · rw [List.getElem?_eq_none h] at h2; cases h2
  have hrowI : ∀ m ∈ row, g.I m := hI row (List.mem_of_getElem? h1)
  refine ⟨t.set r (row.set c y), ?_, ?_, ?_, ?_⟩
  · simp [mset, h1, hc, pure, Except.pure]
  · exact KeepsLL.setRow t r row _ hI h1 (KeepsL.set row c x y hrowI h2 k)
  · simp [mget, List.getElem?_set_self hr, List.getElem?_set_self hc, pure, Except.pure]
  · intro r' c' hne
    by_cases hrr : r' = r
    · subst hrr
      have hcc : c' ≠ c := by rcases hne with h | h; exact absurd rfl h; exact h
      simp only [mget, List.getElem?_set_self hr, h1]
      rw [List.getElem?_set_ne (Ne.symm hcc)]
    · simp only [mget]
      rw [List.getElem?_set_ne (Ne.symm hrr)]

/-! ### aggregates over the matrix -/

theorem KeepsL.mapFin : ∀ {a b : List M}, KeepsL g a b → b.map g.fin = a.map g.fin
  | [], [], _ => rfl
  | _ :: _, _ :: _, h => by simp only [List.map, h.1.fin, KeepsL.mapFin h.2]
  | [], _ :: _, h => h.elim
  | _ :: _, [], h => h.elim

theorem KeepsLL.finM : ∀ {a b : List (List M)}, KeepsLL g a b → finM g b = finM g a
  | [], [], _ => rfl
  | _ :: _, _ :: _, h => by
      have := KeepsLL.finM h.2
      simp only [Lazy.finM] at this ⊢
      simp only [List.map, KeepsL.mapFin h.1, this]
  | [], _ :: _, h => h.elim
  | _ :: _, [], h => h.elim

theorem KeepsLL.mu : ∀ {a b : List (List M)}, KeepsLL g a b → muLLg g b ≤ muLLg g a
  | [], [], _ => Nat.le_refl _
  | _ :: _, _ :: _, h => by
      have := KeepsLL.mu h.2
      have := (KeepsL.sums h.1).2.2.2.1
      simp only [muLLg]; omega
  | [], _ :: _, h => h.elim
  | _ :: _, [], h => h.elim

theorem KeepsLL.scripts : ∀ {a b : List (List M)}, KeepsLL g a b →
    b.map (·.map g.script) = a.map (·.map g.script)
  | [], [], _ => rfl
  | _ :: _, _ :: _, h => by simp only [List.map, (KeepsL.sums h.1).2.2.2.2, KeepsLL.scripts h.2]
  | [], _ :: _, h => h.elim
  | _ :: _, [], h => h.elim

theorem sumMu_set_eq : ∀ (l : List M) (c : Nat) (x y : M), l[c]? = some x →
    sumMu g (l.set c y) + g.μ x = sumMu g l + g.μ y
  | [], _, _, _, h => by simp at h
  | m :: ms, 0, x, y, h => by
      simp only [List.getElem?_cons_zero, Option.some.injEq] at h
      subst h
      simp only [List.set_cons_zero, sumMu]; omega
  | m :: ms, c + 1, x, y, h => by
      simp only [List.getElem?_cons_succ] at h
      have := sumMu_set_eq ms c x y h
      simp only [List.set_cons_succ, sumMu]; omega

theorem muLLg_setRow : ∀ (t : List (List M)) (r : Nat) (row row' : List M), t[r]? = some row →
    muLLg g (t.set r row') + sumMu g row = muLLg g t + sumMu g row'
  | [], _, _, _, h => by simp at h
  | x :: xs, 0, row, row', h => by
      simp only [List.getElem?_cons_zero, Option.some.injEq] at h
      subst h
      simp only [List.set_cons_zero, muLLg]; omega
  | x :: xs, r + 1, row, row', h => by
      simp only [List.getElem?_cons_succ] at h
      have := muLLg_setRow xs r row row' h
      simp only [List.set_cons_succ, muLLg]; omega

/-- exact accounting of the measure when one cell is replaced -/
theorem mset_mu {t t' : List (List M)} {r c : Nat} {x y : M} (hx : mget t r c = .ok x)
    (hs : mset t r c y = .ok t') : muLLg g t' + g.μ x = muLLg g t + g.μ y := by
  obtain ⟨row, h1, h2⟩ := mget_some hx
  have hc : c < row.length := by
    rcases Nat.lt_or_ge c row.length with h | h
    · exact h
    · rw [List.getElem?_eq_none h] at h2; cases h2
  simp only [mset, h1, hc, if_true, pure, Except.pure, Except.ok.injEq] at hs
  subst hs
  have e1 := muLLg_setRow (g := g) t r row (row.set c y) h1
  have e2 := sumMu_set_eq (g := g) row c x y h2
  omega

theorem mget_inv {t : List (List M)} {r c : Nat} {m : M} (hI : ∀ row ∈ t, ∀ m ∈ row, g.I m)
    (h : mget t r c = .ok m) : g.I m := by
  obtain ⟨row, h1, h2⟩ := mget_some h
  exact hI row (List.mem_of_getElem? h1) m (List.mem_of_getElem? h2)

/-- a cell's measure is part of the matrix' measure -/
theorem mget_mu_le {t : List (List M)} {r c : Nat} {m : M} (h : mget t r c = .ok m) : g.μ m ≤ muLLg g t := by
  obtain ⟨row, h1, h2⟩ := mget_some h
  have a : ∀ (l : List M) (c : Nat), l[c]? = some m → g.μ m ≤ sumMu g l := by
    intro l
    induction l with
    | nil => intro c hc; simp at hc
    | cons x xs ih =>
      intro c hc
      cases c with
      | zero => simp only [List.getElem?_cons_zero, Option.some.injEq] at hc; subst hc; simp only [sumMu]; omega
      | succ c => simp only [List.getElem?_cons_succ] at hc; have := ih c hc; simp only [sumMu]; omega
  have b : ∀ (t : List (List M)) (r : Nat), t[r]? = some row → sumMu g row ≤ muLLg g t := by
    intro t
    induction t with
    | nil => intro r hr; simp at hr
    | cons x xs ih =>
      intro r hr
      cases r with
      | zero => simp only [List.getElem?_cons_zero, Option.some.injEq] at hr; subst hr; simp only [muLLg]; omega
      | succ r => simp only [List.getElem?_cons_succ] at hr; have := ih r hr; simp only [muLLg]; omega
  exact Nat.le_trans (a row c h2) (b t r h1)

/-- `cellAt` of the final-cost matrix is the final cost of the cell -/
theorem cellAt_finM {t : List (List M)} {r c : Nat} {m : M} (h : mget t r c = .ok m) :
    EditMatrix.cellAt (finM g t) r c = g.fin m := by
  obtain ⟨row, h1, h2⟩ := mget_some h
  simp [EditMatrix.cellAt, finM, List.getD, h1, h2]

theorem mget_ok {t : List (List M)} {m n r c : Nat} (h : MShape t m n) (hr : r < m) (hc : c < n) :
    ∃ v, mget t r c = .ok v := by
  have hr' : r < t.length := by rw [h.1]; exact hr
  have hrow := h.2 t[r] (List.getElem_mem hr')
  have hc' : c < t[r].length := by rw [hrow]; exact hc
  exact ⟨t[r][c], mget_of_some (List.getElem?_eq_getElem hr') (List.getElem?_eq_getElem hc')⟩

theorem KeepsL.length' : ∀ {a b : List M}, KeepsL g a b → b.length = a.length := KeepsL.length

theorem KeepsLL.shape : ∀ {a b : List (List M)} {m n : Nat}, KeepsLL g a b → MShape a m n → MShape b m n
  | [], [], _, _, _, h => h
  | x :: xs, y :: ys, m, n, k, h => by
      have ih := KeepsLL.shape (m := m - 1) (n := n) k.2
        ⟨by have := h.1; simp at this; omega, fun row hrow => h.2 row (by simp [hrow])⟩
      refine ⟨?_, ?_⟩
      · have := h.1; have := ih.1; simp at *; omega
      · intro row hrow
        rcases List.mem_cons.mp hrow with rfl | hrow
        · rw [KeepsL.length k.1]; exact h.2 x (by simp)
        · exact ih.2 row hrow
  | [], _ :: _, _, _, k, _ => k.elim
  | _ :: _, [], _, _, k, _ => k.elim

/-! ### anti-diagonals -/

theorem mem_diag {fr : Int} {fc nf r c : Nat} (h0 : 0 ≤ fr) (hfc : fc ≤ nf) :
    (r, c) ∈ diag fr fc nf ↔ (r + c = fr.toNat + fc ∧ fc ≤ c ∧ c ≤ nf ∧ r ≤ fr.toNat) := by
  have h1 : ¬ (fr < 0) := by omega
  have h2 : ¬ (fc > nf) := by omega
  simp only [diag, h1, h2, decide_false, Bool.or_self, Bool.false_eq_true, if_false, List.mem_map, List.mem_range,
    Prod.mk.injEq, nmin]
  constructor
  · rintro ⟨i, hi, rfl, rfl⟩
    omega
  · rintro ⟨hs, hc1, hc2, hr⟩
    exact ⟨c - fc, by omega, by omega, by omega⟩

end

end GtModel.Lazy

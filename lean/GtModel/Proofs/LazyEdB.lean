/-
  EditDistance protocol, part B: the table invariant (processed entries of `costs` / `path_costs` equal the greedy
  matrix `EditMatrix.spec` over the cells' FINAL costs), `_add_node`, `_next_fringe`, `_best_match`.
-/
import GtModel.Proofs.LazyEdA
import GtModel.Proofs.LazyEdStatic

namespace GtModel.Lazy
open GtModel.EditMatrix (Cell Move step spec lexLe goLeft goUp goDiag cellAt)

/-- everything but the two tables is the same -/
structure SameCtl (s s' : EdSt) : Prop where
  pre : s'.pre = s.pre
  suf : s'.suf = s.suf
  flen : s'.flen = s.flen
  tlen : s'.tlen = s.tlen
  lb0 : s'.lb0 = s.lb0
  ub0 : s'.ub0 = s.ub0
  rem : s'.rem = s.rem
  ins : s'.ins = s.ins
  fr : s'.fr = s.fr
  fc : s'.fc = s.fc
  last : s'.lastFringe = s.lastFringe
  freed : s'.freed = s.freed
  cache : s'.cache = s.cache

theorem SameCtl.refl (s : EdSt) : SameCtl s s := ⟨rfl, rfl, rfl, rfl, rfl, rfl, rfl, rfl, rfl, rfl, rfl, rfl, rfl⟩

theorem SameCtl.trans {a b c : EdSt} (h1 : SameCtl a b) (h2 : SameCtl b c) : SameCtl a c :=
  ⟨h2.pre.trans h1.pre, h2.suf.trans h1.suf, h2.flen.trans h1.flen, h2.tlen.trans h1.tlen, h2.lb0.trans h1.lb0,
    h2.ub0.trans h1.ub0, h2.rem.trans h1.rem, h2.ins.trans h1.ins, h2.fr.trans h1.fr, h2.fc.trans h1.fc,
    h2.last.trans h1.last, h2.freed.trans h1.freed, h2.cache.trans h1.cache⟩

theorem SameCtl.nf {s s' : EdSt} (h : SameCtl s s') : s'.nf = s.nf := by simp [EdSt.nf, h.rem]
theorem SameCtl.nt {s s' : EdSt} (h : SameCtl s s') : s'.nt = s.nt := by simp [EdSt.nt, h.ins]
theorem SameCtl.edT {s s' : EdSt} (h : SameCtl s s') (fm : List (List Nat)) : edT s' fm = edT s fm := by
  simp [Lazy.edT, h.rem, h.ins]
theorem SameCtl.complete {s s' : EdSt} (h : SameCtl s s') : edComplete s' = edComplete s := by
  simp [edComplete, h.freed, h.fr, h.fc, h.nt, h.nf]

theorem TabOK.mono {s : EdSt} {fm : List (List Nat)} {P P' : Nat → Nat → Prop} (h : TabOK s fm P)
    (hp : ∀ r c, P' r c → P r c) : TabOK s fm P' :=
  ⟨h.shC, h.shP, fun r c hr hc hp' => h.ok r c hr hc (hp r c hp')⟩

theorem lget_ok {α : Type} {l : List α} {i : Nat} (h : i < l.length) : lget l i = .ok l[i] := by
  simp [lget, List.getElem?_eq_getElem h, pure, Except.pure]

theorem getD_of_lt {l : List Nat} {i : Nat} (h : i < l.length) : l.getD i 0 = l[i] := by
  simp [List.getD, List.getElem?_eq_getElem h]

/-- writing the greedy value at (r0, c0) keeps `TabOK` and adds (r0, c0) -/
theorem TabOK.write {s : EdSt} {fm : List (List Nat)} {P : Nat → Nat → Prop} (h : TabOK s fm P) {r0 c0 : Nat}
    (hr : r0 ≤ s.nt) (hc : c0 ≤ s.nf) :
    ∃ tc tp, tset s.costs r0 c0 (edT s fm r0 c0).cost = .ok tc ∧ tset s.paths r0 c0 (edT s fm r0 c0).path = .ok tp ∧
      TabOK { s with costs := tc, paths := tp } fm (fun r c => P r c ∨ (r = r0 ∧ c = c0)) := by
  obtain ⟨tc, e1, s1, g1, o1⟩ := tset_ok (edT s fm r0 c0).cost h.shC (show r0 < s.nt + 1 by omega) (show c0 < s.nf + 1 by omega)
  obtain ⟨tp, e2, s2, g2, o2⟩ := tset_ok (edT s fm r0 c0).path h.shP (show r0 < s.nt + 1 by omega) (show c0 < s.nf + 1 by omega)
  refine ⟨tc, tp, e1, e2, ⟨s1, s2, ?_⟩⟩
  intro r c hr' hc' hp
  by_cases hrc : r = r0 ∧ c = c0
  · obtain ⟨rfl, rfl⟩ := hrc
    exact ⟨g1, g2⟩
  · have hne : r ≠ r0 ∨ c ≠ c0 := by
      by_cases h1 : r = r0
      · exact Or.inr (fun h2 => hrc ⟨h1, h2⟩)
      · exact Or.inl h1
    rcases hp with hp | hp
    · have := h.ok r c hr' hc' hp
      exact ⟨by show tget tc r c = _; rw [o1 r c hne]; exact this.1, by show tget tp r c = _; rw [o2 r c hne]; exact this.2⟩
    · exact absurd hp hrc

/-- `_add_node(row, col)` -/
theorem addNode_ok {s : EdSt} {fm : List (List Nat)} {P : Nat → Nat → Prop} (h : TabOK s fm P) {row col : Nat}
    (hr : row ≤ s.nt) (hc : col ≤ s.nf)
    (h0 : row = 0 → 0 < col → P 0 (col - 1)) (h1 : col = 0 → 0 < row → P (row - 1) 0) :
    ∃ s', addNode s row col = .ok s' ∧ SameCtl s s' ∧
      TabOK s' fm (fun r c => P r c ∨ (r = row ∧ c = col ∧ (row = 0 ∨ col = 0) ∧ 0 < row + col)) := by
  by_cases hz : row = 0 ∧ col = 0
  · obtain ⟨rfl, rfl⟩ := hz
    refine ⟨s, by simp [addNode, pure, Except.pure], SameCtl.refl s, ?_⟩
    exact ⟨h.shC, h.shP, fun r c hr' hc' hp => by
      rcases hp with hp | ⟨_, _, _, hp⟩
      · exact h.ok r c hr' hc' hp
      · omega⟩
  · by_cases hrow : row = 0
    · subst hrow
      have hcol : 0 < col := by omega
      obtain ⟨c', rfl⟩ : ∃ c', col = c' + 1 := ⟨col - 1, by omega⟩
      have hm := h.ok 0 c' (by omega) (by omega) (h0 rfl hcol)
      have hlt : c' < s.rem.length := by simp only [EdSt.nf] at hc; omega
      obtain ⟨tc, tp, e1, e2, tab⟩ := h.write (r0 := 0) (c0 := c' + 1) (by omega) hc
      have hv : edT s fm 0 (c' + 1) = goLeft (edT s fm 0 c') s.rem[c'] := by
        simp only [edT]; rw [spec.eq_2, getD_of_lt hlt]
      rw [hv] at e1 e2
      simp only [goLeft] at e1 e2
      refine ⟨{ s with costs := tc, paths := tp }, ?_, ⟨rfl, rfl, rfl, rfl, rfl, rfl, rfl, rfl, rfl, rfl, rfl, rfl, rfl⟩, ?_⟩
      · simp [addNode, hm.1, hm.2, lget_ok hlt, bind, Except.bind, e1, e2, pure, Except.pure]
      · refine ⟨tab.shC, tab.shP, fun r c hr' hc' hp => tab.ok r c hr' hc' ?_⟩
        rcases hp with hp | ⟨h1', h2', _, _⟩
        · exact Or.inl hp
        · exact Or.inr ⟨h1', h2'⟩
    · by_cases hcol : col = 0
      · subst hcol
        obtain ⟨r', rfl⟩ : ∃ r', row = r' + 1 := ⟨row - 1, by omega⟩
        have hm := h.ok r' 0 (by omega) (by omega) (h1 rfl (by omega))
        have hlt : r' < s.ins.length := by simp only [EdSt.nt] at hr; omega
        obtain ⟨tc, tp, e1, e2, tab⟩ := h.write (r0 := r' + 1) (c0 := 0) hr (by omega)
        have hv : edT s fm (r' + 1) 0 = goUp (edT s fm r' 0) s.ins[r'] := by
          simp only [edT]; rw [spec.eq_3, getD_of_lt hlt]
        rw [hv] at e1 e2
        simp only [goUp] at e1 e2
        refine ⟨{ s with costs := tc, paths := tp }, ?_, ⟨rfl, rfl, rfl, rfl, rfl, rfl, rfl, rfl, rfl, rfl, rfl, rfl, rfl⟩, ?_⟩
        · simp [addNode, hm.1, hm.2, lget_ok hlt, bind, Except.bind, e1, e2, pure, Except.pure]
        · refine ⟨tab.shC, tab.shP, fun r c hr' hc' hp => tab.ok r c hr' hc' ?_⟩
          rcases hp with hp | ⟨h1', h2', _, _⟩
          · exact Or.inl hp
          · exact Or.inr ⟨h1', h2'⟩
      · refine ⟨s, by simp [addNode, hrow, hcol, pure, Except.pure], SameCtl.refl s, ?_⟩
        exact ⟨h.shC, h.shP, fun r c hr' hc' hp => by
          rcases hp with hp | ⟨_, _, hb, _⟩
          · exact h.ok r c hr' hc' hp
          · omega⟩

theorem addNodes_ok {fm : List (List Nat)} (k : Nat) :
    ∀ (l : List (Nat × Nat)) (s : EdSt) (P : Nat → Nat → Prop), TabOK s fm P →
      (∀ rc ∈ l, rc.1 ≤ s.nt ∧ rc.2 ≤ s.nf ∧ rc.1 + rc.2 = k) → (∀ r c, r + c < k → P r c) →
      ∃ s', addNodes s l = .ok s' ∧ SameCtl s s' ∧
        TabOK s' fm (fun r c => P r c ∨ ((r, c) ∈ l ∧ (r = 0 ∨ c = 0) ∧ 0 < r + c))
  | [], s, P, h, _, _ =>
      ⟨s, rfl, SameCtl.refl s, h.mono (fun r c hp => by rcases hp with hp | ⟨hm, _⟩; exact hp; simp at hm)⟩
  | (row, col) :: rest, s, P, h, hl, hP => by
    obtain ⟨hr, hc, hk⟩ := hl (row, col) (by simp)
    simp only at hr hc hk
    obtain ⟨s1, e1, sc1, tab1⟩ := addNode_ok h hr hc (fun h0 hpos => hP _ _ (by omega)) (fun h0 hpos => hP _ _ (by omega))
    obtain ⟨s2, e2, sc2, tab2⟩ := addNodes_ok k rest s1 _ tab1
      (fun rc hrc => by rw [sc1.nt, sc1.nf]; exact hl rc (by simp [hrc])) (fun r c hlt => Or.inl (hP r c hlt))
    refine ⟨s2, by simp [addNodes, e1, bind, Except.bind, e2], sc1.trans sc2, tab2.mono ?_⟩
    intro r c hp
    rcases hp with hp | ⟨hm, hb, hpos⟩
    · exact Or.inl (Or.inl hp)
    · rcases List.mem_cons.mp hm with heq | hm
      · simp only [Prod.mk.injEq] at heq
        obtain ⟨rfl, rfl⟩ := heq
        exact Or.inl (Or.inr ⟨rfl, rfl, hb, hpos⟩)
      · exact Or.inr ⟨hm, hb, hpos⟩

/-- the fields `_next_fringe` does not touch -/
structure SameStat (s s' : EdSt) : Prop where
  pre : s'.pre = s.pre
  suf : s'.suf = s.suf
  flen : s'.flen = s.flen
  tlen : s'.tlen = s.tlen
  lb0 : s'.lb0 = s.lb0
  ub0 : s'.ub0 = s.ub0
  rem : s'.rem = s.rem
  ins : s'.ins = s.ins
  freed : s'.freed = s.freed
  cache : s'.cache = s.cache

/-- the fields nothing ever touches -/
structure SameCore (s s' : EdSt) : Prop where
  pre : s'.pre = s.pre
  suf : s'.suf = s.suf
  flen : s'.flen = s.flen
  tlen : s'.tlen = s.tlen
  lb0 : s'.lb0 = s.lb0
  ub0 : s'.ub0 = s.ub0
  rem : s'.rem = s.rem
  ins : s'.ins = s.ins

theorem SameCore.nf {s s' : EdSt} (h : SameCore s s') : s'.nf = s.nf := by simp [EdSt.nf, h.rem]
theorem SameCore.nt {s s' : EdSt} (h : SameCore s s') : s'.nt = s.nt := by simp [EdSt.nt, h.ins]
theorem SameCore.edT {s s' : EdSt} (h : SameCore s s') (fm : List (List Nat)) : edT s' fm = edT s fm := by
  simp [Lazy.edT, h.rem, h.ins]
theorem SameCore.refl (s : EdSt) : SameCore s s := ⟨rfl, rfl, rfl, rfl, rfl, rfl, rfl, rfl⟩
theorem SameCore.trans {a b c : EdSt} (h1 : SameCore a b) (h2 : SameCore b c) : SameCore a c :=
  ⟨h2.pre.trans h1.pre, h2.suf.trans h1.suf, h2.flen.trans h1.flen, h2.tlen.trans h1.tlen, h2.lb0.trans h1.lb0,
    h2.ub0.trans h1.ub0, h2.rem.trans h1.rem, h2.ins.trans h1.ins⟩

theorem SameStat.nf {s s' : EdSt} (h : SameStat s s') : s'.nf = s.nf := by simp [EdSt.nf, h.rem]
theorem SameStat.nt {s s' : EdSt} (h : SameStat s s') : s'.nt = s.nt := by simp [EdSt.nt, h.ins]
theorem SameStat.edT {s s' : EdSt} (h : SameStat s s') (fm : List (List Nat)) : edT s' fm = edT s fm := by
  simp [Lazy.edT, h.rem, h.ins]
theorem SameCtl.stat {s s' : EdSt} (h : SameCtl s s') : SameStat s s' :=
  ⟨h.pre, h.suf, h.flen, h.tlen, h.lb0, h.ub0, h.rem, h.ins, h.freed, h.cache⟩
theorem SameStat.core {s s' : EdSt} (h : SameStat s s') : SameCore s s' :=
  ⟨h.pre, h.suf, h.flen, h.tlen, h.lb0, h.ub0, h.rem, h.ins⟩
theorem SameStat.refl (s : EdSt) : SameStat s s := (SameCtl.refl s).stat
theorem SameStat.trans {a b c : EdSt} (h1 : SameStat a b) (h2 : SameStat b c) : SameStat a c :=
  ⟨h2.pre.trans h1.pre, h2.suf.trans h1.suf, h2.flen.trans h1.flen, h2.tlen.trans h1.tlen, h2.lb0.trans h1.lb0,
    h2.ub0.trans h1.ub0, h2.rem.trans h1.rem, h2.ins.trans h1.ins, h2.freed.trans h1.freed, h2.cache.trans h1.cache⟩

theorem TabOK.mono' {s : EdSt} {fm : List (List Nat)} {P P' : Nat → Nat → Prop} (h : TabOK s fm P)
    (hp : ∀ r c, r ≤ s.nt → c ≤ s.nf → P' r c → P r c) : TabOK s fm P' :=
  ⟨h.shC, h.shP, fun r c hr hc hp' => h.ok r c hr hc (hp r c hr hc hp')⟩

/-- the common part of the two cases of `_next_fringe` -/
theorem nextFringe_core {s : EdSt} {fm : List (List Nat)} {P : Nat → Nat → Prop} (h : TabOK s fm P)
    (hP : ∀ r c, r + c < started s → P r c) (fr2 : Int) (fc2 : Nat)
    (h0 : 0 ≤ fr2) (h1 : fr2 ≤ s.nt) (h2 : fc2 ≤ s.nf) (h3 : fr2 < s.nt → fc2 = 0)
    (hk : fr2.toNat + fc2 = started s) :
    ∃ s', addNodes { s with lastFringe := diag s.fr s.fc s.nf, fr := fr2, fc := fc2 } (diag fr2 fc2 s.nf) = .ok s' ∧
      Pos s' ∧ 0 ≤ s'.fr ∧ s'.fr.toNat + s'.fc = started s ∧ s'.lastFringe = diag s.fr s.fc s.nf ∧ SameStat s s' ∧
      s'.fr = fr2 ∧ s'.fc = fc2 ∧
      TabOK s' fm (fun r c => P r c ∨ (r + c = started s ∧ (r = 0 ∨ c = 0) ∧ 0 < r + c)) := by
  let s1 : EdSt := { s with lastFringe := diag s.fr s.fc s.nf, fr := fr2, fc := fc2 }
  have tab1 : TabOK s1 fm P := ⟨h.shC, h.shP, h.ok⟩
  obtain ⟨s2, e2, sc2, tab2⟩ := addNodes_ok (fm := fm) (started s) (diag fr2 fc2 s.nf) s1 P tab1
    (by
      intro rc hrc
      obtain ⟨r, c⟩ := rc
      have := (mem_diag h0 h2).mp hrc
      show r ≤ s.nt ∧ c ≤ s.nf ∧ r + c = started s
      omega)
    hP
  refine ⟨s2, e2, ?_, ?_, ?_, ?_, ?_, ?_, ?_, ?_⟩
  · have e1 := sc2.fr; have e2' := sc2.fc; have e3 := sc2.nt; have e4 := sc2.nf
    exact ⟨by rw [e1]; show -1 ≤ fr2; omega, by rw [e1, e3]; exact h1, by rw [e2', e4]; exact h2,
      by rw [e1, e2', e3]; exact h3⟩
  · rw [sc2.fr]; exact h0
  · rw [sc2.fr, sc2.fc]; exact hk
  · rw [sc2.last]
  · exact ⟨sc2.pre, sc2.suf, sc2.flen, sc2.tlen, sc2.lb0, sc2.ub0, sc2.rem, sc2.ins, sc2.freed, sc2.cache⟩
  · exact sc2.fr
  · exact sc2.fc
  · refine tab2.mono' ?_
    intro r c hr hc hp
    rw [sc2.nt] at hr; rw [sc2.nf] at hc
    rcases hp with hp | ⟨hs, hb, hpos⟩
    · exact Or.inl hp
    · refine Or.inr ⟨(mem_diag h0 h2).mpr ?_, hb, hpos⟩
      have hr' : r ≤ s.nt := hr
      have hc' : c ≤ s.nf := hc
      by_cases hlt : fr2 < s.nt
      · have := h3 hlt; omega
      · omega

/-- `_next_fringe()` on an incomplete matrix: the fringe moves to the next anti-diagonal, whose border cells get
    their cumulative costs; it reports False exactly when that diagonal is the lower right corner -/
theorem nextFringe_ok {s : EdSt} {fm : List (List Nat)} {P : Nat → Nat → Prop} (pos : Pos s)
    (nz : 0 < s.nt + s.nf) (hnc : edComplete s = false) (hnf : s.freed = false) (h : TabOK s fm P)
    (hP : ∀ r c, r + c < started s → P r c) :
    ∃ s' flag, nextFringe s = .ok (s', flag) ∧ Pos s' ∧ 0 ≤ s'.fr ∧ s'.fr.toNat + s'.fc = started s ∧
      s'.lastFringe = diag s.fr s.fc s.nf ∧ SameStat s s' ∧
      TabOK s' fm (fun r c => P r c ∨ (r + c = started s ∧ (r = 0 ∨ c = 0) ∧ 0 < r + c)) ∧
      (flag = false ↔ started s = s.nt + s.nf) := by
  have hpl := pos.lo; have hph := pos.hi; have hpf := pos.fc; have hpz := pos.z
  -- not complete: the corner diagonal has not been reached
  have hlt : ¬ (0 ≤ s.fr ∧ s.nt + s.nf ≤ s.fr.toNat + s.fc) := by
    intro hh
    simp [edComplete, hnf, hh.1, hh.2, nz] at hnc
  by_cases hcase : s.fr + 1 ≥ (s.nt : Int) + 1
  · -- the fringe row is at the bottom: move right
    have hfr : s.fr = s.nt := by omega
    have hfc : s.fc < s.nf := by
      have : ¬ (s.nt + s.nf ≤ s.fr.toNat + s.fc) := fun hh => hlt ⟨by omega, hh⟩
      omega
    obtain ⟨s', e, p', h0', hk', hl', st', efr, efc, tab'⟩ := nextFringe_core h hP (s.nt : Int) (s.fc + 1)
      (by omega) (by omega) (by omega) (by omega) (by simp only [started]; omega)
    refine ⟨s', (if s.fc + 1 ≥ s.nf then decide ((s.nt : Int) < (s.nt : Int)) else true), ?_, p', h0', hk', hl', st', tab', ?_⟩
    · simp only [nextFringe, hnc, Bool.false_eq_true, if_false, hcase, if_true, bind, Except.bind, e, pure, Except.pure]
    · simp only [started]
      by_cases hh : s.fc + 1 ≥ s.nf
      · simp [hh]; omega
      · simp [hh]; omega
  · have hfr : s.fr < s.nt := by omega
    have hfc := hpz hfr
    obtain ⟨s', e, p', h0', hk', hl', st', efr, efc, tab'⟩ := nextFringe_core h hP (s.fr + 1) s.fc
      (by omega) (by omega) (by omega) (by omega) (by simp only [started])
    refine ⟨s', (if s.fc ≥ s.nf then decide (s.fr + 1 < (s.nt : Int)) else true), ?_, p', h0', hk', hl', st', tab', ?_⟩
    · simp only [nextFringe, hnc, Bool.false_eq_true, if_false, hcase, bind, Except.bind, e, pure, Except.pure]
    · simp only [started, hfc]
      by_cases hh : 0 ≥ s.nf
      · simp [hfc, hh]; omega
      · simp [hfc, hh]; omega

/-! ### `_best_match` -/

theorem lexLe_cp {a b a' b' : Cell} (ha : a.cost = a'.cost ∧ a.path = a'.path)
    (hb : b.cost = b'.cost ∧ b.path = b'.path) : lexLe a b = lexLe a' b' := by
  simp [lexLe, ha.1, ha.2, hb.1, hb.2]

/-- the greedy rule only looks at costs and path lengths; the scripts ride along -/
theorem step_cp (i rm x : Nat) {d l u d' l' u' : Cell} (hd : d.cost = d'.cost ∧ d.path = d'.path)
    (hl : l.cost = l'.cost ∧ l.path = l'.path) (hu : u.cost = u'.cost ∧ u.path = u'.path) :
    (step i rm x d l u).cost = (step i rm x d' l' u').cost ∧ (step i rm x d l u).path = (step i rm x d' l' u').path ∧
    (step i rm x d l u).script.headD .left = (step i rm x d' l' u').script.headD .left := by
  unfold step
  rw [lexLe_cp hd hl, lexLe_cp hd hu, lexLe_cp hu hd]
  split
  · simp [goDiag, hd.1, hd.2]
  · split
    · simp [goUp, hu.1, hu.2]
    · simp [goLeft, hl.1, hl.2]

/-- if the diagonal neighbour is not the cheapest, the cell's own cost is irrelevant -/
theorem step_x (i rm x x' : Nat) (d l u : Cell) (h : (lexLe d l && lexLe d u) = false) :
    step i rm x d l u = step i rm x' d l u := by
  unfold step
  simp [h]

section
variable {rec : Ops} {g : Ghost}

/-- a definitive interval is the final cost -/
theorem def_is_fin (h : Protocol rec g) {m : M} (hI : g.I m) (hd : (g.view m).lo = (g.view m).hi) :
    (g.view m).hi = g.fin m ∧ (g.view m).definitive = true := by
  have w := h.wf m hI
  exact ⟨by omega, by simp [Iv.definitive, hd]⟩

/-- `_best_match(row, col)` on an inner cell whose three neighbours are filled in and which is definitive -/
theorem bestMatch_inner (h : Protocol rec g) {s : EdSt} {cells : List (List M)} {P : Nat → Nat → Prop}
    {row col : Nat} (tab : TabOK s (finM g cells) P) (hI : ∀ r ∈ cells, ∀ m ∈ r, g.I m)
    (hr1 : 1 ≤ row) (hr : row ≤ s.nt) (hc1 : 1 ≤ col) (hc : col ≤ s.nf)
    (pd : P (row - 1) (col - 1)) (pl : P row (col - 1)) (pu : P (row - 1) col)
    {c : M} (hcell : mget cells (row - 1) (col - 1) = .ok c) (hdef : (g.view c).lo = (g.view c).hi) :
    ∃ s' cells', bestMatch rec s cells row col = .ok (s', cells', moveAt s (finM g cells) row col) ∧
      SameCtl s s' ∧ TabOK s' (finM g cells) (fun r c' => P r c' ∨ (r = row ∧ c' = col)) ∧
      KeepsLL g cells cells' := by
  obtain ⟨r', rfl⟩ : ∃ r', row = r' + 1 := ⟨row - 1, by omega⟩
  obtain ⟨c', rfl⟩ : ∃ c', col = c' + 1 := ⟨col - 1, by omega⟩
  simp only [Nat.add_sub_cancel] at pd pl pu hcell
  have md := tab.ok r' c' (by omega) (by omega) pd
  have ml := tab.ok (r' + 1) c' hr (by omega) pl
  have mu := tab.ok r' (c' + 1) (by omega) hc pu
  have hil : r' < s.ins.length := by simp only [EdSt.nt] at hr; omega
  have hrl : c' < s.rem.length := by simp only [EdSt.nf] at hc; omega
  have hIc := mget_inv hI hcell
  obtain ⟨hx, hdf⟩ := def_is_fin h hIc hdef
  have hca := cellAt_finM (g := g) hcell
  -- the greedy value of this cell
  have hT : edT s (finM g cells) (r' + 1) (c' + 1) =
      step s.ins[r'] s.rem[c'] (g.fin c) (edT s (finM g cells) r' c') (edT s (finM g cells) (r' + 1) c')
        (edT s (finM g cells) r' (c' + 1)) := by
    simp only [edT]; rw [spec.eq_4, getD_of_lt hil, getD_of_lt hrl, hca]
  obtain ⟨tc, tp, e1, e2, tab'⟩ := tab.write (r0 := r' + 1) (c0 := c' + 1) hr hc
  -- the three neighbours as the model reads them (no scripts)
  let d0 : Cell := ⟨(edT s (finM g cells) r' c').cost, (edT s (finM g cells) r' c').path, []⟩
  let l0 : Cell := ⟨(edT s (finM g cells) (r' + 1) c').cost, (edT s (finM g cells) (r' + 1) c').path, []⟩
  let u0 : Cell := ⟨(edT s (finM g cells) r' (c' + 1)).cost, (edT s (finM g cells) r' (c' + 1)).path, []⟩
  have cpd : d0.cost = (edT s (finM g cells) r' c').cost ∧ d0.path = (edT s (finM g cells) r' c').path := ⟨rfl, rfl⟩
  have cpl : l0.cost = (edT s (finM g cells) (r' + 1) c').cost ∧ l0.path = (edT s (finM g cells) (r' + 1) c').path := ⟨rfl, rfl⟩
  have cpu : u0.cost = (edT s (finM g cells) r' (c' + 1)).cost ∧ u0.path = (edT s (finM g cells) r' (c' + 1)).path := ⟨rfl, rfl⟩
  by_cases hbest : (lexLe d0 l0 && lexLe d0 u0) = true
  · -- the diagonal neighbour is the cheapest: the cell's bounds are read
    obtain ⟨c1, eb, pb, _⟩ := h.bounds c hIc
    obtain ⟨cells', es, kl, _, _⟩ := mset_keeps hI hcell pb.keeps
    obtain ⟨q1, q2, q3⟩ := step_cp s.ins[r'] s.rem[c'] (g.view c).hi cpd cpl cpu
    rw [hx, ← hT] at q1 q2 q3
    refine ⟨{ s with costs := tc, paths := tp }, cells', ?_,
      ⟨rfl, rfl, rfl, rfl, rfl, rfl, rfl, rfl, rfl, rfl, rfl, rfl, rfl⟩, tab', kl⟩
    simp only [bestMatch, Nat.add_sub_cancel, md.1, md.2, ml.1, ml.2, mu.1, mu.2, lget_ok hil, lget_ok hrl, bind,
      Except.bind, pure, Except.pure]
    simp only [Nat.succ_ne_zero, beq_iff_eq, if_false, Nat.add_eq_zero_iff, and_false, reduceCtorEq]
    have hb' : (lexLe d0 l0 && lexLe d0 u0) = true := hbest
    simp only [d0, l0, u0] at hb'
    simp only [d0, l0, u0] at q1 q2 q3
    simp only [hb', if_true, hcell, eb, hdf, Bool.not_true, Bool.false_eq_true, if_false, es, hx]
    rw [q1, q2, q3, e1]
    simp only [e2, moveAt, Nat.succ_ne_zero, beq_iff_eq, if_false]
  · -- it is not: the cell is not even looked at
    have hb' : (lexLe d0 l0 && lexLe d0 u0) = false := by
      cases hh : (lexLe d0 l0 && lexLe d0 u0) with
      | true => exact absurd hh hbest
      | false => rfl
    obtain ⟨q1, q2, q3⟩ := step_cp s.ins[r'] s.rem[c'] (g.fin c) cpd cpl cpu
    rw [step_x _ _ (g.fin c) 0 d0 l0 u0 hb', ← hT] at q1 q2 q3
    refine ⟨{ s with costs := tc, paths := tp }, cells, ?_,
      ⟨rfl, rfl, rfl, rfl, rfl, rfl, rfl, rfl, rfl, rfl, rfl, rfl, rfl⟩, tab', KeepsLL.refl cells hI⟩
    simp only [bestMatch, Nat.add_sub_cancel, md.1, md.2, ml.1, ml.2, mu.1, mu.2, lget_ok hil, lget_ok hrl, bind,
      Except.bind, pure, Except.pure]
    simp only [Nat.succ_ne_zero, beq_iff_eq, if_false, Nat.add_eq_zero_iff, and_false, reduceCtorEq]
    simp only [d0, l0, u0] at hb'
    simp only [d0, l0, u0] at q1 q2 q3
    simp only [hb', Bool.false_eq_true, if_false]
    rw [q1, q2, q3, e1]
    simp only [e2, moveAt, Nat.succ_ne_zero, beq_iff_eq, if_false]

end

end GtModel.Lazy

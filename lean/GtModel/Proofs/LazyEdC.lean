/-
  EditDistance protocol, part C: tightening the cells of a fringe, the back-trace, `edits()` (finalisation).
-/
import GtModel.Proofs.LazyEdB

namespace GtModel.Lazy
open GtModel.EditMatrix (Cell Move step spec lexLe goLeft goUp goDiag cellAt)

section
variable {rec : Ops} {g : Ghost}

/-- `while cell.tighten_bounds(): [cell.bounds()]` terminates within `μ + 1` steps, on a single value -/
theorem tightenAll_ok (h : Protocol rec g) (ra : Bool) : ∀ (k : Nat) (c : M), g.I c → g.μ c < k →
    ∃ c', tightenAll rec ra k c = .ok c' ∧ Keeps g c c' ∧ (g.view c').lo = (g.view c').hi
  | 0, _, _, hk => absurd hk (Nat.not_lt_zero _)
  | k + 1, c, hI, hk => by
    obtain ⟨c1, r, e1, st⟩ := h.tighten c hI
    cases r with
    | false =>
      exact ⟨c1, by simp [tightenAll, e1, bind, Except.bind, pure, Except.pure], st.keeps, st.stop rfl⟩
    | true =>
      have hdec := st.dec rfl
      cases ra with
      | false =>
        obtain ⟨c3, e3, k3, d3⟩ := tightenAll_ok h false k c1 st.inv (by omega)
        exact ⟨c3, by simp [tightenAll, e1, bind, Except.bind, pure, Except.pure, e3], st.keeps.trans k3, d3⟩
      | true =>
        obtain ⟨c2, e2, p2, _⟩ := h.bounds c1 st.inv
        have := p2.mu
        obtain ⟨c3, e3, k3, d3⟩ := tightenAll_ok h true k c2 p2.inv (by omega)
        exact ⟨c3, by simp [tightenAll, e1, bind, Except.bind, pure, Except.pure, e2, e3],
          (st.keeps.trans p2.keeps).trans k3, d3⟩

theorem DefOn.keeps (h : Protocol rec g) {cells cells' : List (List M)} {D : Nat → Nat → Prop}
    (d : DefOn g cells D) (k : KeepsLL g cells cells') : DefOn g cells' D := by
  intro r c m hr hc hd hm
  obtain ⟨x, hx, kx⟩ := k.get hm
  exact def_of_keeps h kx (d r c x hr hc hd hx)

theorem DefOn.mono {cells : List (List M)} {D D' : Nat → Nat → Prop} (d : DefOn g cells D)
    (hd : ∀ r c, D' r c → D r c) : DefOn g cells D' :=
  fun r c m hr hc h' hm => d r c m hr hc (hd r c h') hm

theorem DefOn.mono' {cells : List (List M)} {D D' : Nat → Nat → Prop} (d : DefOn g cells D)
    (hd : ∀ r c, 1 ≤ r → 1 ≤ c → D' r c → D r c) : DefOn g cells D' :=
  fun r c m hr hc h' hm => d r c m hr hc (hd r c hr hc h') hm

/-- the bounds reads of a non-quiet run change nothing -/
theorem fringeRanges_ok (h : Protocol rec g) {nt nf : Nat} :
    ∀ (l : List (Nat × Nat)) (cells : List (List M)), (∀ r ∈ cells, ∀ m ∈ r, g.I m) → MShape cells nt nf →
      (∀ rc ∈ l, rc.1 ≤ nt ∧ rc.2 ≤ nf) →
      ∃ cells' tot, fringeRanges rec cells l = .ok (cells', tot) ∧ KeepsLL g cells cells'
  | [], cells, hI, _, _ => ⟨cells, 0, rfl, KeepsLL.refl cells hI⟩
  | (row, col) :: rest, cells, hI, sh, hl => by
    have hrest : ∀ rc ∈ rest, rc.1 ≤ nt ∧ rc.2 ≤ nf := fun rc hrc => hl rc (by simp [hrc])
    by_cases hb : row = 0 ∨ col = 0
    · obtain ⟨cells', tot, e, k⟩ := fringeRanges_ok h rest cells hI sh hrest
      refine ⟨cells', tot, ?_, k⟩
      have hb' : (row == 0 || col == 0) = true := by
        rcases hb with hb | hb <;> simp [hb]
      simp [fringeRanges, hb', e]
    · have hb' : (row == 0 || col == 0) = false := by
        have : row ≠ 0 ∧ col ≠ 0 := by omega
        simp [this.1, this.2]
      obtain ⟨hr, hc⟩ := hl (row, col) (by simp)
      simp only at hr hc
      obtain ⟨c, ec⟩ := mget_ok sh (show row - 1 < nt by omega) (show col - 1 < nf by omega)
      have hIc := mget_inv hI ec
      obtain ⟨c1, e1, p1, _⟩ := h.bounds c hIc
      obtain ⟨c2, e2, p2, _⟩ := h.bounds c1 p1.inv
      obtain ⟨cells1, es, k1, _, _⟩ := mset_keeps hI ec (p1.trans p2).keeps
      obtain ⟨cells', tot, e, k2⟩ := fringeRanges_ok h rest cells1 k1.inv (k1.shape sh) hrest
      refine ⟨cells', ((g.view c).hi - (g.view c1).lo) + tot, ?_, k1.trans k2⟩
      simp [fringeRanges, hb', ec, e1, e2, es, e, bind, Except.bind, pure, Except.pure]

theorem TabOK.fm {s : EdSt} {fm fm' : List (List Nat)} {P : Nat → Nat → Prop} (h : TabOK s fm P) (e : fm' = fm) :
    TabOK s fm' P := by rw [e]; exact h

/-- `_best_match` on a border cell only returns the neighbour -/
theorem bestMatch_border (s : EdSt) (cells : List (List M)) {row col : Nat} (hb : row = 0 ∨ col = 0)
    (hpos : 0 < row + col) (fm : List (List Nat)) :
    bestMatch rec s cells row col = .ok (s, cells, moveAt s fm row col) := by
  by_cases hr : row = 0
  · subst hr
    have hc : col ≠ 0 := by omega
    simp [bestMatch, moveAt, hc, pure, Except.pure]
  · have hc : col = 0 := by omega
    subst hc
    simp [bestMatch, moveAt, hr, pure, Except.pure]

/-- the fringe loop: every inner cell of the list is tightened to a single value and then filled in -/
theorem processFringe_ok (h : Protocol rec g) (F : Nat) (ra : Bool) (k : Nat) (hk : 1 ≤ k) :
    ∀ (l : List (Nat × Nat)) (s : EdSt) (cells : List (List M)) (P D : Nat → Nat → Prop),
      TabOK s (finM g cells) P → (∀ r c, r + c < k → P r c) → (∀ r ∈ cells, ∀ m ∈ r, g.I m) →
      MShape cells s.nt s.nf → DefOn g cells D → (∀ rc ∈ l, rc.1 ≤ s.nt ∧ rc.2 ≤ s.nf ∧ rc.1 + rc.2 = k) →
      muLLg g cells < F →
      ∃ s' cells', processFringe rec F ra s cells l = .ok (s', cells') ∧ SameCtl s s' ∧ KeepsLL g cells cells' ∧
        TabOK s' (finM g cells) (fun r c => P r c ∨ ((r, c) ∈ l ∧ 1 ≤ r ∧ 1 ≤ c)) ∧
        DefOn g cells' (fun r c => D r c ∨ (r, c) ∈ l)
  | [], s, cells, P, D, tab, _, hI, _, hd, _, _ =>
      ⟨s, cells, rfl, SameCtl.refl s, KeepsLL.refl cells hI,
        tab.mono (fun r c hp => by rcases hp with hp | ⟨hm, _⟩; exact hp; simp at hm),
        hd.mono (fun r c hp => by rcases hp with hp | hm; exact hp; simp at hm)⟩
  | (row, col) :: rest, s, cells, P, D, tab, hP, hI, sh, hd, hl, hmu => by
    obtain ⟨hr, hc, hsum⟩ := hl (row, col) (by simp)
    simp only at hr hc hsum
    have hrest : ∀ rc ∈ rest, rc.1 ≤ s.nt ∧ rc.2 ≤ s.nf ∧ rc.1 + rc.2 = k := fun rc hrc => hl rc (by simp [hrc])
    by_cases hb : row = 0 ∨ col = 0
    · -- Remove / Insert
      have hb' : (row == 0 || col == 0) = true := by rcases hb with hb | hb <;> simp [hb]
      have eb := bestMatch_border (rec := rec) s cells hb (by omega) (finM g cells)
      obtain ⟨s', cells', e, sc, kl, tab', hd'⟩ := processFringe_ok h F ra k hk rest s cells P D tab hP hI sh hd hrest hmu
      refine ⟨s', cells', ?_, sc, kl, tab'.mono ?_, hd'.mono' ?_⟩
      · simp [processFringe, hb', eb, e, bind, Except.bind]
      · intro r c hp
        rcases hp with hp | ⟨hm, h1, h2⟩
        · exact Or.inl hp
        · rcases List.mem_cons.mp hm with heq | hm
          · have h' : r = row ∧ c = col := by simpa using heq
            omega
          · exact Or.inr ⟨hm, h1, h2⟩
      · intro r c hr1 hc1 hp
        rcases hp with hp | hm
        · exact Or.inl hp
        · rcases List.mem_cons.mp hm with heq | hm
          · have h' : r = row ∧ c = col := by simpa using heq
            omega
          · exact Or.inr hm
    · -- an inner cell
      have hb' : (row == 0 || col == 0) = false := by
        have : row ≠ 0 ∧ col ≠ 0 := by omega
        simp [this.1, this.2]
      obtain ⟨c, ec⟩ := mget_ok sh (show row - 1 < s.nt by omega) (show col - 1 < s.nf by omega)
      have hIc := mget_inv hI ec
      have hmc := mget_mu_le (g := g) ec
      obtain ⟨c1, e1, k1, d1⟩ := tightenAll_ok h ra F c hIc (by omega)
      obtain ⟨c2, e2, p2, _⟩ := h.bounds c1 k1.inv
      have hdef : (g.view c1).definitive = true := by simp [Iv.definitive, d1]
      obtain ⟨cells1, es, K1, get1, _⟩ := mset_keeps hI ec (k1.trans p2.keeps)
      have d2 : (g.view c2).lo = (g.view c2).hi := by rw [p2.view]; exact d1
      obtain ⟨s1, cells2, eb, sc1, tab1, K2⟩ := bestMatch_inner h (tab.fm K1.finM) K1.inv (by omega) hr (by omega) hc
        (hP _ _ (by omega)) (hP _ _ (by omega)) (hP _ _ (by omega)) get1 d2
      have K12 := K1.trans K2
      have hd2 : DefOn g cells2 (fun r c' => D r c' ∨ (r = row ∧ c' = col)) := by
        intro r c' m hr1 hc1 hdd hm
        rcases hdd with hdd | ⟨rfl, rfl⟩
        · exact (hd.keeps h K12) r c' m hr1 hc1 hdd hm
        · obtain ⟨x, hx, kx⟩ := K2.get hm
          rw [get1] at hx
          cases hx
          exact def_of_keeps h kx d2
      obtain ⟨s', cells', e, sc2, K3, tab', hd'⟩ := processFringe_ok h F ra k hk rest s1 cells2
        (fun r c' => P r c' ∨ (r = row ∧ c' = col)) (fun r c' => D r c' ∨ (r = row ∧ c' = col))
        (tab1.fm (K2.finM)) (fun r c' hlt => Or.inl (hP r c' hlt)) K2.inv
        (by rw [sc1.nt, sc1.nf]; exact K12.shape sh) hd2
        (fun rc hrc => by rw [sc1.nt, sc1.nf]; exact hrest rc hrc)
        (by have := K12.mu; omega)
      refine ⟨s', cells', ?_, sc1.trans sc2, K12.trans K3, (tab'.fm (K12.finM).symm).mono ?_, hd'.mono ?_⟩
      · simp [processFringe, hb', ec, e1, e2, hdef, es, eb, e, bind, Except.bind]
      · intro r c' hp
        rcases hp with hp | ⟨hm, h1, h2⟩
        · exact Or.inl (Or.inl hp)
        · rcases List.mem_cons.mp hm with heq | hm
          · simp only [Prod.mk.injEq] at heq
            exact Or.inl (Or.inr heq)
          · exact Or.inr ⟨hm, h1, h2⟩
      · intro r c' hp
        rcases hp with hp | hm
        · exact Or.inl (Or.inl hp)
        · rcases List.mem_cons.mp hm with heq | hm
          · simp only [Prod.mk.injEq] at heq
            exact Or.inl (Or.inr heq)
          · exact Or.inr hm

/-! ### the back-trace -/

theorem moveAt_congr {s s' : EdSt} {fm : List (List Nat)} (hT : edT s' fm = edT s fm) (r c : Nat) :
    moveAt s' fm r c = moveAt s fm r c := by simp [moveAt, hT]

theorem ptrace_congr {s s' : EdSt} {fm : List (List Nat)} (hT : edT s' fm = edT s fm) :
    ∀ (k r c : Nat), ptrace s' fm k r c = ptrace s fm k r c
  | 0, _, _ => rfl
  | k + 1, r, c => by simp only [ptrace, moveAt_congr hT, ptrace_congr hT k]

theorem ptrace_same {s s' : EdSt} (sc : SameCtl s s') (fm : List (List Nat)) (k r c : Nat) :
    ptrace s' fm k r c = ptrace s fm k r c := ptrace_congr (sc.edT fm) k r c

theorem backTrace_ok (h : Protocol rec g) :
    ∀ (k : Nat) (s : EdSt) (cells : List (List M)) (P : Nat → Nat → Prop) (row col : Nat)
      (acc : List (Move × Nat × Nat)),
      TabOK s (finM g cells) P →
      (∀ r c, r ≤ s.nt → c ≤ s.nf → (r + c < row + col ∨ r = 0 ∨ c = 0) → P r c) →
      (∀ r ∈ cells, ∀ m ∈ r, g.I m) → MShape cells s.nt s.nf →
      DefOn g cells (fun r c => r ≤ s.nt ∧ c ≤ s.nf) → row ≤ s.nt → col ≤ s.nf → row + col < k →
      ∃ s' cells', backTrace rec k s cells row col acc
          = .ok (s', cells', acc.reverse ++ ptrace s (finM g cells) k row col) ∧
        SameCtl s s' ∧ KeepsLL g cells cells' ∧
        TabOK s' (finM g cells) (fun r c => P r c ∨ (r = row ∧ c = col))
  | 0, _, _, _, _, _, _, _, _, _, _, _, _, _, hk => absurd hk (Nat.not_lt_zero _)
  | k + 1, s, cells, P, row, col, acc, tab, hP, hI, sh, hd, hr, hc, hk => by
    by_cases hz : row = 0 ∧ col = 0
    · obtain ⟨rfl, rfl⟩ := hz
      refine ⟨s, cells, by simp [backTrace, ptrace, pure, Except.pure], SameCtl.refl s, KeepsLL.refl cells hI,
        tab.mono' ?_⟩
      intro r c hr' hc' hp
      rcases hp with hp | ⟨rfl, rfl⟩
      · exact hp
      · exact hP 0 0 hr' hc' (Or.inr (Or.inl rfl))
    · have hz' : (row == 0 && col == 0) = false := by
        cases hrow : row with
        | zero => cases hcol : col with
          | zero => exact absurd ⟨hrow, hcol⟩ hz
          | succ _ => simp
        | succ _ => simp
      -- one `_best_match`
      have step1 : ∃ s1 cells1, bestMatch rec s cells row col = .ok (s1, cells1, moveAt s (finM g cells) row col) ∧
          SameCtl s s1 ∧ KeepsLL g cells cells1 ∧
          TabOK s1 (finM g cells) (fun r c => P r c ∨ (r = row ∧ c = col)) := by
        by_cases hb : row = 0 ∨ col = 0
        · refine ⟨s, cells, bestMatch_border s cells hb (by omega) _, SameCtl.refl s, KeepsLL.refl cells hI,
            tab.mono' ?_⟩
          intro r c hr' hc' hp
          rcases hp with hp | ⟨rfl, rfl⟩
          · exact hp
          · exact hP r c hr' hc' (by omega)
        · obtain ⟨cc, ecc⟩ := mget_ok sh (show row - 1 < s.nt by omega) (show col - 1 < s.nf by omega)
          obtain ⟨s1, cells1, eb, sc1, tab1, K1⟩ := bestMatch_inner h tab hI (by omega) hr (by omega) hc
            (hP _ _ (by omega) (by omega) (by omega)) (hP _ _ (by omega) (by omega) (by omega))
            (hP _ _ (by omega) (by omega) (by omega)) ecc (hd row col cc (by omega) (by omega) ⟨hr, hc⟩ ecc)
          exact ⟨s1, cells1, eb, sc1, K1, tab1⟩
      obtain ⟨s1, cells1, eb, sc1, K1, tab1⟩ := step1
      have hpr : (predOf (moveAt s (finM g cells) row col) row col).1 ≤ s.nt ∧
          (predOf (moveAt s (finM g cells) row col) row col).2 ≤ s.nf ∧
          (predOf (moveAt s (finM g cells) row col) row col).1 + (predOf (moveAt s (finM g cells) row col) row col).2
            < row + col := by
        by_cases hrow : row = 0
        · subst hrow
          simp only [moveAt, beq_self_eq_true, if_true, predOf]; omega
        · by_cases hcol : col = 0
          · subst hcol
            have : (row == 0) = false := by simp [hrow]
            simp only [moveAt, this, Bool.false_eq_true, if_false, beq_self_eq_true, if_true, predOf]; omega
          · cases moveAt s (finM g cells) row col <;> simp only [predOf] <;> omega
      obtain ⟨s2, cells2, e2, sc2, K2, tab2⟩ := backTrace_ok h k s1 cells1
        (fun r c => P r c ∨ (r = row ∧ c = col))
        (predOf (moveAt s (finM g cells) row col) row col).1 (predOf (moveAt s (finM g cells) row col) row col).2
        ((moveAt s (finM g cells) row col, row, col) :: acc)
        (tab1.fm K1.finM)
        (fun r c hr' hc' hp => Or.inl (hP r c (by rw [← sc1.nt]; exact hr') (by rw [← sc1.nf]; exact hc') (by omega)))
        K1.inv (by rw [sc1.nt, sc1.nf]; exact K1.shape sh)
        (by rw [sc1.nt, sc1.nf]; exact hd.keeps h K1)
        (by rw [sc1.nt]; exact hpr.1) (by rw [sc1.nf]; exact hpr.2.1) (by omega)
      refine ⟨s2, cells2, ?_, sc1.trans sc2, K1.trans K2, (tab2.fm K1.finM.symm).mono ?_⟩
      · simp only [backTrace, hz', Bool.false_eq_true, if_false, bind, Except.bind, eb]
        change backTrace rec k s1 cells1 (predOf (moveAt s (finM g cells) row col) row col).1
          (predOf (moveAt s (finM g cells) row col) row col).2 _ = _
        rw [e2]
        simp only [ptrace, hz', Bool.false_eq_true, if_false, List.reverse_cons, List.append_assoc,
          List.singleton_append, ptrace_same sc1, K1.finM]
      · intro r c hp
        rcases hp with hp | hp
        · exact Or.inl (Or.inl hp)
        · exact Or.inl (Or.inr hp)

end

end GtModel.Lazy

/-
  EditDistance protocol, part D: the invariant of a whole `EditDistance`, its exposed interval, `edits()` /
  `bounds()`.
-/
import GtModel.Proofs.LazyEdC

namespace GtModel.Lazy
open GtModel.EditMatrix (Cell Move step spec lexLe goLeft goUp goDiag cellAt)

/-! ### minimum of a list, as `bounds()` computes it -/

theorem foldl_min_le_acc : ∀ (l : List Nat) (a : Nat), l.foldl Nat.min a ≤ a
  | [], _ => Nat.le_refl _
  | x :: xs, a => by
      have := foldl_min_le_acc xs (Nat.min a x)
      simp only [List.foldl, nmin] at this ⊢
      omega

theorem foldl_min_le_mem : ∀ (l : List Nat) (a x : Nat), x ∈ l → l.foldl Nat.min a ≤ x
  | [], _, _, h => by simp at h
  | y :: ys, a, x, h => by
      simp only [List.foldl]
      rcases List.mem_cons.mp h with rfl | h
      · have := foldl_min_le_acc ys (Nat.min a x)
        simp only [nmin] at this ⊢; omega
      · exact foldl_min_le_mem ys _ x h

theorem foldl_min_mem : ∀ (l : List Nat) (a : Nat), l.foldl Nat.min a = a ∨ l.foldl Nat.min a ∈ l
  | [], _ => Or.inl rfl
  | y :: ys, a => by
      simp only [List.foldl]
      rcases foldl_min_mem ys (Nat.min a y) with h | h
      · rw [h]
        simp only [nmin]
        by_cases hh : a ≤ y
        · left; omega
        · right; simp; left; omega
      · right; simp [h]

theorem minD_le {l : List Nat} {x : Nat} (h : x ∈ l) : minD l ≤ x := by
  cases l with
  | nil => simp at h
  | cons y ys =>
    simp only [minD]
    rcases List.mem_cons.mp h with rfl | h
    · exact foldl_min_le_acc ys x
    · exact foldl_min_le_mem ys y x h

theorem minD_mem {l : List Nat} (h : l ≠ []) : minD l ∈ l := by
  cases l with
  | nil => exact absurd rfl h
  | cons y ys =>
    simp only [minD]
    rcases foldl_min_mem ys y with h | h
    · rw [h]; simp
    · simp [h]

theorem minList_eq {l : List Nat} (h : l ≠ []) : minList l = .ok (minD l) := by
  cases l with
  | nil => exact absurd rfl h
  | cons y ys => simp [minList, minD, pure, Except.pure]

/-! ### the exposed interval -/

/-! ### the invariant -/

/-- the lower right cell has been reached -/
def PosComplete (s : EdSt) : Prop := 0 ≤ s.fr ∧ s.nt + s.nf ≤ kOf s

theorem EdInv.complete_iff {g : Ghost} {s : EdSt} {cells : List (List M)} (inv : EdInv g s cells) :
    edComplete s = true ↔ PosComplete s := by
  have nz := inv.nz
  simp only [edComplete, PosComplete, kOf, Bool.or_eq_true, Bool.and_eq_true, decide_eq_true_eq]
  constructor
  · rintro (hf | ⟨⟨h1, h2⟩, _⟩)
    · exact inv.jc (inv.jf.mp hf)
    · exact ⟨h1, h2⟩
  · rintro ⟨h1, h2⟩
    exact Or.inr ⟨⟨h1, h2⟩, nz⟩

theorem EdInv.k_le {g : Ghost} {s : EdSt} {cells : List (List M)} (inv : EdInv g s cells) (h0 : 0 ≤ s.fr) :
    kOf s ≤ s.nt + s.nf := by
  have := inv.pos.hi; have := inv.pos.fc
  simp only [kOf]; omega

theorem EdStat.congr {s s' : EdSt} {fm fm' : List (List Nat)} (h : EdStat s fm) (e1 : s'.rem = s.rem)
    (e2 : s'.ins = s.ins) (e3 : s'.lb0 = s.lb0) (e4 : s'.ub0 = s.ub0) (e5 : fm' = fm) : EdStat s' fm' := by
  have hnt : s'.nt = s.nt := by simp [EdSt.nt, e2]
  have hnf : s'.nf = s.nf := by simp [EdSt.nf, e1]
  have hfin : edFinOf s' fm' = edFinOf s fm := by simp [edFinOf, edT, e1, e2, e5, hnt, hnf]
  exact ⟨by rw [e1]; exact h.remPos, by rw [e2]; exact h.insPos, by rw [e1, e2, e4]; exact h.total,
    by rw [e3, hfin]; exact h.lbFin, by rw [hnt, hnf, e3, e4]; exact h.lbLt⟩

section
variable {rec : Ops} {g : Ghost}

/-- the part of `edits()` after the last cell has been tightened -/
def finTail (rec : Ops) (s : EdSt) (cells1 : List (List M)) : R (EdSt × List (List M)) := do
  let (s1, cells2, tr) ← backTrace rec (s.nt + s.nf + 1) s cells1 s.nt s.nf []
  pure ({ s1 with cache := some tr, freed := true }, cells2)

theorem edFinalize_none (n : Nat) {s : EdSt} (cells : List (List M)) (hc : cornerIdx s = none)
    (hf : s.freed = false) : edFinalize rec n s cells = finTail rec s cells := by
  simp only [edFinalize, finTail, hf, hc, bind, Except.bind, pure, Except.pure]
  rfl

theorem edFinalize_some (n : Nat) {s : EdSt} (cells : List (List M)) {r c : Nat} (hc : cornerIdx s = some (r, c))
    (hf : s.freed = false) {m m' : M} {cells1 : List (List M)} (e1 : mget cells r c = .ok m)
    (e2 : tightenAll rec false n m = .ok m') (e3 : mset cells r c m' = .ok cells1) :
    edFinalize rec n s cells = finTail rec s cells1 := by
  simp only [edFinalize, finTail, hf, hc, bind, Except.bind, pure, Except.pure, e1, e2, e3]
  rfl

/-- `edits()` on a complete matrix without cached script: the last cell is tightened to a single value, the path is
    traced back (filling in the corner), cached, and the matrix is freed -/
theorem edFinalize_ok (h : Protocol rec g) (F : Nat) {s : EdSt} {cells : List (List M)} (inv : EdInv g s cells)
    (hpc : PosComplete s) (hcn : s.cache = none) (hmu : muLLg g cells < F) :
    ∃ s' cells', edFinalize rec F s cells = .ok (s', cells') ∧ EdInv g s' cells' ∧ KeepsLL g cells cells' ∧
      s'.cache.isSome = true ∧ s'.fr = s.fr ∧ s'.fc = s.fc ∧ SameCore s s' := by
  have nz := inv.nz
  have hk : kOf s = s.nt + s.nf := by have := inv.k_le hpc.1; have := hpc.2; omega
  have hnfr : s.freed = false := by
    cases hf : s.freed with
    | false => rfl
    | true => have := inv.jf.mp hf; rw [hcn] at this; cases this
  -- step 1: the last cell
  have step1 : ∃ cells1, edFinalize rec F s cells = finTail rec s cells1 ∧ KeepsLL g cells cells1 ∧
      DefOn g cells1 (fun r c => r ≤ s.nt ∧ c ≤ s.nf) := by
    by_cases hcor : s.nt = 0 ∨ s.nf = 0
    · have e : cornerIdx s = none := by
        rcases hcor with hh | hh <;> simp [cornerIdx, hh]
      refine ⟨cells, edFinalize_none F cells e hnfr, KeepsLL.refl cells inv.cellsI, ?_⟩
      intro r c m hr hc hd _
      omega
    · have hnt : s.nt ≠ 0 := fun hh => hcor (Or.inl hh)
      have hnf : s.nf ≠ 0 := fun hh => hcor (Or.inr hh)
      have e : cornerIdx s = some (s.nt - 1, s.nf - 1) := by simp [cornerIdx, hnt, hnf]
      obtain ⟨m, em⟩ := mget_ok inv.shape (show s.nt - 1 < s.nt by omega) (show s.nf - 1 < s.nf by omega)
      have hIm := mget_inv inv.cellsI em
      have hmm := mget_mu_le (g := g) em
      obtain ⟨m', et, km, dm⟩ := tightenAll_ok h false F m hIm (by omega)
      obtain ⟨cells1, es, K1, get1, _⟩ := mset_keeps inv.cellsI em km
      refine ⟨cells1, edFinalize_some F cells e hnfr em et es, K1, ?_⟩
      intro r c x hr hc hd hx
      by_cases hcorner : r = s.nt ∧ c = s.nf
      · obtain ⟨rfl, rfl⟩ := hcorner
        rw [get1] at hx; cases hx; exact dm
      · have hlt : r + c < s.nt + s.nf := by omega
        exact (inv.defs.keeps h K1) r c x hr hc ⟨hd.1, hd.2, hpc.1, by omega, Or.inl hlt⟩ hx
  obtain ⟨cells1, e1, K1, hd1⟩ := step1
  -- step 2: the back-trace
  obtain ⟨s1, cells2, e2, sc, K2, tab2⟩ := backTrace_ok h (s.nt + s.nf + 1) s cells1 (Filled s) s.nt s.nf []
    (inv.tab.fm K1.finM)
    (fun r c hr hc hp => Or.inr ⟨hpc.1, by omega, by omega⟩)
    K1.inv (K1.shape inv.shape) hd1 (Nat.le_refl _) (Nat.le_refl _) (by omega)
  have K := K1.trans K2
  have hfm : finM g cells2 = finM g cells := K.finM
  have hfm1 : finM g cells1 = finM g cells := K1.finM
  refine ⟨{ s1 with cache := some (ptrace s (finM g cells1) (s.nt + s.nf + 1) s.nt s.nf), freed := true }, cells2,
    ?_, ?_, K, rfl, sc.fr, sc.fc,
    ⟨sc.pre, sc.suf, sc.flen, sc.tlen, sc.lb0, sc.ub0, sc.rem, sc.ins⟩⟩
  · rw [e1]
    simp only [finTail, e2, bind, Except.bind, pure, Except.pure, List.reverse_nil, List.nil_append]
  · have hnt := sc.nt; have hnf := sc.nf
    refine ⟨by show 0 < s1.nt + s1.nf; omega, ?_, ?_, K.inv, ?_, ?_, ?_, ?_, ?_, ?_, ?_⟩
    · exact ⟨by show -1 ≤ s1.fr; rw [sc.fr]; exact inv.pos.lo, by show s1.fr ≤ s1.nt; rw [sc.fr, hnt]; exact inv.pos.hi,
        by show s1.fc ≤ s1.nf; rw [sc.fc, hnf]; exact inv.pos.fc,
        by show s1.fr < s1.nt → s1.fc = 0; rw [sc.fr, sc.fc, hnt]; exact inv.pos.z⟩
    · show MShape cells2 s1.nt s1.nf
      rw [hnt, hnf]; exact K.shape inv.shape
    · refine ⟨tab2.shC, tab2.shP, ?_⟩
      intro r c hr hc hf
      have hr' : r ≤ s.nt := by rw [← hnt]; exact hr
      have hc' : c ≤ s.nf := by rw [← hnf]; exact hc
      have hm := tab2.ok r c hr hc (by
        by_cases hcorner : r = s.nt ∧ c = s.nf
        · exact Or.inr hcorner
        · exact Or.inl (Or.inr ⟨hpc.1, by omega, by omega⟩))
      show Match _ (finM g cells2) r c
      rw [hfm, ← hfm1]
      exact hm
    · intro r c x hr hc hd hx
      exact (hd1.keeps h K2) r c x hr hc ⟨by have := hd.1; rw [← hnt]; exact this, by have := hd.2.1; rw [← hnf]; exact this⟩ hx
    · intro h0 r c
      show (r, c) ∈ s1.lastFringe ↔ (r ≤ s1.nt ∧ c ≤ s1.nf ∧ r + c + 1 = s1.fr.toNat + s1.fc)
      rw [sc.last, hnt, hnf, sc.fr, sc.fc]
      exact inv.last hpc.1 r c
    · exact ⟨fun _ => rfl, fun _ => rfl⟩
    · intro _
      show 0 ≤ s1.fr ∧ s1.nt + s1.nf ≤ s1.fr.toNat + s1.fc
      rw [sc.fr, sc.fc, hnt, hnf]; exact hpc
    · intro tr htr
      simp only [Option.some.injEq] at htr
      rw [← htr]
      show _ = ptrace _ (finM g cells2) (s1.nt + s1.nf + 1) s1.nt s1.nf
      rw [hnt, hnf, hfm, hfm1]
      exact (ptrace_congr (by simp [edT, sc.rem, sc.ins]) _ _ _).symm
    · exact inv.stat.congr sc.rem sc.ins sc.lb0 sc.ub0 hfm

/-! ### soundness of the exposed interval -/

theorem edFin_eq_solve (s : EdSt) (fm : List (List Nat)) : edFinOf s fm = (EditMatrix.solve s.rem s.ins fm).1 := by
  rw [EditMatrix.solve_eq_spec]; rfl

theorem edFin_le_ub {s : EdSt} {fm : List (List Nat)} (st : EdStat s fm) : edFinOf s fm ≤ s.ub0 := by
  have := EditMatrix.solve_total_le s.rem s.ins fm
  rw [edFin_eq_solve]
  have := st.total
  omega

/-- the fringe minimum is a lower bound for the two diagonals it is taken over -/
theorem fringe_lb {s : EdSt} (fm : List (List Nat)) (pos : Pos s) (h1 : 1 ≤ s.fr)
    (hl : ∀ r c, (r, c) ∈ s.lastFringe ↔ (r ≤ s.nt ∧ c ≤ s.nf ∧ r + c + 1 = kOf s)) :
    EditMatrix.FringeLB s.rem s.ins fm s.nt s.nf (kOf s) (fringeMin s fm) := by
  intro r c hr hc hk
  have hph := pos.hi; have hpf := pos.fc; have hpz := pos.z
  rcases hk with hk | hk
  · have hmem : (r, c) ∈ diag s.fr s.fc s.nf := by
      refine (mem_diag (by omega) hpf).mpr ?_
      simp only [kOf] at hk
      by_cases hlt : s.fr < s.nt
      · have := hpz hlt; omega
      · omega
    have : (spec s.rem s.ins fm r c).cost ∈ costsOn s fm (diag s.fr s.fc s.nf) :=
      List.mem_map.mpr ⟨(r, c), hmem, rfl⟩
    have := minD_le this
    simp only [fringeMin, nmin]; omega
  · have hmem : (r, c) ∈ s.lastFringe := (hl r c).mpr ⟨hr, hc, hk⟩
    have : (spec s.rem s.ins fm r c).cost ∈ costsOn s fm s.lastFringe :=
      List.mem_map.mpr ⟨(r, c), hmem, rfl⟩
    have := minD_le this
    simp only [fringeMin, nmin]; omega

theorem fringeMin_le_fin {s : EdSt} (fm : List (List Nat)) (pos : Pos s) (h1 : 1 ≤ s.fr)
    (hl : ∀ r c, (r, c) ∈ s.lastFringe ↔ (r ≤ s.nt ∧ c ≤ s.nf ∧ r + c + 1 = kOf s)) :
    fringeMin s fm ≤ edFinOf s fm := by
  have hk : kOf s ≤ s.ins.length + s.rem.length := by
    have := pos.hi; have := pos.fc
    simp only [kOf, EdSt.nt, EdSt.nf] at *; omega
  rw [edFin_eq_solve]
  exact EditMatrix.fringeLB_sound s.rem s.ins fm (kOf s) (fringeMin s fm) hk (fringe_lb fm pos h1 hl)

/-- `wf`: the exposed interval contains the final cost -/
theorem edView_wf {g : Ghost} {s : EdSt} {cells : List (List M)} (inv : EdInv g s cells) :
    (edViewOf s (finM g cells)).lo ≤ edFinOf s (finM g cells) ∧
      edFinOf s (finM g cells) ≤ (edViewOf s (finM g cells)).hi := by
  have hub := edFin_le_ub inv.stat
  have hlb := inv.stat.lbFin
  simp only [edViewOf]
  split
  · simp [Iv.point]
  · split
    · exact ⟨hlb, hub⟩
    · rename_i hfr
      have h1 : 1 ≤ s.fr := by omega
      have := fringeMin_le_fin (finM g cells) inv.pos h1 (inv.last (by omega))
      simp only [Nat.max_def]
      constructor
      · split <;> omega
      · exact hub

/-! ### `bounds()` -/

theorem mapM_tget {s : EdSt} {fm : List (List Nat)} : ∀ (l : List (Nat × Nat)),
    (∀ rc ∈ l, Match s fm rc.1 rc.2) →
    l.mapM (fun (rc : Nat × Nat) => match rc with | (r, c) => tget s.costs r c) = .ok (costsOn s fm l)
  | [], _ => rfl
  | (r, c) :: rest, hm => by
      have h1 := (hm (r, c) (by simp)).1
      have h2 := mapM_tget rest (fun rc hrc => hm rc (by simp [hrc]))
      simp only [List.mapM_cons, bind, Except.bind, h1, h2, costsOn, List.map, pure, Except.pure]

/-- the last fringe is not empty once a second diagonal has been started -/
theorem last_ne {s : EdSt} (pos : Pos s) (h1 : 1 ≤ s.fr)
    (hl : ∀ r c, (r, c) ∈ s.lastFringe ↔ (r ≤ s.nt ∧ c ≤ s.nf ∧ r + c + 1 = kOf s)) : s.lastFringe ≠ [] := by
  have hph := pos.hi; have hpf := pos.fc; have hpz := pos.z
  have hmem : (s.fr.toNat - 1, s.fc) ∈ s.lastFringe := by
    refine (hl _ _).mpr ⟨by omega, hpf, ?_⟩
    simp only [kOf]; omega
  intro he; rw [he] at hmem; simp at hmem

theorem diag_ne {fr : Int} {fc nf : Nat} (h0 : 0 ≤ fr) (hfc : fc ≤ nf) : diag fr fc nf ≠ [] := by
  have hmem : (fr.toNat, fc) ∈ diag fr fc nf := (mem_diag h0 hfc).mpr ⟨rfl, Nat.le_refl _, hfc, Nat.le_refl _⟩
  intro he; rw [he] at hmem; simp at hmem

theorem edBounds_ok (h : Protocol rec g) (F : Nat) {s : EdSt} {cells : List (List M)} (inv : EdInv g s cells)
    (hmu : muLLg g cells < F) :
    ∃ s' cells', edBounds rec F s cells = .ok (s', cells', edViewOf s (finM g cells)) ∧ EdInv g s' cells' ∧
      KeepsLL g cells cells' ∧ s'.fr = s.fr ∧ s'.fc = s.fc ∧ SameCore s s' ∧
      (edComplete s' = true → s'.cache.isSome = true) ∧ (edComplete s = false → s' = s ∧ cells' = cells) := by
  by_cases hc : edComplete s = true
  · have hpc := inv.complete_iff.mp hc
    have hk : kOf s = s.nt + s.nf := by have := inv.k_le hpc.1; have := hpc.2; omega
    cases hcache : s.cache with
    | none =>
      obtain ⟨s', cells', e, inv', K, hsome, efr, efc, st⟩ := edFinalize_ok h F inv hpc hcache hmu
      have hnt : s'.nt = s.nt := st.nt
      have hnf : s'.nf = s.nf := st.nf
      have hm := inv'.tab.ok s'.nt s'.nf (Nat.le_refl _) (Nat.le_refl _)
        (Or.inr ⟨by rw [efr]; exact hpc.1, by simp only [kOf, efr, efc, hnt, hnf]; have := hpc.2; simp only [kOf] at this; omega,
          Or.inr (Or.inr (Or.inr hsome))⟩)
      have hT : edT s' (finM g cells') = edT s (finM g cells) := by rw [st.edT, K.finM]
      rw [hnt, hnf] at hm
      simp only [Match, hT] at hm
      refine ⟨s', cells', ?_, inv', K, efr, efc, st, fun _ => hsome, fun hh => (by rw [hc] at hh; cases hh)⟩
      simp only [edBounds, hc, if_true, hcache, Option.isNone_none, e, bind, Except.bind, hnt, hnf, hm.1, pure,
        Except.pure, edViewOf, edFinOf]
    | some tr =>
      have hsome : s.cache.isSome = true := by rw [hcache]; rfl
      have hm := inv.tab.ok s.nt s.nf (Nat.le_refl _) (Nat.le_refl _)
        (Or.inr ⟨hpc.1, by omega, Or.inr (Or.inr (Or.inr hsome))⟩)
      refine ⟨s, cells, ?_, inv, KeepsLL.refl cells inv.cellsI, rfl, rfl,
        SameCore.refl s, fun _ => hsome, fun hh => (by rw [hc] at hh; cases hh)⟩
      simp only [edBounds, hc, if_true, hcache, Option.isNone_some, Bool.false_eq_true, if_false, bind, Except.bind,
        hm.1, pure, Except.pure, edViewOf, edFinOf]
  · have hcf : edComplete s = false := by
      cases hh : edComplete s with
      | true => exact absurd hh hc
      | false => rfl
    have wf := edView_wf inv
    have hub := edFin_le_ub inv.stat
    refine ⟨s, cells, ?_, inv, KeepsLL.refl cells inv.cellsI, rfl, rfl,
      SameCore.refl s, fun hh => (by rw [hcf] at hh; cases hh), fun _ => ⟨rfl, rfl⟩⟩
    by_cases hfr : s.fr ≤ 0
    · simp only [edViewOf, hcf, Bool.false_eq_true, if_false, hfr, if_true] at wf ⊢
      have hle : ¬ (s.ub0 < s.lb0) := by omega
      simp [edBounds, hcf, hfr, Iv.mk?, hle, bind, Except.bind, pure, Except.pure]
    · have h1 : 1 ≤ s.fr := by omega
      have h0 : 0 ≤ s.fr := by omega
      have hl := inv.last h0
      have hph := inv.pos.hi; have hpf := inv.pos.fc; have hpz := inv.pos.z
      have hk := inv.k_le h0
      have hnotpc : ¬ PosComplete s := fun hp => hc (inv.complete_iff.mpr hp)
      have hklt : kOf s < s.nt + s.nf := by
        simp only [PosComplete] at hnotpc; omega
      -- every cell of the two fringes is filled in
      have hcur : ∀ rc ∈ diag s.fr s.fc s.nf, Match s (finM g cells) rc.1 rc.2 := by
        intro rc hrc
        obtain ⟨r, c⟩ := rc
        have hm := (mem_diag h0 hpf).mp hrc
        refine inv.tab.ok r c (by omega) (by omega) (Or.inr ⟨h0, by simp only [kOf]; omega, ?_⟩)
        simp only [kOf] at hklt
        exact Or.inr (Or.inr (Or.inl (by omega)))
      have hlast : ∀ rc ∈ s.lastFringe, Match s (finM g cells) rc.1 rc.2 := by
        intro rc hrc
        obtain ⟨r, c⟩ := rc
        have hm := (hl r c).mp hrc
        exact inv.tab.ok r c hm.1 hm.2.1 (Or.inr ⟨h0, by omega, Or.inr (Or.inr (Or.inl (by omega)))⟩)
      have e1 := mapM_tget _ hcur
      have e2 := mapM_tget _ hlast
      have n1 : costsOn s (finM g cells) (diag s.fr s.fc s.nf) ≠ [] := by
        simp only [costsOn, ne_eq, List.map_eq_nil_iff]; exact diag_ne h0 hpf
      have n2 : costsOn s (finM g cells) s.lastFringe ≠ [] := by
        simp only [costsOn, ne_eq, List.map_eq_nil_iff]; exact last_ne inv.pos h1 hl
      simp only [edViewOf, hcf, Bool.false_eq_true, if_false, hfr] at wf ⊢
      have hle : ¬ (s.ub0 < Nat.max s.lb0 (fringeMin s (finM g cells))) := by omega
      simp only [edBounds, hcf, Bool.false_eq_true, if_false, hfr, bind, Except.bind, e1, e2, minList_eq n1,
        minList_eq n2, Iv.mk?, pure, Except.pure]
      simp only [fringeMin] at hle
      simp [hle, fringeMin]

end

end GtModel.Lazy
